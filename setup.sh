#!/bin/sh
# Offline build of the framework from files on disk only.
set -e
cd "$(dirname "$0")"
export GOFLAGS=-mod=mod GOPROXY=off
mkdir -p .build/bin evidence replays
export GOCACHE="$PWD/.build/gocache"
cp /repo/go.sum harness/go.sum
(cd harness && go build -o ../.build/bin/extract ./cmd/extract && go build -tags verif -o ../.build/bin/corr ./cmd/corr)
.build/bin/extract /repo lean/Wl2kVerif/Gen
(cd lean && lake build && lake build $(ls Wl2kVerif/Props/*.lean | sed -e 's#/#.#g' -e 's#\.lean$##'))
