module verifharness

go 1.24.0

require github.com/la5nta/wl2k-go v0.0.0

require github.com/paulrosania/go-charset v0.0.0-20190326053356-55c9d7a5834c // indirect

replace github.com/la5nta/wl2k-go => /repo
