package main

// AGWPE facts (property C13): header struct layout, frame kind constants, which header fields each frame
// constructor sets, the read primitive of frame.ReadFrom, queue capacities and the enqueue discipline of
// the demultiplexer, whether Conn.Read / demux.Chain can panic.

import (
	"fmt"
	"go/ast"
	"go/token"
	"sort"
	"strconv"
	"strings"
)

// typeSize: size in bytes of a field type as encoding/binary sees it (named types resolved in the package).
func (p *pkg) typeSize(e ast.Expr) int {
	switch t := e.(type) {
	case *ast.Ident:
		switch t.Name {
		case "uint8", "int8", "byte", "bool":
			return 1
		case "uint16", "int16":
			return 2
		case "uint32", "int32":
			return 4
		case "uint64", "int64":
			return 8
		}
		if ts := p.typeSpec(t.Name); ts != nil {
			return p.typeSize(ts.Type)
		}
	case *ast.ArrayType:
		if t.Len != nil {
			return int(p.eval(t.Len, 0)) * p.typeSize(t.Elt)
		}
	}
	fatal("agwpe: cannot size type %T", e)
	return 0
}

func (p *pkg) typeSpec(name string) *ast.TypeSpec {
	for _, f := range p.files {
		for _, d := range f.Decls {
			if gd, ok := d.(*ast.GenDecl); ok && gd.Tok == token.TYPE {
				for _, s := range gd.Specs {
					if ts := s.(*ast.TypeSpec); ts.Name.Name == name {
						return ts
					}
				}
			}
		}
	}
	return nil
}

func leanPairs(name string, xs [][2]string, numeric bool) string {
	var b strings.Builder
	ty := "String"
	if numeric {
		ty = "Nat"
	}
	fmt.Fprintf(&b, "def %s : List (String × %s) := [", name, ty)
	for i, x := range xs {
		if i > 0 {
			b.WriteString(", ")
		}
		if numeric {
			fmt.Fprintf(&b, "(%q, %s)", x[0], x[1])
		} else {
			fmt.Fprintf(&b, "(%q, %q)", x[0], x[1])
		}
	}
	b.WriteString("]\n")
	return b.String()
}

// headerFieldsSet: the header field names given in composite literals `header{...}` inside a function.
func headerFieldsSet(fd *ast.FuncDecl) []string {
	set := map[string]bool{}
	ast.Inspect(fd.Body, func(n ast.Node) bool {
		cl, ok := n.(*ast.CompositeLit)
		if !ok {
			return true
		}
		if id, ok := cl.Type.(*ast.Ident); !ok || id.Name != "header" {
			return true
		}
		for _, e := range cl.Elts {
			if kv, ok := e.(*ast.KeyValueExpr); ok {
				if k, ok := kv.Key.(*ast.Ident); ok {
					set[k.Name] = true
				}
			}
		}
		return true
	})
	var out []string
	for k := range set {
		out = append(out, k)
	}
	sort.Strings(out)
	return out
}

func hasParam(fd *ast.FuncDecl, name string) bool {
	for _, f := range fd.Type.Params.List {
		for _, n := range f.Names {
			if n.Name == name {
				return true
			}
		}
	}
	return false
}

// chanCap: the capacity argument of the first `make(chan frame, N)` assigned to field <field> in fd ("" if none).
func makeChanCaps(fd *ast.FuncDecl) []int64 {
	var out []int64
	if fd == nil {
		return out
	}
	ast.Inspect(fd.Body, func(n ast.Node) bool {
		ce, ok := n.(*ast.CallExpr)
		if !ok {
			return true
		}
		if id, ok := ce.Fun.(*ast.Ident); ok && id.Name == "make" && len(ce.Args) >= 1 {
			if _, ok := ce.Args[0].(*ast.ChanType); ok {
				if len(ce.Args) == 2 {
					if bl, ok := ce.Args[1].(*ast.BasicLit); ok {
						v, _ := strconv.ParseInt(bl.Value, 0, 64)
						out = append(out, v)
					} else {
						out = append(out, -1) // not a literal
					}
				} else {
					out = append(out, 0)
				}
			}
		}
		return true
	})
	return out
}

// selectHasDefault: some select statement in fd has a default clause (non-blocking send/receive).
func selectHasDefault(fd *ast.FuncDecl) bool {
	found := false
	if fd == nil {
		return false
	}
	ast.Inspect(fd.Body, func(n ast.Node) bool {
		if ss, ok := n.(*ast.SelectStmt); ok {
			for _, c := range ss.Body.List {
				if cc, ok := c.(*ast.CommClause); ok && cc.Comm == nil {
					found = true
				}
			}
		}
		return true
	})
	return found
}

// firstIntArg: first integer literal argument of the first call to <callee> in fd.
func firstIntArg(fd *ast.FuncDecl, callee string) int64 {
	var out int64 = -1
	if fd == nil {
		return out
	}
	ast.Inspect(fd.Body, func(n ast.Node) bool {
		ce, ok := n.(*ast.CallExpr)
		if !ok || out >= 0 {
			return true
		}
		name := ""
		switch f := ce.Fun.(type) {
		case *ast.SelectorExpr:
			name = exprStr(f.X) + "." + f.Sel.Name
		case *ast.Ident:
			name = f.Name
		}
		if name == callee && len(ce.Args) > 0 {
			if bl, ok := ce.Args[0].(*ast.BasicLit); ok && bl.Kind == token.INT {
				out, _ = strconv.ParseInt(bl.Value, 0, 64)
			}
		}
		return true
	})
	return out
}

func contains(xs []string, s string) bool {
	for _, x := range xs {
		if x == s {
			return true
		}
	}
	return false
}

func agwpeFacts(ag *pkg) string {
	var b strings.Builder
	// header layout
	ts := ag.typeSpec("header")
	if ts == nil {
		fatal("agwpe: type header not found")
	}
	st, ok := ts.Type.(*ast.StructType)
	if !ok {
		fatal("agwpe: header is not a struct")
	}
	var layout [][2]string
	for _, f := range st.Fields.List {
		sz := ag.typeSize(f.Type)
		if len(f.Names) == 0 {
			layout = append(layout, [2]string{"?", strconv.Itoa(sz)})
		}
		for _, n := range f.Names {
			layout = append(layout, [2]string{n.Name, strconv.Itoa(sz)})
		}
	}
	b.WriteString(leanPairs("agwpeHeaderLayout", layout, true))
	// kind constants
	var kinds [][2]string
	var names []string
	for n := range ag.consts {
		if strings.HasPrefix(n, "kind") {
			names = append(names, n)
		}
	}
	sort.Strings(names)
	for _, n := range names {
		kinds = append(kinds, [2]string{n, strconv.FormatInt(ag.constVal(n), 10)})
	}
	b.WriteString(leanPairs("agwpeKinds", kinds, true))
	// constructors: header fields set, and whether they take a port
	var ctorNames []string
	for _, f := range ag.files {
		for _, d := range f.Decls {
			if fd, ok := d.(*ast.FuncDecl); ok && fd.Recv == nil && strings.HasSuffix(fd.Name.Name, "Frame") && fd.Body != nil {
				ctorNames = append(ctorNames, fd.Name.Name)
			}
		}
	}
	sort.Strings(ctorNames)
	fmt.Fprintf(&b, "def agwpeCtorHeaderFields : List (String × Bool × List String) := [")
	for i, n := range ctorNames {
		fd := ag.funcDecl(n)
		if i > 0 {
			b.WriteString(",")
		}
		fields := headerFieldsSet(fd)
		// connectFrame delegates to connectViaFrame for the digipeater case; both literals are inspected separately.
		fmt.Fprintf(&b, "\n  (%q, %v, [", n, hasParam(fd, "port"))
		for j, f := range fields {
			if j > 0 {
				b.WriteString(", ")
			}
			fmt.Fprintf(&b, "%q", f)
		}
		b.WriteString("])")
	}
	b.WriteString("]\n")
	// queues
	caps := makeChanCaps(ag.funcDecl("newDemux"))
	inCap := int64(-1)
	if len(caps) > 0 {
		inCap = caps[0]
	}
	fmt.Fprintf(&b, "def agwpeDemuxInCap : Int := %d\n", inCap)
	fmt.Fprintf(&b, "def agwpeConnDataFramesCap : Int := %d\n", firstIntArg(ag.funcDecl("newConn"), "demux.Frames"))
	fmt.Fprintf(&b, "def agwpeChainFramesCap : Int := %d\n", firstIntArg(ag.funcDecl("demux.Chain"), "d.Frames"))
	fmt.Fprintf(&b, "def agwpeEnqueueNonBlocking : Bool := %v\n", selectHasDefault(ag.funcDecl("demux.Enqueue")))
	b.WriteString(leanStrList("agwpeConnReadCalls", callsIn(ag.funcDecl("Conn.Read"))))
	b.WriteString(leanStrList("agwpeDemuxChainCalls", callsIn(ag.funcDecl("demux.Chain"))))
	b.WriteString(leanStrList("agwpePortWriteCalls", callsIn(ag.funcDecl("Port.write"))))
	return b.String()
}
