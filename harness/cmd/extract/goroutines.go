package main

// Goroutine access facts (C17): for every `go func(){...}()` literal inside the named functions, which
// variables declared in the enclosing function it touches and how, and how the enclosing function
// touches the same variables AFTER the go statement (i.e. concurrently with the goroutine).
//
// Emitted per (function, variable): its declared/inferred type, the goroutine-side accesses
// (method name or "read"/"write", plus whether the access sits in a branch entered by receiving from a
// channel that the enclosing function only closes in a defer: such an access happens after the whole
// function body), and the function-side accesses. Anything the extractor cannot classify is emitted
// as kind "unknown" so that the Lean criterion fails closed.

import (
	"fmt"
	"go/ast"
	"go/token"
	"sort"
	"strings"
)

type access struct {
	kind    string // method name, "read", "write", "send", "recv", "close"
	guarded bool   // goroutine side only: inside a branch guarded by recv from a defer-closed channel
}

func typeOfDecl(e ast.Expr) string {
	switch x := e.(type) {
	case *ast.CallExpr:
		f := exprStr(x.Fun)
		switch f {
		case "bytes.NewBuffer", "bytes.NewBufferString":
			return "*bytes.Buffer"
		case "time.NewTicker":
			return "*time.Ticker"
		case "bufio.NewWriter":
			return "*bufio.Writer"
		case "make":
			if len(x.Args) > 0 {
				if _, ok := x.Args[0].(*ast.ChanType); ok {
					return "chan"
				}
			}
		case "new":
			if len(x.Args) > 0 {
				return "*" + exprStr(x.Args[0])
			}
		}
		return "call:" + f
	case *ast.FuncLit:
		return "func"
	case *ast.BasicLit:
		return "basic"
	}
	return "expr"
}

func goroutineFacts(p *pkg, funcs []string) string {
	var b strings.Builder
	b.WriteString("/-- (function, variable, type, goroutine-side accesses (kind, guarded-by-deferred-close), function-side accesses after the go statement) -/\n")
	b.WriteString("def goroutineAccessFacts : List (String × String × String × List (String × Bool) × List String) := [")
	first := true
	for _, fname := range funcs {
		fd := p.funcDecl(fname)
		if fd == nil || fd.Body == nil {
			continue
		}
		// local declarations and their types
		types := map[string]string{}
		ast.Inspect(fd.Body, func(n ast.Node) bool {
			switch x := n.(type) {
			case *ast.FuncLit:
				return true
			case *ast.AssignStmt:
				if x.Tok == token.DEFINE {
					for i, l := range x.Lhs {
						if id, ok := l.(*ast.Ident); ok && id.Name != "_" {
							if len(x.Rhs) == len(x.Lhs) {
								types[id.Name] = typeOfDecl(x.Rhs[i])
							} else if _, seen := types[id.Name]; !seen {
								types[id.Name] = "multi"
							}
						}
					}
				}
			case *ast.DeclStmt:
				if gd, ok := x.Decl.(*ast.GenDecl); ok {
					for _, sp := range gd.Specs {
						if vs, ok := sp.(*ast.ValueSpec); ok {
							for i, id := range vs.Names {
								switch {
								case vs.Type != nil:
									types[id.Name] = exprStr(vs.Type)
								case i < len(vs.Values):
									types[id.Name] = typeOfDecl(vs.Values[i])
								}
							}
						}
					}
				}
			}
			return true
		})
		// channels closed only in a defer
		deferClosed := map[string]bool{}
		ast.Inspect(fd.Body, func(n ast.Node) bool {
			if d, ok := n.(*ast.DeferStmt); ok {
				ast.Inspect(d.Call, func(m ast.Node) bool {
					if ce, ok := m.(*ast.CallExpr); ok {
						if id, ok := ce.Fun.(*ast.Ident); ok && id.Name == "close" && len(ce.Args) == 1 {
							deferClosed[exprStr(ce.Args[0])] = true
						}
					}
					return true
				})
			}
			return true
		})
		// find go statements (top level of the function body statements list, any depth)
		var goStmts []*ast.GoStmt
		ast.Inspect(fd.Body, func(n ast.Node) bool {
			if g, ok := n.(*ast.GoStmt); ok {
				goStmts = append(goStmts, g)
				return false
			}
			return true
		})
		for _, g := range goStmts {
			lit, ok := g.Call.Fun.(*ast.FuncLit)
			if !ok {
				continue
			}
			// names declared inside the literal are goroutine-local, not shared
			inner := map[string]bool{}
			ast.Inspect(lit.Body, func(n ast.Node) bool {
				switch x := n.(type) {
				case *ast.AssignStmt:
					if x.Tok == token.DEFINE {
						for _, l := range x.Lhs {
							if id, ok := l.(*ast.Ident); ok {
								inner[id.Name] = true
							}
						}
					}
				case *ast.ValueSpec:
					for _, id := range x.Names {
						inner[id.Name] = true
					}
				}
				return true
			})
			gacc := map[string][]access{}
			collect(lit.Body, types, deferClosed, false, func(v string, a access) {
				if !inner[v] {
					gacc[v] = append(gacc[v], a)
				}
			})
			// function-side accesses after the go statement (source position after it), outside any func literal
			// that is itself a goroutine; deferred closures run at return: they are function-side too.
			macc := map[string][]access{}
			ast.Inspect(fd.Body, func(n ast.Node) bool {
				if n == nil {
					return true
				}
				if n == ast.Node(g) {
					return false
				}
				if gs, ok := n.(*ast.GoStmt); ok && gs != g {
					return false
				}
				if n.Pos() < g.End() {
					// statements before the go statement happen-before the goroutine starts
					if _, isStmt := n.(ast.Stmt); isStmt && n.End() <= g.Pos() {
						return false
					}
				}
				return true
			})
			collectAfter(fd.Body, g, types, func(v string, a access) { macc[v] = append(macc[v], a) })
			var vars []string
			for v := range gacc {
				vars = append(vars, v)
			}
			sort.Strings(vars)
			for _, v := range vars {
				if !first {
					b.WriteString(",")
				}
				first = false
				fmt.Fprintf(&b, "\n  (%q, %q, %q, [", fname, v, types[v])
				for i, a := range gacc[v] {
					if i > 0 {
						b.WriteString(", ")
					}
					fmt.Fprintf(&b, "(%q, %v)", a.kind, a.guarded)
				}
				b.WriteString("], [")
				seen := map[string]bool{}
				i := 0
				for _, a := range macc[v] {
					if seen[a.kind] {
						continue
					}
					seen[a.kind] = true
					if i > 0 {
						b.WriteString(", ")
					}
					i++
					fmt.Fprintf(&b, "%q", a.kind)
				}
				b.WriteString("])")
			}
		}
	}
	b.WriteString("]\n")
	return b.String()
}

// collect records accesses to local variables (those in `types`) inside node n.
func collect(n ast.Node, types map[string]string, deferClosed map[string]bool, guarded bool, emit func(string, access)) {
	if n == nil {
		return
	}
	switch x := n.(type) {
	case *ast.SelectStmt:
		for _, cl := range x.Body.List {
			cc := cl.(*ast.CommClause)
			g := guarded
			if cc.Comm != nil {
				if snd, ok := cc.Comm.(*ast.SendStmt); ok {
					emit(exprStr(snd.Chan), access{"send", guarded})
				}
				if ch := recvChan(cc.Comm); ch != "" {
					emit(ch, access{"recv", guarded})
					if deferClosed[ch] {
						g = true
					}
				}
			}
			for _, st := range cc.Body {
				collect(st, types, deferClosed, g, emit)
			}
		}
		return
	case *ast.CallExpr:
		if sel, ok := x.Fun.(*ast.SelectorExpr); ok {
			if id, ok := sel.X.(*ast.Ident); ok {
				if _, local := types[id.Name]; local {
					emit(id.Name, access{sel.Sel.Name, guarded})
					for _, a := range x.Args {
						collect(a, types, deferClosed, guarded, emit)
					}
					return
				}
			}
		}
		if id, ok := x.Fun.(*ast.Ident); ok && id.Name == "close" && len(x.Args) == 1 {
			emit(exprStr(x.Args[0]), access{"close", guarded})
			return
		}
	case *ast.UnaryExpr:
		if x.Op == token.ARROW {
			emit(exprStr(x.X), access{"recv", guarded})
			return
		}
	case *ast.SendStmt:
		emit(exprStr(x.Chan), access{"send", guarded})
		collect(x.Value, types, deferClosed, guarded, emit)
		return
	case *ast.AssignStmt:
		for _, l := range x.Lhs {
			if id, ok := l.(*ast.Ident); ok {
				if _, local := types[id.Name]; local && x.Tok != token.DEFINE {
					emit(id.Name, access{"write", guarded})
				}
			} else {
				collect(l, types, deferClosed, guarded, emit)
			}
		}
		for _, r := range x.Rhs {
			collect(r, types, deferClosed, guarded, emit)
		}
		return
	case *ast.IncDecStmt:
		if id, ok := x.X.(*ast.Ident); ok {
			if _, local := types[id.Name]; local {
				emit(id.Name, access{"write", guarded})
				return
			}
		}
	case *ast.Ident:
		if _, local := types[x.Name]; local {
			emit(x.Name, access{"read", guarded})
		}
		return
	case *ast.SelectorExpr:
		// x.f : a read of x unless x is a package
		collect(x.X, types, deferClosed, guarded, emit)
		return
	}
	// generic descent
	ast.Inspect(n, func(m ast.Node) bool {
		if m == n || m == nil {
			return true
		}
		collect(m, types, deferClosed, guarded, emit)
		return false
	})
}

func recvChan(st ast.Stmt) string {
	var e ast.Expr
	switch x := st.(type) {
	case *ast.ExprStmt:
		e = x.X
	case *ast.AssignStmt:
		if len(x.Rhs) == 1 {
			e = x.Rhs[0]
		}
	}
	if u, ok := e.(*ast.UnaryExpr); ok && u.Op == token.ARROW {
		return exprStr(u.X)
	}
	return ""
}

// collectAfter records function-side accesses that can run concurrently with goroutine g: everything in
// the body positioned after the go statement (loops make earlier statements of an enclosing loop body
// concurrent too; the two functions of interest start their goroutine outside any loop).
func collectAfter(body *ast.BlockStmt, g *ast.GoStmt, types map[string]string, emit func(string, access)) {
	ast.Inspect(body, func(n ast.Node) bool {
		if n == nil {
			return true
		}
		if _, ok := n.(*ast.GoStmt); ok {
			return false
		}
		if st, ok := n.(ast.Stmt); ok {
			if _, isBlock := st.(*ast.BlockStmt); !isBlock && st.Pos() > g.End() {
				collect(st, types, map[string]bool{}, false, emit)
				return false
			}
		}
		return true
	})
}
