package main

import (
	"bytes"
	"fmt"
	"go/ast"
	"go/printer"
	"sort"
	"strings"
)

// ardopConnFacts lists every composite literal of type tncConn in transport/ardop (non-test, non-hook files):
// (enclosing function, [(field, expression text)]). The host-interface framing of a connection's Write/Read is
// selected by its isTCP field, so every place that builds a connection has to copy the TNC's mode.
func ardopConnFacts(p *pkg) string {
	type lit struct {
		fn     string
		fields [][2]string
	}
	var lits []lit
	var names []string
	for n := range p.files {
		names = append(names, n)
	}
	sort.Strings(names)
	for _, n := range names {
		for _, d := range p.files[n].Decls {
			fd, ok := d.(*ast.FuncDecl)
			if !ok || fd.Body == nil {
				continue
			}
			fn := fd.Name.Name
			if fd.Recv != nil && len(fd.Recv.List) == 1 {
				t := fd.Recv.List[0].Type
				if s, ok := t.(*ast.StarExpr); ok {
					t = s.X
				}
				if id, ok := t.(*ast.Ident); ok {
					fn = id.Name + "." + fn
				}
			}
			ast.Inspect(fd.Body, func(x ast.Node) bool {
				cl, ok := x.(*ast.CompositeLit)
				if !ok {
					return true
				}
				id, ok := cl.Type.(*ast.Ident)
				if !ok || id.Name != "tncConn" {
					return true
				}
				l := lit{fn: fn}
				for _, e := range cl.Elts {
					kv, ok := e.(*ast.KeyValueExpr)
					if !ok {
						fatal("ardop: positional tncConn literal in %s", fn)
					}
					var buf bytes.Buffer
					printer.Fprint(&buf, p.fset, kv.Value)
					l.fields = append(l.fields, [2]string{kv.Key.(*ast.Ident).Name, strings.Join(strings.Fields(buf.String()), " ")})
				}
				lits = append(lits, l)
				return true
			})
		}
	}
	var b strings.Builder
	b.WriteString("/-- every `tncConn{…}` literal of transport/ardop: (enclosing function, [(field, expression)]) -/\n")
	b.WriteString("def ardopConnLiterals : List (String × List (String × String)) := [")
	for i, l := range lits {
		if i > 0 {
			b.WriteString(",")
		}
		fmt.Fprintf(&b, "\n  (%q, [", l.fn)
		for j, f := range l.fields {
			if j > 0 {
				b.WriteString(", ")
			}
			fmt.Fprintf(&b, "(%q, %q)", f[0], f[1])
		}
		b.WriteString("])")
	}
	b.WriteString("]\n")
	// which field selects the framing in Write / the data reader: the identifiers `isTCP` read in tncConn.Write
	var uses []string
	if fd := p.funcDecl("tncConn.Write"); fd != nil {
		ast.Inspect(fd.Body, func(x ast.Node) bool {
			if se, ok := x.(*ast.SelectorExpr); ok && se.Sel.Name == "isTCP" {
				var buf bytes.Buffer
				printer.Fprint(&buf, p.fset, se)
				uses = append(uses, buf.String())
			}
			return true
		})
	}
	b.WriteString(leanStrList("ardopWriteModeReads", uses))
	return b.String()
}
