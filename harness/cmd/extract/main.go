// extract: regenerates Lean facts from /repo's current working tree.
//
// It is deliberately tiny: go/parser + a constant evaluator. It emits
//
//	Gen/Tables.lean  - tables and constants the models and theorems quantify over
//	Gen/Facts.lean   - structural facts (which read primitive is used, goroutine
//	                   access facts, mutex discipline) consumed by theorems
//
// The files are deleted and rewritten on every run of ./check.
package main

import (
	"fmt"
	"go/ast"
	"go/parser"
	"go/token"
	"os"
	"path/filepath"
	"sort"
	"strconv"
	"strings"
)

type pkg struct {
	fset   *token.FileSet
	files  map[string]*ast.File
	consts map[string]ast.Expr
	vars   map[string]ast.Expr
	iota   map[string]int
}

func loadPkg(dir string) *pkg {
	p := &pkg{fset: token.NewFileSet(), files: map[string]*ast.File{}, consts: map[string]ast.Expr{}, vars: map[string]ast.Expr{}, iota: map[string]int{}}
	ents, err := os.ReadDir(dir)
	if err != nil {
		fatal("read %s: %v", dir, err)
	}
	for _, e := range ents {
		n := e.Name()
		if !strings.HasSuffix(n, ".go") || strings.HasSuffix(n, "_test.go") || strings.HasSuffix(n, "_verif.go") {
			continue
		}
		f, err := parser.ParseFile(p.fset, filepath.Join(dir, n), nil, parser.ParseComments)
		if err != nil {
			fatal("parse %s: %v", n, err)
		}
		p.files[n] = f
		for _, d := range f.Decls {
			gd, ok := d.(*ast.GenDecl)
			if !ok {
				continue
			}
			var last []ast.Expr
			for i, s := range gd.Specs {
				vs, ok := s.(*ast.ValueSpec)
				if !ok {
					continue
				}
				vals := vs.Values
				if gd.Tok == token.CONST {
					if len(vals) == 0 {
						vals = last
					} else {
						last = vals
					}
				}
				for j, name := range vs.Names {
					if j < len(vals) {
						if gd.Tok == token.CONST {
							p.consts[name.Name] = vals[j]
							p.iota[name.Name] = i
						} else {
							p.vars[name.Name] = vals[j]
						}
					}
				}
			}
		}
	}
	return p
}

func fatal(f string, a ...interface{}) {
	fmt.Fprintf(os.Stderr, "extract: "+f+"\n", a...)
	os.Exit(2)
}

func (p *pkg) eval(e ast.Expr, iota int) int64 {
	switch x := e.(type) {
	case *ast.BasicLit:
		switch x.Kind {
		case token.INT:
			v, err := strconv.ParseInt(x.Value, 0, 64)
			if err != nil {
				u, err2 := strconv.ParseUint(x.Value, 0, 64)
				if err2 != nil {
					fatal("int %s", x.Value)
				}
				return int64(u)
			}
			return v
		case token.CHAR:
			s, err := strconv.Unquote(x.Value)
			if err != nil {
				fatal("char %s", x.Value)
			}
			return int64([]rune(s)[0])
		}
	case *ast.Ident:
		if x.Name == "iota" {
			return int64(iota)
		}
		if c, ok := p.consts[x.Name]; ok {
			return p.eval(c, p.iota[x.Name])
		}
		fatal("unknown ident %s", x.Name)
	case *ast.ParenExpr:
		return p.eval(x.X, iota)
	case *ast.UnaryExpr:
		v := p.eval(x.X, iota)
		switch x.Op {
		case token.SUB:
			return -v
		case token.ADD:
			return v
		case token.XOR:
			return ^v
		}
	case *ast.CallExpr: // conversion like crc16(0x1021), byte(0)
		if len(x.Args) == 1 {
			return p.eval(x.Args[0], iota)
		}
	case *ast.BinaryExpr:
		a, b := p.eval(x.X, iota), p.eval(x.Y, iota)
		switch x.Op {
		case token.ADD:
			return a + b
		case token.SUB:
			return a - b
		case token.MUL:
			return a * b
		case token.QUO:
			return a / b
		case token.REM:
			return a % b
		case token.SHL:
			return a << uint(b)
		case token.SHR:
			return a >> uint(b)
		case token.AND:
			return a & b
		case token.OR:
			return a | b
		case token.XOR:
			return a ^ b
		}
	}
	fatal("cannot evaluate %T", e)
	return 0
}

func (p *pkg) constVal(name string) int64 {
	c, ok := p.consts[name]
	if !ok {
		fatal("constant %s not found", name)
	}
	return p.eval(c, p.iota[name])
}

// strConst returns the bytes of a string constant given by a literal.
func (p *pkg) strConst(name string) []int64 {
	c, ok := p.consts[name]
	if !ok {
		fatal("constant %s not found", name)
	}
	lit, ok := c.(*ast.BasicLit)
	if !ok || lit.Kind != token.STRING {
		fatal("constant %s is not a string literal", name)
	}
	str, err := strconv.Unquote(lit.Value)
	if err != nil {
		fatal("constant %s: %v", name, err)
	}
	out := []int64{}
	for i := 0; i < len(str); i++ {
		out = append(out, int64(str[i]))
	}
	return out
}

func (p *pkg) table(name string) []int64 {
	v, ok := p.vars[name]
	if !ok {
		fatal("table %s not found", name)
	}
	cl, ok := v.(*ast.CompositeLit)
	if !ok {
		fatal("table %s is not a composite literal", name)
	}
	out := []int64{}
	for _, e := range cl.Elts {
		out = append(out, p.eval(e, 0))
	}
	return out
}

func leanList(name string, vals []int64) string {
	var b strings.Builder
	fmt.Fprintf(&b, "def %s : List Nat := [", name)
	for i, v := range vals {
		if i > 0 {
			b.WriteString(", ")
		}
		if i%16 == 0 {
			b.WriteString("\n  ")
		}
		fmt.Fprintf(&b, "%d", v)
	}
	b.WriteString("]\n")
	return b.String()
}

func (p *pkg) funcDecl(name string) *ast.FuncDecl {
	for _, f := range p.files {
		for _, d := range f.Decls {
			if fd, ok := d.(*ast.FuncDecl); ok {
				n := fd.Name.Name
				if fd.Recv != nil && len(fd.Recv.List) == 1 {
					t := fd.Recv.List[0].Type
					if st, ok := t.(*ast.StarExpr); ok {
						t = st.X
					}
					if id, ok := t.(*ast.Ident); ok {
						n = id.Name + "." + n
					}
				}
				if n == name {
					return fd
				}
			}
		}
	}
	return nil
}

// callsIn lists selector/ident call names (e.g. "io.ReadFull", "r.Read") in a function body, in source order.
func callsIn(fd *ast.FuncDecl) []string {
	var out []string
	if fd == nil || fd.Body == nil {
		return out
	}
	ast.Inspect(fd.Body, func(n ast.Node) bool {
		if ce, ok := n.(*ast.CallExpr); ok {
			switch f := ce.Fun.(type) {
			case *ast.SelectorExpr:
				out = append(out, exprStr(f.X)+"."+f.Sel.Name)
			case *ast.Ident:
				out = append(out, f.Name)
			}
		}
		return true
	})
	return out
}

func exprStr(e ast.Expr) string {
	switch x := e.(type) {
	case *ast.Ident:
		return x.Name
	case *ast.SelectorExpr:
		return exprStr(x.X) + "." + x.Sel.Name
	case *ast.CallExpr:
		return exprStr(x.Fun) + "()"
	case *ast.StarExpr:
		return "*" + exprStr(x.X)
	case *ast.ParenExpr:
		return exprStr(x.X)
	case *ast.IndexExpr:
		return exprStr(x.X) + "[]"
	}
	return "?"
}

func leanStrList(name string, xs []string) string {
	var b strings.Builder
	fmt.Fprintf(&b, "def %s : List String := [", name)
	for i, s := range xs {
		if i > 0 {
			b.WriteString(", ")
		}
		b.WriteString(strconv.Quote(s))
	}
	b.WriteString("]\n")
	return b.String()
}

// mutexFacts lists, for every function of the package that mentions <obj>, the lock/unlock/access
// events on <obj>.<mu> / <obj>.<field> in source order (a deferred Unlock is placed at the end),
// and "dispatch" for a call x.DialURL(..)/x.DialURLContext(..) in such a function.
func mutexFacts(p *pkg, obj, mu, field string) string {
	type fn struct {
		name   string
		events []string
	}
	var fns []fn
	var fnames []string
	for n := range p.files {
		fnames = append(fnames, n)
	}
	sort.Strings(fnames)
	for _, n := range fnames {
		for _, d := range p.files[n].Decls {
			fd, ok := d.(*ast.FuncDecl)
			if !ok || fd.Body == nil {
				continue
			}
			var ev, deferred []string
			var inDefer ast.Node
			ast.Inspect(fd.Body, func(node ast.Node) bool {
				switch x := node.(type) {
				case *ast.DeferStmt:
					inDefer = x.Call
				case *ast.CallExpr:
					if sel, ok := x.Fun.(*ast.SelectorExpr); ok && exprStr(sel.X) == obj+"."+mu {
						e := ""
						switch sel.Sel.Name {
						case "Lock":
							e = "lock"
						case "Unlock":
							e = "unlock"
						}
						if e != "" {
							if inDefer == node {
								deferred = append(deferred, e)
							} else {
								ev = append(ev, e)
							}
							return false
						}
					}
					if sel, ok := x.Fun.(*ast.SelectorExpr); ok && (sel.Sel.Name == "DialURL" || sel.Sel.Name == "DialURLContext") && mentions(fd.Body, obj) {
						ev = append(ev, "dispatch") // the call into a registered dialer
					}
				case *ast.SelectorExpr:
					if exprStr(x) == obj+"."+field {
						ev = append(ev, "access")
						return false
					}
				}
				return true
			})
			ev = append(ev, deferred...)
			if len(ev) > 0 {
				fns = append(fns, fn{fd.Name.Name, ev})
			}
		}
	}
	var b strings.Builder
	fmt.Fprintf(&b, "def %sMutexEvents : List (String × List String) := [", obj)
	for i, f := range fns {
		if i > 0 {
			b.WriteString(",")
		}
		fmt.Fprintf(&b, "\n  (%q, [", f.name)
		for j, e := range f.events {
			if j > 0 {
				b.WriteString(", ")
			}
			fmt.Fprintf(&b, "%q", e)
		}
		b.WriteString("])")
	}
	b.WriteString("]\n")
	return b.String()
}

// ---- telnet (C15): what the connection returned by a login function reads from ----

// structFields lists the field names of struct type <name> in declaration order (embedded fields by type name).
func (p *pkg) structFields(name string) []string {
	var out []string
	for _, f := range p.files {
		for _, d := range f.Decls {
			gd, ok := d.(*ast.GenDecl)
			if !ok || gd.Tok != token.TYPE {
				continue
			}
			for _, s := range gd.Specs {
				ts := s.(*ast.TypeSpec)
				st, ok := ts.Type.(*ast.StructType)
				if !ok || ts.Name.Name != name {
					continue
				}
				for _, fl := range st.Fields.List {
					if len(fl.Names) == 0 {
						t := fl.Type
						if se, ok := t.(*ast.StarExpr); ok {
							t = se.X
						}
						if sel, ok := t.(*ast.SelectorExpr); ok {
							out = append(out, sel.Sel.Name)
						} else {
							out = append(out, exprStr(t))
						}
					}
					for _, n := range fl.Names {
						out = append(out, n.Name)
					}
				}
			}
		}
	}
	return out
}

func mentions(e ast.Node, ident string) bool {
	found := false
	ast.Inspect(e, func(n ast.Node) bool {
		if id, ok := n.(*ast.Ident); ok && id.Name == ident {
			found = true
		}
		return !found
	})
	return found
}

// loginReaderField: in function <fn>, the variable assigned from bufio.NewReader(…) and the field of
// the composite literal (of a struct type of this package) in the LAST return statement that holds
// it. Returns (struct type, field) or ("", "") when the returned value does not carry the reader.
func (p *pkg) loginReaderField(fn string) (string, string) {
	// also look into the package-level helpers fn calls (a login loop moved into a helper is the same code)
	for _, g := range p.closure(fn) {
		if t, f := p.loginReaderFieldIn(g); t != "" {
			return t, f
		}
	}
	return "", ""
}

// closure: fn and the package-level functions reachable from it through direct calls, in call order.
func (p *pkg) closure(fn string) []string {
	seen := map[string]bool{}
	var order []string
	var visit func(string)
	visit = func(n string) {
		if seen[n] {
			return
		}
		fd := p.funcDecl(n)
		if fd == nil || fd.Body == nil {
			return
		}
		seen[n] = true
		order = append(order, n)
		ast.Inspect(fd.Body, func(x ast.Node) bool {
			if ce, ok := x.(*ast.CallExpr); ok {
				if id, ok := ce.Fun.(*ast.Ident); ok {
					visit(id.Name)
				}
			}
			return true
		})
	}
	visit(fn)
	return order
}

func (p *pkg) loginReaderFieldIn(fn string) (string, string) {
	fd := p.funcDecl(fn)
	if fd == nil || fd.Body == nil {
		return "", ""
	}
	reader := ""
	ast.Inspect(fd.Body, func(n ast.Node) bool {
		as, ok := n.(*ast.AssignStmt)
		if !ok || len(as.Lhs) != 1 || len(as.Rhs) != 1 {
			return true
		}
		if ce, ok := as.Rhs[0].(*ast.CallExpr); ok && exprStr(ce.Fun) == "bufio.NewReader" {
			if id, ok := as.Lhs[0].(*ast.Ident); ok && reader == "" {
				reader = id.Name
			}
		}
		return true
	})
	if reader == "" {
		return "", ""
	}
	var last *ast.ReturnStmt
	ast.Inspect(fd.Body, func(n ast.Node) bool {
		if _, ok := n.(*ast.FuncLit); ok {
			return false
		}
		if r, ok := n.(*ast.ReturnStmt); ok {
			last = r
		}
		return true
	})
	if last == nil || len(last.Results) == 0 {
		return "", ""
	}
	e := last.Results[0]
	if u, ok := e.(*ast.UnaryExpr); ok && u.Op == token.AND {
		e = u.X
	}
	cl, ok := e.(*ast.CompositeLit)
	if !ok {
		return "", ""
	}
	tname := exprStr(cl.Type)
	fields := p.structFields(tname)
	for i, el := range cl.Elts {
		if kv, ok := el.(*ast.KeyValueExpr); ok {
			if mentions(kv.Value, reader) {
				return tname, exprStr(kv.Key)
			}
		} else if mentions(el, reader) && i < len(fields) {
			return tname, fields[i]
		}
	}
	return "", ""
}

// readsThrough: does method <typ>.Read call <something>.<field>.Read(…)?
func (p *pkg) readsThrough(typ, field string) bool {
	if typ == "" || field == "" {
		return false
	}
	fd := p.funcDecl(typ + ".Read")
	if fd == nil || fd.Body == nil {
		return false
	}
	found := false
	ast.Inspect(fd.Body, func(n ast.Node) bool {
		if ce, ok := n.(*ast.CallExpr); ok {
			if sel, ok := ce.Fun.(*ast.SelectorExpr); ok && sel.Sel.Name == "Read" {
				if in, ok := sel.X.(*ast.SelectorExpr); ok && in.Sel.Name == field {
					found = true
				}
			}
		}
		return true
	})
	return found
}

// deadlineBeforeLogin: a SetDeadline/SetReadDeadline call (possibly inside a function literal
// registered earlier, e.g. context.AfterFunc) precedes the first ReadString call of <fn>.
func (p *pkg) deadlineBeforeLogin(fn string) bool {
	return p.deadlineBefore(fn, map[string]bool{})
}

// readsLines: fn calls ReadString itself or through package-level helpers.
func (p *pkg) readsLines(fn string) bool {
	for _, g := range p.closure(fn) {
		for _, c := range callsIn(p.funcDecl(g)) {
			if strings.HasSuffix(c, ".ReadString") {
				return true
			}
		}
	}
	return false
}

func (p *pkg) deadlineBefore(fn string, seen map[string]bool) bool {
	fd := p.funcDecl(fn)
	if fd == nil || fd.Body == nil || seen[fn] {
		return false
	}
	seen[fn] = true
	var dl, rd token.Pos
	callee := ""
	ast.Inspect(fd.Body, func(n ast.Node) bool {
		ce, ok := n.(*ast.CallExpr)
		if !ok {
			return true
		}
		switch f := ce.Fun.(type) {
		case *ast.SelectorExpr:
			switch f.Sel.Name {
			case "SetDeadline", "SetReadDeadline":
				if dl == token.NoPos {
					dl = ce.Pos()
				}
			case "ReadString":
				if rd == token.NoPos {
					rd = ce.Pos()
				}
			}
		case *ast.Ident:
			if rd == token.NoPos && f.Name != fn && p.readsLines(f.Name) {
				rd, callee = ce.Pos(), f.Name
			}
		}
		return true
	})
	if rd == token.NoPos {
		return false
	}
	if dl != token.NoPos && dl < rd {
		return true
	}
	return callee != "" && p.deadlineBefore(callee, seen)
}

func leanBool(name string, v bool) string { return fmt.Sprintf("def %s : Bool := %v\n", name, v) }

// ardopParseFacts renders the `switch msg.cmd` of ardop.parseCtrlMsg as (kind, names) clauses, in source
// order. The kind is read off the clause body: 0 no value, 1 bool, 2 State, 3 string, 4 list split on
// space, 5 list split on comma, 6 int. An unrecognised body is fatal (the model no longer mirrors the code).
func ardopParseFacts(p *pkg) string {
	fd := p.funcDecl("parseCtrlMsg")
	if fd == nil {
		fatal("ardop.parseCtrlMsg not found")
	}
	var sw *ast.SwitchStmt
	ast.Inspect(fd.Body, func(n ast.Node) bool {
		if s, ok := n.(*ast.SwitchStmt); ok && sw == nil && exprStr(s.Tag) == "msg.cmd" {
			sw = s
		}
		return true
	})
	if sw == nil {
		fatal("ardop.parseCtrlMsg: switch msg.cmd not found")
	}
	strConst := func(name string) string {
		c, ok := p.consts[name]
		if !ok {
			fatal("ardop: constant %s not found", name)
		}
		bl, ok := c.(*ast.BasicLit)
		if !ok || bl.Kind != token.STRING {
			fatal("ardop: constant %s is not a string literal", name)
		}
		v, err := strconv.Unquote(bl.Value)
		if err != nil {
			fatal("ardop: %s: %v", name, err)
		}
		return v
	}
	var b strings.Builder
	b.WriteString("def ardopParseCases : List (Nat × List (List UInt8)) := [")
	first := true
	for _, st := range sw.Body.List {
		cc := st.(*ast.CaseClause)
		if cc.List == nil {
			continue // default
		}
		var body strings.Builder
		for _, s := range cc.Body {
			ast.Inspect(s, func(n ast.Node) bool {
				switch x := n.(type) {
				case *ast.BasicLit:
					body.WriteString(x.Value + " ")
				case *ast.Ident:
					body.WriteString(x.Name + " ")
				}
				return true
			})
		}
		txt := body.String()
		kind := -1
		switch {
		case len(cc.Body) == 0:
			kind = 0
		case strings.Contains(txt, `"true"`) && strings.Contains(txt, "ToLower"):
			kind = 1
		case strings.Contains(txt, "stateMap") && strings.Contains(txt, "ToUpper"):
			kind = 2
		case strings.Contains(txt, "parseList") && strings.Contains(txt, `" "`):
			kind = 4
		case strings.Contains(txt, "parseList") && strings.Contains(txt, `","`):
			kind = 5
		case strings.Contains(txt, "Atoi"):
			kind = 6
		case strings.TrimSpace(txt) == "msg value parts 1":
			kind = 3
		default:
			fatal("ardop.parseCtrlMsg: unrecognised case body %q", txt)
		}
		if !first {
			b.WriteString(",")
		}
		first = false
		fmt.Fprintf(&b, "\n  (%d, [", kind)
		for i, e := range cc.List {
			id, ok := e.(*ast.Ident)
			if !ok {
				fatal("ardop.parseCtrlMsg: case expression is not a constant name")
			}
			if i > 0 {
				b.WriteString(", ")
			}
			b.WriteString(leanBytes(strConst(id.Name)))
		}
		b.WriteString("])")
	}
	b.WriteString("]\n")
	// stateMap
	sm, ok := p.vars["stateMap"].(*ast.CompositeLit)
	if !ok {
		fatal("ardop.stateMap not found")
	}
	b.WriteString("def ardopStateMap : List (List UInt8 × Nat) := [")
	for i, e := range sm.Elts {
		kv := e.(*ast.KeyValueExpr)
		k, err := strconv.Unquote(kv.Key.(*ast.BasicLit).Value)
		if err != nil {
			fatal("ardop.stateMap key: %v", err)
		}
		if i > 0 {
			b.WriteString(", ")
		}
		fmt.Fprintf(&b, "(%s, %d)", leanBytes(k), p.eval(kv.Value, 0))
	}
	b.WriteString("]\n")
	for _, c := range []string{"cmdPTT", "cmdDisconnected", "cmdBuffer", "cmdNewState", "cmdBusy", "cmdCRCFault", "cmdDisconnect"} {
		fmt.Fprintf(&b, "def ardop_%s : List UInt8 := %s\n", c, leanBytes(strConst(c)))
	}
	fmt.Fprintf(&b, "def ardopStateDisconnected : Nat := %d\n", p.constVal("Disconnected"))
	return b.String()
}

func leanBytes(s string) string {
	var b strings.Builder
	b.WriteString("[")
	for i := 0; i < len(s); i++ {
		if i > 0 {
			b.WriteString(", ")
		}
		fmt.Fprintf(&b, "%d", s[i])
	}
	b.WriteString("]")
	return b.String()
}

func main() {
	if len(os.Args) != 3 {
		fatal("usage: extract <repo> <lean Gen dir>")
	}
	repo, out := os.Args[1], os.Args[2]
	os.MkdirAll(out, 0o755)
	old, _ := filepath.Glob(filepath.Join(out, "*.lean"))
	for _, f := range old {
		os.Remove(f)
	}

	lz := loadPkg(filepath.Join(repo, "lzhuf"))
	fb := loadPkg(filepath.Join(repo, "fbb"))
	ar := loadPkg(filepath.Join(repo, "transport/ardop"))

	var b strings.Builder
	b.WriteString("-- GENERATED by harness/cmd/extract from /repo's working tree. Do not edit.\nnamespace Wl2k.Gen\n\n")
	for _, c := range []string{"_N", "_F", "_Threshold", "_MaxFreq", "_NumChar", "_T", "_R", "_NIL"} {
		fmt.Fprintf(&b, "def lz%s : Nat := %d\n", c, lz.constVal(c))
	}
	for _, t := range []string{"pCode", "pLen", "dCode", "dLen", "crc16tab"} {
		b.WriteString(leanList(t, lz.table(t)))
	}
	for _, c := range []string{"MaxBlockSize", "MaxMsgLength", "ProtocolOffsetSizeLimit", "MaxMIDLength"} {
		fmt.Fprintf(&b, "def %s : Nat := %d\n", c, fb.constVal(c))
	}
	b.WriteString(leanList("winlinkSecureSalt", fb.table("winlinkSecureSalt")))
	// C09: header field names, date layout, charset defaults as byte strings
	for _, c := range []string{"HEADER_MID", "HEADER_TO", "HEADER_DATE", "HEADER_TYPE", "HEADER_FROM", "HEADER_CC", "HEADER_SUBJECT", "HEADER_MBO", "HEADER_BODY", "HEADER_FILE", "HEADER_CONTENT_TYPE", "HEADER_CONTENT_TRANSFER_ENCODING", "DateLayout", "DefaultCharset", "DefaultTransferEncoding"} {
		b.WriteString(leanList("fbb_"+c, fb.strConst(c)))
	}
	fmt.Fprintf(&b, "def ardopPolynomial : Nat := %d\n", ar.constVal("polynomial"))
	mb := loadPkg(filepath.Join(repo, "mailbox"))
	for _, c := range []string{"DIR_INBOX", "DIR_OUTBOX", "DIR_SENT", "DIR_ARCHIVE", "Ext"} {
		b.WriteString(leanList("mailbox"+c, mb.strConst(c)))
	}
	b.WriteString(ardopParseFacts(ar))
	b.WriteString("\nend Wl2k.Gen\n")
	if err := os.WriteFile(filepath.Join(out, "Tables.lean"), []byte(b.String()), 0o644); err != nil {
		fatal("%v", err)
	}

	// Structural facts.
	var f strings.Builder
	f.WriteString("-- GENERATED by harness/cmd/extract from /repo's working tree. Do not edit.\nnamespace Wl2k.Gen\n\n")
	ag := loadPkg(filepath.Join(repo, "transport/ax25/agwpe"))
	f.WriteString(leanStrList("agwpeFrameReadFromCalls", callsIn(ag.funcDecl("frame.ReadFrom"))))
	f.WriteString(agwpeFacts(ag))
	tn := loadPkg(filepath.Join(repo, "transport/telnet"))
	f.WriteString(leanStrList("telnetDialContextCalls", callsIn(tn.funcDecl("DialContext"))))
	f.WriteString(leanStrList("telnetAcceptCalls", callsIn(tn.funcDecl("listener.Accept"))))
	dt, df := tn.loginReaderField("DialContext")
	at, af := tn.loginReaderField("listener.Accept")
	f.WriteString(leanBool("telnetDialContextDrains", tn.readsThrough(dt, df)))
	f.WriteString(leanBool("telnetAcceptDrains", tn.readsThrough(at, af)))
	f.WriteString(leanBool("telnetDialLoginDeadline", tn.deadlineBeforeLogin("DialContext")))
	tr := loadPkg(filepath.Join(repo, "transport"))
	for _, fn := range []string{"DialURLContext", "RegisterContextDialer", "UnregisterDialer"} {
		f.WriteString(leanStrList("transport"+fn+"Calls", callsIn(tr.funcDecl(fn))))
	}
	f.WriteString(mutexFacts(tr, "dialers", "mu", "m"))
	f.WriteString(goroutineFacts(fb, []string{"Session.writeCompressed", "Session.readCompressed"}))
	f.WriteString(allocFacts("sessionAllocSites", map[string]*pkg{"fbb": fb, "lzhuf": lz}))
	f.WriteString(ardopConnFacts(ar))
	f.WriteString("\nend Wl2k.Gen\n")
	if err := os.WriteFile(filepath.Join(out, "Facts.lean"), []byte(f.String()), 0o644); err != nil {
		fatal("%v", err)
	}
}
