package main

import (
	"fmt"
	"go/ast"
	"go/printer"
	"go/token"
	"sort"
	"strings"
)

// allocFacts lists every call in the package whose argument sizes an allocation - make(T, n[, m]),
// x.Grow(n), strings/bytes.Repeat(x, n), bufio.NewReaderSize/NewWriterSize(r, n), io.CopyN(w, r, n) - with
// a classification of the size: "none" (no size argument), "const" (integer literals and declared
// constants only), "len" (built from len(...)/cap(...) of data already held, literals and + - only), or
// "other:<expr>" (anything else, e.g. a number parsed from the wire).
func allocFacts(name string, pkgs map[string]*pkg) string {
	type site struct{ where, kind, class string }
	var sites []site
	var classify func(p *pkg, e ast.Expr) string
	classify = func(p *pkg, e ast.Expr) string {
		switch x := e.(type) {
		case *ast.BasicLit:
			if x.Kind == token.INT {
				return "const"
			}
		case *ast.Ident:
			if _, ok := p.consts[x.Name]; ok {
				return "const"
			}
		case *ast.ParenExpr:
			return classify(p, x.X)
		case *ast.CallExpr:
			if id, ok := x.Fun.(*ast.Ident); ok && (id.Name == "len" || id.Name == "cap") && len(x.Args) == 1 {
				return "len"
			}
			if id, ok := x.Fun.(*ast.Ident); ok && (id.Name == "int" || id.Name == "int64" || id.Name == "uint") && len(x.Args) == 1 {
				return classify(p, x.Args[0])
			}
		case *ast.BinaryExpr:
			if x.Op == token.ADD || x.Op == token.SUB || x.Op == token.MUL {
				a, b := classify(p, x.X), classify(p, x.Y)
				if a == "other" || b == "other" {
					return "other"
				}
				if a == "len" || b == "len" {
					return "len"
				}
				return "const"
			}
		}
		return "other"
	}
	show := func(p *pkg, e ast.Expr) string {
		var b strings.Builder
		printer.Fprint(&b, p.fset, e)
		return b.String()
	}
	var pnames []string
	for n := range pkgs {
		pnames = append(pnames, n)
	}
	sort.Strings(pnames)
	for _, pn := range pnames {
		p := pkgs[pn]
		var fnames []string
		for n := range p.files {
			fnames = append(fnames, n)
		}
		sort.Strings(fnames)
		for _, fn := range fnames {
			for _, d := range p.files[fn].Decls {
				fd, ok := d.(*ast.FuncDecl)
				if !ok || fd.Body == nil {
					continue
				}
				fname := fd.Name.Name
				if fd.Recv != nil && len(fd.Recv.List) == 1 {
					fname = strings.TrimPrefix(exprStr(fd.Recv.List[0].Type), "*") + "." + fname
				}
				ast.Inspect(fd.Body, func(n ast.Node) bool {
					call, ok := n.(*ast.CallExpr)
					if !ok {
						return true
					}
					var kind string
					var sizes []ast.Expr
					switch f := call.Fun.(type) {
					case *ast.Ident:
						if f.Name == "make" && len(call.Args) >= 1 {
							kind, sizes = "make", call.Args[1:]
						}
					case *ast.SelectorExpr:
						switch f.Sel.Name {
						case "Grow":
							kind, sizes = "Grow", call.Args
						case "Repeat":
							if len(call.Args) == 2 {
								kind, sizes = "Repeat", call.Args[1:]
							}
						case "NewReaderSize", "NewWriterSize":
							if len(call.Args) == 2 {
								kind, sizes = f.Sel.Name, call.Args[1:]
							}
						case "CopyN":
							if len(call.Args) == 3 {
								kind, sizes = "CopyN", call.Args[2:]
							}
						}
					}
					if kind == "" {
						return true
					}
					class := "none"
					for _, s := range sizes {
						switch c := classify(p, s); {
						case c == "other":
							class = "other:" + show(p, s)
						case c == "len" && !strings.HasPrefix(class, "other"):
							class = "len"
						case c == "const" && class == "none":
							class = "const"
						}
					}
					sites = append(sites, site{pn + "/" + fn + ":" + fname, kind, class})
					return true
				})
			}
		}
	}
	var b strings.Builder
	fmt.Fprintf(&b, "/-- (package/file:function, allocating call, size class) for every size-taking allocation call -/\ndef %s : List (String × String × String) := [", name)
	for i, s := range sites {
		if i > 0 {
			b.WriteString(",")
		}
		fmt.Fprintf(&b, "\n  (%q, %q, %q)", s.where, s.kind, s.class)
	}
	b.WriteString("]\n")
	return b.String()
}
