package main

import (
	"bytes"
	"fmt"
	"io"
	"os"
	"path/filepath"
	"strconv"
	"strings"
	"testing/iotest"

	"github.com/la5nta/wl2k-go/lzhuf"
)

func errClass(err error) string {
	switch err {
	case nil:
		return "nil"
	case io.EOF:
		return "eof"
	case io.ErrUnexpectedEOF:
		return "ueof"
	case lzhuf.ErrChecksum:
		return "checksum"
	}
	return "other:" + err.Error()
}

func natList(xs []int) string {
	if len(xs) == 0 {
		return "-"
	}
	ss := make([]string, len(xs))
	for i, x := range xs {
		ss[i] = strconv.Itoa(x)
	}
	return strings.Join(ss, ",")
}

// implLzw compresses input through the real Writer with the given write cuts.
func implLzw(crc bool, input []byte, cuts []int, dig bool) (out string, compressed []byte) {
	defer func() {
		if r := recover(); r != nil {
			out = fmt.Sprintf("panic:%v", r)
		}
	}()
	var buf bytes.Buffer
	w := lzhuf.NewWriter(&buf, crc)
	rest := input
	var digs []string
	wr := func(p []byte) {
		w.Write(p)
		if dig {
			digs = append(digs, strconv.FormatUint(w.VerifDigest(), 10))
		}
	}
	for _, c := range cuts {
		if len(rest) == 0 {
			break
		}
		if c > len(rest) {
			c = len(rest)
		}
		wr(rest[:c])
		rest = rest[c:]
	}
	if len(rest) > 0 {
		wr(rest)
	}
	final := strconv.FormatUint(w.VerifDigest(), 10)
	if err := w.Close(); err != nil {
		return "closeerr:" + err.Error(), nil
	}
	d := "-"
	if len(digs) > 0 {
		d = strings.Join(digs, ",")
	}
	return hx(buf.Bytes()) + " " + d + " " + final, buf.Bytes()
}

// implLzr decompresses a stream through the real Reader with the given buffer sizes (cycled).
func implLzr(crc bool, stream []byte, sizes []int) (out string, data []byte, closeErr error, stuck bool, panicked bool) {
	defer func() {
		if r := recover(); r != nil {
			out = fmt.Sprintf("panic:%v", r)
			panicked = true
		}
	}()
	rd, err := lzhuf.NewReader(lzSource(stream), crc)
	if err != nil {
		return "new=" + errClass(err), nil, err, false, false
	}
	if len(sizes) == 0 {
		sizes = []int{4096}
	}
	var reads []string
	zero := 0
	for k := 0; ; k++ {
		if zero >= 3 {
			stuck = true
			break
		}
		m := sizes[k%len(sizes)]
		p := make([]byte, m)
		n, err := rd.Read(p)
		if len(reads) < 40 {
			reads = append(reads, fmt.Sprintf("%d:%s", n, errClass(err)))
		}
		data = append(data, p[:n]...)
		if err != nil {
			break
		}
		if n == 0 && m > 0 {
			zero++
		} else {
			zero = 0
		}
	}
	closeErr = rd.Close()
	// a second Close (a deferred Close after an explicit, checked one) must not take the verdict back
	second := rd.Close()
	if closeErr != nil && second == nil {
		lzCloseTwiceForgets = true
	}
	if closeErr == nil && second != nil {
		// ... nor turn a success into a failure: the verdict of this run is then the second one
		closeErr = second
	}
	s := "new=nil reads=" + strings.Join(reads, ";")
	if stuck {
		s += " stuck"
	}
	s += " data=" + hx(data) + " close=" + errClass(closeErr) + " digest=" + strconv.FormatUint(rd.VerifDigest(), 10)
	return s, data, closeErr, stuck, false
}

func randCuts(c *Ctx, n int) []int {
	switch c.Rng.Intn(6) {
	case 0:
		return nil // single write
	case 1:
		if n <= 3000 {
			cuts := make([]int, n)
			for i := range cuts {
				cuts[i] = 1
			}
			return cuts
		}
		return []int{1, 1, 1, 57, 1, 1}
	case 2:
		return []int{59, 1, 1}
	case 3:
		return []int{60}
	case 4:
		return []int{61, 1987, 1, 60}
	}
	var cuts []int
	for k := c.Rng.Intn(8); k > 0; k-- {
		cuts = append(cuts, 1+c.Rng.Intn(1+n/2+1))
	}
	return cuts
}

func randSizes(c *Ctx) []int {
	switch c.Rng.Intn(6) {
	case 0:
		return []int{1}
	case 1:
		return []int{2}
	case 2:
		return []int{59, 60, 61}
	case 3:
		return []int{1 << 20}
	case 4:
		return []int{4096}
	}
	var s []int
	for k := 1 + c.Rng.Intn(4); k > 0; k-- {
		s = append(s, 1+c.Rng.Intn(300))
	}
	return s
}

// fibProfile builds the input family that drives Huffman code lengths to 15..18:
// phases of exact-length matches with Fibonacci-like counts (DESIGN §5.6).
func fibProfile(scale float64) []byte {
	counts := []int{368, 736, 1104, 1840, 2944, 4784, 7728, 12400}
	var out []byte
	for p, cnt := range counts {
		L := 3 + p
		n := int(float64(cnt) * scale)
		m := 2
		for m*m*L < 2200 {
			m++
		}
		seq := deBruijn2(m)
		for i := 0; i < n+m; i++ {
			j := seq[i%len(seq)]
			out = append(out, byte(0x20+j))
			for k := 0; k < L-1; k++ {
				out = append(out, byte(0xE0+p))
			}
		}
	}
	out = append(out, 0x00)
	out = append(out, []byte("tail tail tail")...)
	return out
}

// deBruijn2 returns a de Bruijn sequence B(m,2) over the alphabet 0..m-1 (Lyndon word construction).
func deBruijn2(m int) []int {
	n := 2
	a := make([]int, m*n)
	var seq []int
	var db func(t, p int)
	db = func(t, p int) {
		if t > n {
			if n%p == 0 {
				seq = append(seq, a[1:p+1]...)
			}
		} else {
			a[t] = a[t-p]
			db(t+1, p)
			for j := a[t-p] + 1; j < m; j++ {
				a[t] = j
				db(t+1, t)
			}
		}
	}
	db(1, 1)
	return seq
}

func testdataFiles() map[string][]byte {
	out := map[string][]byte{}
	dir := filepath.Join(repoDir(), "lzhuf", "testdata")
	ents, _ := os.ReadDir(dir)
	for _, e := range ents {
		if e.IsDir() || strings.HasPrefix(e.Name(), ".") {
			continue
		}
		b, err := os.ReadFile(filepath.Join(dir, e.Name()))
		if err == nil {
			out[e.Name()] = b
		}
	}
	return out
}

func repoDir() string {
	if d := os.Getenv("VERIF_REPO"); d != "" {
		return d
	}
	return "/repo"
}

// lzInputs generates the C06/C07 input families. Each has a class name.
type lzInput struct {
	class string
	data  []byte
}

func lzInputs(c *Ctx, maxLen int, count int) []lzInput {
	var ins []lzInput
	add := func(class string, b []byte) {
		if len(b) > maxLen {
			b = b[:maxLen]
		}
		ins = append(ins, lzInput{class, b})
	}
	add("empty", nil)
	for _, n := range []int{1, 2, 3, 58, 59, 60, 61, 62, 119, 120, 121} {
		b := make([]byte, n)
		for i := range b {
			b[i] = byte('a' + c.Rng.Intn(3))
		}
		add("prefill-boundary", b)
		add("run", bytes.Repeat([]byte{'z'}, n))
	}
	for _, n := range []int{1987, 1988, 1989, 2047, 2048, 2049, 2107, 4096, 5000} {
		add("run", bytes.Repeat([]byte{' '}, n))
		add("run", bytes.Repeat([]byte{0}, n))
	}
	for _, p := range []int{1, 2, 3, 59, 60, 61, 1987, 1988, 1989, 2047, 2048, 2049} {
		per := make([]byte, p)
		for i := range per {
			per[i] = byte(c.Rng.Intn(256))
		}
		add("periodic", bytes.Repeat(per, 1+6000/p))
	}
	// mirror probes: a 59-byte run followed by byte Y placed so that its search-tree node sits at the very
	// end of the ring buffer (input offset = 59 mod 2048, +-2), then the same run followed by Z further on:
	// the comparison of the 60th byte reads the mirrored copy textBuf[N..N+F-2] of the ring start.
	for _, j := range []int{0, 1} {
		for d := -2; d <= 2; d++ {
			for _, yz := range [][2]byte{{0, 'B'}, {'B', 0}, {'C', 'B'}} {
				off := 59 + 2048*j + d
				b := make([]byte, 0, off+3000)
				for len(b) < off {
					b = append(b, byte('a'+len(b)%23))
				}
				b = append(b, bytes.Repeat([]byte{'A'}, 59)...)
				b = append(b, yz[0])
				for k := 0; k < 900+c.Rng.Intn(200); k++ {
					b = append(b, byte('a'+k%19))
				}
				b = append(b, bytes.Repeat([]byte{'A'}, 59)...)
				b = append(b, yz[1])
				b = append(b, []byte("the end")...)
				add("mirror-probe", b)
			}
		}
	}
	for i := 0; len(ins) < count; i++ {
		switch c.Rng.Intn(9) {
		case 0: // leading spaces (matches into the pre-start region)
			n := c.Rng.Intn(200)
			b := append(bytes.Repeat([]byte{' '}, n), []byte(fmt.Sprintf("x%dy  z   ", i))...)
			add("leading-space", bytes.Repeat(b, 1+c.Rng.Intn(5)))
		case 1: // small alphabet random
			n := c.Rng.Intn(3000)
			b := make([]byte, n)
			k := 2 + c.Rng.Intn(3)
			for j := range b {
				b[j] = byte('a' + c.Rng.Intn(k))
			}
			add("random-small-alphabet", b)
		case 2: // full random
			n := c.Rng.Intn(3000)
			b := make([]byte, n)
			c.Rng.Read(b)
			add("random-bytes", b)
		case 3: // text-like with repeats
			words := []string{"the ", "quick ", "brown ", "fox ", "jumps ", "over ", "lazy ", "dog\r\n", "Winlink ", "LA5NTA ", "73 "}
			var sb strings.Builder
			for sb.Len() < c.Rng.Intn(8000) {
				sb.WriteString(words[c.Rng.Intn(len(words))])
			}
			add("text", []byte(sb.String()))
		case 4: // window-wrap: long distance repeats
			blk := make([]byte, 100+c.Rng.Intn(200))
			c.Rng.Read(blk)
			gap := make([]byte, 1700+c.Rng.Intn(400))
			for j := range gap {
				gap[j] = byte('a' + c.Rng.Intn(2))
			}
			b := append(append(append([]byte{}, blk...), gap...), blk...)
			add("window-wrap", append(b, blk...))
		case 5: // runs of varying bytes
			var b []byte
			for len(b) < c.Rng.Intn(5000) {
				b = append(b, bytes.Repeat([]byte{byte(c.Rng.Intn(4))}, 1+c.Rng.Intn(130))...)
			}
			add("run-length", b)
		case 8: // runs over an alphabet that contains NUL (the zero-initialised mirror/look-ahead regions are only
			// distinguishable from real data when the data itself contains zero bytes)
			var b []byte
			for len(b) < 2200+c.Rng.Intn(5000) {
				b = append(b, bytes.Repeat([]byte{[]byte{0, 'A', 'B', 0}[c.Rng.Intn(4)]}, 1+c.Rng.Intn(70))...)
			}
			add("nul-runs", b)
		case 6: // exact-length-match structure (mini Fibonacci profile)
			add("fib-profile-mini", fibProfile(0.02+c.Rng.Float64()*0.05))
		default:
			n := c.Rng.Intn(61)
			b := make([]byte, n)
			for j := range b {
				b[j] = byte(c.Rng.Intn(256))
			}
			add("short-random", b)
		}
	}
	return ins
}

// lzSource presents the stream to the Reader the way different callers do: as one in-memory block, or through a
// source that delivers it in fragments (a socket, a pipe: one byte per Read, half of what was asked for, data
// together with io.EOF). The choice is a function of the stream, so a case replays exactly. Nothing the Reader
// reports may depend on it - for streams without trailing bytes: Close checks the CRC over what the Reader's bufio
// happened to pull from the source (known finding C08:crc-ignores-unread-tail), so for the malformed streams of C08
// the verdict on trailing garbage DOES depend on the fragmentation; C08 therefore keeps the one-block source the
// model assumes (4096-byte fills), and only C06/C07 (valid streams) switch the fragmenting sources on.
var lzFragmentSources = false

// lzCloseTwiceForgets is set by implLzr when a second Close returned nil after the first had reported an error.
var lzCloseTwiceForgets = false

func lzSource(stream []byte) io.Reader {
	if !lzFragmentSources {
		return bytes.NewReader(stream)
	}
	h := uint32(len(stream))
	for _, b := range stream[:min(len(stream), 16)] {
		h = h*16777619 ^ uint32(b)
	}
	switch h % 4 {
	case 1:
		return iotest.OneByteReader(bytes.NewReader(stream))
	case 2:
		return iotest.HalfReader(bytes.NewReader(stream))
	case 3:
		return iotest.DataErrReader(bytes.NewReader(stream))
	}
	return bytes.NewReader(stream)
}
