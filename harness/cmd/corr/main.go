// corr: the correspondence runner. It runs the real wl2k-go code in-process on generated cases,
// pipes the same cases to the Lean driver, diffs the two, and evaluates each property's own oracle
// on the real code. Output: one JSON result file consumed by /verif/check.
package main

func main() { runMain() }
