package main

import (
	"io"
	"net"
	"sync"
	"time"
)

// memConn is one end of an in-memory, buffered, reliable duplex byte stream (a net.Conn).
// Writes never block. Reads return at most `seg()` bytes at a time so that every
// read segmentation can be exercised. A cut can be armed: after `limit` bytes have been
// delivered to this end's reader, both ends observe EOF / closed.
type memConn struct {
	mu     *sync.Mutex
	cond   *sync.Cond
	in     *memBuf // what we read
	out    *memBuf // what we write
	closed *bool   // shared: either end closed
	name   string
	seg    func() int
	sent   *[]byte // everything this end wrote (for transcripts)
	onCut  func()
}

type memBuf struct {
	data      []byte
	delivered int
	limit     int // -1: none
	eof       bool
}

type memAddr string

func (a memAddr) Network() string { return "mem" }
func (a memAddr) String() string  { return string(a) }

func newMemPipe(segA, segB func() int) (*memConn, *memConn) {
	mu := &sync.Mutex{}
	cond := sync.NewCond(mu)
	ab := &memBuf{limit: -1}
	ba := &memBuf{limit: -1}
	closed := false
	sa, sb := []byte{}, []byte{}
	a := &memConn{mu: mu, cond: cond, in: ba, out: ab, closed: &closed, name: "A", seg: segA, sent: &sa}
	b := &memConn{mu: mu, cond: cond, in: ab, out: ba, closed: &closed, name: "B", seg: segB, sent: &sb}
	return a, b
}

// CutAfter arms a cut on the data flowing TO this end: after k bytes delivered, the link is dead.
func (c *memConn) CutAfter(k int) {
	c.mu.Lock()
	c.in.limit = k
	c.mu.Unlock()
}

func (c *memConn) Read(p []byte) (int, error) {
	c.mu.Lock()
	defer c.mu.Unlock()
	for {
		if *c.closed {
			return 0, io.EOF
		}
		if c.in.limit >= 0 && c.in.delivered >= c.in.limit {
			*c.closed = true
			c.cond.Broadcast()
			return 0, io.EOF
		}
		if len(c.in.data) > 0 {
			n := len(p)
			if n > len(c.in.data) {
				n = len(c.in.data)
			}
			if c.seg != nil {
				if s := c.seg(); s > 0 && s < n {
					n = s
				}
			}
			if c.in.limit >= 0 && c.in.delivered+n > c.in.limit {
				n = c.in.limit - c.in.delivered
			}
			copy(p, c.in.data[:n])
			c.in.data = c.in.data[n:]
			c.in.delivered += n
			return n, nil
		}
		if c.in.eof {
			return 0, io.EOF
		}
		c.cond.Wait()
	}
}

func (c *memConn) Write(p []byte) (int, error) {
	c.mu.Lock()
	defer c.mu.Unlock()
	if *c.closed {
		return 0, net.ErrClosed
	}
	c.out.data = append(c.out.data, p...)
	*c.sent = append(*c.sent, p...)
	c.cond.Broadcast()
	return len(p), nil
}

func (c *memConn) Close() error {
	c.mu.Lock()
	defer c.mu.Unlock()
	// A close lets the peer drain what was already written, then see EOF.
	c.out.eof = true
	c.in.eof = true
	c.in.data = nil
	c.cond.Broadcast()
	return nil
}

// Kill makes both ends see a dead link immediately.
func (c *memConn) Kill() {
	c.mu.Lock()
	*c.closed = true
	c.cond.Broadcast()
	c.mu.Unlock()
}

func (c *memConn) Sent() []byte {
	c.mu.Lock()
	defer c.mu.Unlock()
	return append([]byte(nil), (*c.sent)...)
}

func (c *memConn) LocalAddr() net.Addr                { return memAddr(c.name) }
func (c *memConn) RemoteAddr() net.Addr               { return memAddr("peer-of-" + c.name) }
func (c *memConn) SetDeadline(t time.Time) error      { return nil }
func (c *memConn) SetReadDeadline(t time.Time) error  { return nil }
func (c *memConn) SetWriteDeadline(t time.Time) error { return nil }
