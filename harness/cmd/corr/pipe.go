package main

import (
	"io"
	"net"
	"sync"
	"time"
)

// memConn is one end of an in-memory, buffered, reliable duplex byte stream (a net.Conn).
// Writes never block. Reads return at most `seg()` bytes at a time so that every
// read segmentation can be exercised. A cut can be armed: after `limit` bytes have been
// delivered to this end's reader, both ends observe EOF / closed.
type memConn struct {
	mu     *sync.Mutex
	cond   *sync.Cond
	in     *memBuf // what we read
	out    *memBuf // what we write
	closed *bool   // shared: either end closed
	name   string
	seg    func() int
	sent   *[]byte // everything this end wrote (for transcripts)
	onCut  func()
	// in-transit alteration of what this end writes (C04): edits at absolute offsets of its output stream
	edits     map[int]edit
	woff      int
	userClose bool
	altered   *[]byte // what was actually put on the wire towards the peer (after edits)
	// deadlock detection: both ends blocked in Read with nothing in flight
	waiting    *int
	deadlocked *bool
	detect     *bool // opt-in (two-session runs only): an idle link is normal for other users of the pipe
}

// edit alters the byte at one absolute offset of a stream: kind 's' substitute, 'd' delete, 'i' insert val before it.
type edit struct {
	kind byte
	val  []byte
}

// SetEdits installs in-transit alterations on the bytes this end writes.
func (c *memConn) SetEdits(e map[int]edit) {
	c.mu.Lock()
	c.edits = e
	alt := []byte{}
	c.altered = &alt
	c.mu.Unlock()
}

// Altered returns the bytes that were actually put on the wire by this end (after the edits).
func (c *memConn) Altered() []byte {
	c.mu.Lock()
	defer c.mu.Unlock()
	if c.altered == nil {
		return append([]byte(nil), (*c.sent)...)
	}
	return append([]byte(nil), (*c.altered)...)
}

// DetectDeadlock makes the pipe treat "both ends blocked in Read, nothing in flight" as a dead link.
func (c *memConn) DetectDeadlock() {
	c.mu.Lock()
	*c.detect = true
	c.mu.Unlock()
}

// Deadlocked reports whether both ends ended up waiting for each other.
func (c *memConn) Deadlocked() bool {
	c.mu.Lock()
	defer c.mu.Unlock()
	return *c.deadlocked
}

// ClosedByUser reports whether Close was called on this end.
func (c *memConn) ClosedByUser() bool {
	c.mu.Lock()
	defer c.mu.Unlock()
	return c.userClose
}

type memBuf struct {
	data      []byte
	delivered int
	limit     int // -1: none
	eof       bool
}

type memAddr string

func (a memAddr) Network() string { return "mem" }
func (a memAddr) String() string  { return string(a) }

func newMemPipe(segA, segB func() int) (*memConn, *memConn) {
	mu := &sync.Mutex{}
	cond := sync.NewCond(mu)
	ab := &memBuf{limit: -1}
	ba := &memBuf{limit: -1}
	closed := false
	sa, sb := []byte{}, []byte{}
	waiting, dead, detect := 0, false, false
	a := &memConn{mu: mu, cond: cond, in: ba, out: ab, closed: &closed, name: "A", seg: segA, sent: &sa, waiting: &waiting, deadlocked: &dead, detect: &detect}
	b := &memConn{mu: mu, cond: cond, in: ab, out: ba, closed: &closed, name: "B", seg: segB, sent: &sb, waiting: &waiting, deadlocked: &dead, detect: &detect}
	return a, b
}

// CutAfter arms a cut on the data flowing TO this end: after k bytes delivered, its reads see EOF.
func (c *memConn) CutAfter(k int) {
	c.mu.Lock()
	c.in.limit = k
	c.mu.Unlock()
}

func (c *memConn) Read(p []byte) (int, error) {
	c.mu.Lock()
	defer c.mu.Unlock()
	for {
		if *c.closed {
			return 0, io.EOF
		}
		if c.in.limit >= 0 && c.in.delivered >= c.in.limit {
			// link failure towards this end: it sees EOF after exactly `limit` bytes; the other
			// direction drains normally until this end has returned and closed.
			return 0, io.EOF
		}
		if len(c.in.data) > 0 {
			n := len(p)
			if n > len(c.in.data) {
				n = len(c.in.data)
			}
			if c.seg != nil {
				if s := c.seg(); s > 0 && s < n {
					n = s
				}
			}
			if c.in.limit >= 0 && c.in.delivered+n > c.in.limit {
				n = c.in.limit - c.in.delivered
			}
			copy(p, c.in.data[:n])
			c.in.data = c.in.data[n:]
			c.in.delivered += n
			return n, nil
		}
		if c.in.eof {
			return 0, io.EOF
		}
		*c.waiting++
		if *c.detect && *c.waiting >= 2 && len(c.out.data) == 0 && !c.out.eof {
			// both sessions wait for bytes and nothing is in flight: the exchange is stalled for good.
			// Treated as the link timing out (both ends see it dead).
			*c.deadlocked = true
			*c.closed = true
			*c.waiting--
			c.cond.Broadcast()
			return 0, io.EOF
		}
		c.cond.Wait()
		*c.waiting--
	}
}

func (c *memConn) Write(p []byte) (int, error) {
	c.mu.Lock()
	defer c.mu.Unlock()
	if *c.closed {
		return 0, net.ErrClosed
	}
	*c.sent = append(*c.sent, p...)
	before := len(c.out.data)
	defer func() {
		if c.altered != nil && len(c.out.data) >= before {
			*c.altered = append(*c.altered, c.out.data[before:]...)
		}
	}()
	if c.edits == nil {
		c.out.data = append(c.out.data, p...)
		c.woff += len(p)
	} else {
		for _, b := range p {
			if e, ok := c.edits[c.woff]; ok {
				switch e.kind {
				case 's':
					c.out.data = append(c.out.data, e.val...)
				case 'i':
					c.out.data = append(append(c.out.data, e.val...), b)
				case 'd':
				}
			} else {
				c.out.data = append(c.out.data, b)
			}
			c.woff++
		}
	}
	c.cond.Broadcast()
	return len(p), nil
}

func (c *memConn) Close() error {
	c.mu.Lock()
	defer c.mu.Unlock()
	// A close lets the peer drain what was already written, then see EOF.
	c.userClose = true
	c.out.eof = true
	c.in.eof = true
	c.in.data = nil
	c.cond.Broadcast()
	return nil
}

// Kill makes both ends see a dead link immediately.
func (c *memConn) Kill() {
	c.mu.Lock()
	*c.closed = true
	c.cond.Broadcast()
	c.mu.Unlock()
}

func (c *memConn) Sent() []byte {
	c.mu.Lock()
	defer c.mu.Unlock()
	return append([]byte(nil), (*c.sent)...)
}

func (c *memConn) LocalAddr() net.Addr                { return memAddr(c.name) }
func (c *memConn) RemoteAddr() net.Addr               { return memAddr("peer-of-" + c.name) }
func (c *memConn) SetDeadline(t time.Time) error      { return nil }
func (c *memConn) SetReadDeadline(t time.Time) error  { return nil }
func (c *memConn) SetWriteDeadline(t time.Time) error { return nil }
