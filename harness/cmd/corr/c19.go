package main

import (
	"context"
	"errors"
	"fmt"
	"net"
	"net/url"
	"strconv"
	"strings"
	"sync"
	"time"

	"github.com/la5nta/wl2k-go/transport"
)

type idDialer struct {
	id   int
	hits *[]int
}

func (d idDialer) DialURL(u *transport.URL) (net.Conn, error) {
	*d.hits = append(*d.hits, d.id)
	return nil, errors.New("dialed")
}

type idCtxDialer struct{ idDialer }

type c19CtxKey struct{}

// a context-aware dialer records id+100 when the CALLER's context reached it (the marker value), id otherwise
func (d idCtxDialer) DialURLContext(ctx context.Context, u *transport.URL) (net.Conn, error) {
	if ctx.Value(c19CtxKey{}) == "marker" {
		*d.hits = append(*d.hits, d.id+100)
		return nil, errors.New("dialed")
	}
	return d.DialURL(u)
}

func showImplURL(u *transport.URL) string {
	parts := []string{hs(u.Scheme), hs(u.Host), hs(u.Target)}
	for _, d := range u.Digis {
		parts = append(parts, hs(d))
	}
	return strings.Join(parts, " ")
}

// parseImpl runs the real ParseURL (recovering panics) and canonicalises the result.
func parseImpl(raw string) (out string, u *transport.URL, err error, panicked interface{}) {
	defer func() {
		if r := recover(); r != nil {
			panicked = r
			out = "panic"
		}
	}()
	u, err = transport.ParseURL(raw)
	switch {
	case err == nil:
		out = "ok " + showImplURL(u)
	case err == transport.ErrInvalidTarget:
		out = "err-target"
	case err == transport.ErrDigisUnsupported:
		out = "err-digis " + showImplURL(u)
	default:
		out = "err-parse"
	}
	return
}

func init() {
	register("C19", "cases: URLs composed from component tuples (schemes incl. ardop/telnet/ax25/serial-tnc, optional user[:password] with escapes, hosts with/without port, 0..8 digipeaters, targets with SSIDs and of length 0..9, query parameters incl. host), raw strings (random bytes, mutated URLs, percent garbage), and register/unregister/dial histories over 3 schemes. The model receives the real url.Parse output. Non-trivial: tuples with >=1 digi or a host parameter or a short target, raw strings that url.Parse accepts, histories with >=3 ops; distinct by case line.", func(c *Ctx) {
		var cases []Case
		// incl. letters whose UTF-8 length changes under strings.ToUpper (dotless i, long s: 2 bytes -> 1; turned a:
		// 2 -> 3; latin small a with stroke: 3 -> 2), so that "shorter than three" is tested on the target returned
		calls := []string{"LA1B", "la5nta", "LD5SK-10", "w1aw-7", "N0CALL", "ab", "a", "", "x1y", "LA1B-15", "äb1", "A%2FB", "\u0131a", "\u017f1", "\u0131\u0131", "\u0250", "\u2c65", "a\u0131", "\u0131ab"}
		schemes := []string{"ax25", "ardop", "telnet", "serial-tnc", "AX25", "agwpe", "ax25+linux"}
		hosts := []string{"", "ax0", "localhost:8000", "192.168.1.2:8515", "my-port", "[::1]:80"}
		addTuple := func(scheme, user, pass, host string, digis []string, target string, params [][2]string) {
			var b strings.Builder
			b.WriteString(scheme + "://")
			if user != "" {
				if pass != "" {
					b.WriteString(url.UserPassword(user, pass).String() + "@")
				} else {
					b.WriteString(url.User(user).String() + "@")
				}
			}
			b.WriteString(host)
			for _, d := range digis {
				b.WriteString("/" + url.PathEscape(d))
			}
			b.WriteString("/" + url.PathEscape(target))
			q := url.Values{}
			for _, kv := range params {
				q.Add(kv[0], kv[1])
			}
			if len(q) > 0 {
				b.WriteString("?" + q.Encode())
			}
			raw := b.String()
			out, u, err, p := parseImpl(raw)
			rep := map[string]interface{}{"raw": raw, "scheme": scheme, "user": user, "pass": pass, "host": host, "digis": digis, "target": target, "params": params, "result": out}
			if p != nil {
				c.Violate("C19:panic", fmt.Sprintf("ParseURL(%q) panicked: %v", raw, p), rep)
				return
			}
			// whatever the spelling: a URL that is accepted never carries a target shorter than three
			if err == nil && u != nil && len(u.Target) < 3 {
				c.Violate("C19:short-target-accepted", fmt.Sprintf("ParseURL(%q) accepted the URL with the %d-byte target %q", raw, len(u.Target), u.Target), rep)
			}
			// oracle: exactly those components
			simple := func(s string) bool { return s != "" && !strings.ContainsAny(s, "/") }
			okTuple := simple(target)
			for _, d := range digis {
				okTuple = okTuple && simple(d)
			}
			hostParam := ""
			for _, kv := range params {
				if kv[0] == "host" && hostParam == "" {
					hostParam = kv[1]
				}
			}
			digisOK := !strings.ContainsAny(target, "/")
			for _, d := range digis {
				digisOK = digisOK && simple(d)
			}
			if digisOK && isASCII(target) && len(target) < 3 && !okTuple && err != transport.ErrInvalidTarget {
				// an EMPTY target (a path that ends in "/") is a target shorter than three as well
				c.Violate("C19:short-target-accepted", fmt.Sprintf("ParseURL(%q): empty target not refused (%v, result %s)", raw, err, out), rep)
			}
			if okTuple {
				up := strings.ToUpper
				switch {
				case !isASCII(target) && len(target) != len(up(target)):
					// "shorter than three" is measured on the upper-cased target the URL carries (checked above)
				case len(target) < 3:
					if err != transport.ErrInvalidTarget {
						c.Violate("C19:short-target-accepted", fmt.Sprintf("ParseURL(%q): target %q shorter than 3 not refused (%v)", raw, target, err), rep)
					}
				case len(digis) > 0 && (strings.ToLower(scheme) == "ardop" || strings.ToLower(scheme) == "telnet"):
					if err != transport.ErrDigisUnsupported {
						c.Violate("C19:digis-not-refused", fmt.Sprintf("ParseURL(%q): digipeaters on %s not refused (%v)", raw, scheme, err), rep)
					}
				default:
					if err != nil {
						c.Violate("C19:valid-refused", fmt.Sprintf("ParseURL(%q) = %v", raw, err), rep)
						break
					}
					wantHost := host
					if hostParam != "" {
						wantHost = hostParam
					}
					bad := u.Scheme != strings.ToLower(scheme) || u.Host != wantHost || u.Target != up(target) || len(u.Digis) != len(digis)
					for i := range digis {
						bad = bad || (i < len(u.Digis) && u.Digis[i] != up(digis[i]))
					}
					if user != "" {
						bad = bad || u.User == nil || u.User.Username() != user
						if pw, _ := u.User.Password(); u.User != nil && pw != pass {
							bad = true
						}
					} else {
						bad = bad || u.User != nil
					}
					for _, kv := range params {
						found := false
						for _, v := range u.Params[kv[0]] {
							found = found || v == kv[1]
						}
						bad = bad || !found
					}
					if bad {
						c.Violate("C19:components-differ", fmt.Sprintf("ParseURL(%q) = %+v does not have exactly the composed components", raw, u), rep)
					}
				}
			}
			pu, perr := url.Parse(raw)
			if perr != nil {
				return
			}
			line := fmt.Sprintf("parseurl %s %s %s %s", hs(pu.Scheme), hs(pu.Host), hs(pu.Path), hs(pu.Query().Get("host")))
			if !isASCII(pu.Path) {
				out = "nonascii"
			}
			cases = append(cases, Case{Line: line, Impl: out, Desc: fmt.Sprintf("ParseURL(%q)", raw), Class: fmt.Sprintf("tuple-digis%d", min(len(digis), 3)), Nontrivial: len(digis) > 0 || hostParam != "" || len(target) < 3})
		}
		n := c.Budget(6000, 80000)
		for i := 0; i < n; i++ {
			nd := c.Rng.Intn(4)
			if c.Rng.Intn(10) == 0 {
				nd = c.Rng.Intn(9)
			}
			digis := []string{}
			for j := 0; j < nd; j++ {
				digis = append(digis, calls[c.Rng.Intn(len(calls))])
			}
			var params [][2]string
			if c.Rng.Intn(3) == 0 {
				params = append(params, [2]string{"host", hosts[c.Rng.Intn(len(hosts))]})
			}
			if c.Rng.Intn(3) == 0 {
				params = append(params, [2]string{[]string{"freq", "bw", "x y", "Host"}[c.Rng.Intn(4)], []string{"7045.5", "500", "a&b=c", ""}[c.Rng.Intn(4)]})
			}
			user, pass := "", ""
			if c.Rng.Intn(2) == 0 {
				user = []string{"la5nta", "N0CALL-1", "us:er", "a@b"}[c.Rng.Intn(4)]
				if c.Rng.Intn(2) == 0 {
					pass = []string{"secret", "p@ss/word", "x y"}[c.Rng.Intn(3)]
				}
			}
			addTuple(schemes[c.Rng.Intn(len(schemes))], user, pass, hosts[c.Rng.Intn(len(hosts))], digis, calls[c.Rng.Intn(len(calls))], params)
		}
		// raw strings
		seedsRaw := []string{"ax25://mycall@myaxport/LD5SK/LA1B-10", "ardop:///LA1B", "ax25:///LA1B?host=ax0", "telnet://a:b@host:8772/wl2k", "ax25:////LA1B", "ax25:///a//b///LA1B/", "x://h/%41%42%43", "://", "ax25:/LA1B", "ax25:LA1B", "ax25://h/ /LA1B", "ax25://h/LA1B#frag", "ax25://h/æøå"}
		for i := 0; i < c.Budget(8000, 100000); i++ {
			var raw string
			switch c.Rng.Intn(3) {
			case 0:
				b := make([]byte, c.Rng.Intn(40))
				for j := range b {
					b[j] = byte(c.Rng.Intn(256))
				}
				raw = string(b)
			case 1:
				const al = "ax25:/@?%=&#-._~LAB019 "
				b := make([]byte, c.Rng.Intn(40))
				for j := range b {
					b[j] = al[c.Rng.Intn(len(al))]
				}
				raw = string(b)
			default:
				raw = seedsRaw[c.Rng.Intn(len(seedsRaw))]
				b := []byte(raw)
				for k := c.Rng.Intn(3); k >= 0 && len(b) > 0; k-- {
					j := c.Rng.Intn(len(b))
					switch c.Rng.Intn(3) {
					case 0:
						b = append(b[:j], b[j+1:]...)
					case 1:
						b[j] = "/:%@?#a1"[c.Rng.Intn(8)]
					default:
						b = append(b[:j], append([]byte{"/:%@?#a1"[c.Rng.Intn(8)]}, b[j:]...)...)
					}
				}
				raw = string(b)
			}
			if strings.ContainsAny(raw, "\n\r") {
				continue
			}
			out, _, _, p := parseImpl(raw)
			if p != nil {
				c.Violate("C19:panic", fmt.Sprintf("ParseURL(%q) panicked: %v", raw, p), map[string]interface{}{"raw_hex": hx([]byte(raw))})
				continue
			}
			pu, perr := url.Parse(raw)
			if perr != nil {
				c.Res.Distribution["raw-urlparse-error"]++
				continue
			}
			if !isASCII(pu.Path) {
				out = "nonascii"
			}
			cases = append(cases, Case{Line: fmt.Sprintf("parseurl %s %s %s %s", hs(pu.Scheme), hs(pu.Host), hs(pu.Path), hs(pu.Query().Get("host"))), Impl: out, Desc: fmt.Sprintf("ParseURL(%q)", raw), Class: "raw-accepted-by-url.Parse", Nontrivial: true})
		}
		// registry histories
		regSchemes := []string{"vx1", "vx2", "VX1"} // scheme keys are exact strings: "VX1" is not "vx1"
		for i := 0; i < c.Budget(400, 5000); i++ {
			for _, s := range regSchemes {
				transport.UnregisterDialer(s)
			}
			var hits []int
			var toks, outs []string
			last := map[string]int{}
			lastCtx := map[string]bool{}
			nops := 1 + c.Rng.Intn(12)
			for j := 0; j < nops; j++ {
				s := regSchemes[c.Rng.Intn(3)]
				switch c.Rng.Intn(3) {
				case 0:
					id := 1 + c.Rng.Intn(9)
					switch c.Rng.Intn(3) {
					case 0:
						transport.RegisterDialer(s, idDialer{id, &hits})
						lastCtx[s] = false
					case 1:
						transport.RegisterContextDialer(s, idCtxDialer{idDialer{id, &hits}})
						lastCtx[s] = true
					default:
						// a context-aware dialer registered through the plain entry point (what the ax25 and telnet
						// packages do in their init): it is still reached with the caller's context
						transport.RegisterDialer(s, idCtxDialer{idDialer{id, &hits}})
						lastCtx[s] = true
					}
					last[s] = id
					toks = append(toks, fmt.Sprintf("r:%s:%d", hs(s), id))
				case 1:
					transport.UnregisterDialer(s)
					delete(last, s)
					toks = append(toks, "u:"+hs(s))
				default:
					hits = hits[:0]
					var err error
					withCtx := c.Rng.Intn(2) == 0
					if withCtx {
						_, err = transport.DialURLContext(context.WithValue(context.Background(), c19CtxKey{}, "marker"), &transport.URL{Scheme: s, Target: "LA1B"})
					} else {
						_, err = transport.DialURL(&transport.URL{Scheme: s, Target: "LA1B"})
					}
					got := "missing"
					if err != transport.ErrMissingDialer {
						if len(hits) == 1 {
							got = fmt.Sprint(hits[0])
						} else {
							got = fmt.Sprintf("hits=%v err=%v", hits, err)
						}
					}
					want := "missing"
					if id, ok := last[s]; ok {
						want = fmt.Sprint(id)
						if withCtx && lastCtx[s] {
							want = fmt.Sprint(id + 100) // reached through DialURLContext with the caller's context
						}
					}
					if got != want {
						c.Violate("C19:registry-dispatch", fmt.Sprintf("DialURL(%s) reached %s, want %s after history %v (ids above 100: the context-aware entry point with the caller's context)", s, got, want, toks), map[string]interface{}{"history": append([]string{}, toks...), "scheme": s})
					}
					gotModel := got // the model knows dialers by their id only
					if n, e := strconv.Atoi(got); e == nil && n > 100 {
						gotModel = fmt.Sprint(n - 100)
					}
					outs = append(outs, gotModel)
					toks = append(toks, "d:"+hs(s))
				}
			}
			cases = append(cases, Case{Line: "registry " + strings.Join(toks, " "), Impl: strings.Join(outs, " "), Desc: "registry history " + strings.Join(toks, " "), Class: "registry", Nontrivial: nops >= 3})
		}
		for _, s := range regSchemes {
			transport.UnregisterDialer(s)
		}
		// a dial in flight must not hold up the registry (witness search for `mutex_guarded`'s dispatch clause)
		{
			entered, release := make(chan struct{}), make(chan struct{})
			transport.RegisterDialer("vxblock", fnDialer(func(u *transport.URL) (net.Conn, error) {
				close(entered)
				<-release
				return nil, errors.New("released")
			}))
			transport.RegisterDialer("vxfwd", fnDialer(func(u *transport.URL) (net.Conn, error) {
				// a forwarding dialer: dials another scheme through the registry
				return transport.DialURL(&transport.URL{Scheme: "vxinner", Target: u.Target})
			}))
			var innerHits []int
			transport.RegisterDialer("vxinner", idDialer{7, &innerHits})
			go transport.DialURL(&transport.URL{Scheme: "vxblock", Target: "LA1B"})
			<-entered
			stuck := false
			within := func(name string, f func() string) {
				done := make(chan string, 1)
				go func() { done <- f() }()
				select {
				case r := <-done:
					if r != "" {
						c.Violate("C19:registry-dispatch-concurrent:"+name, "while another dial was in flight, "+name+": "+r, map[string]interface{}{"operation": name})
					}
				case <-time.After(2 * time.Second):
					stuck = true
					c.Violate("C19:dial-blocks-registry:"+name, name+" did not return within 2 s while a dial to another scheme was in flight (the registry lock is held across the dialer call)", map[string]interface{}{"operation": name, "in_flight": "DialURL(vxblock://LA1B) blocked inside its dialer"})
				}
			}
			within("DialURL(unregistered scheme)", func() string {
				if _, err := transport.DialURL(&transport.URL{Scheme: "vxmissing", Target: "LA1B"}); err != transport.ErrMissingDialer {
					return fmt.Sprintf("err = %v, want ErrMissingDialer", err)
				}
				return ""
			})
			within("RegisterDialer+UnregisterDialer", func() string {
				transport.RegisterDialer("vxtmp", idDialer{1, &innerHits})
				transport.UnregisterDialer("vxtmp")
				return ""
			})
			close(release)
			within("DialURL through a forwarding dialer", func() string {
				innerHits = innerHits[:0]
				transport.DialURL(&transport.URL{Scheme: "vxfwd", Target: "LA1B"})
				if len(innerHits) != 1 || innerHits[0] != 7 {
					return fmt.Sprintf("inner dialer hits = %v, want [7]", innerHits)
				}
				return ""
			})
			for _, s := range []string{"vxblock", "vxfwd", "vxinner"} {
				go transport.UnregisterDialer(s) // (would block for ever if the lock is stuck)
			}
			time.Sleep(20 * time.Millisecond)
			if stuck {
				// the registry mutex may be held for ever now: nothing below can run
				c.Compare(cases)
				return
			}
		}
		// concurrent register/unregister/dial (witness search for the registry's mutex discipline; only
		// meaningful in the -race build, harmless otherwise)
		{
			var wg sync.WaitGroup
			for g := 0; g < 8; g++ {
				wg.Add(1)
				go func(g int) {
					defer wg.Done()
					var hits []int
					for k := 0; k < 300; k++ {
						sc := regSchemes[(g+k)%3]
						switch (g + k) % 3 {
						case 0:
							transport.RegisterDialer(sc, idDialer{g, &hits})
						case 1:
							transport.UnregisterDialer(sc)
						default:
							transport.DialURL(&transport.URL{Scheme: sc, Target: "LA1B"})
						}
					}
				}(g)
			}
			wg.Wait()
			for _, s := range regSchemes {
				transport.UnregisterDialer(s)
			}
			if raceEnabled {
				for _, r := range raceReports() {
					c.Violate("C19:data-race:"+raceKey(r), "the race detector reported a data race in concurrent register/unregister/dial calls", map[string]interface{}{"race_report": trunc(r, 6000)})
				}
				c.Note("race detector enabled: %d report(s)", len(raceReports()))
			}
		}
		c.Compare(cases)
	})
}

type fnDialer func(u *transport.URL) (net.Conn, error)

func (f fnDialer) DialURL(u *transport.URL) (net.Conn, error) { return f(u) }

func isASCII(s string) bool {
	for i := 0; i < len(s); i++ {
		if s[i] >= 0x80 {
			return false
		}
	}
	return true
}
