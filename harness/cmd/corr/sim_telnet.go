package main

// Simulated telnet peers for C15.
//
//   scriptConn / oneShotListener : in-memory connection whose Read returns EXACTLY the next scripted
//       chunk (a prefix if the caller's buffer is smaller) - the `Chunks` of the Lean model. Used to run
//       the real listener.Accept (through the verif hook telnet.VerifListener) under exact segmentation.
//   tcpPeer : scripted peer on loopback TCP (TCP_NODELAY, one Write per chunk at its scheduled time),
//       acting as an adversarial server for the real Dial* functions or as a client of the real Listen.

import (
	"errors"
	"io"
	"net"
	"sync"
	"time"
)

type scriptConn struct {
	mu         sync.Mutex
	chunks     [][]byte
	closeAtEnd bool
	written    [][]byte
	closed     chan struct{}
	closeOnce  sync.Once
	blocked    chan struct{} // closed when a Read finds the script exhausted on a silent peer
	blockOnce  sync.Once
}

func newScriptConn(chunks [][]byte, closeAtEnd bool) *scriptConn {
	cp := make([][]byte, 0, len(chunks))
	for _, c := range chunks {
		cp = append(cp, append([]byte(nil), c...))
	}
	return &scriptConn{chunks: cp, closeAtEnd: closeAtEnd, closed: make(chan struct{}), blocked: make(chan struct{})}
}

func (c *scriptConn) Read(p []byte) (int, error) {
	if len(p) == 0 {
		return 0, nil
	}
	c.mu.Lock()
	for len(c.chunks) > 0 && len(c.chunks[0]) == 0 {
		c.chunks = c.chunks[1:]
	}
	if len(c.chunks) > 0 {
		n := copy(p, c.chunks[0])
		c.chunks[0] = c.chunks[0][n:]
		if len(c.chunks[0]) == 0 {
			c.chunks = c.chunks[1:]
		}
		c.mu.Unlock()
		return n, nil
	}
	eof := c.closeAtEnd
	c.mu.Unlock()
	if eof {
		return 0, io.EOF
	}
	c.blockOnce.Do(func() { close(c.blocked) })
	<-c.closed
	return 0, net.ErrClosed
}

// EndWithEOF makes the exhausted script answer EOF from now on (used after the login, to read "the rest").
func (c *scriptConn) EndWithEOF() {
	c.mu.Lock()
	c.closeAtEnd = true
	c.mu.Unlock()
}

func (c *scriptConn) Write(p []byte) (int, error) {
	select {
	case <-c.closed:
		return 0, net.ErrClosed
	default:
	}
	c.mu.Lock()
	c.written = append(c.written, append([]byte(nil), p...))
	c.mu.Unlock()
	return len(p), nil
}

func (c *scriptConn) Written() [][]byte {
	c.mu.Lock()
	defer c.mu.Unlock()
	return append([][]byte(nil), c.written...)
}

func (c *scriptConn) Close() error {
	c.closeOnce.Do(func() { close(c.closed) })
	return nil
}
func (c *scriptConn) LocalAddr() net.Addr                { return memAddr("script-local") }
func (c *scriptConn) RemoteAddr() net.Addr               { return memAddr("script-remote") }
func (c *scriptConn) SetDeadline(t time.Time) error      { return nil }
func (c *scriptConn) SetReadDeadline(t time.Time) error  { return nil }
func (c *scriptConn) SetWriteDeadline(t time.Time) error { return nil }

type oneShotListener struct {
	conn net.Conn
	mu   sync.Mutex
	used bool
	done chan struct{}
	once sync.Once
}

func newOneShotListener(c net.Conn) *oneShotListener {
	return &oneShotListener{conn: c, done: make(chan struct{})}
}

func (l *oneShotListener) Accept() (net.Conn, error) {
	l.mu.Lock()
	if !l.used {
		l.used = true
		l.mu.Unlock()
		return l.conn, nil
	}
	l.mu.Unlock()
	<-l.done
	return nil, net.ErrClosed
}
func (l *oneShotListener) Close() error   { l.once.Do(func() { close(l.done) }); return nil }
func (l *oneShotListener) Addr() net.Addr { return memAddr("oneshot") }

// ---- scripted TCP peer ----

type tnChunk struct {
	At   int    `json:"at_ms"`
	Data []byte `json:"-"`
	Hex  string `json:"hex"`
}

// tcpPeer plays a script on one TCP connection: each chunk is written with one Write at its time
// (relative to the moment the connection exists), then the peer closes its sending direction
// ("close": FIN), resets the connection ("reset": RST) or stays silent until released ("silent").
// Everything received from the other side is collected.
type tcpPeer struct {
	chunks  []tnChunk
	end     string
	endAt   int
	mu      sync.Mutex
	recv    []byte
	conn    net.Conn
	release chan struct{}
	relOnce sync.Once
	done    chan struct{} // script + receive loop finished
	noRead  bool          // never read before release; keep the receive window tiny
}

func newTCPPeer(chunks []tnChunk, end string, endAt int) *tcpPeer {
	return &tcpPeer{chunks: chunks, end: end, endAt: endAt, release: make(chan struct{}), done: make(chan struct{})}
}

func (p *tcpPeer) Release() { p.relOnce.Do(func() { close(p.release) }) }

func (p *tcpPeer) Received() []byte {
	p.mu.Lock()
	defer p.mu.Unlock()
	return append([]byte(nil), p.recv...)
}

// sleepUntil returns false if the peer was released first.
func (p *tcpPeer) sleepUntil(t time.Time) bool {
	d := time.Until(t)
	if d <= 0 {
		select {
		case <-p.release:
			return false
		default:
			return true
		}
	}
	tm := time.NewTimer(d)
	defer tm.Stop()
	select {
	case <-tm.C:
		return true
	case <-p.release:
		return false
	}
}

// run plays the script on conn and returns when the connection is finished.
func (p *tcpPeer) run(conn net.Conn) {
	defer close(p.done)
	p.mu.Lock()
	p.conn = conn
	p.mu.Unlock()
	start := time.Now()
	if tc, ok := conn.(*net.TCPConn); ok {
		tc.SetNoDelay(true)
		if p.noRead {
			tc.SetReadBuffer(4096)
		}
	}
	rdone := make(chan struct{})
	go func() {
		defer close(rdone)
		if p.noRead {
			<-p.release
		}
		buf := make([]byte, 32768)
		for {
			n, err := conn.Read(buf)
			if n > 0 {
				p.mu.Lock()
				p.recv = append(p.recv, buf[:n]...)
				p.mu.Unlock()
			}
			if err != nil {
				return
			}
		}
	}()
	alive := true
	for _, ch := range p.chunks {
		if !p.sleepUntil(start.Add(time.Duration(ch.At) * time.Millisecond)) {
			alive = false
			break
		}
		conn.SetWriteDeadline(time.Now().Add(3 * time.Second))
		if _, err := conn.Write(ch.Data); err != nil {
			break
		}
	}
	if alive && p.end != "silent" {
		alive = p.sleepUntil(start.Add(time.Duration(p.endAt) * time.Millisecond))
	}
	switch {
	case alive && p.end == "close":
		if tc, ok := conn.(*net.TCPConn); ok {
			tc.CloseWrite()
		}
	case alive && p.end == "reset":
		if tc, ok := conn.(*net.TCPConn); ok {
			tc.SetLinger(0)
		}
		conn.Close()
	}
	// keep receiving until the other side closes; once released, only as long as it takes to see the
	// close of a side that is already gone (bounded)
	select {
	case <-rdone:
	case <-p.release:
		conn.SetReadDeadline(time.Now().Add(300 * time.Millisecond))
		<-rdone
	}
	conn.Close()
}

// serve accepts one connection on ln and plays the script on it.
func (p *tcpPeer) serve(ln net.Listener) {
	type acc struct {
		c   net.Conn
		err error
	}
	ch := make(chan acc, 1)
	go func() { c, err := ln.Accept(); ch <- acc{c, err} }()
	select {
	case a := <-ch:
		if a.err != nil {
			close(p.done)
			return
		}
		p.run(a.c)
	case <-p.release:
		ln.Close()
		if a := <-ch; a.c != nil {
			a.c.Close()
		}
		close(p.done)
	}
}

func isTimeoutErr(err error) bool {
	var ne net.Error
	return errors.As(err, &ne) && ne.Timeout()
}

// readAvailable reads from conn until EOF/error, until `want` bytes have arrived (then probes briefly for
// surplus bytes), or until the cap expires.
func readAvailable(conn net.Conn, want int, untilEOF bool, sizes func() int, cap time.Duration) ([]byte, error) {
	var out []byte
	hard := time.Now().Add(cap)
	for {
		dl := hard
		if !untilEOF && len(out) >= want {
			dl = time.Now().Add(40 * time.Millisecond)
			if dl.After(hard) {
				dl = hard
			}
		}
		conn.SetReadDeadline(dl)
		buf := make([]byte, sizes())
		n, err := conn.Read(buf)
		out = append(out, buf[:n]...)
		if err != nil {
			conn.SetReadDeadline(time.Time{})
			if err == io.EOF || (isTimeoutErr(err) && !untilEOF && len(out) >= want) {
				return out, nil
			}
			return out, err
		}
		if len(out) > want+1<<20 {
			return out, errors.New("far too many bytes")
		}
	}
}
