package main

// sim_agwpe: a simulated AGWPE TNC, written from the AGWPE TCP/IP API description
// (36-byte header: port(1) reserved(3) kind(1) reserved(1) pid(1) reserved(1) callfrom(10)
// callto(10) datalen(4, little endian) user(4); then datalen bytes). It shares no code with
// the library under test. It can sit behind a real loopback TCP listener or behind an in-memory
// pipe that preserves the sim's write boundaries exactly (every sim write is one chunk; a host
// Read never returns bytes from two chunks) so that every segmentation of the TNC->host byte
// stream can be forced deterministically.

import (
	"encoding/binary"
	"errors"
	"io"
	"net"
	"sync"
	"time"
)

type agwFrame struct {
	Port, Kind, PID byte
	From, To        [10]byte
	Data            []byte
	ReservedNonZero bool // a reserved header byte was not zero (frames from the host only)
}

func call10(s string) [10]byte {
	var c [10]byte
	copy(c[:], s)
	return c
}

func callStr(c [10]byte) string {
	for i, b := range c {
		if b == 0 {
			return string(c[:i])
		}
	}
	return string(c[:])
}

func (f agwFrame) bytes() []byte {
	b := make([]byte, 36+len(f.Data))
	b[0] = f.Port
	b[4] = f.Kind
	b[6] = f.PID
	copy(b[8:18], f.From[:])
	copy(b[18:28], f.To[:])
	binary.LittleEndian.PutUint32(b[28:32], uint32(len(f.Data)))
	copy(b[36:], f.Data)
	return b
}

// parseAgwHeader decodes a 36-byte header; returns the frame (without data) and the data length.
func parseAgwHeader(h []byte) (agwFrame, uint32) {
	var f agwFrame
	f.Port, f.Kind, f.PID = h[0], h[4], h[6]
	copy(f.From[:], h[8:18])
	copy(f.To[:], h[18:28])
	for _, i := range []int{1, 2, 3, 5, 7, 32, 33, 34, 35} {
		if h[i] != 0 {
			f.ReservedNonZero = true
		}
	}
	return f, binary.LittleEndian.Uint32(h[28:32])
}

// canonical text of a frame, same format as the Lean driver's showFrame
func (f agwFrame) show() string {
	return itoa(int(f.Port)) + "." + itoa(int(f.Kind)) + "." + itoa(int(f.PID)) + "." + hx(f.From[:]) + "." + hx(f.To[:]) + "." + hx(f.Data)
}

func itoa(n int) string {
	if n == 0 {
		return "0"
	}
	neg := n < 0
	if neg {
		n = -n
	}
	var b []byte
	for n > 0 {
		b = append([]byte{byte('0' + n%10)}, b...)
		n /= 10
	}
	if neg {
		b = append([]byte{'-'}, b...)
	}
	return string(b)
}

/* ---------- exact-chunk in-memory pipe ---------- */

type chunkPipe struct {
	mu         sync.Mutex
	cond       *sync.Cond
	toHost     [][]byte // chunks in flight to the host
	toSim      []byte
	simClosed  bool // sim closed its end: host reads EOF after draining
	hostClosed bool // host closed its end
	hostIdle   bool // host is blocked in Read with nothing to read
}

type chunkHostEnd struct{ p *chunkPipe }
type chunkSimEnd struct{ p *chunkPipe }

func newChunkPipe() (*chunkHostEnd, *chunkSimEnd) {
	p := &chunkPipe{}
	p.cond = sync.NewCond(&p.mu)
	return &chunkHostEnd{p}, &chunkSimEnd{p}
}

func (h *chunkHostEnd) Read(b []byte) (int, error) {
	p := h.p
	p.mu.Lock()
	defer p.mu.Unlock()
	if len(b) == 0 {
		return 0, nil
	}
	for {
		if p.hostClosed {
			return 0, net.ErrClosed
		}
		for len(p.toHost) > 0 && len(p.toHost[0]) == 0 {
			p.toHost = p.toHost[1:]
		}
		if len(p.toHost) > 0 {
			n := copy(b, p.toHost[0])
			p.toHost[0] = p.toHost[0][n:]
			if len(p.toHost[0]) == 0 {
				p.toHost = p.toHost[1:]
			}
			return n, nil
		}
		if p.simClosed {
			return 0, io.EOF
		}
		p.hostIdle = true
		p.cond.Broadcast()
		p.cond.Wait()
		p.hostIdle = false
	}
}

func (h *chunkHostEnd) Write(b []byte) (int, error) {
	p := h.p
	p.mu.Lock()
	defer p.mu.Unlock()
	if p.hostClosed || p.simClosed {
		return 0, net.ErrClosed
	}
	p.toSim = append(p.toSim, b...)
	p.cond.Broadcast()
	return len(b), nil
}

func (h *chunkHostEnd) Close() error {
	p := h.p
	p.mu.Lock()
	defer p.mu.Unlock()
	if p.hostClosed {
		return net.ErrClosed
	}
	p.hostClosed = true
	p.cond.Broadcast()
	return nil
}
func (h *chunkHostEnd) LocalAddr() net.Addr                { return memAddr("host") }
func (h *chunkHostEnd) RemoteAddr() net.Addr               { return memAddr("sim") }
func (h *chunkHostEnd) SetDeadline(t time.Time) error      { return nil }
func (h *chunkHostEnd) SetReadDeadline(t time.Time) error  { return nil }
func (h *chunkHostEnd) SetWriteDeadline(t time.Time) error { return nil }

func (s *chunkSimEnd) Read(b []byte) (int, error) {
	p := s.p
	p.mu.Lock()
	defer p.mu.Unlock()
	for {
		if len(p.toSim) > 0 {
			n := copy(b, p.toSim)
			p.toSim = p.toSim[n:]
			return n, nil
		}
		if p.hostClosed || p.simClosed {
			return 0, io.EOF
		}
		p.cond.Wait()
	}
}

func (s *chunkSimEnd) Write(b []byte) (int, error) {
	p := s.p
	p.mu.Lock()
	defer p.mu.Unlock()
	if p.simClosed || p.hostClosed {
		return 0, net.ErrClosed
	}
	p.toHost = append(p.toHost, append([]byte(nil), b...))
	p.cond.Broadcast()
	return len(b), nil
}

func (s *chunkSimEnd) Close() error {
	p := s.p
	p.mu.Lock()
	defer p.mu.Unlock()
	p.simClosed = true
	p.cond.Broadcast()
	return nil
}

// waitHostIdle blocks until the host has consumed every chunk and is waiting for more (or d elapsed).
func (s *chunkSimEnd) waitHostIdle(d time.Duration) {
	p := s.p
	deadline := time.Now().Add(d)
	t := time.AfterFunc(d, func() { p.mu.Lock(); p.cond.Broadcast(); p.mu.Unlock() })
	defer t.Stop()
	p.mu.Lock()
	defer p.mu.Unlock()
	for !(p.hostIdle && len(p.toHost) == 0) && !p.hostClosed && time.Now().Before(deadline) {
		p.cond.Wait()
	}
}
func (s *chunkSimEnd) LocalAddr() net.Addr                { return memAddr("sim") }
func (s *chunkSimEnd) RemoteAddr() net.Addr               { return memAddr("host") }
func (s *chunkSimEnd) SetDeadline(t time.Time) error      { return nil }
func (s *chunkSimEnd) SetReadDeadline(t time.Time) error  { return nil }
func (s *chunkSimEnd) SetWriteDeadline(t time.Time) error { return nil }

/* ---------- the simulated TNC ---------- */

type simReply struct {
	Kind byte
	N    int // value answered to a 'Y'
}

type simTNC struct {
	c     net.Conn
	chunk *chunkSimEnd // non-nil in in-memory mode
	ln    net.Listener

	wmu sync.Mutex // serialises writes to the host

	mu       sync.Mutex
	cond     *sync.Cond
	recv     []agwFrame // frames received from the host, in order
	yReplies []int      // value answered to each 'Y', in order (parallel to the Y frames in recv)
	trailing int        // bytes of an incomplete frame at EOF
	done     bool       // reader finished (host closed or stream broke)

	// reply policy (set by the harness before the step that triggers it)
	ys        []int
	afterD    bool
	gData     []byte
	xData     []byte
	dialKind  byte
	dialData  []byte
	noReply   map[byte]bool                   // kinds that are not answered
	split     func(b []byte) [][]byte         // how a reply is cut into writes (nil: one write)
	pause     time.Duration                   // between the pieces of one reply / frame
	onFrame   func(f agwFrame) (handled bool) // optional override
	noise     func() []agwFrame               // frames for other ports/stations sent just before a reply (nil: none)
	noisePace time.Duration
}

func newSimTNC() *simTNC {
	s := &simTNC{noReply: map[byte]bool{}, gData: make([]byte, 12), xData: []byte{1}, dialKind: 'C'}
	s.cond = sync.NewCond(&s.mu)
	return s
}

// listenTCP starts a loopback listener; serve() must be called to accept the (single) host connection.
func (s *simTNC) listenTCP() (string, error) {
	ln, err := net.Listen("tcp", "127.0.0.1:0")
	if err != nil {
		return "", err
	}
	s.ln = ln
	return ln.Addr().String(), nil
}

func (s *simTNC) acceptTCP() error {
	if tl, ok := s.ln.(*net.TCPListener); ok {
		tl.SetDeadline(time.Now().Add(3 * time.Second))
	}
	c, err := s.ln.Accept()
	if err != nil {
		return err
	}
	if tc, ok := c.(*net.TCPConn); ok {
		tc.SetNoDelay(true)
	}
	s.c = c
	return nil
}

func (s *simTNC) attachChunk(e *chunkSimEnd) { s.c, s.chunk = e, e }

// start runs the reader/auto-responder.
func (s *simTNC) start() { go s.readLoop() }

func (s *simTNC) readLoop() {
	defer func() {
		s.mu.Lock()
		s.done = true
		s.cond.Broadcast()
		s.mu.Unlock()
	}()
	hdr := make([]byte, 36)
	for {
		n, err := io.ReadFull(s.c, hdr)
		if err != nil {
			s.mu.Lock()
			s.trailing = n
			s.mu.Unlock()
			return
		}
		f, dl := parseAgwHeader(hdr)
		if dl > 1<<24 {
			s.mu.Lock()
			s.trailing = -1
			s.mu.Unlock()
			return
		}
		f.Data = make([]byte, dl)
		if m, err := io.ReadFull(s.c, f.Data); err != nil {
			s.mu.Lock()
			s.trailing = 36 + m
			s.mu.Unlock()
			return
		}
		s.handle(f)
	}
}

func agLe32b(n int) []byte {
	b := make([]byte, 4)
	binary.LittleEndian.PutUint32(b, uint32(n))
	return b
}

func (s *simTNC) handle(f agwFrame) {
	s.mu.Lock()
	s.recv = append(s.recv, f)
	var reply *agwFrame
	if s.onFrame != nil && s.onFrame(f) {
		s.cond.Broadcast()
		s.mu.Unlock()
		return
	}
	if !s.noReply[f.Kind] {
		switch f.Kind {
		case 'R':
			reply = &agwFrame{Kind: 'R', Data: []byte{1, 0, 0, 0, 6, 0, 0, 0}}
		case 'g':
			reply = &agwFrame{Port: f.Port, Kind: 'g', Data: s.gData}
		case 'X':
			reply = &agwFrame{Port: f.Port, Kind: 'X', From: f.From, Data: s.xData}
		case 'C', 'v':
			reply = &agwFrame{Port: f.Port, Kind: s.dialKind, From: f.To, To: f.From, Data: s.dialData}
		case 'D':
			s.afterD = true
		case 'Y':
			n := 0
			if len(s.ys) > 0 {
				n, s.ys = s.ys[0], s.ys[1:]
			} else if s.afterD {
				n = 1
			}
			s.afterD = false
			s.yReplies = append(s.yReplies, n)
			reply = &agwFrame{Port: f.Port, Kind: 'Y', From: f.From, To: f.To, Data: agLe32b(n)}
		case 'y':
			reply = &agwFrame{Port: f.Port, Kind: 'y', Data: agLe32b(0)}
		case 'd':
			reply = &agwFrame{Port: f.Port, Kind: 'd', From: f.To, To: f.From, Data: []byte("*** DISCONNECTED From Station " + callStr(f.To) + "\r")}
		}
	}
	s.cond.Broadcast()
	s.mu.Unlock()
	if reply != nil {
		if s.noise != nil {
			// unrelated traffic arrives between the request and its answer; paced, because the library drops
			// frames (answers included) that meet a full 1-slot queue
			for _, nf := range s.noise() {
				s.sendPieces([][]byte{nf.bytes()})
				s.settle(s.noisePace)
			}
		}
		b := reply.bytes()
		if s.split != nil {
			s.sendPieces(s.split(b))
		} else {
			s.sendPieces([][]byte{b})
		}
	}
}

// sendPieces writes the pieces as separate writes (TCP: TCP_NODELAY + pause so the boundaries survive;
// in-memory: boundaries are exact).
func (s *simTNC) sendPieces(pieces [][]byte) error {
	s.wmu.Lock()
	defer s.wmu.Unlock()
	for i, p := range pieces {
		if _, err := s.c.Write(p); err != nil {
			return err
		}
		if i+1 < len(pieces) && s.pause > 0 && s.chunk == nil {
			time.Sleep(s.pause)
		}
	}
	return nil
}

// settle gives the host's goroutines time to move a frame through its queues before the next one is sent
// (the library drops frames when its 1-slot queues are full — known finding; correspondence cases pace).
func (s *simTNC) settle(d time.Duration) {
	if s.chunk != nil {
		s.chunk.waitHostIdle(time.Second)
	}
	time.Sleep(d)
}

// waitRecv waits until at least n frames have been received from the host (or the reader finished / timeout).
func (s *simTNC) waitRecv(n int, d time.Duration) bool {
	t := time.AfterFunc(d, func() { s.mu.Lock(); s.cond.Broadcast(); s.mu.Unlock() })
	defer t.Stop()
	deadline := time.Now().Add(d)
	s.mu.Lock()
	defer s.mu.Unlock()
	for len(s.recv) < n && !s.done && time.Now().Before(deadline) {
		s.cond.Wait()
	}
	return len(s.recv) >= n
}

// waitDone waits for the host to close the link (reader at EOF).
func (s *simTNC) waitDone(d time.Duration) bool {
	t := time.AfterFunc(d, func() { s.mu.Lock(); s.cond.Broadcast(); s.mu.Unlock() })
	defer t.Stop()
	deadline := time.Now().Add(d)
	s.mu.Lock()
	defer s.mu.Unlock()
	for !s.done && time.Now().Before(deadline) {
		s.cond.Wait()
	}
	return s.done
}

func (s *simTNC) frames() ([]agwFrame, []int, int) {
	s.mu.Lock()
	defer s.mu.Unlock()
	return append([]agwFrame(nil), s.recv...), append([]int(nil), s.yReplies...), s.trailing
}

func (s *simTNC) setPolicy(f func()) {
	s.mu.Lock()
	f()
	s.mu.Unlock()
}

func (s *simTNC) close() {
	if s.c != nil {
		s.c.Close()
	}
	if s.ln != nil {
		s.ln.Close()
	}
}

var errSimTimeout = errors.New("sim: timeout")

// cutAt splits b at the given (sorted, in-range) offsets.
func cutAt(b []byte, cuts []int) [][]byte {
	var out [][]byte
	prev := 0
	for _, c := range cuts {
		if c < prev || c > len(b) {
			continue
		}
		out = append(out, b[prev:c])
		prev = c
	}
	out = append(out, b[prev:])
	return out
}
