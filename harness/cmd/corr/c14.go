package main

// C14 - ARDOP connection: reliable ordered byte stream, correct host framing.
//
// The real transport/ardop package runs in-process against sim_ardop.go (an independent TNC simulator
// written from the interface spec) over an in-memory serial link (CRC framing, arbitrary read
// segmentation) and over two loopback TCP sockets. Cases that may panic inside one of the package's own
// goroutines run in a re-exec'ed child (child_c14.go).

import (
	"bufio"
	"bytes"
	"errors"
	"fmt"
	"io"
	"log"
	"math/rand"
	"net"
	"os"
	"os/exec"
	"path/filepath"
	"strings"
	"sync"
	"time"

	"github.com/la5nta/wl2k-go/transport"
	"github.com/la5nta/wl2k-go/transport/ardop"
)

type pttRec struct {
	mu    sync.Mutex
	calls []bool
}

func (p *pttRec) SetPTT(on bool) error {
	p.mu.Lock()
	p.calls = append(p.calls, on)
	p.mu.Unlock()
	return nil
}

func (p *pttRec) snapshot() []bool {
	p.mu.Lock()
	defer p.mu.Unlock()
	return append([]bool{}, p.calls...)
}

func (p *pttRec) waitLen(n int, d time.Duration) bool {
	deadline := time.Now().Add(d)
	for {
		p.mu.Lock()
		l := len(p.calls)
		p.mu.Unlock()
		if l >= n {
			return true
		}
		if time.Now().After(deadline) {
			return false
		}
		time.Sleep(200 * time.Microsecond)
	}
}

func c14Pending(c *memConn) int {
	c.mu.Lock()
	defer c.mu.Unlock()
	return len(c.in.data)
}

type c14Env struct {
	tcp     bool
	sim     *ardopSim
	tnc     *ardop.TNC
	conn    net.Conn
	ln      net.Listener
	ptt     *pttRec
	host    *memConn
	closers []io.Closer
}

// slowLink makes the host->TNC direction of the serial link slow: a write of more than 8 bytes goes out in
// two halves 10 ms apart (a UART at work), so a frame can be "on the wire" while the host code runs on.
type slowLink struct {
	*memConn
	mu   sync.Mutex
	slow bool
}

func (l *slowLink) setSlow(v bool) { l.mu.Lock(); l.slow = v; l.mu.Unlock() }

func (l *slowLink) Write(p []byte) (int, error) {
	l.mu.Lock()
	slow := l.slow
	l.mu.Unlock()
	if !slow || len(p) <= 8 {
		return l.memConn.Write(p)
	}
	h := len(p) / 2
	if n, err := l.memConn.Write(p[:h]); err != nil {
		return n, err
	}
	time.Sleep(10 * time.Millisecond)
	n, err := l.memConn.Write(p[h:])
	return h + n, err
}

const c14Watch = 5 * time.Second

var errC14Hang = errors.New("no return within the watchdog time")

// c14Hangs counts watchdog expiries; a family stops after a few (each costs the whole watchdog time).
var c14Hangs int

// watch runs f with a watchdog; a panic in f is returned as pv.
func c14Watch1(d time.Duration, f func()) (hang bool, pv interface{}) {
	done := make(chan interface{}, 1)
	go func() {
		defer func() { done <- recover() }()
		f()
	}()
	select {
	case pv = <-done:
		return false, pv
	case <-time.After(d):
		c14Hangs++
		return true, nil
	}
}

func c14Open(tcp bool, seg func() int) (*c14Env, error) {
	return c14OpenCall(tcp, seg, "N0CALL", "JP20QE")
}

func c14OpenCall(tcp bool, seg func() int, mycall, grid string) (*c14Env, error) {
	e := &c14Env{tcp: tcp, ptt: &pttRec{}}
	var tnc *ardop.TNC
	var err error
	if !tcp {
		host, tncEnd := newMemPipe(seg, nil)
		e.host = host
		e.sim = newArdopSim(false, tncEnd, nil)
		hang, pv := c14Watch1(c14Watch, func() { tnc, err = ardop.Open(host, mycall, grid) })
		if hang || pv != nil {
			host.Kill()
			return nil, fmt.Errorf("Open: hang=%v panic=%v", hang, pv)
		}
	} else {
		l1, l2, addr, lerr := tcpPair()
		if lerr != nil {
			return nil, lerr
		}
		e.closers = append(e.closers, l1, l2)
		l1.(*net.TCPListener).SetDeadline(time.Now().Add(c14Watch))
		l2.(*net.TCPListener).SetDeadline(time.Now().Add(c14Watch))
		simCh := make(chan *ardopSim, 1)
		connCh := make(chan net.Conn, 2)
		go func() {
			c1, e1 := l1.Accept()
			c2, e2 := l2.Accept()
			if e1 != nil || e2 != nil {
				simCh <- nil
				return
			}
			connCh <- c1
			connCh <- c2
			simCh <- newArdopSim(true, c1, c2)
		}()
		hang, pv := c14Watch1(c14Watch, func() { tnc, err = ardop.OpenTCP(addr, mycall, grid) })
		select {
		case e.sim = <-simCh:
			if e.sim != nil {
				e.closers = append(e.closers, <-connCh, <-connCh)
			}
		case <-time.After(c14Watch):
		}
		if hang || pv != nil || e.sim == nil {
			e.shutdown()
			return nil, fmt.Errorf("OpenTCP: hang=%v panic=%v", hang, pv)
		}
	}
	if err != nil {
		e.shutdown()
		return nil, err
	}
	e.tnc = tnc
	tnc.SetPTT(e.ptt)
	return e, nil
}

func (e *c14Env) dial() error { return e.dialTarget("T3ST") }

func (e *c14Env) dialTarget(target string) error {
	var conn net.Conn
	var err error
	hang, pv := c14Watch1(c14Watch, func() { conn, err = e.tnc.Dial(target) })
	if hang {
		return errC14Hang
	}
	if pv != nil {
		return fmt.Errorf("Dial panicked: %v", pv)
	}
	if err != nil {
		return err
	}
	e.conn = conn
	return nil
}

func (e *c14Env) listenAccept() error {
	var ln net.Listener
	var err error
	hang, pv := c14Watch1(c14Watch, func() { ln, err = e.tnc.Listen() })
	if hang || pv != nil {
		return fmt.Errorf("Listen: hang=%v panic=%v", hang, pv)
	}
	if err != nil {
		return err
	}
	e.ln = ln
	time.Sleep(20 * time.Millisecond) // Listen() registers its message listener in a goroutine it does not wait for
	acc := make(chan error, 1)
	go func() {
		c, err := ln.Accept()
		e.conn = c
		acc <- err
	}()
	for try := 0; try < 3; try++ {
		e.sim.setState("IRS")
		e.sim.sendCtrl("TARGET N0CALL")
		e.sim.sendCtrl("NEWSTATE IRS")
		e.sim.sendCtrl("CONNECTED R3MOTE 500")
		select {
		case err := <-acc:
			return err
		case <-time.After(700 * time.Millisecond):
		}
	}
	return errC14Hang
}

// barrier returns once the control loop has processed everything the simulated TNC sent on the command
// stream so far (the loop is sequential: a PTT marker sent now is seen after all earlier messages).
func (e *c14Env) barrier() bool {
	n := len(e.ptt.snapshot())
	e.sim.sendCtrl("PTT FALSE")
	if !e.ptt.waitLen(n+1, 3*time.Second) {
		c14Hangs++
		return false
	}
	return true
}

func (e *c14Env) settle(max time.Duration) {
	if e.host != nil {
		deadline := time.Now().Add(max)
		for c14Pending(e.host) > 0 && time.Now().Before(deadline) {
			time.Sleep(500 * time.Microsecond)
		}
		return
	}
	time.Sleep(60 * time.Millisecond)
}

func (e *c14Env) shutdown() {
	if e.ln != nil {
		// Close makes the listener goroutine send LISTEN false and then hand its final error to Accept; wait for
		// that before the link is cut (a set() racing the TNC shutdown panics with "send on closed channel").
		e.ln.Close()
		c14Watch1(2*time.Second, func() { e.ln.Accept() })
	}
	// tnc.Close() is deliberately not called: it closes the broadcaster from the caller's goroutine while the
	// control loop may still be delivering a message (e.g. the RDY after the LISTEN reply) - "send on closed
	// channel" kills the process (the source marks this race with a bug() comment; TNC.Close is outside C14).
	// Cutting the link lets the control loop shut the TNC down itself.
	if e.host != nil {
		e.host.Kill()
	}
	for _, c := range e.closers {
		c.Close()
	}
}

// ---- canonicalisation of the real code's observations ----

func c14ShowVal(v interface{}) string {
	switch x := v.(type) {
	case nil:
		return "nil"
	case bool:
		if x {
			return "bool 1"
		}
		return "bool 0"
	case ardop.State:
		return fmt.Sprintf("state %d", uint8(x))
	case string:
		return "str " + hs(x)
	case []string:
		parts := make([]string, len(x))
		for i, s := range x {
			parts[i] = hs(s)
		}
		return "list " + strings.Join(parts, ",")
	case int:
		return fmt.Sprintf("int %d", x)
	}
	return fmt.Sprintf("unknown-type %T", v)
}

func c14Parse(s string) (out string, pv interface{}) {
	defer func() {
		if r := recover(); r != nil {
			pv = r
			out = "panic"
		}
	}()
	cmd, v := ardop.VerifParseCtrlMsg(s)
	return hs(cmd) + " " + c14ShowVal(v), nil
}

func fnv32(b []byte) uint32 {
	h := uint32(2166136261)
	for _, c := range b {
		h = (h ^ uint32(c)) * 16777619
	}
	return h
}

type segReader struct {
	data []byte
	seg  func() int
}

func (r *segReader) Read(p []byte) (int, error) {
	if len(r.data) == 0 {
		return 0, io.EOF
	}
	n := len(p)
	if n > len(r.data) {
		n = len(r.data)
	}
	if s := r.seg(); s > 0 && s < n {
		n = s
	}
	copy(p, r.data[:n])
	r.data = r.data[n:]
	return n, nil
}

// c14Decode runs the real frame reader the way decodeTNCStream does, until io.EOF.
func c14Decode(tcp bool, ft byte, stream []byte, seg func() int) (toks []string, frames [][2][]byte, pv interface{}) {
	defer func() {
		if r := recover(); r != nil {
			pv = r
			toks = append(toks, "panic")
		}
	}()
	rd := bufio.NewReader(&segReader{data: append([]byte{}, stream...), seg: seg})
	for i := 0; i < len(stream)+2; i++ {
		kind, typ, data, err := ardop.VerifReadFrame(ft, rd, tcp)
		switch {
		case err == io.EOF:
			return append(toks, "eof"), frames, nil
		case err == io.ErrUnexpectedEOF:
			toks = append(toks, "E:ueof")
		case ardop.VerifIsChecksumMismatch(err):
			toks = append(toks, "E:crc")
		case err != nil && strings.HasPrefix(err.Error(), "Unexpected frame type"):
			toks = append(toks, "E:type")
		case err != nil && strings.Contains(err.Error(), "too short"):
			toks = append(toks, "E:short")
		case err != nil:
			toks = append(toks, "E:other:"+hs(err.Error()))
		case kind == 'c':
			toks = append(toks, "c:"+hx(data))
			frames = append(frames, [2][]byte{nil, data})
		case kind == 'd':
			toks = append(toks, fmt.Sprintf("d:%s:%d:%d", hs(typ), len(data), fnv32(data)))
			frames = append(frames, [2][]byte{[]byte(typ), data})
		}
	}
	return append(toks, "no-eof"), frames, nil
}

func isASCIIBytes(b []byte) bool {
	for _, c := range b {
		if c >= 0x80 {
			return false
		}
	}
	return true
}

func c14RandBytes(r *rand.Rand, n int) []byte {
	b := make([]byte, n)
	for i := range b {
		b[i] = byte(r.Intn(256))
	}
	return b
}

func c14Mutate(r *rand.Rand, b []byte) []byte {
	b = append([]byte{}, b...)
	for k := 1 + r.Intn(3); k > 0; k-- {
		if len(b) == 0 {
			return []byte{byte(r.Intn(256))}
		}
		j := r.Intn(len(b))
		switch r.Intn(5) {
		case 0:
			b = append(b[:j], b[j+1:]...)
		case 1:
			b[j] ^= 1 << uint(r.Intn(8))
		case 2:
			b = append(b[:j], append([]byte{byte(r.Intn(256))}, b[j:]...)...)
		case 3:
			b = b[:j]
		default:
			b[j] = []byte{0, 1, 2, 3, 4, 5, 0xff, 0xfe, 0xfd, '\r', ':', 'c', 'd', '*', ' '}[r.Intn(15)]
		}
	}
	return b
}

var c14CtrlCorpus = []string{
	"PTT TRUE", "PTT FALSE", "PTT trUE", "PTT True", "PTT False", "BUFFER 0", "BUFFER 300", "BUFFER 65535", "NEWSTATE ISS", "NEWSTATE IRS",
	"NEWSTATE IDLE", "NEWSTATE DISC", "NEWSTATE FECRcv", "NEWSTATE IRStoISS", "NEWSTATE ISS ", "STATE DISC", "STATE OFFLINE", "DISCONNECTED",
	"BUSY TRUE", "BUSY FALSE", "RDY", "CRCFAULT", "FAULT 5/Error in the application.", "MYCALL LA5NTA", "MYCALL now LA5NTA",
	"GRIDSQUARE now JP20QH", "MYAUX LA5NTA, LE3OF", "MYAUX LA5NTA,LE3OF", "VERSION 1.4.7.0", "FREQUENCY 14096400", "ARQBW 200MAX",
	"ARQTIMEOUT now 90", "LISTEN now False", "CODEC now True", "CONNECTED W1ABC 500", "TARGET LA5NTA", "PENDING", "CANCELPENDING",
	"STATUS CONNECT TO LA3F FAILED!", "INPUTPEAKS 12 34", "foobar baz", "INITIALIZE", "PROTOCOLMODE now ARQ", "ARQCALL LA1B 10",
	"DRIVELEVEL 100", "BUFFER -1", "BUFFER +7", "BUFFER 99999999999999999999", "BUFFER -99999999999999999999", "BUFFER 9223372036854775808",
	"BUFFER 12x", "BUFFER now 12", "REJECTEDBW LA1B", "TUNE 5", "CWID now TRUE", "AUTOBREAK TRUE", "CATPUREDEVICES a, b ,c", "PLAYBACKDEVICES x",
	"CAPTURE dev 1", "PLAYBACK dev 2", "TWOTONETEST true", "FSKONLY now false", "SENDID", "ABORT", "CLOSE", "DISCONNECT",
}

// named shapes: inputs that crashed the unrepaired code (regression corpus, run first)
var c14ParseShapes = []string{"PTT", "BUFFER", "NEWSTATE", "STATE", "FAULT", "CONNECTED", "MYAUX", "ptt ", "BUSY", "CODEC", "MYCALL", "GRIDSQUARE",
	"VERSION", "ARQBW", "FREQUENCY", "ARQTIMEOUT", "DRIVELEVEL", "TARGET", "STATUS", "LISTEN", "CWID", "AUTOBREAK", "CATPUREDEVICES", "PLAYBACKDEVICES",
	"CAPTURE", "PLAYBACK", "TWOTONETEST", "FSKONLY", "", " ", "  PTT  ", "now ", "PTT now", "PTT now ", "BUFFER now", "\tNEWSTATE\t"}

func c14ArqSizes(r *rand.Rand) int {
	switch r.Intn(12) {
	case 0:
		return 0
	case 1:
		return 1
	case 2:
		return 2 + r.Intn(10)
	case 3:
		return 4090 + r.Intn(12) // around bufio's 4096
	case 4:
		return 1000 + r.Intn(5000)
	default:
		return r.Intn(300)
	}
}

func init() {
	register("C14", "cases: (1) crc16Sum on random/boundary byte strings vs the model and vs an independent long-division CRC; (2) parseCtrlMsg on the spec's reply corpus, every command without its parameter (named shapes), mutations and random bytes; (3) host frame encoders (commands, data 0..70000 bytes) vs the model and decoded by the spec-side reader; (4) readFrameOfType on spec-encoded frame streams (serial *, TCP c/d), boundary counts 0..5/65533..65535, mutated and random streams, every stream under a random read segmentation; (5) end-to-end against the simulated TNC in serial (segmented in-memory link) and TCP mode, dial and listen flows: random interleavings of ARQ/FEC/ERR/IDF frames with PTT/NEWSTATE/BUSY/BUFFER/unknown messages, reads with random buffer sizes, TNC-side disconnect or host Close; (6) writes of 0..200000 bytes with 0..3 CRCFAULT injections and interleaved messages, Flush blocking until BUFFER 0; (7) flush-lock event sequences; (8) malformed streams through the full driver in a child process. Non-trivial: e2e cases with >=1 ARQ frame larger than a read buffer or >=1 PTT among other messages, writes with >=1 fault or >65535 bytes, decode streams with >=2 frames or an error token, parse lines that select a value-producing clause; distinct by case line.", c14Run)
}

func c14Run(c *Ctx) {
	log.SetOutput(io.Discard)
	var cases []Case
	rng := c.Rng
	sub := func() *rand.Rand { return rand.New(rand.NewSource(rng.Int63())) }
	mode := func(tcp bool) string {
		if tcp {
			return "t"
		}
		return "s"
	}

	// ---- (1) CRC ----
	pinned := map[string]uint16{"RDY\r": 55805, "voluptatem accusantium": 24749, "hagavik": 44843,
		"Lorem ipsum dolor sit amet, consectetur adipiscing elit, sed do eiusmod tempor": 50066}
	for s, want := range pinned {
		if got := simCRC([]byte(s)); got != want {
			c.Violate("C14:sim-crc-selftest", fmt.Sprintf("the simulator's own CRC gives %d for %q, pinned value %d", got, s, want), s)
		}
		if got := ardop.VerifCRC16Sum([]byte(s)); got != want {
			c.Violate("C14:crc-pinned-vector", fmt.Sprintf("crc16Sum(%q) = %d, pinned %d", s, got, want), s)
		}
	}
	for i := 0; i < c.Budget(1500, 20000); i++ {
		var d []byte
		switch rng.Intn(4) {
		case 0:
			d = c14RandBytes(rng, rng.Intn(4))
		case 1:
			d = bytes.Repeat([]byte{[]byte{0, 0xff, 0x80, 1}[rng.Intn(4)]}, rng.Intn(40))
		default:
			d = c14RandBytes(rng, rng.Intn(200))
		}
		got := ardop.VerifCRC16Sum(d)
		if want := simCRC(d); got != want {
			c.Violate("C14:crc-differs-from-spec", fmt.Sprintf("crc16Sum(%x) = %d, remainder of 0xFFFF‖data modulo x^16+x^15+x^11+x^4 is %d", d, got, want), hx(d))
		}
		cases = append(cases, Case{Line: "ardop_crc " + hx(d), Impl: fmt.Sprint(got), Desc: fmt.Sprintf("crc16Sum(%d bytes)", len(d)), Class: "crc", Nontrivial: len(d) > 0})
	}

	// ---- (2) parseCtrlMsg ----
	addParse := func(s, class string) {
		out, pv := c14Parse(s)
		if pv != nil {
			key := "C14:parse-panic"
			c.Violate(key, fmt.Sprintf("parseCtrlMsg(%q) panicked: %v (a control message from the TNC crashes the control loop goroutine and with it the process)", s, pv), map[string]string{"line_hex": hs(s), "line": s})
		}
		if !isASCIIBytes([]byte(s)) {
			c.Res.Distribution["parse-nonascii(oracle only)"]++
			return
		}
		if strings.ContainsAny(s, "\n") { // driver line protocol carries hex, fine
		}
		cases = append(cases, Case{Line: "ardop_parse " + hs(s), Impl: out, Desc: fmt.Sprintf("parseCtrlMsg(%q)", s), Class: class,
			Nontrivial: !strings.HasSuffix(out, " nil") && out != "panic"})
	}
	for _, s := range c14ParseShapes {
		addParse(s, "parse-shape")
	}
	for _, s := range c14CtrlCorpus {
		addParse(s, "parse-corpus")
		addParse(strings.ToLower(s), "parse-corpus")
		addParse(" "+s+" \r", "parse-corpus")
	}
	for i := 0; i < c.Budget(3000, 40000); i++ {
		s := c14CtrlCorpus[rng.Intn(len(c14CtrlCorpus))]
		switch rng.Intn(4) {
		case 0:
			s = string(c14Mutate(rng, []byte(s)))
			addParse(s, "parse-mutated")
		case 1:
			s = strings.SplitN(s, " ", 2)[0] + []string{"", " ", " now", " now ", " NOW x", " true", " 0", " -0", " +", " -", " 1 2"}[rng.Intn(11)]
			addParse(s, "parse-param-edge")
		case 2:
			b := c14RandBytes(rng, rng.Intn(12))
			if rng.Intn(2) == 0 {
				for j := range b {
					b[j] &= 0x7f
				}
			}
			addParse(string(b), "parse-random")
		default:
			const al = "PTBUFERNWSA now0123-+ \t,"
			b := make([]byte, rng.Intn(16))
			for j := range b {
				b[j] = al[rng.Intn(len(al))]
			}
			addParse(string(b), "parse-alphabet")
		}
	}

	// ---- (3) host frame encoders ----
	for i := 0; i < c.Budget(300, 3000); i++ {
		tcp := rng.Intn(2) == 0
		s := c14CtrlCorpus[rng.Intn(len(c14CtrlCorpus))]
		if rng.Intn(3) == 0 {
			s = strings.ReplaceAll(string(c14RandBytes(rng, rng.Intn(30))), "\r", "")
		}
		if rng.Intn(6) == 0 {
			s += "%d 100% %s"
		}
		var buf bytes.Buffer
		if err := ardop.VerifWriteCtrlFrame(tcp, &buf, s); err != nil {
			c.Violate("C14:write-ctrl-error", fmt.Sprintf("writeCtrlFrame(%q) = %v", s, err), s)
		}
		cases = append(cases, Case{Line: "ardop_encctrl " + mode(tcp) + " " + hs(s), Impl: hx(buf.Bytes()), Desc: fmt.Sprintf("writeCtrlFrame(tcp=%v, %q)", tcp, s), Class: "enc-ctrl", Nontrivial: true})
	}

	// ---- (4) readFrameOfType ----
	spec := func(tcp bool) *ardopSim { return &ardopSim{tcp: tcp} }
	addDecode := func(tcp bool, ft byte, stream []byte, class string, wantFrames [][2][]byte) {
		sr := sub()
		seg := func() int {
			if sr.Intn(3) == 0 {
				return 0
			}
			return 1 + sr.Intn(7)
		}
		toks, frames, pv := c14Decode(tcp, ft, stream, seg)
		rep := map[string]interface{}{"tcp": tcp, "frame_type": string(ft), "stream_hex": hx(stream)}
		if pv != nil {
			key := "C14:frame-reader-panic"
			if strings.HasPrefix(class, "decode-count-") {
				key += ":" + strings.TrimPrefix(class, "decode-")
			}
			c.Violate(key, fmt.Sprintf("readFrameOfType(%q, tcp=%v) panicked on a %d byte stream: %v", ft, tcp, len(stream), pv), rep)
		}
		if class == "decode-truncated" {
			// a stream cut short may only yield the complete frames before the cut, nothing invented
			ok := len(frames) <= len(wantFrames)
			for i := 0; ok && i < len(frames); i++ {
				ok = bytes.Equal(frames[i][0], wantFrames[i][0]) && bytes.Equal(frames[i][1], wantFrames[i][1])
			}
			if !ok {
				c.Violate("C14:frame-invented", fmt.Sprintf("readFrameOfType (tcp=%v) on a stream cut inside a frame returned a frame the TNC never completed: %s", tcp, trunc(strings.Join(toks, " "), 300)), rep)
			}
		} else if wantFrames != nil {
			ok := len(frames) == len(wantFrames)
			for i := 0; ok && i < len(frames); i++ {
				ok = bytes.Equal(frames[i][0], wantFrames[i][0]) && bytes.Equal(frames[i][1], wantFrames[i][1])
			}
			if !ok {
				c.Violate("C14:frame-roundtrip", fmt.Sprintf("readFrameOfType (tcp=%v) did not return the %d frames the TNC framed per the spec (got %d: %s)", tcp, len(wantFrames), len(frames), trunc(strings.Join(toks, " "), 300)), rep)
			}
		}
		nt := len(toks) > 2
		for _, t := range toks {
			nt = nt || strings.HasPrefix(t, "E:")
		}
		cases = append(cases, Case{Line: fmt.Sprintf("ardop_decode %s %d %s", mode(tcp), ft, hx(stream)), Impl: strings.Join(toks, " "),
			Desc: fmt.Sprintf("decode tcp=%v type=%q %d bytes [%s]", tcp, ft, len(stream), class), Class: class, Nontrivial: nt})
	}
	// named shapes first
	for _, cnt := range []int{0, 1, 2, 3, 4, 5, 65533, 65534, 65535} {
		for _, tcp := range []bool{false, true} {
			s := spec(tcp)
			body := c14RandBytes(rng, cnt)
			if cnt >= 3 {
				copy(body, "ARQ")
			}
			var stream []byte
			if tcp {
				stream = append(be16(cnt), body...)
			} else {
				b := append(be16(cnt), body...)
				stream = append(append([]byte("d:"), b...), be16(int(simCRC(b)))...)
			}
			stream = append(stream, s.dataFrame("ARQ", []byte("after"))...)
			ft := byte('*')
			if tcp {
				ft = 'd'
			}
			var want [][2][]byte
			if cnt >= 3 {
				want = [][2][]byte{{[]byte("ARQ"), body[3:]}, {[]byte("ARQ"), []byte("after")}}
			}
			addDecode(tcp, ft, stream, fmt.Sprintf("decode-count-%d", cnt), want)
		}
	}
	for i := 0; i < c.Budget(1200, 15000); i++ {
		tcp := rng.Intn(2) == 0
		s := spec(tcp)
		isData := rng.Intn(2) == 0
		ft := byte('*')
		if tcp {
			ft = 'c'
			if isData {
				ft = 'd'
			}
		}
		var stream []byte
		var want [][2][]byte
		nf := 1 + rng.Intn(5)
		for j := 0; j < nf; j++ {
			ctrl := !isData
			if !tcp {
				ctrl = rng.Intn(2) == 0
			}
			if ctrl {
				t := c14CtrlCorpus[rng.Intn(len(c14CtrlCorpus))]
				if rng.Intn(4) == 0 {
					t = strings.ReplaceAll(string(c14RandBytes(rng, rng.Intn(20))), "\r", "")
				}
				stream = append(stream, s.ctrlFrame(t)...)
				want = append(want, [2][]byte{nil, []byte(t)})
			} else {
				typ := []string{"ARQ", "FEC", "ERR", "IDF"}[rng.Intn(4)]
				p := c14RandBytes(rng, c14ArqSizes(rng))
				stream = append(stream, s.dataFrame(typ, p)...)
				want = append(want, [2][]byte{[]byte(typ), p})
			}
		}
		switch rng.Intn(5) {
		case 0, 1:
			addDecode(tcp, ft, stream, "decode-valid", want)
		case 2:
			addDecode(tcp, ft, stream[:rng.Intn(len(stream)+1)], "decode-truncated", want)
		case 3:
			addDecode(tcp, ft, c14Mutate(rng, stream), "decode-mutated", nil)
		default:
			b := c14RandBytes(rng, rng.Intn(60))
			if rng.Intn(2) == 0 {
				const al = "cd:*\r\x00\x01\x03\x05ARQ"
				for j := range b {
					b[j] = al[rng.Intn(len(al))]
				}
			}
			addDecode(tcp, ft, b, "decode-random", nil)
		}
	}

	c.Compare(cases)
	cases = nil

	// ---- (8) malformed streams through the full driver, in a child process (before the in-process sections:
	// a driver that can be crashed by TNC input would take the harness down with it) ----
	c14Children(c, sub)
	for _, v := range c.Res.Violations {
		if v.Key == "C14:parse-panic" || strings.HasPrefix(v.Key, "C14:frame-reader-panic") || (strings.HasPrefix(v.Key, "C14:tnc-input-crashes-process") && !strings.HasSuffix(v.Key, ":link-loss-during-write")) {
			c.Note("in-process end-to-end sections (5)-(7) skipped: input from the TNC can crash the driver's goroutines and thereby this process (see the violations)")
			return
		}
	}

	// ---- (5)-(7) end to end ----
	c14EndToEnd(c, &cases, sub)
	c.Compare(cases)
}

// ---------------------------------------------------------------------------------------------

type c14Item struct {
	ctrl    string // control message text ("" if data)
	typ     string
	payload []byte
}

func (it c14Item) token() string {
	if it.typ == "" {
		return "c" + hs(it.ctrl)
	}
	return "d" + hs(it.typ) + ":" + hx(it.payload)
}

func c14EndToEnd(c *Ctx, cases *[]Case, sub func() *rand.Rand) {
	rng := c.Rng
	noise := []string{"NEWSTATE ISS", "NEWSTATE IRS", "NEWSTATE IDLE", "NEWSTATE ISS ", "BUSY TRUE", "BUSY FALSE", "BUFFER 0", "BUFFER 120", "BUFFER 7",
		"RDY", "foobar baz", "STATUS hello there", "INPUTPEAKS 1 2", "PENDING", "CANCELPENDING", "FREQUENCY 7045500", "FAULT something"}
	ptts := []string{"PTT TRUE", "PTT FALSE", "PTT True", "PTT False", "PTT trUE", "ptt false", "PTT now TRUE", "PTT yes"}

	nRx := c.Budget(140, 1500)
	for i := 0; i < nRx && c.TimeLeft() && c14Hangs < 3; i++ {
		tcp := rng.Intn(2) == 0
		flow := "dial"
		if rng.Intn(4) == 0 {
			flow = "listen"
		}
		big := i%40 == 7 // one frame at the 65535 count limit now and then
		// script
		var items []c14Item
		n := 1 + rng.Intn(12)
		for j := 0; j < n; j++ {
			switch rng.Intn(6) {
			case 0, 1:
				sz := c14ArqSizes(rng)
				if big && j == 0 {
					sz = 65532
				}
				items = append(items, c14Item{typ: "ARQ", payload: c14RandBytes(rng, sz)})
			case 2:
				items = append(items, c14Item{typ: []string{"FEC", "ERR", "IDF"}[rng.Intn(3)], payload: []byte(" ID LA5NTA:[JP20QE] ")})
			case 3, 4:
				items = append(items, c14Item{ctrl: ptts[rng.Intn(len(ptts))]})
			default:
				if rng.Intn(3) == 0 {
					// a data frame too short to carry a frame type (declared length 1 or 2): it is refused - and has to be
					// consumed, or nothing behind it on the data port is ever seen
					items = append(items, c14Item{typ: []string{"A", "AR"}[rng.Intn(2)]})
					break
				}
				items = append(items, c14Item{ctrl: noise[rng.Intn(len(noise))]})
			}
		}
		// the last data item is a non-empty ARQ frame: once it has been read every earlier data frame has been handled
		items = append(items, c14Item{typ: "ARQ", payload: c14RandBytes(rng, 1+rng.Intn(20))})
		endByClose := rng.Intn(2) == 0
		endMsg := []string{"DISCONNECTED", "NEWSTATE DISC", "NEWSTATE disc "}[rng.Intn(3)]
		sr := sub()
		bufChoice := rng.Intn(4)
		nextBuf := func() int {
			switch bufChoice {
			case 0:
				return 1 + rng.Intn(4)
			case 1:
				return 1 + rng.Intn(200)
			case 2:
				return 4096
			default:
				return 1 + rng.Intn(70000)
			}
		}
		desc := fmt.Sprintf("e2e-rx mode=%s flow=%s items=%d end=%v", map[bool]string{true: "tcp", false: "serial"}[tcp], flow, len(items), map[bool]string{true: "host-close", false: endMsg}[endByClose])
		rep := map[string]interface{}{"mode": map[bool]string{true: "tcp", false: "serial"}[tcp], "flow": flow, "end": endMsg, "host_close": endByClose}
		var toks []string
		for _, it := range items {
			toks = append(toks, it.token())
		}
		rep["items"] = trunc(strings.Join(toks, " "), 20000)

		env, err := c14Open(tcp, func() int {
			if sr.Intn(3) == 0 {
				return 0
			}
			return 1 + sr.Intn(9)
		})
		if err != nil {
			c.Violate("C14:open-failed", "ardop.Open against the simulated TNC failed: "+err.Error(), rep)
			continue
		}
		func() {
			defer env.shutdown()
			if flow == "dial" {
				err = env.dial()
			} else {
				err = env.listenAccept()
			}
			if err != nil {
				c.Violate("C14:connect-failed:"+flow, "no connection against the simulated TNC: "+err.Error(), rep)
				return
			}
			total := 0
			for _, it := range items {
				total += len(it.payload) + len(it.ctrl) + 8
			}
			if tcp && rng.Intn(3) == 0 {
				env.sim.chop = 1 + rng.Intn(5) + total/150 // deliver the TNC's bytes in small TCP writes
			}
			pttBase := len(env.ptt.snapshot())
			var wantPTT []bool
			var wantBytes []byte
			for _, it := range items {
				if it.typ == "" {
					env.sim.sendCtrl(it.ctrl)
					f := strings.Fields(strings.ToLower(it.ctrl))
					if len(f) >= 1 && f[0] == "ptt" {
						rest := strings.TrimPrefix(strings.TrimSpace(strings.ToLower(it.ctrl))[3:], " ")
						rest = strings.TrimPrefix(rest, "now ")
						wantPTT = append(wantPTT, rest == "true")
					}
				} else {
					env.sim.sendData(it.typ, it.payload)
					if it.typ == "ARQ" {
						wantBytes = append(wantBytes, it.payload...)
					}
				}
			}
			// read everything, recording the buffer sizes used
			var got []byte
			var reads []string
			var bufs []int
			readOne := func(n int) (int, error, bool) {
				var k int
				var rerr error
				p := make([]byte, n)
				hang, pv := c14Watch1(c14Watch, func() { k, rerr = env.conn.Read(p) })
				if pv != nil {
					c.Violate("C14:read-panic", fmt.Sprintf("conn.Read with a %d byte buffer panicked: %v", n, pv), rep)
					return 0, nil, false
				}
				if hang && len(got) == len(wantBytes) {
					c.Violate("C14:no-eof-after-disconnect", "conn.Read did not return io.EOF within 5 s of the end of the connection (still blocked)", rep)
					return 0, nil, false
				}
				if hang {
					c.Violate("C14:read-hang", fmt.Sprintf("conn.Read blocked although %d of %d delivered ARQ bytes were still unread", len(wantBytes)-len(got), len(wantBytes)), rep)
					return 0, nil, false
				}
				bufs = append(bufs, n)
				got = append(got, p[:k]...)
				if rerr == io.EOF {
					reads = append(reads, "E")
				} else if rerr != nil {
					reads = append(reads, "err")
				} else {
					reads = append(reads, fmt.Sprint(k))
				}
				return k, rerr, true
			}
			for len(got) < len(wantBytes) {
				if _, rerr, ok := readOne(nextBuf()); !ok || rerr != nil {
					break
				}
			}
			if !bytes.Equal(got, wantBytes) {
				c.Violate("C14:stream-differs", fmt.Sprintf("Read returned %d bytes, the TNC delivered ARQ payloads of %d bytes in total; first difference at %d", len(got), len(wantBytes), firstDiff(got, wantBytes)), rep)
				return
			}
			wantPTT = append(wantPTT, false) // a marker: the control loop is sequential, so once it is seen every earlier message has been handled
			env.sim.sendCtrl("PTT FALSE")
			if !env.ptt.waitLen(pttBase+len(wantPTT), 3*time.Second) {
				c14Hangs++
				c.Violate("C14:ptt-lost", fmt.Sprintf("the PTT controller saw %d calls within 3 s, the TNC sent %d PTT messages", len(env.ptt.snapshot())-pttBase, len(wantPTT)), rep)
				return
			}
			toks = append(toks, "c"+hs("PTT FALSE"))
			gotPTT := env.ptt.snapshot()[pttBase:]
			if fmt.Sprint(gotPTT) != fmt.Sprint(wantPTT) {
				c.Violate("C14:ptt-order", fmt.Sprintf("PTT controller saw %v, the TNC sent %v", gotPTT, wantPTT), rep)
			}
			// end of connection
			nc := env.sim.nCmds()
			if endByClose {
				env.sim.Drain()
				toks = append(toks, "c"+hs("BUFFER 0"))
				var cerr error
				hang, pv := c14Watch1(c14Watch, func() { cerr = env.conn.Close() })
				if hang || pv != nil || cerr != nil {
					c.Violate("C14:close-failed", fmt.Sprintf("conn.Close: hang=%v panic=%v err=%v", hang, pv, cerr), rep)
					return
				}
				if !env.sim.waitCmd(nc, "DISCONNECT", time.Second) {
					c.Violate("C14:close-no-disconnect", "conn.Close returned nil but the TNC never received DISCONNECT", rep)
				}
				toks = append(toks, "c"+hs("DISCONNECT"), "c"+hs("DISCONNECTED"), "c"+hs("NEWSTATE DISC"), "c"+hs("RDY"))
			} else {
				env.sim.setState("DISC")
				env.sim.sendCtrl(endMsg)
				toks = append(toks, "c"+hs(endMsg))
			}
			if k, rerr, ok := readOne(16); ok && (rerr != io.EOF || k != 0) {
				c.Violate("C14:no-eof-after-disconnect", fmt.Sprintf("Read after the disconnect returned (%d, %v), want (0, io.EOF)", k, rerr), rep)
			}
			env.barrier()
			toks = append(toks, "c"+hs("PTT FALSE"))
			gotPTT = env.ptt.snapshot()[pttBase:]
			// final observables
			pt := make([]byte, len(gotPTT))
			for i, b := range gotPTT {
				pt[i] = '0'
				if b {
					pt[i] = '1'
				}
			}
			busy := "0"
			if env.tnc.Busy() {
				busy = "1"
			}
			impl := fmt.Sprintf("ptt=%s panic=0 eof=1 reads=%s got=%d:%d buffer=%d state=%d busy=%s", pt, strings.Join(reads, ","), len(got), fnv32(got),
				env.conn.(transport.TxBuffer).TxBufferLen(), uint8(env.tnc.State()), busy)
			bs := make([]string, len(bufs))
			for i, b := range bufs {
				bs[i] = fmt.Sprint(b)
			}
			line := "ardop_loop 1 k " + strings.Join(toks, " ") + " r" + strings.Join(bs, ",")
			nt := false
			for _, it := range items {
				nt = nt || (it.typ == "ARQ" && len(it.payload) > 4) || strings.HasPrefix(it.ctrl, "PTT ")
			}
			_, _, _, _, _, perrs := env.sim.snapshot()
			if len(perrs) > 0 {
				c.Violate("C14:host-frame-malformed", "the TNC received a malformed host frame: "+perrs[0], rep)
			}
			*cases = append(*cases, Case{Line: line, Impl: impl, Desc: desc, Class: "e2e-rx-" + map[bool]string{true: "tcp", false: "serial"}[tcp], Nontrivial: nt})
		}()
	}

	// ---- (5a) the remote's first ARQ frame arrives directly behind CONNECTED, while Dial is still finishing ----
	for i := 0; i < c.Budget(4, 40) && c.TimeLeft() && c14Hangs < 6; i++ {
		// serial mode only: there CONNECTED and the data frame travel on ONE ordered stream. Over TCP they use two
		// sockets, and which of them the host handles first is not defined by the interface.
		tcp := false
		banner := c14RandBytes(rng, 1+rng.Intn(300))
		rep := map[string]interface{}{"mode": map[bool]string{true: "tcp", false: "serial"}[tcp], "banner_len": len(banner), "tnc": "delivers an ARQ frame directly behind the CONNECTED report"}
		env, err := c14Open(tcp, nil)
		if err != nil {
			c.Violate("C14:open-failed", "ardop.Open against the simulated TNC failed: "+err.Error(), rep)
			continue
		}
		func() {
			defer env.shutdown()
			env.sim.mu.Lock()
			env.sim.banner = banner
			env.sim.mu.Unlock()
			if err := env.dial(); err != nil {
				c.Violate("C14:connect-failed:dial", "no connection against the simulated TNC: "+err.Error(), rep)
				return
			}
			tail := c14RandBytes(rng, 1+rng.Intn(50))
			env.sim.sendData("ARQ", tail)
			want := append(append([]byte{}, banner...), tail...)
			var got []byte
			hang, pv := c14Watch1(c14Watch, func() {
				buf := make([]byte, 1+rng.Intn(400))
				env.conn.SetReadDeadline(time.Now().Add(3 * time.Second))
				for len(got) < len(want) {
					n, err := env.conn.Read(buf)
					got = append(got, buf[:n]...)
					if err != nil {
						return
					}
				}
			})
			if hang || pv != nil {
				c.Violate("C14:read-hang", fmt.Sprintf("conn.Read blocked or panicked (hang=%v panic=%v) although %d ARQ bytes were delivered, the first %d directly behind CONNECTED", hang, pv, len(want), len(banner)), rep)
				return
			}
			if !bytes.Equal(got, want) {
				c.Violate("C14:stream-differs:early-data", fmt.Sprintf("Read returned %d bytes, the TNC delivered ARQ payloads of %d bytes in total (the first %d directly behind the CONNECTED report); first difference at %d", len(got), len(want), len(banner), firstDiff(got, want)), rep)
			}
			c.Res.Distribution["e2e-rx-early-data(oracle only)"]++
		}()
	}

	// ---- (5c) the remote ends the session while delivered ARQ frames are still UNREAD: nothing delivered may be lost ----
	for i := 0; i < c.Budget(4, 40) && c.TimeLeft() && c14Hangs < 6; i++ {
		tcp := false // one ordered stream (see 5a)
		nF := 5 + rng.Intn(30)
		var want []byte
		var frames [][]byte
		for j := 0; j < nF; j++ {
			f := c14RandBytes(rng, 1+rng.Intn(40))
			frames = append(frames, f)
			want = append(want, f...)
		}
		end := []string{"DISCONNECTED", "NEWSTATE DISC"}[rng.Intn(2)]
		rep := map[string]interface{}{"mode": "serial", "arq_frames": nF, "bytes": len(want), "then": end, "reader": "starts reading only after the end of the session has been reported"}
		env, err := c14Open(tcp, nil)
		if err != nil {
			c.Violate("C14:open-failed", "ardop.Open against the simulated TNC failed: "+err.Error(), rep)
			continue
		}
		func() {
			defer env.shutdown()
			if err := env.dial(); err != nil {
				c.Violate("C14:connect-failed:dial", "no connection against the simulated TNC: "+err.Error(), rep)
				return
			}
			for _, f := range frames {
				env.sim.sendData("ARQ", f)
			}
			env.sim.sendCtrl(end)
			env.settle(300 * time.Millisecond)
			time.Sleep(30 * time.Millisecond) // the end of the session has been handled by now
			var got []byte
			var rerr error
			hang, pv := c14Watch1(c14Watch, func() {
				buf := make([]byte, 1+rng.Intn(64))
				for {
					n, err := env.conn.Read(buf)
					got = append(got, buf[:n]...)
					if err != nil {
						rerr = err
						return
					}
				}
			})
			if hang || pv != nil {
				c.Violate("C14:read-hang", fmt.Sprintf("conn.Read blocked or panicked (hang=%v panic=%v) after the remote ended the session with %d delivered bytes unread", hang, pv, len(want)), rep)
				return
			}
			if !bytes.Equal(got, want) {
				c.Violate("C14:stream-differs:unread-at-disconnect", fmt.Sprintf("Read returned %d bytes (then %v), the TNC had delivered ARQ payloads of %d bytes before it reported %s; first difference at %d", len(got), rerr, len(want), end, firstDiff(got, want)), rep)
			}
			c.Res.Distribution["e2e-rx-unread-at-disconnect(oracle only)"]++
		}()
	}

	// ---- (5b) back-to-back writes over a SLOW serial link with a TNC that reports BUFFER early ----
	// The TNC may report BUFFER (for earlier data) as soon as it has seen a data frame's header; Write then
	// returns while the frame's tail is still going out on the link. Whatever the host does next, every data
	// frame on the wire must be intact and the payloads must concatenate to the written bytes.
	for i := 0; i < c.Budget(6, 60) && c.TimeLeft() && c14Hangs < 6; i++ {
		nW := 3 + rng.Intn(4)
		var chunks [][]byte
		for j := 0; j < nW; j++ {
			chunks = append(chunks, c14RandBytes(rng, 40+rng.Intn(400)))
		}
		rep := map[string]interface{}{"mode": "serial-slow-link", "writes": nW, "tnc": "reports BUFFER after the frame header, takes the frame body in two halves 10 ms apart"}
		host, tncEnd := newMemPipe(nil, nil)
		sim := newArdopSim(false, tncEnd, nil)
		slow := &slowLink{memConn: host}
		var tnc *ardop.TNC
		var err error
		hang, pv := c14Watch1(c14Watch, func() { tnc, err = ardop.Open(slow, "N0CALL", "JP20QE") })
		if hang || pv != nil || err != nil {
			host.Kill()
			c.Violate("C14:open-failed", fmt.Sprintf("ardop.Open over the slow serial link: hang=%v panic=%v err=%v", hang, pv, err), rep)
			continue
		}
		func() {
			env := &c14Env{sim: sim, tnc: tnc, host: host, ptt: &pttRec{}}
			defer func() {
				// no frame may be half way out when the link is closed (the driver's writer goroutine panics on a
				// failed data write, see the link-loss child case)
				slow.setSlow(false)
				time.Sleep(60 * time.Millisecond)
				env.shutdown()
			}()
			tnc.SetPTT(env.ptt)
			if err := env.dial(); err != nil {
				c.Violate("C14:connect-failed:dial", "no connection against the simulated TNC: "+err.Error(), rep)
				return
			}
			sim.mu.Lock()
			sim.earlyBuffer = true
			sim.mu.Unlock()
			slow.setSlow(true)
			var werr error
			hang, pv := c14Watch1(c14Watch, func() {
				for _, ch := range chunks {
					if _, werr = env.conn.Write(ch); werr != nil {
						return
					}
				}
			})
			if hang || pv != nil {
				c.Violate("C14:write-hang-or-panic", fmt.Sprintf("back-to-back writes over a slow link: hang=%v panic=%v", hang, pv), rep)
				return
			}
			sim.waitFor(2*time.Second, func() bool { return len(sim.offered)+len(sim.protoErrs) >= nW })
			slow.setSlow(false)
			_, _, accepted, _, _, perrs := sim.snapshot()
			if len(perrs) > 0 {
				c.Violate("C14:host-frame-malformed:slow-link", "the TNC received a malformed host frame during back-to-back writes over a slow link: "+perrs[0], rep)
				return
			}
			if werr != nil {
				c.Violate("C14:write-accounting", "Write failed during back-to-back writes over a slow link: "+werr.Error(), rep)
				return
			}
			if !bytes.Equal(bytes.Join(accepted, nil), bytes.Join(chunks, nil)) {
				c.Violate("C14:write-data-differs:slow-link", fmt.Sprintf("the %d data frames the TNC accepted do not concatenate to the %d written bytes", len(accepted), len(bytes.Join(chunks, nil))), rep)
			}
			c.Res.Distribution["e2e-tx-slow-link(oracle only)"]++
		}()
	}

	// ---- (6) writes ----
	nTx := c.Budget(90, 900)
	flushProbes := 0
	for i := 0; i < nTx && c.TimeLeft() && c14Hangs < 6; i++ {
		tcp := rng.Intn(2) == 0
		var size int
		switch rng.Intn(10) {
		case 0:
			size = 65535
		case 1:
			size = 65536 + rng.Intn(5000)
		case 2:
			size = []int{65534, 70000, 131070, 200000}[rng.Intn(4)]
		case 3:
			size = 1
		case 4:
			size = 0
		default:
			size = 1 + rng.Intn(3000)
		}
		faults := rng.Intn(4)
		if rng.Intn(3) == 0 {
			faults = 0
		}
		p := c14RandBytes(rng, size)
		var pre []string // asynchronous responses the TNC emits between a data frame and its answer
		for j := rng.Intn(4); j > 0 && rng.Intn(2) == 0; j-- {
			pre = append(pre, []string{"PTT TRUE", "PTT FALSE", "NEWSTATE ISS", "BUSY FALSE", "STATUS queued", "RDY"}[rng.Intn(6)])
		}
		stalled := i%5 == 3 && size > 0
		if stalled {
			pre = nil // the message that meets the stalled receiver is the answer to the data frame itself
		}
		inbound := i%3 == 2 // every third write goes out on an ACCEPTED connection (Listen/Accept) instead of a dialled one
		rep := map[string]interface{}{"mode": map[bool]string{true: "tcp", false: "serial"}[tcp], "connection": map[bool]string{true: "accepted (Listen/Accept)", false: "dialled"}[inbound], "write_len": size, "crcfaults": faults, "data_fnv": fnv32(p), "before_each_answer": pre, "stalled_state_receiver": stalled}
		env, err := c14Open(tcp, nil)
		if err != nil {
			c.Violate("C14:open-failed", "ardop.Open against the simulated TNC failed: "+err.Error(), rep)
			continue
		}
		func() {
			defer env.shutdown()
			if inbound {
				if err := env.listenAccept(); err != nil {
					c.Violate("C14:connect-failed:listen", "no inbound connection against the simulated TNC: "+err.Error(), rep)
					return
				}
			} else if err := env.dial(); err != nil {
				c.Violate("C14:connect-failed:dial", "no connection against the simulated TNC: "+err.Error(), rep)
				return
			}
			if stalled {
				// the application also watches the TNC state through the public ListenEnabled() receiver but is not
				// reading its States() channel right now (a stalled status display). The driver gives up on such a
				// receiver after 500 ms; that must not cost any OTHER receiver - the Write below - a message.
				sr := env.tnc.ListenEnabled()
				defer sr.Close()
				env.sim.sendCtrl("NEWSTATE IRS")
				for k := 0; env.tnc.State() != ardop.IRS; k++ {
					if k == 300 {
						c.Violate("C14:newstate-not-processed", "NEWSTATE IRS was not processed within 3 s", rep)
						return
					}
					time.Sleep(10 * time.Millisecond)
				}
			}
			env.sim.mu.Lock()
			env.sim.faultNext = faults
			env.sim.preAck = pre
			env.sim.mu.Unlock()
			var n int
			var werr error
			hang, pv := c14Watch1(c14Watch, func() { n, werr = env.conn.Write(p) })
			if hang || pv != nil {
				c.Violate("C14:write-hang-or-panic", fmt.Sprintf("conn.Write(%d bytes) with %d CRCFAULT replies: hang=%v panic=%v", size, faults, hang, pv), rep)
				return
			}
			_, offered, accepted, rawData, _, perrs := env.sim.snapshot()
			if len(perrs) > 0 {
				c.Violate("C14:host-frame-malformed", "the TNC received a malformed host frame: "+perrs[0], rep)
			}
			want := p
			if len(want) > 65535 {
				want = want[:65535]
			}
			errClass := "nil"
			if werr != nil {
				errClass = "other"
				if strings.Contains(werr.Error(), "CRC failure") {
					errClass = "crc"
				} else if werr == io.EOF {
					errClass = "eof"
				}
			}
			// property oracle
			if size == 0 {
				if werr != nil || n != 0 || len(offered) != 0 {
					c.Violate("C14:write-empty", fmt.Sprintf("Write of zero bytes returned (%d, %v) and the TNC saw %d data frame(s); the spec's byte count is 0001-FFFF", n, werr, len(offered)), rep)
				}
			} else if faults < 3 {
				if werr != nil || n != len(want) {
					c.Violate("C14:write-accounting", fmt.Sprintf("Write(%d bytes), %d CRCFAULT(s) then accepted: returned (%d, %v), want (%d, nil)", size, faults, n, werr, len(want)), rep)
				}
				if len(accepted) != 1 || !bytes.Equal(accepted[0], want) {
					c.Violate("C14:write-data-differs", fmt.Sprintf("Write(%d bytes): the TNC accepted %d frame(s) whose payload is not the %d written bytes", size, len(accepted), len(want)), rep)
				}
				if len(offered) != faults+1 {
					c.Violate("C14:write-retransmission", fmt.Sprintf("after %d CRCFAULT(s) the TNC saw %d data frames, want %d", faults, len(offered), faults+1), rep)
				}
			} else {
				if werr == nil {
					c.Violate("C14:write-accounting", fmt.Sprintf("Write(%d bytes) answered by 3 CRCFAULTs returned (%d, nil), want an error", size, n), rep)
				}
				if len(accepted) != 0 || len(offered) != 3 {
					c.Violate("C14:write-retransmission", fmt.Sprintf("3 CRCFAULTs: the TNC saw %d data frames (accepted %d), want 3 (0)", len(offered), len(accepted)), rep)
				}
			}
			for _, o := range offered {
				if !bytes.Equal(o, want) {
					c.Violate("C14:write-data-differs", "a (re)transmitted data frame does not carry the written bytes", rep)
				}
			}
			sent := make([]string, len(rawData))
			for i, r := range rawData {
				sent[i] = fmt.Sprintf("%d:%d", len(r), fnv32(r))
			}
			locked := "0"
			if werr == nil && size > 0 {
				locked = "1"
				// Flush must not return before the TNC reports an empty buffer
				fl, ok := env.conn.(transport.Flusher)
				if !ok {
					c.Violate("C14:no-flusher", "the connection does not implement transport.Flusher", rep)
					return
				}
				done := make(chan error, 1)
				go func() { done <- fl.Flush() }()
				if flushProbes < c.Budget(25, 200) {
					flushProbes++
					select {
					case ferr := <-done:
						c.Violate("C14:flush-early", fmt.Sprintf("Flush returned %v although the TNC's last report was BUFFER %d (never 0 since the write)", ferr, len(want)), rep)
						return
					case <-time.After(50 * time.Millisecond):
					}
				}
				if i%7 == 5 && !stalled {
					// the link is lost while the TNC still holds the data (its last report was BUFFER n > 0, never 0): Flush
					// has to say so - now and on every later call - and must never report success
					rep["link_lost_before_buffer_0"] = true
					env.sim.sendCtrl("DISCONNECTED")
					env.sim.sendCtrl("NEWSTATE DISC")
					select {
					case ferr := <-done:
						if ferr == nil {
							c.Violate("C14:flush-nil-after-link-loss", "Flush returned nil when the link was lost although the TNC never reported an empty buffer", rep)
							return
						}
					case <-time.After(c14Watch):
						c.Violate("C14:flush-hang", "Flush did not return within 5 s of the loss of the link", rep)
						return
					}
					for k := 0; k < 24; k++ {
						var ferr error
						hang, pv := c14Watch1(c14Watch, func() { ferr = fl.Flush() })
						if hang || pv != nil {
							c.Violate("C14:flush-hang", fmt.Sprintf("Flush after the loss of the link: hang=%v panic=%v", hang, pv), rep)
							return
						}
						if ferr == nil {
							c.Violate("C14:flush-nil-after-link-loss", fmt.Sprintf("Flush call %d after the loss of the link returned nil although the TNC never reported an empty buffer", k+1), rep)
							return
						}
					}
					c.Res.Distribution["e2e-tx-flush-after-link-loss(oracle only)"]++
					return
				}
				env.sim.Drain()
				select {
				case ferr := <-done:
					if ferr != nil {
						c.Violate("C14:flush-error", fmt.Sprintf("Flush returned %v after BUFFER 0", ferr), rep)
					}
				case <-time.After(c14Watch):
					c.Violate("C14:flush-hang", "Flush did not return within 5 s of BUFFER 0", rep)
					return
				}
			}
			o := strings.Repeat("o", len(pre))
			msgs := strings.Repeat(o+"f", faults)
			if faults < 3 {
				msgs += o + "b"
			}
			*cases = append(*cases, Case{Line: fmt.Sprintf("ardop_write %s %s %s", map[bool]string{true: "t", false: "s"}[tcp], hx(p), msgs),
				Impl:  fmt.Sprintf("n=%d err=%s sent=%s locked=%s", n, errClass, strings.Join(sent, ","), locked),
				Desc:  fmt.Sprintf("e2e-tx tcp=%v write=%d faults=%d", tcp, size, faults),
				Class: "e2e-tx-" + map[bool]string{true: "tcp", false: "serial"}[tcp], Nontrivial: faults > 0 || size > 65535})
			if size > 0 && size <= 70000 {
				fr := []byte{}
				if len(rawData) > 0 {
					fr = rawData[0]
				}
				*cases = append(*cases, Case{Line: fmt.Sprintf("ardop_encdata %s %s", map[bool]string{true: "t", false: "s"}[tcp], hx(p)),
					Impl: fmt.Sprintf("%d %d tnc-ok", len(fr), fnv32(fr)), Desc: fmt.Sprintf("data frame for a %d byte write tcp=%v", size, tcp), Class: "enc-data", Nontrivial: true})
			}
			// host-side close ends the connection
			nc := env.sim.nCmds()
			env.sim.Drain()
			var cerr error
			hang, pv = c14Watch1(c14Watch, func() { cerr = env.conn.Close() })
			if hang || pv != nil || cerr != nil {
				c.Violate("C14:close-failed", fmt.Sprintf("conn.Close: hang=%v panic=%v err=%v", hang, pv, cerr), rep)
				return
			}
			if !env.sim.waitCmd(nc, "DISCONNECT", time.Second) {
				c.Violate("C14:close-no-disconnect", "conn.Close returned nil but the TNC never received DISCONNECT", rep)
			}
		}()
	}

	// a '%' in a command parameter must reach the TNC unchanged
	for _, tcp := range []bool{false, true} {
		env, err := c14OpenCall(tcp, nil, "N0%dCALL", "JP20%s")
		rep := map[string]interface{}{"mode": map[bool]string{true: "tcp", false: "serial"}[tcp], "mycall": "N0%dCALL", "gridsquare": "JP20%s"}
		if err != nil {
			c.Violate("C14:open-failed", "ardop.Open against the simulated TNC failed: "+err.Error(), rep)
			continue
		}
		cmds, _, _, _, _, _ := env.sim.snapshot()
		found := 0
		for _, cm := range cmds {
			if cm == "MYCALL N0%dCALL" || cm == "GRIDSQUARE JP20%s" {
				found++
			}
		}
		if found != 2 {
			c.Violate("C14:command-text-mangled", fmt.Sprintf("Open(mycall=%q, grid=%q): the TNC received %q", "N0%dCALL", "JP20%s", cmds), rep)
		}
		env.shutdown()
	}

	// ---- (7) flush lock event sequences ----
	nFl := c.Budget(12, 150)
	for i := 0; i < nFl && c.TimeLeft() && c14Hangs < 8; i++ {
		tcp := rng.Intn(2) == 0
		env, err := c14Open(tcp, nil)
		if err != nil {
			continue
		}
		func() {
			defer env.shutdown()
			if err := env.dial(); err != nil {
				return
			}
			var evs, obs []string
			rep := map[string]interface{}{"mode": map[bool]string{true: "tcp", false: "serial"}[tcp]}
			blocked := 0
			// plan: w = write, z = BUFFER 0, n = BUFFER 5, N = BUFFER 1200, f = Flush probe; named shapes first
			plan := ""
			if shapes := []string{"wnfzf", "wfzf", "wzwNfzf", "zfwNnfzwf", "wwzfnf"}; i < len(shapes) {
				plan = shapes[i]
			} else {
				for j, n := 0, 3+rng.Intn(8); j < n; j++ {
					plan += string("wwzznNfff"[rng.Intn(9)])
				}
			}
			for j := 0; j < len(plan); j++ {
				switch k := plan[j]; {
				case k == 'w': // a write, acknowledged by BUFFER q (q > 0)
					var werr error
					hang, pv := c14Watch1(c14Watch, func() { _, werr = env.conn.Write([]byte{byte(j)}) })
					if hang || pv != nil || werr != nil {
						c.Violate("C14:write-hang-or-panic", fmt.Sprintf("1 byte Write: hang=%v panic=%v err=%v", hang, pv, werr), rep)
						return
					}
					env.sim.mu.Lock()
					q := env.sim.queued
					env.sim.mu.Unlock()
					evs = append(evs, fmt.Sprintf("b%d", q), "w")
				case k != 'f':
					v := map[byte]int{'z': 0, 'n': 5, 'N': 1200}[k]
					if v == 0 {
						env.sim.Drain()
					} else {
						env.sim.sendCtrl(fmt.Sprintf("BUFFER %d", v))
					}
					if !env.barrier() {
						c.Violate("C14:ctrl-loop-stalled", "no PTT marker within 3 s", rep)
						return
					}
					evs = append(evs, fmt.Sprintf("b%d", v))
				default:
					if blocked >= 2 {
						continue
					}
					done := make(chan error, 1)
					go func() { done <- env.conn.(transport.Flusher).Flush() }()
					select {
					case <-done:
						obs = append(obs, "1")
					case <-time.After(40 * time.Millisecond):
						obs = append(obs, "0")
						blocked++
					}
					evs = append(evs, "f")
				}
			}
			rep["events"] = strings.Join(evs, " ")
			// oracle: a probe may only return when no write has been acknowledged since the last BUFFER 0
			dirty, k := false, 0
			for _, e := range evs {
				switch {
				case e == "w":
					dirty = true
				case e == "b0":
					dirty = false
				case e == "f":
					if obs[k] == "1" && dirty {
						c.Violate("C14:flush-early", "Flush returned although no BUFFER 0 followed the last accepted Write", rep)
					}
					k++
				}
			}
			if len(obs) == 0 {
				return
			}
			*cases = append(*cases, Case{Line: "ardop_flush " + strings.Join(evs, " "), Impl: strings.Join(obs, " "), Desc: "flush lock: " + strings.Join(evs, " "), Class: "flush-lock", Nontrivial: true})
		}()
	}
}

func firstDiff(a, b []byte) int {
	n := len(a)
	if len(b) < n {
		n = len(b)
	}
	for i := 0; i < n; i++ {
		if a[i] != b[i] {
			return i
		}
	}
	return n
}

// ---------------------------------------------------------------------------------------------

type c14ChildCase struct {
	tcp        bool
	flow       string
	ctrl, data []byte
	name       string
	key        string
}

func c14Children(c *Ctx, sub func() *rand.Rand) {
	rng := c.Rng
	var cs []c14ChildCase
	serialCtrl := func(t string) []byte { return (&ardopSim{tcp: false}).ctrlFrame(t) }
	tcpCtrl := func(t string) []byte { return []byte(t + "\r") }
	// named shapes
	for _, t := range []string{"PTT", "BUFFER", "NEWSTATE", "BUSY", "STATE", "FAULT", "CONNECTED", "MYAUX", ""} {
		cs = append(cs, c14ChildCase{false, "dial", serialCtrl(t), nil, fmt.Sprintf("serial ctrl %q", t), "ctrl-without-parameter"})
		cs = append(cs, c14ChildCase{true, "dial", tcpCtrl(t), nil, fmt.Sprintf("tcp ctrl %q", t), "ctrl-without-parameter"})
	}
	for _, cnt := range []int{0, 1, 2, 65534, 65535} {
		body := append(be16(cnt), bytes.Repeat([]byte{'A'}, cnt)...)
		cs = append(cs, c14ChildCase{true, "dial", nil, body, fmt.Sprintf("tcp data frame count=%d", cnt), fmt.Sprintf("data-count-%d", cnt)})
		ser := append(append([]byte("d:"), body...), be16(int(simCRC(body)))...)
		cs = append(cs, c14ChildCase{false, "dial", ser, nil, fmt.Sprintf("serial data frame count=%d", cnt), fmt.Sprintf("data-count-%d", cnt)})
	}
	cs = append(cs, c14ChildCase{true, "listen", tcpCtrl("CONNECTED"), nil, "tcp listen CONNECTED without parameter", "ctrl-without-parameter"})
	cs = append(cs, c14ChildCase{true, "none", tcpCtrl("TARGET"), []byte{0, 1, 'x'}, "tcp no connection", "data-count-1"})
	// a Listen() is active but no connection has come in yet ("listening"): the messages of an inbound connect,
	// each also without its parameter and in odd orders
	for _, seq := range [][]string{{"TARGET N0CALL", "CONNECTED"}, {"TARGET", "CONNECTED T3ST 500"}, {"CONNECTED"}, {"TARGET N0CALL", "NEWSTATE IRS", "CONNECTED"},
		{"CONNECTED T3ST"}, {"CONNECTED  500"}, {"TARGET N0CALL", "CONNECTED T3ST 500", "CONNECTED"}, {"PENDING", "CANCELPENDING", "CONNECTED"}, {"TARGET N0CALL", "DISCONNECTED", "CONNECTED"}} {
		var ser, tc []byte
		for _, t := range seq {
			ser = append(ser, serialCtrl(t)...)
			tc = append(tc, tcpCtrl(t)...)
		}
		cs = append(cs, c14ChildCase{false, "listening", ser, nil, fmt.Sprintf("serial, listening, ctrl %q", seq), "ctrl-without-parameter-while-listening"})
		cs = append(cs, c14ChildCase{true, "listening", tc, nil, fmt.Sprintf("tcp, listening, ctrl %q", seq), "ctrl-without-parameter-while-listening"})
	}
	// random / mutated streams
	for i := 0; i < c.Budget(40, 600); i++ {
		tcp := rng.Intn(2) == 0
		s := &ardopSim{tcp: tcp}
		var ctrl, data []byte
		for j := 0; j < 1+rng.Intn(4); j++ {
			t := c14CtrlCorpus[rng.Intn(len(c14CtrlCorpus))]
			if rng.Intn(2) == 0 {
				t = strings.SplitN(t, " ", 2)[0]
			}
			ctrl = append(ctrl, s.ctrlFrame(t)...)
			f := s.dataFrame([]string{"ARQ", "IDF", "AR", ""}[rng.Intn(4)], c14RandBytes(rng, rng.Intn(6)))
			if tcp {
				data = append(data, f...)
			} else {
				ctrl = append(ctrl, f...)
			}
		}
		switch rng.Intn(3) {
		case 0:
			ctrl = c14Mutate(rng, ctrl)
			if tcp {
				data = c14Mutate(rng, data)
			}
		case 1:
			ctrl = c14RandBytes(rng, rng.Intn(80))
			if tcp {
				data = c14RandBytes(rng, rng.Intn(80))
			}
		}
		cs = append(cs, c14ChildCase{tcp, []string{"dial", "dial", "listen", "none", "listening"}[rng.Intn(5)], ctrl, data, "generated", "generated"})
	}
	// the link to the TNC dies while a data frame is half way out; then one more Write (last: a crash here
	// must not hide the cases above)
	cs = append(cs, c14ChildCase{false, "linkloss", nil, nil, "serial link lost while a data frame is being written", "link-loss-during-write"})

	exe, err := os.Executable()
	if err != nil {
		c.Note("C14 child cases skipped: %v", err)
		return
	}
	start := 0
	crashes := 0
	for start < len(cs) && c.TimeLeft() && crashes < 12 {
		f, err := os.CreateTemp("", "c14-child-*.txt")
		if err != nil {
			c.Note("C14 child cases skipped: %v", err)
			return
		}
		for _, k := range cs[start:] {
			fmt.Fprintf(f, "%s %s %s %s\n", map[bool]string{true: "tcp", false: "serial"}[k.tcp], k.flow, hx(k.ctrl), hx(k.data))
		}
		f.Close()
		cmd := exec.Command(exe, "child-c14", f.Name())
		var out, errb bytes.Buffer
		cmd.Stdout, cmd.Stderr = &out, &errb
		done := make(chan error, 1)
		if err := cmd.Start(); err != nil {
			os.Remove(f.Name())
			c.Note("C14 child could not start: %v", err)
			return
		}
		go func() { done <- cmd.Wait() }()
		var werr error
		select {
		case werr = <-done:
		case <-time.After(time.Duration(10+len(cs[start:])/2) * time.Second):
			cmd.Process.Kill()
			werr = errors.New("child timed out")
			<-done
		}
		os.Remove(f.Name())
		ndone := 0
		for _, l := range strings.Split(out.String(), "\n") {
			if strings.HasPrefix(l, "DONE ") {
				ndone++
				c.Res.Evaluations++
				c.Res.Distribution["child-malformed-stream"]++
				if !strings.HasSuffix(l, " alive") {
					c.Res.Distribution["child-setup-failed"]++
				}
				if strings.Contains(l, "write1=") {
					c.Res.Distribution["child-link-loss-during-write"]++
					for _, w := range []string{"write1", "write2"} {
						switch {
						case strings.Contains(l, w+"=panicked"):
							c.Violate("C14:write-panics-after-link-loss:"+w, "conn.Write panicked instead of returning an error when the serial link to the TNC was lost ("+w+": 1 = frame half way out, 2 = a later write): "+l, map[string]interface{}{"observed": l})
						case strings.Contains(l, w+"=hang"):
							c.Violate("C14:write-hangs-after-link-loss:"+w, "conn.Write did not return within 3 s after the serial link to the TNC was lost: "+l, map[string]interface{}{"observed": l})
						}
					}
				}
			}
		}
		if werr == nil {
			break
		}
		if start+ndone >= len(cs) {
			break
		}
		k := cs[start+ndone]
		crashes++
		msg := errb.String()
		if i := strings.Index(msg, "panic:"); i >= 0 {
			msg = msg[i:]
		}
		msg = trunc(strings.SplitN(msg, "\n\n", 2)[0], 400)
		key := "C14:tnc-input-crashes-process:" + k.key
		c.Violate(key, fmt.Sprintf("bytes from the TNC (%s) crashed the process: %v: %s", k.name, werr, strings.ReplaceAll(msg, "\n", " | ")),
			map[string]interface{}{"mode": map[bool]string{true: "tcp", false: "serial"}[k.tcp], "flow": k.flow, "ctrl_stream_hex": hx(k.ctrl), "data_stream_hex": hx(k.data), "name": k.name,
				"how": "open a TNC against the simulator, connect, then let the TNC side emit these bytes (corr child-c14 <file with this line>)"})
		start += ndone + 1
	}
	_ = filepath.Join
}
