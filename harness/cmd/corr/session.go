package main

import (
	"errors"
	"fmt"
	"io"
	"log"
	"sort"
	"strings"
	"sync"
	"time"

	"github.com/la5nta/wl2k-go/fbb"
)

type outMsg struct {
	msg    *fbb.Message
	mid    string
	title  string
	qtitle string
	data   []byte
	valid  bool
}

func newOutMsg(m *fbb.Message) *outMsg {
	data, err := m.Bytes()
	title := m.Subject()
	return &outMsg{msg: m, mid: m.MID(), title: title, qtitle: fbb.VerifHeaderTitle(title), data: data, valid: err == nil && m.Validate() == nil}
}

type sessSpec struct {
	mycall, target, loc string
	ua                  fbb.UserAgent
	master              bool
	hasHandler, batched bool
	hasCb               bool
	motd                []string
	main                hskAux
	aux                 []hskAux
	outbox              []*outMsg
	policy              map[string]byte
	prepareFails        bool
	failAt              int // -1: never
	hints               []int
	bshort              int // -1: well-behaved
	ihash               bool
}

func newSpec(mycall, target string, master bool) *sessSpec {
	return &sessSpec{mycall: mycall, target: target, master: master, ua: fbb.StdUA, hasHandler: true, failAt: -1, bshort: -1, policy: map[string]byte{}, main: hskAux{Addr: strings.ToUpper(mycall)}}
}

func joinOr(xs []string) string {
	if len(xs) == 0 {
		return "-"
	}
	return strings.Join(xs, ",")
}

// line renders the driver input line for this spec and input.
func (s *sessSpec) line(input []byte) string {
	var motd, fws, pws, outbox, policy, hints []string
	for _, l := range s.motd {
		motd = append(motd, hs(l))
	}
	fws = append(fws, hs(s.main.Addr))
	pws = append(pws, hs(s.main.Pw)+":"+hexBool(s.main.Err))
	for _, a := range s.aux {
		fws = append(fws, hs(a.Addr))
		pws = append(pws, hs(a.Pw)+":"+hexBool(a.Err))
	}
	for _, o := range s.outbox {
		outbox = append(outbox, fmt.Sprintf("%s:%s:%s:%s:%s", hs(o.mid), hs(o.title), hs(o.qtitle), hx(o.data), hexBool(o.valid)))
	}
	var mids []string
	for m := range s.policy {
		mids = append(mids, m)
	}
	sort.Strings(mids)
	for _, m := range mids {
		policy = append(policy, fmt.Sprintf("%s:%02x", hs(m), s.policy[m]))
	}
	for _, h := range s.hints {
		hints = append(hints, fmt.Sprint(h))
	}
	failAt, bshort := "-", "-"
	if s.failAt >= 0 {
		failAt = fmt.Sprint(s.failAt)
	}
	if s.bshort >= 0 {
		bshort = fmt.Sprint(s.bshort)
	}
	return strings.Join([]string{"session", hs(strings.ToUpper(s.mycall)), hs(strings.ToUpper(s.target)), hs(s.loc), hs(s.ua.Name), hs(s.ua.Version),
		b01(s.master), b01(s.hasHandler), b01(s.batched), b01(s.hasCb), joinOr(motd), joinOr(fws), joinOr(pws), joinOr(outbox), joinOr(policy),
		b01(s.prepareFails), failAt, joinOr(hints), bshort, b01(s.ihash), hx(input)}, " ")
}

func hexBool(b bool) string {
	if b {
		return "01"
	}
	return "00"
}

// twin is the Go twin of the Lean RefHandler. It records every callback.
type twin struct {
	mu       sync.Mutex
	spec     *sessSpec
	outbox   []*outMsg
	deferred map[string]bool
	nProc    int
	calls    []string
	inbox    [][]byte
	sent     map[string]bool // mid -> rejected
	sentLog  []string
}

func newTwin(s *sessSpec) *twin {
	return &twin{spec: s, outbox: append([]*outMsg{}, s.outbox...), deferred: map[string]bool{}, sent: map[string]bool{}}
}

func (t *twin) rec(s string) { t.calls = append(t.calls, s) }

func (t *twin) Prepare() error {
	t.mu.Lock()
	defer t.mu.Unlock()
	t.rec("P")
	if t.spec.prepareFails {
		return errors.New("mailbox not ready")
	}
	return nil
}

func (t *twin) GetOutbound(fw ...fbb.Address) []*fbb.Message {
	t.mu.Lock()
	defer t.mu.Unlock()
	var fs []string
	for _, a := range fw {
		if isASCII(a.Proto) && isASCII(a.Addr) {
			fs = append(fs, hs(a.Proto)+"/"+hs(a.Addr))
		} else {
			fs = append(fs, "NONASCII") // Unicode case mapping is not modelled
		}
	}
	t.rec("O(" + strings.Join(fs, ",") + ")")
	var out []*fbb.Message
	for _, o := range t.outbox {
		if !t.deferred[o.mid] {
			out = append(out, o.msg)
		}
	}
	return out
}

func (t *twin) SetSent(mid string, rejected bool) {
	t.mu.Lock()
	defer t.mu.Unlock()
	t.rec(fmt.Sprintf("S(%s,%s)", hs(mid), b01(rejected)))
	t.sent[mid] = rejected
	t.sentLog = append(t.sentLog, mid)
	var keep []*outMsg
	for _, o := range t.outbox {
		if o.mid != mid {
			keep = append(keep, o)
		}
	}
	t.outbox = keep
}

func (t *twin) SetDeferred(mid string) {
	t.mu.Lock()
	defer t.mu.Unlock()
	t.rec("D(" + hs(mid) + ")")
	t.deferred[mid] = true
}

func (t *twin) answerFor(mid string) fbb.ProposalAnswer {
	if a, ok := t.spec.policy[mid]; ok {
		return fbb.ProposalAnswer(a)
	}
	return fbb.Accept
}

func propView(p fbb.Proposal) string {
	return fmt.Sprintf("%s,%d,%d,%d", hs(p.MID()), p.VerifCode(), p.Size(), p.CompressedSize())
}

func (t *twin) GetInboundAnswer(p fbb.Proposal) fbb.ProposalAnswer {
	t.mu.Lock()
	defer t.mu.Unlock()
	t.rec("A(" + propView(p) + ")")
	return t.answerFor(p.MID())
}

func (t *twin) ProcessInbound(msgs ...*fbb.Message) error {
	t.mu.Lock()
	defer t.mu.Unlock()
	for _, m := range msgs {
		data, _ := m.Bytes()
		if t.spec.ihash {
			t.rec("I(" + hashBytes(data) + ")")
		} else {
			t.rec("I")
		}
		k := t.nProc
		t.nProc++
		if t.spec.failAt == k {
			return errors.New("disk full")
		}
		t.inbox = append(t.inbox, data)
	}
	return nil
}

type twinBatched struct{ *twin }

func (t twinBatched) GetInboundAnswers(ps []fbb.Proposal) []fbb.ProposalAnswer {
	t.mu.Lock()
	defer t.mu.Unlock()
	var vs []string
	var as []fbb.ProposalAnswer
	for _, p := range ps {
		vs = append(vs, propView(p))
		as = append(as, t.answerFor(p.MID()))
	}
	t.rec("B(" + strings.Join(vs, ";") + ")")
	if t.spec.bshort >= 0 && t.spec.bshort < len(as) {
		as = as[:t.spec.bshort]
	}
	return as
}

func hashBytes(b []byte) string {
	h := uint64(0xcbf29ce484222325)
	for _, x := range b {
		h = (h ^ uint64(x)) * 0x100000001b3
	}
	return fmt.Sprintf("%d:%d", len(b), h)
}

func sortSetSentRuns(calls []string) []string {
	out := make([]string, 0, len(calls))
	var run []string
	flush := func() {
		sort.Strings(run)
		out = append(out, run...)
		run = nil
	}
	for _, c := range calls {
		if strings.HasPrefix(c, "S(") {
			run = append(run, c)
		} else {
			flush()
			out = append(out, c)
		}
	}
	flush()
	return out
}

func classOfErr(err error) string {
	switch {
	case err == nil:
		return "nil"
	case err == fbb.ErrConnLost:
		return "connlost"
	}
	return "error"
}

type sessRun struct {
	canon    string
	err      error
	panicked interface{}
	hung     bool
	wire     []byte
	tw       *twin
	stats    fbb.TrafficStats
	elapsed  time.Duration
	closed   bool
}

func (s *sessSpec) newSession(tw *twin) *fbb.Session {
	var h fbb.MBoxHandler
	if s.hasHandler {
		if s.batched {
			h = twinBatched{tw}
		} else {
			h = tw
		}
	}
	sess := fbb.NewSession(s.mycall, s.target, s.loc, h)
	sess.SetLogger(log.New(io.Discard, "", 0))
	sess.SetUserAgent(s.ua)
	sess.IsMaster(s.master)
	if len(s.motd) > 0 {
		sess.SetMOTD(s.motd...)
	}
	for _, a := range s.aux {
		sess.AddAuxiliaryAddress(fbb.Address{Addr: a.Addr})
	}
	if s.hasCb {
		all := append([]hskAux{s.main}, s.aux...)
		sess.SetSecureLoginHandleFunc(func(addr fbb.Address) (string, error) {
			for i, a := range all {
				if a.Addr == addr.Addr {
					tw.mu.Lock()
					tw.rec(fmt.Sprintf("W(%d)", i))
					tw.mu.Unlock()
					if a.Err {
						return a.Pw, errors.New("no password")
					}
					return a.Pw, nil
				}
			}
			return "", errors.New("unknown address")
		})
	}
	return sess
}

// runSessionImpl runs one real Session against a fixed input byte string, after which the link is lost.
func runSessionImpl(s *sessSpec, input []byte) *sessRun {
	tw := newTwin(s)
	sess := s.newSession(tw)
	a, b := newMemPipe(nil, nil)
	b.Write(input)
	b.Close()
	r := &sessRun{tw: tw}
	done := make(chan struct{})
	start := time.Now()
	go func() {
		defer close(done)
		defer func() {
			if p := recover(); p != nil {
				r.panicked = p
			}
		}()
		r.stats, r.err = sess.Exchange(a)
	}()
	select {
	case <-done:
	case <-time.After(8 * time.Second):
		r.hung = true
		a.Kill()
		select {
		case <-done:
		case <-time.After(2 * time.Second):
		}
	}
	r.elapsed = time.Since(start)
	r.wire = a.Sent()
	r.closed = a.ClosedByUser()
	tw.mu.Lock()
	calls := sortSetSentRuns(append([]string{}, tw.calls...))
	tw.mu.Unlock()
	switch {
	case r.hung:
		r.canon = "hang calls=" + strings.Join(calls, " ")
	case r.panicked != nil:
		r.canon = "panic calls=" + strings.Join(calls, " ")
	default:
		wire := r.wire
		echo := "0"
		if classOfErr(r.err) == "error" {
			// the error echo is the last write: "*** <err>\r\n"
			msg := fmt.Sprintf("*** %s\r\n", r.err)
			if strings.HasSuffix(string(wire), msg) {
				wire = wire[:len(wire)-len(msg)]
				echo = "1"
			}
		}
		var sent, recv []string
		for _, m := range r.stats.Sent {
			sent = append(sent, hs(m))
		}
		for _, m := range r.stats.Received {
			recv = append(recv, hs(m))
		}
		sort.Strings(sent) // Go appends them while ranging over a map
		r.canon = fmt.Sprintf("err=%s echo=%s sent=%s recv=%s wire=%s calls=%s", classOfErr(r.err), echo, strings.Join(sent, ","), strings.Join(recv, ","), hx(wire), strings.Join(calls, " "))
	}
	return r
}
