package main

// child_c14.go - re-exec'ed child for C14 cases in which the real TNC driver may panic in one of its
// own goroutines (which cannot be recovered and would kill the whole harness):
//
//	corr child-c14 <case file>
//
// Each line of the case file is `<mode> <flow> <ctrl hex> <data hex>`: open a TNC against the simulator
// (mode serial|tcp), establish a connection (flow dial|listen|none), then let the simulated TNC emit the
// given raw bytes on the command (serial: the only) stream and on the data stream. After the host has
// consumed them and a grace period has passed the child prints `DONE <index>`. A crash leaves the
// remaining indices unprinted and the Go runtime's panic text on stderr.

import (
	"bufio"
	"encoding/hex"
	"fmt"
	"io"
	"log"
	"net"
	"os"
	"strings"
	"time"

	"github.com/la5nta/wl2k-go/transport/ardop"
)

func init() {
	if len(os.Args) >= 3 && os.Args[1] == "child-c14" {
		log.SetOutput(io.Discard)
		runChildC14(os.Args[2])
		os.Exit(0)
	}
}

func unhexField(s string) []byte {
	if s == "-" {
		return nil
	}
	b, err := hex.DecodeString(s)
	if err != nil {
		fmt.Println("BAD-CASE", s)
		os.Exit(3)
	}
	return b
}

func runChildC14(path string) {
	f, err := os.Open(path)
	if err != nil {
		fmt.Println("BAD-CASE-FILE", err)
		os.Exit(3)
	}
	sc := bufio.NewScanner(f)
	sc.Buffer(make([]byte, 1<<20), 1<<28)
	idx := 0
	for sc.Scan() {
		fs := strings.Fields(sc.Text())
		if len(fs) != 4 {
			continue
		}
		res := childOneC14(fs[0] == "tcp", fs[1], unhexField(fs[2]), unhexField(fs[3]))
		fmt.Printf("DONE %d %s\n", idx, res)
		idx++
	}
}

// childLinkLoss: the serial link to the TNC dies while a data frame is half way out (slow link), then the
// application writes once more. Write must return (an error or a count) both times; nothing may panic.
func childLinkLoss() string {
	host, tncEnd := newMemPipe(nil, nil)
	sim := newArdopSim(false, tncEnd, nil)
	slow := &slowLink{memConn: host}
	var tnc *ardop.TNC
	var err error
	if hang, pv := c14Watch1(c14Watch, func() { tnc, err = ardop.Open(slow, "N0CALL", "JP20QE") }); hang || pv != nil || err != nil {
		host.Kill()
		return fmt.Sprintf("open-failed:%v,%v,%v", hang, pv, err)
	}
	env := &c14Env{sim: sim, tnc: tnc, host: host, ptt: &pttRec{}}
	if err := env.dial(); err != nil {
		host.Kill()
		return "dial-failed:" + err.Error()
	}
	slow.setSlow(true)
	write := func(p []byte) string {
		res := make(chan string, 1)
		go func() {
			defer func() {
				if pv := recover(); pv != nil {
					res <- fmt.Sprintf("panicked(%v)", pv)
				}
			}()
			n, err := env.conn.Write(p)
			res <- fmt.Sprintf("returned(%d,%v)", n, err != nil)
		}()
		select {
		case r := <-res:
			return r
		case <-time.After(3 * time.Second):
			return "hang"
		}
	}
	first := make(chan string, 1)
	go func() { first <- write(make([]byte, 2000)) }()
	time.Sleep(4 * time.Millisecond) // the first half of the frame is on the wire
	host.Kill()                      // the link dies
	r1 := <-first
	time.Sleep(30 * time.Millisecond)
	r2 := write([]byte("after the loss"))
	time.Sleep(40 * time.Millisecond)
	return "write1=" + r1 + " write2=" + r2 + " alive"
}

func childOneC14(tcp bool, flow string, ctrl, data []byte) string {
	if flow == "linkloss" {
		return childLinkLoss()
	}
	env, err := c14Open(tcp, nil)
	if err != nil {
		return "open-failed:" + err.Error()
	}
	defer env.shutdown()
	switch flow {
	case "dial":
		if err := env.dial(); err != nil {
			return "dial-failed:" + err.Error()
		}
	case "listen":
		if err := env.listenAccept(); err != nil {
			return "accept-failed:" + err.Error()
		}
	case "listening":
		// Listen() is active and an Accept is waiting, but no connection has been reported yet
		var ln net.Listener
		var err error
		if hang, pv := c14Watch1(c14Watch, func() { ln, err = env.tnc.Listen() }); hang || pv != nil || err != nil {
			return fmt.Sprintf("listen-failed:%v,%v,%v", hang, pv, err)
		}
		time.Sleep(20 * time.Millisecond)
		go func() {
			if c, err := ln.Accept(); err == nil && c != nil {
				env.conn = c
			}
		}()
		time.Sleep(5 * time.Millisecond)
	}
	if len(ctrl) > 0 {
		env.sim.sendRaw(false, ctrl)
	}
	if len(data) > 0 {
		env.sim.sendRaw(true, data)
	}
	env.settle(300 * time.Millisecond)
	time.Sleep(40 * time.Millisecond) // grace: a panic in the decoder / control loop goroutine fires right after consumption
	return "alive"
}
