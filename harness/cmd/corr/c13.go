package main

import (
	"bufio"
	"bytes"
	"context"
	"encoding/hex"
	"encoding/json"
	"errors"
	"fmt"
	"io"
	"math/rand"
	"net"
	"os"
	"os/exec"
	"runtime"
	"sort"
	"strconv"
	"strings"
	"sync"
	"time"

	"github.com/la5nta/wl2k-go/transport/ax25/agwpe"
)

/* ---------- helpers: real code behind hooks ---------- */

// exactChunkReader: an io.Reader with the semantics of the Lean model's chunk list.
type exactChunkReader struct{ chunks [][]byte }

func (r *exactChunkReader) Read(p []byte) (int, error) {
	if len(p) == 0 {
		return 0, nil
	}
	for len(r.chunks) > 0 && len(r.chunks[0]) == 0 {
		r.chunks = r.chunks[1:]
	}
	if len(r.chunks) == 0 {
		return 0, io.EOF
	}
	n := copy(p, r.chunks[0])
	r.chunks[0] = r.chunks[0][n:]
	return n, nil
}

func showVerifFrame(f agwpe.VerifFrame) string {
	return agwFrame{Port: f.Port, Kind: f.Kind, PID: f.PID, From: f.From, To: f.To, Data: f.Data}.show()
}

func agJoinOr(sep string, xs []string) string {
	if len(xs) == 0 {
		return "_"
	}
	return strings.Join(xs, sep)
}

func hexList(bs [][]byte) string {
	xs := make([]string, len(bs))
	for i, b := range bs {
		xs[i] = hx(b)
	}
	return agJoinOr(",", xs)
}

func intList(ns []int) string {
	xs := make([]string, len(ns))
	for i, n := range ns {
		xs[i] = itoa(n)
	}
	return agJoinOr(",", xs)
}

func copyChunks(cs [][]byte) [][]byte {
	out := make([][]byte, len(cs))
	for i, c := range cs {
		out[i] = append([]byte(nil), c...)
	}
	return out
}

// implDecode: the TNC read loop (frame.ReadFrom until error) over exact chunks.
func implDecode(chunks [][]byte) (frames []agwpe.VerifFrame, end string, alloc int, panicked interface{}) {
	defer func() {
		if r := recover(); r != nil {
			panicked = r
			end = "panic"
		}
	}()
	r := &exactChunkReader{chunks: copyChunks(chunks)}
	for {
		f, _, err := agwpe.VerifReadFrame(r)
		alloc += len(f.Data)
		if err != nil {
			switch err {
			case io.EOF:
				end = "eof"
			case io.ErrUnexpectedEOF:
				end = "ueof"
			default:
				end = "err:" + err.Error()
			}
			return
		}
		frames = append(frames, f)
	}
}

/* ---------- generators ---------- */

var c13Calls = []string{"LA5NTA", "LA1B-10", "N0CALL", "W1AW-7", "LD5SK", "A", "ABCDEFGHIJ", "TOOLONGCALL-12", "LA1B", "SM0XYZ-15"}

func c13Payload(c *Ctx, max int) []byte {
	var n int
	switch c.Rng.Intn(10) {
	case 0:
		n = 0
	case 1:
		n = 1
	case 2:
		n = []int{35, 36, 37, 255, 256, 257}[c.Rng.Intn(6)]
	case 3:
		n = max
	default:
		n = c.Rng.Intn(max + 1)
	}
	if n > max {
		n = max
	}
	b := make([]byte, n)
	for i := range b {
		switch c.Rng.Intn(8) {
		case 0:
			b[i] = 0
		case 1:
			b[i] = byte(c.Rng.Intn(256))
		default:
			b[i] = byte('a' + c.Rng.Intn(26))
		}
	}
	return b
}

func c13RandFrame(c *Ctx, maxData int) agwFrame {
	kinds := []byte("DDDDCdYXgRyMvKPx")
	f := agwFrame{Port: byte(c.Rng.Intn(4)), Kind: kinds[c.Rng.Intn(len(kinds))], PID: []byte{0, 0xf0, 0xcf, 1}[c.Rng.Intn(4)],
		From: call10(c13Calls[c.Rng.Intn(len(c13Calls))]), To: call10(c13Calls[c.Rng.Intn(len(c13Calls))]), Data: c13Payload(c, maxData)}
	if c.Rng.Intn(6) == 0 {
		f.Port = byte(c.Rng.Intn(256))
		f.Kind = byte(c.Rng.Intn(256))
		for i := range f.From {
			f.From[i] = byte(c.Rng.Intn(256))
		}
	}
	return f
}

// randomCuts returns sorted cut offsets in [0, n], biased to the header, the header/data boundary and the end.
func randomCuts(c *Ctx, n, k int) []int {
	var cuts []int
	for i := 0; i < k; i++ {
		switch c.Rng.Intn(5) {
		case 0:
			cuts = append(cuts, c.Rng.Intn(37))
		case 1:
			cuts = append(cuts, 35+c.Rng.Intn(3))
		case 2:
			cuts = append(cuts, n-c.Rng.Intn(3))
		default:
			cuts = append(cuts, c.Rng.Intn(n+1))
		}
	}
	var out []int
	for _, x := range cuts {
		if x >= 0 && x <= n {
			out = append(out, x)
		}
	}
	sort.Ints(out)
	return out
}

func concatFrames(fs []agwFrame) []byte {
	var b []byte
	for _, f := range fs {
		b = append(b, f.bytes()...)
	}
	return b
}

func sameFrame(a agwpe.VerifFrame, b agwFrame) bool {
	return a.Port == b.Port && a.Kind == b.Kind && a.PID == b.PID && a.From == b.From && a.To == b.To && bytes.Equal(a.Data, b.Data) && int(a.DataLen) == len(b.Data)
}

/* ---------- part A: codec, stream, filter, Read (pure, through hooks) ---------- */

func c13Codec(c *Ctx) []Case {
	var cases []Case
	// encode: real WriteTo vs model vs the sim's independent encoder
	n := c.Budget(150, 2000)
	for i := 0; i < n; i++ {
		f := c13RandFrame(c, 300)
		var buf bytes.Buffer
		vf := agwpe.VerifFrame{Port: f.Port, Kind: f.Kind, PID: f.PID, From: f.From, To: f.To, Data: f.Data, DataLen: uint32(c.Rng.Intn(1000))}
		_, err := agwpe.VerifWriteFrame(&buf, vf)
		if err != nil || !bytes.Equal(buf.Bytes(), f.bytes()) {
			c.Violate("C13:encode", fmt.Sprintf("frame.WriteTo does not produce the AGWPE wire format (err=%v)", err), map[string]interface{}{"frame": f.show(), "got": hx(buf.Bytes()), "want": hx(f.bytes())})
		}
		cases = append(cases, Case{Line: fmt.Sprintf("agw-enc %d %d %d %s %s %s", f.Port, f.Kind, f.PID, hx(f.From[:]), hx(f.To[:]), hx(f.Data)),
			Impl: hx(buf.Bytes()), Desc: "WriteTo(" + trunc(f.show(), 120) + ")", Class: "encode", Nontrivial: len(f.Data) > 0})
	}
	if agwpe.VerifHeaderSize() != 36 {
		c.Violate("C13:header-size", fmt.Sprintf("binary.Size(header) = %d, AGWPE header is 36 bytes", agwpe.VerifHeaderSize()), nil)
	}
	// constructors
	names := []string{"version", "capabilities", "data", "outstandingConn", "outstandingPort", "register", "unregister", "connect", "connectVia", "unproto", "disconnect"}
	withPort := map[string]bool{"capabilities": true, "data": true, "outstandingConn": true, "outstandingPort": true, "register": true, "unregister": true, "connect": true, "connectVia": true, "unproto": true, "disconnect": true}
	wantKind := map[string]byte{"version": 'R', "capabilities": 'g', "data": 'D', "outstandingConn": 'Y', "outstandingPort": 'y', "register": 'X', "unregister": 'x', "connect": 'C', "connectVia": 'v', "unproto": 'M', "disconnect": 'd'}
	twoCalls := map[string]bool{"data": true, "outstandingConn": true, "connect": true, "connectVia": true, "unproto": true, "disconnect": true}
	nc := c.Budget(20, 200)
	for _, name := range names {
		for i := 0; i < nc; i++ {
			port := byte([]int{0, 1, 2, 3, 255, c.Rng.Intn(256)}[c.Rng.Intn(6)])
			from, to := c13Calls[c.Rng.Intn(len(c13Calls))], c13Calls[c.Rng.Intn(len(c13Calls))]
			data := c13Payload(c, 80)
			var digis []string
			if name == "connectVia" || (name == "connect" && c.Rng.Intn(2) == 0) {
				for k := c.Rng.Intn(4); k >= 0; k-- {
					digis = append(digis, c13Calls[c.Rng.Intn(len(c13Calls))])
				}
				if name == "connectVia" && c.Rng.Intn(5) == 0 {
					digis = nil
				}
			}
			f, ok := agwpe.VerifCtor(name, port, from, to, data, digis)
			if !ok {
				continue
			}
			var buf bytes.Buffer
			agwpe.VerifWriteFrame(&buf, f)
			rep := map[string]interface{}{"constructor": name, "port": port, "from": from, "to": to, "digis": digis, "frame": showVerifFrame(f)}
			wk := wantKind[name]
			if name == "connect" && len(digis) > 0 {
				wk = 'v'
			}
			if withPort[name] && f.Port != port {
				c.Violate("C13:ctor-port:"+name, fmt.Sprintf("%s frame carries port %d instead of %d", name, f.Port, port), rep)
			}
			if f.Kind != wk {
				c.Violate("C13:ctor-kind:"+name, fmt.Sprintf("%s frame has kind %q", name, f.Kind), rep)
			}
			if (twoCalls[name] && (f.From != call10(from) || f.To != call10(to))) || ((name == "register" || name == "unregister") && f.From != call10(from)) {
				c.Violate("C13:ctor-calls:"+name, "callsigns not copied into the header", rep)
			}
			if name == "data" && (f.PID != 0xf0 || !bytes.Equal(f.Data, data)) {
				c.Violate("C13:ctor-data", "connected-data frame without PID 0xF0 or with other data", rep)
			}
			if wk == 'v' {
				want := []byte{byte(len(digis))}
				for _, d := range digis {
					x := call10(d)
					want = append(want, x[:]...)
				}
				if !bytes.Equal(f.Data, want) {
					c.Violate("C13:ctor-via", "connect-via data is not count + 10 bytes per digipeater", rep)
				}
			}
			dg := make([][]byte, len(digis))
			for k, d := range digis {
				dg[k] = []byte(d)
			}
			cases = append(cases, Case{Line: fmt.Sprintf("agw-ctor %s %d %s %s %s %s", name, port, hs(from), hs(to), hx(data), hexList(dg)),
				Impl: showVerifFrame(f) + " " + hx(buf.Bytes()), Desc: fmt.Sprintf("%s(port=%d,%s,%s,digis=%v)", name, port, from, to, digis), Class: "ctor", Nontrivial: port != 0})
		}
	}
	return cases
}

func c13Stream(c *Ctx) []Case {
	var cases []Case
	add := func(fs []agwFrame, chunks [][]byte, class string, wellFormed bool) {
		frames, end, alloc, pan := implDecode(chunks)
		xs := make([]string, len(frames))
		for i, f := range frames {
			xs[i] = showVerifFrame(f)
		}
		impl := agJoinOr(",", xs) + " " + end + " " + itoa(alloc)
		rep := map[string]interface{}{"class": class, "chunks": trunc(hexList(chunks), 6000), "chunk_lengths": chunkLens(chunks), "got": trunc(impl, 2000)}
		if pan != nil {
			c.Violate("C13:readloop-panic", fmt.Sprintf("frame.ReadFrom panicked: %v", pan), rep)
		}
		if wellFormed {
			ok := len(frames) == len(fs) && end == "eof"
			for i := 0; ok && i < len(fs); i++ {
				ok = sameFrame(frames[i], fs[i])
			}
			if !ok {
				c.Violate("C13:stream-reassembly", fmt.Sprintf("%d frames sent in %d chunks, read loop returned %d frames and ended with %s", len(fs), len(chunks), len(frames), end), rep)
			}
		}
		total := 0
		for _, ch := range chunks {
			total += len(ch)
		}
		cases = append(cases, Case{Line: "agw-dec 1 " + hexList(chunks), Impl: impl, Desc: fmt.Sprintf("readloop(%s; %d frames; chunk lengths %v)", class, len(fs), trunc(fmt.Sprint(chunkLens(chunks)), 200)), Class: class, Nontrivial: len(chunks) > 1 && total > 36})
	}
	// exhaustive: every 1-cut and 2-cut split of a short two-frame stream
	f1 := agwFrame{Port: 1, Kind: 'D', PID: 0xf0, From: call10("LA1B"), To: call10("LA5NTA"), Data: []byte("hello")}
	f2 := agwFrame{Port: 1, Kind: 'd', From: call10("LA1B"), To: call10("LA5NTA")}
	f3 := agwFrame{Port: 0, Kind: 'D', PID: 0xf0, From: call10("X"), To: call10("Y"), Data: []byte{0, 1}}
	short := []agwFrame{f1, f2, f3}
	b := concatFrames(short)
	for i := 0; i <= len(b); i++ {
		add(short, cutAt(b, []int{i}), "split-exhaustive-1", true)
	}
	step := c.Budget(3, 1)
	for i := 0; i <= len(b); i += step {
		for j := i; j <= len(b); j += step {
			add(short, cutAt(b, []int{i, j}), "split-exhaustive-2", true)
		}
	}
	// byte-at-a-time
	var single [][]byte
	for i := range b {
		single = append(single, b[i:i+1])
	}
	add(short, single, "split-bytewise", true)
	// random sequences, random chunkings
	n := c.Budget(250, 4000)
	for i := 0; i < n; i++ {
		var fs []agwFrame
		for k := c.Rng.Intn(6); k >= 0; k-- {
			fs = append(fs, c13RandFrame(c, []int{0, 5, 40, 300, 2000}[c.Rng.Intn(5)]))
		}
		bb := concatFrames(fs)
		chunks := cutAt(bb, randomCuts(c, len(bb), c.Rng.Intn(8)))
		add(fs, chunks, "split-random", true)
	}
	// malformed: truncated streams, random bytes (DataLen kept small), trailing garbage
	for i := 0; i < c.Budget(150, 2000); i++ {
		var bb []byte
		switch c.Rng.Intn(4) {
		case 0: // truncated
			bb = concatFrames([]agwFrame{c13RandFrame(c, 50), c13RandFrame(c, 50)})
			bb = bb[:c.Rng.Intn(len(bb)+1)]
		case 1: // random bytes with a small DataLen
			bb = make([]byte, c.Rng.Intn(120))
			c.Rng.Read(bb)
			if len(bb) >= 32 {
				bb[29], bb[30], bb[31] = byte(c.Rng.Intn(2)), 0, 0
			}
		case 2: // valid then garbage
			bb = concatFrames([]agwFrame{c13RandFrame(c, 20)})
			g := make([]byte, c.Rng.Intn(40))
			c.Rng.Read(g)
			if len(g) >= 32 {
				g[30], g[31] = 0, 0
			}
			bb = append(bb, g...)
		default: // DataLen larger than what follows
			f := c13RandFrame(c, 30)
			bb = f.bytes()
			bb[28] += byte(1 + c.Rng.Intn(20))
		}
		add(nil, cutAt(bb, randomCuts(c, len(bb), c.Rng.Intn(5))), "malformed", false)
	}
	return cases
}

func chunkLens(cs [][]byte) []int {
	out := make([]int, len(cs))
	for i, c := range cs {
		out[i] = len(c)
	}
	return out
}

func c13Filter(c *Ctx) []Case {
	var cases []Case
	n := c.Budget(400, 5000)
	for i := 0; i < n; i++ {
		f := c13RandFrame(c, 4)
		var kinds []byte
		for k := c.Rng.Intn(3); k > 0; k-- {
			kinds = append(kinds, []byte("DCdYX")[c.Rng.Intn(5)])
		}
		port := -1
		if c.Rng.Intn(3) > 0 {
			port = c.Rng.Intn(4)
		}
		var call, to [10]byte
		if c.Rng.Intn(3) > 0 {
			call = call10(c13Calls[c.Rng.Intn(len(c13Calls))])
		}
		if c.Rng.Intn(3) == 0 {
			to = call10(c13Calls[c.Rng.Intn(len(c13Calls))])
		}
		if c.Rng.Intn(2) == 0 { // make matches likely
			port = int(f.Port)
			if c.Rng.Intn(2) == 0 {
				call = f.From
			} else {
				call = f.To
			}
		}
		vf := agwpe.VerifFrame{Port: f.Port, Kind: f.Kind, PID: f.PID, From: f.From, To: f.To, Data: f.Data}
		got := agwpe.VerifWant(kinds, port, call, to, vf)
		// independent statement of the filter contract
		want := (port < 0 || byte(port) == f.Port) && (call == [10]byte{} || call == f.From || call == f.To) && (to == [10]byte{} || to == f.To) && (len(kinds) == 0 || bytes.IndexByte(kinds, f.Kind) >= 0)
		if got != want {
			c.Violate("C13:filter", fmt.Sprintf("framesFilter.Want = %v, contract says %v", got, want), map[string]interface{}{"kinds": string(kinds), "port": port, "call": callStr(call), "to": callStr(to), "frame": f.show()})
		}
		impl := "0"
		if got {
			impl = "1"
		}
		cases = append(cases, Case{Line: fmt.Sprintf("agw-want %s %d %s %s %s", hx(kinds), port, hx(call[:]), hx(to[:]), hx(f.bytes())), Impl: impl,
			Desc: fmt.Sprintf("Want(kinds=%q port=%d call=%q to=%q; %s)", kinds, port, callStr(call), callStr(to), trunc(f.show(), 100)), Class: "filter", Nontrivial: got})
	}
	return cases
}

func c13ReadSizes(c *Ctx, total int) []int {
	var sizes []int
	base := []int{1, 7, 255, 256, 4096}
	mode := c.Rng.Intn(7)
	got := 0
	for k := 0; k < 400 && got < total+8; k++ {
		var s int
		switch {
		case mode < 5:
			s = base[mode]
		case mode == 5:
			s = base[c.Rng.Intn(5)]
		default:
			s = c.Rng.Intn(40)
		}
		sizes = append(sizes, s)
		got += s
	}
	return sizes
}

func c13ConnRead(c *Ctx) []Case {
	var cases []Case
	n := c.Budget(200, 3000)
	for i := 0; i < n; i++ {
		var payloads [][]byte
		total := 0
		for k := c.Rng.Intn(6); k >= 0; k-- {
			p := c13Payload(c, []int{3, 20, 300}[c.Rng.Intn(3)])
			payloads = append(payloads, p)
			total += len(p)
		}
		sizes := c13ReadSizes(c, total)
		if len(sizes) > 120 {
			sizes = sizes[:120]
		}
		conn := agwpe.VerifConnWithFrames(payloads)
		var res []string
		var got []byte
		var pan interface{}
		func() {
			defer func() { pan = recover() }()
			for _, s := range sizes {
				buf := make([]byte, s)
				m, err := conn.Read(buf)
				switch {
				case err == io.EOF && m == 0:
					res = append(res, "eof")
				case err == nil:
					res = append(res, hx(buf[:m]))
					got = append(got, buf[:m]...)
				default:
					res = append(res, fmt.Sprintf("err(%d,%v)", m, err))
				}
			}
		}()
		rep := map[string]interface{}{"payload_lengths": chunkLens(payloads), "payloads": trunc(hexList(payloads), 3000), "buffer_sizes": sizes}
		want := bytes.Join(payloads, nil)
		if pan != nil {
			c.Violate("C13:read-panic", fmt.Sprintf("Conn.Read panicked: %v", pan), rep)
			res = append(res, "panic")
		} else if !bytes.HasPrefix(want, got) {
			c.Violate("C13:read-bytes", "bytes returned by Conn.Read are not a prefix of the concatenated frame payloads", rep)
		} else if len(res) > 0 && res[len(res)-1] == "eof" && !bytes.Equal(want, got) {
			c.Violate("C13:read-bytes", fmt.Sprintf("Conn.Read reached EOF after %d of %d payload bytes", len(got), len(want)), rep)
		}
		small := false
		for _, p := range payloads {
			if len(sizes) > 0 && len(p) > sizes[0] {
				small = true
			}
		}
		cases = append(cases, Case{Line: "agw-read " + hexList(payloads) + " " + intList(sizes), Impl: agJoinOr("/", res),
			Desc: fmt.Sprintf("Read(payload lengths %v; buffer sizes %v)", chunkLens(payloads), trunc(fmt.Sprint(sizes), 80)), Class: "conn-read", Nontrivial: small})
	}
	return cases
}

/* ---------- part B: sessions against the simulated TNC ---------- */

type sessStep struct {
	Op     string     `json:"op"`
	G      []byte     `json:"g_reply,omitempty"`
	X      []byte     `json:"x_reply,omitempty"`
	Target string     `json:"target,omitempty"`
	Digis  []string   `json:"digis,omitempty"`
	RKind  byte       `json:"reply_kind,omitempty"`
	RData  []byte     `json:"reply_data,omitempty"`
	P      []byte     `json:"payload,omitempty"`
	Frames []agwFrame `json:"frames,omitempty"`
	Cuts   [][]int    `json:"cuts,omitempty"`
	Sizes  []int      `json:"sizes,omitempty"`
	Blocks []bool     `json:"blocks,omitempty"` // rd: the read is expected to find nothing (bookkeeping of trimReads)
}

type sessScript struct {
	Port      byte       `json:"port"`
	Mycall    string     `json:"mycall"`
	Ys        []int      `json:"y_replies"`
	Steps     []sessStep `json:"steps"`
	TCP       bool       `json:"tcp"`
	SplitSeed int64      `json:"reply_split_seed"`
	DelayMs   int        `json:"reader_delay_ms"`
	PaceMs    int        `json:"pace_ms"`
	NoiseSeed int64      `json:"noise_seed"` // != 0: unrelated frames are interleaved between requests and the TNC's answers
}

func (sc sessScript) line() string {
	var parts []string
	for _, st := range sc.Steps {
		switch st.Op {
		case "reg":
			parts = append(parts, "reg:"+hx(st.G)+":"+hx(st.X))
		case "dial":
			dg := make([][]byte, len(st.Digis))
			for i, d := range st.Digis {
				dg[i] = []byte(d)
			}
			parts = append(parts, fmt.Sprintf("dial:%s:%s:%d:%s", hs(st.Target), hexList(dg), st.RKind, hx(st.RData)))
		case "acc":
			parts = append(parts, "acc:"+hs(st.Target))
		case "w":
			parts = append(parts, "w:"+hx(st.P))
		case "rx":
			parts = append(parts, "rx:"+hx(concatFrames(st.Frames)))
		case "rd":
			parts = append(parts, "rd:"+intList(st.Sizes))
		default:
			parts = append(parts, st.Op)
		}
	}
	return fmt.Sprintf("agw-sess %d %s %s %s", sc.Port, hs(sc.Mycall), intList(sc.Ys), strings.Join(parts, " "))
}

// withTimeout runs f; false if it did not return in d.
func withTimeout(d time.Duration, f func()) (ok bool, panicked interface{}) {
	done := make(chan interface{}, 1)
	go func() {
		defer func() { done <- recover() }()
		f()
	}()
	select {
	case p := <-done:
		return true, p
	case <-time.After(d):
		return false, nil
	}
}

type sessOutcome struct {
	Results   []string
	Trace     []agwFrame
	YReplies  []int
	Read      []byte // every byte returned by Read (script reads + final drain)
	Expected  []byte // independent expectation of the byte stream delivered to the application
	Written   [][]byte
	Problems  []string // hang / panic (key suffix, text)
	WholeLost bool     // the shortfall is explained by whole frames missing
	MaxFrame  int
}

// runSession executes the script against the real library and the simulated TNC.
func runSession(sc sessScript) (out sessOutcome) { return runSessionOpts(sc, 8*time.Second) }

func runSessionOpts(sc sessScript, writeWatchdog time.Duration) (out sessOutcome) {
	sim := newSimTNC()
	defer sim.close()
	pace := time.Duration(sc.PaceMs) * time.Millisecond
	sim.pause = time.Millisecond
	if sc.SplitSeed != 0 {
		seed := sc.SplitSeed
		sim.split = func(b []byte) [][]byte {
			// deterministic pseudo-random 0..2 cuts
			seed = seed*6364136223846793005 + 1442695040888963407
			k := int((seed >> 33) % 3)
			var cuts []int
			for i := 0; i < k; i++ {
				seed = seed*6364136223846793005 + 1442695040888963407
				cuts = append(cuts, int(uint64(seed>>33)%uint64(len(b)+1)))
			}
			sort.Ints(cuts)
			return cutAt(b, cuts)
		}
	}
	sim.ys = append([]int(nil), sc.Ys...)
	noiseRemote := ""
	if sc.NoiseSeed != 0 {
		nctx := &Ctx{Rng: rand.New(rand.NewSource(sc.NoiseSeed))}
		sim.noisePace = pace
		sim.noise = func() []agwFrame {
			var fs []agwFrame
			if nctx.Rng.Intn(3) == 0 {
				for k := 1 + nctx.Rng.Intn(2); k > 0; k-- {
					fs = append(fs, c13Noise(nctx, sc.Port, sc.Mycall, noiseRemote))
				}
			}
			return fs
		}
	}
	problem := func(k, s string) { out.Problems = append(out.Problems, k+"\x00"+s) }

	var tnc *agwpe.TNC
	var port *agwpe.Port
	var conn net.Conn
	var remote string
	connAlive := false // frames for the connection are still delivered (independent bookkeeping)
	over := false

	openTNC := func() bool {
		if sc.TCP {
			addr, err := sim.listenTCP()
			if err != nil {
				problem("env", "listen: "+err.Error())
				return false
			}
			acc := make(chan error, 1)
			go func() { acc <- sim.acceptTCP() }()
			t, err := agwpe.OpenTCP(addr)
			if err != nil {
				problem("env", "OpenTCP: "+err.Error())
				return false
			}
			if err := <-acc; err != nil {
				problem("env", "accept: "+err.Error())
				return false
			}
			tnc = t
		} else {
			h, s := newChunkPipe()
			sim.attachChunk(s)
			tnc = agwpe.VerifNewTNC(h)
		}
		sim.start()
		return true
	}
	defer func() {
		// orderly end: Port.Close (unregister) and TNC.Close, then collect what the sim saw
		if tnc != nil {
			withTimeout(3*time.Second, func() {
				if port != nil {
					port.Close()
				}
				tnc.Close()
			})
			sim.waitDone(2 * time.Second)
		}
		out.Trace, out.YReplies, _ = sim.frames()
	}()

	doRead := func(size int, wait time.Duration) string {
		buf := make([]byte, size)
		var n int
		var err error
		conn.SetReadDeadline(time.Now().Add(wait))
		ok, pan := withTimeout(3*time.Second, func() { n, err = conn.Read(buf) })
		switch {
		case !ok:
			problem("hang:read", fmt.Sprintf("Read(%d) did not return", size))
			return "hang"
		case pan != nil:
			problem("panic:read", fmt.Sprintf("Read(%d) panicked: %v", size, pan))
			return "panic"
		case err == nil:
			out.Read = append(out.Read, buf[:n]...)
			return hx(buf[:n])
		case err == io.EOF:
			return "eof"
		case errors.Is(err, context.DeadlineExceeded):
			return "blk"
		}
		return "err:" + err.Error()
	}

	for _, st := range sc.Steps {
		if over {
			break
		}
		res := st.Op
		switch st.Op {
		case "reg":
			sim.setPolicy(func() { sim.gData, sim.xData = st.G, st.X })
			if !openTNC() {
				return
			}
			var p *agwpe.Port
			var err error
			ok, pan := withTimeout(5*time.Second, func() { p, err = tnc.RegisterPort(int(sc.Port), sc.Mycall) })
			switch {
			case !ok:
				problem("hang:register", "RegisterPort did not return")
				over = true
			case pan != nil:
				problem("panic:register", fmt.Sprint("RegisterPort panicked: ", pan))
				over = true
			case err == nil:
				port = p
				out.MaxFrame = agwpe.VerifMaxFrame(p)
				res = fmt.Sprintf("reg=ok,%d", out.MaxFrame)
			case strings.Contains(err.Error(), "unexpected registration response"):
				res, over = "reg=unexpected", true
			case strings.Contains(err.Error(), "callsign in use"):
				res, over = "reg=inuse", true
			default:
				res, over = "reg=err:"+err.Error(), true
			}
		case "dial":
			sim.setPolicy(func() { sim.dialKind, sim.dialData = st.RKind, st.RData; noiseRemote = st.Target })
			remote = st.Target
			var cn net.Conn
			var err error
			ctx, cancel := context.WithTimeout(context.Background(), 4*time.Second)
			ok, pan := withTimeout(5*time.Second, func() { cn, err = port.DialContext(ctx, st.Target, st.Digis...) })
			cancel()
			switch {
			case !ok:
				problem("hang:dial", "DialContext did not return")
				over = true
			case pan != nil:
				problem("panic:dial", fmt.Sprint("DialContext panicked: ", pan))
				over = true
			case err == nil:
				conn, connAlive, res = cn, true, "dial=ok"
			case strings.Contains(err.Error(), "connect precondition failed"):
				res, over = "dial=precond", true
			case st.RKind == 'd':
				res, over = "dial=refused", true
			default:
				res, over = "dial=err:"+err.Error(), true
			}
		case "acc":
			remote = st.Target
			sim.setPolicy(func() { noiseRemote = st.Target })
			ln, err := port.Listen()
			if err != nil {
				res, over = "acc=err:"+err.Error(), true
				break
			}
			type accRes struct {
				c   net.Conn
				err error
			}
			ch := make(chan accRes, 1)
			go func() { cn, err := ln.Accept(); ch <- accRes{cn, err} }()
			time.Sleep(50 * time.Millisecond) // let Accept block on the inbound channel
			f := agwFrame{Port: sc.Port, Kind: 'C', From: call10(st.Target), To: call10(sc.Mycall), Data: []byte("*** CONNECTED To Station " + sc.Mycall + "\r")}
			sim.sendPieces(cutAt(f.bytes(), []int{20}))
			select {
			case r := <-ch:
				if r.err != nil {
					res, over = "acc=err:"+r.err.Error(), true
				} else {
					conn, connAlive, res = r.c, true, "acc=ok"
				}
			case <-time.After(3 * time.Second):
				problem("hang:accept", "Accept did not return after the TNC announced an inbound connection")
				over = true
			}
			ln.Close()
			sim.settle(pace)
		case "w":
			var n int
			var err error
			ok, pan := withTimeout(writeWatchdog, func() { n, err = conn.Write(st.P) })
			switch {
			case !ok:
				problem("hang:write", "Write did not return")
				over = true
			case pan != nil:
				problem("panic:write", fmt.Sprint("Write panicked: ", pan))
				over = true
			case err == nil:
				res = fmt.Sprintf("w=%d", n)
				out.Written = append(out.Written, st.P)
				if n != len(st.P) {
					problem("write-count", fmt.Sprintf("Write(%d bytes) returned %d, nil", len(st.P), n))
				}
			case err == io.EOF:
				res = "w=eof"
			default:
				res = "w=err:" + err.Error()
			}
		case "fl":
			var err error
			ok, pan := withTimeout(8*time.Second, func() { err = conn.(interface{ Flush() error }).Flush() })
			switch {
			case !ok:
				problem("hang:flush", "Flush did not return")
				over = true
			case pan != nil:
				problem("panic:flush", fmt.Sprint("Flush panicked: ", pan))
				over = true
			case err == nil:
				res = "fl=ok"
			case err == io.EOF:
				res = "fl=eof"
			default:
				res = "fl=err:" + err.Error()
			}
		case "cl":
			var err error
			ok, pan := withTimeout(8*time.Second, func() { err = conn.Close() })
			switch {
			case !ok:
				problem("hang:close", "Close did not return")
				over = true
			case pan != nil:
				problem("panic:close", fmt.Sprint("Close panicked: ", pan))
				over = true
			case err == nil:
				res = "cl=ok"
			default:
				res = "cl=err:" + err.Error()
			}
			connAlive = false
		case "rx":
			for i, f := range st.Frames {
				var cuts []int
				if i < len(st.Cuts) {
					cuts = st.Cuts[i]
				}
				if err := sim.sendPieces(cutAt(f.bytes(), cuts)); err != nil {
					problem("sim-io", "sim write: "+err.Error())
				}
				sim.settle(pace)
				// the property's own statement of what must reach the application
				if connAlive && f.Port == sc.Port && f.Kind == 'D' && (f.From == call10(remote) || f.To == call10(remote)) {
					out.Expected = append(out.Expected, f.Data...)
				}
			}
		case "rxd":
			f := agwFrame{Port: sc.Port, Kind: 'd', From: call10(remote), To: call10(sc.Mycall), Data: []byte("*** DISCONNECTED From Station " + remote + "\r")}
			sim.sendPieces([][]byte{f.bytes()})
			connAlive = false
			sim.settle(pace)
			// teardown runs in a goroutine of the library: wait until it is done
			if ac, ok := conn.(*agwpe.Conn); ok {
				for t0 := time.Now(); !agwpe.VerifConnClosed(ac) && time.Since(t0) < 2*time.Second; {
					time.Sleep(time.Millisecond)
				}
			}
		case "rd":
			var rs []string
			for i, s := range st.Sizes {
				if sc.DelayMs > 0 {
					time.Sleep(time.Duration(sc.DelayMs) * time.Millisecond)
				}
				wait := 2 * time.Second // data is expected: be patient on a loaded machine
				if i < len(st.Blocks) && st.Blocks[i] {
					wait = 250 * time.Millisecond
				}
				rs = append(rs, doRead(s, wait))
			}
			res = "rd=" + agJoinOr("/", rs)
		}
		out.Results = append(out.Results, res)
	}
	// final drain (oracle only): whatever was delivered must come out of Read
	if conn != nil && len(out.Problems) == 0 {
		for i := 0; i < 4000 && len(out.Read) < len(out.Expected); i++ {
			r := doRead(4096, 300*time.Millisecond)
			if r == "eof" || r == "blk" || r == "hang" || r == "panic" || strings.HasPrefix(r, "err:") {
				break
			}
		}
		// everything sent has settled long ago: one short read shows whether anything ELSE was delivered
		for i := 0; i < 50; i++ {
			r := doRead(4096, 15*time.Millisecond)
			if r != "-" {
				break
			}
		}
	}
	return
}

// sessionOracle: the property's own checks on what the application and the TNC observed.
func sessionOracle(c *Ctx, sc sessScript, out sessOutcome, keyPrefix string) (lostWhole bool) {
	rep := map[string]interface{}{"script": sc, "results": out.Results}
	for _, p := range out.Problems {
		kv := strings.SplitN(p, "\x00", 2)
		c.Violate("C13:"+kv[0], kv[1], rep)
	}
	if len(out.Problems) > 0 {
		return false
	}
	// application side: Read yields exactly the concatenation of the connection's frame payloads
	if !bytes.Equal(out.Read, out.Expected) {
		if len(out.Read) < len(out.Expected) && isFrameSubsequence(sc, out) {
			return true
		}
		i := 0
		for i < len(out.Read) && i < len(out.Expected) && out.Read[i] == out.Expected[i] {
			i++
		}
		c.Violate("C13:"+keyPrefix+"read-stream", fmt.Sprintf("Read returned %d bytes, the connection's frames carry %d; first difference at offset %d", len(out.Read), len(out.Expected), i), rep)
	}
	// TNC side: well-formed frames, right port/callsigns/PID, payloads = written bytes, protocol order
	var dPayloads [][]byte
	state := "start"
	lastY := -1
	yi := 0
	okYSinceD := false
	var remote string
	for _, st := range sc.Steps {
		if st.Op == "dial" || st.Op == "acc" {
			remote = st.Target
		}
	}
	for i, f := range out.Trace {
		bad := func(what string) {
			c.Violate("C13:"+keyPrefix+"tnc-frames", fmt.Sprintf("frame %d received by the TNC (%s): %s", i, trunc(f.show(), 120), what), rep)
		}
		if f.ReservedNonZero {
			bad("reserved header bytes not zero")
		}
		if f.Port != sc.Port && f.Kind != 'R' {
			bad(fmt.Sprintf("port %d, session uses port %d", f.Port, sc.Port))
		}
		switch f.Kind {
		case 'g':
			if state != "start" {
				bad("capabilities request out of order")
			}
			state = "g"
		case 'X':
			if state != "g" || f.From != call10(sc.Mycall) {
				bad("register frame out of order or with the wrong callsign")
			}
			state = "registered"
		case 'C', 'v':
			if state != "registered" || f.From != call10(sc.Mycall) || f.To != call10(remote) {
				bad("connect frame out of order or with wrong callsigns")
			}
			state = "connected"
		case 'Y':
			if f.From != call10(sc.Mycall) || f.To != call10(remote) || len(f.Data) != 0 {
				bad("outstanding-frames query with wrong callsigns")
			}
			if yi < len(out.YReplies) {
				lastY = out.YReplies[yi]
				yi++
				if lastY <= out.MaxFrame {
					okYSinceD = true
				}
			}
		case 'D':
			if f.From != call10(sc.Mycall) || f.To != call10(remote) || f.PID != 0xf0 {
				bad("data frame with wrong callsigns or PID")
			}
			if !okYSinceD {
				bad("data frame sent without an outstanding-frames answer <= MAXFRAME since the previous data frame")
			}
			okYSinceD = false
			dPayloads = append(dPayloads, f.Data)
		case 'd':
			if f.From != call10(sc.Mycall) || f.To != call10(remote) {
				bad("disconnect with wrong callsigns")
			}
			if state == "connected" && lastY != 0 && hasOp(sc, "cl") && hasResult(out, "dial=ok", "acc=ok") {
				bad(fmt.Sprintf("disconnect sent while the TNC still reported %d outstanding frames", lastY))
			}
			state = "disconnected"
		case 'x':
			if f.From != call10(sc.Mycall) {
				bad("unregister with the wrong callsign")
			}
		default:
			bad("unexpected frame kind")
		}
	}
	if len(dPayloads) != len(out.Written) {
		c.Violate("C13:"+keyPrefix+"write-frames", fmt.Sprintf("%d successful Write calls, the TNC received %d data frames", len(out.Written), len(dPayloads)), rep)
	} else if !bytes.Equal(bytes.Join(dPayloads, nil), bytes.Join(out.Written, nil)) {
		c.Violate("C13:"+keyPrefix+"write-frames", "payloads of the data frames received by the TNC do not concatenate to the written bytes", rep)
	}
	return false
}

func hasOp(sc sessScript, op string) bool {
	for _, s := range sc.Steps {
		if s.Op == op {
			return true
		}
	}
	return false
}

func hasResult(out sessOutcome, rs ...string) bool {
	for _, r := range out.Results {
		for _, x := range rs {
			if r == x {
				return true
			}
		}
	}
	return false
}

// isFrameSubsequence: out.Read equals the concatenation of a subsequence of the expected payloads.
func isFrameSubsequence(sc sessScript, out sessOutcome) bool {
	var payloads [][]byte
	var remote string
	alive := false
	for _, st := range sc.Steps {
		switch st.Op {
		case "dial", "acc":
			remote, alive = st.Target, true
		case "cl", "rxd":
			alive = false
		case "rx":
			for _, f := range st.Frames {
				if alive && f.Port == sc.Port && f.Kind == 'D' && (f.From == call10(remote) || f.To == call10(remote)) {
					payloads = append(payloads, f.Data)
				}
			}
		}
	}
	// greedy match is not complete in general; try DP over positions (payload counts are small)
	reach := map[int]bool{0: true}
	for _, p := range payloads {
		next := map[int]bool{}
		for pos := range reach {
			next[pos] = true // frame lost
			if bytes.HasPrefix(out.Read[pos:], p) {
				next[pos+len(p)] = true
			}
		}
		reach = next
	}
	return reach[len(out.Read)]
}

func implSessionLine(out sessOutcome) string {
	xs := make([]string, len(out.Trace))
	for i, f := range out.Trace {
		xs[i] = f.show()
	}
	return agJoinOr(";", out.Results) + " " + agJoinOr(",", xs)
}

// noiseFrame: a frame that must NOT reach the connection (other port, other station, or not connected data).
func c13Noise(c *Ctx, port byte, mycall, remote string) agwFrame {
	others := []string{}
	for _, x := range c13Calls {
		if call10(x) != call10(remote) && call10(x) != call10(mycall) {
			others = append(others, x)
		}
	}
	o := others[c.Rng.Intn(len(others))]
	switch c.Rng.Intn(5) {
	case 0: // same stations, other port
		return agwFrame{Port: port + 1 + byte(c.Rng.Intn(3)), Kind: 'D', PID: 0xf0, From: call10(remote), To: call10(mycall), Data: c13Payload(c, 40)}
	case 1: // other station, data for us
		return agwFrame{Port: port, Kind: 'D', PID: 0xf0, From: call10(o), To: call10(mycall), Data: c13Payload(c, 40)}
	case 2: // other station pair
		return agwFrame{Port: port, Kind: 'D', PID: 0xf0, From: call10(o), To: call10(others[c.Rng.Intn(len(others))]), Data: c13Payload(c, 40)}
	case 3: // monitoring / unproto / unknown kinds from the remote
		return agwFrame{Port: port, Kind: []byte("UITSKMHz")[c.Rng.Intn(8)], PID: 0xf0, From: call10(remote), To: call10(mycall), Data: c13Payload(c, 40)}
	default: // disconnect of another link
		return agwFrame{Port: port, Kind: 'd', From: call10(o), To: call10(mycall), Data: []byte("*** DISCONNECTED From Station " + o + "\r")}
	}
}

func c13GenSession(c *Ctx, idx int) sessScript {
	sc := sessScript{Port: byte([]int{0, 0, 1, 2, 7, 255}[c.Rng.Intn(6)]), Mycall: []string{"LA5NTA", "N0CALL", "LA1B-10", "W1AW-7"}[c.Rng.Intn(4)], TCP: idx%3 == 0, PaceMs: 2}
	if c.Rng.Intn(3) > 0 {
		sc.SplitSeed = int64(1 + c.Rng.Intn(1<<30))
	}
	if c.Rng.Intn(6) == 0 {
		sc.DelayMs = 1 + c.Rng.Intn(c.Budget(10, 50))
	}
	if c.Rng.Intn(3) == 0 {
		sc.NoiseSeed = int64(1 + c.Rng.Intn(1<<30))
	}
	g := make([]byte, 12)
	g[6] = byte([]int{7, 7, 4, 1, 0, 63}[c.Rng.Intn(6)])
	switch c.Rng.Intn(10) {
	case 0:
		g = g[:c.Rng.Intn(12)] // short capabilities answer: MAXFRAME defaults to 7
	case 1:
		g = append(g, 1, 2, 3)
	}
	x := []byte{1}
	switch c.Rng.Intn(14) {
	case 0:
		x = []byte{0}
	case 1:
		x = []byte{}
	case 2:
		x = []byte{1, 0}
	}
	sc.Steps = append(sc.Steps, sessStep{Op: "reg", G: g, X: x})
	maxFrame := 7
	if len(g) >= 12 {
		maxFrame = int(g[6])
	}
	var remote string
	for {
		remote = c13Calls[c.Rng.Intn(len(c13Calls))]
		if call10(remote) != call10(sc.Mycall) {
			break
		}
	}
	if c.Rng.Intn(4) == 0 {
		sc.Steps = append(sc.Steps, sessStep{Op: "acc", Target: remote})
	} else {
		st := sessStep{Op: "dial", Target: remote, RKind: 'C', RData: []byte("*** CONNECTED With Station " + remote + "\r")}
		for k := c.Rng.Intn(4) - 1; k > 0; k-- {
			st.Digis = append(st.Digis, c13Calls[c.Rng.Intn(len(c13Calls))])
		}
		switch c.Rng.Intn(12) {
		case 0:
			st.RKind, st.RData = 'd', []byte("*** DISCONNECTED RETRYOUT With "+remote+"\r")
		case 1:
			st.RData = []byte("*** CONNECTED  With Station " + remote + "\r")
		case 2:
			st.RData = nil
		}
		sc.Steps = append(sc.Steps, st)
	}
	// body
	holds := 0          // 200 ms ticks this script costs
	var queued [][]byte // independent bookkeeping of the frames waiting for Read (the library stalls at about 12, see findings)
	var tail []byte
	nsteps := 2 + c.Rng.Intn(7)
	closed := false
	for i := 0; i < nsteps; i++ {
		switch k := c.Rng.Intn(10); {
		case k < 3: // write, sometimes with scripted outstanding-frame answers that force polling
			st := sessStep{Op: "w", P: c13Payload(c, []int{10, 300, 3000}[c.Rng.Intn(3)])}
			if !closed && holds < 2 && c.Rng.Intn(5) == 0 {
				// before D: one answer above MAXFRAME, then one at the limit; after D: one zero, then 2
				sc.Ys = append(sc.Ys, maxFrame+1, maxFrame, 0, 2)
				holds += 2
			} else if !closed {
				sc.Ys = append(sc.Ys, c.Rng.Intn(maxFrame+1), 1+c.Rng.Intn(3))
			}
			sc.Steps = append(sc.Steps, st)
		case k < 6: // frames from the TNC, then reads
			var fs []agwFrame
			var cuts [][]int
			nf := 1 + c.Rng.Intn(5)
			for j := 0; j < nf && len(queued) < 8; j++ {
				var f agwFrame
				if c.Rng.Intn(3) == 0 {
					f = c13Noise(c, sc.Port, sc.Mycall, remote)
				} else {
					f = agwFrame{Port: sc.Port, Kind: 'D', PID: 0xf0, From: call10(remote), To: call10(sc.Mycall), Data: c13Payload(c, []int{8, 300, 1500}[c.Rng.Intn(3)])}
					if c.Rng.Intn(8) == 0 {
						f.From, f.To = f.To, f.From
					}
					if !closed {
						queued = append(queued, f.Data)
					}
				}
				fs = append(fs, f)
				cuts = append(cuts, randomCuts(c, 36+len(f.Data), c.Rng.Intn(4)))
			}
			if len(fs) > 0 {
				sc.Steps = append(sc.Steps, sessStep{Op: "rx", Frames: fs, Cuts: cuts})
			}
			if c.Rng.Intn(4) > 0 {
				sizes := c13ReadSizes(c, 600)
				if len(sizes) > 30 {
					sizes = sizes[:30]
				}
				sc.Steps = append(sc.Steps, sessStep{Op: "rd", Sizes: sizes})
				for _, sz := range sizes {
					if len(tail) == 0 {
						if len(queued) == 0 {
							break
						}
						tail, queued = queued[0], queued[1:]
					}
					if sz > len(tail) {
						sz = len(tail)
					}
					tail = tail[sz:]
				}
			}
		case k == 6:
			if !closed {
				sc.Ys = append(sc.Ys, 0)
			}
			sc.Steps = append(sc.Steps, sessStep{Op: "fl"})
		case k == 7 && i > 2:
			sc.Steps = append(sc.Steps, sessStep{Op: "rxd"})
			closed = true
		case k == 8 && i > 2:
			if !closed && holds < 2 && c.Rng.Intn(3) == 0 {
				sc.Ys = append(sc.Ys, 1, 0)
				holds++
			} else if !closed {
				sc.Ys = append(sc.Ys, 0)
			}
			sc.Steps = append(sc.Steps, sessStep{Op: "cl"})
			closed = true
		}
	}
	return sc
}

// trimReads removes reads that would block for the deadline: the generator cannot know how many reads
// drain the queue, so the script is first interpreted by an independent bookkeeping of pending bytes/frames.
func trimReads(sc sessScript) sessScript {
	var remote string
	alive, closed := false, false
	var queue [][]byte
	var unread []byte
	blocks := 0
	for si := range sc.Steps {
		st := &sc.Steps[si]
		switch st.Op {
		case "dial", "acc":
			remote, alive = st.Target, true
		case "cl", "rxd":
			alive, closed = false, true
		case "rx":
			for _, f := range st.Frames {
				if alive && f.Port == sc.Port && f.Kind == 'D' && (f.From == call10(remote) || f.To == call10(remote)) {
					queue = append(queue, f.Data)
				}
			}
		case "rd":
			var keep []int
			var blk []bool
			for _, s := range st.Sizes {
				if len(unread) == 0 && len(queue) == 0 {
					if closed { // EOF is immediate
						keep = append(keep, s)
						blk = append(blk, false)
						break
					}
					if blocks < 1 { // allow one blocking read per script
						blocks++
						keep = append(keep, s)
						blk = append(blk, true)
					}
					break
				}
				keep = append(keep, s)
				blk = append(blk, false)
				if len(unread) == 0 {
					unread, queue = queue[0], queue[1:]
				}
				if s > len(unread) {
					s = len(unread)
				}
				unread = unread[s:]
			}
			st.Sizes = keep
			st.Blocks = blk
		}
	}
	return sc
}

// Sessions run in a child process (a panic in one of the library's goroutines cannot be recovered
// in-process): the parent generates all scripts, the child runs scripts[from:] and reports one JSON line
// per session; when the child dies the session it was running is the failing input.
type sessReport struct {
	Idx     int         `json:"idx"`
	Script  sessScript  `json:"script"`
	Out     sessOutcome `json:"out"`
	Retried bool        `json:"retried"`
	Lost    bool        `json:"lost"`
	Ms      int64       `json:"ms"`
}

func c13SessionChild() {
	var scripts []sessScript
	b, err := os.ReadFile(os.Getenv("VERIF_C13_FILE"))
	if err != nil || json.Unmarshal(b, &scripts) != nil {
		fmt.Println("cannot read scripts")
		os.Exit(3)
	}
	from, stride := 0, 1
	fmt.Sscan(os.Getenv("VERIF_C13_FROM"), &from)
	fmt.Sscan(os.Getenv("VERIF_C13_STRIDE"), &stride)
	var budget float64 = 30
	fmt.Sscan(os.Getenv("VERIF_C13_BUDGET"), &budget)
	deadline := time.Now().Add(time.Duration(budget * float64(time.Second)))
	w := bufio.NewWriter(os.Stdout)
	for i := from; i < len(scripts) && time.Now().Before(deadline); i += stride {
		fmt.Fprintf(w, "BEGIN %d\n", i)
		w.Flush()
		sc := scripts[i]
		rep := sessReport{Idx: i, Script: sc}
		t0 := time.Now()
		rep.Out = runSession(sc)
		if len(rep.Out.Problems) == 0 && len(rep.Out.Read) < len(rep.Out.Expected) && isFrameSubsequence(sc, rep.Out) {
			// whole frames missing although frames were paced: the library's drop-when-full queues can lose a
			// frame when its goroutines are starved. Re-run with generous pacing to tell the race from a defect.
			rep.Retried = true
			sc.PaceMs = 40
			rep.Script = sc
			rep.Out = runSession(sc)
			rep.Lost = len(rep.Out.Problems) == 0 && len(rep.Out.Read) < len(rep.Out.Expected) && isFrameSubsequence(sc, rep.Out)
		}
		rep.Ms = time.Since(t0).Milliseconds()
		jb, _ := json.Marshal(rep)
		fmt.Fprintf(w, "OUT %s\n", jb)
		w.Flush()
	}
	fmt.Fprintln(w, "SESSIONS-DONE")
	w.Flush()
}

func c13Sessions(c *Ctx) []Case {
	var cases []Case
	n := c.Budget(240, 3000)
	scripts := make([]sessScript, n)
	for i := range scripts {
		scripts[i] = trimReads(c13GenSession(c, i))
	}
	exe, err := os.Executable()
	if err != nil {
		c.Note("sessions skipped: %v", err)
		return nil
	}
	tmp, err := os.CreateTemp("", "c13-scripts-*.json")
	if err != nil {
		c.Note("sessions skipped: %v", err)
		return nil
	}
	defer os.Remove(tmp.Name())
	jb, _ := json.Marshal(scripts)
	tmp.Write(jb)
	tmp.Close()
	start := time.Now()
	limit := time.Duration(c.Budget(30, 400)) * time.Second
	reports := make([]*sessReport, len(scripts))
	crashes := map[int][2]string{}
	handle := func(rep sessReport) {
		sc, out := rep.Script, rep.Out
		if rep.Ms > 2500 {
			c.Note("slow session %d: %d ms: %s", rep.Idx, rep.Ms, trunc(strings.Join(out.Results, ";"), 300))
		}
		if rep.Retried && !rep.Lost {
			c.Note("session %d lost a whole frame at 2 ms pacing and none at 40 ms (drop-when-full queues, see finding C13:demux-drop-slow-reader)", rep.Idx)
		}
		if rep.Lost {
			c.Violate("C13:frame-lost-paced", "a connected-data frame for the connection never reached Read although frames were sent 40 ms apart to an actively reading application", map[string]interface{}{"script": sc, "results": out.Results})
			return
		}
		sessionOracle(c, sc, out, "")
		if len(out.Problems) > 0 {
			return
		}
		transport := "mem"
		if sc.TCP {
			transport = "tcp"
		}
		nontriv := false
		for _, st := range sc.Steps {
			if st.Op == "rx" || st.Op == "w" {
				nontriv = true
			}
		}
		if os.Getenv("VERIF_C13_DEBUG") != "" {
			fmt.Fprintf(os.Stderr, "session %d (%d ms) ys=%v: %s | %d frames at TNC\n", rep.Idx, rep.Ms, sc.Ys, strings.Join(out.Results, ";"), len(out.Trace))
		}
		cases = append(cases, Case{Line: sc.line(), Impl: implSessionLine(out), Desc: fmt.Sprintf("session(%s port=%d %s; %s)", transport, sc.Port, sc.Mycall, trunc(strings.Join(out.Results, ";"), 200)), Class: "session-" + transport, Nontrivial: nontriv})
	}
	workers := c.Budget(4, 6)
	var mu sync.Mutex
	var wg sync.WaitGroup
	for k := 0; k < workers; k++ {
		wg.Add(1)
		go func(k int) {
			defer wg.Done()
			from := k
			for from < len(scripts) && c.TimeLeft() && time.Since(start) < limit {
				left := limit - time.Since(start)
				ctx, cancel := context.WithTimeout(context.Background(), left+30*time.Second)
				cmd := exec.CommandContext(ctx, exe)
				cmd.Env = append(os.Environ(), "VERIF_C13_CHILD=sessions", "VERIF_C13_FILE="+tmp.Name(), fmt.Sprintf("VERIF_C13_FROM=%d", from), fmt.Sprintf("VERIF_C13_STRIDE=%d", workers), fmt.Sprintf("VERIF_C13_BUDGET=%f", left.Seconds()))
				var stderr bytes.Buffer
				cmd.Stderr = &stderr
				stdout, err := cmd.StdoutPipe()
				if err != nil || cmd.Start() != nil {
					cancel()
					mu.Lock()
					c.Note("sessions: cannot start child")
					mu.Unlock()
					return
				}
				rd := bufio.NewReaderSize(stdout, 1<<20)
				running, finished := -1, false
				for {
					line, err := rd.ReadString('\n')
					if strings.HasPrefix(line, "BEGIN ") {
						fmt.Sscan(line[6:], &running)
					} else if strings.HasPrefix(line, "OUT ") {
						var rep sessReport
						if json.Unmarshal([]byte(line[4:]), &rep) == nil {
							mu.Lock()
							reports[rep.Idx] = &rep
							mu.Unlock()
							running = -1
							from = rep.Idx + workers
						}
					} else if strings.HasPrefix(line, "SESSIONS-DONE") {
						finished = true
					}
					if err != nil {
						break
					}
				}
				cmd.Wait()
				cancel()
				if finished || running < 0 {
					return
				}
				e := stderr.String()
				what := "the process running the session died"
				if i := strings.Index(e, "panic:"); i >= 0 {
					what = "process crashed: " + strings.SplitN(e[i:], "\n", 2)[0]
				} else if i := strings.Index(e, "fatal error:"); i >= 0 {
					what = "process crashed: " + strings.SplitN(e[i:], "\n", 2)[0]
				}
				mu.Lock()
				crashes[running] = [2]string{what, trunc(e, 3000)}
				mu.Unlock()
				from = running + workers
			}
		}(k)
	}
	wg.Wait()
	for i := range scripts { // deterministic order
		if cr, ok := crashes[i]; ok {
			c.Violate("C13:crash:session", cr[0], map[string]interface{}{"script": scripts[i], "stderr": cr[1]})
		}
		if rep := reports[i]; rep != nil {
			handle(*rep)
		}
	}
	return cases
}

/* ---------- part C: findings and robustness (oracle only) ---------- */

// slowReader: the TNC delivers frames while the application does not call Read for a while.
func c13SlowReader(c *Ctx) []Case {
	nframes := 40
	sc := sessScript{Port: 0, Mycall: "LA5NTA", PaceMs: 3}
	sc.Steps = append(sc.Steps, sessStep{Op: "reg", G: make([]byte, 12), X: []byte{1}},
		sessStep{Op: "dial", Target: "LA1B", RKind: 'C', RData: []byte("*** CONNECTED With Station LA1B\r")})
	var fs []agwFrame
	for i := 0; i < nframes; i++ {
		fs = append(fs, agwFrame{Port: 0, Kind: 'D', PID: 0xf0, From: call10("LA1B"), To: call10("LA5NTA"), Data: []byte(fmt.Sprintf("frame-%02d;", i))})
	}
	sc.Steps = append(sc.Steps, sessStep{Op: "rx", Frames: fs})
	out := runSession(sc)
	if len(out.Problems) > 0 {
		sessionOracle(c, sc, out, "slow-reader:")
		return nil
	}
	if !bytes.Equal(out.Read, out.Expected) {
		c.Violate("C13:demux-drop-slow-reader", fmt.Sprintf("the TNC sent %d data frames (3 ms apart) while the application was not reading; Read then returned %d of %d bytes", nframes, len(out.Read), len(out.Expected)),
			map[string]interface{}{"frames": nframes, "payload": "frame-NN;", "read": string(out.Read)})
	}
	// which frames survived, for the comparison with the queue-pipeline model
	var idx []string
	for _, tok := range strings.Split(string(out.Read), ";") {
		if strings.HasPrefix(tok, "frame-") {
			n, _ := strconv.Atoi(tok[6:])
			idx = append(idx, itoa(n))
		}
	}
	return []Case{{Line: fmt.Sprintf("agw-pipe-slow %d", nframes), Impl: agJoinOr(",", idx), Desc: fmt.Sprintf("slow reader: %d paced frames, then read everything", nframes), Class: "pipeline-slow-reader", Nontrivial: true}}
}

// writeStall: control frames (the 'Y' answers Write waits for) queue behind unread data frames.
func c13WriteStall(c *Ctx) {
	sc := sessScript{Port: 0, Mycall: "LA5NTA", PaceMs: 3}
	sc.Steps = append(sc.Steps, sessStep{Op: "reg", G: make([]byte, 12), X: []byte{1}},
		sessStep{Op: "dial", Target: "LA1B", RKind: 'C', RData: []byte("*** CONNECTED With Station LA1B\r")})
	var fs []agwFrame
	for i := 0; i < 13; i++ {
		fs = append(fs, agwFrame{Port: 0, Kind: 'D', PID: 0xf0, From: call10("LA1B"), To: call10("LA5NTA"), Data: []byte(fmt.Sprintf("frame-%02d;", i))})
	}
	sc.Steps = append(sc.Steps, sessStep{Op: "rx", Frames: fs}, sessStep{Op: "w", P: []byte("hello")})
	done := make(chan sessOutcome, 1)
	t0 := time.Now()
	go func() { done <- runSessionOpts(sc, 1500*time.Millisecond) }()
	out := <-done
	for _, p := range out.Problems {
		if strings.HasPrefix(p, "hang:write") {
			c.Violate("C13:write-stalls-behind-unread-data", fmt.Sprintf("with 13 unread data frames queued, Write(5 bytes) did not return within 1.5 s (the TNC answered every 'Y' query at once; the answers wait behind the data frames until the application reads, or 30 s pass)"),
				map[string]interface{}{"unread_frames": 13, "waited_ms": time.Since(t0).Milliseconds()})
			return
		}
	}
	if len(out.Problems) > 0 {
		sessionOracle(c, sc, out, "write-stall:")
	}
}

// allocBeforeData: a header announcing a large data field makes the library allocate it before any data arrives.
func c13Alloc(c *Ctx) {
	const announce = 64 << 20
	sim := newSimTNC()
	defer sim.close()
	h, s := newChunkPipe()
	sim.attachChunk(s)
	var before, after runtime.MemStats
	runtime.GC()
	runtime.ReadMemStats(&before)
	tnc := agwpe.VerifNewTNC(h)
	sim.start()
	hdr := agwFrame{Port: 0, Kind: 'D', PID: 0xf0, From: call10("LA1B"), To: call10("LA5NTA")}.bytes()
	hdr[28], hdr[29], hdr[30], hdr[31] = byte(announce&0xff), byte(announce>>8&0xff), byte(announce>>16&0xff), byte(announce>>24)
	sim.sendPieces([][]byte{hdr})
	s.waitHostIdle(time.Second)
	time.Sleep(20 * time.Millisecond)
	runtime.ReadMemStats(&after)
	tnc.Close()
	grown := after.TotalAlloc - before.TotalAlloc
	if grown >= announce/2 {
		c.Violate("C13:alloc-before-data", fmt.Sprintf("after 36 bytes from the TNC (a header with DataLen=%d) the process had allocated %d bytes", announce, grown), map[string]interface{}{"header": hx(hdr)})
	}
	runtime.GC()
}

// Robustness scenarios run in a child process: a panic in a library goroutine cannot be recovered in-process.
var c13ChildScenarios = []string{
	"close-before-register", "truncated-header-before-register", "garbage-then-valid", "x-reply-empty", "x-reply-long",
	"g-reply-short", "y-reply-short", "y-reply-long", "version-reply-short", "data-before-connect", "disconnect-unknown",
	"inbound-nobody-accepting", "close-mid-write", "connect-reply-other-station", "close-mid-dial", "random-frames", "dial-port-7", "close-port-7",
	"dial-answered-connected-to", "inbound-racing-port-close",
}

func c13RunChildScenario(name string, seed int64) {
	sim := newSimTNC()
	h, s := newChunkPipe()
	sim.attachChunk(s)
	sim.pause = 0
	reg := func(port int) (*agwpe.TNC, *agwpe.Port, error) {
		tnc := agwpe.VerifNewTNC(h)
		sim.start()
		p, err := tnc.RegisterPort(port, "LA5NTA")
		return tnc, p, err
	}
	dial := func(p *agwpe.Port) (net.Conn, error) {
		ctx, cancel := context.WithTimeout(context.Background(), 500*time.Millisecond)
		defer cancel()
		return p.DialContext(ctx, "LA1B")
	}
	sim.dialData = []byte("*** CONNECTED With Station LA1B\r")
	switch name {
	case "close-before-register":
		tnc := agwpe.VerifNewTNC(h)
		s.Close()
		time.Sleep(30 * time.Millisecond)
		_, err := tnc.RegisterPort(0, "LA5NTA")
		fmt.Println("RegisterPort:", err)
	case "truncated-header-before-register":
		tnc := agwpe.VerifNewTNC(h)
		s.Write(make([]byte, 10))
		s.Close()
		time.Sleep(30 * time.Millisecond)
		_, err := tnc.RegisterPort(0, "LA5NTA")
		fmt.Println("RegisterPort:", err)
	case "garbage-then-valid":
		g := agwFrame{Port: 9, Kind: 0xff, PID: 0xaa, Data: []byte{1, 2, 3}}.bytes()
		for _, i := range []int{1, 2, 3, 5, 7, 32, 33, 34, 35} {
			g[i] = 0xee
		}
		tnc := agwpe.VerifNewTNC(h)
		s.Write(g)
		sim.start()
		p, err := tnc.RegisterPort(0, "LA5NTA")
		fmt.Println("RegisterPort:", err)
		if err == nil {
			_, err = dial(p)
			fmt.Println("Dial:", err)
		}
	case "x-reply-empty", "x-reply-long", "g-reply-short":
		switch name {
		case "x-reply-empty":
			sim.xData = nil
		case "x-reply-long":
			sim.xData = []byte{1, 1, 1}
		default:
			sim.gData = []byte{1, 2, 3}
		}
		_, _, err := reg(0)
		fmt.Println("RegisterPort:", err)
	case "y-reply-short", "y-reply-long":
		sim.onFrame = func(f agwFrame) bool {
			if f.Kind != 'Y' {
				return false
			}
			d := []byte{0, 0, 0}
			if name == "y-reply-long" {
				d = []byte{0, 0, 0, 0, 0}
			}
			go sim.sendPieces([][]byte{agwFrame{Port: f.Port, Kind: 'Y', From: f.From, To: f.To, Data: d}.bytes()})
			return true
		}
		_, p, err := reg(0)
		fmt.Println("RegisterPort:", err)
		cn, err := dial(p)
		fmt.Println("Dial:", err)
		_, err = cn.Write([]byte("hello"))
		fmt.Println("Write:", err)
		fmt.Println("Close:", cn.Close())
		// whatever Flush made of the malformed answer: closing performs the disconnect exchange
		time.Sleep(50 * time.Millisecond)
		fr, _, _ := sim.frames()
		sawD := false
		for _, f := range fr {
			sawD = sawD || f.Kind == 'd'
		}
		fmt.Println("TNC-GOT-DISCONNECT:", sawD)
	case "version-reply-short":
		sim.onFrame = func(f agwFrame) bool {
			if f.Kind != 'R' {
				return false
			}
			go sim.sendPieces([][]byte{agwFrame{Kind: 'R', Data: []byte{1, 2, 3}}.bytes()})
			return true
		}
		tnc := agwpe.VerifNewTNC(h)
		sim.start()
		_, err := tnc.Version()
		fmt.Println("Version:", err)
	case "data-before-connect", "disconnect-unknown":
		_, p, err := reg(0)
		fmt.Println("RegisterPort:", err)
		k := byte('D')
		if name == "disconnect-unknown" {
			k = 'd'
		}
		sim.sendPieces([][]byte{agwFrame{Port: 0, Kind: k, PID: 0xf0, From: call10("LA1B"), To: call10("LA5NTA"), Data: []byte("early")}.bytes()})
		time.Sleep(20 * time.Millisecond)
		cn, err := dial(p)
		fmt.Println("Dial:", err)
		if err == nil {
			fmt.Println("Close:", cn.Close())
		}
	case "inbound-nobody-accepting":
		_, p, err := reg(0)
		fmt.Println("RegisterPort:", err)
		sim.sendPieces([][]byte{agwFrame{Port: 0, Kind: 'C', From: call10("LA1B"), To: call10("LA5NTA"), Data: []byte("*** CONNECTED To Station LA5NTA\r")}.bytes()})
		time.Sleep(100 * time.Millisecond)
		fmt.Println("Port.Close:", p.Close())
	case "close-mid-write":
		sim.noReply['Y'] = true
		_, p, err := reg(0)
		fmt.Println("RegisterPort:", err)
		cn, err := dial(p)
		fmt.Println("Dial:", err)
		go func() { time.Sleep(50 * time.Millisecond); s.Close() }()
		_, err = cn.Write([]byte("hello"))
		fmt.Println("Write:", err)
		_, err = cn.Read(make([]byte, 10))
		fmt.Println("Read:", err)
		fmt.Println("Close:", cn.Close())
	case "connect-reply-other-station":
		sim.onFrame = func(f agwFrame) bool {
			if f.Kind != 'C' {
				return false
			}
			go sim.sendPieces([][]byte{agwFrame{Port: f.Port, Kind: 'C', From: call10("OTHER"), To: call10("ELSE"), Data: []byte("*** CONNECTED With Station OTHER\r")}.bytes()})
			return true
		}
		_, p, err := reg(0)
		fmt.Println("RegisterPort:", err)
		_, err = dial(p) // context expires; the library sends 'd', the sim answers 'd'
		fmt.Println("Dial:", err)
	case "close-mid-dial":
		sim.noReply['C'] = true
		_, p, err := reg(0)
		fmt.Println("RegisterPort:", err)
		go func() { time.Sleep(50 * time.Millisecond); s.Close() }()
		_, err = dial(p)
		fmt.Println("Dial:", err)
		time.Sleep(600 * time.Millisecond) // let the context-cancellation goroutine run
	case "random-frames":
		_, p, err := reg(0)
		fmt.Println("RegisterPort:", err)
		cn, err := dial(p)
		fmt.Println("Dial:", err)
		rng := rand.New(rand.NewSource(seed))
		ctx := &Ctx{Rng: rng}
		for i := 0; i < 200; i++ {
			f := c13RandFrame(ctx, 30)
			if rng.Intn(2) == 0 {
				f.Port, f.From, f.To = 0, call10("LA1B"), call10("LA5NTA")
			}
			if f.Kind == 'd' || (f.Kind == 'C' && rng.Intn(2) == 0) {
				f.Kind = 'Z'
			}
			sim.sendPieces([][]byte{f.bytes()})
			if i%10 == 0 {
				s.waitHostIdle(time.Second)
			}
		}
		cn.SetReadDeadline(time.Now().Add(100 * time.Millisecond))
		for {
			if _, err := cn.Read(make([]byte, 16)); err != nil {
				break
			}
		}
		fmt.Println("Close:", cn.Close())
	case "dial-answered-connected-to":
		// the TNC answers an outgoing connect with the banner of an INCOMING connection: the dial fails its
		// precondition and the same frame starts the inbound path while the port is being closed
		sim.dialData = []byte("*** CONNECTED To Station LA1B\r")
		_, p, err := reg(0)
		fmt.Println("RegisterPort:", err)
		_, err = dial(p)
		fmt.Println("Dial:", err)
		fmt.Println("Port.Close:", p.Close())
		time.Sleep(100 * time.Millisecond)
	case "inbound-racing-port-close":
		// 40 trials: an inbound connect frame arrives while the application closes the port
		for i := 0; i < 40; i++ {
			sim = newSimTNC()
			h, s = newChunkPipe()
			sim.attachChunk(s)
			tnc, p, err := reg(0)
			if err != nil {
				fmt.Println("RegisterPort:", err)
				continue
			}
			f := agwFrame{Port: 0, Kind: 'C', From: call10("LA1B"), To: call10("LA5NTA"), Data: []byte("*** CONNECTED To Station LA5NTA\r")}
			go sim.sendPieces([][]byte{f.bytes()})
			time.Sleep(time.Duration(i%8) * 50 * time.Microsecond)
			p.Close()
			tnc.Close()
		}
		time.Sleep(200 * time.Millisecond)
	case "dial-port-7", "close-port-7":
		_, p, err := reg(7)
		fmt.Println("RegisterPort:", err)
		cn, err := dial(p)
		fmt.Println("Dial:", err)
		if err == nil {
			fmt.Println("Close:", cn.Close())
		}
		fmt.Println("SendUI:", p.SendUI([]byte("hi"), "CQ"))
		fmt.Println("Port.Close:", p.Close())
	default:
		fmt.Println("unknown scenario")
		os.Exit(3)
	}
	fmt.Println("SCENARIO-DONE")
}

func c13Robustness(c *Ctx) {
	exe, err := os.Executable()
	if err != nil {
		c.Note("robustness scenarios skipped: %v", err)
		return
	}
	type res struct {
		name string
		out  string
		err  error
		ms   int64
	}
	ch := make(chan res, len(c13ChildScenarios))
	for _, name := range c13ChildScenarios {
		go func(name string) {
			ctx, cancel := context.WithTimeout(context.Background(), 20*time.Second)
			defer cancel()
			cmd := exec.CommandContext(ctx, exe)
			cmd.Env = append(os.Environ(), "VERIF_C13_CHILD="+name, fmt.Sprintf("VERIF_C13_SEED=%d", c.Seed))
			t0 := time.Now()
			b, err := cmd.CombinedOutput()
			ch <- res{name, string(b), err, time.Since(t0).Milliseconds()}
		}(name)
	}
	results := map[string]res{}
	for range c13ChildScenarios {
		r := <-ch
		results[r.name] = r
	}
	for _, name := range c13ChildScenarios {
		r := results[name]
		if r.ms > 3000 {
			c.Note("robustness scenario %s took %d ms", name, r.ms)
		}
		c.Res.Evaluations++
		c.Res.Distribution["robustness-child"]++
		if strings.Contains(r.out, "TNC-GOT-DISCONNECT: false") {
			c.Violate("C13:close-without-disconnect:"+r.name, "Close returned without sending the disconnect ('d') frame to the TNC: the AX.25 link stays up", map[string]interface{}{"scenario": r.name, "output": trunc(r.out, 1500)})
		}
		if r.err != nil || !strings.Contains(r.out, "SCENARIO-DONE") {
			what := "process did not finish the scenario"
			if i := strings.Index(r.out, "panic:"); i >= 0 {
				what = "process crashed: " + strings.SplitN(r.out[i:], "\n", 2)[0]
			} else if strings.Contains(r.out, "fatal error:") {
				what = "process crashed: " + strings.SplitN(r.out[strings.Index(r.out, "fatal error:"):], "\n", 2)[0]
			} else if r.err != nil {
				what += " (" + r.err.Error() + ", timeout 20 s)"
			}
			c.Violate("C13:crash:"+name, "TNC behaviour '"+name+"': "+what, map[string]interface{}{"scenario": name, "output": trunc(r.out, 3000), "how": "VERIF_C13_CHILD=" + name + " .build/bin/corr"})
		}
	}
}

// c13Replay re-runs the input of a replay file written by ./check (kinds: session script, child scenario,
// chunk list for the read loop, payloads + buffer sizes for Conn.Read). Exit code 1 if it still fails.
func c13Replay(c *Ctx, path string) {
	var rep struct {
		Key  string                 `json:"key"`
		What string                 `json:"what"`
		Case map[string]interface{} `json:"case"`
	}
	b, err := os.ReadFile(path)
	if err != nil || json.Unmarshal(b, &rep) != nil {
		fmt.Println("cannot read replay file", path)
		os.Exit(2)
	}
	fmt.Printf("replaying %s: %s\n", rep.Key, rep.What)
	hexes := func(v interface{}) [][]byte {
		s, _ := v.(string)
		var out [][]byte
		if s == "" || s == "_" {
			return nil
		}
		for _, x := range strings.Split(s, ",") {
			if x == "-" {
				out = append(out, nil)
				continue
			}
			d, err := hex.DecodeString(x)
			if err != nil {
				fmt.Println("replay input was truncated in the file; run the whole check with the same seed instead")
				os.Exit(2)
			}
			out = append(out, d)
		}
		return out
	}
	switch {
	case rep.Case["script"] != nil:
		var sc sessScript
		jb, _ := json.Marshal(rep.Case["script"])
		json.Unmarshal(jb, &sc)
		out := runSession(sc)
		fmt.Println("results:", strings.Join(out.Results, ";"))
		for i, f := range out.Trace {
			fmt.Printf("TNC received %d: %s\n", i, trunc(f.show(), 200))
		}
		fmt.Printf("Read returned %d bytes, expected %d\n", len(out.Read), len(out.Expected))
		sessionOracle(c, sc, out, "")
	case rep.Case["scenario"] != nil:
		name, _ := rep.Case["scenario"].(string)
		exe, _ := os.Executable()
		cmd := exec.Command(exe)
		cmd.Env = append(os.Environ(), "VERIF_C13_CHILD="+name, fmt.Sprintf("VERIF_C13_SEED=%d", c.Seed))
		ob, err := cmd.CombinedOutput()
		fmt.Println(string(ob))
		if err != nil || !strings.Contains(string(ob), "SCENARIO-DONE") {
			c.Violate("C13:crash:"+name, "scenario did not finish", nil)
		}
	case rep.Case["chunks"] != nil:
		chunks := hexes(rep.Case["chunks"])
		frames, end, alloc, pan := implDecode(chunks)
		fmt.Printf("read loop over chunk lengths %v: %d frames, end=%s, alloc=%d, panic=%v\n", chunkLens(chunks), len(frames), end, alloc, pan)
		for _, f := range frames {
			fmt.Println("  ", trunc(showVerifFrame(f), 200))
		}
		if pan != nil || strings.Contains(rep.Key, "stream-reassembly") && end != "eof" {
			c.Violate(rep.Key, "still fails", nil)
		}
	case rep.Case["payloads"] != nil:
		payloads := hexes(rep.Case["payloads"])
		var sizes []int
		if xs, ok := rep.Case["buffer_sizes"].([]interface{}); ok {
			for _, x := range xs {
				if f, ok := x.(float64); ok {
					sizes = append(sizes, int(f))
				}
			}
		}
		conn := agwpe.VerifConnWithFrames(payloads)
		var got []byte
		func() {
			defer func() {
				if r := recover(); r != nil {
					fmt.Println("panic:", r)
					c.Violate(rep.Key, "panic", nil)
				}
			}()
			for _, sz := range sizes {
				buf := make([]byte, sz)
				n, err := conn.Read(buf)
				fmt.Printf("Read(%d) = %d, %v\n", sz, n, err)
				got = append(got, buf[:n]...)
				if err != nil {
					break
				}
			}
		}()
		if !bytes.HasPrefix(bytes.Join(payloads, nil), got) {
			c.Violate(rep.Key, "bytes returned are not a prefix of the payloads", nil)
		}
	default:
		fmt.Println("this replay kind has no single-case runner; run ./check C13 with the same VERIF_SEED")
		os.Exit(2)
	}
	if len(c.Res.Violations) > 0 {
		for _, v := range c.Res.Violations {
			fmt.Println("STILL FAILS:", v.Key, v.What)
		}
		os.Exit(1)
	}
	fmt.Println("does not fail (any more)")
}

func init() {
	if name := os.Getenv("VERIF_C13_CHILD"); name == "sessions" {
		c13SessionChild()
		os.Exit(0)
	} else if name != "" {
		var seed int64 = 1
		fmt.Sscan(os.Getenv("VERIF_C13_SEED"), &seed)
		c13RunChildScenario(name, seed)
		os.Exit(0)
	}
	register("C13", "cases: (a) frame.WriteTo / every frame constructor on random ports, callsigns (1..14 chars), payloads (0..300 bytes incl. NUL) against the model and an independent encoder; (b) the TNC read loop over exact chunk lists: every 1-cut and (every 3rd) 2-cut split of a three-frame stream, bytewise, random frame sequences (0..2000-byte data) with 0..7 random cuts biased to mid-header / header-data boundary / tail, plus a malformed stream (truncations, random bytes, trailing garbage, DataLen beyond the input); (c) framesFilter.Want on random filters and frames; (d) Conn.Read on preloaded frame queues with buffer sizes {1,7,255,256,4096}, mixed and random 0..39; (e) whole sessions against a simulated TNC (every third over loopback TCP, the rest over an exact-chunk in-memory link): registration (MAXFRAME 0..63, short/long capability answers, refused/odd X answers), dial with 0..2 digipeaters / refused / wrong banner, inbound accept, writes (0..3000 bytes) with scripted outstanding-frame answers incl. forced polling, TNC data frames (0..1500 bytes) cut at 0..3 places each, interleaved frames for other ports/stations/kinds (also between a request and the TNC's answer), reads with all buffer sizes and reader delays, flush, close, remote disconnect; replies of the TNC cut at random places; (f) oracle-only: slow reader, header announcing 64 MiB, 20 malformed/unexpected-TNC scenarios in child processes. Non-trivial: multi-chunk inputs, frames larger than the buffer, non-zero ports, sessions that move data; distinct by case line.", func(c *Ctx) {
		if c.Tier == "replay" && len(os.Args) > 6 {
			c13Replay(c, os.Args[6])
			return
		}
		t0 := time.Now()
		phase := func(name string) {
			if d := time.Since(t0); d > 2*time.Second || os.Getenv("VERIF_C13_DEBUG") != "" {
				c.Note("phase %s took %.1f s", name, d.Seconds())
			}
			t0 = time.Now()
		}
		st := c13Stream(c)
		c.Compare(append(st[len(st)/2:], st[:len(st)/2]...)) // random/malformed first: they feed the evidence samples
		c.Compare(c13ConnRead(c))
		c.Compare(c13Codec(c))
		c.Compare(c13Filter(c))
		phase("pure")
		c13Robustness(c)
		phase("robustness")
		c13Alloc(c)
		phase("alloc")
		c.Compare(c13SlowReader(c))
		phase("slow-reader")
		c13WriteStall(c)
		phase("write-stall")
		c.Compare(c13Sessions(c))
		phase("sessions")
	})
}
