package main

// C11 - "The mailbox survives a crash at any point".
//
// For every scenario (pre-history, one mutating operation) the operation is run in a re-exec'ed child
// under strace. The observed sequence of file-system system calls (the script) is the operation's
// denotation; every crash state of that script (before/after each call, after every proper prefix of
// each write) is materialised as a real directory, the REAL recovery path (NewDirHandler, Prepare,
// the four listings, GetInboundAnswer, GetOutbound) is run on it, and the result is judged
//   (a) by the property's own clauses (independent of the model), and
//   (b) against the Lean crash model evaluated on the same observed script (driver op crashcheck).

import (
	"bytes"
	"encoding/hex"
	"encoding/json"
	"fmt"
	"os"
	"os/exec"
	"path"
	"path/filepath"
	"sort"
	"strconv"
	"strings"
	"syscall"
	"time"

	"github.com/la5nta/wl2k-go/fbb"
)

// Child mode: run exactly one operation on an existing mailbox directory (no Prepare) and print its result.
func init() {
	if os.Getenv("VERIF_MBOX_CHILD") == "op" {
		var op mOp
		if err := json.Unmarshal([]byte(os.Getenv("VERIF_MBOX_OP")), &op); err != nil {
			fmt.Print("child-bad-op")
			os.Exit(4)
		}
		rb := newRealBox(os.Getenv("VERIF_MBOX_ROOT"), false)
		res := rb.exec(op)
		fmt.Print(res)
		os.Exit(0)
	}
}

// ---------- observed system calls ----------

type c11Sys struct {
	K    byte   // o w c r u ; x = a mutating call the crash model does not know
	P, Q string // real absolute paths (Q: rename target)
	N    int    // w: bytes written
	X    string // x: description
}

func (s c11Sys) tok() string {
	switch s.K {
	case 'o', 'c', 'u', 'k':
		return string(s.K) + ":" + hs(mboxCanon(s.P))
	case 'w':
		return "w:" + hs(mboxCanon(s.P)) + ":" + strconv.Itoa(s.N)
	case 'r':
		return "r:" + hs(mboxCanon(s.P)) + ":" + hs(mboxCanon(s.Q))
	}
	return "x:" + hs(s.X)
}

func (s c11Sys) String() string {
	switch s.K {
	case 'o':
		return "open(create/truncate) " + mboxCanon(s.P)
	case 'k':
		return "open(create, KEEP existing content) " + mboxCanon(s.P)
	case 'w':
		return fmt.Sprintf("write %d bytes to %s", s.N, mboxCanon(s.P))
	case 'c':
		return "close " + mboxCanon(s.P)
	case 'r':
		return "rename " + mboxCanon(s.P) + " -> " + mboxCanon(s.Q)
	case 'u':
		return "unlink " + mboxCanon(s.P)
	}
	return "UNMODELLED " + mboxCanon(s.X)
}

func c11ScriptToks(l []c11Sys) []string {
	t := make([]string, len(l))
	for i, s := range l {
		t[i] = s.tok()
	}
	return t
}

func c11ScriptDesc(l []c11Sys) []string {
	t := make([]string, len(l))
	for i, s := range l {
		t[i] = fmt.Sprintf("%d: %s", i, s.String())
	}
	return t
}

// c11SplitCall splits "name(arg, arg, …) = ret …" (strings and nested brackets respected).
func c11SplitCall(s string) (name string, args []string, ret string, ok bool) {
	i := strings.IndexByte(s, '(')
	if i <= 0 {
		return
	}
	name = s[:i]
	for _, ch := range name {
		if !(ch == '_' || (ch >= 'a' && ch <= 'z') || (ch >= '0' && ch <= '9')) {
			return "", nil, "", false
		}
	}
	depth, inq, start, end := 0, false, i+1, -1
scan:
	for j := i; j < len(s); j++ {
		ch := s[j]
		if inq {
			if ch == '\\' {
				j++
			} else if ch == '"' {
				inq = false
			}
			continue
		}
		switch ch {
		case '"':
			inq = true
		case '(', '[', '{':
			depth++
		case ')', ']', '}':
			depth--
			if depth == 0 {
				if a := strings.TrimSpace(s[start:j]); a != "" || len(args) > 0 {
					args = append(args, a)
				}
				end = j
				break scan
			}
		case ',':
			if depth == 1 {
				args = append(args, strings.TrimSpace(s[start:j]))
				start = j + 1
			}
		}
	}
	if end < 0 {
		return "", nil, "", false
	}
	rest := strings.TrimSpace(s[end+1:])
	if !strings.HasPrefix(rest, "=") {
		return "", nil, "", false
	}
	f := strings.Fields(rest[1:])
	if len(f) == 0 {
		return "", nil, "", false
	}
	return name, args, f[0], true
}

// c11Unquote decodes a C-style quoted strace string argument (a trailing "..." is ignored).
func c11Unquote(a string) (string, bool) {
	if len(a) < 2 || a[0] != '"' {
		return "", false
	}
	var b []byte
	for i := 1; i < len(a); i++ {
		ch := a[i]
		if ch == '"' {
			return string(b), true
		}
		if ch != '\\' {
			b = append(b, ch)
			continue
		}
		i++
		if i >= len(a) {
			return "", false
		}
		switch a[i] {
		case 'n':
			b = append(b, '\n')
		case 't':
			b = append(b, '\t')
		case 'r':
			b = append(b, '\r')
		case 'v':
			b = append(b, '\v')
		case 'f':
			b = append(b, '\f')
		case 'x':
			if i+2 >= len(a) {
				return "", false
			}
			v, err := strconv.ParseUint(a[i+1:i+3], 16, 8)
			if err != nil {
				return "", false
			}
			b = append(b, byte(v))
			i += 2
		case '0', '1', '2', '3', '4', '5', '6', '7':
			v, n := 0, 0
			for n < 3 && i+n < len(a) && a[i+n] >= '0' && a[i+n] <= '7' {
				v = v*8 + int(a[i+n]-'0')
				n++
			}
			b = append(b, byte(v))
			i += n - 1
		default:
			b = append(b, a[i])
		}
	}
	return "", false
}

type c11Trace struct {
	script   []c11Sys
	excerpt  []string // the trace lines that concern the mailbox directory (canonicalised)
	unparsed int      // lines that could not be parsed (other than signal/exit lines)
}

// c11ParseTrace turns strace output into the script of mutating calls under root.
func c11ParseTrace(trace, root, cwd string) c11Trace {
	var tr c11Trace
	root = path.Clean(root)
	under := func(p string) bool { return p == root || strings.HasPrefix(p, root+"/") }
	wfd := map[int]string{}   // fds open for writing on files under root
	anyfd := map[int]string{} // every fd opened with a resolvable path (for *at calls relative to a directory fd)
	pending := map[string]string{}
	resolve := func(dfd, quoted string) (string, bool) {
		p, ok := c11Unquote(quoted)
		if !ok {
			return "", false
		}
		if strings.HasPrefix(p, "/") {
			return path.Clean(p), true
		}
		if dfd == "AT_FDCWD" {
			return path.Join(cwd, p), true
		}
		if n, err := strconv.Atoi(dfd); err == nil {
			if d, ok := anyfd[n]; ok {
				return path.Join(d, p), true
			}
		}
		return "", false
	}
	emit := func(line string, s c11Sys) {
		tr.script = append(tr.script, s)
		tr.excerpt = append(tr.excerpt, mboxCanon(line))
	}
	other := func(line, what string) { emit(line, c11Sys{K: 'x', X: what}) }
	for _, raw := range strings.Split(trace, "\n") {
		line := strings.TrimSpace(raw)
		if line == "" {
			continue
		}
		pid, rest := "", line
		if sp := strings.IndexAny(line, " \t"); sp > 0 {
			if _, err := strconv.Atoi(line[:sp]); err == nil {
				pid, rest = line[:sp], strings.TrimSpace(line[sp:])
			}
		}
		if strings.HasPrefix(rest, "+++") || strings.HasPrefix(rest, "---") {
			continue
		}
		if strings.HasSuffix(rest, "<unfinished ...>") {
			pending[pid] = strings.TrimSuffix(rest, "<unfinished ...>")
			continue
		}
		if strings.HasPrefix(rest, "<... ") {
			j := strings.Index(rest, " resumed>")
			pre, ok := pending[pid]
			if j < 0 || !ok {
				tr.unparsed++
				continue
			}
			delete(pending, pid)
			rest = pre + rest[j+len(" resumed>"):]
		}
		name, a, ret, ok := c11SplitCall(rest)
		if !ok {
			tr.unparsed++
			continue
		}
		rv, err := strconv.Atoi(ret)
		if err != nil || rv < 0 {
			continue // failed call (or unknown result): no effect
		}
		bad := func() { tr.unparsed++ }
		switch name {
		case "open", "openat", "creat":
			var p, flags string
			var ok bool
			switch {
			case name == "open" && len(a) >= 2:
				p, ok = resolve("AT_FDCWD", a[0])
				flags = a[1]
			case name == "openat" && len(a) >= 3:
				p, ok = resolve(a[0], a[1])
				flags = a[2]
			case name == "creat" && len(a) >= 1:
				p, ok = resolve("AT_FDCWD", a[0])
				flags = "O_WRONLY|O_CREAT|O_TRUNC"
			}
			if !ok {
				bad()
				continue
			}
			anyfd[rv] = p
			delete(wfd, rv)
			fl := map[string]bool{}
			for _, f := range strings.Split(flags, "|") {
				fl[f] = true
			}
			if !under(p) || !(fl["O_WRONLY"] || fl["O_RDWR"] || fl["O_CREAT"] || fl["O_TRUNC"] || fl["O_APPEND"]) {
				continue
			}
			wfd[rv] = p
			if (fl["O_WRONLY"] || fl["O_RDWR"]) && fl["O_CREAT"] && (fl["O_TRUNC"] || fl["O_EXCL"]) && !fl["O_APPEND"] && !fl["O_DIRECTORY"] && !fl["O_TMPFILE"] {
				emit(line, c11Sys{K: 'o', P: p})
			} else if (fl["O_WRONLY"] || fl["O_RDWR"]) && fl["O_CREAT"] && !fl["O_APPEND"] && !fl["O_DIRECTORY"] && !fl["O_TMPFILE"] {
				// no truncation: whatever an earlier (crashed) run left in the file beyond the new bytes stays
				emit(line, c11Sys{K: 'k', P: p})
			} else {
				other(line, "open("+flags+") "+p)
			}
		case "write", "writev", "pwrite64":
			if len(a) < 1 {
				bad()
				continue
			}
			fd, err := strconv.Atoi(a[0])
			if err != nil {
				bad()
				continue
			}
			p, tracked := wfd[fd]
			if !tracked || rv == 0 {
				continue
			}
			if name == "pwrite64" {
				other(line, "pwrite64 "+p)
			} else {
				emit(line, c11Sys{K: 'w', P: p, N: rv})
			}
		case "close":
			if len(a) < 1 {
				bad()
				continue
			}
			fd, err := strconv.Atoi(a[0])
			if err != nil {
				bad()
				continue
			}
			delete(anyfd, fd)
			if p, tracked := wfd[fd]; tracked {
				delete(wfd, fd)
				emit(line, c11Sys{K: 'c', P: p})
			}
		case "rename", "renameat", "renameat2", "link", "linkat":
			var from, to string
			var ok1, ok2 bool
			flags := "0"
			switch {
			case (name == "rename" || name == "link") && len(a) >= 2:
				from, ok1 = resolve("AT_FDCWD", a[0])
				to, ok2 = resolve("AT_FDCWD", a[1])
			case name != "rename" && name != "link" && len(a) >= 4:
				from, ok1 = resolve(a[0], a[1])
				to, ok2 = resolve(a[2], a[3])
				if len(a) >= 5 {
					flags = a[4]
				}
			}
			if !ok1 || !ok2 {
				bad()
				continue
			}
			if !under(from) && !under(to) {
				continue
			}
			if strings.HasPrefix(name, "rename") && flags == "0" {
				emit(line, c11Sys{K: 'r', P: from, Q: to})
			} else {
				other(line, name+"("+flags+") "+from+" "+to)
			}
		case "unlink", "unlinkat", "rmdir":
			var p string
			var ok bool
			flags := "0"
			switch {
			case name != "unlinkat" && len(a) >= 1:
				p, ok = resolve("AT_FDCWD", a[0])
			case name == "unlinkat" && len(a) >= 2:
				p, ok = resolve(a[0], a[1])
				if len(a) >= 3 {
					flags = a[2]
				}
			}
			if !ok {
				bad()
				continue
			}
			if !under(p) {
				continue
			}
			if name != "rmdir" && flags == "0" {
				emit(line, c11Sys{K: 'u', P: p})
			} else {
				other(line, name+"("+flags+") "+p)
			}
		case "mkdir", "mkdirat", "truncate", "symlink", "symlinkat":
			var p string
			var ok bool
			switch {
			case (name == "mkdir" || name == "truncate") && len(a) >= 1:
				p, ok = resolve("AT_FDCWD", a[0])
			case name == "mkdirat" && len(a) >= 2:
				p, ok = resolve(a[0], a[1])
			case name == "symlink" && len(a) >= 2:
				p, ok = resolve("AT_FDCWD", a[1])
			case name == "symlinkat" && len(a) >= 3:
				p, ok = resolve(a[1], a[2])
			}
			if !ok {
				bad()
				continue
			}
			if under(p) {
				other(line, name+" "+p)
			}
		case "ftruncate":
			if len(a) < 1 {
				bad()
				continue
			}
			if fd, err := strconv.Atoi(a[0]); err == nil {
				if p, tracked := wfd[fd]; tracked {
					other(line, "ftruncate "+p)
				}
			}
		}
	}
	tr.unparsed += len(pending)
	return tr
}

// ---------- shape of a script (re-implementation of Lean Ops.Mbox.shape) ----------

func c11VisibleName(n string) bool {
	return !strings.HasPrefix(n, ".") && strings.EqualFold(filepath.Ext(n), ".b2f")
}

func c11Shape(l []c11Sys) string {
	if len(l) == 0 {
		return "none"
	}
	if len(l) == 1 && l[0].K == 'r' {
		return "rename"
	}
	if l[0].K != 'o' {
		return "other"
	}
	t := l[0].P
	rest := l[1:]
	nw := 0
	for nw < len(rest) && rest[nw].K == 'w' {
		nw++
	}
	wsOk := nw > 0
	for _, w := range rest[:nw] {
		wsOk = wsOk && w.P == t
	}
	tail := rest[nw:]
	switch {
	case len(tail) == 1 && tail[0].K == 'c':
		if wsOk && tail[0].P == t && c11VisibleName(path.Base(t)) {
			return "direct"
		}
	case len(tail) == 2 && tail[0].K == 'c' && tail[1].K == 'r':
		if wsOk && tail[0].P == t && tail[1].P == t && path.Dir(t) == path.Dir(tail[1].Q) && !c11VisibleName(path.Base(t)) && c11VisibleName(path.Base(tail[1].Q)) {
			return "atomic"
		}
	}
	return "other"
}

// ---------- directory snapshots ----------

type c11File struct {
	rel  string
	dir  bool
	mode os.FileMode
	data []byte
}

type c11Snap []c11File // in walk order: a directory precedes its entries

func c11TakeSnap(root string) c11Snap {
	var s c11Snap
	filepath.Walk(root, func(p string, fi os.FileInfo, err error) error {
		if err != nil {
			return nil
		}
		rel, _ := filepath.Rel(root, p)
		switch {
		case fi.IsDir():
			s = append(s, c11File{rel: rel, dir: true, mode: fi.Mode().Perm()})
		case fi.Mode().IsRegular():
			b, _ := os.ReadFile(p)
			s = append(s, c11File{rel: rel, mode: fi.Mode().Perm(), data: b})
		}
		return nil
	})
	return s
}

func (s c11Snap) files() map[string]string {
	m := map[string]string{}
	for _, f := range s {
		if !f.dir {
			m[f.rel] = string(f.data)
		}
	}
	return m
}

// materialise makes the tree at root equal to the snapshot (states always live at the same path:
// X-FilePath headers are absolute). Whatever the previous state, its script steps and the recovery run
// left behind is removed; entries that already are as in the snapshot (same type, mode and content) are
// left alone - wiping and re-creating the whole tree for every crash state costs 5x the time.
func (s c11Snap) materialise(root string) error {
	want := make(map[string]*c11File, len(s))
	for i := range s {
		want[s[i].rel] = &s[i]
	}
	same := map[string]bool{}
	var werr error
	filepath.Walk(root, func(p string, fi os.FileInfo, err error) error {
		if err != nil {
			if p != root && werr == nil {
				werr = err
			}
			return nil
		}
		rel, _ := filepath.Rel(root, p)
		w, ok := want[rel]
		switch {
		case ok && w.dir && fi.IsDir():
			if fi.Mode().Perm() != w.mode {
				os.Chmod(p, w.mode)
			}
			same[rel] = true
		case ok && !w.dir && fi.Mode().IsRegular() && fi.Mode().Perm() == w.mode && fi.Size() == int64(len(w.data)):
			if b, err := os.ReadFile(p); err == nil && bytes.Equal(b, w.data) {
				same[rel] = true
				return nil
			}
			os.Remove(p)
		default:
			if err := os.RemoveAll(p); err != nil && werr == nil {
				werr = err
			}
			if fi.IsDir() {
				return filepath.SkipDir
			}
		}
		return nil
	})
	if werr != nil {
		return werr
	}
	for _, f := range s {
		if same[f.rel] {
			continue
		}
		t := filepath.Join(root, f.rel)
		if f.dir {
			if err := os.MkdirAll(t, 0o755); err != nil {
				return err
			}
			os.Chmod(t, f.mode)
			continue
		}
		if err := os.WriteFile(t, f.data, f.mode); err != nil {
			return err
		}
		os.Chmod(t, f.mode)
	}
	return nil
}

// ---------- views: what the restarted real mailbox reports ----------

type c11View struct {
	prep string    // result of Prepare
	fold [4]string // listings of inbox, outbox, sent, archive ("err" = fails to load)
	ans  []string  // GetInboundAnswer per MID of the universe
	out  string
}

var c11Folders = [4]byte{'i', 'o', 's', 'a'}
var c11FolderNames = [4]string{"inbox", "outbox", "sent", "archive"}

func c11TakeView(root string, mids []string) c11View {
	var v c11View
	rb := newRealBox(root, false) // a fresh handler: the restart
	v.prep = rb.exec(mOp{K: 'P'})
	for i, f := range c11Folders {
		v.fold[i] = rb.exec(mOp{K: 'L', F: f})
	}
	for _, m := range mids {
		v.ans = append(v.ans, rb.exec(mOp{K: 'Q', Mid: m}))
	}
	v.out = rb.exec(mOp{K: 'O'})
	return v
}

func (v c11View) String() string {
	var t []string
	if v.prep != "ok" {
		t = append(t, "prepare-"+v.prep)
	}
	t = append(t, v.fold[:]...)
	t = append(t, v.ans...)
	t = append(t, v.out)
	return strings.Join(t, " ")
}

func (v c11View) panicked() bool {
	p := v.prep == "panic" || v.out == "panic"
	for _, f := range v.fold {
		p = p || f == "panic"
	}
	for _, a := range v.ans {
		p = p || a == "panic"
	}
	return p
}

type c11Listing struct {
	ok   bool
	toks map[string]string // hex MID -> message token
}

func c11ParseListing(s string) c11Listing {
	l := c11Listing{toks: map[string]string{}}
	if !strings.HasPrefix(s, "[") || !strings.HasSuffix(s, "]") {
		return l
	}
	l.ok = true
	body := s[1 : len(s)-1]
	if body == "" {
		return l
	}
	for _, t := range strings.Split(body, "|") {
		mid := t
		if i := strings.IndexByte(t, ','); i >= 0 {
			mid = t[:i]
		}
		l.toks[mid] = t
	}
	return l
}

func (l c11Listing) mids() []string {
	var k []string
	for m := range l.toks {
		k = append(k, m)
	}
	sort.Strings(k)
	return k
}

func c11Unhex(h string) string {
	if h == "-" {
		return ""
	}
	b, err := hex.DecodeString(h)
	if err != nil {
		return h
	}
	return string(b)
}

// ---------- one scenario ----------

type c11Scn struct {
	kind string
	pre  []mOp
	op   mOp
	// stale: files (relative to the mailbox root) that an earlier crashed run left behind, planted into the
	// pre-state with a content longer than any message
	stale []string
}

var c11OpKind = map[byte]string{'I': "ProcessInbound", 'A': "AddOut", 'S': "SetSent", 'U': "SetUnread"}

type c11Env struct {
	c     *Ctx
	base  string
	n     int
	cases []Case

	states, notGood, neitherButOK, applyErrs, strideWrites, unparsed, mixedNotes int
	maxWrite                                                                     int
	scripts                                                                      map[string]string // op kind + shape -> one readable script
	shapes                                                                       map[string]int
}

func c11Universe(pre []mOp, op mOp) []string {
	set := map[string]bool{}
	for _, o := range append(append([]mOp{}, pre...), op) {
		for _, m := range o.Msgs {
			set[m.Mid] = true
		}
		switch o.K {
		case 'Q', 'S', 'D', 'U', 'R':
			set[o.Mid] = true
		}
	}
	var l []string
	for m := range set {
		l = append(l, m)
	}
	sort.Strings(l)
	// proposals for messages that were never stored and never can be: the remote chooses the MID, and "<MID>.b2f"
	// of 252 bytes and more is not a file name (ENAMETOOLONG) - the look-up fails with something else than "not found"
	l = append(l, strings.Repeat("L", 252), strings.Repeat("M", 300))
	return l
}

// c11SelfExe is the absolute path of this binary (the child runs in another working directory).
func c11SelfExe() string {
	if p, err := os.Executable(); err == nil {
		return p
	}
	p, _ := filepath.Abs(os.Args[0])
	return p
}

// runChild runs op in a child under strace on the directory root. It returns the child's result token
// and the raw trace.
func (e *c11Env) runChild(dir, root string, op mOp) (res, trace string, err error) {
	opj, err := json.Marshal(op)
	if err != nil {
		return "", "", err
	}
	tf := filepath.Join(dir, "trace.txt")
	os.Remove(tf)
	cmd := exec.Command("strace", "-f", "-qq", "-s", "0", "-e",
		"trace=openat,open,creat,write,pwrite64,writev,close,rename,renameat,renameat2,unlink,unlinkat,rmdir,mkdir,mkdirat,ftruncate,truncate,link,linkat,symlink,symlinkat",
		"-o", tf, c11SelfExe())
	cmd.Env = append(os.Environ(), "VERIF_MBOX_CHILD=op", "VERIF_MBOX_ROOT="+root, "VERIF_MBOX_OP="+string(opj), "GOMAXPROCS=1")
	cmd.Dir = dir
	cmd.SysProcAttr = &syscall.SysProcAttr{Setpgid: true}
	var out bytes.Buffer
	cmd.Stdout = &out
	if err := cmd.Start(); err != nil {
		return "", "", err
	}
	done := make(chan error, 1)
	go func() { done <- cmd.Wait() }()
	select {
	case err = <-done:
	case <-time.After(20 * time.Second):
		syscall.Kill(-cmd.Process.Pid, syscall.SIGKILL)
		cmd.Process.Kill()
		<-done
		return "", "", fmt.Errorf("child timed out")
	}
	if err != nil {
		return out.String(), "", fmt.Errorf("child: %v", err)
	}
	b, rerr := os.ReadFile(tf)
	if rerr != nil {
		return out.String(), "", rerr
	}
	return out.String(), string(b), nil
}

// writeData assigns to every write step of the script the bytes it stored: the content the written
// file finally has in the real post-state (under the name it is later renamed to), in consecutive chunks.
func c11WriteData(script []c11Sys, root string, post map[string]string) (map[int][]byte, bool) {
	data := map[int][]byte{}
	content := map[string][]byte{} // path -> content of the current open instance
	off := map[string]int{}
	exact := true
	for j, s := range script {
		switch s.K {
		case 'o', 'k':
			dest := s.P
			for _, l := range script[j+1:] {
				if (l.K == 'o' || l.K == 'k') && l.P == s.P {
					break
				}
				if l.K == 'r' && l.P == s.P {
					dest = l.Q
					break
				}
			}
			rel, _ := filepath.Rel(root, dest)
			c, ok := post[rel]
			if !ok {
				exact = false
			}
			content[s.P], off[s.P] = []byte(c), 0
		case 'w':
			c, o := content[s.P], off[s.P]
			chunk := make([]byte, s.N)
			if o+s.N <= len(c) {
				copy(chunk, c[o:o+s.N])
			} else {
				exact = false
				for i := range chunk {
					chunk[i] = 'x'
				}
				if o < len(c) {
					copy(chunk, c[o:])
				}
			}
			off[s.P] = o + s.N
			data[j] = chunk
		case 'c':
			if off[s.P] != len(content[s.P]) {
				exact = false
			}
		}
	}
	return data, exact
}

// apply performs one step of the script literally on the materialised directory (k >= 0: only the
// first k bytes of a write).
// c11KeepOff: write offsets of files opened WITHOUT truncation during one replay of a script.
var c11KeepOff = map[string]int{}

func c11Apply(s c11Sys, data []byte, k int) error {
	switch s.K {
	case 'k':
		f, err := os.OpenFile(s.P, os.O_WRONLY|os.O_CREATE, 0o644)
		if err != nil {
			return err
		}
		c11KeepOff[s.P] = 0
		return f.Close()
	case 'o':
		delete(c11KeepOff, s.P)
		f, err := os.OpenFile(s.P, os.O_WRONLY|os.O_CREATE|os.O_TRUNC, 0o644)
		if err != nil {
			return err
		}
		return f.Close()
	case 'w':
		if k >= 0 && k < len(data) {
			data = data[:k]
		}
		if off, keep := c11KeepOff[s.P]; keep {
			f, err := os.OpenFile(s.P, os.O_WRONLY, 0)
			if err != nil {
				return err
			}
			_, err = f.WriteAt(data, int64(off))
			c11KeepOff[s.P] = off + len(data)
			if cerr := f.Close(); err == nil {
				err = cerr
			}
			return err
		}
		f, err := os.OpenFile(s.P, os.O_WRONLY|os.O_APPEND, 0)
		if err != nil {
			return err
		}
		_, err = f.Write(data)
		if cerr := f.Close(); err == nil {
			err = cerr
		}
		return err
	case 'c':
		return nil
	case 'r':
		return os.Rename(s.P, s.Q)
	case 'u':
		return os.Remove(s.P)
	}
	return fmt.Errorf("unmodelled step")
}

func c11PrefixLens(n int) []int {
	if n <= 1 {
		return nil
	}
	var l []int
	if n <= 2048 {
		for k := 1; k < n; k++ {
			l = append(l, k)
		}
		return l
	}
	set := map[int]bool{}
	for _, k := range []int{1, 2, 3, n / 4, n / 2, 3 * n / 4, n - 3, n - 2, n - 1} {
		if k >= 1 && k < n {
			set[k] = true
		}
	}
	for k := 257; k < n; k += 257 {
		set[k] = true
	}
	for k := range set {
		l = append(l, k)
	}
	sort.Ints(l)
	return l
}

func gB(b bool) string {
	if b {
		return "g"
	}
	return "B"
}

func (e *c11Env) run(sc c11Scn) {
	c := e.c
	e.n++
	dir := filepath.Join(e.base, strconv.Itoa(e.n))
	root := filepath.Join(dir, "mbox")
	os.MkdirAll(dir, 0o755)
	defer os.RemoveAll(dir)
	kind := c11OpKind[sc.op.K]
	croot := mboxCanon(root)
	mids := c11Universe(sc.pre, sc.op)
	base := map[string]interface{}{"root": croot, "scenario": sc.kind, "pre": histDesc(sc.pre), "pre_tokens": histToks(sc.pre), "op": sc.op.String(), "op_token": sc.op.tok()}
	with := func(kv ...interface{}) map[string]interface{} {
		m := map[string]interface{}{}
		for k, v := range base {
			m[k] = v
		}
		for i := 0; i+1 < len(kv); i += 2 {
			m[kv[i].(string)] = kv[i+1]
		}
		return m
	}

	// the real pre-state S0
	rb := newRealBox(root, false)
	for _, o := range sc.pre {
		rb.exec(o)
	}
	for _, rel := range sc.stale {
		os.WriteFile(filepath.Join(root, rel), bytes.Repeat([]byte("left over from an earlier crash\r\n"), 300), 0o644)
	}
	s0 := c11TakeSnap(root)
	if err := s0.materialise(root); err != nil { // the work directory W, at the same path
		c.Violate("C11:harness:materialise", err.Error(), with())
		return
	}

	// the operation, in a child under strace: script and real post-state S1
	res, trace, err := e.runChild(dir, root, sc.op)
	if err != nil {
		c.Violate("C11:harness:no-trace", fmt.Sprintf("cannot observe the system calls of %s: %v", sc.op.String(), err), with("child_stdout", res))
		return
	}
	s1 := c11TakeSnap(root)
	tr := c11ParseTrace(trace, root, dir)
	e.unparsed += tr.unparsed
	script := tr.script
	shape := c11Shape(script)
	e.shapes[kind+"-"+shape]++
	if _, ok := e.scripts[kind+"-"+shape]; !ok {
		var d []string
		for _, s := range script {
			d = append(d, strings.ReplaceAll(s.String(), croot+"/", ""))
		}
		e.scripts[kind+"-"+shape] = fmt.Sprintf("%s => %s: [%s]", sc.op.String(), res, strings.Join(d, "; "))
	}
	for _, s := range script {
		if s.K == 'x' {
			c.Violate("C11:unmodelled-syscall", fmt.Sprintf("%s issues a mutating system call the crash model does not know: %s", sc.op.String(), s.String()),
				with("script", c11ScriptDesc(script), "trace", tr.excerpt))
			return
		}
	}

	view := func(s c11Snap, upto int, data map[int][]byte, partial int) (c11View, string) {
		c11KeepOff = map[string]int{}
		if err := s.materialise(root); err != nil {
			e.applyErrs++
		}
		for j := 0; j < upto; j++ {
			if err := c11Apply(script[j], data[j], -1); err != nil {
				e.applyErrs++
			}
		}
		if partial >= 0 {
			if err := c11Apply(script[upto], data[upto], partial); err != nil {
				e.applyErrs++
			}
		}
		v := c11TakeView(root, mids)
		return v, v.String()
	}
	vPre, sPre := view(s0, 0, nil, -1)
	vPost, sPost := view(s1, 0, nil, -1)
	data, exact := c11WriteData(script, root, s1.files())
	if !exact {
		c.Note("C11: scenario %d (%s): the bytes of the observed writes could not be recovered exactly from the post-state", e.n, sc.op.String())
	}

	// the property's own clauses, on the listings of the real recovery
	var pre, post [4]c11Listing
	for f := 0; f < 4; f++ {
		pre[f], post[f] = c11ParseListing(vPre.fold[f]), c11ParseListing(vPost.fold[f])
	}
	target := func(f int, midHex string) bool {
		switch sc.op.K {
		case 'I':
			for _, m := range sc.op.Msgs {
				if f == 0 && hs(m.Mid) == midHex {
					return true
				}
			}
		case 'A':
			return f == 1 && hs(sc.op.Msgs[0].Mid) == midHex
		case 'S':
			return (f == 1 || f == 2) && hs(sc.op.Mid) == midHex
		case 'U':
			return c11Folders[f] == sc.op.F && hs(sc.op.Mid) == midHex
		}
		return false
	}
	judge := func(v c11View) []string {
		var cl []string
		var st [4]c11Listing
		if v.panicked() {
			cl = append(cl, "panic during recovery")
		}
		if v.prep != "ok" {
			cl = append(cl, "folder fails to load (Prepare: "+v.prep+")")
		}
		for f := 0; f < 4; f++ {
			st[f] = c11ParseListing(v.fold[f])
			if !st[f].ok {
				cl = append(cl, "folder fails to load ("+c11FolderNames[f]+")")
			}
		}
		for f := 0; f < 4; f++ {
			if !st[f].ok {
				continue
			}
			for _, mid := range pre[f].mids() {
				want := pre[f].toks[mid]
				got, has := st[f].toks[mid]
				if target(f, mid) {
					if sc.op.K == 'S' && f == 1 {
						continue // leaves the outbox: judged by the outbox-or-sent clause
					}
					if nw, ok := post[f].toks[mid]; has && (got == want || (ok && got == nw)) {
						continue
					}
					if has {
						cl = append(cl, fmt.Sprintf("previously stored message %q in %s is neither the old nor the new version", c11Unhex(mid), c11FolderNames[f]))
					} else {
						cl = append(cl, fmt.Sprintf("previously stored message %q is missing from %s", c11Unhex(mid), c11FolderNames[f]))
					}
				} else if !has {
					cl = append(cl, fmt.Sprintf("previously stored message %q is missing from %s", c11Unhex(mid), c11FolderNames[f]))
				} else if got != want {
					cl = append(cl, fmt.Sprintf("previously stored message %q in %s differs", c11Unhex(mid), c11FolderNames[f]))
				}
			}
		}
		if st[1].ok && st[2].ok {
			seen := map[string]bool{}
			for _, mid := range append(pre[1].mids(), pre[2].mids()...) {
				_, o := st[1].toks[mid]
				_, s := st[2].toks[mid]
				if !o && !s && !seen[mid] {
					seen[mid] = true
					cl = append(cl, fmt.Sprintf("outbound message %q is neither in outbox nor in sent", c11Unhex(mid)))
				}
			}
		}
		for i, mid := range mids {
			if v.ans[i] != "rej" {
				continue
			}
			h := hs(mid)
			got, has := st[0].toks[h]
			nw, okN := post[0].toks[h]
			old, okO := pre[0].toks[h]
			if !(st[0].ok && has && ((okN && got == nw) || (okO && got == old))) {
				cl = append(cl, fmt.Sprintf("proposal for %q is rejected as already received without a complete copy in the inbox", mid))
			}
		}
		return cl
	}
	check := func(v c11View, sv string, step, k int) bool {
		e.states++
		good := sv == sPre || sv == sPost
		cl := judge(v)
		if !good {
			e.notGood++
			if len(cl) == 0 {
				e.neitherButOK++
			}
		}
		if len(cl) > 0 {
			point := "after the last system call"
			if step < len(script) {
				point = fmt.Sprintf("before system call %d (%s)", step, script[step].String())
				if k >= 0 {
					point = fmt.Sprintf("after %d of %d bytes of system call %d (%s)", k, script[step].N, step, script[step].String())
				}
			}
			c.Violate("C11:crash:"+kind+":"+shape, fmt.Sprintf("%s after crash at the point %s of %s", strings.Join(cl, "; "), point, sc.op.String()),
				with("script", c11ScriptDesc(script), "script_tokens", strings.Join(c11ScriptToks(script), " "), "crash_step", step, "crash_write_prefix", k,
					"clauses", cl, "view", sv, "view_pre", sPre, "view_post", sPost, "result", res))
		}
		return good
	}

	// every crash state of the observed script
	var toks []string
	for i := 0; i <= len(script); i++ {
		if !c.TimeLeft() {
			c.Note("C11: time budget exhausted inside scenario %d; scenario dropped", e.n)
			return
		}
		v, sv := view(s0, i, data, -1)
		toks = append(toks, fmt.Sprintf("b%d:%s", i, gB(check(v, sv, i, -1))))
		if i < len(script) && script[i].K == 'w' {
			n := script[i].N
			if n > e.maxWrite {
				e.maxWrite = n
			}
			if n > 2048 {
				e.strideWrites++
			}
			ng, nb := 0, 0
			var goodAt []string
			for _, k := range c11PrefixLens(n) {
				v, sv := view(s0, i, data, k)
				if check(v, sv, i, k) {
					ng++
					goodAt = append(goodAt, strconv.Itoa(k))
				} else {
					nb++
				}
			}
			if ng > 0 && nb > 0 && e.mixedNotes < 4 {
				e.mixedNotes++
				if len(goodAt) > 12 {
					goodAt = append(goodAt[:12], "…")
				}
				c.Note("C11: scenario %d: %s: crash inside system call %d (%s): %d of %d tested prefix lengths leave a mailbox equal to the pre- or post-state (k = %s), the others do not",
					e.n, sc.op.String(), i, script[i].String(), ng, ng+nb, strings.Join(goodAt, ","))
			}
			w := "-"
			switch {
			case ng+nb == 0:
			case nb == 0:
				w = "g"
			case ng == 0:
				w = "B"
			default:
				w = "m"
			}
			toks = append(toks, fmt.Sprintf("w%d:%s", i, w))
		}
	}

	// the whole script applied to S0 must give the real post-state
	final := "post"
	s0.materialise(root)
	for j := range script {
		if err := c11Apply(script[j], data[j], -1); err != nil {
			e.applyErrs++
		}
	}
	got, want := c11TakeSnap(root).files(), s1.files()
	if len(got) != len(want) {
		final = "differs"
	}
	for p, b := range want {
		if g, ok := got[p]; !ok || g != b {
			final = "differs"
		}
	}
	if final == "differs" {
		c.Violate("C11:script-incomplete:"+kind, fmt.Sprintf("replaying the observed system calls of %s on the pre-state does not give the real post-state (the trace misses a mutating call)", sc.op.String()),
			with("script", c11ScriptDesc(script), "trace", tr.excerpt))
	}

	fields := []string{"crashcheck", hs(croot), "0", strconv.Itoa(len(sc.pre))}
	for _, o := range sc.pre {
		fields = append(fields, o.tok())
	}
	fields = append(fields, sc.op.tok())
	fields = append(fields, c11ScriptToks(script)...)
	impl := append([]string{res, "shape=" + shape, "final=" + final}, toks...)
	e.cases = append(e.cases, Case{Line: strings.Join(fields, " "), Impl: strings.Join(impl, " "),
		Desc:  fmt.Sprintf("[%s] %s after %s; script: %s", sc.kind, sc.op.String(), strings.Join(histDesc(sc.pre), "; "), strings.Join(c11ScriptDesc(script), ", ")),
		Class: kind + "-" + shape, Nontrivial: len(script) > 0})
}

// ---------- scenarios ----------

var c11Kinds = []string{"inbound-new", "inbound-existing", "inbound-two", "addout-new", "addout-existing", "addout-mid-in-sent", "inbound-name-max-window", "addout-name-max-window", "setsent", "setsent-mid-in-sent",
	"setunread-false", "setunread-true-after-read", "setunread-false-noop", "inbound-large"}

func c11Gen(c *Ctx, kind string) c11Scn {
	rng := c.Rng
	pool := []string{"AAAAAAAAAAA1", "B2", "c.3-x"}
	tgt, tgt2 := "NEWMID000001", "NEWMID000002"
	if rng.Intn(4) == 0 {
		// characters a MID may contain and that mean something to globbing / temp-name patterns / URLs
		tgt = []string{"NEW*MID00001", "N[E]W?MID001", "NEW MID 0001", "NEW%MID%0001", "NEW*"}[rng.Intn(5)]
	}
	rcOut := [][2][]string{{{"LA1A"}, nil}, {{"LA1B"}, nil}, {{"LA1A"}, {"LA1C"}}, {{"someone@example.com"}, nil}}
	msg := func(mid string, inbound bool) mMsg {
		m := mMsg{Mid: mid, Payload: 1 + rng.Intn(40), Files: rng.Intn(3)}
		if inbound {
			m.To = []string{"N0CALL"}
			if rng.Intn(3) == 0 {
				m.Cc = []string{"LA1A"}
			}
		} else {
			sh := rcOut[rng.Intn(len(rcOut))]
			m.To, m.Cc = sh[0], sh[1]
			if rng.Intn(4) == 0 {
				m.P2P = sp("true")
			}
		}
		return m
	}
	place := func(pre []mOp, mid string, folder int) []mOp {
		switch folder {
		case 0:
			return append(pre, mOp{K: 'I', Msgs: []mMsg{msg(mid, true)}})
		case 1:
			return append(pre, mOp{K: 'A', Msgs: []mMsg{msg(mid, false)}})
		}
		return append(pre, mOp{K: 'A', Msgs: []mMsg{msg(mid, false)}}, mOp{K: 'S', Mid: mid})
	}
	pre := []mOp{{K: 'P'}}
	// surrounding content: 0-3 other messages in inbox / outbox / sent
	rng.Shuffle(len(pool), func(i, j int) { pool[i], pool[j] = pool[j], pool[i] })
	for j, cnt := 0, rng.Intn(4); j < cnt; j++ {
		pre = place(pre, pool[j], rng.Intn(3))
	}
	// sometimes the target MID also exists in a folder the operation does not touch
	elsewhere := func(folders ...int) {
		if rng.Intn(3) == 0 {
			pre = place(pre, tgt, folders[rng.Intn(len(folders))])
		}
	}
	differ := func(a, b mMsg) mMsg {
		if b.payloadID() == a.payloadID() {
			b.Payload++
		}
		return b
	}
	var op mOp
	switch kind {
	case "inbound-new":
		elsewhere(1, 2)
		op = mOp{K: 'I', Msgs: []mMsg{msg(tgt, true)}}
	case "inbound-existing":
		elsewhere(1, 2)
		old := msg(tgt, true)
		pre = append(pre, mOp{K: 'I', Msgs: []mMsg{old}})
		op = mOp{K: 'I', Msgs: []mMsg{differ(old, msg(tgt, true))}}
	case "inbound-two":
		elsewhere(1, 2)
		op = mOp{K: 'I', Msgs: []mMsg{msg(tgt, true), msg(tgt2, true)}}
	case "addout-new":
		elsewhere(0, 2)
		op = mOp{K: 'A', Msgs: []mMsg{msg(tgt, false)}}
	case "addout-existing":
		elsewhere(0, 2)
		old := msg(tgt, false)
		pre = append(pre, mOp{K: 'A', Msgs: []mMsg{old}})
		op = mOp{K: 'A', Msgs: []mMsg{differ(old, msg(tgt, false))}}
	case "inbound-name-max-window", "addout-name-max-window":
		// a MID of 248..251 bytes: "<MID>.b2f" is a legal file name, "<MID>.b2f.tmp" is not (NAME_MAX). The store has
		// to fail cleanly (or succeed atomically) - there is no temp name to write through
		tgt = strings.Repeat("W", 248+rng.Intn(4))
		if kind == "inbound-name-max-window" {
			op = mOp{K: 'I', Msgs: []mMsg{msg(tgt, true)}}
		} else {
			op = mOp{K: 'A', Msgs: []mMsg{msg(tgt, false)}}
		}
	case "addout-mid-in-sent":
		// a message that was sent is posted again (a resend): until the new copy is in the outbox the sent copy is
		// the only one
		elsewhere(0)
		old := msg(tgt, false)
		pre = append(pre, mOp{K: 'A', Msgs: []mMsg{old}}, mOp{K: 'S', Mid: tgt})
		op = mOp{K: 'A', Msgs: []mMsg{differ(old, msg(tgt, false))}}
	case "setsent":
		elsewhere(0)
		pre = append(pre, mOp{K: 'A', Msgs: []mMsg{msg(tgt, false)}})
		op = mOp{K: 'S', Mid: tgt}
	case "setsent-mid-in-sent":
		elsewhere(0)
		old := msg(tgt, false)
		pre = append(pre, mOp{K: 'A', Msgs: []mMsg{old}}, mOp{K: 'S', Mid: tgt}, mOp{K: 'A', Msgs: []mMsg{differ(old, msg(tgt, false))}})
		op = mOp{K: 'S', Mid: tgt}
	case "setunread-false":
		elsewhere(1, 2)
		pre = append(pre, mOp{K: 'I', Msgs: []mMsg{msg(tgt, true)}})
		op = mOp{K: 'U', F: 'i', Mid: tgt, B: false}
	case "setunread-true-after-read":
		elsewhere(1, 2)
		pre = append(pre, mOp{K: 'I', Msgs: []mMsg{msg(tgt, true)}}, mOp{K: 'U', F: 'i', Mid: tgt, B: false})
		op = mOp{K: 'U', F: 'i', Mid: tgt, B: true}
	case "setunread-false-noop":
		elsewhere(1, 2)
		pre = append(pre, mOp{K: 'I', Msgs: []mMsg{msg(tgt, true)}}, mOp{K: 'U', F: 'i', Mid: tgt, B: false})
		op = mOp{K: 'U', F: 'i', Mid: tgt, B: false}
	case "inbound-large":
		// a serialisation of more than 2 KB: many receivers (mMsg.build makes small bodies and attachments)
		m := mMsg{Mid: tgt, Payload: 1 + rng.Intn(40), Files: 1}
		for i, n := 0, 190+rng.Intn(40); i < n; i++ {
			m.To = append(m.To, fmt.Sprintf("LB%03dX", i))
		}
		op = mOp{K: 'I', Msgs: []mMsg{m}}
	}
	scn := c11Scn{kind: kind, pre: pre, op: op}
	if rng.Intn(3) == 0 {
		// an earlier crash left the temp file of this very message behind
		switch op.K {
		case 'I':
			scn.stale = []string{"in/" + tgt + ".b2f.tmp"}
		case 'A':
			scn.stale = []string{"out/" + tgt + ".b2f.tmp"}
		case 'U':
			scn.stale = []string{"in/" + tgt + ".b2f.tmp"}
		}
		if len(scn.stale) > 0 {
			scn.kind += "+stale-tmp"
		}
	}
	return scn
}

// ---------- prefix-parse measurement ----------

// c11PrefixParse measures an assumption of the Lean crash model ("a proper prefix of a serialised
// message does not parse") on the real codec. It concerns property C09; no violation is raised here.
func c11PrefixParse(c *Ctx) {
	type sample struct {
		desc string
		m    *fbb.Message
	}
	var samples []sample
	for i, files := range []int{0, 1, 2, 0, 1, 2, 0, 1, 2, 2} {
		mm := mMsg{Mid: fmt.Sprintf("PREFIX%06d", i), To: []string{"N0CALL"}, Payload: 1 + c.Rng.Intn(40), Files: files}
		if i%3 == 1 {
			mm.Cc = []string{"LA1A", "foo@bar.baz"}
		}
		if i%4 == 0 {
			mm.Unread = sp("true")
		}
		samples = append(samples, sample{"mMsg{" + mm.desc() + "}", mm.build()})
	}
	hand := func(mid string, files ...*fbb.File) *fbb.Message {
		m := fbb.NewMessage(fbb.Private, "N0CALL")
		m.Header.Set("Mid", mid)
		m.SetDate(mboxDate)
		m.AddTo("LA1A")
		m.SetSubject("hand made")
		m.SetBody("body of " + mid + "\r\n")
		for _, f := range files {
			m.AddFile(f)
		}
		return m
	}
	samples = append(samples,
		sample{"hand-made: 2 attachments, the last one has zero bytes", hand("PREFIXEMPTY1", fbb.NewFile("a.txt", []byte("abc")), fbb.NewFile("empty.bin", nil))},
		sample{"hand-made: 1 attachment whose data ends in CRLF", hand("PREFIXCRLF01", fbb.NewFile("crlf.txt", []byte("line one\r\nline two\r\n")))})
	counts := map[string]int{}
	example := map[string]string{}
	tails := map[string]map[int]int{} // class -> number of bytes missing at the end -> count
	total := 0
	for _, s := range samples {
		full, err := s.m.Bytes()
		if err != nil {
			c.Note("C11: prefix-parse sample %s does not serialise: %v", s.desc, err)
			continue
		}
		for k := 0; k < len(full); k++ {
			class := func() (class string) {
				defer func() {
					if r := recover(); r != nil {
						class = "prefix-parse-panics"
					}
				}()
				x := new(fbb.Message)
				if err := x.ReadFrom(bytes.NewReader(full[:k])); err != nil {
					return "prefix-rejected"
				}
				if b, err := x.Bytes(); err == nil && bytes.Equal(b, full) {
					return "prefix-parses-to-same-message"
				}
				return "prefix-parses-to-different-message"
			}()
			total++
			counts[class]++
			c.Res.Distribution[class]++
			if class != "prefix-rejected" {
				if tails[class] == nil {
					tails[class] = map[int]int{}
				}
				tails[class][len(full)-k]++
				if _, ok := example[class]; !ok {
					example[class] = fmt.Sprintf("%s, first %d of %d bytes", s.desc, k, len(full))
				}
			}
		}
	}
	var ex []string
	for _, k := range []string{"prefix-parses-to-same-message", "prefix-parses-to-different-message", "prefix-parse-panics"} {
		if e, ok := example[k]; ok {
			var miss []int
			for d := range tails[k] {
				miss = append(miss, d)
			}
			sort.Ints(miss)
			ex = append(ex, fmt.Sprintf("%s: %s (bytes missing at the end, over all samples: %v)", k, e, miss))
		}
	}
	c.Note("C11: prefix-parse measurement (assumption of the crash model, concerns C09; no truncated file is ever read by the repaired code): %d messages, %d proper prefixes: rejected=%d parses-to-same-message=%d parses-to-different-message=%d panics=%d; examples: %s",
		len(samples), total, counts["prefix-rejected"], counts["prefix-parses-to-same-message"], counts["prefix-parses-to-different-message"], counts["prefix-parse-panics"], strings.Join(ex, " | "))
}

func init() {
	register("C11", "cases: scenarios (pre-history building 0-3 surrounding messages in inbox/outbox/sent, sometimes the target MID in an untouched folder; then one mutating operation: ProcessInbound of a new MID / of a MID already in the inbox / of two messages / of a >2 KB message, AddOut new / existing MID, SetSent with and without the MID already in sent, SetUnread off / on / no-op). The operation runs in a child process under strace; the observed system calls on the mailbox directory are the script. EVERY crash state of the script (before and after each call, after every proper prefix of each write; stride for writes > 2 KB) is materialised as a real directory and the real recovery (NewDirHandler, Prepare, 4 listings, GetInboundAnswer for every MID, GetOutbound) is run on it. Judged by the property's clauses (folders load, stored messages intact, outbound in outbox or sent, 'already received' only with a complete copy) and compared with the Lean crash model evaluated on the same script (per crash point: view equals pre- or post-state). Non-trivial: non-empty script; distinct by pre-history, operation and script.", func(c *Ctx) {
		tmp := mboxTemp("verif-c11-")
		defer os.RemoveAll(tmp)
		// SetUnread writes the absolute X-FilePath into the file: the sizes of the observed writes depend on
		// the length of the directory name. os.MkdirTemp names vary in length; pad to a fixed length so
		// that the cases are the same for the same seed.
		pad := 32 - len(tmp)
		if pad < 1 {
			pad = 1
		}
		base := filepath.Join(tmp, strings.Repeat("p", pad))
		os.MkdirAll(base, 0o755)
		mboxCanon = func(s string) string { return strings.ReplaceAll(s, base, "/tmp/vmbox") }
		defer func() { mboxCanon = func(s string) string { return s } }()
		e := &c11Env{c: c, base: base, scripts: map[string]string{}, shapes: map[string]int{}}
		n := c.Budget(24, 120)
		done := 0
		for s := 0; s < n && c.TimeLeft(); s++ {
			sc := c11Gen(c, c11Kinds[s%len(c11Kinds)])
			e.run(sc)
			done++
			// a multi-message call is also checked message by message (the earlier ones stored by a
			// previous call): the same system calls, one atomic group per scenario
			if sc.op.K == 'I' && len(sc.op.Msgs) > 1 {
				pre := append([]mOp{}, sc.pre...)
				for j, m := range sc.op.Msgs {
					if !c.TimeLeft() {
						break
					}
					e.run(c11Scn{kind: fmt.Sprintf("%s/message-%d-alone", sc.kind, j+1), pre: append([]mOp{}, pre...), op: mOp{K: 'I', Msgs: []mMsg{m}}})
					done++
					pre = append(pre, mOp{K: 'I', Msgs: []mMsg{m}})
				}
			}
		}
		c.Note("C11: %d scenarios, %d crash states materialised and recovered by the real code; %d states whose view is neither the pre- nor the post-state, of which %d satisfy every clause of the property (the middle of a multi-message ProcessInbound)", done, e.states, e.notGood, e.neitherButOK)
		if e.strideWrites > 0 {
			c.Note("C11: largest observed write %d bytes; %d writes > 2048 bytes were checked with the stride prefix set", e.maxWrite, e.strideWrites)
		} else {
			c.Note("C11: all observed writes were <= 2048 bytes (largest %d): every proper prefix was checked, the stride path was not exercised", e.maxWrite)
		}
		if e.applyErrs > 0 || e.unparsed > 0 {
			c.Note("C11: harness diagnostics: %d errors while re-applying script steps, %d unparsed strace lines", e.applyErrs, e.unparsed)
		}
		var ks []string
		for k := range e.scripts {
			ks = append(ks, k)
		}
		sort.Strings(ks)
		for _, k := range ks {
			c.Note("C11: observed script %s (x%d): %s", k, e.shapes[k], e.scripts[k])
		}
		c11PrefixParse(c)
		c.Compare(e.cases)
	})
}
