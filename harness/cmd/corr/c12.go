package main

import (
	"crypto/sha1"
	"fmt"
	"os"
	"os/exec"
	"path"
	"path/filepath"
	"sort"
	"strings"
	"time"

	"github.com/la5nta/wl2k-go/mailbox"
)

// Child mode: SetSent may call log.Fatalf (os.Exit) - it is run in a re-exec'ed copy of this binary.
func init() {
	if os.Getenv("VERIF_MBOX_CHILD") == "setsent" {
		h := mailbox.NewDirHandler(os.Getenv("VERIF_MBOX_ROOT"), false)
		if err := h.Prepare(); err != nil {
			os.Exit(3)
		}
		h.SetSent(os.Getenv("VERIF_MBOX_MID"), false)
		os.Exit(0)
	}
}

func setSentChild(root, mid string) string {
	if strings.Contains(mid, "\x00") {
		// cannot be passed through the environment; SetSent refuses it before any system call is
		// made, or the kernel interface refuses it (Go returns EINVAL without a system call).
		return "skip"
	}
	cmd := exec.Command(c11SelfExe())
	cmd.Env = append(os.Environ(), "VERIF_MBOX_CHILD=setsent", "VERIF_MBOX_ROOT="+root, "VERIF_MBOX_MID="+mid)
	done := make(chan error, 1)
	if err := cmd.Start(); err != nil {
		return "spawn-error"
	}
	go func() { done <- cmd.Wait() }()
	select {
	case err := <-done:
		if err == nil {
			return "ok"
		}
		return "fatal"
	case <-time.After(20 * time.Second):
		cmd.Process.Kill()
		return "hang"
	}
}

type snapEnt struct {
	size  int64
	mtime int64
	mode  os.FileMode
	sum   [20]byte
}

func snapshot(root string) map[string]snapEnt {
	out := map[string]snapEnt{}
	filepath.Walk(root, func(p string, fi os.FileInfo, err error) error {
		if err != nil {
			return nil
		}
		e := snapEnt{size: fi.Size(), mtime: fi.ModTime().UnixNano(), mode: fi.Mode()}
		if fi.Mode().IsRegular() {
			b, _ := os.ReadFile(p)
			e.sum = sha1.Sum(b)
		} else {
			e.size = 0
			e.mtime = 0 // directory mtimes change when entries are added; the entries themselves are compared
		}
		out[p] = e
		return nil
	})
	return out
}

func snapDiff(a, b map[string]snapEnt) []string {
	var d []string
	for p, e := range a {
		if f, ok := b[p]; !ok || f != e {
			d = append(d, p)
		}
	}
	for p := range b {
		if _, ok := a[p]; !ok {
			d = append(d, p)
		}
	}
	sort.Strings(d)
	return d
}

// fixPaths replaces the "$SB" placeholder of hostile header values by the sandbox directory of this run.
func (o *mOp) fixPaths(sb string) {
	for i := range o.Msgs {
		if o.Msgs[i].FPath != nil {
			v := strings.ReplaceAll(*o.Msgs[i].FPath, "$SB", sb)
			o.Msgs[i].FPath = &v
		}
	}
}

func hostileMIDs(c *Ctx, n int) []string {
	long := strings.Repeat("a", 300)
	mids := []string{"../../outside/x", "../x", "..", ".", "", "/etc/x", "/abs", "a/b", "a/../../../outside/x", "..\\x", "..\\..\\outside\\x",
		"x\x00y", "\x00", long, "../" + long, strings.Repeat("../", 40) + "tmp/x", "æøå", "..%2f..%2fx", ".hidden", "a/", "/", "//", "./x", "x/.",
		"in/../../outside/x", "../in/GOODIN000001", "../out/GOODOUT00001", "../../outside/decoy", "../../decoy",
		strings.Repeat("a", 240), strings.Repeat("a", 252), // around NAME_MAX
		// the window where "<MID>.b2f" still fits NAME_MAX but "<MID>.b2f.tmp" does not (the store fails cleanly)
		strings.Repeat("a", 247), strings.Repeat("b", 248), strings.Repeat("c", 249), strings.Repeat("d", 250), strings.Repeat("e", 251),

		"Mid With Space", "-", "~", "*", "CON", "a\\b", "a:b", "GOODOUT00001", "GOODIN000001", "NEWMID000001", "x.b2f", "x.tmp", "X.B2F", "..x", "x..", "x/../y", "\xff\xfe", " ", "a\nb"}
	// RFC 2047 encoded-words: harmless as raw bytes, a path once somebody decodes them
	mids = append(mids, "=?utf-8?q?x=2F..=2F..=2F..=2Fescaped?=", "=?utf-8?q?=2E=2E=2F=2E=2E=2Fx?=", "=?utf-8?b?Li4vLi4veA==?=", "=?ISO-8859-1?Q?..=2F..=2Foutside=2Fx?=", "=?utf-8?q?=2Fabs?=", "..%2F..%2Fx", "%2e%2e%2f%2e%2e%2fx")
	// systematic family: (prefix that may defeat a separator scan) x (climb) x (landing place, incl. siblings whose
	// name starts with the mailbox directory's name, which defeat a containment test by string prefix)
	for _, pre := range []string{"", "/", "//", "a/", "./", "\\", "a/b/../", "in/"} {
		for up := 1; up <= 4; up++ {
			for _, land := range []string{"x", "outside/x", "mbox-1/in/x", "mbox-1/out/GOODOUT00001", "mboxX/x", "mbo/x", "mbox/../x", "mbox/in/../../escaped"} {
				mids = append(mids, pre+strings.Repeat("../", up)+land)
			}
		}
	}
	// a well-formed MID (12 upper-case letters / digits) in FRONT of the climb: a "looks regular" shortcut that is not
	// anchored at the end lets the rest through
	for _, pre := range []string{"ABCDEFGHIJKL", "GOODIN000001", "0123456789AB", "abcdefghijkl", "ABCDEFGHIJKLM"} {
		mids = append(mids, pre+"/../../../x", pre+"/../../../outside/x", pre+"/../../mbox-1/in/x", pre+"\\..\\x", pre+"/x")
	}
	// multi-byte characters in front of the climb: a check that walks runes but indexes bytes (or the reverse), or
	// that measures in runes, stops short of the separators
	for _, ch := range []string{"é", "Å", "メ", "𝄞"} {
		for _, k := range []int{1, 3, 8, 12, 20} {
			mids = append(mids, strings.Repeat(ch, k)+"/../../../x", strings.Repeat(ch, k)+"/../../../outside/x", strings.Repeat(ch, k)+"\\..\\x")
		}
	}
	al := []string{".", "/", "a", "\\", "\x00", "é", "..", "x", "-", "../"}
	for i := 0; i < n; i++ {
		var b strings.Builder
		for k := c.Rng.Intn(7); k >= 0; k-- {
			b.WriteString(al[c.Rng.Intn(len(al))])
		}
		mids = append(mids, b.String())
	}
	return mids
}

func init() {
	register("C12", "cases: (a) path.Clean/Join/Split and filepath.Ext on generated strings (separator runs, dot and dot-dot runs, absolute/relative, empty, 5000-byte, non-ASCII, NUL) against the Lean transcription; (b) every mailbox operation that takes a MID (ProcessInbound with the Mid header, GetInboundAnswer with the proposal MID, SetSent in a child process, SetDeferred, AddOut) with ~60 hostile MID shapes plus random ones, on a sandbox tree sandbox/{outside,decoys,mbox} with recursive snapshots (path, size, mtime, mode, content hash) before and after; any difference outside sandbox/mbox is the violation; result and set of changed paths are compared with the Lean model. Non-trivial: MIDs that are not plain file names; distinct by case line.", func(c *Ctx) {
		var cases []Case
		// (a) path functions
		pieces := []string{"", "/", "//", ".", "..", "a", "b.c", "æ", "\x00", "../", "./", "/..", "abc", ".b2f", "x.tmp", "...", "a/b", " "}
		gen := func() string {
			var b strings.Builder
			for k := c.Rng.Intn(8); k > 0; k-- {
				b.WriteString(pieces[c.Rng.Intn(len(pieces))])
				if c.Rng.Intn(3) == 0 {
					b.WriteString("/")
				}
			}
			return b.String()
		}
		fixed := []string{"", ".", "..", "/", "//", "/..", "/../a", "a/..", "a/../..", "../../a", "a//b/./c/..", "/a/b/../../../c", strings.Repeat("../", 2000), strings.Repeat("a/", 2500), "/" + strings.Repeat("x", 5000), "a\x00/../b", "æ/ø/../å", "a/b/", "./", ".//", "a/./", "..a", "a..", "/.a", "...", "a/.../b"}
		np := c.Budget(3000, 40000)
		for i := 0; i < np+len(fixed); i++ {
			var s string
			if i < len(fixed) {
				s = fixed[i]
			} else {
				s = gen()
			}
			if strings.ContainsAny(s, "\n\r") {
				continue
			}
			cases = append(cases, Case{Line: "pathclean " + hs(s), Impl: hs(path.Clean(s)), Desc: fmt.Sprintf("path.Clean(%q)", trunc(s, 80)), Class: "path.Clean", Nontrivial: path.Clean(s) != s})
			d, f := path.Split(s)
			cases = append(cases, Case{Line: "pathsplit " + hs(s), Impl: hs(d) + " " + hs(f), Desc: fmt.Sprintf("path.Split(%q)", trunc(s, 80)), Class: "path.Split", Nontrivial: d != ""})
			cases = append(cases, Case{Line: "pathext " + hs(s), Impl: hs(filepath.Ext(s)), Desc: fmt.Sprintf("filepath.Ext(%q)", trunc(s, 80)), Class: "filepath.Ext", Nontrivial: filepath.Ext(s) != ""})
			el := []string{s}
			for k := c.Rng.Intn(4); k > 0; k-- {
				el = append(el, gen())
			}
			h := make([]string, len(el))
			for j, x := range el {
				h[j] = hs(x)
			}
			cases = append(cases, Case{Line: "pathjoin " + strings.Join(h, " "), Impl: hs(path.Join(el...)), Desc: fmt.Sprintf("path.Join(%q)", trunc(strings.Join(el, " , "), 120)), Class: "path.Join", Nontrivial: len(el) > 1})
		}

		// (b) sandbox
		base := mboxTemp("verif-c12-")
		defer os.RemoveAll(base)
		mboxCanon = func(s string) string { return strings.ReplaceAll(s, base, "/tmp/vmbox") }
		defer func() { mboxCanon = func(s string) string { return s } }()
		goodOut := mMsg{Mid: "GOODOUT00001", To: []string{"LA1A"}, Payload: 1}
		goodIn := mMsg{Mid: "GOODIN000001", To: []string{"N0CALL"}, Payload: 2}
		pre := []mOp{{K: 'P'}, {K: 'A', Msgs: []mMsg{goodOut}}, {K: 'I', Msgs: []mMsg{goodIn}}}
		n := 0
		outsideTouched := 0
		freshCount := 0
		runOne := func(mid string, k byte, override *mOp, hostile bool) {
			n++
			sb := filepath.Join(base, fmt.Sprintf("s%d", n))
			root := filepath.Join(sb, "mbox")
			os.MkdirAll(filepath.Join(sb, "outside", "in"), 0o755)
			os.MkdirAll(filepath.Join(sb, "outside", "out"), 0o755)
			os.MkdirAll(filepath.Join(sb, "outside", "sent"), 0o755)
			for _, sib := range []string{"mbox-1/in", "mbox-1/out", "mbox-1/sent", "mboxX", "mbo"} {
				os.MkdirAll(filepath.Join(sb, sib), 0o755)
			}
			decoy := goodOut.build()
			db, _ := decoy.Bytes()
			for _, p := range []string{"outside/x.b2f", "outside/decoy.b2f", "decoy.b2f", "x.b2f", "outside/in/y.b2f", "outside/out/GOODOUT00001.b2f", "mbox-1/out/GOODOUT00001.b2f"} {
				os.WriteFile(filepath.Join(sb, p), db, 0o644)
			}
			// the process's temp directory is watched too: it lies in the sandbox (outside the mailbox), with
			// decoys under the names a store of this MID might stage
			tmpDir := filepath.Join(sb, "outside", "tmp")
			os.MkdirAll(tmpDir, 0o755)
			oldTmp, hadTmp := os.LookupEnv("TMPDIR")
			os.Setenv("TMPDIR", tmpDir)
			defer func() {
				if hadTmp {
					os.Setenv("TMPDIR", oldTmp)
				} else {
					os.Unsetenv("TMPDIR")
				}
			}()
			if len(mid) > 200 && len(mid) < 252 && !strings.ContainsAny(mid, "/\x00") {
				os.WriteFile(filepath.Join(tmpDir, mid+".b2f"), db, 0o644)
				os.WriteFile(filepath.Join(tmpDir, mid+".b2f.tmp"), db, 0o644)
			}
			rb := newRealBox(root, false)
			for _, o := range pre {
				rb.exec(o)
			}
			var op mOp
			switch k {
			case 'I':
				op = mOp{K: 'I', Msgs: []mMsg{{Mid: mid, To: []string{"N0CALL"}, Payload: 7}}}
			case 'A':
				op = mOp{K: 'A', Msgs: []mMsg{{Mid: mid, To: []string{"LA1A"}, Payload: 8}}}
			default:
				op = mOp{K: k, Mid: mid}
			}
			if override != nil {
				op = *override
				op.fixPaths(sb)
			}
			if freshCount++; k == 'I' && override == nil && freshCount%3 == 0 {
				// the operation on a handler that wraps the existing mailbox but has NOT been Prepare()d (a tool that
				// stores one message and exits), with the process's working directory somewhere else in the sandbox:
				// whatever a handler derives at Prepare time must not be needed to stay inside the mailbox
				if wd, err := os.Getwd(); err == nil && os.Chdir(filepath.Join(sb, "outside")) == nil {
					defer os.Chdir(wd)
					rb = newRealBox(root, false)
				}
			}
			before := snapshot(sb)
			var res string
			if k == 'S' {
				res = setSentChild(root, mid)
				if res == "skip" {
					os.RemoveAll(sb)
					return
				}
			} else {
				res = rb.exec(op)
			}
			after := snapshot(sb)
			diff := snapDiff(before, after)
			conf := "t"
			var changed []string
			for _, p := range diff {
				if !strings.HasPrefix(p, root+"/") {
					conf = "f"
					outsideTouched++
					c.Violate("C12:escape:"+string(k), fmt.Sprintf("%s changed %s, outside the mailbox directory %s", op.String(), mboxCanon(p), mboxCanon(root)),
						map[string]interface{}{"op": op.String(), "mid_hex": hx([]byte(mid)), "changed": mboxCanon(strings.Join(diff, " ")), "result": res})
				}
				if fi, err := os.Lstat(p); err != nil || fi.Mode().IsRegular() {
					changed = append(changed, mboxCanon(p))
				} else if before[p].mode.IsRegular() {
					changed = append(changed, mboxCanon(p))
				}
			}
			os.RemoveAll(sb)
			if strings.ContainsAny(mid, "\n\r") {
				return
			}
			sort.Strings(changed)
			line := "mboxwrites " + hs(mboxCanon(root)) + " 0 " + fmt.Sprint(len(pre)) + " " + histToks(pre) + " " + op.tok()
			cases = append(cases, Case{Line: line, Impl: res + " conf=" + conf + " changed=" + listTok(changed), Desc: fmt.Sprintf("%s on sandbox", op.String()),
				Class: "sandbox-" + string(k), Nontrivial: hostile || !storableMID(mid)})
		}
		for _, mid := range hostileMIDs(c, c.Budget(150, 3000)) {
			if !c.TimeLeft() {
				break
			}
			for _, k := range []byte{'I', 'Q', 'S', 'D', 'A'} {
				runOne(mid, k, nil, false)
			}
		}
		// header content chosen by the remote station: a received (or queued) message that carries the mailbox's
		// own private headers, above all X-FilePath naming a file outside the mailbox ("$SB" = the sandbox)
		for hi, fp := range []string{"$SB/outside/x.b2f", "$SB/outside/new.b2f", "$SB/x.b2f", "../../outside/x.b2f", "../outside/x.b2f", "$SB/mbox-1/in/x.b2f", "$SB/mbox/../outside/x.b2f", "/", "", "$SB/outside"} {
			if !c.TimeLeft() {
				break
			}
			for _, k := range []byte{'I', 'A'} {
				f := fp
				m := mMsg{Mid: fmt.Sprintf("HDRMID%06d", hi), To: []string{"N0CALL"}, Payload: 9, FPath: &f}
				if hi%2 == 1 {
					m.Unread, m.P2P = sp("../../outside/x"), sp("/etc/passwd")
				}
				runOne(m.Mid, k, &mOp{K: k, Msgs: []mMsg{m}}, true)
			}
		}
		c.Note("C12: %d sandbox operations, %d changes outside the mailbox directory", n, outsideTouched)
		c.Compare(cases)
	})
}
