package main

import (
	"bufio"
	"bytes"
	"crypto/sha1"
	"encoding/hex"
	"encoding/json"
	"fmt"
	"math/rand"
	"os"
	"os/exec"
	"path/filepath"
	"runtime"
	"sort"
	"strings"
	"sync"
	"time"
)

// One correspondence case: the line sent to the Lean driver and what the real code produced for it.
type Case struct {
	Line string // driver input line (op + fields)
	Impl string // canonicalised output of the real code
	Desc string // human-readable description (goes into samples / replay)
	// Nontrivial marks cases that reach a non-trivial branch by the property's rule.
	Nontrivial bool
	Class      string // input-distribution bucket
}

type Disagreement struct {
	Line  string `json:"line"`
	Desc  string `json:"desc"`
	Model string `json:"model"`
	Impl  string `json:"impl"`
}

// A property violation observed on the real code (the property's own oracle, independent of the model).
type Violation struct {
	Key    string      `json:"key"`    // stable identifier matched against known_findings.txt
	What   string      `json:"what"`   // one line
	Replay interface{} `json:"replay"` // concrete input/history
}

type Result struct {
	Property      string         `json:"property"`
	Tier          string         `json:"tier"`
	Seed          int64          `json:"seed"`
	Evaluations   int            `json:"evaluations"`
	Distinct      int            `json:"distinct_nontrivial"`
	Rule          string         `json:"rule"`
	Samples       []string       `json:"samples"`
	Distribution  map[string]int `json:"distribution"`
	Disagreements []Disagreement `json:"disagreements"`
	Violations    []Violation    `json:"violations"`
	Exhaustive    bool           `json:"exhaustive"`
	Notes         []string       `json:"notes"`
	WallS         float64        `json:"wall_s"`
}

type Ctx struct {
	Prop     string
	Tier     string
	Seed     int64
	Rng      *rand.Rand
	Driver   string
	Res      *Result
	seen     map[string]bool
	start    time.Time
	Deadline time.Time
	Root     string // /verif
}

func (c *Ctx) Thorough() bool { return c.Tier == "thorough" }

// Budget returns q in the quick tier and t in the thorough tier.
func (c *Ctx) Budget(q, t int) int {
	if c.Thorough() {
		return t
	}
	return q
}

func (c *Ctx) TimeLeft() bool { return time.Now().Before(c.Deadline) }

func hx(b []byte) string {
	if len(b) == 0 {
		return "-"
	}
	return hex.EncodeToString(b)
}

func hs(s string) string { return hx([]byte(s)) }

// Model pipes the lines through the Lean driver and returns one output line per input line. Large batches are
// split over several driver processes (the driver is single-threaded; the cases are independent).
func (c *Ctx) Model(lines []string) []string {
	if len(lines) == 0 {
		return nil
	}
	workers := runtime.NumCPU() / 2
	if workers > 8 {
		workers = 8
	}
	if workers < 1 || len(lines) < 64 {
		workers = 1
	}
	res := make([]string, len(lines))
	var wg sync.WaitGroup
	// interleaved assignment balances cheap and expensive families across the workers
	for w := 0; w < workers; w++ {
		wg.Add(1)
		go func(w int) {
			defer wg.Done()
			var idx []int
			var part []string
			for i := w; i < len(lines); i += workers {
				idx = append(idx, i)
				part = append(part, lines[i])
			}
			out := c.modelOne(part)
			for k, i := range idx {
				res[i] = out[k]
			}
		}(w)
	}
	wg.Wait()
	return res
}

func (c *Ctx) modelOne(lines []string) []string {
	if len(lines) == 0 {
		return nil
	}
	cmd := exec.Command(c.Driver)
	var in bytes.Buffer
	for _, l := range lines {
		if strings.ContainsAny(l, "\n\r") {
			panic("driver line contains newline: " + l)
		}
		in.WriteString(l)
		in.WriteByte('\n')
	}
	cmd.Stdin = &in
	var out bytes.Buffer
	cmd.Stdout = &out
	cmd.Stderr = os.Stderr
	if err := cmd.Run(); err != nil {
		fmt.Fprintf(os.Stderr, "corr: driver failed: %v\n", err)
	}
	res := make([]string, 0, len(lines))
	sc := bufio.NewScanner(&out)
	sc.Buffer(make([]byte, 1<<20), 1<<30)
	for sc.Scan() {
		res = append(res, sc.Text())
	}
	for len(res) < len(lines) {
		res = append(res, "driver-no-output")
	}
	return res
}

// Compare runs all cases through the model and records disagreements and coverage.
func (c *Ctx) Compare(cases []Case) {
	lines := make([]string, len(cases))
	for i, cs := range cases {
		lines[i] = cs.Line
	}
	outs := c.Model(lines)
	for i, cs := range cases {
		c.Res.Evaluations++
		if cs.Class != "" {
			c.Res.Distribution[cs.Class]++
		}
		if cs.Nontrivial {
			h := sha1.Sum([]byte(cs.Line))
			k := string(h[:])
			if !c.seen[k] {
				c.seen[k] = true
				c.Res.Distinct++
			}
		}
		if len(c.Res.Samples) < 6 && (cs.Nontrivial || i == 0) && c.Rng.Intn(1+i/3) == 0 {
			c.Res.Samples = append(c.Res.Samples, trunc(cs.Desc+" => "+cs.Impl, 300))
		}
		if outs[i] != cs.Impl {
			if len(c.Res.Disagreements) < 50 {
				c.Res.Disagreements = append(c.Res.Disagreements, Disagreement{Line: trunc(cs.Line, 100000), Desc: trunc(cs.Desc, 2000), Model: trunc(outs[i], 100000), Impl: trunc(cs.Impl, 100000)})
			}
		}
	}
}

func trunc(s string, n int) string {
	if len(s) > n {
		return s[:n] + fmt.Sprintf("...(%d bytes)", len(s))
	}
	return s
}

func (c *Ctx) Violate(key, what string, replay interface{}) {
	for _, v := range c.Res.Violations {
		if v.Key == key {
			return
		}
	}
	if len(c.Res.Violations) < 200 {
		c.Res.Violations = append(c.Res.Violations, Violation{Key: key, What: what, Replay: replay})
	}
}

func (c *Ctx) Note(f string, a ...interface{}) {
	c.Res.Notes = append(c.Res.Notes, fmt.Sprintf(f, a...))
}

type checkFn func(c *Ctx)

var checks = map[string]checkFn{}
var rules = map[string]string{}

func register(id, rule string, f checkFn) { checks[id] = f; rules[id] = rule }

// registerExtra adds a further, independent exploration to a property's check (run before the main one,
// with its own PRNG stream so that the main check's cases do not depend on it).
var extras = map[string][]checkFn{}
var extraRules = map[string][]string{}

func registerExtra(id, rule string, f checkFn) {
	extras[id] = append(extras[id], f)
	extraRules[id] = append(extraRules[id], rule)
}

func runMain() {
	if len(os.Args) < 6 {
		fmt.Fprintln(os.Stderr, "usage: corr <prop> <tier> <seed> <driver> <out.json> [replay.json]")
		os.Exit(2)
	}
	prop, tier := os.Args[1], os.Args[2]
	var seed int64
	fmt.Sscan(os.Args[3], &seed)
	f, ok := checks[prop]
	if !ok {
		fmt.Fprintf(os.Stderr, "corr: no check for %s\n", prop)
		os.Exit(2)
	}
	root, _ := filepath.Abs(filepath.Join(filepath.Dir(os.Args[4]), "..", "..", "..", ".."))
	ctx := &Ctx{Prop: prop, Tier: tier, Seed: seed, Rng: rand.New(rand.NewSource(seed)), Driver: os.Args[4],
		Res:  &Result{Property: prop, Tier: tier, Seed: seed, Rule: rules[prop], Distribution: map[string]int{}, Disagreements: []Disagreement{}, Violations: []Violation{}, Samples: []string{}, Notes: []string{}},
		seen: map[string]bool{}, start: time.Now(), Root: root}
	budget := 60 * time.Second
	if tier == "thorough" {
		budget = 10 * time.Minute
	}
	ctx.Deadline = ctx.start.Add(budget)
	if len(os.Args) < 7 { // not in replay mode
		for i, x := range extras[prop] {
			ctx.Res.Rule += " ALSO: " + extraRules[prop][i]
			main := ctx.Rng
			ctx.Rng = rand.New(rand.NewSource(seed + 7919*int64(i+1)))
			x(ctx)
			ctx.Rng = main
		}
	}
	f(ctx)
	ctx.Res.WallS = time.Since(ctx.start).Seconds()
	sort.Strings(ctx.Res.Notes)
	b, _ := json.MarshalIndent(ctx.Res, "", " ")
	if err := os.WriteFile(os.Args[5], b, 0o644); err != nil {
		fmt.Fprintln(os.Stderr, err)
		os.Exit(2)
	}
}
