package main

// fnlevel.go: FUNCTION-LEVEL correspondence of the session's parsers (verif hooks in fbb/hooks_verif.go)
// with their Lean definitions. The session-level runs reach these functions only through whole
// transcripts; here each one is driven directly with structured, mutated and raw inputs, so the
// theorems about cleanString / errLine / parseProposalAnswer / parseProposal / parseSID / parseFW
// (Proofs/Checked.lean, Props/C03.lean) are tied to exactly the code they are about.

import (
	"bytes"
	"fmt"
	"math/rand"
	"strings"

	"github.com/la5nta/wl2k-go/fbb"
)

func fnASCII(s string) bool {
	for i := 0; i < len(s); i++ {
		if s[i] >= 0x80 {
			return false
		}
	}
	return true
}

func fnMutate(r *rand.Rand, s string) string {
	b := []byte(s)
	for k := r.Intn(3); k >= 0; k-- {
		switch r.Intn(6) {
		case 0:
			if len(b) > 0 {
				b = b[:r.Intn(len(b)+1)]
			}
		case 1:
			i := r.Intn(len(b) + 1)
			ins := []byte{0, ' ', '\t', '*', '|', '-', '[', ']', ':', '\n', '+', '9', 'A', 0xc2, 0xa0, 0xe2, 0x80, 0x83, 0xff}[r.Intn(19)]
			b = append(b[:i], append([]byte{ins}, b[i:]...)...)
		case 2:
			if len(b) > 0 {
				b[r.Intn(len(b))] = byte(r.Intn(256))
			}
		case 3:
			if len(b) > 0 {
				i := r.Intn(len(b))
				b = append(b[:i], b[i+1:]...)
			}
		case 4:
			if len(b) > 1 {
				i, j := r.Intn(len(b)), r.Intn(len(b))
				b[i], b[j] = b[j], b[i]
			}
		default:
			b = append(b, b...)
			if len(b) > 300 {
				b = b[:300]
			}
		}
	}
	return string(b)
}

func recoverTo(out *string) {
	if p := recover(); p != nil {
		*out = fmt.Sprintf("panic %v", p)
	}
}

func init() {
	registerExtra("C03", "function level (verif hooks): cleanString, errLine, parseProposalAnswer, parseProposal, parseSID/isSID and parseFW are each called directly on structured inputs (protocol lines, numeric boundary values, NUL/space/Unicode-space padding), on 1-3 byte-level mutations of them and on raw random bytes, and compared with their Lean definitions; a panic in any of them is a violation.", func(c *Ctx) {
		r := c.Rng
		var cases []Case
		n := c.Budget(1500, 40000)
		seedsClean := []string{"", "\x00", "\x00\x00", " \x00 ", "FF", " FQ ", "\x00FC EM ABC 1 2 0\x00", " x ", "\x85line\x85", "*** error", "\t[WL2K-5.0-B2FWIHJM$]\r"}
		seedsErr := []string{"", "*", "**", "*** Protocol error", "***", "* a * b", "***  spaced  ", "x*y", "*x", "*** trailing *"}
		seedsAns := []string{"FS +", "FS +-=", "FS YNL", "FS ynlr", "FS !100", "FS A5+", "FS +!", "FS ", "FS", "fs +", "FS +++++", "FS H", "FS !99999999999999999999", "FS A-5", "FS !0x10", "FS + -", "FS !12!34", "FS R", "FS E", "FS =A1", "FS A99999999999999999999", "FS !18446744073709551616+"}
		seedsProp := []string{"FC EM ABCDEFGHIJKL 100 50 0", "FA P LA1B LA5NTA NOCALL MID123 100", "FB P X Y Z M 1", "FC EM M 1 2", "FC EM M x 2 0", "FC EM M 1 y 0", "FC", "F", "FD EM M 1 2 0", "FC EM M -1 -2 0", "FC EM M 99999999999999999999 1 0", "FC  EM M 1 2 0", "FC EM M 1 2 0 extra", "FC CM M 1 2 0", "F> 2A", "FF", "FQ", "FC EM M +1 2 0", "FC EM M 0x1 2 0", "FC EM M 99999999999999999999E 1 0", "FC EM M 1 -18446744073709551616x 0", "FC EM M 18446744073709551615x 1 0"}
		seedsSID := []string{"[WL2K-5.0-B2FWIHJM$]", "[RMS Express-1.5.40.0-B2FHM$]", "[a-b]", "[-]", "[]", "[x]", "[a-b-c-d$]", "x[a-b]y", "[a-b]\n[c-d]", "[a\n-b]", "[[a-b]]", "[a-b]]", "[a-]", "[-b]", "[wl2k-go-0.1-b2fhm$]", "]a-b[", "[a-b", "a-b]"}
		seedsFW := []string{";FW: LA5NTA", ";FW: LA5NTA LE1OF|12345678", ";FW: ", ";FW:", ";FW: a b  c", ";FW: smtp:foo@bar.com nts:N0CALL", ";FW: la5nta|x|y", ";fw: LA5NTA", ";FW: |", ";FW: :", ";FW: winlink:la5nta-1", ";PQ: 1234", ";FW: A:B:C"}
		pick := func(seeds []string) string {
			switch r.Intn(10) {
			case 0, 1, 2:
				return seeds[r.Intn(len(seeds))]
			case 3:
				b := make([]byte, r.Intn(24))
				r.Read(b)
				return string(b)
			default:
				return fnMutate(r, seeds[r.Intn(len(seeds))])
			}
		}
		for i := 0; i < n && c.TimeLeft(); i++ {
			switch i % 6 {
			case 0:
				s := pick(seedsClean)
				var out string
				func() { defer recoverTo(&out); out = hs(fbb.VerifCleanString(s)) }()
				if strings.HasPrefix(out, "panic") {
					c.Violate("C03:fn-panic:cleanString", fmt.Sprintf("cleanString(%q) panicked: %s", s, out), map[string]interface{}{"input_hex": hs(s)})
				}
				cases = append(cases, Case{Line: "cleanstr " + hs(s), Impl: out, Desc: fmt.Sprintf("cleanString(%q)", s), Class: "fn-cleanString", Nontrivial: fbb.VerifCleanString(s) != s})
			case 1:
				s := pick(seedsErr)
				var out string
				func() {
					defer recoverTo(&out)
					if err := fbb.VerifErrLine(s); err != nil {
						out = "err " + hs(err.Error())
					} else {
						out = "nil"
					}
				}()
				if strings.HasPrefix(out, "panic") {
					c.Violate("C03:fn-panic:errLine", fmt.Sprintf("errLine(%q) panicked: %s", s, out), map[string]interface{}{"input_hex": hs(s)})
				}
				cases = append(cases, Case{Line: "errline " + hs(s), Impl: out, Desc: fmt.Sprintf("errLine(%q)", s), Class: "fn-errLine", Nontrivial: out != "nil"})
			case 2:
				s := pick(seedsAns)
				k := r.Intn(7)
				var out string
				func() {
					defer recoverTo(&out)
					as, offs, err := fbb.VerifParseProposalAnswer(s, k)
					if err != nil {
						out = "err"
						return
					}
					var parts []string
					for j := range as {
						parts = append(parts, fmt.Sprintf("%d:%d", as[j], offs[j]))
					}
					out = strings.TrimRight("ok "+strings.Join(parts, " "), " ")
					if len(parts) == 0 {
						out = "ok "
					}
				}()
				if strings.HasPrefix(out, "panic") {
					c.Violate("C03:fn-panic:parseProposalAnswer", fmt.Sprintf("parseProposalAnswer(%q, %d proposals) panicked: %s", s, k, out), map[string]interface{}{"input_hex": hs(s), "proposals": k})
				}
				cases = append(cases, Case{Line: fmt.Sprintf("propans %s %d", hs(s), k), Impl: out, Desc: fmt.Sprintf("parseProposalAnswer(%q, n=%d)", s, k), Class: "fn-parseProposalAnswer", Nontrivial: out != "err"})
			case 3:
				s := pick(seedsProp)
				var out string
				if len(s) < 2 || s[0] != 'F' {
					out = "skip" // parseProposal is only called on lines of at least two bytes that start with 'F'
				} else {
					func() {
						defer recoverTo(&out)
						f, err := fbb.VerifParseProposal(s)
						if err != nil {
							out = "err"
						} else {
							out = fmt.Sprintf("ok %d %s %s %d %d", f.Code, hs(f.MsgType), hs(f.Mid), f.Size, f.CompressedSize)
						}
					}()
				}
				if strings.HasPrefix(out, "panic") {
					c.Violate("C03:fn-panic:parseProposal", fmt.Sprintf("parseProposal(%q) panicked: %s", s, out), map[string]interface{}{"input_hex": hs(s)})
				}
				cases = append(cases, Case{Line: "parseprop " + hs(s), Impl: out, Desc: fmt.Sprintf("parseProposal(%q)", s), Class: "fn-parseProposal", Nontrivial: strings.HasPrefix(out, "ok")})
			case 4:
				s := pick(seedsSID)
				if !fnASCII(s) {
					continue // strings.ToUpper on non-ASCII is not modelled
				}
				var out string
				func() {
					defer recoverTo(&out)
					if !fbb.VerifIsSID(s) {
						out = "notsid"
					} else if v, err := fbb.VerifParseSID(s); err != nil {
						out = "err"
					} else {
						out = "ok " + hs(v)
					}
				}()
				if strings.HasPrefix(out, "panic") {
					c.Violate("C03:fn-panic:parseSID", fmt.Sprintf("parseSID(%q) panicked: %s", s, out), map[string]interface{}{"input_hex": hs(s)})
				}
				cases = append(cases, Case{Line: "parsesid " + hs(s), Impl: out, Desc: fmt.Sprintf("isSID/parseSID(%q)", s), Class: "fn-parseSID", Nontrivial: strings.HasPrefix(out, "ok")})
			default:
				s := pick(seedsFW)
				if !fnASCII(s) {
					continue
				}
				var out string
				func() {
					defer recoverTo(&out)
					addrs, err := fbb.VerifParseFW(s)
					if err != nil {
						out = "err"
						return
					}
					var parts []string
					for _, a := range addrs {
						parts = append(parts, hs(a.Proto)+"/"+hs(a.Addr))
					}
					out = "ok " + strings.Join(parts, " ")
				}()
				if strings.HasPrefix(out, "panic") {
					c.Violate("C03:fn-panic:parseFW", fmt.Sprintf("parseFW(%q) panicked: %s", s, out), map[string]interface{}{"input_hex": hs(s)})
				}
				cases = append(cases, Case{Line: "parsefw " + hs(s), Impl: out, Desc: fmt.Sprintf("parseFW(%q)", s), Class: "fn-parseFW", Nontrivial: strings.HasPrefix(out, "ok")})
			}
		}
		c.Compare(cases)
	})
}

func init() {
	registerExtra("C01", "function level (verif hook): sortProposals on 0..52 proposals built through fbb.NewProposal with titles carrying every precedence marker (//WL2K Z/, O/, P/, R/, none, several), payloads of equal and different compressed sizes and distinct MIDs, compared with the Lean sortProposals (the subject of sort_perm / sort_sorted).", func(c *Ctx) {
		r := c.Rng
		var cases []Case
		titles := []string{"//WL2K Z/ flash", "//WL2K O/ immediate", "//WL2K P/ priority", "//WL2K R/ routine", "plain", "", "re: //WL2K P/ x", "//WL2K O/ and //WL2K Z/", "//wl2k z/ lower", "//WL2K Z/"}
		payloads := [][]byte{[]byte("a"), []byte("b"), []byte("hello world"), bytes.Repeat([]byte("x"), 500), bytes.Repeat([]byte("xy"), 250), []byte("c")}
		for i := 0; i < c.Budget(300, 5000); i++ {
			n := r.Intn(13)
			if i%3 == 0 {
				n = 13 + r.Intn(40) // beyond the insertion-sort threshold of Go's sort package
			}
			props := make([]*fbb.Proposal, n)
			var toks []string
			for j := range props {
				mid := fmt.Sprintf("M%02d%c%04d", r.Intn(20), 'A'+byte(r.Intn(3)), j)
				title := titles[r.Intn(len(titles))]
				data := payloads[r.Intn(len(payloads))]
				if r.Intn(3) == 0 {
					data = make([]byte, r.Intn(300))
					r.Read(data)
				}
				props[j] = fbb.NewProposal(mid, title, fbb.Wl2kProposal, data)
				t := title
				if t == "" {
					t = "No title"
				}
				toks = append(toks, fmt.Sprintf("%s:%d:%s", hs(t), props[j].CompressedSize(), hs(mid)))
			}
			fbb.VerifSortProposals(props)
			var out []string
			for _, p := range props {
				out = append(out, hs(p.MID()))
			}
			cases = append(cases, Case{Line: strings.TrimSpace("sortprops " + strings.Join(toks, " ")), Impl: strings.Join(out, " "), Desc: fmt.Sprintf("sortProposals of %d proposals", n), Class: "fn-sortProposals", Nontrivial: n >= 2})
		}
		c.Compare(cases)
	})
}
