package main

import (
	"bytes"
	"context"
	"encoding/hex"
	"encoding/json"
	"errors"
	"fmt"
	"hash/fnv"
	"io"
	"math/rand"
	"net"
	"net/url"
	"os"
	"regexp"
	"runtime"
	"strings"
	"sync"
	"time"

	"github.com/la5nta/wl2k-go/transport"
	"github.com/la5nta/wl2k-go/transport/telnet"
)

// C15 — telnet login hands over a clean stream and honours the dial deadline.

const (
	tnSlack    = 400 * time.Millisecond // elapsed ≤ deadline + slack
	tnMargin   = 100                    // ms: scripted events that matter keep this distance from the deadline
	tnCallProm = "Callsign :\r"
	tnPwProm   = "Password :\r"
)

// tnScenario is one run of real code against a scripted (or real) peer; it is also the replay format.
type tnScenario struct {
	Kind       string    `json:"kind"` // client-tcp | server-tcp | pair-tcp | server-mem
	Class      string    `json:"class"`
	CallHex    string    `json:"call_hex"`
	PwHex      string    `json:"password_hex"`
	Via        string    `json:"via,omitempty"` // ctx-deadline | ctx-cancel | timeout | url | dialer | background
	DeadlineMs int       `json:"deadline_ms"`
	Chunks     []tnChunk `json:"peer_writes"`
	End        string    `json:"peer_end"` // silent | close | reset
	EndAtMs    int       `json:"peer_end_at_ms"`
	PayloadHex string    `json:"own_payload_hex"`
	Reads      []int     `json:"read_sizes,omitempty"`
	NoModel    bool      `json:"no_model,omitempty"`
	NoRead     bool      `json:"peer_never_reads,omitempty"` // the scripted peer never reads (tiny receive buffer)
	CallRepeat int       `json:"call_repeat,omitempty"`      // the callsign is CallHex repeated this many times
}

func (s *tnScenario) call() []byte {
	b, _ := hex.DecodeString(s.CallHex)
	if s.CallRepeat > 1 {
		return bytes.Repeat(b, s.CallRepeat)
	}
	return b
}
func (s *tnScenario) pw() []byte      { b, _ := hex.DecodeString(s.PwHex); return b }
func (s *tnScenario) payload() []byte { b, _ := hex.DecodeString(s.PayloadHex); return b }
func (s *tnScenario) fill() {
	for i := range s.Chunks {
		if s.Chunks[i].Data == nil {
			s.Chunks[i].Data, _ = hex.DecodeString(s.Chunks[i].Hex)
		}
		s.Chunks[i].Hex = hex.EncodeToString(s.Chunks[i].Data)
	}
}
func (s *tnScenario) all() []byte {
	var b []byte
	for _, c := range s.Chunks {
		b = append(b, c.Data...)
	}
	return b
}

func asciiSpaceB(c byte) bool { return c == ' ' || (c >= 9 && c <= 13) }
func asciiTrim(s string) string {
	i, j := 0, len(s)
	for i < j && asciiSpaceB(s[i]) {
		i++
	}
	for j > i && asciiSpaceB(s[j-1]) {
		j--
	}
	return s[i:j]
}
func asciiLower(s string) string {
	b := []byte(s)
	for i, c := range b {
		if c >= 'A' && c <= 'Z' {
			b[i] = c + 32
		}
	}
	return string(b)
}

// kind of a prompt line by the rule of the protocol (Go's own string functions) and by the ASCII model.
func tnKind(line string, ascii bool) string {
	var l string
	if ascii {
		l = asciiTrim(asciiLower(line))
	} else {
		l = strings.TrimSpace(strings.ToLower(line))
	}
	switch {
	case strings.HasPrefix(l, "callsign"):
		return "callsign"
	case strings.HasPrefix(l, "password"):
		return "password"
	}
	return "other"
}

// tnClientOracle: what a correct client must do on the scripted server stream, computed independently of
// the model: the replies it writes and where the post-login payload starts. Only chunks that arrive before
// the deadline can take part in the login. ok=false: the login cannot complete.
func tnClientOracle(sc *tnScenario) (replies []byte, payloadAt int, ok bool, modelable bool) {
	modelable = true
	var stream []byte
	var arrive []int // arrival time of each byte
	for _, c := range sc.Chunks {
		for range c.Data {
			arrive = append(arrive, c.At)
		}
		stream = append(stream, c.Data...)
	}
	pos := 0
	for {
		i := bytes.IndexByte(stream[pos:], '\r')
		if i < 0 {
			return replies, 0, false, modelable
		}
		end := pos + i + 1
		if sc.DeadlineMs > 0 && arrive[end-1] >= sc.DeadlineMs {
			return replies, 0, false, modelable
		}
		if sc.End != "silent" && arrive[end-1] > sc.EndAtMs {
			return replies, 0, false, modelable
		}
		line := string(stream[pos:end])
		k := tnKind(line, false)
		if k != tnKind(line, true) {
			modelable = false
		}
		switch k {
		case "callsign":
			replies = append(replies, append(sc.call(), '\r')...)
		case "password":
			replies = append(replies, append(sc.pw(), '\r')...)
			return replies, end, true, modelable
		}
		pos = end
	}
}

func tnErrClass(err error) string {
	if err == nil {
		return "nil"
	}
	s := err.Error()
	switch {
	case errors.Is(err, context.DeadlineExceeded), errors.Is(err, context.Canceled), isTimeoutErr(err),
		strings.Contains(s, "i/o timeout"), strings.Contains(s, "deadline exceeded"), strings.Contains(s, "context canceled"):
		return "timeout"
	case errors.Is(err, io.EOF), strings.Contains(s, "EOF"), strings.Contains(s, "reset by peer"),
		strings.Contains(s, "closed network"), strings.Contains(s, "broken pipe"):
		return "eof"
	}
	return "other(" + s + ")"
}

type tnResult struct {
	Impl     string // canonical outcome in the format of the driver's -nt ops
	Elapsed  time.Duration
	Hung     bool
	Panic    interface{}
	Notes    []string
	Stream   []byte
	RC       string
	PeerRecv []byte
	Err      error
	IsConn   bool
	Impl2    string // pair-tcp: the server side's outcome
	Stream2  []byte
}

func lostOf(expected, got []byte) string {
	if bytes.Equal(expected, got) {
		return "-"
	}
	if len(got) <= len(expected) && bytes.HasSuffix(expected, got) {
		return hx(expected[:len(expected)-len(got)])
	}
	return "?"
}

func tnReadSizes(sc *tnScenario) func() int {
	i := 0
	return func() int {
		if len(sc.Reads) == 0 {
			return 4096
		}
		n := sc.Reads[i%len(sc.Reads)]
		i++
		if n <= 0 {
			n = 1
		}
		return n
	}
}

// dialVia calls the real dial function selected by the scenario.
func dialVia(sc *tnScenario, addr string) (net.Conn, error) {
	d := time.Duration(sc.DeadlineMs) * time.Millisecond
	call, pw := string(sc.call()), string(sc.pw())
	switch sc.Via {
	case "ctx-cancel":
		ctx, cancel := context.WithCancel(context.Background())
		t := time.AfterFunc(d, cancel)
		defer t.Stop()
		defer cancel()
		return telnet.DialContext(ctx, addr, call, pw)
	case "timeout":
		return telnet.DialTimeout(addr, call, pw, d)
	case "url", "dialer":
		u := &url.URL{Scheme: "telnet", Host: addr, Path: "/wl2k", User: url.UserPassword(call, pw)}
		dl := telnet.Dialer{}
		if sc.Via == "url" {
			u.RawQuery = "dial_timeout=" + fmt.Sprintf("%dms", sc.DeadlineMs)
		} else {
			dl.Timeout = d
		}
		tu, err := transport.ParseURL(u.String())
		if err != nil {
			return nil, fmt.Errorf("harness: ParseURL: %v", err)
		}
		return dl.DialURL(tu)
	case "urlctx-dialer", "urlctx-param", "urlctx-cancel":
		u := &url.URL{Scheme: "telnet", Host: addr, Path: "/wl2k", User: url.UserPassword(call, pw)}
		dl := telnet.Dialer{}
		if sc.Via == "urlctx-param" {
			u.RawQuery = "dial_timeout=" + fmt.Sprintf("%dms", 10*sc.DeadlineMs+3000)
		} else {
			dl.Timeout = 10*d + 3*time.Second
		}
		tu, err := transport.ParseURL(u.String())
		if err != nil {
			return nil, fmt.Errorf("harness: ParseURL: %v", err)
		}
		if sc.Via == "urlctx-cancel" {
			ctx, cancel := context.WithCancel(context.Background())
			t := time.AfterFunc(d, cancel)
			defer t.Stop()
			defer cancel()
			return dl.DialURLContext(ctx, tu)
		}
		ctx, cancel := context.WithTimeout(context.Background(), d)
		defer cancel()
		return dl.DialURLContext(ctx, tu)
	case "urlctxlate-dialer", "urlctxlate-param", "urlctxlate-cancelonly":
		// the reverse: the caller's context expires much LATER than the dialer's own timeout (or never, it can only be
		// cancelled): the configured timeout still bounds the dial
		u := &url.URL{Scheme: "telnet", Host: addr, Path: "/wl2k", User: url.UserPassword(call, pw)}
		dl := telnet.Dialer{}
		if sc.Via == "urlctxlate-param" {
			u.RawQuery = "dial_timeout=" + fmt.Sprintf("%dms", sc.DeadlineMs)
			dl.Timeout = 10*d + 3*time.Second // (the parameter overrides it)
		} else {
			dl.Timeout = d
		}
		tu, err := transport.ParseURL(u.String())
		if err != nil {
			return nil, fmt.Errorf("harness: ParseURL: %v", err)
		}
		if sc.Via == "urlctxlate-cancelonly" {
			ctx, cancel := context.WithCancel(context.Background())
			defer cancel()
			return dl.DialURLContext(ctx, tu)
		}
		ctx, cancel := context.WithTimeout(context.Background(), 10*d+3*time.Second)
		defer cancel()
		return dl.DialURLContext(ctx, tu)
	case "background":
		return telnet.DialContext(context.Background(), addr, call, pw)
	default: // ctx-deadline
		ctx, cancel := context.WithTimeout(context.Background(), d)
		defer cancel()
		return telnet.DialContext(ctx, addr, call, pw)
	}
}

// runClientTCP: real Dial* against a scripted server on loopback.
func runClientTCP(sc *tnScenario) (res tnResult) {
	sc.fill()
	ln, err := net.Listen("tcp", "127.0.0.1:0")
	if err != nil {
		res.Impl = "harness-error " + err.Error()
		return
	}
	defer ln.Close()
	peer := newTCPPeer(sc.Chunks, sc.End, sc.EndAtMs)
	peer.noRead = sc.NoRead
	go peer.serve(ln)
	defer func() {
		peer.Release()
		select {
		case <-peer.done:
		case <-time.After(3 * time.Second):
			res.Notes = append(res.Notes, "scripted peer did not finish")
		}
	}()

	type dres struct {
		c   net.Conn
		err error
		el  time.Duration
		p   interface{}
	}
	ch := make(chan dres, 1)
	t0 := time.Now()
	go func() {
		var r dres
		defer func() {
			if p := recover(); p != nil {
				r.p = p
			}
			r.el = time.Since(t0)
			ch <- r
		}()
		r.c, r.err = dialVia(sc, ln.Addr().String())
	}()
	watchdog := time.Duration(sc.DeadlineMs)*time.Millisecond + tnSlack + 800*time.Millisecond
	var r dres
	select {
	case r = <-ch:
	case <-time.After(watchdog):
		// blocked: free it by closing the server side, remember that it hung
		res.Hung = true
		res.Elapsed = time.Since(t0)
		w := peer.Received()
		peer.Release()
		select {
		case r = <-ch:
			if r.c != nil {
				r.c.Close()
			}
		case <-time.After(3 * time.Second):
			res.Notes = append(res.Notes, "dial goroutine still blocked after the peer closed")
		}
		res.Impl = "hang w=" + hx(w)
		return
	}
	res.Elapsed, res.Panic, res.Err = r.el, r.p, r.err
	if r.p != nil {
		res.Impl = fmt.Sprintf("panic %v", r.p)
		return
	}
	if r.err != nil || r.c == nil {
		// the dial closed the connection: the peer sees EOF and has then received all the client wrote
		waitRecvQuiet(peer)
		res.Impl = "fail " + tnErrClass(r.err) + " w=" + hx(peer.Received())
		return
	}
	res.IsConn = true
	conn := r.c
	defer conn.Close()
	if tc, ok := conn.(*telnet.Conn); ok {
		res.RC = tc.RemoteCall()
	} else {
		res.Notes = append(res.Notes, fmt.Sprintf("returned conn is %T, not *telnet.Conn", conn))
	}
	_, payloadAt, _, _ := tnClientOracle(sc)
	expected := sc.all()[payloadAt:]
	conn.SetWriteDeadline(time.Now().Add(3 * time.Second))
	conn.Write(sc.payload())
	got, rerr := readAvailable(conn, len(expected), sc.End == "close", tnReadSizes(sc), 3*time.Second)
	if rerr != nil {
		res.Notes = append(res.Notes, "post-login read: "+tnErrClass(rerr))
	}
	res.Stream = got
	conn.Close()
	waitRecvQuiet(peer)
	recv := peer.Received()
	res.PeerRecv = recv
	w := recv
	if bytes.HasSuffix(recv, sc.payload()) {
		w = recv[:len(recv)-len(sc.payload())]
	} else {
		res.Notes = append(res.Notes, "peer did not receive the post-login payload intact")
	}
	res.Impl = "conn w=" + hx(w) + " stream=" + hx(got) + " lost=" + lostOf(expected, got)
	return
}

// waitRecvQuiet: the other side has closed its connection; let the scripted peer see that (it then has
// received everything that was sent) and finish.
func waitRecvQuiet(p *tcpPeer) {
	p.Release()
	select {
	case <-p.done:
	case <-time.After(3 * time.Second):
	}
}

// runServerTCP: real Listen/Accept on loopback against a scripted client that blasts its script
// (callsign, password, payload in arbitrary TCP writes) without waiting for the prompts.
func runServerTCP(sc *tnScenario) (res tnResult) {
	sc.fill()
	ln, err := telnet.Listen("127.0.0.1:0")
	if err != nil {
		res.Impl = "harness-error " + err.Error()
		return
	}
	defer ln.Close()
	peer := newTCPPeer(sc.Chunks, sc.End, sc.EndAtMs)
	cconn, err := net.Dial("tcp", ln.Addr().String())
	if err != nil {
		res.Impl = "harness-error " + err.Error()
		return
	}
	go peer.run(cconn)
	defer func() {
		peer.Release()
		select {
		case <-peer.done:
		case <-time.After(3 * time.Second):
			res.Notes = append(res.Notes, "scripted peer did not finish")
		}
	}()
	type ares struct {
		c   net.Conn
		err error
		p   interface{}
	}
	ch := make(chan ares, 1)
	go func() {
		var r ares
		defer func() {
			if p := recover(); p != nil {
				r.p = p
			}
			ch <- r
		}()
		r.c, r.err = ln.Accept()
	}()
	var r ares
	select {
	case r = <-ch:
	case <-time.After(4 * time.Second):
		res.Hung = true
		peer.Release()
		select {
		case r = <-ch:
			if r.c != nil {
				r.c.Close()
			}
		case <-time.After(3 * time.Second):
		}
		res.Impl = "hang w=" + hx(peer.Received())
		return
	}
	res.Panic, res.Err = r.p, r.err
	if r.p != nil {
		res.Impl = fmt.Sprintf("panic %v", r.p)
		return
	}
	tc, ok := r.c.(*telnet.Conn)
	if !ok {
		if r.c != nil {
			r.c.Close()
		}
		waitRecvQuiet(peer)
		res.Impl = "rawerr " + tnErrClass(r.err) + " w=" + hx(peer.Received())
		return
	}
	defer tc.Close()
	res.IsConn = true
	res.RC = tc.RemoteCall()
	all := sc.all()
	loginLen := len(sc.call()) + 1 + len(sc.pw()) + 1
	var expected []byte
	if loginLen <= len(all) {
		expected = all[loginLen:]
	}
	tc.SetWriteDeadline(time.Now().Add(3 * time.Second))
	tc.Write(sc.payload())
	var got []byte
	if r.err == nil {
		var rerr error
		if sc.End == "close" && len(expected)%2 == 0 {
			// a relay drains the connection with io.Copy: whatever shortcut the connection offers to io.Copy
			// (io.WriterTo) has to hand over the bytes that arrived together with the login lines as well
			tc.SetReadDeadline(time.Now().Add(3 * time.Second))
			var buf bytes.Buffer
			_, rerr = io.Copy(&buf, tc)
			got = buf.Bytes()
			if ne, ok := rerr.(net.Error); ok && ne.Timeout() && len(got) == len(expected) {
				rerr = nil
			}
		} else {
			got, rerr = readAvailable(tc, len(expected), sc.End == "close", tnReadSizes(sc), 3*time.Second)
		}
		if rerr != nil {
			res.Notes = append(res.Notes, "post-login read: "+tnErrClass(rerr))
		}
	}
	res.Stream = got
	tc.Close()
	waitRecvQuiet(peer)
	recv := peer.Received()
	res.PeerRecv = recv
	w := recv
	if bytes.HasSuffix(recv, sc.payload()) {
		w = recv[:len(recv)-len(sc.payload())]
	} else {
		res.Notes = append(res.Notes, "peer did not receive the post-login payload intact")
	}
	es := "-"
	if r.err != nil {
		es = tnErrClass(r.err)
	}
	res.Impl = "conn rc=" + hs(res.RC) + " err=" + es + " w=" + hx(w) + " stream=" + hx(got) + " lost=" + lostOf(expected, got) + " reads="
	return
}

// runPairTCP: real Listen/Accept against real Dial*; both sides write their payload the moment the login
// returns (so the payload may share a segment with the last login line) and read the other side's.
func runPairTCP(sc *tnScenario) (res tnResult) {
	ln, err := telnet.Listen("127.0.0.1:0")
	if err != nil {
		res.Impl = "harness-error " + err.Error()
		return
	}
	defer ln.Close()
	payloadC := sc.payload()
	payloadS := []byte{}
	if len(sc.Chunks) > 0 {
		sc.fill()
		payloadS = sc.Chunks[0].Data
	}
	type sres struct {
		impl   string
		stream []byte
		rc     string
		p      interface{}
	}
	sch := make(chan sres, 1)
	go func() {
		var r sres
		defer func() {
			if p := recover(); p != nil {
				r.p = p
				r.impl = fmt.Sprintf("panic %v", p)
			}
			sch <- r
		}()
		c, err := ln.Accept()
		tc, ok := c.(*telnet.Conn)
		if !ok || err != nil {
			r.impl = "accept-failed " + tnErrClass(err)
			if c != nil {
				c.Close()
			}
			return
		}
		defer tc.Close()
		r.rc = tc.RemoteCall()
		wrote := make(chan struct{})
		go func() {
			defer close(wrote)
			tc.SetWriteDeadline(time.Now().Add(5 * time.Second))
			tc.Write(payloadS)
			if t, ok := tc.Conn.(*net.TCPConn); ok {
				t.CloseWrite()
			}
		}()
		defer func() { <-wrote }() // do not close the connection under the writer
		got, rerr := readAvailable(tc, len(payloadC), true, tnReadSizes(sc), 5*time.Second)
		if rerr != nil {
			r.impl = "read-failed " + tnErrClass(rerr) + " "
		}
		r.stream = got
		r.impl += "conn rc=" + hs(r.rc) + " err=- w=" + hs(tnCallProm+tnPwProm) + " stream=" + hx(got) + " lost=" + lostOf(payloadC, got) + " reads="
	}()
	t0 := time.Now()
	type dres struct {
		c   net.Conn
		err error
		p   interface{}
	}
	dch := make(chan dres, 1)
	go func() {
		var r dres
		defer func() {
			if p := recover(); p != nil {
				r.p = p
			}
			dch <- r
		}()
		r.c, r.err = dialVia(sc, ln.Addr().String())
	}()
	var d dres
	select {
	case d = <-dch:
	case <-time.After(5 * time.Second):
		res.Hung = true
		res.Impl = "hang w=?"
		ln.Close()
		return
	}
	res.Elapsed = time.Since(t0)
	if d.p != nil || d.err != nil || d.c == nil {
		res.Panic, res.Err = d.p, d.err
		res.Impl = "fail " + tnErrClass(d.err) + " w=?"
		ln.Close()
		select {
		case <-sch:
		case <-time.After(3 * time.Second):
		}
		return
	}
	res.IsConn = true
	conn := d.c
	defer conn.Close()
	go func() {
		conn.SetWriteDeadline(time.Now().Add(5 * time.Second))
		conn.Write(payloadC)
		if tc, ok := conn.(*telnet.Conn); ok {
			if t, ok := tc.Conn.(*net.TCPConn); ok {
				t.CloseWrite()
			}
		}
	}()
	got, rerr := readAvailable(conn, len(payloadS), true, tnReadSizes(sc), 5*time.Second)
	if rerr != nil {
		res.Notes = append(res.Notes, "client post-login read: "+tnErrClass(rerr))
	}
	res.Stream = got
	res.Impl = "conn w=" + hx(append(append(append(sc.call(), '\r'), sc.pw()...), '\r')) + " stream=" + hx(got) + " lost=" + lostOf(payloadS, got)
	select {
	case s := <-sch:
		res.Impl2, res.Stream2, res.RC, res.Panic = s.impl, s.stream, s.rc, s.p
	case <-time.After(6 * time.Second):
		res.Impl2 = "server-side-stuck"
	}
	return
}

func showWrites(w [][]byte) string {
	if len(w) == 0 {
		return "."
	}
	parts := make([]string, len(w))
	for i, b := range w {
		parts[i] = hx(b)
	}
	return strings.Join(parts, ",")
}

// runServerMem: real listener.Accept (via telnet.VerifListener) on an in-memory connection whose reads
// return exactly the scripted chunks. Output in the format of the driver's `telnet-server` op.
func runServerMem(sc *tnScenario) (res tnResult) {
	sc.fill()
	chunks := make([][]byte, len(sc.Chunks))
	for i, c := range sc.Chunks {
		chunks[i] = c.Data
	}
	conn := newScriptConn(chunks, sc.End == "close")
	inner := newOneShotListener(conn)
	ln := telnet.VerifListener(inner)
	defer inner.Close()
	defer conn.Close()
	type ares struct {
		c   net.Conn
		err error
		p   interface{}
	}
	ch := make(chan ares, 1)
	go func() {
		var r ares
		defer func() {
			if p := recover(); p != nil {
				r.p = p
			}
			ch <- r
		}()
		r.c, r.err = ln.Accept()
	}()
	var r ares
	select {
	case r = <-ch:
	case <-conn.blocked:
		res.Hung = true
		res.Impl = "hang w=" + showWrites(conn.Written())
		conn.Close()
		select {
		case <-ch:
		case <-time.After(3 * time.Second):
			res.Notes = append(res.Notes, "Accept still blocked after Close")
		}
		return
	case <-time.After(10 * time.Second):
		res.Hung = true
		res.Impl = "stuck"
		conn.Close()
		return
	}
	res.Panic, res.Err = r.p, r.err
	if r.p != nil {
		res.Impl = fmt.Sprintf("panic %v", r.p)
		return
	}
	w := showWrites(conn.Written())
	tc, ok := r.c.(*telnet.Conn)
	if !ok {
		res.Impl = "rawerr " + tnErrClass(r.err) + " w=" + w
		return
	}
	res.IsConn = true
	res.RC = tc.RemoteCall()
	conn.EndWithEOF()
	var reads []string
	var got []byte
	for _, n := range sc.Reads {
		buf := make([]byte, n)
		k, _ := tc.Read(buf)
		reads = append(reads, hx(buf[:k]))
		got = append(got, buf[:k]...)
	}
	rest, _ := io.ReadAll(tc)
	got = append(got, rest...)
	res.Stream = got
	all := sc.all()
	var expected []byte
	es := "-"
	if r.err != nil {
		es = tnErrClass(r.err)
	} else {
		// what follows the first two CR-terminated lines
		i := bytes.IndexByte(all, '\r')
		j := bytes.IndexByte(all[i+1:], '\r')
		expected = all[i+1+j+1:]
	}
	res.Impl = "conn rc=" + hs(res.RC) + " err=" + es + " w=" + w + " stream=" + hx(got) + " lost=" + lostOf(expected, got) + " reads=" + strings.Join(reads, "|")
	return
}

// ---- generators ----

func tnRandBytes(r *rand.Rand, n int, noCR bool) []byte {
	b := make([]byte, n)
	for i := range b {
		b[i] = byte(r.Intn(256))
		if noCR && b[i] == '\r' {
			b[i] = '\n'
		}
	}
	return b
}

func tnGenCall(r *rand.Rand) []byte {
	switch r.Intn(12) {
	case 0:
		return []byte("")
	case 1:
		return []byte(" LA1B ") // blanks: trimmed by the server (oracle decision: observation)
	case 2:
		return []byte("\tN0CALL-10\n")
	case 3:
		return bytes.Repeat([]byte("LONGCALL"), 520+r.Intn(200)) // > bufio buffer
	case 4:
		return tnRandBytes(r, 1+r.Intn(12), true)
	case 5:
		return []byte("LÆ1ØÅ")
	case 6:
		return []byte("LA1B\u00a0") // ends in U+00A0: Go trims it, the ASCII model does not (skipped for the model)
	case 7:
		return []byte("password") // a callsign that looks like a prompt
	default:
		calls := []string{"LA1B", "LA5NTA", "N0CALL-10", "w1aw-7", "LD5SK", "A", "K0ABC/P", "wl2k"}
		return []byte(calls[r.Intn(len(calls))])
	}
}

func tnGenPw(r *rand.Rand) []byte {
	switch r.Intn(6) {
	case 0:
		return []byte("")
	case 1:
		return tnRandBytes(r, 1+r.Intn(16), true)
	case 2:
		return bytes.Repeat([]byte("p"), 4090+r.Intn(20))
	default:
		return []byte([]string{"CMSTelnet", "secret", "x y", "pässword"}[r.Intn(4)])
	}
}

func tnGenPayload(r *rand.Rand, max int) []byte {
	switch r.Intn(8) {
	case 0:
		return nil
	case 1:
		return []byte("[WL2K-5.0-B2FWIHJM$]\rPQ: 12345678\rCMS>\r")
	case 2:
		return []byte("Password :\rCallsign :\r") // payload that looks like prompts
	case 3:
		return []byte{0, '\r', 0xff, '\n', 0x1a, 4}
	case 4:
		// first bytes a line-oriented login reader is tempted to swallow
		return append([]byte([]string{"\n", "\r", "\r\n", "\n\n", "\x00", "\xff\xfb\x01", " ", "\t"}[r.Intn(8)]), tnRandBytes(r, r.Intn(20), false)...)
	default:
		return tnRandBytes(r, 1+r.Intn(max), false)
	}
}

// cutStream cuts b at the given sorted positions.
func cutStream(b []byte, cuts []int) [][]byte {
	var out [][]byte
	prev := 0
	for _, c := range cuts {
		if c > prev && c < len(b) {
			out = append(out, b[prev:c])
			prev = c
		}
	}
	if prev < len(b) || len(out) == 0 {
		out = append(out, b[prev:])
	}
	return out
}

func tnRandCuts(r *rand.Rand, n, k int) []int {
	if n <= 1 {
		return nil
	}
	m := map[int]bool{}
	for i := 0; i < k; i++ {
		m[1+r.Intn(n-1)] = true
	}
	var out []int
	for i := 1; i < n; i++ {
		if m[i] {
			out = append(out, i)
		}
	}
	return out
}

func timedChunks(parts [][]byte, startMs, gapMs int) []tnChunk {
	out := make([]tnChunk, len(parts))
	for i, p := range parts {
		out[i] = tnChunk{At: startMs + i*gapMs, Data: p}
	}
	return out
}

// "urlctx-*": Dialer.DialURLContext with a caller context that expires BEFORE the dialer's own timeout
// (Dialer.Timeout resp. dial_timeout are 10x longer): the earlier of the two must win
var tnVias = []string{"ctx-deadline", "timeout", "ctx-cancel", "url", "dialer", "urlctx-dialer", "urlctx-param", "urlctx-cancel", "urlctxlate-dialer", "urlctxlate-param", "urlctxlate-cancelonly"}

func tnURLSafe(b []byte) bool {
	for _, c := range b {
		if c < 0x21 || c > 0x7e {
			return false
		}
	}
	return len(b) > 0
}

// genClientScenarios: the adversarial-server scenarios for the real Dial* functions.
func genClientScenarios(r *rand.Rand, n int) []*tnScenario {
	var out []*tnScenario
	add := func(s *tnScenario) {
		if (s.Via == "url" || s.Via == "dialer" || strings.HasPrefix(s.Via, "urlctx")) && !(tnURLSafe(s.call()) && tnURLSafe(s.pw())) {
			s.Via = "ctx-deadline"
		}
		if s.DeadlineMs == 0 {
			s.Via = "background"
		}
		s.Kind = "client-tcp"
		s.fill()
		out = append(out, s)
	}
	via := func() string { return tnVias[r.Intn(len(tnVias))] }
	dl := func() int { return 50 + 10*r.Intn(26) } // 50..300 ms
	prompts := func() ([]byte, []byte) {
		cp := []string{tnCallProm, "Callsign :\r", "CALLSIGN:\r", "\r\ncallsign :\r", "  Callsign?\r", "\nCallsign :\r"}[r.Intn(6)]
		pp := []string{tnPwProm, "Password :\r", "PASSWORD:\r", "\npassword :\r", " \tPassword\r"}[r.Intn(5)]
		pre := ""
		switch r.Intn(5) {
		case 0:
			pre = "Welcome to the test server\r\n*** banner ***\r"
		case 1:
			pre = "\r\r\n\r"
		case 2:
			pre = string(tnRandBytes(r, 1+r.Intn(30), true)) + "\r"
		}
		mid := ""
		if r.Intn(4) == 0 {
			mid = "ok\r"
		}
		return []byte(pre + cp + mid), []byte(pp)
	}
	// fixed, named scenarios first (the defects found on the original code and the behaviours the property lists)
	c, p := []byte("LA1B"), []byte("CMSTelnet")
	fixed := []*tnScenario{
		{Class: "ok-coalesced", CallHex: hx0(c), PwHex: hx0(p), Via: "timeout", DeadlineMs: 300, End: "silent",
			Chunks: []tnChunk{{At: 0, Data: []byte(tnCallProm)}, {At: 8, Data: []byte(tnPwProm + "PAYLOAD")}}, PayloadHex: hx0([]byte("FROM-CLIENT"))},
		{Class: "ok-coalesced", CallHex: hx0(c), PwHex: hx0(p), Via: "ctx-deadline", DeadlineMs: 300, End: "close", EndAtMs: 20,
			Chunks: []tnChunk{{At: 0, Data: []byte(tnCallProm + tnPwProm + "[WL2K-5.0-B2FWIHJM$]\rCMS>\r")}}, PayloadHex: hx0([]byte("x"))},
		{Class: "silent", CallHex: hx0(c), PwHex: hx0(p), Via: "timeout", DeadlineMs: 100, End: "silent"},
		{Class: "silent", CallHex: hx0(c), PwHex: hx0(p), Via: "ctx-deadline", DeadlineMs: 50, End: "silent"},
		{Class: "silent", CallHex: hx0(c), PwHex: hx0(p), Via: "ctx-cancel", DeadlineMs: 150, End: "silent"},
		{Class: "silent", CallHex: hx0(c), PwHex: hx0(p), Via: "url", DeadlineMs: 120, End: "silent"},
		{Class: "silent", CallHex: hx0(c), PwHex: hx0(p), Via: "dialer", DeadlineMs: 120, End: "silent"},
		{Class: "silent", CallHex: hx0(c), PwHex: hx0(p), Via: "urlctx-dialer", DeadlineMs: 120, End: "silent"},
		{Class: "silent", CallHex: hx0(c), PwHex: hx0(p), Via: "urlctx-param", DeadlineMs: 150, End: "silent"},
		{Class: "silent", CallHex: hx0(c), PwHex: hx0(p), Via: "urlctxlate-dialer", DeadlineMs: 120, End: "silent"},
		{Class: "silent", CallHex: hx0(c), PwHex: hx0(p), Via: "urlctxlate-param", DeadlineMs: 150, End: "silent"},
		{Class: "partial-prompt", CallHex: hx0(c), PwHex: hx0(p), Via: "urlctxlate-cancelonly", DeadlineMs: 150, End: "silent",
			Chunks: []tnChunk{{At: 0, Data: []byte(tnCallProm)}, {At: 10, Data: []byte("Passw")}}},
		{Class: "partial-prompt", CallHex: hx0(c), PwHex: hx0(p), Via: "urlctx-cancel", DeadlineMs: 150, End: "silent",
			Chunks: []tnChunk{{At: 0, Data: []byte("Callsi")}}},
		{Class: "partial-prompt", CallHex: hx0(c), PwHex: hx0(p), Via: "timeout", DeadlineMs: 150, End: "silent",
			Chunks: []tnChunk{{At: 0, Data: []byte("Callsi")}}},
		{Class: "partial-prompt", CallHex: hx0(c), PwHex: hx0(p), Via: "timeout", DeadlineMs: 200, End: "silent",
			Chunks: []tnChunk{{At: 0, Data: []byte(tnCallProm)}, {At: 10, Data: []byte("Passw")}}},
		{Class: "immediate-close", CallHex: hx0(c), PwHex: hx0(p), Via: "timeout", DeadlineMs: 300, End: "close", EndAtMs: 0},
		{Class: "immediate-close", CallHex: hx0(c), PwHex: hx0(p), Via: "timeout", DeadlineMs: 300, End: "reset", EndAtMs: 5},
		{Class: "immediate-close", CallHex: hx0(c), PwHex: hx0(p), Via: "background", DeadlineMs: 0, End: "close", EndAtMs: 10},
		{Class: "late-prompts", CallHex: hx0(c), PwHex: hx0(p), Via: "timeout", DeadlineMs: 100, End: "silent",
			Chunks: []tnChunk{{At: 100 + tnMargin + 20, Data: []byte(tnCallProm)}, {At: 100 + tnMargin + 40, Data: []byte(tnPwProm)}}},
		{Class: "garbage", CallHex: hx0(c), PwHex: hx0(p), Via: "timeout", DeadlineMs: 150, End: "silent",
			Chunks: []tnChunk{{At: 0, Data: bytes.Repeat([]byte{0xff, 0xfd, 0x18}, 3000)}, {At: 20, Data: bytes.Repeat([]byte("x"), 9000)}}},
	}
	// a server that prompts but never reads what the dialler answers: the dialler's WRITE blocks once the
	// socket buffers are full (16 MiB callsign), and the deadline must end that too
	for _, v := range []string{"timeout", "ctx-deadline", "ctx-cancel"} {
		fixed = append(fixed, &tnScenario{Class: "never-reads", CallHex: hx0([]byte("LA1B-LONG-CALLSIGN-0123456789ABC")), CallRepeat: 1 << 19, PwHex: hx0(p), Via: v, DeadlineMs: 250, End: "silent",
			NoRead: true, NoModel: true, Chunks: []tnChunk{{At: 0, Data: []byte(tnCallProm)}, {At: 20, Data: []byte(tnPwProm)}}})
	}
	for _, s := range fixed {
		add(s)
	}
	for len(out) < n {
		call, pw := tnGenCall(r), tnGenPw(r)
		s := &tnScenario{CallHex: hx0(call), PwHex: hx0(pw), Via: via(), DeadlineMs: dl()}
		if r.Intn(3) == 0 {
			s.Reads = []int{1 + r.Intn(5), 1 + r.Intn(5000), 1 + r.Intn(64)}
		}
		switch k := r.Intn(20); {
		case k < 9: // login succeeds; payload follows under some segmentation
			pre, pp := prompts()
			payload := tnGenPayload(r, 6000)
			stream := append(append(append([]byte{}, pre...), pp...), payload...)
			login := len(pre) + len(pp)
			var cuts []int
			switch r.Intn(6) {
			case 0:
				s.Class = "ok-coalesced" // payload in the same write as the last login line
				cuts = tnRandCuts(r, len(pre), r.Intn(3))
			case 1:
				s.Class = "ok-coalesced-partly" // last login line + first part of the payload
				cuts = tnRandCuts(r, len(pre), r.Intn(3))
				if len(payload) > 1 {
					cuts = append(cuts, login+1+r.Intn(len(payload)-1))
				}
			case 2:
				s.Class = "ok-boundary" // cut exactly at the login/payload boundary
				cuts = append(tnRandCuts(r, login, r.Intn(3)), login)
			case 3:
				s.Class = "ok-bytewise" // prompts one byte per write
				nb := login
				if nb > 18 {
					nb = 18
				}
				for i := login - nb + 1; i <= login-1; i++ {
					cuts = append(cuts, i)
				}
				if r.Intn(2) == 0 {
					cuts = append(cuts, login)
				}
			case 4:
				s.Class = "ok-one-write"
			default:
				s.Class = "ok-random-cuts"
				cuts = tnRandCuts(r, len(stream), 1+r.Intn(8))
			}
			if len(payload) == 0 {
				s.Class = "ok-no-payload"
			}
			parts := cutStream(stream, cuts)
			s.Chunks = timedChunks(parts, 0, 3+r.Intn(3))
			last := s.Chunks[len(s.Chunks)-1].At
			if s.DeadlineMs < last+tnMargin+30 {
				s.DeadlineMs = last + tnMargin + 30 + 10*r.Intn(10)
			}
			if r.Intn(6) == 0 {
				s.DeadlineMs = 0
			}
			if r.Intn(2) == 0 {
				s.End, s.EndAtMs = "close", last+5
			} else {
				s.End = "silent"
			}
			s.PayloadHex = hx0(tnGenPayload(r, 3000))
		case k < 11:
			s.Class, s.End = "silent", "silent"
		case k < 13: // partial prompt, then silence or close
			s.Class = "partial-prompt"
			full := []byte(tnCallProm + tnPwProm)
			cut := 1 + r.Intn(len(full)-1)
			if full[cut-1] == '\r' && cut == len(full) {
				cut--
			}
			s.Chunks = timedChunks(cutStream(full[:cut], tnRandCuts(r, cut, r.Intn(3))), 0, 4)
			if r.Intn(3) == 0 {
				s.End, s.EndAtMs = "close", s.Chunks[len(s.Chunks)-1].At+5+r.Intn(10)
				if s.DeadlineMs < s.EndAtMs+tnMargin+20 {
					s.DeadlineMs = s.EndAtMs + tnMargin + 20
				}
			} else {
				s.End = "silent"
				if s.DeadlineMs < s.Chunks[len(s.Chunks)-1].At+tnMargin+20 {
					s.DeadlineMs = s.Chunks[len(s.Chunks)-1].At + tnMargin + 20
				}
			}
		case k < 16: // garbage: no prompts at all; keeps coming until after the deadline
			s.Class = "garbage"
			nch := 1 + r.Intn(12)
			for i := 0; i < nch; i++ {
				var g []byte
				switch r.Intn(4) {
				case 0:
					g = tnRandBytes(r, 1+r.Intn(200), false)
				case 1:
					g = bytes.Repeat([]byte("\r"), 1+r.Intn(50))
				case 2:
					g = tnRandBytes(r, 4000+r.Intn(3000), true) // longer than the bufio buffer, no CR
				default:
					g = []byte("login:\rnot a callsign prompt\rpass word\r")
				}
				s.Chunks = append(s.Chunks, tnChunk{At: i * (s.DeadlineMs + 100) / nch, Data: g})
			}
			s.End = []string{"silent", "silent", "close", "reset"}[r.Intn(4)]
			s.EndAtMs = s.DeadlineMs + 100 + tnMargin
			if s.End != "silent" && r.Intn(2) == 0 { // closes well before the deadline instead
				keep := s.Chunks[:0]
				for _, ch := range s.Chunks {
					if ch.At < s.DeadlineMs-tnMargin-10 {
						keep = append(keep, ch)
					}
				}
				s.Chunks = keep
				s.EndAtMs = 0
				if len(keep) > 0 {
					s.EndAtMs = keep[len(keep)-1].At + 3
				}
				if s.DeadlineMs < s.EndAtMs+tnMargin+10 {
					s.DeadlineMs = s.EndAtMs + tnMargin + 10
				}
			}
		case k < 17:
			s.Class = "immediate-close"
			s.End = []string{"close", "reset"}[r.Intn(2)]
			s.EndAtMs = r.Intn(15)
			if s.DeadlineMs < s.EndAtMs+tnMargin+10 {
				s.DeadlineMs = s.EndAtMs + tnMargin + 10
			}
			if r.Intn(3) == 0 {
				s.DeadlineMs = 0
			}
		case k < 18: // prompts arrive only after the deadline
			s.Class, s.End = "late-prompts", "silent"
			s.Chunks = []tnChunk{{At: s.DeadlineMs + tnMargin + 10, Data: []byte(tnCallProm)}, {At: s.DeadlineMs + tnMargin + 20, Data: []byte(tnPwProm)}}
		case k < 19: // callsign prompt answered, then nothing
			s.Class, s.End = "callsign-then-silent", "silent"
			s.Chunks = []tnChunk{{At: 0, Data: []byte(tnCallProm)}}
			if s.DeadlineMs < tnMargin+30 {
				s.DeadlineMs = tnMargin + 30
			}
		default: // a flood of callsign prompts until after the deadline: oracle only (the number answered is a race)
			s.Class, s.End, s.NoModel = "prompt-flood", "silent", true
			for t := 0; t < s.DeadlineMs+100; t += 2 {
				s.Chunks = append(s.Chunks, tnChunk{At: t, Data: []byte("Callsign :\rjunk\r")})
			}
		}
		add(s)
	}
	return out
}

func hx0(b []byte) string { return hex.EncodeToString(b) }

// genServerStream builds "call CR pw CR payload" scenarios for the server side.
func genServerScenarios(r *rand.Rand, n int, kind string) []*tnScenario {
	var out []*tnScenario
	for len(out) < n {
		call, pw := tnGenCall(r), tnGenPw(r)
		payload := tnGenPayload(r, 9000)
		stream := append(append(append(append([]byte{}, call...), '\r'), pw...), '\r')
		login := len(stream)
		stream = append(stream, payload...)
		s := &tnScenario{Kind: kind, CallHex: hx0(call), PwHex: hx0(pw)}
		var cuts []int
		switch r.Intn(7) {
		case 0:
			s.Class = "ok-coalesced"
			cuts = tnRandCuts(r, len(call)+1, r.Intn(2))
		case 1:
			s.Class = "ok-coalesced-partly"
			if len(payload) > 1 {
				cuts = []int{login + 1 + r.Intn(len(payload)-1)}
			}
		case 2:
			s.Class = "ok-boundary"
			cuts = append(tnRandCuts(r, login, r.Intn(3)), login)
		case 3:
			s.Class = "ok-one-write"
		case 4:
			s.Class = "ok-big-chunks" // chunks larger than the 4096-byte buffer
			for c := 4097 + r.Intn(3000); c < len(stream); c += 4097 + r.Intn(3000) {
				cuts = append(cuts, c)
			}
		default:
			s.Class = "ok-random-cuts"
			cuts = tnRandCuts(r, len(stream), 1+r.Intn(10))
		}
		if len(payload) == 0 {
			s.Class = "ok-no-payload"
		}
		gap := 3 + r.Intn(3)
		if kind == "server-mem" {
			gap = 1
		}
		s.Chunks = timedChunks(cutStream(stream, cuts), 0, gap)
		last := s.Chunks[len(s.Chunks)-1].At
		if r.Intn(2) == 0 {
			s.End, s.EndAtMs = "close", last+5
		} else {
			s.End = "silent"
		}
		if kind == "server-mem" {
			for i, k := 0, r.Intn(5); i < k; i++ {
				s.Reads = append(s.Reads, []int{1, 2, 7, 100, 4095, 4096, 4097, 10000}[r.Intn(8)])
			}
		} else if r.Intn(3) == 0 {
			s.Reads = []int{1 + r.Intn(5), 1 + r.Intn(5000), 1 + r.Intn(64)}
		}
		s.PayloadHex = hx0(tnGenPayload(r, 3000))
		s.fill()
		out = append(out, s)
	}
	return out
}

// ---- model lines ----

func chunkFields(cs []tnChunk) string {
	parts := make([]string, len(cs))
	for i, c := range cs {
		parts[i] = fmt.Sprintf("%d:%s", c.At, hx(c.Data))
	}
	return strings.Join(parts, " ")
}

func endField(s *tnScenario) string {
	if s.End == "silent" {
		return "s"
	}
	return fmt.Sprintf("c%d", s.EndAtMs)
}

func clientLine(op string, s *tnScenario) string {
	d := "-"
	if s.DeadlineMs > 0 {
		d = fmt.Sprint(s.DeadlineMs)
	}
	return strings.TrimRight(fmt.Sprintf("%s code %s %s 0 %s %s %s", op, d, endField(s), hx(s.call()), hx(s.pw()), chunkFields(s.Chunks)), " ")
}

func serverLine(op string, s *tnScenario) string {
	reads := "-"
	if len(s.Reads) > 0 && op == "telnet-server" {
		parts := make([]string, len(s.Reads))
		for i, n := range s.Reads {
			parts[i] = fmt.Sprint(n)
		}
		reads = strings.Join(parts, ",")
	}
	return strings.TrimRight(fmt.Sprintf("%s code %s %s %s", op, endField(s), reads, chunkFields(s.Chunks)), " ")
}

func tnDesc(s *tnScenario) string {
	b, _ := json.Marshal(s)
	return trunc(string(b), 600)
}

// runParallel runs f over the scenarios with a bounded number of workers; results keep the order.
func runParallel(scs []*tnScenario, workers int, alive func() bool, f func(*tnScenario) tnResult) []*tnResult {
	res := make([]*tnResult, len(scs))
	var wg sync.WaitGroup
	idx := make(chan int)
	for w := 0; w < workers; w++ {
		wg.Add(1)
		go func() {
			defer wg.Done()
			for i := range idx {
				r := f(scs[i])
				res[i] = &r
			}
		}()
	}
	for i := range scs {
		if !alive() {
			break
		}
		idx <- i
	}
	close(idx)
	wg.Wait()
	return res
}

func telnetGoroutines() []string {
	buf := make([]byte, 1<<20)
	buf = buf[:runtime.Stack(buf, true)]
	var out []string
	for _, g := range strings.Split(string(buf), "\n\n") {
		if strings.Contains(g, "wl2k-go/transport/telnet.") {
			out = append(out, g)
		}
	}
	return out
}

func init() {
	register("C15", "cases: (1) real listener.Accept over an in-memory connection with EXACT read segmentation (verif hook): every chunking of short 'call CR pw CR payload' streams (2^(L-1) each) plus random streams with callsigns/passwords up to 5 KiB, payloads up to 9 KiB, chunks above the 4096-byte bufio buffer, truncated streams ending in EOF or silence, post-login reads with buffer sizes 1..10000; (2) real Dial/DialTimeout/DialContext/Dialer.DialURL on loopback TCP against a scripted server (TCP_NODELAY, one write per chunk, 3-5 ms apart): banners, prompt spellings, payload coalesced with / split from the last login line, byte-wise prompts, silent / partial prompt / garbage (incl. >4096 bytes without CR, floods that continue past the deadline) / FIN / RST / late prompts, deadlines 50-300 ms via every API that carries one (ctx deadline, ctx cancel, DialTimeout, dial_timeout URL parameter, Dialer.Timeout); (3) real Listen/Accept against a scripted client that blasts callsign+password+payload without waiting; (4) real dialler against real listener with payloads both ways written the moment the login returns. Each case also goes through the Lean model (configuration = facts extracted from the source). Oracle on the real code: RemoteCall, payload integrity both ways, replies written, elapsed <= deadline + 400 ms, no goroutine left in the package. Non-trivial: every case except empty-payload successes; distinct by driver line.", func(c *Ctx) {
		if c.Tier == "replay" && len(os.Args) > 6 {
			c15Replay(c, os.Args[6])
			return
		}
		var cases []Case
		obs := map[string]int{}
		violated := map[string]bool{}
		violate := func(key, what string, sc *tnScenario, r *tnResult) {
			c.Violate(key, what, map[string]interface{}{"scenario": sc, "observed": r.Impl, "observed_server_side": r.Impl2, "elapsed_ms": r.Elapsed.Milliseconds(), "notes": r.Notes})
		}

		// ---------- (1) server, in memory, exact segmentation ----------
		var mem []*tnScenario
		// exhaustive chunkings of short streams
		short := [][3]string{{"AB", "C", "XYZ"}, {"A", "", "\rP"}, {" B ", "pw", "Q"}}
		if c.Thorough() {
			short = append(short, [3]string{"LA1B", "pw", "HELLO"}, [3]string{"", "", "0123456789"})
		}
		for _, t := range short {
			stream := []byte(t[0] + "\r" + t[1] + "\r" + t[2])
			L := len(stream)
			for mask := 0; mask < 1<<(L-1); mask++ {
				var cuts []int
				for i := 1; i < L; i++ {
					if mask&(1<<(i-1)) != 0 {
						cuts = append(cuts, i)
					}
				}
				s := &tnScenario{Kind: "server-mem", Class: "exhaustive-chunkings", CallHex: hx0([]byte(t[0])), PwHex: hx0([]byte(t[1])),
					Chunks: timedChunks(cutStream(stream, cuts), 0, 1), End: []string{"silent", "close"}[mask%2], EndAtMs: L + 1}
				if mask%3 == 0 {
					s.Reads = []int{1, 2}
				}
				s.fill()
				mem = append(mem, s)
			}
		}
		mem = append(mem, genServerScenarios(c.Rng, c.Budget(300, 6000), "server-mem")...)
		// truncated / failing streams
		for i := 0; i < c.Budget(120, 2000); i++ {
			call, pw := tnGenCall(c.Rng), tnGenPw(c.Rng)
			stream := append(append(append(append([]byte{}, call...), '\r'), pw...), '\r')
			cut := c.Rng.Intn(len(stream)) // drop at least the final CR
			stream = stream[:cut]
			s := &tnScenario{Kind: "server-mem", Class: "truncated", CallHex: hx0(call), PwHex: hx0(pw),
				Chunks: timedChunks(cutStream(stream, tnRandCuts(c.Rng, len(stream), c.Rng.Intn(4))), 0, 1), End: []string{"silent", "close"}[c.Rng.Intn(2)]}
			if len(stream) == 0 {
				s.Chunks = nil
			}
			s.EndAtMs = len(s.Chunks) + 1
			s.fill()
			mem = append(mem, s)
		}
		for _, s := range mem {
			if !c.TimeLeft() {
				break
			}
			r := runServerMem(s)
			if r.Panic != nil {
				violate("C15:accept-panic", fmt.Sprintf("listener.Accept panicked: %v", r.Panic), s, &r)
				continue
			}
			all := s.all()
			complete := bytes.Count(all, []byte{'\r'}) >= 2 && len(all) >= len(s.call())+len(s.pw())+2 && s.Class != "truncated"
			call := string(s.call())
			// the law of the real strings.TrimSpace that remoteCall_eq_call_of_laws assumes
			if strings.TrimSpace(call+"\r") != strings.TrimSpace(call) {
				c.Violate("C15:trimspace-law", fmt.Sprintf("strings.TrimSpace(%q+CR) != strings.TrimSpace(%q)", call, call), map[string]interface{}{"call_hex": s.CallHex})
			}
			if complete {
				payload := all[len(s.call())+len(s.pw())+2:]
				switch {
				case !r.IsConn || r.Err != nil:
					violate("C15:accept-fails-on-complete-login", "Accept did not return a logged-in connection for a complete login stream: "+r.Impl, s, &r)
				case !bytes.Equal(r.Stream, payload):
					violate("C15:server-lost-bytes", fmt.Sprintf("accepted connection delivered %d of %d payload bytes after the login (%s): bytes that arrived in the same read as the password line are gone", len(r.Stream), len(payload), s.Class), s, &r)
				case r.RC != strings.TrimSpace(call):
					violate("C15:remotecall-differs", fmt.Sprintf("RemoteCall()=%q for dialled callsign %q", r.RC, call), s, &r)
				}
				if strings.TrimSpace(call) != call {
					obs["callsign with surrounding white space is trimmed by the server (oracle decision: observation)"]++
				}
			}
			if strings.TrimSpace(call) != asciiTrim(call) {
				obs["callsign ending in Unicode white space: Go trims it, ASCII model does not - model comparison skipped"]++
				continue
			}
			cases = append(cases, Case{Line: serverLine("telnet-server", s), Impl: r.Impl, Desc: "Accept(in-memory) " + tnDesc(s), Class: "server-mem/" + s.Class, Nontrivial: s.Class != "ok-no-payload"})
		}

		// ---------- (2) client over TCP against scripted servers ----------
		cl := genClientScenarios(c.Rng, c.Budget(260, 3000))
		workers := 8
		evalClient := func(s *tnScenario, r *tnResult, confirm bool) (final *tnResult) {
			defer func() { final = r }()
			if r.Panic != nil {
				violate("C15:dial-panic", fmt.Sprintf("dial panicked: %v", r.Panic), s, r)
				return
			}
			replies, payloadAt, ok, _ := tnClientOracle(s)
			d := time.Duration(s.DeadlineMs) * time.Millisecond
			if s.DeadlineMs > 0 && (r.Hung || r.Elapsed > d+tnSlack) {
				late := true
				if confirm && !violated["C15:dial-exceeds-deadline:"+s.Class] {
					// confirm alone (no parallel load) before reporting a timing violation
					r2 := runClientTCP(s)
					if r2.Hung || r2.Elapsed > d+tnSlack {
						r = &r2
					} else {
						late = false
						obs["timing outlier under load, not confirmed on re-run"]++
					}
				}
				if late {
					how := fmt.Sprintf("returned after %d ms", r.Elapsed.Milliseconds())
					if r.Hung {
						how = fmt.Sprintf("still blocked %d ms after the call (released only by closing the server side)", r.Elapsed.Milliseconds())
					}
					violated["C15:dial-exceeds-deadline:"+s.Class] = true
					violate("C15:dial-exceeds-deadline:"+s.Class, fmt.Sprintf("%s with a %d ms deadline against a %s server %s", s.Via, s.DeadlineMs, s.Class, how), s, r)
					return
				}
			}
			if confirm && s.DeadlineMs > 0 && ok != r.IsConn && !r.Hung {
				// whether the login completed before the deadline depends on real time: confirm alone
				r2 := runClientTCP(s)
				if ok == r2.IsConn {
					obs["timing outlier under load, not confirmed on re-run"]++
				}
				r = &r2
			}
			if confirm && s.DeadlineMs > 0 && !r.IsConn && !r.Hung && s.End != "silent" && s.EndAtMs+tnMargin < s.DeadlineMs && strings.HasPrefix(r.Impl, "fail timeout") {
				// the server ended the connection well before the deadline, the dial reports the deadline: which of the
				// two events the dial sees first depends on real time (a loaded machine delays the close): confirm alone
				r2 := runClientTCP(s)
				if !strings.HasPrefix(r2.Impl, "fail timeout") {
					obs["timing outlier under load, not confirmed on re-run"]++
				}
				r = &r2
			}
			if s.NoRead {
				// the replies can never be delivered: the only prescribed outcome is an error by the deadline
				if r.IsConn {
					violate("C15:dial-succeeds-without-login", "dial returned a connection although the server never read the login replies: "+trunc(r.Impl, 200), s, r)
				}
				return
			}
			if ok {
				expected := s.all()[payloadAt:]
				switch {
				case !r.IsConn:
					violate("C15:dial-fails-on-complete-login", "dial failed although the server sent a complete login dialogue in time: "+r.Impl, s, r)
				case !bytes.Equal(r.Stream, expected):
					violate("C15:client-lost-bytes", fmt.Sprintf("dialled connection delivered %d of %d bytes the server sent after its password prompt (%s): bytes that arrived in the same segment as the prompt are gone", len(r.Stream), len(expected), s.Class), s, r)
				case !bytes.Equal(r.PeerRecv, append(append([]byte{}, replies...), s.payload()...)):
					violate("C15:client-sent-wrong-bytes", fmt.Sprintf("server received %q, expected replies %q followed by the %d payload bytes", trunc(string(r.PeerRecv), 80), trunc(string(replies), 80), len(s.payload())), s, r)
				}
			} else if r.IsConn {
				violate("C15:dial-succeeds-without-login", "dial returned a connection although the login dialogue did not complete (before the deadline): "+r.Impl, s, r)
			}
			return
		}
		// a class whose scenarios keep blocking is not run to the end: three hangs are reported, the rest skipped
		var hmu sync.Mutex
		hangs := map[string]int{}
		results := runParallel(cl, workers, c.TimeLeft, func(s *tnScenario) tnResult {
			hmu.Lock()
			skip := hangs[s.Class] >= 3
			hmu.Unlock()
			if skip {
				return tnResult{Impl: "skipped"}
			}
			r := runClientTCP(s)
			if r.Hung {
				hmu.Lock()
				hangs[s.Class]++
				hmu.Unlock()
			}
			return r
		})
		var maxDev time.Duration
		var timeLines []string
		var timeIdx []int
		for i, s := range cl {
			r := results[i]
			if r == nil || r.Impl == "skipped" {
				if r != nil {
					c.Res.Distribution["client-tcp/"+s.Class+"(skipped after 3 hangs)"]++
				}
				continue
			}
			r = evalClient(s, r, true)
			results[i] = r
			_, _, _, modelable := tnClientOracle(s)
			if s.NoModel || !modelable {
				c.Res.Distribution["client-tcp/"+s.Class+"(oracle only)"]++
				continue
			}
			cases = append(cases, Case{Line: clientLine("telnet-client-nt", s), Impl: r.Impl, Desc: s.Via + " vs scripted server " + tnDesc(s), Class: "client-tcp/" + s.Class, Nontrivial: s.Class != "ok-no-payload"})
			timeLines = append(timeLines, clientLine("telnet-client", s))
			timeIdx = append(timeIdx, i)
		}
		// model-predicted return time vs measured (observation only)
		for j, out := range c.Model(timeLines) {
			var t int
			if k := strings.LastIndex(out, " t="); k >= 0 {
				fmt.Sscan(out[k+3:], &t)
				dev := results[timeIdx[j]].Elapsed - time.Duration(t)*time.Millisecond
				if dev < 0 {
					dev = -dev
				}
				if dev > maxDev {
					maxDev = dev
				}
			}
		}
		c.Note("C15: largest |measured return time - abstract return time of the model| over %d dial runs: %d ms (observation; the oracle is elapsed <= deadline + %d ms)", len(timeLines), maxDev.Milliseconds(), tnSlack.Milliseconds())

		// ---------- (2b) ONE Dialer value used for several dials: each dial has its own deadline ----------
		for round := 0; round < c.Budget(2, 12) && c.TimeLeft(); round++ {
			short := 150 + 50*c.Rng.Intn(3)
			dl := telnet.Dialer{Timeout: time.Duration(short) * time.Millisecond}
			dialOnce := func(chunks []tnChunk, query string) (time.Duration, error) {
				ln, err := net.Listen("tcp", "127.0.0.1:0")
				if err != nil {
					return 0, err
				}
				defer ln.Close()
				peer := newTCPPeer(chunks, "silent", 0)
				go peer.serve(ln)
				defer peer.Release()
				u := &url.URL{Scheme: "telnet", Host: ln.Addr().String(), Path: "/wl2k", User: url.UserPassword("LA1B", "pw"), RawQuery: query}
				tu, err := transport.ParseURL(u.String())
				if err != nil {
					return 0, err
				}
				t0 := time.Now()
				done := make(chan error, 1)
				go func() {
					conn, err := dl.DialURL(tu)
					if conn != nil {
						conn.Close()
					}
					done <- err
				}()
				select {
				case err = <-done:
				case <-time.After(6 * time.Second):
					err = errors.New("still blocked after 6 s")
				}
				return time.Since(t0), err
			}
			healthy := []tnChunk{{At: 0, Data: []byte(tnCallProm)}, {At: 5, Data: []byte(tnPwProm)}}
			long := fmt.Sprintf("dial_timeout=%dms", 3000+500*c.Rng.Intn(3))
			rep := map[string]interface{}{"dialer_timeout_ms": short, "history": []string{"silent server, no parameter", "healthy server, " + long, "silent server, no parameter"}}
			el1, _ := dialOnce(nil, "")
			_, err2 := dialOnce(healthy, long)
			el3, err3 := dialOnce(nil, "")
			rep["elapsed_ms"] = []int64{el1.Milliseconds(), el3.Milliseconds()}
			if err2 != nil {
				c.Violate("C15:dial-fails-on-complete-login", "second dial of the history failed although the server sent a complete login dialogue: "+err2.Error(), rep)
			}
			lim := time.Duration(short)*time.Millisecond + tnSlack
			if el1 > lim || el3 > lim || err3 == nil {
				c.Violate("C15:dial-exceeds-deadline:dialer-reuse", fmt.Sprintf("a Dialer with Timeout %d ms against a silent server returned after %d ms, and after %d ms once an earlier dial on the same Dialer had carried %s (err %v)", short, el1.Milliseconds(), el3.Milliseconds(), long, err3), rep)
			}
			c.Res.Distribution["client-tcp/dialer-reuse(oracle only)"]++
		}

		// ---------- (3) server over TCP against scripted clients ----------
		sv := genServerScenarios(c.Rng, c.Budget(100, 1200), "server-tcp")
		sres := runParallel(sv, workers, c.TimeLeft, runServerTCP)
		for i, s := range sv {
			r := sres[i]
			if r == nil {
				continue
			}
			if r.Panic != nil {
				violate("C15:accept-panic", fmt.Sprintf("listener.Accept panicked: %v", r.Panic), s, r)
				continue
			}
			all := s.all()
			payload := all[len(s.call())+len(s.pw())+2:]
			call := string(s.call())
			switch {
			case !r.IsConn || r.Err != nil:
				violate("C15:accept-fails-on-complete-login", "Accept did not return a logged-in connection for a complete login stream: "+r.Impl, s, r)
			case !bytes.Equal(r.Stream, payload):
				violate("C15:server-lost-bytes", fmt.Sprintf("accepted connection delivered %d of %d payload bytes after the login (%s): bytes that arrived in the same segment as the password line are gone", len(r.Stream), len(payload), s.Class), s, r)
			case r.RC != strings.TrimSpace(call):
				violate("C15:remotecall-differs", fmt.Sprintf("RemoteCall()=%q for dialled callsign %q", r.RC, call), s, r)
			case !bytes.Equal(r.PeerRecv, append([]byte(tnCallProm+tnPwProm), s.payload()...)):
				violate("C15:server-sent-wrong-bytes", fmt.Sprintf("client received %q, expected the two prompts followed by the %d payload bytes", trunc(string(r.PeerRecv), 80), len(s.payload())), s, r)
			}
			if strings.TrimSpace(call) != asciiTrim(call) {
				continue
			}
			cases = append(cases, Case{Line: serverLine("telnet-server-nt", s), Impl: r.Impl, Desc: "Listen/Accept vs scripted client " + tnDesc(s), Class: "server-tcp/" + s.Class, Nontrivial: s.Class != "ok-no-payload"})
		}

		// ---------- (4) real dialler against real listener ----------
		var pairs []*tnScenario
		for i := 0; i < c.Budget(100, 1200); i++ {
			call, pw := tnGenCall(c.Rng), tnGenPw(c.Rng)
			s := &tnScenario{Kind: "pair-tcp", Class: "pair", CallHex: hx0(call), PwHex: hx0(pw), Via: tnVias[c.Rng.Intn(len(tnVias))], DeadlineMs: 3000,
				PayloadHex: hx0(tnGenPayload(c.Rng, 20000)), Chunks: []tnChunk{{At: 0, Data: tnGenPayload(c.Rng, 20000)}}, End: "close"}
			if (s.Via == "url" || s.Via == "dialer") && !(tnURLSafe(call) && tnURLSafe(pw)) {
				s.Via = "timeout"
			}
			if c.Rng.Intn(3) == 0 {
				s.Reads = []int{1 + c.Rng.Intn(5), 1 + c.Rng.Intn(5000), 1 + c.Rng.Intn(64)}
			}
			s.fill()
			pairs = append(pairs, s)
		}
		pres := runParallel(pairs, workers, c.TimeLeft, runPairTCP)
		for i, s := range pairs {
			r := pres[i]
			if r == nil {
				continue
			}
			call := string(s.call())
			payloadS := s.Chunks[0].Data
			switch {
			case r.Panic != nil:
				violate("C15:pair-panic", fmt.Sprintf("panic: %v", r.Panic), s, r)
			case !r.IsConn || r.Hung:
				violate("C15:pair-login-fails", "dialling a listener of this package did not log in: "+r.Impl+" / "+r.Impl2, s, r)
			case r.RC != strings.TrimSpace(call):
				violate("C15:remotecall-differs", fmt.Sprintf("RemoteCall()=%q for dialled callsign %q", r.RC, call), s, r)
			case !bytes.Equal(r.Stream2, s.payload()):
				violate("C15:server-lost-bytes", fmt.Sprintf("accepted connection delivered %d of %d bytes the dialler wrote right after the login", len(r.Stream2), len(s.payload())), s, r)
			case !bytes.Equal(r.Stream, payloadS):
				violate("C15:client-lost-bytes", fmt.Sprintf("dialled connection delivered %d of %d bytes the listener side wrote right after Accept", len(r.Stream), len(payloadS)), s, r)
			}
			if strings.TrimSpace(call) != call {
				obs["callsign with surrounding white space is trimmed by the server (oracle decision: observation)"]++
			}
			if strings.TrimSpace(call) != asciiTrim(call) {
				continue
			}
			// the model's answer does not depend on the segmentation (login_stream_clean): one chunk per direction
			toClient := &tnScenario{CallHex: s.CallHex, PwHex: s.PwHex, DeadlineMs: s.DeadlineMs, End: "close", EndAtMs: 1,
				Chunks: []tnChunk{{At: 0, Data: append([]byte(tnCallProm+tnPwProm), payloadS...)}}}
			toServer := &tnScenario{End: "close", EndAtMs: 1, Chunks: []tnChunk{{At: 0, Data: append(append(append(append(s.call(), '\r'), s.pw()...), '\r'), s.payload()...)}}}
			nt := len(payloadS) > 0 || len(s.payload()) > 0
			cases = append(cases, Case{Line: clientLine("telnet-client-nt", toClient), Impl: r.Impl, Desc: "pair, dialler side " + tnDesc(s), Class: "pair-tcp/client", Nontrivial: nt})
			cases = append(cases, Case{Line: serverLine("telnet-server-nt", toServer), Impl: r.Impl2, Desc: "pair, listener side " + tnDesc(s), Class: "pair-tcp/server", Nontrivial: nt})
		}

		// ---------- (4b) write, then Close at once: nothing that was written may be dropped ----------
		for k := 0; k < c.Budget(2, 8) && c.TimeLeft(); k++ {
			func() {
				ln, err := telnet.Listen("127.0.0.1:0")
				if err != nil {
					c.Note("4b: listen: %v", err)
					return
				}
				defer ln.Close()
				size := (1 + k%3) << 20
				payload := make([]byte, size)
				c.Rng.Read(payload)
				type res struct {
					n   int
					sum uint32
					err error
				}
				done := make(chan res, 1)
				go func() {
					conn, err := ln.Accept()
					if err != nil {
						done <- res{err: err}
						return
					}
					defer conn.Close()
					conn.SetReadDeadline(time.Now().Add(20 * time.Second))
					var r res
					buf := make([]byte, 32<<10)
					h := fnv.New32a()
					for {
						n, err := conn.Read(buf)
						r.n += n
						h.Write(buf[:n])
						if err != nil {
							if err != io.EOF {
								r.err = err
							}
							break
						}
						time.Sleep(300 * time.Microsecond) // a reader that is a little slower than the writer
					}
					r.sum = h.Sum32()
					done <- r
				}()
				conn, err := telnet.DialTimeout(ln.Addr().String(), "LA5NTA", "pw", 5*time.Second)
				if err != nil {
					c.Note("4b: dial: %v", err)
					return
				}
				conn.SetWriteDeadline(time.Now().Add(20 * time.Second))
				_, werr := conn.Write(payload)
				cerr := conn.Close() // at once: the bytes are still queued
				rep := map[string]interface{}{"written_bytes": size, "write_err": fmt.Sprint(werr), "close_err": fmt.Sprint(cerr)}
				select {
				case r := <-done:
					h := fnv.New32a()
					h.Write(payload)
					rep["received_bytes"], rep["read_err"] = r.n, fmt.Sprint(r.err)
					if werr == nil && (r.n != size || r.sum != h.Sum32() || r.err != nil) {
						c.Violate("C15:bytes-lost-at-close", fmt.Sprintf("the dialler wrote %d bytes and closed: the accepted connection received %d (read error %v) - what was written before Close has to arrive complete", size, r.n, r.err), rep)
					}
				case <-time.After(25 * time.Second):
					c.Violate("C15:bytes-lost-at-close", "the accepted connection did not see the end of the stream within 25 s after the dialler closed", rep)
				}
				obs["pair-tcp/write-then-close(oracle only)"]++
			}()
		}

		// ---------- no goroutine of the package left behind ----------
		var left []string
		for i := 0; i < 100; i++ {
			if left = telnetGoroutines(); len(left) == 0 {
				break
			}
			time.Sleep(20 * time.Millisecond)
		}
		if len(left) > 0 {
			c.Violate("C15:goroutine-left-blocked", fmt.Sprintf("%d goroutine(s) still inside transport/telnet after all connections were closed", len(left)), map[string]interface{}{"stacks": trunc(strings.Join(left, "\n\n"), 4000)})
		}
		for k, v := range obs {
			c.Note("C15 observation: %s (%d cases)", k, v)
		}
		c.Compare(cases)
	})
}

// c15Replay re-runs the scenario stored in a replay file and prints what happens.
func c15Replay(c *Ctx, path string) {
	b, err := os.ReadFile(path)
	if err != nil {
		fmt.Println("replay:", err)
		os.Exit(2)
	}
	var rp struct {
		Key  string `json:"key"`
		What string `json:"what"`
		Case struct {
			Scenario *tnScenario `json:"scenario"`
		} `json:"case"`
	}
	if err := json.Unmarshal(b, &rp); err != nil || rp.Case.Scenario == nil {
		fmt.Println("replay: no scenario in", path, err)
		os.Exit(2)
	}
	s := rp.Case.Scenario
	s.fill()
	var r tnResult
	switch s.Kind {
	case "client-tcp":
		r = runClientTCP(s)
	case "server-tcp":
		r = runServerTCP(s)
	case "pair-tcp":
		r = runPairTCP(s)
	default:
		r = runServerMem(s)
	}
	fmt.Printf("replay of %s (%s)\n  recorded: %s\n  scenario: %s\n  observed now: %s %s\n  elapsed: %d ms (deadline %d ms), hung=%v, notes=%v\n",
		path, rp.Key, rp.What, tnDesc(s), r.Impl, r.Impl2, r.Elapsed.Milliseconds(), s.DeadlineMs, r.Hung, r.Notes)
	bad := r.Hung || r.Panic != nil || regexp.MustCompile(`lost=[^-]`).MatchString(r.Impl+" "+r.Impl2) ||
		(s.DeadlineMs > 0 && r.Elapsed > time.Duration(s.DeadlineMs)*time.Millisecond+tnSlack)
	if bad {
		fmt.Println("  => the violation reproduces")
		os.Exit(1)
	}
	fmt.Println("  => no violation observed in this run")
}
