package main

// canon.go: an INDEPENDENT implementation of the canonical LZHUF algorithm (H. Yoshizaki's LZHUF.C,
// with the FBB parameters N=2048, F=60, THRESHOLD=2) and of the B2 header (CRC-16/XMODEM computed
// bit by bit). Written from the published algorithm, not from the library; shares no code with it.

const (
	cN         = 2048
	cF         = 60
	cThreshold = 2
	cNIL       = cN
	cNChar     = 256 - cThreshold + cF
	cT         = cNChar*2 - 1
	cR         = cT - 1
	cMaxFreq   = 0x8000
)

var cPCode = [64]byte{
	0x00, 0x20, 0x30, 0x40, 0x50, 0x58, 0x60, 0x68, 0x70, 0x78, 0x80, 0x88, 0x90, 0x94, 0x98, 0x9C,
	0xA0, 0xA4, 0xA8, 0xAC, 0xB0, 0xB4, 0xB8, 0xBC, 0xC0, 0xC2, 0xC4, 0xC6, 0xC8, 0xCA, 0xCC, 0xCE,
	0xD0, 0xD2, 0xD4, 0xD6, 0xD8, 0xDA, 0xDC, 0xDE, 0xE0, 0xE2, 0xE4, 0xE6, 0xE8, 0xEA, 0xEC, 0xEE,
	0xF0, 0xF1, 0xF2, 0xF3, 0xF4, 0xF5, 0xF6, 0xF7, 0xF8, 0xF9, 0xFA, 0xFB, 0xFC, 0xFD, 0xFE, 0xFF}
var cPLen = [64]byte{
	3, 4, 4, 4, 5, 5, 5, 5, 5, 5, 5, 5, 6, 6, 6, 6, 6, 6, 6, 6, 6, 6, 6, 6,
	7, 7, 7, 7, 7, 7, 7, 7, 7, 7, 7, 7, 7, 7, 7, 7, 7, 7, 7, 7, 7, 7, 7, 7,
	8, 8, 8, 8, 8, 8, 8, 8, 8, 8, 8, 8, 8, 8, 8, 8}

// decoding tables derived from the encoding tables (prefix code → (index, length))
var cDCode, cDLen [256]byte

func init() {
	for i := 0; i < 64; i++ {
		span := 1 << (8 - uint(cPLen[i]))
		for k := 0; k < span; k++ {
			cDCode[int(cPCode[i])+k] = byte(i)
			cDLen[int(cPCode[i])+k] = cPLen[i]
		}
	}
}

type canon struct {
	textBuf            [cN + cF - 1]byte
	matchPos, matchLen int
	lson, dad          [cN + 1]int
	rson               [cN + 257]int
	freq               [cT + 1]uint
	prnt               [cT + cNChar]int
	son                [cT]int

	out            []byte
	putbuf         uint16
	putlen         uint
	in             []byte
	inpos          int
	getbuf         uint16
	getlen         uint
	maxCodeLen     int
	truncatedCodes int
}

func (z *canon) initTree() {
	for i := cN + 1; i <= cN+256; i++ {
		z.rson[i] = cNIL
	}
	for i := 0; i < cN; i++ {
		z.dad[i] = cNIL
	}
}

func (z *canon) insertNode(r int) {
	cmp := 1
	key := z.textBuf[r:]
	p := cN + 1 + int(key[0])
	z.rson[r], z.lson[r] = cNIL, cNIL
	z.matchLen = 0
	for {
		if cmp >= 0 {
			if z.rson[p] != cNIL {
				p = z.rson[p]
			} else {
				z.rson[p] = r
				z.dad[r] = p
				return
			}
		} else {
			if z.lson[p] != cNIL {
				p = z.lson[p]
			} else {
				z.lson[p] = r
				z.dad[r] = p
				return
			}
		}
		i := 1
		for ; i < cF; i++ {
			if cmp = int(key[i]) - int(z.textBuf[p+i]); cmp != 0 {
				break
			}
		}
		if i > cThreshold {
			if i > z.matchLen {
				z.matchPos = ((r - p) & (cN - 1)) - 1
				if z.matchLen = i; z.matchLen >= cF {
					break
				}
			}
			if i == z.matchLen {
				if c := ((r - p) & (cN - 1)) - 1; c < z.matchPos {
					z.matchPos = c
				}
			}
		}
	}
	z.dad[r] = z.dad[p]
	z.lson[r] = z.lson[p]
	z.rson[r] = z.rson[p]
	z.dad[z.lson[p]] = r
	z.dad[z.rson[p]] = r
	if z.rson[z.dad[p]] == p {
		z.rson[z.dad[p]] = r
	} else {
		z.lson[z.dad[p]] = r
	}
	z.dad[p] = cNIL
}

func (z *canon) deleteNode(p int) {
	if z.dad[p] == cNIL {
		return
	}
	var q int
	if z.rson[p] == cNIL {
		q = z.lson[p]
	} else if z.lson[p] == cNIL {
		q = z.rson[p]
	} else {
		q = z.lson[p]
		if z.rson[q] != cNIL {
			for {
				q = z.rson[q]
				if z.rson[q] == cNIL {
					break
				}
			}
			z.rson[z.dad[q]] = z.lson[q]
			z.dad[z.lson[q]] = z.dad[q]
			z.lson[q] = z.lson[p]
			z.dad[z.lson[p]] = q
		}
		z.rson[q] = z.rson[p]
		z.dad[z.rson[p]] = q
	}
	z.dad[q] = z.dad[p]
	if z.rson[z.dad[p]] == p {
		z.rson[z.dad[p]] = q
	} else {
		z.lson[z.dad[p]] = q
	}
	z.dad[p] = cNIL
}

func (z *canon) startHuff() {
	for i := 0; i < cNChar; i++ {
		z.freq[i] = 1
		z.son[i] = i + cT
		z.prnt[i+cT] = i
	}
	i, j := 0, cNChar
	for j <= cR {
		z.freq[j] = z.freq[i] + z.freq[i+1]
		z.son[j] = i
		z.prnt[i], z.prnt[i+1] = j, j
		i += 2
		j++
	}
	z.freq[cT] = 0xffff
	z.prnt[cR] = 0
}

func (z *canon) reconst() {
	j := 0
	for i := 0; i < cT; i++ {
		if z.son[i] >= cT {
			z.freq[j] = (z.freq[i] + 1) / 2
			z.son[j] = z.son[i]
			j++
		}
	}
	for i, j := 0, cNChar; j < cT; i, j = i+2, j+1 {
		k := i + 1
		f := z.freq[i] + z.freq[k]
		z.freq[j] = f
		for k = j - 1; f < z.freq[k]; k-- {
		}
		k++
		// memmove(&freq[k+1], &freq[k], (j-k)*sizeof)
		for m := j; m > k; m-- {
			z.freq[m] = z.freq[m-1]
		}
		z.freq[k] = f
		for m := j; m > k; m-- {
			z.son[m] = z.son[m-1]
		}
		z.son[k] = i
	}
	for i := 0; i < cT; i++ {
		if k := z.son[i]; k >= cT {
			z.prnt[k] = i
		} else {
			z.prnt[k], z.prnt[k+1] = i, i
		}
	}
}

func (z *canon) update(c int) {
	if z.freq[cR] == cMaxFreq {
		z.reconst()
	}
	c = z.prnt[c+cT]
	for {
		z.freq[c]++
		k := z.freq[c]
		l := c + 1
		if k > z.freq[l] {
			for k > z.freq[l+1] {
				l++
			}
			z.freq[c] = z.freq[l]
			z.freq[l] = k
			i := z.son[c]
			z.prnt[i] = l
			if i < cT {
				z.prnt[i+1] = l
			}
			j := z.son[l]
			z.son[l] = i
			z.prnt[j] = c
			if j < cT {
				z.prnt[j+1] = c
			}
			z.son[c] = j
			c = l
		}
		if c = z.prnt[c]; c == 0 {
			break
		}
	}
}

func (z *canon) putcode(l int, c uint16) {
	z.putbuf |= c >> z.putlen
	z.putlen += uint(l)
	if z.putlen >= 8 {
		z.out = append(z.out, byte(z.putbuf>>8))
		z.putlen -= 8
		if z.putlen >= 8 {
			z.out = append(z.out, byte(z.putbuf))
			z.putlen -= 8
			z.putbuf = c << (uint(l) - z.putlen)
		} else {
			z.putbuf <<= 8
		}
	}
}

func (z *canon) encodeChar(c int) {
	var i uint16
	j := 0
	k := z.prnt[c+cT]
	for {
		i >>= 1
		if k&1 != 0 {
			i += 0x8000
		}
		j++
		if k = z.prnt[k]; k == cR {
			break
		}
	}
	if j > z.maxCodeLen {
		z.maxCodeLen = j
	}
	if j > 16 {
		z.truncatedCodes++
	}
	z.putcode(j, i)
	z.update(c)
}

func (z *canon) encodePosition(c int) {
	i := c >> 6
	z.putcode(int(cPLen[i]), uint16(cPCode[i])<<8)
	z.putcode(6, uint16(c&0x3f)<<10)
}

// canonEncode is LZHUF.C's Encode() (body only, after the 4-byte size).
func canonEncode(in []byte) (body []byte, maxCodeLen int) {
	z := &canon{}
	if len(in) == 0 {
		return nil, 0
	}
	pos := 0
	getc := func() int {
		if pos >= len(in) {
			return -1
		}
		pos++
		return int(in[pos-1])
	}
	z.startHuff()
	z.initTree()
	s, r := 0, cN-cF
	for i := s; i < r; i++ {
		z.textBuf[i] = ' '
	}
	ln := 0
	for ; ln < cF; ln++ {
		c := getc()
		if c < 0 {
			break
		}
		z.textBuf[r+ln] = byte(c)
	}
	for i := 1; i <= cF; i++ {
		z.insertNode(r - i)
	}
	z.insertNode(r)
	for {
		if z.matchLen > ln {
			z.matchLen = ln
		}
		if z.matchLen <= cThreshold {
			z.matchLen = 1
			z.encodeChar(int(z.textBuf[r]))
		} else {
			z.encodeChar(255 - cThreshold + z.matchLen)
			z.encodePosition(z.matchPos)
		}
		last := z.matchLen
		i := 0
		for ; i < last; i++ {
			c := getc()
			if c < 0 {
				break
			}
			z.deleteNode(s)
			z.textBuf[s] = byte(c)
			if s < cF-1 {
				z.textBuf[s+cN] = byte(c)
			}
			s = (s + 1) & (cN - 1)
			r = (r + 1) & (cN - 1)
			z.insertNode(r)
		}
		for ; i < last; i++ {
			z.deleteNode(s)
			s = (s + 1) & (cN - 1)
			r = (r + 1) & (cN - 1)
			ln--
			if ln > 0 {
				z.insertNode(r)
			}
		}
		if ln <= 0 {
			break
		}
	}
	if z.putlen > 0 {
		z.out = append(z.out, byte(z.putbuf>>8))
	}
	return z.out, z.maxCodeLen
}

// canonTok is one LZ77 token: a literal byte (length 0) or a match of length 3..60 at position code 0..2047
// (distance - 1 from the write position, as LZHUF.C's EncodePosition takes it).
type canonTok struct {
	lit    byte
	length int
	pos    int
}

// canonEncodeTokens writes ANY token sequence with the canonical adaptive Huffman coder - including
// sequences no LZ encoder would ever choose (a match as the very first token, matches reaching into the
// initial window, maximal distances). Returns the body and the number of bytes the tokens decode to.
func canonEncodeTokens(toks []canonTok) (body []byte, size int) {
	z := &canon{}
	z.startHuff()
	for _, t := range toks {
		if t.length == 0 {
			z.encodeChar(int(t.lit))
			size++
		} else {
			z.encodeChar(255 - cThreshold + t.length)
			z.encodePosition(t.pos)
			size += t.length
		}
	}
	if z.putlen > 0 {
		z.out = append(z.out, byte(z.putbuf>>8))
	}
	return z.out, size
}

// canonStreamOf frames a body: [crc16] size body.
func canonStreamOf(crc bool, body []byte, size int) []byte {
	s := append(le32b(size), body...)
	if crc {
		sum := crc16Xmodem(s)
		s = append([]byte{byte(sum), byte(sum >> 8)}, s...)
	}
	return s
}

func (z *canon) getBit() int {
	for z.getlen <= 8 {
		i := 0
		if z.inpos < len(z.in) {
			i = int(z.in[z.inpos])
		}
		z.inpos++
		z.getbuf |= uint16(i) << (8 - z.getlen)
		z.getlen += 8
	}
	i := z.getbuf
	z.getbuf <<= 1
	z.getlen--
	return int(i >> 15)
}

func (z *canon) getByte() int {
	for z.getlen <= 8 {
		i := 0
		if z.inpos < len(z.in) {
			i = int(z.in[z.inpos])
		}
		z.inpos++
		z.getbuf |= uint16(i) << (8 - z.getlen)
		z.getlen += 8
	}
	i := z.getbuf
	z.getbuf <<= 8
	z.getlen -= 8
	return int(i >> 8)
}

// canonDecode is LZHUF.C's Decode(): decodes until `size` bytes are out (a final match may overrun
// `size`, exactly as the canonical loop does). Bits past the end of the body read as zero.
// consumed = number of body bytes the decoder needed.
func canonDecode(body []byte, size int, limit int) (out []byte, consumed int) {
	z := &canon{in: body}
	if size <= 0 {
		return nil, 0
	}
	z.startHuff()
	for i := 0; i < cN-cF; i++ {
		z.textBuf[i] = ' '
	}
	r := cN - cF
	for len(out) < size && len(out) < limit {
		c := z.son[cR]
		for c < cT {
			c += z.getBit()
			c = z.son[c]
		}
		c -= cT
		z.update(c)
		if c < 256 {
			out = append(out, byte(c))
			z.textBuf[r] = byte(c)
			r = (r + 1) & (cN - 1)
		} else {
			b := z.getByte()
			pc := int(cDCode[b]) << 6
			j := int(cDLen[b]) - 2
			for ; j > 0; j-- {
				b = (b << 1) + z.getBit()
			}
			pos := pc | (b & 0x3f)
			i := (r - pos - 1) & (cN - 1)
			n := c - 255 + cThreshold
			for k := 0; k < n; k++ {
				ch := z.textBuf[(i+k)&(cN-1)]
				out = append(out, ch)
				z.textBuf[r] = ch
				r = (r + 1) & (cN - 1)
			}
		}
	}
	// bytes actually needed: whole bytes fetched minus whole bytes still unread in the 16-bit buffer
	consumed = z.inpos - int(z.getlen)/8
	return out, consumed
}

// crc16Xmodem: bitwise CRC-16/XMODEM (poly 0x1021, init 0, no reflection, no xorout).
func crc16Xmodem(p []byte) uint16 {
	var crc uint16
	for _, b := range p {
		crc ^= uint16(b) << 8
		for i := 0; i < 8; i++ {
			if crc&0x8000 != 0 {
				crc = crc<<1 ^ 0x1021
			} else {
				crc <<= 1
			}
		}
	}
	return crc
}

func le32b(n int) []byte { return []byte{byte(n), byte(n >> 8), byte(n >> 16), byte(n >> 24)} }

// canonCompress is the canonical encoder with the FBB/B2 header.
func canonCompress(crc bool, in []byte) (stream []byte, maxCodeLen int) {
	body, m := canonEncode(in)
	s := append(le32b(len(in)), body...)
	if crc {
		sum := crc16Xmodem(s)
		s = append([]byte{byte(sum), byte(sum >> 8)}, s...)
	}
	return s, m
}
