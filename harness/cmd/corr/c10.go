package main

import (
	"encoding/json"
	"fmt"
	"os"
	"path"
	"path/filepath"
	"strings"
)

// mboxCanon replaces the per-run temp base by a fixed string (so that cases are the same for the same seed).
var mboxCanon = func(s string) string { return s }

type c10Env struct {
	c     *Ctx
	base  string
	n     int
	cases []Case
}

var c10Observers = func(mids []string) []mOp {
	obs := []mOp{{K: 'L', F: 'i'}, {K: 'L', F: 'o'}, {K: 'L', F: 's'}, {K: 'L', F: 'a'},
		{K: 'C', F: 'i'}, {K: 'C', F: 'o'}, {K: 'C', F: 's'},
		{K: 'O'}, {K: 'O', Fws: []string{"LA1A"}}, {K: 'O', Fws: []string{"LA1A", "la1b@winlink.org"}}, {K: 'O', Fws: []string{"LA1A", "la1a@winlink.org", "LA1A"}}}
	for _, m := range mids {
		obs = append(obs, mOp{K: 'Q', Mid: m})
	}
	obs = append(obs, mOp{K: 'R', F: 'i', Mid: mids[0]})
	return obs
}

func privateLeak(res string) bool {
	// out[mid,rcpts,p2p,unread,fpath,payload|…]
	if !strings.HasPrefix(res, "out[") {
		return false
	}
	body := strings.TrimSuffix(strings.TrimPrefix(res, "out["), "]")
	if body == "" {
		return false
	}
	for _, m := range strings.Split(body, "|") {
		f := strings.Split(m, ",")
		if len(f) != 6 || f[2] != "~" || f[3] != "~" || f[4] != "~" {
			return true
		}
	}
	return false
}

// run executes one history on a fresh real directory and on the reference model, judges every
// observation, and records the correspondence case for the Lean model.
func (e *c10Env) run(rootShape string, sendOnly bool, ops []mOp, class string, nontrivial bool) {
	c := e.c
	e.n++
	dir := filepath.Join(e.base, fmt.Sprintf("r%d", e.n))
	root := dir + rootShape
	os.MkdirAll(dir, 0o755)
	defer os.RemoveAll(dir)
	rb := newRealBox(root, sendOnly)
	ref := newRefBox(sendOnly)
	croot := mboxCanon(root)
	cleanRoot := path.Clean(croot)
	real := make([]string, len(ops))
	for i, o := range ops {
		real[i] = rb.exec(o)
		want := ref.exec(cleanRoot, o)
		if want == "" || real[i] == want || (want == "acc-or-def" && (real[i] == "acc" || real[i] == "def")) {
			continue
		}
		key := "C10:result:" + string(o.K)
		switch o.K {
		case 'O':
			key = "C10:outbound-eligibility"
			if privateLeak(real[i]) {
				key = "C10:outbound-private-headers"
			}
		case 'Q':
			key = "C10:proposal-answer"
		case 'L':
			key = "C10:listing"
		case 'C':
			key = "C10:count"
		case 'U', 'R':
			key = "C10:unread-flag"
		case 'I':
			key = "C10:store-inbound"
		case 'A':
			key = "C10:add-outbound"
		}
		c.Violate(key, fmt.Sprintf("%s after %d operations: real mailbox = %s, reference model = %s", o.String(), i, trunc(real[i], 400), trunc(want, 400)),
			map[string]interface{}{"root": croot, "root_shape": rootShape, "send_only": sendOnly, "history": histDesc(ops[:i+1]), "tokens": histToks(ops[:i+1]), "ops": ops[:i+1], "real": real[i], "reference": want})
	}
	// each outbound message in exactly one of outbox / sent (judged on the real listings)
	if out, err := rb.h.Outbox(); err == nil {
		if sent, err := rb.h.Sent(); err == nil {
			in := map[string]bool{}
			for _, m := range out {
				in[m.MID()] = true
			}
			for _, m := range sent {
				if in[m.MID()] {
					c.Violate("C10:readd-mid-in-sent", fmt.Sprintf("MID %q is listed in Outbox() and in Sent() at the same time", m.MID()),
						map[string]interface{}{"root": croot, "root_shape": rootShape, "send_only": sendOnly, "history": histDesc(ops), "tokens": histToks(ops), "ops": ops})
				}
			}
		}
	}
	so := "0"
	if sendOnly {
		so = "1"
	}
	e.cases = append(e.cases, Case{Line: "mboxrun " + hs(croot) + " " + so + " " + histToks(ops), Impl: strings.Join(real, " "),
		Desc: fmt.Sprintf("root=%s sendOnly=%v %s", croot, sendOnly, strings.Join(histDesc(ops), "; ")), Class: class, Nontrivial: nontrivial})
}

func init() {
	register("C10", "cases: operation histories on a real temp directory and a fresh DirHandler: (1) EVERY sequence up to length 4 (thorough 5; send-only one shorter) over a 14-letter alphabet of mutating operations (Prepare, restart, AddOut of 3 MIDs with 3 receiver shapes [sole forwarder / P2P-only other station / To+Cc], ProcessInbound of 2 MIDs, SetSent of 3 MIDs when in the outbox, SetDeferred of 2 MIDs, SetUnread on/off), each followed by a fixed observer suite (4 listings, 3 counts, GetOutbound for forwarder lists [] [A] [A,B], GetInboundAnswer for the 3 MIDs, IsUnread); (2) random histories of 10-80 operations over the crossed universe (3+ MIDs x 3 receiver shapes x P2P flag x preset private headers, all operations incl. restarts in both modes, unclean root spellings). Every observation is judged against an independent Go reference mailbox and compared with the Lean DirHandler model. Non-trivial: histories with >= 2 mutating operations; distinct by history.", func(c *Ctx) {
		if c.Tier == "replay" && len(os.Args) > 6 {
			c10Replay(c, os.Args[6])
			return
		}
		base := mboxTemp("verif-c10-")
		defer os.RemoveAll(base)
		mboxCanon = func(s string) string { return strings.ReplaceAll(s, base, "/tmp/vmbox") }
		defer func() { mboxCanon = func(s string) string { return s } }()
		e := &c10Env{c: c, base: base}
		mids := []string{"AAAAAAAAAAA1", "B2", "c.3-x"}
		m1 := mMsg{Mid: mids[0], To: []string{"LA1A"}, Payload: 1}
		m2 := mMsg{Mid: mids[1], To: []string{"LA1B"}, P2P: sp("true"), Payload: 2}
		m3 := mMsg{Mid: mids[2], To: []string{"la1a"}, Cc: []string{"foo@bar.baz"}, Payload: 3}
		i1 := mMsg{Mid: mids[0], To: []string{"N0CALL"}, Payload: 4}
		i2 := mMsg{Mid: mids[1], To: []string{"N0CALL"}, Cc: []string{"LA1A"}, FPath: sp("/etc/passwd"), Unread: sp("false"), Payload: 5, Files: 1}
		alphabet := []mOp{{K: 'P'}, {K: 'N'},
			{K: 'A', Msgs: []mMsg{m1}}, {K: 'A', Msgs: []mMsg{m2}}, {K: 'A', Msgs: []mMsg{m3}},
			{K: 'I', Msgs: []mMsg{i1}}, {K: 'I', Msgs: []mMsg{i2}},
			{K: 'S', Mid: mids[0]}, {K: 'S', Mid: mids[1]}, {K: 'S', Mid: mids[2]},
			{K: 'D', Mid: mids[0]}, {K: 'D', Mid: mids[2]},
			{K: 'U', F: 'i', Mid: mids[0], B: false}, {K: 'U', F: 'i', Mid: mids[0], B: true}}
		obs := c10Observers(mids)

		// (1) exhaustive
		exhaustiveDone := true
		var seqs int
		var rec func(sendOnly bool, prefix []mOp, outbox map[string]bool, depth int)
		rec = func(sendOnly bool, prefix []mOp, outbox map[string]bool, depth int) {
			if !c.TimeLeft() {
				exhaustiveDone = false
				return
			}
			if len(prefix) > 0 {
				ops := append(append([]mOp{}, prefix...), obs...)
				for i := range ops {
					if ops[i].K == 'N' {
						ops[i].B = sendOnly
					}
				}
				seqs++
				e.run("/mbox", sendOnly, ops, fmt.Sprintf("exhaustive-len%d", len(prefix)), len(prefix) >= 2)
			}
			if depth == 0 {
				return
			}
			for _, a := range alphabet {
				ob := outbox
				switch a.K {
				case 'S':
					if !outbox[a.Mid] {
						continue // SetSent of a message that is not in the outbox: log.Fatalf, outside the op language
					}
					ob = map[string]bool{}
					for k, v := range outbox {
						ob[k] = v
					}
					delete(ob, a.Mid)
				case 'A':
					prepared := false
					for _, p := range prefix {
						prepared = prepared || p.K == 'P'
					}
					if prepared {
						ob = map[string]bool{}
						for k, v := range outbox {
							ob[k] = v
						}
						ob[a.Msgs[0].Mid] = true
					}
				}
				rec(sendOnly, append(append([]mOp{}, prefix...), a), ob, depth-1)
			}
		}
		rec(false, nil, map[string]bool{}, c.Budget(4, 5))
		rec(true, nil, map[string]bool{}, c.Budget(3, 4))
		c.Res.Exhaustive = exhaustiveDone
		c.Note("C10: %d exhaustive sequences (complete=%v)", seqs, exhaustiveDone)

		// (2) random histories
		rng := c.Rng
		allMids := []string{"AAAAAAAAAAA1", "B2", "c.3-x", "Mid With Space", "ZZZZZZZZZZZZ"}
		rcShapes := [][2][]string{{{"LA1A"}, nil}, {{"LA1B"}, nil}, {{"LA1A"}, {"LA1C"}}, {{"la1a@winlink.org"}, nil}, {{"someone@example.com"}, nil}, {nil, {"LA1B"}}}
		// incl. lists that name the same station more than once after normalisation (an auxiliary address equal
		// to the call sign, a call sign with and without the winlink.org domain)
		fwLists := [][]string{nil, {"LA1A"}, {"LA1A", "LA1B"}, {"la1b"}, {"SMTP:someone@example.com"}, {"LA1A", "la1a@winlink.org"}, {"LA1B", "LA1A", "LA1B"}, {"la1a", "LA1A", "la1a"}}
		roots := []string{"/mbox", "/mbox", "/mbox/", "/a/b/mbox", "/x/../mbox", "//y/./mbox//"}
		folders := []byte{'i', 'o', 's', 'a'}
		randMsg := func() mMsg {
			sh := rcShapes[rng.Intn(len(rcShapes))]
			m := mMsg{Mid: allMids[rng.Intn(len(allMids))], To: sh[0], Cc: sh[1], Payload: 1 + rng.Intn(40), Files: rng.Intn(3) / 2}
			switch rng.Intn(5) {
			case 0:
				m.P2P = sp("true")
			case 1:
				m.P2P = sp("false")
			}
			switch rng.Intn(8) {
			case 0:
				m.Unread = sp("true")
			case 1:
				m.Unread = sp("false")
			}
			if rng.Intn(8) == 0 {
				m.FPath = sp("/nonexistent/elsewhere.b2f")
			}
			return m
		}
		nh := c.Budget(500, 6000)
		for h := 0; h < nh && c.TimeLeft(); h++ {
			sendOnly := rng.Intn(4) == 0
			n := 10 + rng.Intn(71)
			ops := []mOp{}
			if rng.Intn(10) != 0 {
				ops = append(ops, mOp{K: 'P'})
			}
			outbox := map[string]bool{}
			prepared := len(ops) > 0
			for len(ops) < n {
				var o mOp
				switch k := rng.Intn(20); {
				case k < 1:
					o = mOp{K: 'N', B: rng.Intn(4) == 0}
				case k < 3:
					o = mOp{K: 'P'}
					prepared = true
				case k < 6:
					o = mOp{K: 'A', Msgs: []mMsg{randMsg()}}
					if prepared {
						outbox[o.Msgs[0].Mid] = true
					}
				case k < 8:
					o = mOp{K: 'I', Msgs: []mMsg{randMsg()}}
					if rng.Intn(4) == 0 {
						o.Msgs = append(o.Msgs, randMsg())
					}
				case k < 10:
					o = mOp{K: 'Q', Mid: allMids[rng.Intn(len(allMids))]}
				case k < 12:
					var in []string
					for m := range outbox {
						in = append(in, m)
					}
					if len(in) == 0 {
						continue
					}
					sortStrings(in)
					o = mOp{K: 'S', Mid: in[rng.Intn(len(in))]}
					delete(outbox, o.Mid)
				case k < 13:
					o = mOp{K: 'D', Mid: allMids[rng.Intn(len(allMids))]}
				case k < 16:
					o = mOp{K: 'O', Fws: fwLists[rng.Intn(len(fwLists))]}
				case k < 17:
					o = mOp{K: 'L', F: folders[rng.Intn(4)]}
				case k < 18:
					o = mOp{K: 'C', F: folders[rng.Intn(4)]}
				case k < 19:
					o = mOp{K: 'U', F: folders[rng.Intn(3)], Mid: allMids[rng.Intn(len(allMids))], B: rng.Intn(2) == 0}
				default:
					o = mOp{K: 'R', F: folders[rng.Intn(3)], Mid: allMids[rng.Intn(len(allMids))]}
				}
				ops = append(ops, o)
			}
			ops = append(ops, c10Observers(allMids[:3])...)
			e.run(roots[rng.Intn(len(roots))], sendOnly, ops, "random", true)
		}
		c.Compare(e.cases)
	})
}

func sortStrings(s []string) {
	for i := 1; i < len(s); i++ {
		for j := i; j > 0 && s[j] < s[j-1]; j-- {
			s[j], s[j-1] = s[j-1], s[j]
		}
	}
}

// c10Replay re-runs the history stored in a replay file on the real mailbox (fresh temp directory), on
// the reference mailbox and on the Lean model, and prints the three results per operation.
func c10Replay(c *Ctx, file string) {
	var rep struct {
		Case struct {
			RootShape string `json:"root_shape"`
			SendOnly  bool   `json:"send_only"`
			Ops       []mOp  `json:"ops"`
		} `json:"case"`
	}
	b, err := os.ReadFile(file)
	if err == nil {
		err = json.Unmarshal(b, &rep)
	}
	if err != nil || len(rep.Case.Ops) == 0 {
		fmt.Println("C10 replay: no history in", file, err)
		return
	}
	base := mboxTemp("verif-c10-replay-")
	defer os.RemoveAll(base)
	mboxCanon = func(s string) string { return strings.ReplaceAll(s, base, "/tmp/vmbox") }
	shape := rep.Case.RootShape
	if shape == "" {
		shape = "/mbox"
	}
	dir := filepath.Join(base, "r1")
	os.MkdirAll(dir, 0o755)
	root := dir + shape
	rb, ref := newRealBox(root, rep.Case.SendOnly), newRefBox(rep.Case.SendOnly)
	so := "0"
	if rep.Case.SendOnly {
		so = "1"
	}
	model := strings.Split(c.Model([]string{"mboxrun " + hs(mboxCanon(root)) + " " + so + " " + histToks(rep.Case.Ops)})[0], " ")
	bad := false
	for i, o := range rep.Case.Ops {
		real := rb.exec(o)
		want := ref.exec(path.Clean(mboxCanon(root)), o)
		m := "?"
		if i < len(model) {
			m = model[i]
		}
		mark := ""
		if want != "" && real != want && !(want == "acc-or-def" && (real == "acc" || real == "def")) {
			mark = "   <== differs from the reference model"
			bad = true
		}
		fmt.Printf("%2d %s\n     real      = %s\n     reference = %s\n     lean      = %s%s\n", i, o.String(), real, want, m, mark)
	}
	if bad {
		fmt.Println("C10 replay: the real mailbox still differs from the reference model")
		c.Violate("C10:replay", "replayed history still differs", nil)
	} else {
		fmt.Println("C10 replay: the real mailbox agrees with the reference model on this history")
	}
}
