package main

import (
	"bufio"
	"bytes"
	"errors"
	"fmt"
	"io"
	"math/rand"
	"net/textproto"
	"reflect"
	"sort"
	"strconv"
	"strings"
	"testing/iotest"
	"time"

	"github.com/la5nta/wl2k-go/fbb"
)

// ---------- canonical encodings shared with lean/Wl2kVerif/Ops/Message.lean ----------

type c09File struct {
	Name string
	Data []byte
	Err  string // "-" or error class
}

func c09HeaderTokens(h map[string][]string) []string {
	keys := make([]string, 0, len(h))
	for k := range h {
		keys = append(keys, k)
	}
	sort.Strings(keys)
	out := []string{"H", strconv.Itoa(len(keys))}
	for _, k := range keys {
		out = append(out, hs(k), strconv.Itoa(len(h[k])))
		for _, v := range h[k] {
			out = append(out, hs(v))
		}
	}
	return out
}

func c09MsgTokens(h map[string][]string, body []byte, files []c09File) string {
	out := c09HeaderTokens(h)
	out = append(out, "B", hx(body), "F", strconv.Itoa(len(files)))
	for _, f := range files {
		out = append(out, hs(f.Name), hx(f.Data), f.Err)
	}
	return strings.Join(out, " ")
}

func c09ErrClass(err error) string {
	var pe textproto.ProtocolError
	var te *time.ParseError
	switch {
	case err == nil:
		return "-"
	case err == io.EOF:
		return "eof"
	case err == io.ErrUnexpectedEOF:
		return "ueof"
	case errors.As(err, &pe):
		return "malformed"
	case errors.As(err, &te):
		return "date"
	case err.Error() == "Unexpected end of section":
		return "endsec"
	case err.Error() == "Negative section size":
		return "negsize"
	case strings.HasPrefix(err.Error(), "Failed to parse file header"):
		return "filehdr"
	}
	return "other:" + err.Error()
}

func c09Files(m *fbb.Message) []c09File {
	var out []c09File
	for _, f := range m.Files() {
		out = append(out, c09File{f.Name(), f.Data(), c09ErrClass(f.VerifErr())})
	}
	return out
}

func c09State(m *fbb.Message) string {
	return c09MsgTokens(m.Header, m.VerifBodyBytes(), c09Files(m))
}

// ---------- readers with different chunking ----------

type rndReader struct {
	b   []byte
	rng *rand.Rand
	max int
}

func (r *rndReader) Read(p []byte) (int, error) {
	if len(r.b) == 0 {
		return 0, io.EOF
	}
	n := 1 + r.rng.Intn(r.max)
	if n > len(p) {
		n = len(p)
	}
	if n > len(r.b) {
		n = len(r.b)
	}
	copy(p, r.b[:n])
	r.b = r.b[n:]
	return n, nil
}

// readImpl runs the real ReadFrom with a watchdog and panic recovery; the result is the
// canonical observation "ok <msg>" / "err <class>" / "panic" / "hang".
func c09ReadImpl(r io.Reader) (obs string, m *fbb.Message) {
	type res struct {
		obs string
		m   *fbb.Message
	}
	ch := make(chan res, 1)
	go func() {
		var out res
		defer func() {
			if p := recover(); p != nil {
				out = res{"panic", nil}
			}
			ch <- out
		}()
		m := new(fbb.Message)
		if err := m.ReadFrom(r); err != nil {
			out = res{"err " + c09ErrClass(err), m}
			return
		}
		out = res{"ok " + c09State(m), m}
	}()
	select {
	case r := <-ch:
		return r.obs, r.m
	case <-time.After(10 * time.Second):
		return "hang", nil
	}
}

// decode table + date fallback flag: the stdlib parameters of the model, instantiated with what the
// real mime.WordDecoder / time.Parse say for the values occurring in this stream.
func c09ReadLine(stream []byte) string {
	toks := []string{"msgread", hx(stream)}
	fb := "0"
	var pairs []string
	n := 0
	// Parse the header with the real textproto reader only to find the File/Date values the
	// parameters are needed for (if that fails, no parameter is needed: the model errors as well).
	br := bufio.NewReader(bytes.NewReader(bytes.TrimLeft(stream, "\t\n\v\f\r ")))
	if h, err := textproto.NewReader(br).ReadMIMEHeader(); err == nil {
		if d := h.Get("Date"); d != "" {
			if _, err := time.Parse(fbb.DateLayout, d); err != nil {
				if _, err := fbb.ParseDate(d); err == nil {
					fb = "1"
				}
			}
		}
		seen := map[string]bool{}
		for _, v := range h["File"] {
			if sl := strings.SplitN(v, " ", 2); len(sl) == 2 && !seen[sl[1]] {
				seen[sl[1]] = true
				dec, _ := new(fbb.WordDecoder).DecodeHeader(sl[1])
				pairs = append(pairs, hs(sl[1]), hs(dec))
				n++
			}
		}
	}
	toks = append(toks, fb, strconv.Itoa(n))
	toks = append(toks, pairs...)
	return strings.Join(toks, " ")
}

// c09WfLine: the model's executable well-formedness predicate on a real message state (decode table from the real WordDecoder).
func c09WfLine(m *fbb.Message) string {
	var pairs []string
	n := 0
	seen := map[string]bool{}
	for _, v := range m.Header["File"] {
		if sl := strings.SplitN(textproto.TrimString(v), " ", 2); len(sl) == 2 && !seen[sl[1]] {
			seen[sl[1]] = true
			dec, _ := new(fbb.WordDecoder).DecodeHeader(sl[1])
			pairs = append(pairs, hs(sl[1]), hs(dec))
			n++
		}
	}
	toks := append([]string{"msgwf", strconv.Itoa(n)}, pairs...)
	return strings.Join(append(toks, c09State(m)), " ")
}

// ---------- generators ----------

type c09Gen struct {
	c *Ctx
}

func (g c09Gen) pick(xs ...string) string { return xs[g.c.Rng.Intn(len(xs))] }

func (g c09Gen) randCase(s string) string {
	b := []byte(s)
	for i := range b {
		switch g.c.Rng.Intn(3) {
		case 0:
			b[i] = byte(strings.ToUpper(string(b[i]))[0])
		case 1:
			b[i] = byte(strings.ToLower(string(b[i]))[0])
		}
	}
	return string(b)
}

func (g c09Gen) callsign() string {
	r := g.c.Rng
	letters := "abcdefghijklmnopqrstuvwxyz"
	n := 3 + r.Intn(4)
	b := make([]byte, n)
	for i := range b {
		if i == 1+r.Intn(2) || r.Intn(5) == 0 {
			b[i] = byte('0' + r.Intn(10))
		} else {
			b[i] = letters[r.Intn(26)]
		}
	}
	s := string(b)
	if r.Intn(4) == 0 {
		s += "-" + strconv.Itoa(r.Intn(16))
	}
	return g.randCase(s)
}

// address returns an address string in one of the property's forms and the Address it denotes.
func (g c09Gen) address() (string, fbb.Address, string) {
	r := g.c.Rng
	switch r.Intn(5) {
	case 0:
		cs := g.callsign()
		return cs, fbb.Address{Addr: strings.ToUpper(cs)}, "callsign"
	case 1:
		cs := g.callsign()
		return cs + "@" + g.randCase("winlink.org"), fbb.Address{Addr: strings.ToUpper(cs)}, "winlink.org"
	case 2:
		a := g.randCase(g.pick("foo", "first.last", "a+b", "x_y", "q")) + "@" + g.randCase(g.pick("bar.baz", "example.com", "winlink.org.example", "mail.winlink.com", "b.c"))
		return a, fbb.Address{Proto: "SMTP", Addr: a}, "smtp"
	case 3:
		a := g.randCase("user") + "@" + g.pick("example.org", "Example.ORG")
		p := g.pick("SMTP", "SMTP", "smtp", "Smtp")
		return p + ":" + a, fbb.Address{Proto: p, Addr: a}, "explicit-proto"
	default:
		// explicit proto in front of a callsign: stored verbatim, no upper-casing
		cs := g.callsign()
		return "AX25:" + cs, fbb.Address{Proto: "AX25", Addr: cs}, "explicit-proto"
	}
}

var c09Latin1Runes = []rune("æøåÆØÅéüßñ¡¿ÿ \u0080\u009f­")

// text returns a string of n characters, Latin-1 representable.
func (g c09Gen) text(n int, latin1 bool) string {
	r := g.c.Rng
	var b strings.Builder
	for i := 0; i < n; i++ {
		switch k := r.Intn(20); {
		case k < 3:
			b.WriteByte(' ')
		case k == 3:
			b.WriteString(g.pick("=", "?", "_", "=?", "?=", "\t", ":", ";", "\"", "(", ".", "=?utf-8?q?", "=?ISO-8859-1?Q?", "?="))
		case k < 7 && latin1:
			b.WriteRune(c09Latin1Runes[r.Intn(len(c09Latin1Runes))])
		case k == 7 && r.Intn(6) == 0:
			b.WriteString(g.pick("\n", "\r", "\r\n", "\x00", "\x01", "\x7f", "\x1b"))
		default:
			b.WriteByte(byte('!' + r.Intn(94)))
		}
	}
	return b.String()
}

func (g c09Gen) subject() (string, string) {
	r := g.c.Rng
	switch r.Intn(12) {
	case 0:
		return "", "empty"
	case 1:
		return g.pick("=?utf-8?q?abc?=", "=?ISO-8859-1?q?Test_=E6?=", "=?utf-8?b?YWJj?=", "a =?utf-8?q?b?= c", "=?x?=", "=?"), "encoded-word-lookalike"
	case 2:
		return g.pick(" ", "  x", "x ", "\tx", "x\t", " x y ") + g.pick("", "", "æ"), "outer-blanks"
	case 3:
		return g.text(55+r.Intn(40), true), "len-55..95-latin1" // around the 75-char encoded-word limit
	case 4:
		return g.text(55+r.Intn(40), false), "len-55..95-ascii"
	case 5:
		return g.text(100+r.Intn(200), r.Intn(2) == 0), "long"
	case 6, 7:
		return g.text(1+r.Intn(30), true), "short-latin1"
	default:
		return g.text(1+r.Intn(40), false), "short-ascii"
	}
}

func (g c09Gen) fileName() (string, string) {
	r := g.c.Rng
	for {
		var s, class string
		switch r.Intn(8) {
		case 0:
			s, class = g.pick("=?utf-8?q?abc?=.txt", "=?utf-8?q?abc?=", "a =?utf-8?b?YWJj?="), "encoded-word-lookalike"
		case 1:
			s, class = g.pick(" lead.txt", "trail.txt ", "two  spaces.txt", " ", "a b c.d", "\tx"), "blanks"
		case 2, 3:
			s, class = g.text(1+r.Intn(20), true)+".txt", "latin1"
		case 4:
			s, class = g.text(60+r.Intn(30), r.Intn(2) == 0), "len-60..90"
		default:
			s, class = g.pick("foo.txt", "IMG_0001.JPG", "report-2016.12.30.pdf", "a", "x=y?.bin", "under_score"), "ascii"
		}
		if s != "" {
			return s, class
		}
	}
}

func (g c09Gen) fileData() ([]byte, string) {
	r := g.c.Rng
	rnd := func(n int) []byte {
		b := make([]byte, n)
		r.Read(b)
		return b
	}
	switch r.Intn(12) {
	case 0:
		return nil, "empty"
	case 1:
		return []byte(g.pick("\r\n", "\r\n\r\n", "\n", "\r", "\r\n\r")), "crlf-only"
	case 2:
		return bytes.Repeat([]byte{0}, 1+r.Intn(20)), "nul"
	case 3:
		return append(rnd(1+r.Intn(50)), '\r'), "ends-in-cr"
	case 4:
		return append(rnd(r.Intn(50)), '\r', '\n'), "ends-in-crlf"
	case 5:
		return []byte("\r\nFile: 3 x\r\nMid: Q\r\n\r\nabc\r\n"), "header-lookalike"
	case 6:
		return rnd(4000 + r.Intn(5000)), "4000..9000-bytes" // crosses the 4096-byte bufio buffer
	default:
		return rnd(1 + r.Intn(300)), "random"
	}
}

func (g c09Gen) date() (time.Time, string) {
	r := g.c.Rng
	sec := time.Duration(r.Intn(60))*time.Second + time.Duration(r.Intn(1e9))
	switch r.Intn(8) {
	case 0: // year boundaries
		y := g.pickInt(0, 1, 1969, 1970, 1999, 2000, 2016, 2038, 9999)
		if r.Intn(2) == 0 {
			return time.Date(y, 12, 31, 23, 59, 0, 0, time.UTC).Add(sec), "year-end"
		}
		return time.Date(y, 1, 1, 0, 0, 0, 0, time.UTC).Add(sec), "year-start"
	case 1: // leap days
		y := g.pickInt(1600, 1900, 2000, 2016, 2024, 2100)
		return time.Date(y, 2, 28, 12, 0, 0, 0, time.UTC).Add(time.Duration(r.Intn(48)) * time.Hour).Add(sec), "leap-feb"
	case 2: // DST switches in a zone with DST, given as local times
		loc := time.FixedZone("X", g.pickInt(-12, -5, 1, 2, 5, 14)*3600+g.pickInt(0, 1800, 2700))
		return time.Date(2000+r.Intn(40), time.Month(1+r.Intn(12)), 1+r.Intn(28), r.Intn(24), r.Intn(60), r.Intn(60), r.Intn(1e9), loc), "non-utc-zone"
	case 3:
		if loc, err := time.LoadLocation(g.pick("Europe/Oslo", "America/New_York", "Australia/Lord_Howe")); err == nil {
			// around the last Sundays of March / October and early November
			base := time.Date(2000+r.Intn(40), time.Month(g.pickInt(3, 10, 11)), 20+r.Intn(11), 0, 0, 0, 0, loc)
			return base.Add(time.Duration(r.Intn(24*60))*time.Minute + sec), "dst-zone"
		}
		fallthrough
	default:
		return time.Unix(int64(r.Intn(4e9))-1e9, int64(r.Intn(1e9))).UTC(), "random-minute"
	}
}

func (g c09Gen) pickInt(xs ...int) int { return xs[g.c.Rng.Intn(len(xs))] }

func (g c09Gen) bodyText() (string, string) {
	r := g.c.Rng
	switch r.Intn(8) {
	case 0:
		return "", "empty"
	case 1:
		return g.text(1+r.Intn(40), true), "one-line-no-eol"
	case 2:
		return strings.Repeat("x", 990+r.Intn(20)) + "æøå\n" + g.text(10, true), "wrap-boundary"
	case 3:
		return strings.Repeat(g.text(40, true)+"\r\n", 100+r.Intn(100)), "over-4096-bytes"
	default:
		var b strings.Builder
		for i, n := 0, 1+r.Intn(8); i < n; i++ {
			b.WriteString(strings.NewReplacer("\r", "", "\n", "").Replace(g.text(r.Intn(60), true)))
			b.WriteString(g.pick("\n", "\r\n", "\n", ""))
		}
		return b.String(), "lines"
	}
}

// ---------- one generated message: built on the real API and, in lock-step, as a model script ----------

type c09Built struct {
	m       *fbb.Message
	script  []string // msgbuild tokens
	src     []string // Go statements (replay)
	classes []string
	subj    *string
	date    *time.Time
	from    fbb.Address
	to, cc  []fbb.Address
	files   []c09File
	raw     bool // body installed raw (hook), not through SetBody
}

func c09Civil(hdr string) (string, bool) {
	var y, mo, d, h, mi int
	if n, _ := fmt.Sscanf(hdr, "%d/%d/%d %d:%d", &y, &mo, &d, &h, &mi); n != 5 {
		return "", false
	}
	return fmt.Sprintf("%d %d %d %d %d", y, mo, d, h, mi), true
}

func (g c09Gen) build() *c09Built {
	r := g.c.Rng
	b := &c09Built{}
	typ := fbb.MsgType(g.pick("Private", "", "Service", "Position Report", "Inquiry"))
	mycall := g.callsign()
	b.from = fbb.Address{Addr: strings.ToUpper(mycall)}
	if r.Intn(6) == 0 {
		mycall = "me@" + g.randCase("example.com")
		b.from = fbb.Address{Proto: "SMTP", Addr: mycall}
	}
	b.m = fbb.NewMessage(typ, mycall)
	civ, ok := c09Civil(b.m.Header.Get("Date"))
	if !ok {
		civ = "0 0 0 0 0"
	}
	b.script = append(b.script, "new", hs(b.m.MID()), civ, hs(string(typ)), hs(mycall))
	b.src = append(b.src, fmt.Sprintf("m := fbb.NewMessage(%q, %q)", string(typ), mycall))

	nTo, nCc := r.Intn(4), r.Intn(3)
	if r.Intn(10) == 0 {
		nTo, nCc = 0, 0
	}
	for i := 0; i < nTo+nCc; i++ {
		a, want, class := g.address()
		b.classes = append(b.classes, "addr:"+class)
		if i < nTo {
			b.m.AddTo(a)
			b.to = append(b.to, want)
			b.script = append(b.script, "to", hs(a))
			b.src = append(b.src, fmt.Sprintf("m.AddTo(%q)", a))
		} else {
			b.m.AddCc(a)
			b.cc = append(b.cc, want)
			b.script = append(b.script, "cc", hs(a))
			b.src = append(b.src, fmt.Sprintf("m.AddCc(%q)", a))
		}
	}
	if r.Intn(3) == 0 {
		a, want, class := g.address()
		b.classes = append(b.classes, "from:"+class)
		b.m.SetFrom(a)
		b.from = want
		b.script = append(b.script, "from", hs(a))
		b.src = append(b.src, fmt.Sprintf("m.SetFrom(%q)", a))
	}
	if r.Intn(8) != 0 {
		s, class := g.subject()
		b.classes = append(b.classes, "subject:"+class)
		b.m.SetSubject(s)
		b.subj = &s
		b.script = append(b.script, "subj", hs(s), hs(b.m.Header.Get("Subject")))
		b.src = append(b.src, fmt.Sprintf("m.SetSubject(%q)", s))
	}
	if r.Intn(4) != 0 {
		t, class := g.date()
		b.classes = append(b.classes, "date:"+class)
		b.m.SetDate(t)
		b.date = &t
		u := t.UTC()
		b.script = append(b.script, "date", fmt.Sprintf("%d %d %d %d %d", u.Year(), int(u.Month()), u.Day(), u.Hour(), u.Minute()))
		b.src = append(b.src, fmt.Sprintf("m.SetDate(time.Unix(%d, %d))", t.Unix(), t.Nanosecond()))
	}
	// extra X- headers, values with surrounding blanks
	for i, n := 0, r.Intn(3); i < n; i++ {
		k := g.pick("X-Foo", "x-lower-case", "X-P2p", "X-UPPER-CASE", "X-a.b_c", "x-1")
		v := g.pick("", " ", "  ", "\t") + strings.NewReplacer("\r", "", "\n", "", "\x00", "", "\x01", "", "\x7f", "", "\x1b", "").Replace(g.text(r.Intn(20), false)) + g.pick("", " ", " \t", "")
		if r.Intn(4) == 0 {
			v += "\xe6\xf8" // raw ISO-8859-1 bytes are legal header value bytes
		}
		b.classes = append(b.classes, "x-header")
		if r.Intn(3) == 0 {
			b.m.Header.Add(k, v)
			b.script = append(b.script, "add", hs(k), hs(v))
			b.src = append(b.src, fmt.Sprintf("m.Header.Add(%q, %q)", k, v))
		} else {
			b.m.Header.Set(k, v)
			b.script = append(b.script, "set", hs(k), hs(v))
			b.src = append(b.src, fmt.Sprintf("m.Header.Set(%q, %q)", k, v))
		}
	}
	if r.Intn(10) != 0 {
		s, class := g.bodyText()
		b.classes = append(b.classes, "body:"+class)
		b.m.SetBody(s)
		b.script = append(b.script, "body", hs(s))
		b.src = append(b.src, fmt.Sprintf("m.SetBody(%q)", trunc(s, 300)))
	}
	for i, n := 0, g.pickInt(0, 0, 1, 1, 2, 3); i < n; i++ {
		name, nclass := g.fileName()
		data, dclass := g.fileData()
		b.classes = append(b.classes, "file-name:"+nclass, "file-data:"+dclass)
		b.m.AddFile(fbb.NewFile(name, data))
		b.files = append(b.files, c09File{name, data, "-"})
		vals := b.m.Header["File"]
		enc := strings.SplitN(vals[len(vals)-1], " ", 2)[1]
		b.script = append(b.script, "file", hs(name), hs(enc), hx(data))
		b.src = append(b.src, fmt.Sprintf("m.AddFile(fbb.NewFile(%q, <%d bytes: %s>))", name, len(data), trunc(hx(data), 80)))
	}
	return b
}

func c09TrimHeader(h fbb.Header) map[string][]string {
	out := map[string][]string{}
	for k, vs := range h {
		for _, v := range vs {
			out[k] = append(out[k], textproto.TrimString(v))
		}
	}
	return out
}

func c09AddrsEqual(a, b []fbb.Address) bool {
	if len(a) != len(b) {
		return false
	}
	for i := range a {
		if a[i] != b[i] {
			return false
		}
	}
	return true
}

// accessorOracle: the accessors return what was set (on the built message and on the re-parsed one).
func (b *c09Built) accessorOracle(c *Ctx, m *fbb.Message, stage string, rep map[string]interface{}) {
	if b.subj != nil {
		if got := m.Subject(); got != *b.subj {
			c.Violate("C09:subject-accessor", fmt.Sprintf("%s: Subject() = %q, SetSubject(%q) (header %q)", stage, got, *b.subj, m.Header.Get("Subject")), rep)
		}
	}
	if b.date != nil {
		if got, want := m.Date(), b.date.Truncate(time.Minute); !got.Equal(want) {
			c.Violate("C09:date-accessor", fmt.Sprintf("%s: Date() = %v, want %v", stage, got.UTC(), want.UTC()), rep)
		}
	}
	if got := m.From(); got != b.from {
		c.Violate("C09:addr-accessor", fmt.Sprintf("%s: From() = %#v, want %#v", stage, got, b.from), rep)
	}
	if got := m.To(); !c09AddrsEqual(got, b.to) {
		c.Violate("C09:addr-accessor", fmt.Sprintf("%s: To() = %#v, want %#v", stage, got, b.to), rep)
	}
	if got := m.Cc(); !c09AddrsEqual(got, b.cc) {
		c.Violate("C09:addr-accessor", fmt.Sprintf("%s: Cc() = %#v, want %#v", stage, got, b.cc), rep)
	}
	fs := m.Files()
	if len(fs) != len(b.files) {
		c.Violate("C09:roundtrip-files", fmt.Sprintf("%s: %d attachments, want %d", stage, len(fs), len(b.files)), rep)
		return
	}
	for i, f := range fs {
		if f.Name() != b.files[i].Name {
			c.Violate("C09:filename-accessor", fmt.Sprintf("%s: attachment %d Name() = %q, want %q", stage, i, f.Name(), b.files[i].Name), rep)
		}
		if !bytes.Equal(f.Data(), b.files[i].Data) || f.Size() != len(b.files[i].Data) {
			c.Violate("C09:roundtrip-files", fmt.Sprintf("%s: attachment %d data differs (%d bytes, want %d)", stage, i, f.Size(), len(b.files[i].Data)), rep)
		}
		if f.VerifErr() != nil {
			c.Violate("C09:roundtrip-files", fmt.Sprintf("%s: attachment %d carries error %v", stage, i, f.VerifErr()), rep)
		}
	}
}

// roundTrip: the property's own oracle on the real code for one message; returns the cases for the model.
func c09RoundTrip(c *Ctx, m *fbb.Message, b *c09Built, desc string, rep map[string]interface{}, classes []string, nontriv bool) []Case {
	var cases []Case
	class := "built"
	if b == nil {
		class = "state"
	}
	// serialise (twice: Bytes must be a function of the state)
	data, err := m.Bytes()
	wl := "msgwrite 0 " + c09State(m)
	if err != nil {
		cases = append(cases, Case{Line: wl, Impl: "err " + c09ErrClass(err), Desc: "Bytes: " + desc, Class: class + "/write-err"})
		if b != nil {
			c.Violate("C09:write-error", fmt.Sprintf("Bytes() of a message built through the API failed: %v", err), rep)
		}
		return cases
	}
	cases = append(cases, Case{Line: wl, Impl: "ok " + hx(data), Desc: "Bytes: " + desc, Class: class + "/write", Nontrivial: nontriv})
	if again, _ := m.Bytes(); !bytes.Equal(again, data) {
		c.Violate("C09:unstable-serialisation", "two calls of Bytes() on the same message differ (ordering not canonical)", rep)
	}

	// parse back through readers with different chunking
	readers := []struct {
		name string
		mk   func() io.Reader
	}{
		{"whole", func() io.Reader { return bytes.NewReader(data) }},
		{"one-byte", func() io.Reader { return iotest.OneByteReader(bytes.NewReader(data)) }},
		{"half", func() io.Reader { return iotest.HalfReader(bytes.NewReader(data)) }},
		{"data+eof", func() io.Reader { return iotest.DataErrReader(bytes.NewReader(data)) }},
		{"random<=7", func() io.Reader {
			return &rndReader{append([]byte(nil), data...), rand.New(rand.NewSource(c.Rng.Int63())), 7}
		}},
		{"random<=5000", func() io.Reader {
			return &rndReader{append([]byte(nil), data...), rand.New(rand.NewSource(c.Rng.Int63())), 5000}
		}},
	}
	var first string
	var m2 *fbb.Message
	for i, rd := range readers {
		if len(data) > 20000 && rd.name == "one-byte" {
			continue
		}
		obs, mm := c09ReadImpl(rd.mk())
		if i == 0 {
			first, m2 = obs, mm
			continue
		}
		if obs != first {
			c.Violate("C09:chunk-dependence", fmt.Sprintf("ReadFrom through a %s reader gives a different result than from a whole buffer: %s vs %s", rd.name, trunc(obs, 200), trunc(first, 200)), rep)
		}
	}
	cases = append(cases, Case{Line: c09ReadLine(data), Impl: first, Desc: "ReadFrom(Bytes): " + desc, Class: class + "/read", Nontrivial: nontriv})
	for _, cl := range classes {
		c.Res.Distribution[cl]++
	}
	if !strings.HasPrefix(first, "ok ") {
		c.Violate("C09:read-error", "ReadFrom(Bytes()) = "+trunc(first, 200), rep)
		return cases
	}
	// identical headers (values are compared as the format can carry them: without surrounding blanks), body, files
	if want, got := c09TrimHeader(m.Header), map[string][]string(m2.Header); !reflect.DeepEqual(want, got) {
		c.Violate("C09:roundtrip-header", fmt.Sprintf("header after round trip %q, before %q", got, want), rep)
	}
	if !bytes.Equal(m.VerifBodyBytes(), m2.VerifBodyBytes()) {
		c.Violate("C09:roundtrip-body", fmt.Sprintf("body after round trip has %d bytes, before %d", len(m2.VerifBodyBytes()), len(m.VerifBodyBytes())), rep)
	}
	bt1, e1 := m.Body()
	bt2, e2 := m2.Body()
	if bt1 != bt2 || (e1 == nil) != (e2 == nil) {
		c.Violate("C09:roundtrip-body", "Body() differs after round trip", rep)
	}
	f1, f2 := c09Files(m), c09Files(m2)
	if len(f1) != len(f2) {
		c.Violate("C09:roundtrip-files", fmt.Sprintf("%d attachments after round trip, %d before", len(f2), len(f1)), rep)
	} else {
		for i := range f1 {
			if !bytes.Equal(f1[i].Data, f2[i].Data) || f2[i].Err != "-" {
				c.Violate("C09:roundtrip-files", fmt.Sprintf("attachment %d differs after round trip (err %s)", i, f2[i].Err), rep)
			}
			if f1[i].Name != f2[i].Name {
				c.Violate("C09:filename-accessor", fmt.Sprintf("attachment %d name %q after round trip, %q before", i, f2[i].Name, f1[i].Name), rep)
			}
		}
	}
	// canonical: re-serialising the parsed message yields the same bytes
	data2, err := m2.Bytes()
	if err != nil || !bytes.Equal(data, data2) {
		i := 0
		for i < len(data) && i < len(data2) && data[i] == data2[i] {
			i++
		}
		c.Violate("C09:reserialise", fmt.Sprintf("re-serialised bytes differ at offset %d (err %v): %q vs %q", i, err, trunc(string(data2[min(i, len(data2)):]), 60), trunc(string(data[min(i, len(data)):]), 60)), rep)
	}
	if b != nil {
		b.accessorOracle(c, m, "built", rep)
		b.accessorOracle(c, m2, "re-parsed", rep)
		for _, v := range append(append([]string{}, m.Header["Subject"]...), m.Header["File"]...) {
			for i := 0; i < len(v); i++ {
				if (v[i] < 0x20 && v[i] != 0x09) || v[i] > 0x7e {
					c.Violate("C09:encode-law", fmt.Sprintf("encoded Subject/File value %q contains a byte that is not printable ASCII or TAB", v), rep)
				}
			}
			if textproto.TrimString(v) != v {
				c.Violate("C09:encode-law", fmt.Sprintf("encoded Subject/File value %q has surrounding blanks", v), rep)
			}
			if sl := strings.SplitN(v, " ", 2); len(m.Header["File"]) > 0 && v == m.Header["File"][len(m.Header["File"])-1] && (len(sl) != 2 || sl[1] == "") {
				c.Violate("C09:encode-law", fmt.Sprintf("File value %q carries no encoded name", v), rep)
			}
		}
	}
	return cases
}

// ---------- malformed stream ----------

func c09Mutate(g c09Gen, data []byte) ([]byte, string) {
	r := g.c.Rng
	s := string(data)
	hdrEnd := strings.Index(s, "\r\n\r\n")
	if hdrEnd < 0 {
		hdrEnd = 0
	}
	replaceSize := func(key string) (string, bool) {
		i := strings.Index(s, key+": ")
		if i < 0 || i > hdrEnd {
			return s, false
		}
		j := i + len(key) + 2
		k := j
		for k < len(s) && s[k] >= '0' && s[k] <= '9' {
			k++
		}
		n, _ := strconv.Atoi(s[j:k])
		nv := g.pick(strconv.Itoa(n+1), strconv.Itoa(n-1), "-1", "-"+s[j:k], "+"+s[j:k], "0", "", "x", s[j:k]+"x", "0"+s[j:k],
			"9223372036854775807", "9223372036854775808", "99999999999999999999999", "-9223372036854775809", "18446744073709551616x", strconv.Itoa(n+1000000), " "+s[j:k], s[j:k]+" ", "0x10", "1_0")
		return s[:j] + nv + s[k:], true
	}
	insertHeaderLine := func(line string) string {
		// at a random line boundary inside the header
		pos := []int{0}
		for i := 0; i+1 < hdrEnd; i++ {
			if s[i] == '\r' && s[i+1] == '\n' {
				pos = append(pos, i+2)
			}
		}
		p := pos[r.Intn(len(pos))]
		return s[:p] + line + s[p:]
	}
	switch k := r.Intn(22); k {
	case 0:
		return data[:r.Intn(len(data)+1)], "truncate"
	case 1:
		if out, ok := replaceSize("Body"); ok {
			return []byte(out), "body-size"
		}
	case 2, 3:
		if out, ok := replaceSize("File"); ok {
			return []byte(out), "file-size"
		}
	case 4:
		// drop or damage one CRLF somewhere after the header
		var pos []int
		for i := hdrEnd + 4; i+1 < len(s); i++ {
			if s[i] == '\r' && s[i+1] == '\n' {
				pos = append(pos, i)
			}
		}
		if len(pos) > 0 {
			p := pos[r.Intn(len(pos))]
			return []byte(s[:p] + g.pick("", "\n", "\r", "x\r\n", "\r\n\r\n", " \r\n") + s[p+2:]), "section-terminator"
		}
	case 5:
		return []byte(insertHeaderLine(g.pick("no colon here\r\n", ": empty key\r\n", "Key With Space: v\r\n", "key with space : v\r\n", "K(y: v\r\n", "K\xe6y: v\r\n",
			"X-Ctl: a\x01b\r\n", "X-Del: a\x7fb\r\n", "X-Nul: \x00\r\n", "X-Tab:\ta\tb\t\r\n", "X-High: \xe6\xf8\xe5\r\n", "x-lower: v\r\n", "X-UPPER-case: v\r\n",
			"X-Empty:\r\n", "X-Empty2: \r\n", "X-Colon: a:b: c\r\n", "X-Cr: a\rb\r\n", ":\r\n", " \r\n", "\t\r\n", "X-Only-Lf: v\n", "X-Cr-Only: v\r", "File: 5\r\n", "File:  5 two spaces\r\n", "File: x name\r\n", "Mid: SECOND\r\n", "mid: lower\r\n", "BODY: 0\r\n"))), "header-line"
	case 6:
		return []byte(insertHeaderLine(g.pick(" continued\r\n", "\tcontinued\r\n", "   \r\n", " a: b\r\n", "  \r\n x\r\n", " \n"))), "continuation"
	case 7:
		if hdrEnd > 0 {
			return []byte(s[:hdrEnd+2] + s[hdrEnd+4:]), "no-blank-line"
		}
	case 8:
		return []byte(strings.Replace(s, "\r\n", "\n", 1+r.Intn(5))), "bare-lf"
	case 9:
		return []byte(g.pick("\r\n", " ", "\t\r\n \x0b\x0c", "\n\n\n", "\x00", "\xef\xbb\xbf", "\x85") + s), "leading-garbage"
	case 10, 11:
		i := strings.Index(s, "Date: ")
		if i >= 0 && i < hdrEnd {
			j := strings.Index(s[i:], "\r\n") + i
			nd := g.pick("2016.12.30 01:00", "2016-12-30 01:00", "20161230010000", "Fri, 30 Dec 2016 01:00:00 -0000", "Fri, 30 Dec 2016 01:00:00 GMT", "30 Dec 16 01:00 +0100",
				"2016/12/30 1:00", "2016/12/30    01:00", "2016/12/3001:00", "2016/02/30 01:00", "2016/02/29 01:00", "2015/02/29 01:00", "1900/02/29 00:00", "2000/02/29 00:00", "2016/12/30 24:00", "2016/12/30 23:60",
				"2016/13/01 00:00", "2016/00/10 00:00", "2016/01/00 00:00", "2016/12/30 01:00 ", "2016/12/30 01:00:00", "+016/12/30 01:00", "16/12/30 01:00", "2016/1/30 01:00", "2016/12/3 01:00", "2016/12/30 01:0",
				"2016/12/30", "2016/12/30 ", "", "x", "2016/12/30 001:00", "2016/12/30 01;00", "２０１６/12/30 01:00", "2016/12/31 23:59", "0000/01/01 00:00", "9999/12/31 23:59", "2016/04/31 00:00", "2016/06/30 9:59")
			return []byte(s[:i+6] + nd + s[j:]), "date-value"
		}
	case 12:
		i := strings.Index(s, "Date: ")
		if i >= 0 && i < hdrEnd {
			j := strings.Index(s[i:], "\r\n") + i
			return []byte(s[:i] + s[j+2:]), "no-date"
		}
	case 13:
		return append(append([]byte(nil), data...), []byte(g.pick("x", "\r\n", "trailing\r\n", "\n", "\r", "\r\nmore\r\n"))...), "trailing-bytes"
	case 14:
		out := append([]byte(nil), data...)
		for i, n := 0, 1+r.Intn(3); i < n && len(out) > 0; i++ {
			out[r.Intn(len(out))] = byte(r.Intn(256))
		}
		return out, "byte-flips"
	case 15:
		p := r.Intn(len(data) + 1)
		ins := []byte(g.pick("\r\n", "\n", "\r", " ", ":", "\x00", "\r\n\r\n", "\xff"))
		return append(append(append([]byte(nil), data[:p]...), ins...), data[p:]...), "insert"
	case 16:
		if len(data) > 2 {
			p := r.Intn(len(data) - 1)
			q := p + 1 + r.Intn(min(8, len(data)-p-1)+1)
			if q > len(data) {
				q = len(data)
			}
			return append(append([]byte(nil), data[:p]...), data[q:]...), "delete"
		}
	case 17:
		// header only, in the forms in which a stream can end
		if hdrEnd > 0 {
			return []byte(s[:hdrEnd] + g.pick("", "\r", "\r\n", "\r\n\r", "\r\n\r\n", "\r\n ", "\r\n x")), "header-end-forms"
		}
	case 18:
		if i := strings.Index(s, "Mid: "); i == 0 {
			return []byte(s[strings.Index(s, "\r\n")+2:]), "no-mid"
		}
	case 19:
		return []byte(strings.Replace(s, ": ", g.pick(":", ":  ", ":\t", " : ", ":\r\n "), 1+r.Intn(3))), "colon-forms"
	}
	// default: cut the stream inside a section
	if hdrEnd+4 < len(data) {
		return data[:hdrEnd+4+r.Intn(len(data)-hdrEnd-4)], "cut-in-sections"
	}
	return data[:len(data)/2], "truncate"
}

// ---------- small stdlib-model ops ----------

func c09SmallOps(c *Ctx, g c09Gen) []Case {
	r := c.Rng
	var cases []Case
	rb := func(n int, alphabet string) string {
		b := make([]byte, n)
		for i := range b {
			b[i] = alphabet[r.Intn(len(alphabet))]
		}
		return string(b)
	}
	// CanonicalMIMEHeaderKey
	for _, k := range []string{"", "mid", "MID", "x-foo-bar", "X-FOO-BAR", "content-type", "a b", "A B", "a:b", "x-æ", "-a-b", "a--b", "1a-2B", "x_y-z", "a.b-c", "~a", "a\x00", "(x)"} {
		cases = append(cases, Case{Line: "canonkey " + hs(k), Impl: hs(textproto.CanonicalMIMEHeaderKey(k)), Desc: fmt.Sprintf("CanonicalMIMEHeaderKey(%q)", k), Class: "canonkey"})
	}
	for i := 0; i < c.Budget(150, 1500); i++ {
		k := rb(r.Intn(12), "abcXYZ-- _.1!:\xe6")
		cases = append(cases, Case{Line: "canonkey " + hs(k), Impl: hs(textproto.CanonicalMIMEHeaderKey(k)), Desc: fmt.Sprintf("CanonicalMIMEHeaderKey(%q)", k), Class: "canonkey", Nontrivial: strings.ContainsAny(k, "abcXYZ")})
	}
	// TrimString
	for i := 0; i < c.Budget(100, 1000); i++ {
		s := rb(r.Intn(10), " \t\r\nab\x0b\x0c\xa0")
		cases = append(cases, Case{Line: "trimstr " + hs(s), Impl: hs(textproto.TrimString(s)), Desc: fmt.Sprintf("TrimString(%q)", s), Class: "trimstring", Nontrivial: s != textproto.TrimString(s)})
	}
	// strconv.Atoi with the error dropped
	atoiIn := []string{"", "0", "-0", "+0", "-", "+", "5", "-5", "+5", "007", "12a", "a12", " 1", "1 ", "1_0", "0x10", "9223372036854775807", "9223372036854775808", "-9223372036854775808", "-9223372036854775809",
		"18446744073709551615", "18446744073709551616", "99999999999999999999999", "99999999999999999999999x", "1844674407370955161x", "18446744073709551620x", "999999999999999999", "1000000000000000000", "--1", "+-1", "１"}
	for i := 0; i < c.Budget(100, 1000); i++ {
		atoiIn = append(atoiIn, rb(r.Intn(3), "+-")+rb(r.Intn(24), "0123456789")+rb(r.Intn(2), "x 9"))
	}
	for _, s := range atoiIn {
		n, _ := strconv.Atoi(s)
		cases = append(cases, Case{Line: "msgatoi " + hs(s), Impl: strconv.Itoa(n), Desc: fmt.Sprintf("Atoi(%q)", s), Class: "atoi", Nontrivial: n != 0})
	}
	// AddressFromString / String
	addrIn := []string{"", ":", "::", "a:", ":a", ":foo@bar", "a:b:c", "a@b@c", "a@winlink.org@c", "a:b@winlink.org@c:d", "SMTP:x:y@z", "@", "@winlink.org", "x@", "la5nta@WINLINK.ORG", "x@winlink.orgx", "SMTP:la5nta@winlink.org", "smtp:A@b"}
	for i := 0; i < c.Budget(150, 1500); i++ {
		a, _, _ := g.address()
		addrIn = append(addrIn, a)
		if r.Intn(3) == 0 {
			addrIn = append(addrIn, rb(r.Intn(10), "aB1:@.")+g.pick("", "@winlink.org", "@WinLink.Org", ":x"))
		}
	}
	for _, s := range addrIn {
		a := fbb.AddressFromString(s)
		cases = append(cases, Case{Line: "addr " + hs(s), Impl: hs(a.Proto) + " " + hs(a.Addr) + " " + hs(a.String()), Desc: fmt.Sprintf("AddressFromString(%q)", s), Class: "address", Nontrivial: strings.ContainsAny(s, "@:")})
		// idempotence on the forms the property names (no colon, or proto:addr with a non-empty proto)
		if n := strings.Count(s, ":"); n == 0 || (n == 1 && !strings.HasPrefix(s, ":")) {
			if b := fbb.AddressFromString(a.String()); b != a {
				c.Violate("C09:addr-roundtrip", fmt.Sprintf("AddressFromString(%q) = %#v, but its String() %q parses to %#v", s, a, a.String(), b), map[string]interface{}{"address": s})
			}
		}
	}
	// time.Parse(DateLayout) / Format
	for i := 0; i < c.Budget(150, 1500); i++ {
		t, _ := g.date()
		u := t.UTC()
		s := u.Format(fbb.DateLayout)
		cases = append(cases, Case{Line: fmt.Sprintf("fdate %d %d %d %d %d", u.Year(), int(u.Month()), u.Day(), u.Hour(), u.Minute()), Impl: hs(s), Desc: "Format " + s, Class: "date-format", Nontrivial: true})
		if r.Intn(2) == 0 { // perturb
			bs := []byte(s)
			bs[r.Intn(len(bs))] = "0123456789 /:9"[r.Intn(14)]
			s = string(bs)
			if r.Intn(4) == 0 {
				s = s[:r.Intn(len(s))]
			}
		}
		impl := "err"
		if p, err := time.Parse(fbb.DateLayout, s); err == nil {
			impl = fmt.Sprintf("ok %d %d %d %d %d", p.Year(), int(p.Month()), p.Day(), p.Hour(), p.Minute())
		}
		cases = append(cases, Case{Line: "pdate " + hs(s), Impl: impl, Desc: fmt.Sprintf("time.Parse(DateLayout, %q)", s), Class: "date-parse", Nontrivial: impl != "err"})
	}
	return cases
}

// c09MimeHdr: the textproto reader model against the real reader on header blocks.
func c09MimeHdrCase(stream []byte, class string) Case {
	br := bufio.NewReader(iotest.OneByteReader(bytes.NewReader(stream)))
	if len(stream)%2 == 0 {
		br = bufio.NewReader(bytes.NewReader(stream))
	}
	h, err := textproto.NewReader(br).ReadMIMEHeader()
	impl := ""
	if err != nil {
		impl = "err " + c09ErrClass(err)
	} else {
		rest, _ := io.ReadAll(br)
		impl = "ok " + strings.Join(c09HeaderTokens(h), " ") + " R " + hx(rest)
	}
	return Case{Line: "mimehdr " + hx(stream), Impl: impl, Desc: fmt.Sprintf("ReadMIMEHeader(%q)", trunc(string(stream), 200)), Class: "mimehdr/" + class, Nontrivial: err == nil && len(h) > 0}
}

func init() {
	register("C09", "cases: messages built through the real public API in lock-step with the model's builder script (NewMessage, 0..3 To / 0..2 Cc in callsign, @winlink.org any case, SMTP and explicit proto forms, SetFrom, SetSubject with ASCII/Latin-1 text incl. blanks = ? _ encoded-word look-alikes control characters and lengths around 75, SetDate at random minutes, year ends, leap days, non-UTC and DST zones, SetBody, 0..3 AddFile with empty/CRLF-only/NUL/ends-in-CR/header-look-alike/4000..9000-byte data and names with blanks, non-ASCII, '=?', extra X- headers with surrounding blanks and raw Latin-1 bytes); each is compared with the model at three points (builder state, Bytes(), ReadFrom(Bytes())) and parsed through whole/1-byte/half/data+EOF/random-size readers; hand-made states (raw bodies, non-canonical keys, missing Mid, empty value lists); a malformed stream of mutated serialisations (truncation, Body/File sizes off by one, negative, huge, non-numeric, damaged section terminators, bad/continued/odd header lines, date values in all layouts and near-misses, byte flips/inserts/deletes) compared for the full result when accepted and for the error class otherwise; header blocks straight through net/textproto; the small stdlib models (CanonicalMIMEHeaderKey, TrimString, Atoi, AddressFromString, time.Parse/Format with the Date layout). Non-trivial: built messages with at least one attachment or a non-ASCII/forced-encoded subject or an X- header; mutated streams; distinct by case line.", func(c *Ctx) {
		g := c09Gen{c}
		c.Compare(c09SmallOps(c, g))

		// 1. messages through the public API
		var serialisations [][]byte
		nBuilt := c.Budget(900, 12000)
		for i := 0; i < nBuilt && c.TimeLeft(); i++ {
			b := g.build()
			rep := map[string]interface{}{"go": b.src, "model_script": trunc(strings.Join(b.script, " "), 4000)}
			desc := trunc(strings.Join(b.src, "; "), 600)
			nontriv := len(b.files) > 0 || strings.Contains(b.m.Header.Get("Subject"), "=?") || len(b.m.Header) > 9
			cases := []Case{{Line: "msgbuild " + strings.Join(b.script, " "), Impl: c09State(b.m), Desc: "builder state: " + desc, Class: "built/state", Nontrivial: nontriv}}
			// everything the API builds must satisfy the model's wf predicate (built_is_WF, on the real state)
			cases = append(cases, Case{Line: c09WfLine(b.m), Impl: "1", Desc: "wf(builder state): " + desc, Class: "built/wf", Nontrivial: nontriv})
			cases = append(cases, c09RoundTrip(c, b.m, b, desc, rep, b.classes, nontriv)...)
			c.Compare(cases)
			if data, err := b.m.Bytes(); err == nil && len(data) < 3000 {
				serialisations = append(serialisations, data)
			}
		}

		// 2. hand-made states (correspondence for write/read outside what the builder produces; round-trip oracle only where WF)
		type state struct {
			name string
			mk   func() *fbb.Message
			wf   bool
		}
		base := func() *fbb.Message {
			m := fbb.NewMessage(fbb.Private, "LA5NTA")
			m.Header.Set("Mid", "ABCDEFGHIJKL")
			m.SetDate(time.Date(2016, 12, 30, 1, 0, 0, 0, time.UTC))
			m.AddTo("N0CALL")
			return m
		}
		rawBody := func(body []byte, files ...*fbb.File) *fbb.Message {
			m := base()
			m.VerifSetRaw(body, nil)
			m.Header.Set("Body", strconv.Itoa(len(body)))
			for _, f := range files {
				m.AddFile(f)
			}
			return m
		}
		states := []state{
			{"raw body without final CRLF", func() *fbb.Message { return rawBody([]byte("no newline at the end")) }, true},
			{"raw body of NUL and high bytes", func() *fbb.Message { return rawBody([]byte{0, 0, 255, 13, 10, 10, 13, 0}) }, true},
			{"raw body ending in CR + file", func() *fbb.Message { return rawBody([]byte("x\r"), fbb.NewFile("a", []byte("\n"))) }, true},
			{"raw empty body + empty file", func() *fbb.Message { return rawBody(nil, fbb.NewFile("a", nil)) }, true},
			{"no Body header, empty body", func() *fbb.Message { m := base(); return m }, true},
			{"Mid with surrounding blanks", func() *fbb.Message { m := base(); m.Header.Set("Mid", " \tABC  "); return m }, true},
			{"values with blanks everywhere", func() *fbb.Message {
				m := rawBody([]byte("b"))
				m.Header.Set("Subject", "  s  ")
				m.Header.Set("Body", " 1 ")
				m.Header.Set("X-A", "\t")
				return m
			}, true},
			{"Body header larger than body", func() *fbb.Message { m := rawBody([]byte("abc")); m.Header.Set("Body", "5"); return m }, false},
			{"Body header smaller than body", func() *fbb.Message { m := rawBody([]byte("abc")); m.Header.Set("Body", "1"); return m }, false},
			{"missing Mid", func() *fbb.Message { m := rawBody([]byte("abc")); m.Header.Del("Mid"); return m }, false},
			{"empty Mid", func() *fbb.Message { m := rawBody([]byte("abc")); m.Header.Set("Mid", ""); return m }, false},
			{"blank Mid", func() *fbb.Message { m := rawBody([]byte("abc")); m.Header.Set("Mid", " "); return m }, false},
			{"two Mid values", func() *fbb.Message { m := base(); m.Header.Add("Mid", "SECOND"); return m }, false},
			{"non-canonical key MID next to Mid", func() *fbb.Message {
				m := base()
				m.Header["MID"] = []string{"x"}
				m.Header["mid"] = []string{"y"}
				return m
			}, false},
			{"non-canonical keys", func() *fbb.Message {
				m := base()
				m.Header["x-lower"] = []string{"v"}
				m.Header["X-UPPER"] = []string{"w"}
				return m
			}, false},
			{"key with a space", func() *fbb.Message { m := base(); m.Header.Set("X Foo", "v"); m.Header.Set("x bar", "w"); return m }, false},
			{"empty value list", func() *fbb.Message { m := base(); m.Header["X-None"] = []string{}; return m }, false},
			{"CRLF inside a value", func() *fbb.Message { m := base(); m.Header.Set("X-Inj", "a\r\nX-Other: b"); return m }, false},
			{"value with CR LF at the ends", func() *fbb.Message { m := base(); m.Header.Set("X-T", "\r\n v \n\r"); return m }, false},
			{"control byte in a value", func() *fbb.Message { m := base(); m.Header.Set("X-C", "a\x01b"); return m }, false},
			{"unparseable Date", func() *fbb.Message { m := base(); m.Header.Set("Date", "yesterday"); return m }, false},
			{"Date with a leading blank", func() *fbb.Message { m := base(); m.Header.Set("Date", " 2016/12/30 01:00"); return m }, false},
			{"Date in a fallback layout", func() *fbb.Message { m := base(); m.Header.Set("Date", "2016.12.30 01:00"); return m }, false},
			{"no Date", func() *fbb.Message { m := base(); m.Header.Del("Date"); return m }, true},
			{"File header without matching attachment", func() *fbb.Message { m := base(); m.Header.Add("File", "3 x"); return m }, false},
			{"attachment without File header", func() *fbb.Message {
				m := base()
				m.VerifSetRaw([]byte("b"), []*fbb.File{fbb.NewFile("x", []byte("abc"))})
				m.Header.Set("Body", "1")
				return m
			}, false},
			{"multi-valued X- header and sorted keys", func() *fbb.Message {
				m := base()
				for _, k := range []string{"X-B", "X-A", "X-b", "X-B", "Zz", "Aa", "X-B"} {
					m.Header.Add(k, "v"+k)
				}
				return m
			}, true},
		}
		for _, st := range states {
			m := st.mk()
			rep := map[string]interface{}{"state": st.name, "message": c09State(m)}
			c.Compare([]Case{{Line: c09WfLine(m), Impl: map[bool]string{true: "1", false: "0"}[st.wf], Desc: "wf(" + st.name + ")", Class: "state/wf", Nontrivial: true}})
			if st.wf {
				c.Compare(c09RoundTrip(c, m, nil, st.name, rep, []string{"state:wf"}, true))
				continue
			}
			// not well-formed: correspondence only
			var cases []Case
			fb := "0"
			if d := m.Header.Get("Date"); d != "" {
				if _, err := time.Parse(fbb.DateLayout, d); err != nil {
					if _, err := fbb.ParseDate(d); err == nil {
						fb = "1"
					}
				}
			}
			data, err := m.Bytes()
			if err != nil {
				cases = append(cases, Case{Line: "msgwrite " + fb + " " + c09State(m), Impl: "err " + c09ErrClass(err), Desc: "Bytes: " + st.name, Class: "state/non-wf", Nontrivial: true})
			} else {
				cases = append(cases, Case{Line: "msgwrite " + fb + " " + c09State(m), Impl: "ok " + hx(data), Desc: "Bytes: " + st.name, Class: "state/non-wf", Nontrivial: true})
				obs, _ := c09ReadImpl(bytes.NewReader(data))
				cases = append(cases, Case{Line: c09ReadLine(data), Impl: obs, Desc: "ReadFrom(Bytes): " + st.name, Class: "state/non-wf", Nontrivial: true})
				serialisations = append(serialisations, data)
			}
			c.Compare(cases)
		}

		// 3. malformed stream: mutated serialisations; full result when accepted, error class otherwise
		if len(serialisations) > 0 {
			var cases []Case
			for i, n := 0, c.Budget(5000, 80000); i < n && c.TimeLeft(); i++ {
				data := serialisations[c.Rng.Intn(len(serialisations))]
				mut, class := c09Mutate(g, data)
				for c.Rng.Intn(4) == 0 {
					var cl2 string
					mut, cl2 = c09Mutate(g, mut)
					if len(mut) == 0 {
						break
					}
					class += "+" + cl2
				}
				var rd io.Reader = bytes.NewReader(mut)
				if i%3 == 1 {
					rd = iotest.OneByteReader(bytes.NewReader(mut))
				} else if i%3 == 2 {
					rd = iotest.DataErrReader(&rndReader{append([]byte(nil), mut...), rand.New(rand.NewSource(int64(i))), 40})
				}
				obs, _ := c09ReadImpl(rd)
				if obs == "panic" || obs == "hang" {
					c.Note("ReadFrom %s on mutated stream (%s): %q — defect of property C03; the C09 model must agree on the class", obs, class, trunc(string(mut), 300))
				}
				oc := obs
				if i := strings.IndexByte(oc, ' '); i > 0 && strings.HasPrefix(oc, "ok") {
					oc = "ok"
				}
				cases = append(cases, Case{Line: c09ReadLine(mut), Impl: obs, Desc: fmt.Sprintf("ReadFrom(mutated %s: %q)", class, trunc(string(mut), 300)), Class: "mutated/" + strings.SplitN(class, "+", 2)[0] + "→" + oc, Nontrivial: true})
				if len(cases) >= 300 {
					c.Compare(cases)
					cases = nil
				}
				// header block of the same stream straight through textproto
				if i%4 == 0 {
					cases = append(cases, c09MimeHdrCase(bytes.TrimLeft(mut, "\t\n\v\f\r "), strings.SplitN(class, "+", 2)[0]))
				}
			}
			c.Compare(cases)
		}
		c.Note("model parameters instantiated from the real stdlib per case: encodeHeaderText output (builder), WordDecoder.DecodeHeader of the File names and 'a non-primary date layout parses' (reader)")
	})
}
