package main

// sim_ardop.go - an independent ARDOP TNC simulator, written from the host interface
// specification (docs/ardop/_ARDOP TNC Interface Spec.pdf, sections 5-7), NOT from the Go code:
//
//   host -> TNC command : "C:" <text> <Cr> + 2 byte CRC          (TCPIP: <text> <Cr>, no prefix, no CRC)
//   TNC -> host reply   : "c:" <text> <Cr> + 2 byte CRC          (TCPIP: <text> <Cr>)
//   host -> TNC data    : "D:" + 2 byte count (MSB first) + data + 2 byte CRC   (TCPIP: count + data)
//   TNC -> host data    : "d:" + 2 byte count (MSB first) + "ARQ"|"FEC"|"ERR"|"IDF" + data + 2 byte CRC
//   a frame received with a CRC failure is answered with CRCFAULT and must be repeated by the sender.
//
// The 16 bit CRC of the host interface is not given as a polynomial in the interface spec; the de-facto
// definition (ARDOP_Win / ardopc GenCRC16, pinned by the repo's TestCRC16Sum vectors) is the remainder of
// the bit string 0xFFFF ‖ data modulo x^16+x^15+x^11+x^4 over GF(2). It is implemented here by plain
// long division on a bit array - deliberately a different algorithm from the code's shift register.

import (
	"errors"
	"fmt"
	"io"
	"net"
	"strconv"
	"strings"
	"sync"
	"time"
)

func simCRC(data []byte) uint16 {
	bits := make([]byte, 0, 16+8*len(data))
	for i := 0; i < 16; i++ {
		bits = append(bits, 1)
	}
	for _, b := range data {
		for k := 7; k >= 0; k-- {
			bits = append(bits, (b>>uint(k))&1)
		}
	}
	// G = x^16 + x^15 + x^11 + x^4
	g := make([]byte, 17)
	for _, e := range []int{16, 15, 11, 4} {
		g[16-e] = 1
	}
	for i := 0; i+17 <= len(bits); i++ {
		if bits[i] == 1 {
			for j := 0; j < 17; j++ {
				bits[i+j] ^= g[j]
			}
		}
	}
	var r uint16
	for _, b := range bits[len(bits)-16:] {
		r = r<<1 | uint16(b)
	}
	return r
}

type ardopSim struct {
	tcp  bool
	ctrl io.ReadWriter // serial: the one host link; TCPIP: command socket
	data io.ReadWriter // TCPIP only: data socket

	wmu sync.Mutex // one whole frame at a time per sim

	mu        sync.Mutex
	cond      *sync.Cond
	cmds      []string // accepted host commands (text without Cr)
	rawCmds   [][]byte // the exact bytes of each command frame
	offered   [][]byte // payload of every well-formed data frame, including the ones answered CRCFAULT
	accepted  [][]byte // payloads taken into the outbound queue
	rawData   [][]byte // the exact bytes of each data frame
	protoErrs []string // framing violations by the host (bad prefix, bad CRC, zero count)
	faultNext int      // answer the next k data frames with CRCFAULT
	faultCmds int      // answer the next k command frames with CRCFAULT (not used by default)
	queued    int
	quiet     bool // do not answer data frames at all
	mycall    string
	grid      string
	state     string
	connectTo string // reply to ARQCALL: "ok", "fault", "timeout"
	ended     bool
	rdy       bool     // emit RDY after each command reply (spec section 5)
	preAck    []string // asynchronous responses emitted before the answer to each data frame
	chop      int      // >0: write TNC->host bytes in pieces of this size (TCP segmentation)
	// earlyBuffer: report the current queue (BUFFER n, for earlier data) as soon as a data frame's header has
	// been seen, before its body is taken off the link
	earlyBuffer bool
	banner      []byte // ARQ payload delivered right behind the CONNECTED report of an outbound connect
}

func newArdopSim(tcp bool, ctrl, data io.ReadWriter) *ardopSim {
	s := &ardopSim{tcp: tcp, ctrl: ctrl, data: data, state: "DISC", connectTo: "ok", rdy: true}
	s.cond = sync.NewCond(&s.mu)
	if tcp {
		go s.readTCPCtrl()
		go s.readTCPData()
	} else {
		go s.readSerial()
	}
	return s
}

func be16(n int) []byte { return []byte{byte(n >> 8), byte(n)} }

// ---- TNC -> host ----

func (s *ardopSim) ctrlFrame(text string) []byte {
	if s.tcp {
		return []byte(text + "\r")
	}
	body := []byte(text + "\r")
	out := append([]byte("c:"), body...)
	return append(out, be16(int(simCRC(body)))...)
}

func (s *ardopSim) dataFrame(typ string, payload []byte) []byte {
	body := append(be16(len(typ)+len(payload)), []byte(typ)...)
	body = append(body, payload...)
	if s.tcp {
		return body
	}
	out := append([]byte("d:"), body...)
	return append(out, be16(int(simCRC(body)))...)
}

func (s *ardopSim) sendCtrl(text string) { s.sendRaw(false, s.ctrlFrame(text)) }

func (s *ardopSim) sendData(typ string, payload []byte) { s.sendRaw(true, s.dataFrame(typ, payload)) }

// sendRaw writes arbitrary bytes on the data (TCPIP only) or command/serial stream.
func (s *ardopSim) sendRaw(onData bool, b []byte) {
	s.wmu.Lock()
	defer s.wmu.Unlock()
	w := s.ctrl
	if onData && s.tcp {
		w = s.data
	}
	if s.chop > 0 {
		for len(b) > 0 {
			n := s.chop
			if n > len(b) {
				n = len(b)
			}
			w.Write(b[:n])
			b = b[n:]
			time.Sleep(150 * time.Microsecond)
		}
		return
	}
	w.Write(b)
}

// ---- host -> TNC ----

func (s *ardopSim) protoErr(f string, a ...interface{}) {
	s.mu.Lock()
	s.protoErrs = append(s.protoErrs, fmt.Sprintf(f, a...))
	s.cond.Broadcast()
	s.mu.Unlock()
}

func (s *ardopSim) end() {
	s.mu.Lock()
	s.ended = true
	s.cond.Broadcast()
	s.mu.Unlock()
}

func readUntilCR(r io.Reader) ([]byte, error) {
	var out []byte
	one := make([]byte, 1)
	for {
		if _, err := io.ReadFull(r, one); err != nil {
			return out, err
		}
		if one[0] == '\r' {
			return out, nil
		}
		out = append(out, one[0])
		if len(out) > 1<<20 {
			return out, errors.New("command without Cr")
		}
	}
}

func (s *ardopSim) readSerial() {
	defer s.end()
	for {
		pre := make([]byte, 2)
		if _, err := io.ReadFull(s.ctrl, pre); err != nil {
			return
		}
		switch string(pre) {
		case "C:":
			text, err := readUntilCR(s.ctrl)
			if err != nil {
				s.protoErr("truncated command %q", text)
				return
			}
			sum := make([]byte, 2)
			if _, err := io.ReadFull(s.ctrl, sum); err != nil {
				s.protoErr("command %q without CRC", text)
				return
			}
			raw := append(append(append([]byte("C:"), text...), '\r'), sum...)
			if simCRC(append(append([]byte{}, text...), '\r')) != uint16(sum[0])<<8|uint16(sum[1]) {
				s.protoErr("command %q: CRC %02x%02x wrong", text, sum[0], sum[1])
				s.sendCtrl("CRCFAULT")
				continue
			}
			s.gotCmd(string(text), raw)
		case "D:":
			cnt := make([]byte, 2)
			if _, err := io.ReadFull(s.ctrl, cnt); err != nil {
				s.protoErr("truncated data frame")
				return
			}
			n := int(cnt[0])<<8 | int(cnt[1])
			s.mu.Lock()
			early, q := s.earlyBuffer, s.queued
			s.mu.Unlock()
			if early {
				s.sendCtrl("BUFFER " + strconv.Itoa(q))
			}
			body := make([]byte, n)
			if _, err := io.ReadFull(s.ctrl, body); err != nil {
				s.protoErr("data frame shorter than its count %d", n)
				return
			}
			sum := make([]byte, 2)
			if _, err := io.ReadFull(s.ctrl, sum); err != nil {
				s.protoErr("data frame without CRC")
				return
			}
			raw := append(append(append([]byte("D:"), cnt...), body...), sum...)
			if simCRC(append(append([]byte{}, cnt...), body...)) != uint16(sum[0])<<8|uint16(sum[1]) {
				s.protoErr("data frame (count %d): CRC %02x%02x wrong", n, sum[0], sum[1])
				s.sendCtrl("CRCFAULT")
				continue
			}
			s.gotData(body, raw)
		default:
			s.protoErr("host frame starts with %q, neither C: nor D:", pre)
			return
		}
	}
}

func (s *ardopSim) readTCPCtrl() {
	defer s.end()
	for {
		text, err := readUntilCR(s.ctrl)
		if err != nil {
			if len(text) > 0 {
				s.protoErr("truncated command %q", text)
			}
			return
		}
		s.gotCmd(string(text), append(append([]byte{}, text...), '\r'))
	}
}

func (s *ardopSim) readTCPData() {
	for {
		cnt := make([]byte, 2)
		if _, err := io.ReadFull(s.data, cnt); err != nil {
			return
		}
		n := int(cnt[0])<<8 | int(cnt[1])
		body := make([]byte, n)
		if _, err := io.ReadFull(s.data, body); err != nil {
			s.protoErr("data frame shorter than its count %d", n)
			return
		}
		s.gotData(body, append(append([]byte{}, cnt...), body...))
	}
}

func (s *ardopSim) gotData(body, raw []byte) {
	s.mu.Lock()
	s.offered = append(s.offered, body)
	s.rawData = append(s.rawData, raw)
	if len(body) == 0 {
		s.protoErrs = append(s.protoErrs, "data frame with count 0 (spec: 0001-FFFF)")
	}
	fault := s.faultNext > 0
	quiet := s.quiet
	if fault {
		s.faultNext--
	} else {
		s.accepted = append(s.accepted, body)
		s.queued += len(body)
	}
	q := s.queued
	pre := s.preAck
	s.cond.Broadcast()
	s.mu.Unlock()
	for _, t := range pre {
		s.sendCtrl(t)
	}
	switch {
	case fault:
		s.sendCtrl("CRCFAULT")
	case quiet:
	default:
		s.sendCtrl("BUFFER " + strconv.Itoa(q))
	}
}

// Drain reports the outbound queue as transmitted.
func (s *ardopSim) Drain() {
	s.mu.Lock()
	s.queued = 0
	s.mu.Unlock()
	s.sendCtrl("BUFFER 0")
}

func (s *ardopSim) gotCmd(text string, raw []byte) {
	s.mu.Lock()
	s.cmds = append(s.cmds, text)
	s.rawCmds = append(s.rawCmds, raw)
	s.cond.Broadcast()
	s.mu.Unlock()
	for _, r := range s.reply(text) {
		s.sendCtrl(r)
		// the remote station may start talking the moment the link is up: its first ARQ frame follows the
		// CONNECTED report directly, before the host has asked anything else
		if strings.HasPrefix(r, "CONNECTED ") {
			s.mu.Lock()
			b := s.banner
			s.mu.Unlock()
			if len(b) > 0 {
				s.sendData("ARQ", b)
			}
		}
	}
}

// reply implements section 5: a command with a parameter is answered "<CMD> now <value>", one without
// returns the current value (or is echoed), followed by RDY.
func (s *ardopSim) reply(text string) []string {
	s.mu.Lock()
	defer s.mu.Unlock()
	name, param := text, ""
	if i := strings.IndexByte(text, ' '); i >= 0 {
		name, param = text[:i], text[i+1:]
	}
	name = strings.ToUpper(name)
	var out []string
	switch name {
	case "RDY", "CRCFAULT":
		return nil
	case "INITIALIZE":
		out = []string{"INITIALIZE"}
	case "STATE":
		out = []string{"STATE " + s.state}
	case "MYCALL":
		if param != "" {
			s.mycall = param
			out = []string{"MYCALL now " + param}
		} else {
			out = []string{"MYCALL " + s.mycall}
		}
	case "GRIDSQUARE":
		if param != "" {
			s.grid = param
			out = []string{"GRIDSQUARE now " + param}
		} else {
			out = []string{"GRIDSQUARE " + s.grid}
		}
	case "VERSION":
		out = []string{"VERSION ARDOP_Sim_0.6.3"}
	case "ARQCALL":
		switch s.connectTo {
		case "ok":
			target := strings.Fields(param + " x")[0]
			s.state = "ISS"
			out = []string{"ARQCALL " + param, "NEWSTATE ISS", "CONNECTED " + target + " 500"}
		case "fault":
			out = []string{"FAULT not from state " + s.state}
		default:
			out = []string{"ARQCALL " + param}
		}
	case "DISCONNECT":
		if s.state != "DISC" {
			s.state = "DISC"
			out = []string{"DISCONNECT", "DISCONNECTED", "NEWSTATE DISC"}
		} else {
			out = []string{"DISCONNECT"}
		}
	case "ABORT":
		s.state = "DISC"
		out = []string{"ABORT", "NEWSTATE DISC"}
	default:
		if param != "" {
			out = []string{name + " now " + param}
		} else {
			out = []string{name}
		}
	}
	if s.rdy {
		out = append(out, "RDY")
	}
	return out
}

func (s *ardopSim) setState(st string) {
	s.mu.Lock()
	s.state = st
	s.mu.Unlock()
}

// waitFor blocks until pred holds over the sim's records (or the timeout passes).
func (s *ardopSim) waitFor(d time.Duration, pred func() bool) bool {
	deadline := time.Now().Add(d)
	t := time.AfterFunc(d+10*time.Millisecond, func() { s.mu.Lock(); s.cond.Broadcast(); s.mu.Unlock() })
	defer t.Stop()
	s.mu.Lock()
	defer s.mu.Unlock()
	for !pred() {
		if time.Now().After(deadline) {
			return false
		}
		s.cond.Wait()
	}
	return true
}

func (s *ardopSim) nCmds() int     { s.mu.Lock(); defer s.mu.Unlock(); return len(s.cmds) }
func (s *ardopSim) nOffered() int  { s.mu.Lock(); defer s.mu.Unlock(); return len(s.offered) }
func (s *ardopSim) nAccepted() int { s.mu.Lock(); defer s.mu.Unlock(); return len(s.accepted) }

func (s *ardopSim) waitCmd(from int, prefix string, d time.Duration) bool {
	return s.waitFor(d, func() bool {
		for _, c := range s.cmds[min(from, len(s.cmds)):] {
			if strings.HasPrefix(strings.ToUpper(c), prefix) {
				return true
			}
		}
		return false
	})
}

func (s *ardopSim) snapshot() (cmds []string, offered, accepted, rawData, rawCmds [][]byte, errs []string) {
	s.mu.Lock()
	defer s.mu.Unlock()
	return append([]string{}, s.cmds...), append([][]byte{}, s.offered...), append([][]byte{}, s.accepted...),
		append([][]byte{}, s.rawData...), append([][]byte{}, s.rawCmds...), append([]string{}, s.protoErrs...)
}

// tcpPair listens on two adjacent loopback ports P, P+1 (the host derives the data port from the command
// port by incrementing the last digit, so P must not end in 9).
func tcpPair() (l1, l2 net.Listener, addr string, err error) {
	for try := 0; try < 200; try++ {
		l1, err = net.Listen("tcp", "127.0.0.1:0")
		if err != nil {
			return nil, nil, "", err
		}
		p := l1.Addr().(*net.TCPAddr).Port
		if p%10 == 9 || p >= 65535 {
			l1.Close()
			continue
		}
		l2, err = net.Listen("tcp", fmt.Sprintf("127.0.0.1:%d", p+1))
		if err != nil {
			l1.Close()
			continue
		}
		return l1, l2, fmt.Sprintf("127.0.0.1:%d", p), nil
	}
	return nil, nil, "", errors.New("no adjacent loopback port pair found")
}
