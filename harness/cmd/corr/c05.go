package main

// c05.go: an INDEPENDENTLY written B2F peer (from docs/F6FBB-B2F/protocole.html, sid.html and the Winlink
// B2F notes), used as the judge for property C05. It validates every line and frame the library's Session
// emits and exercises the conforming variations a peer may choose. It uses its own LZHUF (canon.go) and
// its own CRC; it shares no code with the library's protocol engine.

import (
	"bufio"
	"bytes"
	"fmt"
	"math/rand"
	"regexp"
	"sort"
	"strconv"
	"strings"
	"time"
)

type peerMsg struct {
	mid   string
	title string
	plain []byte
	comp  []byte
}

type peerCfg struct {
	master     bool
	motd       []string
	features   string
	fwLine     string
	challenge  string
	comments   bool
	earlyFQ    bool
	dupMid     bool
	outbox     []peerMsg
	policy     map[string]byte   // answer to the session's proposals, by mid ('+','-','=')
	expect     map[string][]byte // session's messages by mid (plain bytes) for payload validation
	expOrder   []string          // the order in which the session must propose (precedence, size, mid)
	expectFW   []string          // forwarder addresses the session must announce
	expectResp map[string]string // address -> secure response expected (when a challenge is sent)
	holdTurns  int               // the peer answers FF in its first k turns although it has messages (they "arrive" later)
	offsets    map[string]int    // accept the session's proposal for this mid at an offset ("!n" / "An": resume)
	expectComp map[string][]byte // the compressed form the session proposes, by mid (to judge resumed transfers)
	rng        *rand.Rand
}

type peerResult struct {
	violations []string          // conformance violations of the session (rule: detail)
	got        map[string][]byte // messages received from the session (decoded)
	answers    map[string]byte   // session's answers to the peer's proposals
	accepted   map[string]bool   // session proposals the peer answered '+'
	sessionFQ  bool              // the session ended the conversation
	lastOurFF  bool              // the peer's last turn was an FF
	ourTurns   int
	done       bool
	note       string
}

var (
	reProposal = regexp.MustCompile(`^F([ABCD]) (EM|CM) ([A-Za-z0-9]{1,12}) (\d+) (\d+) (\d+)$`)
	reSID      = regexp.MustCompile(`^\[[^\[\]]*-[A-Za-z0-9$]+\]$`)
	reFWItem   = regexp.MustCompile(`^[A-Za-z0-9@.:_-]+(\|\d{8})?$`)
)

type peer struct {
	cfg  *peerCfg
	rd   *bufio.Reader
	conn *memConn
	res  *peerResult
}

func (p *peer) viol(rule, format string, a ...interface{}) {
	if len(p.res.violations) < 20 {
		p.res.violations = append(p.res.violations, rule+": "+fmt.Sprintf(format, a...))
	}
}

func (p *peer) line() (string, bool) {
	l, err := p.rd.ReadString('\r')
	if err != nil {
		return l, false
	}
	return l[:len(l)-1], true
}

func (p *peer) send(s string) { p.conn.Write([]byte(s)) }

// answerSpelling picks a legal spelling for an answer.
func (p *peer) answerSpelling(a byte) string {
	switch a {
	case '+':
		return []string{"+", "Y", "y", "!0", "A0", "a0"}[p.cfg.rng.Intn(6)]
	case '-':
		return []string{"-", "N", "n", "R", "r"}[p.cfg.rng.Intn(5)]
	}
	return []string{"=", "L", "l"}[p.cfg.rng.Intn(3)]
}

func (p *peer) sendFrame(m peerMsg) {
	title := m.title
	hdr := []byte{1, byte(len(title) + 1 + 2)}
	hdr = append(hdr, title...)
	hdr = append(hdr, 0, '0', 0)
	p.conn.Write(hdr)
	sum := 0
	data := m.comp
	for len(data) > 0 {
		n := 1 + p.cfg.rng.Intn(256)
		if p.cfg.rng.Intn(3) == 0 {
			n = 256
		}
		if n > len(data) {
			n = len(data)
		}
		p.conn.Write(append([]byte{2, byte(n)}, data[:n]...)) // 256 goes out as 0
		for _, b := range data[:n] {
			sum += int(b)
		}
		data = data[n:]
	}
	p.conn.Write([]byte{4, byte(-sum)})
}

// readFrame reads and validates one SOH..EOT transfer for a proposal with compressed size csize.
func (p *peer) readFrame(mid string, csize int) bool { return p.readFrameAt(mid, csize, 0) }

// readFrameAt: the transfer of a proposal accepted at the given offset carries the offset in its header and
// the compressed bytes from that offset on.
func (p *peer) readFrameAt(mid string, csize, offset int) bool {
	b, err := p.rd.ReadByte()
	if err != nil {
		p.viol("frame", "no transfer for accepted proposal %s", mid)
		return false
	}
	if b != 1 {
		p.viol("frame-soh", "transfer for %s starts with 0x%02x, not SOH", mid, b)
		return false
	}
	hl, _ := p.rd.ReadByte()
	title, err1 := p.rd.ReadBytes(0)
	off, err2 := p.rd.ReadBytes(0)
	if err1 != nil || err2 != nil {
		p.viol("frame-header", "truncated transfer header for %s", mid)
		return false
	}
	title, off = title[:len(title)-1], off[:len(off)-1]
	if int(hl) != len(title)+len(off)+2 {
		p.viol("frame-header-length", "header length byte %d, title %d + offset %d + 2", hl, len(title), len(off))
	}
	if len(title) < 1 || len(title) > 80 && false {
		p.viol("frame-title", "title length %d", len(title))
	}
	for _, c := range title {
		if c >= 0x80 {
			p.viol("frame-title-ascii", "title contains non-ASCII byte 0x%02x", c)
			break
		}
	}
	if string(off) != strconv.Itoa(offset) {
		p.viol("frame-offset", "offset %q, want %q", off, strconv.Itoa(offset))
	}
	var data []byte
	sum := 0
	for {
		b, err := p.rd.ReadByte()
		if err != nil {
			p.viol("frame-truncated", "transfer for %s ended inside the data", mid)
			return false
		}
		if b == 2 {
			l, _ := p.rd.ReadByte()
			n := int(l)
			if n == 0 {
				n = 256
			}
			blk := make([]byte, n)
			if _, err := readFull(p.rd, blk); err != nil {
				p.viol("frame-truncated", "short data block in the transfer for %s", mid)
				return false
			}
			for _, x := range blk {
				sum += int(x)
			}
			data = append(data, blk...)
			continue
		}
		if b == 4 {
			ck, _ := p.rd.ReadByte()
			if (sum+int(ck))%256 != 0 {
				p.viol("frame-checksum", "EOT checksum 0x%02x does not make the data sum zero", ck)
			}
			break
		}
		p.viol("frame-block", "unexpected byte 0x%02x between data blocks", b)
		return false
	}
	if offset > 0 {
		// a resumed transfer. The FBB text says of version 1 "the 6 top bytes will be always sent, then if resume
		// seek to asked offset"; whether B2 repeats the 6 header bytes cannot be settled from the documents in
		// the repository, so both forms are taken as conforming and only the common part is judged: the bytes
		// from the offset on must be the tail of the transfer.
		want := p.cfg.expectComp[mid]
		if offset <= len(want) && !bytes.HasSuffix(data, want[offset:]) {
			p.viol("frame-resume-content", "resumed transfer of %s does not end with the compressed bytes from offset %d on", mid, offset)
		}
		if len(data) != csize-offset && len(data) != csize-offset+6 {
			p.viol("frame-size", "resumed transfer for %s carried %d bytes, proposal said %d (accepted at offset %d)", mid, len(data), csize, offset)
		}
		p.res.got[mid] = p.cfg.expect[mid] // (the peer is assumed to hold the first part already)
		return true
	}
	if len(data) != csize {
		p.viol("frame-size", "transfer for %s carried %d bytes, proposal said %d", mid, len(data), csize)
	}
	if len(data) < 6 {
		p.viol("payload-short", "payload of %d bytes", len(data))
		return false
	}
	crc := crc16Xmodem(data[2:])
	if data[0] != byte(crc) || data[1] != byte(crc>>8) {
		p.viol("payload-crc", "payload CRC-16 %02x%02x, computed %04x", data[1], data[0], crc)
	}
	size := int32le(data[2:6])
	if size < 0 || size > 1<<24 {
		p.viol("payload-size", "payload declares %d bytes", size)
		return false
	}
	plain, _ := canonDecode(data[6:], size, size+100)
	if len(plain) != size {
		p.viol("payload-decode", "payload decodes to %d bytes, header declares %d", len(plain), size)
	}
	if want, ok := p.cfg.expect[mid]; ok && !bytes.Equal(plain, want) {
		p.viol("payload-content", "decoded message %s differs from what was queued", mid)
	}
	p.res.got[mid] = plain
	return true
}

func readFull(r *bufio.Reader, b []byte) (int, error) {
	n := 0
	for n < len(b) {
		m, err := r.Read(b[n:])
		n += m
		if err != nil {
			return n, err
		}
	}
	return n, nil
}

// theirTurn handles one turn of the session. Returns (quit, sessionSaidFF, ok).
func (p *peer) theirTurn() (bool, bool, bool) {
	type prop struct {
		mid   string
		csize int
	}
	var props []prop
	sum := 0
	for {
		l, ok := p.line()
		if !ok {
			p.viol("turn", "connection ended in the session's turn (got %q)", l)
			return true, false, false
		}
		switch {
		case l == "FF":
			if len(props) > 0 {
				p.viol("turn-ff", "FF inside a proposal block")
			}
			return false, true, true
		case l == "FQ":
			p.res.sessionFQ = true
			if p.res.ourTurns > 0 && !p.res.lastOurFF {
				// FQ answers an FF: a station may only quit when the other side has said it has nothing (more)
				p.viol("fq-without-ff", "FQ although the peer's last turn was not FF (the peer still has %d message(s) to propose)", len(p.cfg.outbox))
			}
			if len(p.cfg.expOrder) > 0 {
				p.viol("quit-with-pending", "FQ while %d queued messages were never proposed", len(p.cfg.expOrder))
			}
			return true, false, true
		case strings.HasPrefix(l, ";"):
			continue
		case strings.HasPrefix(l, "F> "):
			want := fmt.Sprintf("F> %02X", byte(-sum))
			if l != want {
				p.viol("block-checksum", "prompt %q, the proposal lines sum to %q", l, want)
			}
			if len(props) == 0 {
				p.viol("block-empty", "F> without proposals")
				return false, false, true
			}
			if len(props) > 5 {
				p.viol("block-size", "%d proposals in one block", len(props))
			}
			// order: the first len(props) of the expected order (among those still pending)
			for i, pr := range props {
				if i < len(p.cfg.expOrder) && p.cfg.expOrder[i] != pr.mid {
					p.viol("proposal-order", "proposal %d is %s, precedence-then-size order expects %s", i, pr.mid, p.cfg.expOrder[i])
					break
				}
			}
			var ans strings.Builder
			accepted := []prop{}
			offs := map[string]int{}
			seen := map[string]bool{}
			for _, pr := range props {
				a, ok := p.cfg.policy[pr.mid]
				if !ok {
					a = '+'
				}
				if seen[pr.mid] {
					a = '='
				}
				seen[pr.mid] = true
				if o := p.cfg.offsets[pr.mid]; a == '+' && o > 0 && o < pr.csize {
					offs[pr.mid] = o
					ans.WriteString([]string{"!", "A", "a"}[p.cfg.rng.Intn(3)] + strconv.Itoa(o))
				} else {
					ans.WriteString(p.answerSpelling(a))
				}
				if a == '+' {
					accepted = append(accepted, pr)
					p.res.accepted[pr.mid] = true
				}
				// whatever the answer, it is no longer first in line for the next block unless deferred
				if a != '=' {
					p.cfg.expOrder = removeStr(p.cfg.expOrder, pr.mid)
				} else {
					p.cfg.expOrder = removeStr(p.cfg.expOrder, pr.mid) // a deferred message is not proposed again in this session
				}
			}
			if p.cfg.comments && p.cfg.rng.Intn(2) == 0 {
				p.send("; just a comment before the answer\r")
			}
			p.send("FS " + ans.String() + "\r")
			for _, pr := range accepted {
				if !p.readFrameAt(pr.mid, pr.csize, offs[pr.mid]) {
					return true, false, false
				}
			}
			return false, false, true
		default:
			m := reProposal.FindStringSubmatch(l)
			if m == nil {
				p.viol("proposal-syntax", "line %q is not a proposal", l)
				return true, false, false
			}
			if m[1] != "C" {
				p.viol("proposal-code", "proposal code F%s (B2 peers expect FC)", m[1])
			}
			if m[6] != "0" {
				p.viol("proposal-offset-field", "last proposal field %q", m[6])
			}
			cs, _ := strconv.Atoi(m[5])
			props = append(props, prop{m[3], cs})
			for _, b := range []byte(l) {
				sum += int(b)
			}
			sum += 13
		}
	}
}

func removeStr(xs []string, x string) []string {
	out := xs[:0:0]
	for _, y := range xs {
		if y != x {
			out = append(out, y)
		}
	}
	return out
}

// ourTurn: the peer's turn. Returns quit.
func (p *peer) ourTurn(sessionSaidFF bool) bool {
	p.res.ourTurns++
	p.res.lastOurFF = false
	if p.cfg.holdTurns > 0 && len(p.cfg.outbox) > 0 && !sessionSaidFF {
		// nothing to offer YET (a message may reach a mailbox while a session is in progress)
		p.cfg.holdTurns--
		p.res.lastOurFF = true
		p.send("FF\r")
		return false
	}
	if len(p.cfg.outbox) == 0 {
		if sessionSaidFF || p.cfg.earlyFQ {
			p.send("FQ\r")
			return true
		}
		p.res.lastOurFF = true
		p.send("FF\r")
		return false
	}
	n := len(p.cfg.outbox)
	if n > 5 {
		n = 5
	}
	block := append([]peerMsg{}, p.cfg.outbox[:n]...)
	p.cfg.outbox = p.cfg.outbox[n:]
	if p.cfg.dupMid && len(block) < 5 {
		block = append(block, block[0]) // Radio-only gateways sometimes propose the same MID twice in a block
	}
	sum := 0
	for _, m := range block {
		if p.cfg.comments {
			p.send(fmt.Sprintf(";PM: LA5NTA %s %d sender@example.com %s\r", m.mid, len(m.plain), "pending message"))
		}
		l := fmt.Sprintf("FC EM %s %d %d 0", m.mid, len(m.plain), len(m.comp))
		p.send(l + "\r")
		for _, b := range []byte(l) {
			sum += int(b)
		}
		sum += 13
	}
	if p.cfg.comments {
		p.send("; comment before the prompt\r")
	}
	p.send(fmt.Sprintf("F> %02X\r", byte(-sum)))
	// answer line (comments may precede it)
	var l string
	for {
		var ok bool
		l, ok = p.line()
		if !ok {
			p.viol("answer", "no answer to the proposal block (got %q)", l)
			return true
		}
		if !strings.HasPrefix(l, ";") {
			break
		}
	}
	if !strings.HasPrefix(l, "FS ") {
		p.viol("answer-syntax", "answer line %q", l)
		return true
	}
	ans := l[3:]
	if len(ans) != len(block) {
		p.viol("answer-count", "%d answers for %d proposals (%q)", len(ans), len(block), l)
		return true
	}
	for i, a := range []byte(ans) {
		if !strings.ContainsRune("+-=YyNnRrLlHh", rune(a)) {
			p.viol("answer-alphabet", "answer character %q", a)
			return true
		}
		m := block[i]
		if _, dup := p.res.answers[m.mid]; !dup {
			p.res.answers[m.mid] = a
		} else if a == '+' {
			p.viol("answer-duplicate-accepted", "the second proposal of MID %s in one block was accepted too", m.mid)
		}
		if a == '+' || a == 'Y' || a == 'y' {
			p.sendFrame(m)
		}
	}
	return false
}

func (p *peer) handshake() bool {
	c := p.cfg
	sid := "[RMS-1.0-" + c.features + "]\r"
	if c.master {
		for _, l := range c.motd {
			p.send(l + "\r")
		}
		if c.fwLine != "" {
			p.send(c.fwLine + "\r")
		}
		p.send(sid)
		if c.challenge != "" {
			p.send(";PQ: " + c.challenge + "\r")
		}
		p.send("CMS via the reference peer >\r")
	}
	// read the session's handshake: comment/;FW/;PR lines, the SID, ended by the "; X DE Y (loc)" line
	sawSID, sawFW := false, false
	for {
		l, ok := p.line()
		if !ok {
			p.viol("handshake", "connection ended during the handshake (got %q)", l)
			return false
		}
		switch {
		case strings.HasPrefix(l, ";FW: "):
			sawFW = true
			items := strings.Split(l[5:], " ")
			for i, it := range items {
				if !reFWItem.MatchString(it) {
					p.viol("fw-syntax", ";FW item %q", it)
				}
				addr := strings.SplitN(it, "|", 2)
				if i < len(c.expectFW) && addr[0] != c.expectFW[i] {
					p.viol("fw-address", ";FW item %d is %q, want %q", i, addr[0], c.expectFW[i])
				}
				if want, ok := c.expectResp[addr[0]]; ok && i > 0 {
					if len(addr) != 2 || addr[1] != want {
						p.viol("fw-response", ";FW item %q, want response %s", it, want)
					}
				}
			}
			if len(items) != len(c.expectFW) {
				p.viol("fw-count", ";FW announces %d addresses, want %d", len(items), len(c.expectFW))
			}
		case strings.HasPrefix(l, ";FW"):
			p.viol("fw-syntax", "forward line %q", l)
		case strings.HasPrefix(l, "["):
			sawSID = true
			if !reSID.MatchString(l) {
				p.viol("sid-syntax", "SID %q", l)
			}
			feat := l[strings.LastIndex(l, "-")+1 : len(l)-1]
			if !strings.Contains(feat, "B2") || !strings.HasSuffix(feat, "$") || !strings.Contains(feat, "F") {
				p.viol("sid-features", "SID features %q (need B2, F and a trailing $)", feat)
			}
		case strings.HasPrefix(l, ";PR: "):
			if c.challenge == "" {
				p.viol("pr-unsolicited", ";PR without a challenge")
			} else if want := c.expectResp[c.expectFW[0]]; l[5:] != want {
				p.viol("pr-response", ";PR %q, want %s", l[5:], want)
			}
		case strings.HasPrefix(l, "; ") && strings.Contains(l, " DE "):
			if !sawSID {
				p.viol("handshake-order", "identification line before the SID")
			}
			if !sawFW {
				p.viol("handshake-fw-missing", "no ;FW line in the handshake")
			}
			if c.master == strings.HasSuffix(l, ">") {
				// a master's handshake ends with the prompt '>', a slave's must not
				p.viol("handshake-prompt", "identification line %q from a %s", l, map[bool]string{true: "slave", false: "master"}[c.master])
			}
			if !c.master {
				// the session is master and waits for our handshake now
				if c.fwLine != "" {
					p.send(c.fwLine + "\r")
				}
				p.send(sid)
				p.send("; LA5NTA DE PEER (JP20)\r")
			}
			return true
		case strings.HasPrefix(l, ";"):
		default:
			if c.master {
				p.viol("handshake-line", "unexpected line %q in the handshake", l)
				return false
			}
			// MOTD lines of a master session
		}
	}
}

func runPeer(conn *memConn, cfg *peerCfg) *peerResult {
	p := &peer{cfg: cfg, rd: bufio.NewReader(conn), conn: conn, res: &peerResult{got: map[string][]byte{}, answers: map[string]byte{}, accepted: map[string]bool{}}}
	defer conn.Close()
	if !p.handshake() {
		return p.res
	}
	// the slave speaks first after the handshake
	sessionTurn := cfg.master
	saidFF := false
	for i := 0; i < 200; i++ {
		if sessionTurn {
			quit, ff, ok := p.theirTurn()
			if !ok {
				return p.res
			}
			if quit {
				p.res.done = true
				return p.res
			}
			saidFF = ff
		} else {
			if p.ourTurn(saidFF) {
				p.res.done = len(p.res.violations) == 0 || true
				return p.res
			}
		}
		sessionTurn = !sessionTurn
	}
	p.viol("turns", "no end of session after 200 turns")
	return p.res
}

func precedenceOf(title string) int {
	switch {
	case strings.Contains(title, "//WL2K Z/"):
		return 0
	case strings.Contains(title, "//WL2K O/"):
		return 1
	case strings.Contains(title, "//WL2K P/"):
		return 2
	}
	return 3
}

func init() {
	register("C05", "cases: one REAL fbb.Session (either role; 0..8 valid messages queued; user agents, callsigns with SSID, locators, 0..2 auxiliary addresses, secure login) talks to an INDEPENDENTLY implemented B2F peer (harness/cmd/corr/c05.go: own parser/validator, own LZHUF and CRC) that validates every line and frame - ;FW, SID, ;PR, identification line and prompt, proposal syntax, block checksum, at most five proposals per block, precedence-then-size order, one answer per proposal from the legal alphabet, SOH header length/offset, STX block lengths, EOT checksum, compressed size, payload CRC-16 and size, canonical decoding, message content - and that uses the conforming variations a peer may choose: data blocks of 1..256 bytes, every letter/symbol spelling of the answers incl. zero-offset accepts (several per line), comment and ;PM lines, MOTD, ;FW lists with |hash, SID feature strings containing B2 in other positions/cases, CMS-style early FQ, duplicate MIDs in a block. Oracle: no conformance violation, the prescribed outcome on both sides (every message the peer's policy accepts arrives intact, every peer message the handler accepts is delivered once, Exchange returns nil). The wire elements are also covered by the Lean element theorems of Props/C05.lean. Non-trivial: a transfer happened in at least one direction; distinct by case line.", func(c *Ctx) {
		var cases []Case
		n := c.Budget(120, 2500)
		for i := 0; i < n && c.TimeLeft(); i++ {
			r := c.Rng
			sessMaster := r.Intn(2) == 0
			sp := newSpec([]string{"LA5NTA", "N0CALL-7", "w1aw"}[r.Intn(3)], "PEER", sessMaster)
			sp.loc = []string{"JP20qe", "", "KP03"}[r.Intn(3)]
			sp.ua.Name = []string{"wl2kgo", "Pat", "My-App"}[r.Intn(3)]
			sp.ua.Version = []string{"0.1a", "1.2.3"}[r.Intn(2)]
			sp.batched = r.Intn(3) == 0
			if sessMaster && r.Intn(3) == 0 {
				sp.motd = []string{"Welcome", "to the node"}
			}
			for k := r.Intn(3); k > 0; k-- {
				sp.aux = append(sp.aux, hskAux{Addr: fmt.Sprintf("AUX%d", k), Pw: []string{"", "auxpw"}[r.Intn(2)]})
			}
			cfg := &peerCfg{master: !sessMaster, rng: rand.New(rand.NewSource(r.Int63())), policy: map[string]byte{}, expect: map[string][]byte{}, expectResp: map[string]string{}, offsets: map[string]int{}, expectComp: map[string][]byte{}}
			cfg.features = []string{"B2FWIHJM$", "B2FHM$", "BFB2HM$", "b2fihm$", "AB1B2FHMX$"}[r.Intn(5)]
			cfg.comments = r.Intn(2) == 0
			cfg.earlyFQ = r.Intn(3) == 0
			cfg.dupMid = r.Intn(5) == 0
			if r.Intn(4) == 0 {
				cfg.holdTurns = 1 + r.Intn(2)
			}
			if cfg.master && r.Intn(2) == 0 {
				cfg.motd = []string{"*** MTD Stats Total connects = 2580 Total messages = 3900", "Hello!"}[:1+r.Intn(2)]
			}
			if r.Intn(2) == 0 {
				cfg.fwLine = []string{";FW: PEER", ";FW: PEER|12345678 OTHER", ";FW: PEER OTHER|00000001 THIRD"}[r.Intn(3)]
			}
			mycall := strings.ToUpper(sp.mycall)
			cfg.expectFW = []string{mycall}
			for _, a := range sp.aux {
				cfg.expectFW = append(cfg.expectFW, a.Addr)
			}
			if cfg.master && r.Intn(3) == 0 {
				cfg.challenge = fmt.Sprintf("%08d", r.Intn(100000000))
				sp.hasCb = true
				sp.main.Pw = "MainPw1"
				cfg.expectResp[mycall] = specResponse(cfg.challenge, sp.main.Pw)
				for _, a := range sp.aux {
					if a.Pw != "" {
						cfg.expectResp[a.Addr] = specResponse(cfg.challenge, a.Pw)
					}
				}
			}
			// session's messages
			type ord struct {
				mid   string
				prec  int
				csize int
			}
			var ords []ord
			nOut := r.Intn(4)
			if r.Intn(5) == 0 {
				nOut = 6 + r.Intn(3)
			}
			if i%10 == 9 {
				nOut = 13 + r.Intn(12) // several blocks; sort.Sort's small-slice path ends at 12 elements
			}
			seenMid := map[string]bool{} // MIDs are unique within a scenario (short random MIDs do collide)
			for k := 0; k < nOut; k++ {
				om := newOutMsg(genMessage(r, sp.mycall, "PEER", c.Budget(1500, 8000)))
				if seenMid[om.mid] {
					continue
				}
				seenMid[om.mid] = true
				sp.outbox = append(sp.outbox, om)
				cfg.expect[om.mid] = om.data
				ords = append(ords, ord{om.mid, precedenceOf(om.title), len(fbbCompressed(om))})
				switch r.Intn(7) {
				case 0:
					cfg.policy[om.mid] = '-'
				case 1:
					cfg.policy[om.mid] = '='
				case 2:
					// resume: the peer says it already holds the first bytes
					if cs := len(fbbCompressed(om)); cs > 8 {
						cfg.offsets[om.mid] = 1 + r.Intn(cs-1)
						cfg.expectComp[om.mid] = fbbCompressed(om)
					}
				}
			}
			sort.Slice(ords, func(a, b int) bool {
				if ords[a].prec != ords[b].prec {
					return ords[a].prec < ords[b].prec
				}
				if ords[a].csize != ords[b].csize {
					return ords[a].csize < ords[b].csize
				}
				return ords[a].mid < ords[b].mid
			})
			for _, o := range ords {
				cfg.expOrder = append(cfg.expOrder, o.mid)
			}
			// peer's messages
			nIn := r.Intn(4)
			if r.Intn(6) == 0 {
				nIn = 6
			}
			peerPlain := map[string][]byte{}
			for k := 0; k < nIn; k++ {
				om := newOutMsg(genMessage(r, "PEER", sp.mycall, c.Budget(1500, 8000)))
				comp, maxLen := canonCompress(true, om.data)
				if maxLen > 16 || seenMid[om.mid] {
					continue
				}
				seenMid[om.mid] = true
				cfg.outbox = append(cfg.outbox, peerMsg{mid: om.mid, title: "Subject", plain: om.data, comp: comp})
				peerPlain[om.mid] = om.data
				switch r.Intn(6) {
				case 0:
					sp.policy[om.mid] = '-'
				case 1:
					sp.policy[om.mid] = '='
				}
			}
			// run
			ca, cb := newMemPipe(nil, nil)
			ca.DetectDeadlock()
			tw := newTwin(sp)
			sess := sp.newSession(tw)
			done := make(chan error, 1)
			go func() { _, err := sess.Exchange(ca); done <- err }()
			resCh := make(chan *peerResult, 1)
			go func() { resCh <- runPeer(cb, cfg) }()
			var serr error
			hung := false
			select {
			case serr = <-done:
			case <-time.After(20 * time.Second):
				hung = true
				ca.Kill()
				serr = <-done
			}
			var pres *peerResult
			select {
			case pres = <-resCh:
			case <-time.After(5 * time.Second):
				ca.Kill()
				pres = <-resCh
			}
			rep := map[string]interface{}{"session_master": sessMaster, "session_out": len(sp.outbox), "peer_out": nIn, "features": cfg.features, "comments": cfg.comments, "early_fq": cfg.earlyFQ, "dup_mid": cfg.dupMid, "challenge": cfg.challenge, "fw_line": cfg.fwLine,
				"session_err": fmt.Sprint(serr), "peer_violations": pres.violations, "session_wire_hex": trunc(hx(ca.Sent()), 6000), "peer_wire_hex": trunc(hx(cb.Sent()), 6000)}
			if hung || ca.Deadlocked() {
				c.Violate("C05:stalled", "the session and a conforming peer ended up waiting for each other", rep)
				continue
			}
			for _, v := range pres.violations {
				rule := v[:strings.Index(v, ":")]
				c.Violate("C05:emits-nonconforming:"+rule, "the reference peer rejected what the Session sent: "+v, rep)
			}
			if serr != nil {
				c.Violate("C05:rejects-conforming", "Exchange failed against a conforming peer: "+serr.Error(), rep)
			}
			// "accepts ... forwarder lists with password hashes": the session knows exactly the addresses the peer
			// announced (the hashes are the peer's business), in order - it asks its mailbox for messages to them
			if cfg.fwLine != "" && serr == nil {
				var want, got []string
				for _, it := range strings.Fields(strings.TrimPrefix(cfg.fwLine, ";FW:")) {
					want = append(want, strings.SplitN(it, "|", 2)[0])
				}
				for _, a := range sess.RemoteForwarders() {
					got = append(got, a.Addr)
				}
				if strings.Join(got, " ") != strings.Join(want, " ") {
					c.Violate("C05:forwarders-not-accepted", fmt.Sprintf("the peer announced the forwarders %v (%q), the session took %v", want, cfg.fwLine, got), rep)
				}
			}
			// prescribed outcome
			for mid, want := range cfg.expect {
				a := byte('-')
				if pres.accepted[mid] {
					a = '+'
				}
				got, has := pres.got[mid]
				if a == '+' && (!has || !bytes.Equal(got, want)) && len(pres.violations) == 0 && serr == nil {
					c.Violate("C05:outcome-not-delivered", "a message the peer accepted did not arrive intact at the peer", rep)
				}
				if a != '+' && has {
					c.Violate("C05:outcome-transferred-unaccepted", "a message the peer did not accept was transferred", rep)
				}
			}
			if serr == nil && len(pres.violations) == 0 {
				delivered := map[string]int{}
				for _, data := range tw.inbox {
					for mid, pl := range peerPlain {
						if bytes.Equal(pl, data) {
							delivered[mid]++
						}
					}
				}
				for mid := range peerPlain {
					if _, asked := pres.answers[mid]; !asked {
						continue
					}
					a, ok := sp.policy[mid]
					if !ok {
						a = '+'
					}
					if a == '+' && delivered[mid] != 1 {
						c.Violate("C05:outcome-peer-message", fmt.Sprintf("peer message %s was delivered %d times to the handler, want once", mid, delivered[mid]), rep)
					}
					if a != '+' && delivered[mid] != 0 {
						c.Violate("C05:outcome-peer-message-unaccepted", "a peer message the handler did not accept was delivered", rep)
					}
				}
			}
			// tie to the Lean model: the Session's behaviour on exactly the bytes the reference peer sent
			sp2 := *sp
			sp2.ihash = true
			r2 := runSessionImpl(&sp2, cb.Sent())
			sp2.hints = hintsFrom(r2)
			if !bytes.Equal(r2.wire, ca.Sent()) && serr == nil && len(pres.violations) == 0 {
				c.Violate("C05:replay-differs", "the Session sent different bytes when the same peer bytes were replayed", rep)
			}
			cases = append(cases, Case{Line: sp2.line(cb.Sent()), Impl: r2.canon, Desc: fmt.Sprintf("session(master=%v,out=%d) vs reference peer(out=%d, features=%s)", sessMaster, len(sp.outbox), nIn, cfg.features), Class: map[bool]string{true: "session-master", false: "session-slave"}[sessMaster], Nontrivial: len(pres.got) > 0 || len(tw.inbox) > 0})
		}
		c.Compare(cases)
		grammarOracle(c, "C05", cases)
	})
}

// grammarOracle holds the REAL Exchange to the conclusion of the Lean theorem accepts_grammar (Props/C05_accept.lean):
// for each recorded conversation (a `session` case: configuration, handler, the remote's bytes, and what the real
// Session did) the driver op `sessiongram` cuts the remote's bytes into a script, checks the local-side hypotheses and
// evaluates the INPUT grammar InGrammar.conforms on the model's own writes. Where the hypothesis holds (conf=1) the
// real Session must have ended with nil or a lost connection - not with a protocol error. The numbers also show how
// much of the real corpus the (deliberately strict) grammar accepts.
func grammarOracle(c *Ctx, prop string, cases []Case) {
	var lines []string
	var idx []int
	for i, cs := range cases {
		if strings.HasPrefix(cs.Line, "session ") {
			lines = append(lines, "sessiongram "+strings.TrimPrefix(cs.Line, "session "))
			idx = append(idx, i)
		}
	}
	if len(lines) > 20000 {
		// (thorough tier of C03: the first 20000 conversations are enough; the run stays within its time)
		lines, idx = lines[:20000], idx[:20000]
	}
	out := c.Model(lines)
	for k, o := range out {
		cs := cases[idx[k]]
		switch {
		case strings.HasPrefix(o, "conf=1"):
			c.Res.Distribution["input-grammar:conforming"]++
			if strings.HasPrefix(cs.Impl, "err=error") || strings.HasPrefix(cs.Impl, "panic") || strings.HasPrefix(cs.Impl, "hang") {
				c.Violate(prop+":conforming-conversation-rejected", "the remote's side of this conversation conforms to the input grammar (accepts_grammar's hypothesis holds), yet the real Exchange ended with a protocol error",
					map[string]interface{}{"driver_line": trunc(lines[k], 20000), "model": o, "implementation": trunc(cs.Impl, 4000), "conversation": cs.Desc})
			}
		case strings.HasPrefix(o, "conf=0"):
			c.Res.Distribution["input-grammar:not-conforming-or-outside-the-grammar"]++
		default:
			c.Res.Distribution["input-grammar:op-failed"]++
		}
	}
}
