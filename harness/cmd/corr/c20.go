package main

import (
	"fmt"
	"math"
	"math/big"
	"regexp"
	"strconv"
	"strings"
	"time"

	"github.com/la5nta/wl2k-go/catalog"
	"github.com/la5nta/wl2k-go/fbb"
)

var reLat = regexp.MustCompile(`^(\d\d)-(\d\d)\.(\d\d\d\d)(.)$`)
var reLon = regexp.MustCompile(`^(\d\d\d)-(\d\d)\.(\d\d\d\d)(.)$`)

func b01(b bool) string {
	if b {
		return "1"
	}
	return "0"
}

// exactAbs returns |x| as an exact rational.
func exactAbs(x float64) *big.Rat {
	r := new(big.Rat)
	r.SetFloat64(math.Abs(x))
	return r
}

// nearTie reports whether |x|*600000 is within 1e-6 of a rounding tie (k + 1/2): the only place where the
// float multiplication (not modelled) could round differently from exact arithmetic.
func nearTie(x float64) bool {
	r := exactAbs(x)
	r.Mul(r, big.NewRat(600000, 1))
	f, _ := r.Float64()
	frac := f - math.Floor(f)
	return math.Abs(frac-0.5) < 1e-6
}

func posOracle(c *Ctx, x float64, lat bool, out string) {
	re := reLon
	bound := 180.0
	name := "lon"
	if lat {
		re, bound, name = reLat, 90.0, "lat"
	}
	rep := map[string]interface{}{"value": strconv.FormatFloat(x, 'g', -1, 64), "bits": fmt.Sprintf("%016x", math.Float64bits(x)), "latitude": lat, "output": out}
	m := re.FindStringSubmatch(out)
	if m == nil {
		c.Violate("C20:shape:"+name, fmt.Sprintf("decToMinDec(%v,%v) = %q does not have the form D-MM.MMMMH", x, lat, out), rep)
		return
	}
	deg, _ := strconv.Atoi(m[1])
	min, _ := strconv.Atoi(m[2])
	frac, _ := strconv.Atoi(m[3])
	if min >= 60 {
		c.Violate("C20:minutes-ge-60", fmt.Sprintf("decToMinDec(%v,%v) = %q: minutes not in [0,60)", x, lat, out), rep)
	}
	if float64(deg) > bound || (float64(deg) == bound && (min != 0 || frac != 0)) {
		c.Violate("C20:degrees-out-of-range", fmt.Sprintf("decToMinDec(%v,%v) = %q exceeds %v degrees", x, lat, out, bound), rep)
	}
	// |printed - |x|| <= 0.5e-4 minute  (exact rational arithmetic; 1e-9 minute slack for the float multiply)
	printed := big.NewRat(int64(deg)*600000+int64(min)*10000+int64(frac), 600000)
	diff := new(big.Rat).Sub(printed, exactAbs(x))
	diff.Abs(diff)
	lim := new(big.Rat).Add(big.NewRat(1, 1200000), big.NewRat(1, 60*1000000000))
	if diff.Cmp(lim) > 0 {
		c.Violate("C20:value-off", fmt.Sprintf("decToMinDec(%v,%v) = %q is more than half a ten-thousandth of a minute from the input", x, lat, out), rep)
	}
	want := byte(' ')
	switch {
	case x > 0 && lat:
		want = 'N'
	case x < 0 && lat:
		want = 'S'
	case x > 0:
		want = 'E'
	case x < 0:
		want = 'W'
	}
	if x == 0 {
		if m[4] == " " {
			c.Violate("C20:hemisphere-blank-at-zero:"+name, fmt.Sprintf("decToMinDec(0,%v) = %q carries a blank instead of a hemisphere letter", lat, out), rep)
		} else if !strings.Contains("NSEW", m[4]) {
			c.Violate("C20:hemisphere:"+name, fmt.Sprintf("decToMinDec(0,%v) = %q", lat, out), rep)
		}
	} else if m[4][0] != want {
		c.Violate("C20:hemisphere:"+name, fmt.Sprintf("decToMinDec(%v,%v) = %q: hemisphere should be %c", x, lat, out, want), rep)
	}
}

func init() {
	register("C20", "cases: decToMinDec on a 0.01-degree grid over [-90,90]/[-180,180], the 20 adjacent float64 values on each side of whole degrees and whole minutes, values k/600000 +- eps and (k+1/2)/600000 +- eps, random in-range doubles; every course 0..360 x {M,T} plus out-of-range; PosReport.Message over all 32 combinations of optional fields. Input to the model is the exact rational value of the float64. Non-trivial: values within 1e-4 minute of a whole minute or degree, the zero/sign cases, courses < 100 or = 360, every message combination; distinct by case line.", func(c *Ctx) {
		var cases []Case
		nearTies := 0
		add := func(x float64, lat bool, class string, nontriv bool) {
			if math.IsNaN(x) || math.IsInf(x, 0) {
				return
			}
			bound := 180.0
			if lat {
				bound = 90
			}
			if math.Abs(x) > bound {
				return
			}
			out := catalog.VerifDecToMinDec(x, lat)
			posOracle(c, x, lat, out)
			if nearTie(x) {
				nearTies++
				return
			}
			r := exactAbs(x)
			cases = append(cases, Case{Line: fmt.Sprintf("d2md %s %s %s %s", b01(math.Signbit(x) && x != 0), r.Num().String(), r.Denom().String(), b01(lat)),
				Impl: hs(out), Desc: fmt.Sprintf("decToMinDec(%s, lat=%v) = %q", strconv.FormatFloat(x, 'g', -1, 64), lat, out), Class: class, Nontrivial: nontriv})
		}
		// grid
		step := c.Budget(5, 1)
		for i := -18000; i <= 18000; i += step {
			x := float64(i) / 100
			add(x, false, "grid", false)
			add(x, true, "grid", false)
		}
		// neighbours of whole degrees and whole minutes
		for d := 0; d <= 180; d++ {
			for m := 0; m < 60; m++ {
				if !c.Thorough() && !(m == 0 || m == 1 || m == 59 || c.Rng.Intn(12) == 0) {
					continue
				}
				base := float64(d) + float64(m)/60
				for _, sgn := range []float64{1, -1} {
					up, dn := base, base
					add(sgn*base, d <= 90, "whole-minute", true)
					add(sgn*base, false, "whole-minute", true)
					for k := 0; k < 20; k++ {
						up = math.Nextafter(up, math.Inf(1))
						dn = math.Nextafter(dn, math.Inf(-1))
						for _, v := range []float64{up, dn} {
							add(sgn*v, true, "adjacent-to-whole-minute", true)
							add(sgn*v, false, "adjacent-to-whole-minute", true)
						}
					}
					// just below the next minute by less than the printed resolution (the 60.0000 carry region)
					for _, eps := range []float64{1e-12, 1e-9, 1e-7, 4e-7, 8e-7, 8.4e-7} {
						add(sgn*(base+1.0/60-eps), true, "carry-region", true)
						add(sgn*(base+1.0/60-eps), false, "carry-region", true)
					}
				}
			}
		}
		// k/600000 and rounding ties
		for i := 0; i < c.Budget(3000, 60000); i++ {
			k := c.Rng.Int63n(180 * 600000)
			for _, off := range []float64{0, 0.25, 0.49, 0.51, 0.75} {
				x := (float64(k) + off) / 600000
				if c.Rng.Intn(2) == 0 {
					x = -x
				}
				add(x, true, "resolution-grid", off != 0)
				add(x, false, "resolution-grid", off != 0)
			}
		}
		for i := 0; i < c.Budget(3000, 60000); i++ {
			x := (c.Rng.Float64()*2 - 1) * 180
			add(x, true, "random", false)
			add(x, false, "random", false)
		}
		for _, x := range []float64{0, math.Copysign(0, -1), 5e-324, -5e-324, 1e-9, -1e-9, 90, -90, 180, -180, 89.99999999999, 179.99999999999} {
			add(x, true, "boundary", true)
			add(x, false, "boundary", true)
		}
		if nearTies > 0 {
			c.Note("%d inputs within 1e-6 of a rounding tie were judged by the oracle only (float multiply not modelled)", nearTies)
		}
		// courses
		for d := -3; d <= 364; d++ {
			for _, mag := range []bool{false, true} {
				crs, err := catalog.NewCourse(d, mag)
				impl := "err"
				if err == nil {
					s := crs.String()
					impl = "ok " + hs(s)
					ok, _ := regexp.MatchString(`^\d\d\d[TM]$`, s)
					wantD := d % 360
					if !ok || s != fmt.Sprintf("%03d%c", wantD, map[bool]byte{true: 'M', false: 'T'}[mag]) {
						c.Violate(fmt.Sprintf("C20:course-format:%d", d), fmt.Sprintf("NewCourse(%d,%v).String() = %q, want three digits plus T/M", d, mag, s), map[string]interface{}{"degrees": d, "magnetic": mag, "output": s})
					}
				} else if d >= 0 && d <= 360 {
					c.Violate(fmt.Sprintf("C20:course-refused:%d", d), fmt.Sprintf("NewCourse(%d) refused", d), map[string]interface{}{"degrees": d})
				}
				cases = append(cases, Case{Line: fmt.Sprintf("course %d %s", d, b01(mag)), Impl: impl, Desc: fmt.Sprintf("NewCourse(%d,%v)", d, mag), Class: "course", Nontrivial: d < 100 || d >= 360})
			}
		}
		// messages: all combinations of optional fields
		// variants: ordinary values, and zero values that are SET (a stationary station at 0N 0E heading north)
		for vm := 0; vm < 3*32; vm++ {
			mask, variant := vm%32, vm/32
			lat, lon, speed, cdeg := 60.18, -5.3972, 4.5, 45
			switch variant {
			case 1:
				lat, lon, speed, cdeg = 0, 0, 0, 0
			case 2:
				lat, lon, speed, cdeg = -90, 180, 0.00001, 360
			}
			crs, _ := catalog.NewCourse(cdeg, mask&1 == 1)
			p := catalog.PosReport{Date: time.Date(2020, 2, 29, 23, 59, 30, 0, time.FixedZone("x", 3600))}
			f := func(o string) string { return "~" }
			_ = f
			fl, flo, fs, fc, fcm := "~", "~", "~", "~", "-"
			if mask&2 != 0 {
				p.Lat = &lat
				fl = hs(catalog.VerifDecToMinDec(lat, true))
			}
			if mask&4 != 0 {
				p.Lon = &lon
				flo = hs(catalog.VerifDecToMinDec(lon, false))
			}
			if mask&8 != 0 {
				p.Speed = &speed
				fs = hs(fmt.Sprintf("%f", speed))
			}
			if mask&16 != 0 {
				p.Course = crs
				fc = hs(crs.String())
			}
			if mask&1 != 0 {
				p.Comment = "Hello, æøå world"
				fcm = hs(p.Comment)
			}
			msg := p.Message("LA5NTA")
			body, _ := msg.Body()
			rep := map[string]interface{}{"mask": mask, "body": body, "lat": lat, "lon": lon, "speed": speed, "course": cdeg}
			if err := msg.Validate(); err != nil {
				c.Violate("C20:message-invalid", "position report message does not validate: "+err.Error(), rep)
			}
			has := func(prefix string) bool {
				for _, l := range strings.Split(body, "\r\n") {
					if strings.HasPrefix(l, prefix) {
						return true
					}
				}
				return false
			}
			for _, chk := range []struct {
				prefix string
				set    bool
			}{{"LATITUDE: ", mask&6 == 6}, {"LONGITUDE: ", mask&6 == 6}, {"SPEED: ", mask&8 != 0}, {"COURSE: ", mask&16 != 0}, {"COMMENT: ", mask&1 != 0}, {"DATE: ", true}} {
				if has(chk.prefix) != chk.set {
					c.Violate("C20:optional-field:"+strings.TrimSpace(chk.prefix), fmt.Sprintf("line %q present=%v but field set=%v", chk.prefix, has(chk.prefix), chk.set), rep)
				}
			}
			// the lines carry the values (independent formatting of each field)
			line := func(prefix string) string {
				for _, l := range strings.Split(body, "\r\n") {
					if strings.HasPrefix(l, prefix) {
						return strings.TrimPrefix(l, prefix)
					}
				}
				return ""
			}
			if mask&16 != 0 {
				suffix := "T"
				if mask&1 == 1 {
					suffix = "M"
				}
				if want := fmt.Sprintf("%03d%s", cdeg%360, suffix); line("COURSE: ") != want {
					c.Violate("C20:course-line", fmt.Sprintf("COURSE line is %q, want %q", line("COURSE: "), want), rep)
				}
			}
			if mask&6 == 6 {
				if line("LATITUDE: ") != catalog.VerifDecToMinDec(lat, true) || line("LONGITUDE: ") != catalog.VerifDecToMinDec(lon, false) {
					c.Violate("C20:position-line", fmt.Sprintf("LATITUDE/LONGITUDE lines are %q / %q, the formatted position is %q / %q", line("LATITUDE: "), line("LONGITUDE: "), catalog.VerifDecToMinDec(lat, true), catalog.VerifDecToMinDec(lon, false)), rep)
				}
			}
			if mask&1 != 0 && line("COMMENT: ") != p.Comment {
				c.Violate("C20:comment-line", fmt.Sprintf("COMMENT line is %q, want %q", line("COMMENT: "), p.Comment), rep)
			}
			if n := strings.Count(body, "LATITUDE: ") + strings.Count(body, "DATE: "); n > 2 {
				c.Violate("C20:duplicate-lines", "a field line occurs more than once in the report", rep)
			}
			if msg.Type() != fbb.PositionReport {
				c.Violate("C20:message-type", "wrong message type", rep)
			}
			cases = append(cases, Case{Line: fmt.Sprintf("posbody %s %s %s %s %s %s", hs(p.Date.UTC().Format(fbb.DateLayout)), fl, flo, fs, fc, fcm),
				Impl: hs(body), Desc: fmt.Sprintf("PosReport.Message optional-field mask %05b values %v/%v/%v/%d", mask, lat, lon, speed, cdeg), Class: "message", Nontrivial: true})
		}
		c.Compare(cases)
	})
}
