package main

import (
	"bytes"
	"fmt"
)

func int32le(b []byte) int {
	return int(int32(uint32(b[0]) | uint32(b[1])<<8 | uint32(b[2])<<16 | uint32(b[3])<<24))
}

// readerOracle judges one (stream, sizes) run of the real Reader against the property.
func readerOracle(c *Ctx, class string, crc bool, stream []byte, sizes []int) string {
	lzCloseTwiceForgets = false
	out, data, cerr, stuck, pan := implLzr(crc, stream, sizes)
	rep := map[string]interface{}{"class": class, "crc": crc, "stream_hex": trunc(hx(stream), 8000), "stream_len": len(stream), "read_sizes": sizes, "observed": trunc(out, 300)}
	if lzCloseTwiceForgets {
		c.Violate("C08:second-close-nil:"+class, fmt.Sprintf("Close() returned %v, a second Close() returned nil: the verdict on a stream that does not check out is taken back", cerr), rep)
	}
	if pan {
		c.Violate("C08:panic:"+class, "Reader panicked: "+trunc(out, 200), rep)
		return out
	}
	if stuck {
		c.Violate("C08:no-termination:"+class, "Read keeps returning (0, nil): neither end-of-stream nor an error", rep)
	}
	hdr := 0
	if crc {
		hdr = 2
	}
	if len(stream) < hdr+4 {
		return out // NewReader must have failed; nothing to read
	}
	size := int32le(stream[hdr : hdr+4])
	max := size
	if max < 0 {
		max = 0
	}
	// decompression-bomb bound (theorem C03.decode_output_proportional: at most 48 output bytes per stream byte)
	if len(data) > 48*len(stream) {
		c.Violate("C08:expansion-above-48x:"+class, fmt.Sprintf("Reader yielded %d bytes from a %d-byte stream (more than 48 per byte)", len(data), len(stream)), rep)
	}
	if len(data) > max {
		c.Violate("C08:more-than-declared:"+class, fmt.Sprintf("Reader yielded %d bytes, header declares %d", len(data), size), rep)
	}
	if cerr == nil && !stuck {
		body := stream[hdr+4:]
		if crc {
			sum := crc16Xmodem(stream[2:])
			if stream[0] != byte(sum) || stream[1] != byte(sum>>8) {
				// Does the CRC hold over a proper prefix that covers everything the decoder needed?
				// Then the only thing wrong is a tail the Reader never pulled from its source.
				_, consumed := canonDecode(body, max, max+100)
				tailOnly := false
				for p := consumed; p < len(body) && !tailOnly; p++ {
					if p != consumed && p%4096 != 0 {
						continue
					}
					ps := crc16Xmodem(stream[2 : 6+p])
					tailOnly = stream[0] == byte(ps) && stream[1] == byte(ps>>8)
				}
				if tailOnly {
					c.Violate("C08:crc-ignores-unread-tail", "Close() = nil although bytes after the last one the decoder pulled are not covered by the CRC-16", rep)
				} else {
					c.Violate("C08:close-nil-bad-crc:"+class, "Close() = nil although the CRC-16 does not match", rep)
				}
			}
		}
		if len(data) != size {
			c.Violate("C08:close-nil-bad-size:"+class, fmt.Sprintf("Close() = nil although %d bytes were read and %d declared", len(data), size), rep)
		}
		if size >= 0 && size < 1<<24 {
			ref, consumed := canonDecode(body, size, size+100)
			if len(ref) != size || !bytes.Equal(ref, data) {
				c.Violate("C08:close-nil-not-canonical:"+class, "Close() = nil although the bytes read are not the canonical decoding of the stream", rep)
			} else if consumed > len(body) {
				// the reference decoder had to invent bits past the end of the stream: the stream is truncated
				c.Violate("C08:close-nil-truncated:"+class, fmt.Sprintf("Close() = nil although the stream ends before the last code is complete (decoding needs %d body bytes, %d present)", consumed, len(body)), rep)
			}
		}
	}
	return out
}

func init() {
	register("C08", "cases: malformed LZHUF streams through the real Reader with buffer sizes {1,7,64,4096,random}: random bytes, every truncation of short valid streams (sampled for long), single-bit flips (exhaustive for streams <= 64 B, sampled above), header size edits {-2^31,-1,0,true-1,true+1,true+59,true+60,2^31-1}, CRC edits, splices of two valid streams, trailing garbage. Compared with the Lean model: NewReader result, (n,err) sequence, bytes, Close, state digest. Oracle: no panic, terminates with EOF or error, bytes <= declared size, Close=nil only if CRC and size hold and the bytes are the canonical decoding (independent decoder). Non-trivial: streams that pass NewReader; distinct by case line.", func(c *Ctx) {
		var cases []Case
		sizeSets := [][]int{{1}, {7}, {64}, {4096}}
		add := func(class string, crc bool, stream []byte, sizes []int) {
			out := readerOracle(c, class, crc, stream, sizes)
			hdr := 4
			if crc {
				hdr = 6
			}
			cases = append(cases, Case{Line: fmt.Sprintf("lzr %s %s %s", b01(crc), hx(stream), natList(sizes)), Impl: out, Desc: fmt.Sprintf("%s crc=%v %d bytes sizes=%v", class, crc, len(stream), sizes), Class: class, Nontrivial: len(stream) >= hdr})
		}
		pick := func() []int {
			if c.Rng.Intn(5) == 0 {
				return randSizes(c)
			}
			return sizeSets[c.Rng.Intn(len(sizeSets))]
		}
		// valid seeds
		var seeds [][]byte
		for _, s := range []string{"", "a", "hello hello hello hello", "The quick brown fox jumps over the lazy dog. The quick brown fox.", string(bytes.Repeat([]byte("a"), 100)), string(bytes.Repeat([]byte("ab "), 700))} {
			seeds = append(seeds, []byte(s))
		}
		rnd := make([]byte, 300)
		c.Rng.Read(rnd)
		seeds = append(seeds, rnd)
		for _, crc := range []bool{true, false} {
			hdr := 0
			if crc {
				hdr = 2
			}
			for si, plain := range seeds {
				_, valid := implLzw(crc, plain, nil, false)
				add("valid", crc, valid, pick())
				// truncations
				for n := 0; n <= len(valid); n++ {
					if len(valid) > 80 && n > 12 && n < len(valid)-12 && c.Rng.Intn(len(valid)/c.Budget(12, 60)+1) != 0 {
						continue
					}
					add("truncated", crc, valid[:n], pick())
				}
				// bit flips
				for bit := 0; bit < len(valid)*8; bit++ {
					if len(valid) > 64 && c.Rng.Intn(len(valid)*8/c.Budget(40, 400)+1) != 0 {
						continue
					}
					m := append([]byte{}, valid...)
					m[bit/8] ^= 1 << uint(bit%8)
					add("bit-flip", crc, m, pick())
				}
				// header size edits
				for _, sz := range []int{-1 << 31, -1, 0, len(plain) - 1, len(plain) + 1, len(plain) + 59, len(plain) + 60, 1<<31 - 1, len(plain) / 2} {
					m := append([]byte{}, valid...)
					copy(m[hdr:], le32b(sz))
					add("size-edit", crc, m, pick())
					if crc { // keep the CRC consistent so that only the size lies
						sum := crc16Xmodem(m[2:])
						m2 := append([]byte{}, m...)
						m2[0], m2[1] = byte(sum), byte(sum>>8)
						add("size-edit-crc-fixed", crc, m2, pick())
					}
				}
				// splice with another valid stream, trailing garbage
				if si > 0 {
					_, other := implLzw(crc, seeds[si-1], nil, false)
					cut := hdr + 4 + c.Rng.Intn(len(valid)-hdr-4+1)
					add("splice", crc, append(append([]byte{}, valid[:cut]...), other[hdr+4:]...), pick())
				}
				add("trailing-garbage", crc, append(append([]byte{}, valid...), 0xde, 0xad, 0xbe, 0xef), pick())
				if crc {
					// CRC consistent over stream + garbage: only the trailing bytes are wrong
					m := append(append([]byte{}, valid...), bytes.Repeat([]byte{0x55}, 7)...)
					sum := crc16Xmodem(m[2:])
					m[0], m[1] = byte(sum), byte(sum>>8)
					add("trailing-garbage-crc-fixed", crc, m, pick())
				}
			}
			// token probes: VALID streams (consistent size and CRC) built token by token with the canonical coder,
			// of shapes no encoder emits: a match as the very first token, matches that reach into the initial
			// window (blanks, and the NUL slots behind it) at every boundary distance, after 0..61 literals
			for _, k := range []int{0, 1, 2, 3, 59, 60, 61} {
				for _, l := range []int{3, 4, 59, 60} {
					for _, p := range []int{0, 1, 2, k - 1, k, k + 1, 58, 59, 60, 61, 1986, 1987, 1988, 1989, 2046, 2047, k + 1987, k + 1988} {
						if p < 0 || p > 2047 || (len(seeds) > 0 && !c.TimeLeft()) {
							continue
						}
						var toks []canonTok
						for j := 0; j < k; j++ {
							toks = append(toks, canonTok{lit: byte('A' + j%26)})
						}
						toks = append(toks, canonTok{length: l, pos: p}, canonTok{lit: 'y'}, canonTok{lit: 'z'})
						body, size := canonEncodeTokens(toks)
						add("token-probe", crc, canonStreamOf(crc, body, size), pick())
					}
				}
			}
			for i := 0; i < c.Budget(60, 1500); i++ {
				var toks []canonTok
				for j := 1 + c.Rng.Intn(12); j > 0; j-- {
					if c.Rng.Intn(2) == 0 {
						toks = append(toks, canonTok{lit: byte(c.Rng.Intn(256))})
					} else {
						toks = append(toks, canonTok{length: 3 + c.Rng.Intn(58), pos: []int{c.Rng.Intn(2048), 2047 - c.Rng.Intn(62), c.Rng.Intn(4)}[c.Rng.Intn(3)]})
					}
				}
				body, size := canonEncodeTokens(toks)
				add("token-probe", crc, canonStreamOf(crc, body, size), pick())
			}
			// maximal expansion: long runs compress to ~1 bit per 6 bytes; also with the declared size raised to 2^30
			for _, n := range []int{600, 20000, c.Budget(100000, 600000)} {
				_, valid := implLzw(crc, bytes.Repeat([]byte{' '}, n), nil, false)
				add("max-expansion", crc, valid, []int{4096})
				m := append([]byte{}, valid...)
				copy(m[hdr:], le32b(1<<30))
				if crc {
					sum := crc16Xmodem(m[2:])
					m[0], m[1] = byte(sum), byte(sum>>8)
				}
				add("max-expansion-size-2^30", crc, m, []int{4096})
			}
			// random bytes
			for i := 0; i < c.Budget(400, 6000); i++ {
				b := make([]byte, c.Rng.Intn(300))
				c.Rng.Read(b)
				if len(b) >= hdr+4 && c.Rng.Intn(2) == 0 { // plausible size so that decoding starts
					copy(b[hdr:], le32b(c.Rng.Intn(2000)))
				}
				add("random", crc, b, pick())
			}
			// long random body behind a plausible header (bufio refills, reconst)
			for i := 0; i < c.Budget(3, 30); i++ {
				b := make([]byte, hdr+4+5000+c.Rng.Intn(40000))
				c.Rng.Read(b)
				copy(b[hdr:], le32b(len(b)*2))
				add("random-long", crc, b, []int{4096})
			}
		}
		// a VALID stream whose adaptive tree grows deeper than 16 levels (Fibonacci-like symbol frequencies, codes of
		// 17 and 18 bits): oracle only in the quick tier (the Lean evaluation of 274 KB takes long; C06's thorough
		// tier runs it through the model)
		for _, crc := range []bool{true, false} {
			deep := fibProfile(1.0)
			_, valid := implLzw(crc, deep, nil, false)
			out := readerOracle(c, "deep-tree", crc, valid, []int{4096})
			_, data, cerr, _, _ := implLzr(crc, valid, []int{997})
			if cerr != nil || !bytes.Equal(data, deep) {
				c.Violate("C08:valid-stream-misread:deep-tree", fmt.Sprintf("a valid stream with Huffman codes longer than 16 bits was not read back (Close = %v, %d of %d bytes equal)", cerr, firstDiff(data, deep), len(deep)), map[string]interface{}{"input": "fibProfile(1.0), 274016 bytes", "crc": crc, "observed": trunc(out, 200)})
			}
			c.Res.Distribution["deep-tree(oracle only)"]++
		}
		c.Compare(cases)
	})
}
