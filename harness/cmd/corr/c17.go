package main

import (
	"fmt"
	"math/rand"
	"os"
	"path/filepath"
	"strings"
	"sync"
	"time"

	"github.com/la5nta/wl2k-go/fbb"
)

type statusRec struct {
	mu   sync.Mutex
	reps []fbb.Status
	// slow: how long the updater takes to handle a progress (not Done) report - a user interface redrawing, a log
	// write. The reports of one transfer all come from one goroutine, so they can never overlap, however slow the
	// updater is; overlap lists the messages for which a report was delivered while an earlier one was still being
	// handled (the updater would have to be thread-safe, and "final" would mean nothing).
	slow    time.Duration
	active  map[string]int
	overlap []string
}

func statusMID(s fbb.Status) string {
	switch {
	case s.Sending != nil:
		return "S:" + s.Sending.MID()
	case s.Receiving != nil:
		return "R:" + s.Receiving.MID()
	}
	return ""
}

func (r *statusRec) UpdateStatus(s fbb.Status) {
	mid := statusMID(s)
	r.mu.Lock()
	if r.active == nil {
		r.active = map[string]int{}
	}
	if r.active[mid] > 0 {
		r.overlap = append(r.overlap, mid)
	}
	r.active[mid]++
	r.reps = append(r.reps, s)
	r.mu.Unlock()
	if r.slow > 0 && !s.Done {
		time.Sleep(r.slow)
	}
	r.mu.Lock()
	r.active[mid]--
	r.mu.Unlock()
}

func (r *statusRec) snapshot() []fbb.Status {
	r.mu.Lock()
	defer r.mu.Unlock()
	return append([]fbb.Status{}, r.reps...)
}

// pacedConn delays every Write; optionally reports a transmit-buffer length (transport.TxBuffer).
type pacedConn struct {
	*memConn
	delay time.Duration
	pause map[int]time.Duration // extra pause before the n-th write
	n     int
	// eotDelay: pause before the two-byte EOT+checksum write that ends a transfer (the last data block has been
	// handed over, the function has not returned yet: a reporting tick falls in between)
	eotDelay time.Duration
}

func (p *pacedConn) Write(b []byte) (int, error) {
	p.n++
	if d, ok := p.pause[p.n]; ok {
		time.Sleep(d)
	}
	if p.delay > 0 {
		time.Sleep(p.delay)
	}
	if p.eotDelay > 0 && len(b) == 2 && b[0] == 4 {
		time.Sleep(p.eotDelay)
	}
	return p.memConn.Write(b)
}

type pacedTxConn struct {
	*pacedConn
	txlen int
}

func (p *pacedTxConn) TxBufferLen() int { return p.txlen }

// raceReports reads what the race detector wrote for this process (GORACE log_path).
func raceReports() []string {
	base := os.Getenv("VERIF_RACE_LOG")
	if base == "" {
		return nil
	}
	files, _ := filepath.Glob(base + ".*")
	var out []string
	for _, f := range files {
		b, err := os.ReadFile(f)
		if err != nil {
			continue
		}
		for _, rep := range strings.Split(string(b), "==================") {
			if strings.Contains(rep, "DATA RACE") {
				out = append(out, strings.TrimSpace(rep))
			}
		}
	}
	return out
}

func raceKey(rep string) string {
	// first two frames that mention the library
	var frames []string
	for _, l := range strings.Split(rep, "\n") {
		l = strings.TrimSpace(l)
		if strings.Contains(l, ".go:") && !strings.Contains(l, "/toolchain@") && !strings.Contains(l, "/harness/") && !strings.Contains(l, "/src/runtime/") {
			if i := strings.LastIndex(l, "/"); i >= 0 {
				l = l[i+1:]
			}
			if j := strings.Index(l, " "); j >= 0 {
				l = l[:j]
			}
			frames = append(frames, l)
			if len(frames) == 2 {
				break
			}
		}
	}
	return strings.Join(frames, "|")
}

func init() {
	register("C17", "cases: two real Sessions with a StatusUpdater on both sides transfer 1-2 messages (compressed 1-40 KB) over the in-memory stream with per-write pacing on either side: none, 1-3 ms per write (transfers lasting well over the 250 ms reporting period), one 300-400 ms stall mid-transfer; transports with and without a transmit-buffer length (0, small, larger than the message). Every observed report is checked (0 <= transferred <= total = compressed size, names the message being transferred, exactly one Done per transferred message and side, Done last) and fed to the Lean report model. The same scenarios run in a -race build of the harness (GORACE log): any DATA RACE report involving the library is a violation whose replay is the detector's report. Non-trivial: transfers that produced at least one intermediate report; distinct by case line.", func(c *Ctx) {
		var cases []Case
		n := c.Budget(6, 40)
		for i := 0; i < n && c.TimeLeft(); i++ {
			sa, sb := newSpec("LA5NTA", "N0CALL", false), newSpec("N0CALL", "LA5NTA", true)
			nm := 1 + c.Rng.Intn(2)
			if i%5 == 4 {
				nm = 2 // (pacing mode 4 below: a reporting tick falls before the end of EVERY transfer)
			}
			for k := 0; k < nm; k++ {
				m := genMessage(c.Rng, sa.mycall, sb.mycall, 200)
				size := 1000 + c.Rng.Intn(c.Budget(12000, 40000))
				if nm == 2 && (i%2 == 0 || i%5 == 4) {
					// a LARGE message of higher precedence goes out before a small routine one (proposals are sorted by
					// precedence, then size): whatever a reporter remembers of the first transfer is wrong for the second
					if k == 0 {
						m.SetSubject("//WL2K P/ priority traffic")
						size = 9000 + c.Rng.Intn(6000)
					} else {
						m.SetSubject("routine")
						size = 1000 + c.Rng.Intn(1500)
					}
				}
				data := make([]byte, size)
				c.Rng.Read(data)
				m.AddFile(fbb.NewFile("blob.bin", data))
				sa.outbox = append(sa.outbox, newOutMsg(m))
			}
			ca, cb := newMemPipe(nil, nil)
			ca.DetectDeadlock()
			pa := &pacedConn{memConn: ca, pause: map[int]time.Duration{}}
			pb := &pacedConn{memConn: cb, pause: map[int]time.Duration{}}
			mode := i % 5
			switch mode {
			case 4:
				// more than one reporting period between the last data block and the end of the transfer
				pa.eotDelay = time.Duration(300+c.Rng.Intn(300)) * time.Millisecond
			case 1:
				pa.delay = time.Duration(1+c.Rng.Intn(3)) * time.Millisecond
			case 2:
				pa.pause[20+c.Rng.Intn(40)] = time.Duration(300+c.Rng.Intn(100)) * time.Millisecond
			case 3:
				pa.delay = 2 * time.Millisecond
				pb.delay = time.Millisecond
			}
			var connA, connB interface {
				Read([]byte) (int, error)
			}
			_ = connA
			_ = connB
			txlen := -1
			if c.Rng.Intn(2) == 0 {
				txlen = []int{0, 300, 100000}[c.Rng.Intn(3)]
			}
			if i%3 == 0 {
				txlen = 100000 // a transmit buffer that always holds more than the whole message (never drained by Flush)
			}
			ra, rb := &statusRec{}, &statusRec{}
			if i%3 == 1 {
				// an updater that needs longer than the rest of the transfer for a progress report
				ra.slow = time.Duration(250+c.Rng.Intn(250)) * time.Millisecond
				rb.slow = ra.slow
			}
			twa, twb := newTwin(sa), newTwin(sb)
			xa, xb := sa.newSession(twa), sb.newSession(twb)
			xa.SetStatusUpdater(ra)
			xb.SetStatusUpdater(rb)
			done := make(chan error, 2)
			go func() {
				var err error
				if txlen >= 0 {
					_, err = xa.Exchange(&pacedTxConn{pa, txlen})
				} else {
					_, err = xa.Exchange(pa)
				}
				done <- err
			}()
			go func() { _, err := xb.Exchange(pb); done <- err }()
			var errs []error
			for k := 0; k < 2; k++ {
				select {
				case e := <-done:
					errs = append(errs, e)
				case <-time.After(60 * time.Second):
					ca.Kill()
					errs = append(errs, fmt.Errorf("hang"))
				}
			}
			// the final Done reports are delivered asynchronously
			deadline := time.Now().Add(2 * time.Second)
			countDone := func(rs []fbb.Status) int {
				k := 0
				for _, r := range rs {
					if r.Done {
						k++
					}
				}
				return k
			}
			for time.Now().Before(deadline) && (countDone(ra.snapshot()) < nm || countDone(rb.snapshot()) < nm) {
				time.Sleep(5 * time.Millisecond)
			}
			rep := map[string]interface{}{"pacing_mode": mode, "tx_buffer_len": txlen, "messages": nm, "errs": fmt.Sprint(errs), "updater_ms_per_progress_report": ra.slow.Milliseconds()}
			for _, sr := range []struct {
				name string
				r    *statusRec
			}{{"send", ra}, {"recv", rb}} {
				sr.r.mu.Lock()
				ov := append([]string{}, sr.r.overlap...)
				sr.r.mu.Unlock()
				if len(ov) > 0 {
					c.Violate("C17:report-overlaps-earlier-report:"+sr.name, fmt.Sprintf("a report for %s was delivered while an earlier report of the same transfer was still being handled by the updater (the final report is then not final)", ov[0]), rep)
				}
			}
			if errs[0] != nil || errs[1] != nil {
				c.Violate("C17:exchange-failed", fmt.Sprintf("Exchange failed with a status updater installed: %v", errs), rep)
				continue
			}
			sizes := map[string]int{}
			for _, o := range sa.outbox {
				sizes[o.mid] = len(fbbCompressed(o))
			}
			for _, side := range []struct {
				name string
				reps []fbb.Status
			}{{"send", ra.snapshot()}, {"recv", rb.snapshot()}} {
				doneSeen := map[string]int{}
				inter := 0
				for _, r := range side.reps {
					p := r.Sending
					if side.name == "recv" {
						p = r.Receiving
					}
					if p == nil || (side.name == "send" && r.Receiving != nil) || (side.name == "recv" && r.Sending != nil) {
						c.Violate("C17:report-names-wrong-transfer:"+side.name, "a report does not name the message being transferred", rep)
						continue
					}
					total, ok := sizes[p.MID()]
					if !ok {
						c.Violate("C17:report-unknown-message:"+side.name, "a report names a message that is not being transferred", rep)
						continue
					}
					if r.BytesTotal != total || r.BytesTransferred < 0 || r.BytesTransferred > r.BytesTotal {
						c.Violate("C17:report-out-of-range:"+side.name, fmt.Sprintf("report %d/%d for a compressed size of %d", r.BytesTransferred, r.BytesTotal, total), rep)
					}
					if doneSeen[p.MID()] > 0 {
						c.Violate("C17:report-after-done:"+side.name, "a report was delivered after the Done report of the same message", rep)
					}
					if r.Done {
						doneSeen[p.MID()]++
					} else {
						inter++
					}
					cases = append(cases, Case{Line: fmt.Sprintf("statuscheck %s %d %d %s", side.name, r.BytesTotal, r.BytesTransferred, b01(r.Done)), Impl: "ok", Desc: fmt.Sprintf("%s report %d/%d done=%v (pacing mode %d, txbuf %d)", side.name, r.BytesTransferred, r.BytesTotal, r.Done, mode, txlen), Class: side.name + "-report", Nontrivial: !r.Done})
				}
				for mid := range sizes {
					if doneSeen[mid] != 1 {
						c.Violate("C17:done-count:"+side.name, fmt.Sprintf("message %s got %d reports with Done set on the %s side, want exactly one", mid, doneSeen[mid], side.name), rep)
					}
				}
				c.Res.Distribution[fmt.Sprintf("transfers-with-intermediate-reports:%s", side.name)] += b2i(inter > 0)
			}
		}
		// resumed transfers: the peer (the independent reference peer of C05) accepts a proposal at an offset
		// ("!n"/"An"); every report of the sending side must still lie within [0, total]
		for i := 0; i < c.Budget(4, 30) && c.TimeLeft(); i++ {
			sp := newSpec("LA5NTA", "PEER", i%2 == 0)
			m := genMessage(c.Rng, sp.mycall, "PEER", 200)
			data := make([]byte, 2000+c.Rng.Intn(c.Budget(8000, 30000)))
			c.Rng.Read(data)
			m.AddFile(fbb.NewFile("blob.bin", data))
			om := newOutMsg(m)
			sp.outbox = append(sp.outbox, om)
			comp := fbbCompressed(om)
			off := 1 + c.Rng.Intn(len(comp)-1)
			cfg := &peerCfg{master: !sp.master, rng: rand.New(rand.NewSource(c.Rng.Int63())), features: "B2FWIHJM$", policy: map[string]byte{}, expect: map[string][]byte{om.mid: om.data},
				expectResp: map[string]string{}, offsets: map[string]int{om.mid: off}, expectComp: map[string][]byte{om.mid: comp}, expOrder: []string{om.mid}, expectFW: []string{"LA5NTA"}}
			ca, cb := newMemPipe(nil, nil)
			ca.DetectDeadlock()
			pa := &pacedConn{memConn: ca, pause: map[int]time.Duration{}}
			if i%2 == 1 {
				pa.delay = 2 * time.Millisecond // several reporting periods
			}
			rec := &statusRec{}
			tw := newTwin(sp)
			x := sp.newSession(tw)
			x.SetStatusUpdater(rec)
			done := make(chan error, 1)
			go func() { _, err := x.Exchange(pa); done <- err }()
			resCh := make(chan *peerResult, 1)
			go func() { resCh <- runPeer(cb, cfg) }()
			var err error
			select {
			case err = <-done:
			case <-time.After(60 * time.Second):
				ca.Kill()
				err = fmt.Errorf("hang")
			}
			pres := <-resCh
			time.Sleep(50 * time.Millisecond)
			rep := map[string]interface{}{"scenario": "resume", "offset": off, "compressed_size": len(comp), "session_master": sp.master, "err": fmt.Sprint(err), "peer_violations": pres.violations}
			if err != nil {
				c.Violate("C17:exchange-failed:resume", fmt.Sprintf("Exchange failed against a peer that resumes at offset %d: %v", off, err), rep)
				continue
			}
			nDone := 0
			for _, r := range rec.snapshot() {
				if r.Sending == nil {
					continue
				}
				if r.BytesTransferred < 0 || r.BytesTransferred > r.BytesTotal || r.BytesTotal > len(comp) {
					c.Violate("C17:report-out-of-range:send-resumed", fmt.Sprintf("report %d/%d (done=%v) for a compressed size of %d sent from offset %d", r.BytesTransferred, r.BytesTotal, r.Done, len(comp), off), rep)
				}
				if r.Done {
					nDone++
				}
				cases = append(cases, Case{Line: fmt.Sprintf("statuscheck send %d %d %s", r.BytesTotal, r.BytesTransferred, b01(r.Done)), Impl: "ok", Desc: fmt.Sprintf("send report %d/%d done=%v (resumed at %d)", r.BytesTransferred, r.BytesTotal, r.Done, off), Class: "send-report-resumed", Nontrivial: !r.Done})
			}
			if nDone != 1 {
				c.Violate("C17:done-count:send-resumed", fmt.Sprintf("%d reports with Done set for a resumed transfer, want exactly one", nDone), rep)
			}
		}
		if raceEnabled {
			time.Sleep(100 * time.Millisecond)
			for _, r := range raceReports() {
				c.Violate("C17:data-race:"+raceKey(r), "the race detector reported a data race between the transfer and the status reporting", map[string]interface{}{"race_report": trunc(r, 6000)})
			}
			c.Note("race detector enabled: %d report(s)", len(raceReports()))
		}
		c.Compare(cases)
	})
}

func b2i(b bool) int {
	if b {
		return 1
	}
	return 0
}
