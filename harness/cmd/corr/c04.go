package main

import (
	"bytes"
	"fmt"
	"github.com/la5nta/wl2k-go/fbb"
	"os"
)

// frameSpans finds the SOH..EOT byte ranges in a sender's wire by following the framing rules.
func frameSpans(w []byte) [][2]int {
	var out [][2]int
	prevEnd := -1 // the frames of one block follow each other directly
	for i := 0; i < len(w); i++ {
		if w[i] != 1 || (i > 0 && w[i-1] != '\r' && i != prevEnd) {
			continue
		}
		j := i + 2
		// title NUL offset NUL
		for n := 0; n < 2 && j < len(w); n++ {
			for j < len(w) && w[j] != 0 {
				j++
			}
			j++
		}
		for j+1 < len(w) && w[j] == 2 {
			l := int(w[j+1])
			if l == 0 {
				l = 256
			}
			j += 2 + l
		}
		if j+1 < len(w) && w[j] == 4 {
			out = append(out, [2]int{i, j + 2})
			prevEnd = j + 2
			i = j + 1
		}
	}
	return out
}

// refAccepts: does an independent B2F/LZHUF reference accept the (altered) frame as fully valid for a
// proposal with the given compressed size? Returns the decoded message when it does.
func refAccepts(frame []byte, csize int) ([]byte, bool) {
	if len(frame) < 6 || frame[0] != 1 {
		return nil, false
	}
	hl := int(frame[1])
	j := 2
	t0 := j
	for j < len(frame) && frame[j] != 0 {
		j++
	}
	title := frame[t0:j]
	j++
	o0 := j
	for j < len(frame) && frame[j] != 0 {
		j++
	}
	if j >= len(frame) {
		return nil, false
	}
	off := frame[o0:j]
	j++
	if hl != len(title)+len(off)+2 || string(off) != "0" {
		return nil, false
	}
	var data []byte
	sum := 0
	for j < len(frame) && frame[j] == 2 {
		if j+1 >= len(frame) {
			return nil, false
		}
		l := int(frame[j+1])
		if l == 0 {
			l = 256
		}
		if j+2+l > len(frame) {
			return nil, false
		}
		for _, b := range frame[j+2 : j+2+l] {
			sum += int(b)
		}
		data = append(data, frame[j+2:j+2+l]...)
		j += 2 + l
	}
	if j+2 != len(frame) || frame[j] != 4 || (sum+int(frame[j+1]))%256 != 0 || len(data) != csize || len(data) < 6 {
		return nil, false
	}
	crc := crc16Xmodem(data[2:])
	if data[0] != byte(crc) || data[1] != byte(crc>>8) {
		return nil, false
	}
	size := int32le(data[2:6])
	if size < 0 || size > 1<<24 {
		return nil, false
	}
	out, _ := canonDecode(data[6:], size, size+100)
	if len(out) != size {
		return nil, false
	}
	return out, true
}

func init() {
	register("C04", "cases: a recorded clean transfer of 1-2 messages is re-run with the sender's byte stream ALTERED in transit inside the SOH..EOT range: single-byte substitutions (every offset for small frames, sampled above; several values incl. +-1), byte deletions and insertions at sampled offsets, checksum-compensating pairs +d/-d on adjacent bytes and at distances up to 64 plus long-range pairs (incl. pairs inside literal runs, across block boundaries, across the CRC/size header). Both real Sessions run (the sender keeps talking to the receiver); the receiver is also replayed through the Lean session model on the altered stream (outcome class, wire, callbacks). Oracle: a message handed to the inbound handler must be byte-identical to the queued one, and the sender may record a message as sent only if the receiver's handler got it intact; alterations an independent frame/CRC/canonical-LZHUF reference also accepts as fully valid are excluded and counted. Non-trivial: alteration inside a data block or the payload header; distinct by case line.", func(c *Ctx) {
		var cases []Case
		nsc := c.Budget(4, 60)
		for i := 0; i < nsc && c.TimeLeft(); i++ {
			sa, sb := newSpec("LA5NTA", "N0CALL", false), newSpec("N0CALL", "LA5NTA", true)
			sa.ihash, sb.ihash = false, false
			for k := 0; k <= c.Rng.Intn(2); k++ {
				body := 40 + c.Rng.Intn(c.Budget(400, 3000))
				if i%3 == 0 {
					body = 20
				}
				sa.outbox = append(sa.outbox, newOutMsg(genMessage(c.Rng, sa.mycall, sb.mycall, body)))
			}
			if i == 2 {
				// directed: a single message whose compressed bytes sum to 0 mod 256, i.e. whose frame ends in the
				// checksum byte 0 - the one value a reader that takes "no byte" for 0 cannot tell from a missing byte
				for tries := 0; tries < 4000; tries++ {
					o := newOutMsg(genMessage(c.Rng, sa.mycall, sb.mycall, 60))
					sum := 0
					for _, b := range fbbCompressed(o) {
						sum += int(b)
					}
					if sum%256 == 0 {
						sa.outbox = []*outMsg{o}
						c.Res.Distribution["directed:checksum-byte-zero"]++
						break
					}
				}
			}
			if i%4 == 1 {
				// the outbound handler lists the same message twice (what Radio Only gateways do): the receiver sees
				// one MID twice in a block, and only one copy is transferred
				sa.outbox = append(sa.outbox, sa.outbox[c.Rng.Intn(len(sa.outbox))])
			}
			clean := runPairImpl(sa, sb, c.Rng.Int63(), -1, -1)
			if clean.a.err != nil || clean.b.err != nil {
				c.Note("clean run failed (%v / %v hung=%v): scenario skipped", clean.a.err, clean.b.err, clean.a.hung || clean.b.hung)
				continue
			}
			spans := frameSpans(clean.a.wire)
			if len(spans) == 0 {
				c.Note("no frame found in a clean transfer (harness)")
				continue
			}
			try := func(edits map[int]edit, kind string, nontriv bool) {
				if !c.TimeLeft() {
					return
				}
				pr := runPairOpts(sa, sb, c.Rng.Int63(), -1, -1, edits, nil)
				rep := scenarioReplay(sa, sb, map[string]interface{}{"alteration": kind, "edits": fmt.Sprint(edits), "errA": fmt.Sprint(pr.a.err), "errB": fmt.Sprint(pr.b.err)})
				if pr.stalled {
					c.Res.Distribution["stalled(bytes lost; ends by link timeout)"]++
				}
				if pr.a.hung || pr.b.hung || pr.a.panicked != nil || pr.b.panicked != nil {
					c.Violate("C04:hang-or-panic:"+kind, "Exchange hung or panicked on a transfer altered in transit", rep)
					return
				}
				// what did the reference think of each altered frame?
				alteredSpans := frameSpans(pr.wireAB)
				refOK := map[string]bool{}
				for _, sp := range alteredSpans {
					for _, o := range sa.outbox {
						cs := len(fbbCompressed(o))
						if msg, ok := refAccepts(pr.wireAB[sp[0]:sp[1]], cs); ok {
							refOK[string(msg)] = true
						}
					}
				}
				queued := map[string]string{}
				for _, o := range sa.outbox {
					queued[string(o.data)] = o.mid
				}
				intact := map[string]bool{}
				for _, data := range pr.b.tw.inbox {
					if mid, ok := queued[string(data)]; ok {
						intact[mid] = true
						continue
					}
					if refOK[string(data)] {
						c.Res.Distribution["excluded:reference-also-accepts"]++
						continue
					}
					c.Violate("C04:damaged-delivered:"+kind, "a message altered in transit was handed to the inbound handler as a good message", rep)
				}
				// the altered frame itself (the sender writes a frame without reading, so it is the clean frame
				// with the edits applied): if the reference refuses it, its message must not be delivered at
				// all - not even when the payload happens to be undamaged (header length / offset clause)
				for j, sp := range spans {
					first := -1
					for o := range edits {
						if o >= sp[0] && o < sp[1] && (first < 0 || o < first) {
							first = o
						}
					}
					if first < 0 || j >= len(clean.b.tw.inbox) {
						continue
					}
					var fr []byte
					for o := sp[0]; o < sp[1]; o++ {
						if e, ok := edits[o]; ok {
							switch e.kind {
							case 's':
								fr = append(fr, e.val...)
							case 'i':
								fr = append(append(fr, e.val...), clean.a.wire[o])
							}
							continue
						}
						fr = append(fr, clean.a.wire[o])
					}
					// what a receiver parses out of those bytes: the bytes as a whole, or the frame the scanner finds in
					// them (an inserted byte that equals its right neighbour at the very end of the frame IS an intact
					// frame followed by a stray byte: the alteration lies behind EOT+checksum, the frame holds)
					cands := [][]byte{fr}
					for _, s2 := range frameSpans(fr) {
						cands = append(cands, fr[s2[0]:s2[1]])
					}
					accepted := false
					for _, o := range sa.outbox {
						for _, cand := range cands {
							if _, ok := refAccepts(cand, len(fbbCompressed(o))); ok {
								accepted = true
							}
						}
					}
					// ... or the frame the reference finds in the stream as the receiver got it: a deleted checksum byte whose
					// value the NEXT byte on the stream happens to have (the SOH of the following transfer, say) leaves an
					// intact frame - the damage is to what follows, and that is judged on its own
					if accepted || refOK[string(clean.b.tw.inbox[j])] {
						c.Res.Distribution["excluded:reference-also-accepts"]++
						continue
					}
					for _, data := range pr.b.tw.inbox {
						if bytes.Equal(data, clean.b.tw.inbox[j]) {
							rep["frame_index"], rep["frame_span"], rep["first_edit_at"], rep["delivered_messages"], rep["all_spans"] = j, sp, first, len(pr.b.tw.inbox), fmt.Sprint(spans)
							if e := edits[first]; len(edits) == 1 && e.kind == 'd' && first == sp[1]-1 && clean.a.wire[first] == 0 {
								// the frame's checksum byte (value 0) was lost and nothing follows: readCompressed ignores the
								// error of that ReadByte and judges the transfer with checksum 0
								c.Violate("C04:missing-checksum-byte-judged-as-zero", "a transfer whose final checksum byte never arrived (the link ended behind EOT) was accepted as complete: the missing byte is read as 0, which is what the data bytes happen to sum to", rep)
								continue
							}
							c.Violate("C04:invalid-frame-delivered:"+kind, "the message of a transfer whose framing (SOH header length/offset, block structure, checksum, size) no longer holds was handed to the inbound handler", rep)
						}
					}
				}
				for mid, rejected := range pr.a.tw.sent {
					if !rejected && !intact[mid] {
						c.Violate("C04:damaged-marked-sent:"+kind, "the sender recorded message "+mid+" as sent although the receiver's handler never got it intact", rep)
					}
					if rejected && !intact[mid] && sb.policy[mid] != '-' {
						// SetSent(mid, rejected=true) takes the message out of the outbox just the same
						c.Violate("C04:damaged-marked-sent-as-rejected:"+kind, "the sender recorded message "+mid+" as sent (\"already received\") although the receiver's handler neither rejected it nor got it intact", rep)
					}
				}
				sb2 := *sb
				rb := &sessRun{tw: pr.b.tw, err: pr.b.err}
				implCanon := pr.b.canon
				if pr.stalled {
					// bytes were lost and the exchange ended by the (simulated) link timeout: the live receiver then
					// finds the link dead when it tries to write its error line, while the model's input simply ends.
					// Compare the model with the real Session REPLAYED on exactly the bytes it received (same code,
					// same input, link lost after the input) so that both sides have the same end-of-link semantics.
					rp := runSessionImpl(&sb2, pr.wireAB)
					rb, implCanon = rp, rp.canon
				}
				sb2.hints = hintsFrom(rb)
				cases = append(cases, Case{Line: sb2.line(pr.wireAB), Impl: implCanon, Desc: fmt.Sprintf("receiver on stream altered in transit (%s %v)", kind, trunc(fmt.Sprint(edits), 80)), Class: kind, Nontrivial: nontriv})
			}
			for _, sp := range spans {
				lo, hi := sp[0], sp[1]
				n := hi - lo
				// substitutions
				step := 1
				if n > c.Budget(45, 400) {
					step = n / c.Budget(45, 400)
				}
				for off := lo; off < hi; off += step {
					o := off + c.Rng.Intn(step)
					if o >= hi {
						o = hi - 1
					}
					orig := clean.a.wire[o]
					for _, v := range []byte{orig + 1, orig ^ 0x80, byte(c.Rng.Intn(256))}[:c.Budget(1, 3)] {
						if v != orig {
							try(map[int]edit{o: {'s', []byte{v}}}, "substitute", o > lo+8)
						}
					}
				}
				// structural bytes: SOH, header length, the NULs, every offset digit, first STX and its length,
				// EOT and the checksum byte, each replaced by values of every kind
				{
					w := clean.a.wire
					pos := []int{lo, lo + 1}
					j := lo + 2
					for j < hi && w[j] != 0 {
						j++
					}
					if lo+2 < j {
						pos = append(pos, lo+2, j-1) // first and last title byte
					}
					pos = append(pos, j) // NUL after the title
					j++
					for j < hi && w[j] != 0 {
						pos = append(pos, j) // offset digits
						j++
					}
					pos = append(pos, j, j+1, j+2, hi-2, hi-1)
					for _, o := range pos {
						if o < lo || o >= hi {
							continue
						}
						orig := w[o]
						seen := map[byte]bool{orig: true}
						for _, v := range []byte{orig + 1, 'x', '*', '5', 0, 0xff, ' ', '+', 1, 2, 4}[:c.Budget(7, 11)] {
							if !seen[v] {
								seen[v] = true
								try(map[int]edit{o: {'s', []byte{v}}}, "substitute-structural", true)
							}
						}
					}
					// insertions in front of and deletions of each of those structural bytes: an inserted byte makes the
					// header one byte longer than its length byte says; white space, signs, digits and NUL are the
					// values a lenient field parser would swallow
					for _, o := range pos {
						if o < lo || o >= hi {
							continue
						}
						for _, v := range []byte{' ', '\t', '\n', '\r', 0x0b, 0x0c, '0', '+', '-', 0, 0xff, 'x'}[:c.Budget(8, 12)] {
							try(map[int]edit{o: {'i', []byte{v}}}, "insert-structural", true)
						}
						try(map[int]edit{o: {'d', nil}}, "delete-structural", true)
					}
				}
				// long insertions: exactly 256 / 512 bytes (a length kept in one byte, or compared modulo 256, does not
				// notice them) into the title and in front of the offset digits, and 255 / 257 next to them
				for _, nIns := range []int{256, 512, 255, 257} {
					for _, o := range []int{lo + 2, lo + 3} {
						if o < hi {
							try(map[int]edit{o: {'i', bytes.Repeat([]byte{'A'}, nIns)}}, "insert-256", true)
						}
					}
				}
				// deletions / insertions
				for k := 0; k < c.Budget(12, 80); k++ {
					o := lo + c.Rng.Intn(n)
					if c.Rng.Intn(2) == 0 {
						try(map[int]edit{o: {'d', nil}}, "delete", true)
					} else {
						try(map[int]edit{o: {'i', []byte{byte(c.Rng.Intn(256))}}}, "insert", true)
					}
				}
				// checksum-compensating pairs
				for k := 0; k < c.Budget(45, 600); k++ {
					i1 := lo + 4 + c.Rng.Intn(max(n-8, 1))
					dist := 1
					switch c.Rng.Intn(3) {
					case 1:
						dist = 1 + c.Rng.Intn(64)
					case 2:
						dist = 1 + c.Rng.Intn(n)
					}
					i2 := i1 + dist
					if i2 >= hi-2 {
						continue
					}
					d := byte(1 + c.Rng.Intn(255))
					try(map[int]edit{i1: {'s', []byte{clean.a.wire[i1] + d}}, i2: {'s', []byte{clean.a.wire[i2] - d}}}, fmt.Sprintf("pair-dist%s", distBucket(dist)), true)
				}
			}
		}
		// gzip transfers ('D' proposals, GZIP_EXPERIMENT=1 on both sides): oracle only, the model does not cover
		// them. Random attachments end up in stored deflate blocks, so a +d/-d pair leaves the deflate stream
		// well formed and only gzip's CRC-32/size trailer can tell; CRC-32 catches every change of two bytes.
		os.Setenv("GZIP_EXPERIMENT", "1")
		for i := 0; i < c.Budget(2, 12) && c.TimeLeft(); i++ {
			sa, sb := newSpec("LA5NTA", "N0CALL", false), newSpec("N0CALL", "LA5NTA", true)
			sa.ihash, sb.ihash = false, false
			m := genMessage(c.Rng, sa.mycall, sb.mycall, 300)
			blob := make([]byte, 600+c.Rng.Intn(1500))
			c.Rng.Read(blob)
			m.AddFile(fbb.NewFile("blob.bin", blob))
			sa.outbox = append(sa.outbox, newOutMsg(m))
			clean := runPairImpl(sa, sb, c.Rng.Int63(), -1, -1)
			spans := frameSpans(clean.a.wire)
			if clean.a.err != nil || clean.b.err != nil || len(spans) == 0 || !bytes.Contains(clean.a.wire, []byte("FD EM ")) {
				c.Note("gzip family: no clean 'D' transfer (errs %v / %v)", clean.a.err, clean.b.err)
				continue
			}
			lo, hi := spans[0][0], spans[0][1]
			for k := 0; k < c.Budget(25, 120) && c.TimeLeft(); k++ {
				i1 := lo + 40 + c.Rng.Intn(max(hi-lo-60, 1))
				i2 := i1 + 1 + c.Rng.Intn(3)
				if i2 >= hi-2 || clean.a.wire[i1] == 2 || clean.a.wire[i2] == 2 {
					continue
				}
				d := byte(1 + c.Rng.Intn(255))
				edits := map[int]edit{i1: {'s', []byte{clean.a.wire[i1] + d}}, i2: {'s', []byte{clean.a.wire[i2] - d}}}
				pr := runPairOpts(sa, sb, c.Rng.Int63(), -1, -1, edits, nil)
				rep := scenarioReplay(sa, sb, map[string]interface{}{"alteration": "gzip-pair", "env": "GZIP_EXPERIMENT=1", "edits": fmt.Sprint(edits), "errA": fmt.Sprint(pr.a.err), "errB": fmt.Sprint(pr.b.err)})
				got := false
				for _, data := range pr.b.tw.inbox {
					if bytes.Equal(data, sa.outbox[0].data) {
						got = true
					} else {
						c.Violate("C04:damaged-delivered:gzip-pair", "a gzip transfer altered in transit (a +d/-d pair that keeps the block checksum) was handed to the inbound handler as a good message", rep)
					}
				}
				for mid, rejected := range pr.a.tw.sent {
					if !rejected && !got {
						c.Violate("C04:damaged-marked-sent:gzip-pair", "the sender recorded message "+mid+" as sent although the receiver's handler never got it intact (gzip transfer)", rep)
					}
				}
				c.Res.Distribution["gzip-pair(oracle only)"]++
			}
		}
		os.Unsetenv("GZIP_EXPERIMENT")
		c.Compare(cases)
	})
}

func distBucket(d int) string {
	switch {
	case d == 1:
		return "1"
	case d <= 64:
		return "<=64"
	}
	return ">64"
}

// fbbCompressed returns the compressed form the library proposes for a message.
func fbbCompressed(o *outMsg) []byte {
	p, err := o.msg.Proposal('C')
	if err != nil || p == nil {
		return nil
	}
	return p.VerifCompressedData()
}

var _ = bytes.Equal
