package main

// Shared machinery of the mailbox checks C10/C11/C12: abstract messages and operations, their
// encoding for the Lean driver (lean/Wl2kVerif/Ops/Mbox.lean), execution on the real
// mailbox.DirHandler, and an independent reference mailbox (the property's own oracle).

import (
	"bytes"
	"fmt"
	"io"
	"log"
	"net/textproto"
	"os"
	"path/filepath"
	"sort"
	"strconv"
	"strings"
	"time"

	"github.com/la5nta/wl2k-go/fbb"
	"github.com/la5nta/wl2k-go/mailbox"
)

func init() { log.SetOutput(io.Discard) }

// ---------- abstract message ----------

type mMsg struct {
	Mid     string
	To, Cc  []string
	P2P     *string // X-P2POnly
	Unread  *string // X-Unread
	FPath   *string // X-FilePath
	Payload int
	Files   int // number of attachments (part of the payload identity)
}

func sp(s string) *string { return &s }

var mboxDate = time.Date(2020, 2, 3, 4, 5, 0, 0, time.UTC)

// build constructs the real fbb.Message. Everything except MID, receivers and the three private
// headers is a function of Payload/Files.
func (m mMsg) build() *fbb.Message {
	r := fbb.NewMessage(fbb.Private, "N0CALL")
	r.Header.Set("Mid", m.Mid)
	if m.Mid == "" {
		r.Header.Del("Mid")
	}
	r.SetDate(mboxDate)
	r.AddTo(m.To...)
	r.AddCc(m.Cc...)
	r.SetSubject(fmt.Sprintf("p%d", m.Payload))
	r.SetBody(fmt.Sprintf("payload %d\r\n%s\r\n", m.Payload, strings.Repeat("x", 10+(m.Payload*37)%90)))
	for i := 0; i < m.Files; i++ {
		r.AddFile(fbb.NewFile(fmt.Sprintf("f%d.bin", i), bytes.Repeat([]byte{byte(i), 0xd, 0xa, 0xff}, (m.Payload+3*i)%7)))
	}
	if m.P2P != nil {
		r.Header.Set("X-P2POnly", *m.P2P)
	}
	if m.Unread != nil {
		r.Header.Set("X-Unread", *m.Unread)
	}
	if m.FPath != nil {
		r.Header.Set("X-FilePath", *m.FPath)
	}
	return r
}

func (m mMsg) rcpts() []string {
	var out []string
	for _, a := range m.To {
		out = append(out, fbb.AddressFromString(a).String())
	}
	for _, a := range m.Cc {
		out = append(out, fbb.AddressFromString(a).String())
	}
	return out
}

func optTok(p *string) string {
	if p == nil {
		return "~"
	}
	return hs(*p)
}

func listTok(l []string) string {
	if len(l) == 0 {
		return "~"
	}
	h := make([]string, len(l))
	for i, s := range l {
		h[i] = hs(s)
	}
	return strings.Join(h, ";")
}

func (m mMsg) payloadID() int { return m.Payload*10 + m.Files }

func (m mMsg) tok() string {
	return strings.Join([]string{hs(m.Mid), listTok(m.rcpts()), optTok(m.P2P), optTok(m.Unread), optTok(m.FPath), strconv.Itoa(m.payloadID())}, ",")
}

func hdrOpt(h fbb.Header, key string) *string {
	v := h[textproto.CanonicalMIMEHeaderKey(key)]
	if len(v) == 0 {
		return nil
	}
	return sp(v[0])
}

func stripPrivate(m *fbb.Message) []byte {
	cp := *m
	cp.Header = fbb.Header{}
	for k, v := range m.Header {
		switch k {
		case "X-P2ponly", "X-Unread", "X-Filepath":
		default:
			cp.Header[k] = append([]string(nil), v...)
		}
	}
	b, err := cp.Bytes()
	if err != nil {
		return []byte("bytes-error:" + err.Error())
	}
	return b
}

// realTok renders a message produced by the real code in the model's vocabulary. The payload identity
// is re-derived: the message, without the private headers, must serialise to exactly the bytes of the
// message the generator built for (mid, receivers, payload); anything else shows as payload 999999.
func realTok(m *fbb.Message) string {
	var rc []string
	for _, a := range m.Receivers() {
		rc = append(rc, a.String())
	}
	pid := 999999
	subj := m.Header.Get("Subject")
	if strings.HasPrefix(subj, "p") {
		if p, err := strconv.Atoi(subj[1:]); err == nil {
			var to, cc []string
			for _, a := range m.To() {
				to = append(to, a.String())
			}
			for _, a := range m.Cc() {
				cc = append(cc, a.String())
			}
			want := mMsg{Mid: m.MID(), To: to, Cc: cc, Payload: p, Files: len(m.Files())}
			if bytes.Equal(stripPrivate(want.build()), stripPrivate(m)) {
				pid = want.payloadID()
			}
		}
	}
	fp := hdrOpt(m.Header, "X-FilePath")
	if fp != nil {
		fp = sp(mboxCanon(*fp))
	}
	return strings.Join([]string{hs(m.MID()), listTok(rc), optTok(hdrOpt(m.Header, "X-P2POnly")), optTok(hdrOpt(m.Header, "X-Unread")), optTok(fp), strconv.Itoa(pid)}, ",")
}

func realToks(ms []*fbb.Message) string {
	t := make([]string, len(ms))
	for i, m := range ms {
		t[i] = realTok(m)
	}
	return "[" + strings.Join(t, "|") + "]"
}

// ---------- operations ----------

type mOp struct {
	K    byte // N P A I Q S D O L C U R
	B    bool // N: sendOnly; U: flag
	Msgs []mMsg
	Mid  string
	Fws  []string
	F    byte // i o s a
}

func (o mOp) tok() string {
	b := "0"
	if o.B {
		b = "1"
	}
	switch o.K {
	case 'N':
		return "N:" + b
	case 'P':
		return "P"
	case 'A':
		return "A:" + o.Msgs[0].tok()
	case 'I':
		t := []string{"I"}
		for _, m := range o.Msgs {
			t = append(t, m.tok())
		}
		return strings.Join(t, ":")
	case 'Q', 'S', 'D':
		return string(o.K) + ":" + hs(o.Mid)
	case 'O':
		var fw []string
		for _, a := range o.Fws {
			fw = append(fw, fbb.AddressFromString(a).String())
		}
		return "O:" + listTok(fw)
	case 'L', 'C':
		return string(o.K) + ":" + string(o.F)
	case 'U':
		return "U:" + string(o.F) + ":" + hs(o.Mid) + ":" + b
	case 'R':
		return "R:" + string(o.F) + ":" + hs(o.Mid)
	}
	return "?"
}

func (o mOp) String() string {
	switch o.K {
	case 'N':
		return fmt.Sprintf("NewDirHandler(sendOnly=%v)", o.B)
	case 'P':
		return "Prepare"
	case 'A':
		return fmt.Sprintf("AddOut(%s)", o.Msgs[0].desc())
	case 'I':
		var d []string
		for _, m := range o.Msgs {
			d = append(d, m.desc())
		}
		return "ProcessInbound(" + strings.Join(d, "; ") + ")"
	case 'Q':
		return fmt.Sprintf("GetInboundAnswer(%q)", o.Mid)
	case 'S':
		return fmt.Sprintf("SetSent(%q)", o.Mid)
	case 'D':
		return fmt.Sprintf("SetDeferred(%q)", o.Mid)
	case 'O':
		return fmt.Sprintf("GetOutbound(%v)", o.Fws)
	case 'L':
		return "List(" + string(o.F) + ")"
	case 'C':
		return "Count(" + string(o.F) + ")"
	case 'U':
		return fmt.Sprintf("SetUnread(%c,%q,%v)", o.F, o.Mid, o.B)
	case 'R':
		return fmt.Sprintf("IsUnread(%c,%q)", o.F, o.Mid)
	}
	return "?"
}

func (m mMsg) desc() string {
	s := fmt.Sprintf("mid=%q to=%v cc=%v payload=%d", m.Mid, m.To, m.Cc, m.payloadID())
	if m.P2P != nil {
		s += " X-P2POnly=" + *m.P2P
	}
	if m.Unread != nil {
		s += " X-Unread=" + *m.Unread
	}
	if m.FPath != nil {
		s += " X-FilePath=" + *m.FPath
	}
	return s
}

func histToks(ops []mOp) string {
	t := make([]string, len(ops))
	for i, o := range ops {
		t[i] = o.tok()
	}
	return strings.Join(t, " ")
}

func histDesc(ops []mOp) []string {
	t := make([]string, len(ops))
	for i, o := range ops {
		t[i] = o.String()
	}
	return t
}

// ---------- the real mailbox ----------

type realBox struct {
	nToggle int
	root string
	h    *mailbox.DirHandler
}

func newRealBox(root string, sendOnly bool) *realBox {
	return &realBox{root: root, h: mailbox.NewDirHandler(root, sendOnly)}
}

func (b *realBox) folder(f byte) ([]*fbb.Message, error) {
	switch f {
	case 'i':
		return b.h.Inbox()
	case 'o':
		return b.h.Outbox()
	case 's':
		return b.h.Sent()
	default:
		return b.h.Archive()
	}
}

func errTok(err error) string {
	if err != nil {
		return "err"
	}
	return "ok"
}

// wouldFatal predicts (from the directory alone) that SetSent would call log.Fatalf, which must never
// run in-process. The generators of C10 do not issue such calls; C12 runs them in a child process.
func (b *realBox) wouldFatal(mid string) bool {
	if mid == "" || strings.ContainsAny(mid, "/\\\x00") || mid[0] == '.' {
		return true
	}
	st, err := os.Stat(filepath.Join(b.root, "out", mid+".b2f"))
	if err != nil || st.IsDir() {
		return true
	}
	st, err = os.Stat(filepath.Join(b.root, "sent"))
	return err != nil || !st.IsDir()
}

// exec runs one operation on the real DirHandler and renders what the caller observes.
func (b *realBox) exec(o mOp) (res string) {
	defer func() {
		if r := recover(); r != nil {
			res = "panic"
		}
	}()
	switch o.K {
	case 'N':
		b.h = mailbox.NewDirHandler(b.root, o.B)
		return "ok"
	case 'P':
		return errTok(b.h.Prepare())
	case 'A':
		return errTok(b.h.AddOut(o.Msgs[0].build()))
	case 'I':
		ms := make([]*fbb.Message, len(o.Msgs))
		for i, m := range o.Msgs {
			ms[i] = m.build()
		}
		return errTok(b.h.ProcessInbound(ms...))
	case 'Q':
		p := fbb.NewProposal(o.Mid, "t", fbb.Wl2kProposal, []byte("x"))
		switch b.h.GetInboundAnswer(*p) {
		case fbb.Accept:
			return "acc"
		case fbb.Reject:
			return "rej"
		case fbb.Defer:
			return "def"
		}
		return "answer?"
	case 'S':
		if b.wouldFatal(o.Mid) {
			return "fatal"
		}
		b.h.SetSent(o.Mid, false)
		return "ok"
	case 'D':
		b.h.SetDeferred(o.Mid)
		return "ok"
	case 'O':
		fws := make([]fbb.Address, len(o.Fws))
		for i, a := range o.Fws {
			fws[i] = fbb.AddressFromString(a)
		}
		return "out" + realToks(b.h.GetOutbound(fws...))
	case 'L':
		ms, err := b.folder(o.F)
		if err != nil {
			return "err"
		}
		return realToks(ms)
	case 'C':
		n := 0
		switch o.F {
		case 'i':
			n = b.h.InboxCount()
		case 'o':
			n = b.h.OutboxCount()
		case 's':
			n = b.h.SentCount()
		default:
			n = b.h.ArchiveCount()
		}
		return "n" + strconv.Itoa(n)
	case 'U', 'R':
		ms, err := b.folder(o.F)
		if err != nil {
			return "err"
		}
		for _, m := range ms {
			if m.MID() == o.Mid {
				if o.K == 'R' {
					if mailbox.IsUnread(m) {
						return "t"
					}
					return "f"
				}
				// A mail client keeps the opened message and toggles its flag several times: every second
				// SetUnread is therefore issued as flag, !flag, flag on the SAME message value (same net effect;
				// any error on the way is the operation's error).
				b.nToggle++
				if b.nToggle%2 == 0 {
					if err := mailbox.SetUnread(m, o.B); err != nil {
						return errTok(err)
					}
					if err := mailbox.SetUnread(m, !o.B); err != nil {
						return "err-second-toggle-on-same-message"
					}
				}
				return errTok(mailbox.SetUnread(m, o.B))
			}
		}
		return "none"
	}
	return "?"
}

// ---------- the reference mailbox (independent Go statement of the property's model) ----------

type refMsg struct {
	m      mMsg // as handed in (identity: mid, receivers, payload)
	p2p    bool
	unread *string // the X-Unread flag as stored
}

type refBox struct {
	ready               bool
	inbox, outbox, sent map[string]*refMsg
	deferred            map[string]bool
	hasDeferred         bool // a session is in progress (Prepare has run on this handler)
	sendOnly            bool
}

func newRefBox(sendOnly bool) *refBox {
	return &refBox{inbox: map[string]*refMsg{}, outbox: map[string]*refMsg{}, sent: map[string]*refMsg{}, sendOnly: sendOnly}
}

func storableMID(mid string) bool {
	return mid != "" && mid[0] != '.' && !strings.ContainsAny(mid, "/\\\x00") && len(mid)+8 <= 255
}

func sortedMids(m map[string]*refMsg) []string {
	var k []string
	for mid := range m {
		k = append(k, mid+".b2f")
	}
	sort.Strings(k)
	for i := range k {
		k[i] = strings.TrimSuffix(k[i], ".b2f")
	}
	return k
}

// visible renders a stored message the way a listing must show it (X-FilePath is checked separately).
func (r *refMsg) listTok(path string) string {
	m := r.m
	m.FPath = sp(path)
	m.Unread = r.unread
	return m.tok()
}

func (r *refMsg) outTok() string {
	m := r.m
	m.FPath, m.Unread, m.P2P = nil, nil, nil
	return m.tok()
}

func (b *refBox) folder(f byte) map[string]*refMsg {
	switch f {
	case 'i':
		return b.inbox
	case 'o':
		return b.outbox
	case 's':
		return b.sent
	}
	return map[string]*refMsg{}
}

var folderDir = map[byte]string{'i': "in", 'o': "out", 's': "sent", 'a': "archive"}

// exec returns the result the property's reference model prescribes ("" = the model does not say:
// the operation is outside the property's language, e.g. SetSent of a message that is not in the outbox).
func (b *refBox) exec(root string, o mOp) string {
	switch o.K {
	case 'N':
		b.sendOnly, b.deferred, b.hasDeferred = o.B, nil, false
		return "ok"
	case 'P':
		b.ready, b.deferred, b.hasDeferred = true, map[string]bool{}, true
		return "ok"
	case 'A':
		m := o.Msgs[0]
		if !storableMID(m.Mid) || !b.ready {
			return "err"
		}
		b.outbox[m.Mid] = &refMsg{m: m, p2p: m.P2P != nil && *m.P2P == "true", unread: m.Unread}
		return "ok"
	case 'I':
		for _, m := range o.Msgs {
			if !storableMID(m.Mid) || !b.ready {
				return "err"
			}
			b.inbox[m.Mid] = &refMsg{m: m, p2p: m.P2P != nil && *m.P2P == "true", unread: sp("true")}
		}
		return "ok"
	case 'Q':
		if b.sendOnly {
			return "def"
		}
		if _, ok := b.inbox[o.Mid]; ok {
			return "rej"
		}
		if !storableMID(o.Mid) {
			return "acc-or-def" // not storable: never "already received"
		}
		return "acc"
	case 'S':
		m, ok := b.outbox[o.Mid]
		if !ok {
			return ""
		}
		delete(b.outbox, o.Mid)
		b.sent[o.Mid] = m
		return "ok"
	case 'D':
		if !b.hasDeferred {
			return "" // no session in progress: outside the property's language
		}
		b.deferred[o.Mid] = true
		return "ok"
	case 'O':
		var t []string
		for _, mid := range sortedMids(b.outbox) {
			m := b.outbox[mid]
			if b.deferred[mid] {
				continue
			}
			if len(o.Fws) == 0 {
				if m.p2p {
					continue
				}
			} else {
				rc := m.m.rcpts()
				ok := false
				for _, fw := range o.Fws {
					if len(rc) == 1 && strings.EqualFold(rc[0], fbb.AddressFromString(fw).String()) {
						ok = true
					}
				}
				if !ok {
					continue
				}
			}
			t = append(t, m.outTok())
		}
		return "out[" + strings.Join(t, "|") + "]"
	case 'L':
		if !b.ready {
			return "err"
		}
		var t []string
		fo := b.folder(o.F)
		for _, mid := range sortedMids(fo) {
			t = append(t, fo[mid].listTok(root+"/"+folderDir[o.F]+"/"+mid+".b2f"))
		}
		return "[" + strings.Join(t, "|") + "]"
	case 'C':
		if !b.ready {
			return "n-1"
		}
		return "n" + strconv.Itoa(len(b.folder(o.F)))
	case 'U', 'R':
		if !b.ready {
			return "err"
		}
		m, ok := b.folder(o.F)[o.Mid]
		if !ok {
			return "none"
		}
		if o.K == 'R' {
			if m.unread != nil && *m.unread == "true" {
				return "t"
			}
			return "f"
		}
		if o.B {
			m.unread = sp("true")
		} else if m.unread != nil && *m.unread != "" {
			m.unread = nil
		}
		return "ok"
	}
	return "?"
}

func mboxTemp(prefix string) string {
	d, err := os.MkdirTemp("/tmp", prefix)
	if err != nil {
		panic(err)
	}
	return d
}
