package main

import (
	"fmt"
	"regexp"
)

func init() {
	register("C01", "cases: two REAL fbb.Sessions (twin in-memory handlers recording every callback) over an in-memory reliable duplex stream with random read segmentation (1-byte, small, large, unsegmented per direction): 0..12 valid messages each way built through the public API (bodies 1 B..20 KB quick / 60 KB thorough, attachments incl. empty/CRLF/binary, non-ASCII and //WL2K precedence subjects, MIDs of 1..12 alphanumerics), per-MID accept/reject/defer policies, master/slave, MOTD, batched/unbatched handlers. The same scenario runs through the Lean pair model (`pair` op): wire bytes both ways, callbacks (SetSent runs sorted), statistics and error class are diffed. Oracle: the property statement on the recorded callbacks. Non-trivial: at least one message transferred; distinct by case line. GZIP_EXPERIMENT is exercised by the oracle only (not modelled).", func(c *Ctx) {
		var cases []Case
		n := c.Budget(70, 1500)
		for i := 0; i < n && c.TimeLeft(); i++ {
			maxMsgs := 4
			if i%5 == 0 {
				maxMsgs = 12
			}
			sa, sb := genScenario(c, maxMsgs, c.Budget(6000, 40000))
			if i == 1 {
				// directed: one message whose compressed size is an exact multiple of the data block size
				if o := exactMultipleMessage(c.Rng, sa.mycall, sb.mycall); o != nil && sb.policy[o.mid] == 0 {
					dup := false
					for _, x := range sa.outbox {
						dup = dup || x.mid == o.mid
					}
					if !dup {
						sa.outbox = append(sa.outbox, o)
						c.Res.Distribution["directed:compressed-size-multiple-of-block"]++
					}
				}
			}
			if i%6 == 4 {
				blockAlignedPolicies(c, sa, sb)
			}
			pr := runPairImpl(sa, sb, c.Rng.Int63(), -1, -1)
			rep := scenarioReplay(sa, sb, map[string]interface{}{"errA": fmt.Sprint(pr.a.err), "errB": fmt.Sprint(pr.b.err)})
			if pr.a.hung || pr.b.hung {
				c.Violate("C01:hang", "Exchange did not return within 30 s on a reliable stream", rep)
				continue
			}
			if pr.a.panicked != nil || pr.b.panicked != nil {
				c.Violate("C01:panic", fmt.Sprintf("Exchange panicked: %v %v", pr.a.panicked, pr.b.panicked), rep)
				continue
			}
			deliveryOracle(c, "C01", pr, true, rep)
			nmsgs := len(sa.outbox) + len(sb.outbox)
			class := "no-messages"
			switch {
			case nmsgs > 5:
				class = "multi-block"
			case nmsgs > 0:
				class = "single-block"
			}
			cases = append(cases, Case{Line: pairLine(sa, sb, -1, -1), Impl: pr.a.canon + " || " + pr.b.canon, Desc: describeScenario(sa, sb), Class: class, Nontrivial: len(pr.a.stats.Sent)+len(pr.b.stats.Sent) > 0})
		}
		c.Compare(cases)
	})
}

var fcLine = regexp.MustCompile(`F[CAB] [A-Z]{2} (\S+) \d+ \d+ \d+\r`)

// blockAlignedPolicies rewrites the scenario so that one direction carries 6..14 messages and the receiving handler's
// answers are drawn per five-proposal BLOCK (the order of the proposals is taken from a probe run in which everything
// is accepted): a whole block deferred, a whole block rejected, a block of deferrals and rejections only, or a mixed
// block; a block without any accepted proposal is followed by blocks that the receiver does accept.
func blockAlignedPolicies(c *Ctx, sa, sb *sessSpec) {
	r := c.Rng
	snd, rcv := sa, sb
	if r.Intn(2) == 0 {
		snd, rcv = sb, sa
	}
	seen := map[string]bool{}
	for _, o := range snd.outbox {
		seen[o.mid] = true
	}
	for want := 6 + r.Intn(9); len(snd.outbox) < want; {
		m := genMessage(r, snd.mycall, rcv.mycall, 1+r.Intn(400))
		if seen[m.MID()] {
			continue
		}
		seen[m.MID()] = true
		snd.outbox = append(snd.outbox, newOutMsg(m))
	}
	saved := rcv.policy
	rcv.policy = map[string]byte{}
	for m, a := range saved {
		if !seen[m] {
			rcv.policy[m] = a
		}
	}
	probe := runPairImpl(sa, sb, r.Int63(), -1, -1)
	wire := probe.a.wire
	if snd == sb {
		wire = probe.b.wire
	}
	var order []string
	proposed := map[string]bool{}
	for _, m := range fcLine.FindAllSubmatch(wire, -1) {
		// (a block of proposals that follows a transfer starts right behind the transfer's last byte)
		if mid := string(m[1]); seen[mid] && !proposed[mid] {
			proposed[mid] = true
			order = append(order, mid)
		}
	}
	if len(order) != len(snd.outbox) {
		c.Violate("C01:probe-proposals", fmt.Sprintf("the all-accepting probe run proposed %d of %d queued messages", len(order), len(snd.outbox)), scenarioReplay(sa, sb, nil))
		return
	}
	for b := 0; b*5 < len(order); b++ {
		kind := r.Intn(5)
		if b == 0 && r.Intn(2) == 0 {
			kind = r.Intn(3) // no accepted proposal in the first block
		}
		for k := b * 5; k < b*5+5 && k < len(order); k++ {
			switch kind {
			case 0:
				rcv.policy[order[k]] = '='
			case 1:
				rcv.policy[order[k]] = '-'
			case 2:
				rcv.policy[order[k]] = "=-"[r.Intn(2)]
			case 3:
				if a := "+=-"[r.Intn(3)]; a != '+' {
					rcv.policy[order[k]] = a
				}
			}
		}
	}
}
