package main

import "fmt"

func init() {
	register("C01", "cases: two REAL fbb.Sessions (twin in-memory handlers recording every callback) over an in-memory reliable duplex stream with random read segmentation (1-byte, small, large, unsegmented per direction): 0..12 valid messages each way built through the public API (bodies 1 B..20 KB quick / 60 KB thorough, attachments incl. empty/CRLF/binary, non-ASCII and //WL2K precedence subjects, MIDs of 1..12 alphanumerics), per-MID accept/reject/defer policies, master/slave, MOTD, batched/unbatched handlers. The same scenario runs through the Lean pair model (`pair` op): wire bytes both ways, callbacks (SetSent runs sorted), statistics and error class are diffed. Oracle: the property statement on the recorded callbacks. Non-trivial: at least one message transferred; distinct by case line. GZIP_EXPERIMENT is exercised by the oracle only (not modelled).", func(c *Ctx) {
		var cases []Case
		n := c.Budget(70, 1500)
		for i := 0; i < n && c.TimeLeft(); i++ {
			maxMsgs := 4
			if i%5 == 0 {
				maxMsgs = 12
			}
			sa, sb := genScenario(c, maxMsgs, c.Budget(6000, 40000))
			pr := runPairImpl(sa, sb, c.Rng.Int63(), -1, -1)
			rep := scenarioReplay(sa, sb, map[string]interface{}{"errA": fmt.Sprint(pr.a.err), "errB": fmt.Sprint(pr.b.err)})
			if pr.a.hung || pr.b.hung {
				c.Violate("C01:hang", "Exchange did not return within 30 s on a reliable stream", rep)
				continue
			}
			if pr.a.panicked != nil || pr.b.panicked != nil {
				c.Violate("C01:panic", fmt.Sprintf("Exchange panicked: %v %v", pr.a.panicked, pr.b.panicked), rep)
				continue
			}
			deliveryOracle(c, "C01", pr, true, rep)
			nmsgs := len(sa.outbox) + len(sb.outbox)
			class := "no-messages"
			switch {
			case nmsgs > 5:
				class = "multi-block"
			case nmsgs > 0:
				class = "single-block"
			}
			cases = append(cases, Case{Line: pairLine(sa, sb, -1, -1), Impl: pr.a.canon + " || " + pr.b.canon, Desc: describeScenario(sa, sb), Class: class, Nontrivial: len(pr.a.stats.Sent)+len(pr.b.stats.Sent) > 0})
		}
		c.Compare(cases)
	})
}
