package main

import (
	"bytes"
	"fmt"
	"strconv"
	"strings"
	"unicode/utf8"

	"github.com/la5nta/wl2k-go/fbb"
)

// latin1Of: independent conversion of a representable string to ISO-8859-1.
func latin1Of(s string) ([]byte, bool) {
	out := make([]byte, 0, len(s))
	for _, r := range s {
		if r > 0xff || r == utf8.RuneError {
			return nil, false
		}
		out = append(out, byte(r))
	}
	return out, true
}

func stripCRLF(b []byte) []byte {
	out := make([]byte, 0, len(b))
	for _, c := range b {
		if c != '\r' && c != '\n' {
			out = append(out, c)
		}
	}
	return out
}

func bodyOracle(c *Ctx, s string, body []byte, hdr string, bodySize int, class string) {
	want, ok := latin1Of(s)
	if !ok {
		return // not representable: outside the property's quantifier
	}
	rep := map[string]interface{}{"class": class, "input_len": len(s), "input_hex": trunc(hx([]byte(s)), 4000), "body_len": len(body)}
	if len(s) > 2000 {
		rep["input_recipe"] = describeText(s)
	}
	if len(body) > 0 && !bytes.HasSuffix(body, []byte("\r\n")) {
		c.Violate("C18:line-without-crlf", "stored body does not end in CRLF", rep)
	}
	for i, ln := range bytes.Split(body, []byte("\n")) {
		if i == bytes.Count(body, []byte("\n")) {
			if len(ln) != 0 {
				c.Violate("C18:line-without-crlf", "last line not terminated", rep)
			}
			break
		}
		if len(ln) == 0 || ln[len(ln)-1] != '\r' {
			c.Violate("C18:line-without-crlf", fmt.Sprintf("line %d ends in bare LF", i), rep)
		}
		if len(ln)+1 > 1000 {
			c.Violate("C18:line-too-long", fmt.Sprintf("line %d has %d bytes including CRLF", i, len(ln)+1), rep)
		}
	}
	if !bytes.Equal(stripCRLF(want), stripCRLF(body)) {
		a, b := stripCRLF(want), stripCRLF(body)
		i := 0
		for i < len(a) && i < len(b) && a[i] == b[i] {
			i++
		}
		c.Violate("C18:text-not-preserved", fmt.Sprintf("text differs after removing CR/LF: input %d bytes, stored %d bytes, first difference at %d", len(a), len(b), i), rep)
	}
	if hdr != strconv.Itoa(len(body)) || bodySize != len(body) {
		c.Violate("C18:body-header", fmt.Sprintf("Body header %q / BodySize %d, stored length %d", hdr, bodySize, len(body)), rep)
	}
}

func describeText(s string) string {
	lines := strings.Split(s, "\n")
	var b strings.Builder
	fmt.Fprintf(&b, "%d lines, byte lengths:", len(lines))
	for i, l := range lines {
		if i > 20 {
			b.WriteString(" ...")
			break
		}
		fmt.Fprintf(&b, " %d", len(l))
	}
	return b.String()
}

func genLine(c *Ctx, n int, multibyteAt int) string {
	var b strings.Builder
	for b.Len() < n {
		if multibyteAt >= 0 && b.Len() >= multibyteAt {
			b.WriteString([]string{"æ", "ø", "å", "ÿ", "\u0080", "é"}[c.Rng.Intn(6)])
			continue
		}
		switch c.Rng.Intn(40) {
		case 0:
			b.WriteString("é")
		case 1:
			b.WriteByte('\r') // lone CR inside a line
		case 2:
			b.WriteByte('\t')
		default:
			b.WriteByte(byte('a' + c.Rng.Intn(26)))
		}
	}
	return b.String()
}

func init() {
	register("C18", "cases: texts assembled from lines of length {0,1,2,996..1001,1994..1998,65535..65537, up to 200000} with LF/CRLF/mixed/no final newline, empty lines, lone CR, 2-byte characters at every offset 990..1000 of a line and inside long lines, plus a malformed stream (non-Latin-1 runes, invalid UTF-8) for correspondence only. Non-trivial: a line longer than 998 bytes, a multi-byte character within 4 bytes of a wrap position, or a line longer than 64 KiB; distinct by case line.", func(c *Ctx) {
		var cases []Case
		// earlier messages are kept and re-examined after later SetBody calls (a stored body must not alias
		// a buffer that the next call reuses)
		type kept struct {
			m     *fbb.Message
			body  []byte
			class string
		}
		var keep []kept
		nSet := 0
		add := func(s, class string, nontriv bool) {
			m := fbb.NewMessage(fbb.Private, "LA5NTA")
			var err error
			nSet++
			setter := "SetBody"
			switch {
			case nSet%4 != 0:
				err = m.SetBody(s)
			default:
				// the other public setter; the announced charset of the message stays the default one
				cs := []string{"UTF-8", "ISO-8859-1", "utf-8", "us-ascii", "windows-1252", ""}[(nSet/4)%6]
				setter = "SetBodyWithCharset(" + cs + ")"
				err = m.SetBodyWithCharset(cs, s)
			}
			body, berr := fbb.StringToBody(s, fbb.DefaultCharset)
			if err != nil || berr != nil {
				c.Violate("C18:error", fmt.Sprintf("%s/StringToBody returned an error: %v %v", setter, err, berr), map[string]interface{}{"input_hex": trunc(hx([]byte(s)), 4000)})
			}
			stored := append([]byte(nil), m.VerifBodyBytes()...)
			rep := map[string]interface{}{"class": class, "setter": setter, "input_len": len(s), "input_hex": trunc(hx([]byte(s)), 4000)}
			if _, representable := latin1Of(s); representable && err == nil {
				if !bytes.Equal(stored, body) {
					c.Violate("C18:stored-differs", fmt.Sprintf("the body %s stored (%d bytes) is not what StringToBody returns for the text (%d bytes)", setter, len(stored), len(body)), rep)
				}
				if got, gerr := m.Body(); gerr != nil || !bytes.Equal(stripCRLF([]byte(got)), stripCRLF([]byte(s))) {
					c.Violate("C18:text-not-preserved:read-back", fmt.Sprintf("Body() after %s does not give the text back (err %v)", setter, gerr), rep)
				}
			}
			for _, k := range keep {
				if !bytes.Equal(k.m.VerifBodyBytes(), k.body) {
					c.Violate("C18:stored-body-changed-later", fmt.Sprintf("the stored body of an EARLIER message (%s) changed when %s was called on another message", k.class, setter), rep)
				}
			}
			if len(stored) > 0 && len(stored) < 5000 {
				keep = append(keep, kept{m, stored, class})
				if len(keep) > 6 {
					keep = keep[1:]
				}
			}
			bodyOracle(c, s, body, m.Header.Get("Body"), m.BodySize(), class)
			cases = append(cases, Case{Line: "s2b " + hs(s), Impl: hx(body), Desc: fmt.Sprintf("StringToBody(%s; %s)", class, describeText(s)), Class: class, Nontrivial: nontriv})
		}
		eols := []string{"\n", "\r\n"}
		// small exhaustive-ish shapes
		for _, s := range []string{"", "\n", "\r\n", "\r", "a", "a\n", "a\r\n", "a\r", "\n\n", "a\n\nb", "a\r\r\n", "\r\n\r\n", "æ", "æ\n", "a\rb\n", "\n\r", "x\n\r"} {
			add(s, "tiny", false)
		}
		// line length boundaries with ASCII
		for _, n := range []int{1, 2, 996, 997, 998, 999, 1000, 1001, 1994, 1995, 1996, 1997, 1998, 2994, 65535, 65536, 65537, 70000} {
			for _, eol := range []string{"\n", "\r\n", ""} {
				add(strings.Repeat("x", n)+eol+"second"+eol, fmt.Sprintf("ascii-line-%d", bucket(n)), n > 998)
			}
		}
		add(strings.Repeat("y", c.Budget(200000, 700000))+"\ntail", "very-long-line", true)
		// multibyte at wrap positions: offsets 990..1000 and 1988..1998
		for _, base := range []int{0, 998} {
			for off := 990; off <= 1000; off++ {
				for k := 1; k <= 4; k++ {
					s := strings.Repeat("x", base+off) + strings.Repeat("æ", k) + "øå" + strings.Repeat("z", 30) + eols[c.Rng.Intn(2)]
					add(s, "multibyte-at-wrap", true)
				}
			}
		}
		// all-multibyte long lines
		for _, n := range []int{499, 500, 997, 998, 999, 1500, 40000} {
			add(strings.Repeat("ø", n)+"\n", "all-multibyte", n >= 499)
			add("a"+strings.Repeat("ø", n)+"\n", "all-multibyte", n >= 499)
		}
		// random documents
		nr := c.Budget(300, 4000)
		for i := 0; i < nr && c.TimeLeft(); i++ {
			var b strings.Builder
			nl := 1 + c.Rng.Intn(8)
			nontriv := false
			for j := 0; j < nl; j++ {
				n := 0
				switch c.Rng.Intn(8) {
				case 0:
					n = 0
				case 1:
					n = 990 + c.Rng.Intn(20)
				case 2:
					n = 1985 + c.Rng.Intn(30)
				case 3:
					n = c.Rng.Intn(5000)
				case 4:
					if c.Rng.Intn(10) == 0 {
						n = 65000 + c.Rng.Intn(2000)
					}
				default:
					n = c.Rng.Intn(120)
				}
				mb := -1
				if c.Rng.Intn(3) == 0 && n > 0 {
					mb = c.Rng.Intn(n)
				}
				if n > 998 {
					nontriv = true
				}
				b.WriteString(genLine(c, n, mb))
				if j < nl-1 || c.Rng.Intn(3) != 0 {
					b.WriteString(eols[c.Rng.Intn(2)])
				}
			}
			add(b.String(), "random-document", nontriv)
		}
		// malformed stream: correspondence only
		for i := 0; i < c.Budget(200, 2000); i++ {
			n := c.Rng.Intn(1200)
			bs := make([]byte, n)
			for j := range bs {
				switch c.Rng.Intn(6) {
				case 0:
					bs[j] = byte(0x80 + c.Rng.Intn(0x80))
				case 1:
					bs[j] = '\n'
				default:
					bs[j] = byte(c.Rng.Intn(128))
				}
			}
			s := string(bs)
			if c.Rng.Intn(2) == 0 {
				s = strings.Repeat("x", 995+c.Rng.Intn(6)) + []string{"€", "😀", "\xe2\x82", "\xff", "\xc3"}[c.Rng.Intn(5)] + s
			}
			body, _ := fbb.StringToBody(s, fbb.DefaultCharset)
			cases = append(cases, Case{Line: "s2b " + hs(s), Impl: hx(body), Desc: "malformed/non-representable text", Class: "malformed", Nontrivial: false})
		}
		c.Compare(cases)
	})
}

func bucket(n int) int {
	switch {
	case n <= 998:
		return 998
	case n <= 2000:
		return 2000
	case n <= 65536:
		return 65536
	}
	return 1 << 20
}
