package main

import (
	"bytes"
	"fmt"
	"strings"
)

// hintsFrom derives the external Message.ReadFrom verdicts for the model from what the real run showed:
// k ProcessInbound calls = k successful parses; if the exchange then failed, the next parse (if the
// model gets that far) is the failing one. (Record/replay of an external call, see DESIGN §5.3.)
func hintsFrom(r *sessRun) []bool {
	k := 0
	for _, cl := range r.tw.calls {
		if strings.HasPrefix(cl, "I") {
			k++
		}
	}
	h := make([]bool, k)
	if classOfErr(r.err) == "error" {
		h = append(h, true)
	}
	return h
}

var boundaryNumbers = []string{"-9223372036854775808", "-1", "0", "1", "5", "6", "2147483647", "2147483648", "999999", "1000000", "100000000000000000000", "+3", "-0", "0x10", "1e3", " 7", "٣"}

// mutate applies one random structural or byte-level mutation to a conforming transcript.
func mutate(c *Ctx, t []byte) ([]byte, string) {
	r := c.Rng
	b := append([]byte{}, t...)
	if len(b) == 0 {
		return b, "empty"
	}
	switch r.Intn(12) {
	case 0:
		return b[:r.Intn(len(b)+1)], "truncate"
	case 1:
		i := r.Intn(len(b))
		n := 1 + r.Intn(4)
		if i+n > len(b) {
			n = len(b) - i
		}
		return append(b[:i], b[i+n:]...), "delete"
	case 2:
		i := r.Intn(len(b) + 1)
		ins := make([]byte, 1+r.Intn(4))
		r.Read(ins)
		return append(b[:i], append(ins, b[i:]...)...), "insert"
	case 3:
		b[r.Intn(len(b))] = byte(r.Intn(256))
		return b, "substitute"
	case 4:
		b[r.Intn(len(b))] = []byte{0, 0x80, 0xff, '\r', '\n', '*', ';', 'F', '>', 1, 2, 4, ' '}[r.Intn(13)]
		return b, "substitute-special"
	case 5: // replace a decimal number by a boundary value
		var spans [][2]int
		for i := 0; i < len(b); i++ {
			if b[i] >= '0' && b[i] <= '9' {
				j := i
				for j < len(b) && b[j] >= '0' && b[j] <= '9' {
					j++
				}
				spans = append(spans, [2]int{i, j})
				i = j
			}
		}
		if len(spans) == 0 {
			return b, "none"
		}
		sp := spans[r.Intn(len(spans))]
		v := boundaryNumbers[r.Intn(len(boundaryNumbers))]
		return append(append(append([]byte{}, b[:sp[0]]...), v...), b[sp[1]:]...), "numeric-boundary"
	case 6: // duplicate a line
		lines := bytes.SplitAfter(b, []byte("\r"))
		i := r.Intn(len(lines))
		lines = append(lines[:i+1], append([][]byte{lines[i]}, lines[i+1:]...)...)
		return bytes.Join(lines, nil), "duplicate-line"
	case 7: // shorten a line to 0..5 bytes
		lines := bytes.SplitAfter(b, []byte("\r"))
		i := r.Intn(len(lines))
		n := r.Intn(6)
		if n < len(lines[i]) {
			lines[i] = append(append([]byte{}, lines[i][:n]...), '\r')
		}
		return bytes.Join(lines, nil), "short-line"
	case 8: // drop a line
		lines := bytes.SplitAfter(b, []byte("\r"))
		i := r.Intn(len(lines))
		lines = append(lines[:i], lines[i+1:]...)
		return bytes.Join(lines, nil), "drop-line"
	case 9: // splice in a named hostile line
		lines := bytes.SplitAfter(b, []byte("\r"))
		i := r.Intn(len(lines) + 1)
		hostile := []string{"F>\r", "F> \r", ";PQ\r", ";PQ:\r", "\x00\r", "\x00\x00\r", "a\x00\r", "FS A-5\r", "FS A0A0\r", "FS !999999\r", "FS A1000000\r", "FS +++++++\r", "FS\r", "FC\r", "FC \r", "FC EM\r", "FC EM X 1 2 3 4\r", "FC XX M 1 1 0\r", "FC EM ../../x 10 6 0\r", "FD EM GZ 10 30 0\r", "FA\r", "FB x\r", "FZ\r", "F\r", "*** Error\r", "*\r", "***\r", "[\r", "[]\r", "[-]\r", "[WL2K-1.0-B2]\r", "[WL2K-1.0-F$]\r", ";FW:\r", ";FW: \r", ";FW: a|b c:d e@winlink.org\r", ";PM: A B C\r", ";PM: a b 3 d e f\r", ">\r", "\xc2\xa0\r", "FF\r", "FQ\r"}
		h := []byte(hostile[r.Intn(len(hostile))])
		return bytes.Join(append(lines[:i], append([][]byte{h}, lines[i:]...)...), nil), "hostile-line"
	case 10: // corrupt inside a frame: find SOH
		if i := bytes.IndexByte(b, 1); i >= 0 && i+3 < len(b) {
			j := i + 1 + r.Intn(min(len(b)-i-1, 400))
			b[j] = byte(r.Intn(256))
			return b, "frame-byte"
		}
		return b, "none"
	default: // two mutations
		b1, _ := mutate(c, b)
		b2, _ := mutate(c, b1)
		return b2, "double"
	}
}

func init() {
	register("C03", "cases: one REAL fbb.Session (master or slave, with or without outbound messages pending) against a complete remote transcript, after which the link is lost: the named hostile shapes first (every shape listed in the property and in DESIGN 5.3), then mutations of conforming transcripts recorded from two-session runs (truncate, delete, insert, substitute, special bytes NUL/0x80/0xff/CR/SOH/STX/EOT, numeric boundary values incl. negative/huge sizes and offsets, duplicated/dropped/shortened lines, spliced hostile lines, corrupted frame bytes, double mutations), then raw random bytes. The same transcript runs through the Lean session model (`session` op): outcome class, wire bytes, callbacks and statistics are diffed. Oracle on the real code: Exchange returns (watchdog), does not panic, closes the connection. Non-trivial: the transcript gets past the handshake (>= 1 protocol line consumed after it) ; distinct by case line.", func(c *Ctx) {
		var cases []Case
		add := func(s *sessSpec, input []byte, class, desc string) {
			r := runSessionImpl(s, input)
			rep := map[string]interface{}{"role_master": s.master, "outbound_pending": len(s.outbox), "batched": s.batched, "transcript_hex": trunc(hx(input), 12000), "transcript_len": len(input), "mutation": class, "error": fmt.Sprint(r.err)}
			switch {
			case r.panicked != nil:
				c.Violate("C03:panic:"+class, fmt.Sprintf("Exchange panicked on remote input: %v", r.panicked), rep)
			case r.hung:
				c.Violate("C03:hang:"+class, "Exchange did not return within 20 s after the input ended", rep)
			case !r.closed:
				c.Violate("C03:not-closed:"+class, "Exchange returned without closing the connection", rep)
			}
			s2 := *s
			s2.hints = hintsFrom(r)
			nontriv := strings.Contains(r.canon, "calls=P O(") || strings.Contains(r.canon, " A(") || strings.Contains(r.canon, " B(")
			cases = append(cases, Case{Line: s2.line(input), Impl: r.canon, Desc: desc + fmt.Sprintf(" master=%v out=%d len=%d", s.master, len(s.outbox), len(input)), Class: class, Nontrivial: nontriv})
		}
		// 1. named shapes against a slave and a master
		hs := "[WL2K-5.0-B2FWIHJM$]\r"
		named := []string{"F>\r", ";PQ\r", "\x00\r", "\x00\x00\r", "x\x00\r", "FS A-5\r", "FC EM AAAA 10 6 0\rF> 00\r", "FC EM AAAA -1 -1 0\rF> 3A\r", "FF\r", "FQ\r", "*** bye\r", "FC\rF>\r", "FA\rFB\rF> \r", ";FW: \r", "[x]\r", "\r\r\r", "F\r", "FZ\r", strings.Repeat("A", 70000) + "\r", ";PM: a b c d e\r"}
		for _, n := range named {
			for _, master := range []bool{false, true} {
				s := newSpec("N0CALL", "LA1B", master)
				pre := hs + "CMS>\r"
				if master {
					pre = hs + "; LA1B DE N0CALL ()\r"
				}
				add(s, []byte(pre+n), "named-shape", fmt.Sprintf("named shape %q", trunc(n, 40)))
				add(s, []byte(n), "named-shape-in-handshake", fmt.Sprintf("named shape %q during the handshake", trunc(n, 40)))
				s2 := newSpec("N0CALL", "LA1B", master)
				s2.outbox = []*outMsg{newOutMsg(genMessage(c.Rng, "N0CALL", "LA1B", 200))}
				// answers to our proposal: hostile offsets and forms
				for _, ans := range []string{"FS A-5\r", "FS A999999\r", "FS !7\r", "FS A0A0\r", "FS +\rF>\r", "FS Y\r\x00\r", "FS 9\r", "FS\r", "FS ++\r"} {
					add(s2, []byte(pre+n+ans), "named-shape-with-outbound", fmt.Sprintf("named shape %q then %q", trunc(n, 20), ans))
				}
			}
		}
		// 2. mutations of conforming transcripts
		nsc := c.Budget(25, 300)
		per := c.Budget(40, 120)
		for i := 0; i < nsc && c.TimeLeft(); i++ {
			sa, sb := genScenario(c, 4, c.Budget(500, 5000))
			sa.ihash, sb.ihash = false, false
			if c.Rng.Intn(4) == 0 {
				sa.hasCb = true
				sa.main.Pw = "secret"
			}
			clean := runPairImpl(sa, sb, c.Rng.Int63(), -1, -1)
			for _, x := range []struct {
				s *sessSpec
				t []byte
			}{{sa, clean.b.wire}, {sb, clean.a.wire}} {
				add(x.s, x.t, "conforming", "recorded conforming transcript")
				for j := 0; j < per && c.TimeLeft(); j++ {
					m, kind := mutate(c, x.t)
					add(x.s, m, kind, "mutated transcript ("+kind+")")
				}
			}
		}
		// 3. raw random bytes
		for i := 0; i < c.Budget(300, 5000) && c.TimeLeft(); i++ {
			b := make([]byte, c.Rng.Intn(200))
			c.Rng.Read(b)
			if c.Rng.Intn(2) == 0 {
				b = append([]byte(hs+"CMS>\r"), b...)
			}
			s := newSpec("N0CALL", "LA1B", c.Rng.Intn(2) == 0)
			add(s, b, "random-bytes", "random bytes")
		}
		c.Compare(cases)
	})
}
