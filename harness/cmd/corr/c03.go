package main

import (
	"bytes"
	"fmt"
	"github.com/la5nta/wl2k-go/fbb"
	"io"
	"runtime"
	"strings"
	"time"
)

// hintsFrom derives the external Message.ReadFrom verdicts for the model from what the real run showed:
// k ProcessInbound calls = k successful parses; if the exchange then failed, the next parse (if the
// model gets that far) is the failing one. (Record/replay of an external call, see DESIGN §5.3.)
func hintsFrom(r *sessRun) []int {
	k := 0
	for _, cl := range r.tw.calls {
		if strings.HasPrefix(cl, "I") {
			k++
		}
	}
	h := make([]int, k)
	switch classOfErr(r.err) {
	case "error":
		h = append(h, 1)
	case "connlost":
		// Message.ReadFrom errors that wrap io.EOF / io.ErrUnexpectedEOF are reported as ErrConnLost
		h = append(h, 2)
	}
	return h
}

// failingWriter lets the first `left` bytes through; every later Write fails (the link is gone).
type failingWriter struct {
	*memConn
	left int
}

func (f *failingWriter) Write(p []byte) (int, error) {
	if f.left <= 0 {
		return 0, io.ErrClosedPipe
	}
	if len(p) > f.left {
		n, _ := f.memConn.Write(p[:f.left])
		f.left = 0
		return n, io.ErrClosedPipe
	}
	f.left -= len(p)
	return f.memConn.Write(p)
}

var boundaryNumbers = []string{"99999999999999999999E", "-99999999999999999999x", "18446744073709551616 ", "18446744073709551615x", "+18446744073709551616-", "-9223372036854775808", "-1", "0", "1", "5", "6", "2147483647", "2147483648", "999999", "1000000", "100000000000000000000", "+3", "-0", "0x10", "1e3", " 7", "٣"}

// mutate applies one random structural or byte-level mutation to a conforming transcript.
func mutate(c *Ctx, t []byte) ([]byte, string) {
	r := c.Rng
	b := append([]byte{}, t...)
	if len(b) == 0 {
		return b, "empty"
	}
	switch r.Intn(12) {
	case 0:
		return b[:r.Intn(len(b)+1)], "truncate"
	case 1:
		i := r.Intn(len(b))
		n := 1 + r.Intn(4)
		if i+n > len(b) {
			n = len(b) - i
		}
		return append(b[:i], b[i+n:]...), "delete"
	case 2:
		i := r.Intn(len(b) + 1)
		ins := make([]byte, 1+r.Intn(4))
		r.Read(ins)
		return append(b[:i], append(ins, b[i:]...)...), "insert"
	case 3:
		b[r.Intn(len(b))] = byte(r.Intn(256))
		return b, "substitute"
	case 4:
		b[r.Intn(len(b))] = []byte{0, 0x80, 0xff, '\r', '\n', '*', ';', 'F', '>', 1, 2, 4, ' '}[r.Intn(13)]
		return b, "substitute-special"
	case 5: // replace a decimal number by a boundary value
		var spans [][2]int
		for i := 0; i < len(b); i++ {
			if b[i] >= '0' && b[i] <= '9' {
				j := i
				for j < len(b) && b[j] >= '0' && b[j] <= '9' {
					j++
				}
				spans = append(spans, [2]int{i, j})
				i = j
			}
		}
		if len(spans) == 0 {
			return b, "none"
		}
		sp := spans[r.Intn(len(spans))]
		v := boundaryNumbers[r.Intn(len(boundaryNumbers))]
		return append(append(append([]byte{}, b[:sp[0]]...), v...), b[sp[1]:]...), "numeric-boundary"
	case 6: // duplicate a line
		lines := bytes.SplitAfter(b, []byte("\r"))
		i := r.Intn(len(lines))
		lines = append(lines[:i+1], append([][]byte{lines[i]}, lines[i+1:]...)...)
		return bytes.Join(lines, nil), "duplicate-line"
	case 7: // shorten a line to 0..5 bytes
		lines := bytes.SplitAfter(b, []byte("\r"))
		i := r.Intn(len(lines))
		n := r.Intn(6)
		if n < len(lines[i]) {
			lines[i] = append(append([]byte{}, lines[i][:n]...), '\r')
		}
		return bytes.Join(lines, nil), "short-line"
	case 8: // drop a line
		lines := bytes.SplitAfter(b, []byte("\r"))
		i := r.Intn(len(lines))
		lines = append(lines[:i], lines[i+1:]...)
		return bytes.Join(lines, nil), "drop-line"
	case 9: // splice in a named hostile line
		lines := bytes.SplitAfter(b, []byte("\r"))
		i := r.Intn(len(lines) + 1)
		hostile := []string{"F>\r", "F> \r", ";PQ\r", ";PQ:\r", "\x00\r", "\x00\x00\r", "a\x00\r", "FS A-5\r", "FS A0A0\r", "FS !999999\r", "FS A1000000\r", "FS +++++++\r", "FS\r", "FC\r", "FC \r", "FC EM\r", "FC EM X 1 2 3 4\r", "FC XX M 1 1 0\r", "FC EM ../../x 10 6 0\r", "FD EM GZ 10 30 0\r", "FA\r", "FB x\r", "FZ\r", "F\r", "*** Error\r", "*\r", "***\r", "[\r", "[]\r", "[-]\r", "[WL2K-1.0-B2]\r", "[WL2K-1.0-F$]\r", ";FW:\r", ";FW: \r", ";FW: a|b c:d e@winlink.org\r", ";PM: A B C\r", ";PM: a b 3 d e f\r", ">\r", "\xc2\xa0\r", "FF\r", "FQ\r"}
		h := []byte(hostile[r.Intn(len(hostile))])
		return bytes.Join(append(lines[:i], append([][]byte{h}, lines[i:]...)...), nil), "hostile-line"
	case 10: // corrupt inside a frame: find SOH
		if i := bytes.IndexByte(b, 1); i >= 0 && i+3 < len(b) {
			j := i + 1 + r.Intn(min(len(b)-i-1, 400))
			b[j] = byte(r.Intn(256))
			return b, "frame-byte"
		}
		return b, "none"
	default: // two mutations
		b1, _ := mutate(c, b)
		b2, _ := mutate(c, b1)
		return b2, "double"
	}
}

func init() {
	register("C03", "cases: one REAL fbb.Session (master or slave, with or without outbound messages pending) against a complete remote transcript, after which the link is lost: the named hostile shapes first (every shape listed in the property and in DESIGN 5.3), then mutations of conforming transcripts recorded from two-session runs (truncate, delete, insert, substitute, special bytes NUL/0x80/0xff/CR/SOH/STX/EOT, numeric boundary values incl. negative/huge sizes and offsets, duplicated/dropped/shortened lines, spliced hostile lines, corrupted frame bytes, double mutations), then raw random bytes. The same transcript runs through the Lean session model (`session` op): outcome class, wire bytes, callbacks and statistics are diffed. Oracle on the real code: Exchange returns (watchdog), does not panic, closes the connection. Non-trivial: the transcript gets past the handshake (>= 1 protocol line consumed after it) ; distinct by case line.", func(c *Ctx) {
		var cases []Case
		hangs := 0
		add := func(s *sessSpec, input []byte, class, desc string) {
			if hangs >= 3 {
				return // every hang costs a watchdog period; three are enough to report
			}
			var m0, m1 runtime.MemStats
			runtime.ReadMemStats(&m0)
			// goroutine stacks are memory too (a reader that recurses per input line): for long transcripts the
			// stack memory in use is sampled while the session runs
			var peakStack uint64
			stopSampler, samplerDone := make(chan struct{}), make(chan struct{})
			if len(input) > 200000 {
				go func() {
					defer close(samplerDone)
					var m runtime.MemStats
					for {
						select {
						case <-stopSampler:
							return
						case <-time.After(2 * time.Millisecond):
							runtime.ReadMemStats(&m)
							if m.StackInuse > peakStack {
								peakStack = m.StackInuse
							}
						}
					}
				}()
			} else {
				close(samplerDone)
			}
			r := runSessionImpl(s, input)
			close(stopSampler)
			<-samplerDone
			runtime.ReadMemStats(&m1)
			if r.hung {
				hangs++
			}
			if peakStack > m0.StackInuse && peakStack-m0.StackInuse > 16<<20+uint64(len(input))*8 {
				c.Violate("C03:stack-out-of-proportion:"+class, fmt.Sprintf("goroutine stacks grew by %d MB while the session handled a %d-byte transcript", (peakStack-m0.StackInuse)>>20, len(input)),
					map[string]interface{}{"role_master": s.master, "transcript_hex": trunc(hx(input), 12000), "transcript_len": len(input), "stack_growth_bytes": peakStack - m0.StackInuse})
			}
			if alloc := m1.TotalAlloc - m0.TotalAlloc; alloc > 48<<20+uint64(len(input))*2000 {
				c.Violate("C03:allocation-out-of-proportion:"+class, fmt.Sprintf("the session allocated %d MB while handling a %d-byte transcript", alloc>>20, len(input)),
					map[string]interface{}{"role_master": s.master, "transcript_hex": trunc(hx(input), 12000), "transcript_len": len(input), "allocated_bytes": alloc})
			}
			rep := map[string]interface{}{"role_master": s.master, "outbound_pending": len(s.outbox), "batched": s.batched, "transcript_hex": trunc(hx(input), 12000), "transcript_len": len(input), "mutation": class, "error": fmt.Sprint(r.err)}
			switch {
			case r.panicked != nil:
				c.Violate("C03:panic:"+class, fmt.Sprintf("Exchange panicked on remote input: %v", r.panicked), rep)
			case r.hung:
				c.Violate("C03:hang:"+class, "Exchange did not return within 8 s after the input ended", rep)
			case !r.closed:
				c.Violate("C03:not-closed:"+class, "Exchange returned without closing the connection", rep)
			}
			s2 := *s
			s2.hints = hintsFrom(r)
			nontriv := strings.Contains(r.canon, "calls=P O(") || strings.Contains(r.canon, " A(") || strings.Contains(r.canon, " B(")
			cases = append(cases, Case{Line: s2.line(input), Impl: r.canon, Desc: desc + fmt.Sprintf(" master=%v out=%d len=%d", s.master, len(s.outbox), len(input)), Class: class, Nontrivial: nontriv})
		}
		// 1. named shapes against a slave and a master
		hs := "[WL2K-5.0-B2FWIHJM$]\r"
		named := []string{"F>\r", ";PQ\r", "\x00\r", "\x00\x00\r", "x\x00\r", "FS A-5\r", "FC EM AAAA 10 6 0\rF> 00\r", "FC EM AAAA -1 -1 0\rF> 3A\r", "FF\r", "FQ\r", "*** bye\r", "FC\rF>\r", "FA\rFB\rF> \r", ";FW: \r", "[x]\r", "\r\r\r", "F\r", "FZ\r", strings.Repeat("A", 70000) + "\r", ";PM: a b c d e\r", strings.Repeat("\r", 400000), strings.Repeat("\x00\r", 200000)}
		for _, n := range named {
			for _, master := range []bool{false, true} {
				s := newSpec("N0CALL", "LA1B", master)
				pre := hs + "CMS>\r"
				if master {
					pre = hs + "; LA1B DE N0CALL ()\r"
				}
				add(s, []byte(pre+n), "named-shape", fmt.Sprintf("named shape %q", trunc(n, 40)))
				add(s, []byte(n), "named-shape-in-handshake", fmt.Sprintf("named shape %q during the handshake", trunc(n, 40)))
				s2 := newSpec("N0CALL", "LA1B", master)
				s2.outbox = []*outMsg{newOutMsg(genMessage(c.Rng, "N0CALL", "LA1B", 200))}
				// answers to our proposal: hostile offsets and forms
				answers := []string{"FS A-5\r", "FS A999999\r", "FS !7\r", "FS A0A0\r", "FS +\rF>\r", "FS Y\r\x00\r", "FS 9\r", "FS\r", "FS ++\r"}
				// resume offsets around the two sizes of OUR proposal (compressed and uncompressed)
				cs, us := len(fbbCompressed(s2.outbox[0])), len(s2.outbox[0].data)
				for _, o := range []int{cs - 1, cs, cs + 1, (cs + us) / 2, us - 1, us, us + 1, 6, 5} {
					answers = append(answers, fmt.Sprintf("FS A%d\r", o), fmt.Sprintf("FS !%d\rFF\r", o))
				}
				for _, ans := range answers {
					add(s2, []byte(pre+n+ans), "named-shape-with-outbound", fmt.Sprintf("named shape %q then %q", trunc(n, 20), ans))
				}
			}
		}
		// 2. mutations of conforming transcripts
		nsc := c.Budget(25, 300)
		per := c.Budget(40, 120)
		for i := 0; i < nsc && c.TimeLeft(); i++ {
			sa, sb := genScenario(c, 4, c.Budget(500, 5000))
			sa.ihash, sb.ihash = false, false
			if c.Rng.Intn(4) == 0 {
				sa.hasCb = true
				sa.main.Pw = "secret"
			}
			clean := runPairImpl(sa, sb, c.Rng.Int63(), -1, -1)
			for _, x := range []struct {
				s *sessSpec
				t []byte
			}{{sa, clean.b.wire}, {sb, clean.a.wire}} {
				add(x.s, x.t, "conforming", "recorded conforming transcript")
				for j := 0; j < per && c.TimeLeft(); j++ {
					m, kind := mutate(c, x.t)
					add(x.s, m, kind, "mutated transcript ("+kind+")")
				}
			}
		}
		// 4. crafted inbound transfers: conforming handshake, proposal block (correct F> checksum), SOH/STX/EOT
		// framing with correct lengths and checksum around HOSTILE payloads and sizes, accepted by the handler
		{
			mkB2 := func(size int, body []byte, goodCRC bool) []byte {
				p := append(le32b(size), body...)
				sum := crc16Xmodem(p)
				if !goodCRC {
					sum ^= 0x5a5a
				}
				return append([]byte{byte(sum), byte(sum >> 8)}, p...)
			}
			lz := func(plain []byte) []byte { _, comp := implLzw(true, plain, nil, false); return comp }
			validMsg := newOutMsg(genMessage(c.Rng, "LA1B", "N0CALL", 300)).data
			validLz := lz(validMsg)
			type pl struct {
				name  string
				data  []byte
				csize string // proposal field; "" = the real length
			}
			body := validLz[6:]
			payloads := []pl{
				{"valid", validLz, ""},
				{"valid-lz-of-garbage", lz([]byte("this is not a winlink message\r\n")), ""},
				{"size-minus-one-good-crc", mkB2(-1, nil, true), ""},
				{"size-minus-one-bad-crc", mkB2(-1, []byte{1, 2, 3}, false), ""},
				{"size-min-int32", mkB2(-1<<31, body, true), ""},
				{"size-huge-tiny-body", mkB2(1<<31-1, []byte{0x55}, true), ""},
				{"size-too-small(overrun)", mkB2(len(validMsg)/2, body, true), ""},
				{"size-too-large", mkB2(len(validMsg)+60, body, true), ""},
				{"truncated-body", mkB2(len(validMsg), body[:len(body)/2], true), ""},
				{"truncated-last-byte", mkB2(len(validMsg), body[:len(body)-1], true), ""},
				{"six-zero-bytes", make([]byte, 6), ""},
				{"five-bytes", []byte{1, 2, 3, 4, 5}, ""},
				{"empty-payload", nil, ""},
				{"body-size-negative", lz([]byte("Mid: AAAA\r\nBody: -1\r\nDate: 2020/01/01 10:00\r\n\r\nhi")), ""},
				{"body-size-huge", lz([]byte("Mid: AAAA\r\nBody: 99999999999\r\nDate: 2020/01/01 10:00\r\n\r\nhi")), ""},
				{"file-size-negative", lz([]byte("Mid: AAAA\r\nBody: 2\r\nFile: -5 x.txt\r\nDate: 2020/01/01 10:00\r\n\r\nhi\r\n")), ""},
				{"no-headers", lz([]byte("\r\n\r\n")), ""},
				{"file-header-without-name", lz([]byte("Mid: AAAA\r\nBody: 2\r\nFile: 3\r\nDate: 2020/01/01 10:00\r\n\r\nhi\r\nabc\r\n")), ""},
				{"file-header-empty", lz([]byte("Mid: AAAA\r\nBody: 2\r\nFile:\r\nDate: 2020/01/01 10:00\r\n\r\nhi\r\n")), ""},
				{"file-header-non-numeric", lz([]byte("Mid: AAAA\r\nBody: 2\r\nFile: x y\r\nFile: 1\r\nFile: 1 a\r\nDate: 2020/01/01 10:00\r\n\r\nhi\r\nq\r\n")), ""},
				{"file-name-encoded-word-empty", lz([]byte("Mid: AAAA\r\nBody: 2\r\nFile: 3 =?utf-8?q??=\r\nDate: 2020/01/01 10:00\r\n\r\nhi\r\nabc\r\n")), ""},
				{"file-name-encoded-word-blank", lz([]byte("Mid: AAAA\r\nBody: 2\r\nFile: 3 =?iso-8859-1?b??=\r\nFile: 1 =?utf-8?q?_?=\r\nDate: 2020/01/01 10:00\r\n\r\nhi\r\nabc\r\nq\r\n")), ""},
				{"file-name-unknown-charset", lz([]byte("Mid: AAAA\r\nBody: 2\r\nFile: 1 =?koi8-r?q?a?=\r\nDate: 2020/01/01 10:00\r\n\r\nhi\r\nq\r\n")), ""},
				{"file-name-encoded-word-garbage", lz([]byte("Mid: AAAA\r\nBody: 2\r\nFile: 1 =?utf-8?q?=ZZ?=\r\nDate: 2020/01/01 10:00\r\n\r\nhi\r\nq\r\n")), ""},
				{"date-missing", lz([]byte("Mid: AAAA\r\nBody: 2\r\n\r\nhi\r\n")), ""},
				{"headers-only-no-blank-line", lz([]byte("Mid: AAAA\r\nBody: 2")), ""},
				{"proposal-csize-negative", validLz, "-1"},
				{"proposal-csize-min-int", validLz, "-9223372036854775808"},
				{"proposal-csize-huge", validLz, "268435456"},
				{"proposal-csize-overflow", validLz, "99999999999999999999"},
				{"proposal-csize-off-by-one", validLz, fmt.Sprint(len(validLz) + 1)},
			}
			for i := 0; i < c.Budget(6, 60); i++ {
				b := make([]byte, 6+c.Rng.Intn(200))
				c.Rng.Read(b)
				payloads = append(payloads, pl{"random-payload", b, ""})
			}
			frame := func(data []byte, blk int) []byte {
				f := []byte{1, byte(len("t") + 1 + 2), 't', 0, '0', 0}
				sum := 0
				for o := 0; o < len(data); o += blk {
					e := o + blk
					if e > len(data) {
						e = len(data)
					}
					f = append(f, 2, byte(e-o)) // a full 256-byte block is announced as 0
					f = append(f, data[o:e]...)
				}
				for _, x := range data {
					sum += int(x)
				}
				return append(f, 4, byte(-sum))
			}
			// blocks in which a proposal the library answers ON ITS OWN (a repeated MID, an FA/FB proposal) comes before,
			// between or after ordinary FC proposals: the handler - also a batched one - is asked about the others only
			for _, master := range []bool{false, true} {
				for _, batched := range []bool{false, true} {
					for _, lines := range [][]string{
						{"FC EM DUPA 300 %d 0", "FC EM DUPA 300 %d 0", "FC EM OTHERB 300 %d 0"},
						{"FA P LA1B N0CALL LA5NTA FAMID1 300", "FC EM OTHERB 300 %d 0"},
						{"FB P LA1B N0CALL LA5NTA FBMID1 300", "FC EM X1 300 %d 0", "FC EM X1 300 %d 0", "FC EM X2 300 %d 0", "FC EM X1 300 %d 0"},
						{"FC EM ONLY1 300 %d 0", "FA P A B C FAMID2 10"},
						{"FC EM D1 300 %d 0", "FC EM D1 300 %d 0", "FC EM D1 300 %d 0", "FC EM D1 300 %d 0", "FC EM D1 300 %d 0"},
					} {
						var t []byte
						if master {
							t = append(t, "[WL2K-5.0-B2FWIHJM$]\r; N0CALL DE LA1B (JP20)\r"...)
						} else {
							t = append(t, "[WL2K-5.0-B2FWIHJM$]\rCMS via test >\r"...)
						}
						sum := 0
						nFC := map[string]bool{}
						for _, l := range lines {
							line := l
							if strings.Contains(l, "%d") {
								line = fmt.Sprintf(l, len(validLz))
								nFC[strings.Fields(line)[2]] = true
							}
							for _, x := range []byte(line) {
								sum += int(x)
							}
							sum += 13
							t = append(t, line+"\r"...)
						}
						t = append(t, fmt.Sprintf("F> %02X\r", byte(-sum))...)
						for range nFC {
							t = append(t, frame(validLz, 125)...)
						}
						t = append(t, "FF\r"...)
						sp := newSpec("N0CALL", "LA1B", master)
						sp.batched = batched
						add(sp, t, "crafted-block", fmt.Sprintf("crafted block %q", lines))
					}
				}
			}
			for _, master := range []bool{false, true} {
				for _, batched := range []bool{false, true} {
					for gi := 0; gi < len(payloads); gi += 1 + c.Rng.Intn(2) {
						// one or two payloads per block
						group := []pl{payloads[gi]}
						if c.Rng.Intn(3) == 0 {
							group = append(group, payloads[c.Rng.Intn(len(payloads))])
						}
						var t []byte
						if master {
							t = append(t, "[WL2K-5.0-B2FWIHJM$]\r; N0CALL DE LA1B (JP20)\r"...)
						} else {
							t = append(t, "[WL2K-5.0-B2FWIHJM$]\rCMS via test >\r"...)
						}
						sum := 0
						names := []string{}
						for k, g := range group {
							cs := g.csize
							if cs == "" {
								cs = fmt.Sprint(len(g.data))
							}
							line := fmt.Sprintf("FC EM CRAFT%02d%02d %d %s 0", gi%100, k, 300, cs)
							for _, x := range []byte(line) {
								sum += int(x)
							}
							sum += 13
							t = append(t, line+"\r"...)
							names = append(names, g.name)
						}
						t = append(t, fmt.Sprintf("F> %02X\r", byte(-sum))...)
						for _, g := range group {
							blk := []int{1, 7, 125, 255, 256}[c.Rng.Intn(5)]
							t = append(t, frame(g.data, blk)...)
						}
						t = append(t, "FF\r"...)
						sp := newSpec("N0CALL", "LA1B", master)
						sp.batched = batched
						add(sp, t, "crafted-payload", "crafted inbound transfer "+strings.Join(names, "+"))
					}
				}
			}
		}
		// 3. raw random bytes
		for i := 0; i < c.Budget(300, 5000) && c.TimeLeft(); i++ {
			b := make([]byte, c.Rng.Intn(200))
			c.Rng.Read(b)
			if c.Rng.Intn(2) == 0 {
				b = append([]byte(hs+"CMS>\r"), b...)
			}
			s := newSpec("N0CALL", "LA1B", c.Rng.Intn(2) == 0)
			add(s, b, "random-bytes", "random bytes")
		}
		// 5. nothing of a session is left running after Exchange has returned: the link fails while an accepted
		// outbound message is being written, with a status updater installed (reporter goroutines, tickers)
		for i := 0; i < c.Budget(3, 20) && c.TimeLeft(); i++ {
			sp := newSpec("N0CALL", "LA1B", false)
			m := genMessage(c.Rng, "N0CALL", "LA1B", 200)
			blob := make([]byte, 3000+c.Rng.Intn(6000))
			c.Rng.Read(blob)
			m.AddFile(fbb.NewFile("blob.bin", blob))
			sp.outbox = []*outMsg{newOutMsg(m)}
			tw := newTwin(sp)
			sess := sp.newSession(tw)
			rec := &statusRec{}
			sess.SetStatusUpdater(rec)
			a, b := newMemPipe(nil, nil)
			b.Write([]byte("[WL2K-5.0-B2FWIHJM$]\rCMS via test >\rFS +\r"))
			failAfter := 400 + c.Rng.Intn(2500)
			fw := &failingWriter{memConn: a, left: failAfter}
			done := make(chan error, 1)
			go func() { _, err := sess.Exchange(fw); done <- err }()
			var xerr error
			select {
			case xerr = <-done:
			case <-time.After(10 * time.Second):
				a.Kill()
				c.Violate("C03:hang:link-failure-during-send", "Exchange did not return within 10 s after writes to the link started to fail", map[string]interface{}{"fail_after_bytes": failAfter})
				continue
			}
			reportsAtReturn := len(rec.snapshot())
			time.Sleep(700 * time.Millisecond)
			var leaked []string
			buf := make([]byte, 1<<20)
			for _, g := range strings.Split(string(buf[:runtime.Stack(buf, true)]), "\n\n") {
				if strings.Contains(g, "wl2k-go/fbb.(*Session)") {
					leaked = append(leaked, strings.SplitN(g, "\n", 3)[1])
				}
			}
			later := len(rec.snapshot()) - reportsAtReturn
			rep := map[string]interface{}{"fail_after_bytes": failAfter, "exchange_error": fmt.Sprint(xerr), "goroutines_of_the_session": leaked, "status_reports_after_return": later}
			if len(leaked) > 0 || later > 1 {
				c.Violate("C03:left-running-after-return", fmt.Sprintf("700 ms after Exchange returned (%v) %d goroutine(s) of the session were still alive and the status updater had been called %d more time(s): every failed transfer leaves a ticking reporter behind", xerr, len(leaked), later), rep)
			}
			b.Close()
			c.Res.Distribution["link-failure-during-send(oracle only)"]++
		}
		c.Compare(cases)
		grammarOracle(c, "C03", cases)
	})
}
