package main

import (
	"bytes"
	"fmt"
	"strings"
)

func init() {
	register("C07", "cases: the C06 input families, both directions: library Writer -> independent canonical decoder (harness/cmd/corr/canon.go, a transcription of LZHUF.C) and canonical encoder -> library Reader, with/without the CRC header; the canonical B2 header is recomputed with a bitwise CRC-16/XMODEM; the five golden testdata/*.lzh files. The Lean transcription (Lzhuf.Canon) is compared with the Go transcription on every case (canonenc/canondec). Non-trivial: inputs >= 61 bytes; distinct by case line.", func(c *Ctx) {
		// the Reader is fed through fragmenting sources as well (see lzSource)
		lzFragmentSources = true
		defer func() { lzFragmentSources = false }()
		var cases []Case
		ins := lzInputs(c, c.Budget(20000, 150000), c.Budget(120, 700))
		files := testdataFiles()
		for name, b := range files {
			if strings.HasSuffix(name, ".lzh") {
				continue
			}
			golden, ok := files[name+".lzh"]
			if !ok {
				continue
			}
			// golden files: library output == golden; canonical decoder reads golden
			_, comp := implLzw(true, b, nil, false)
			rep := map[string]interface{}{"file": name}
			if !bytes.Equal(comp, golden) {
				c.Violate("C07:golden-mismatch:"+name, "library output differs from the golden .lzh file", rep)
			}
			out, _ := canonDecode(golden[6:], len(b), len(b)+100)
			if !bytes.Equal(out, b) {
				c.Note("independent canonical decoder does not reproduce golden file %s (harness defect)", name)
				c.Violate("C07:canon-vs-golden:"+name, "the independent canonical decoder does not decode the golden file", rep)
			}
			if !c.Thorough() && len(b) > 60000 {
				b = b[:60000]
			}
			ins = append(ins, lzInput{"testdata:" + name, b})
		}
		// the full profile (Huffman codes of 17 and 18 bits) in BOTH tiers and in front of the long inputs: codes longer
		// than 16 bits - where the encoder's 16-bit chunking and the canonical 16-bit accumulator part ways - exist on
		// no smaller input
		ins = append([]lzInput{{"fib-profile-full", fibProfile(1.0)}}, ins...)
		{
			// binary data long enough for the adaptive tree to be REBUILT (about 32.4k coded symbols) with every byte
			// value on both sides of the rebuild: the leaf pointers of all 256 literals are used after it
			b := make([]byte, 40000)
			c.Rng.Read(b)
			// ... in two variants: before the rebuild one of the two lowest byte values (the first leaves of the table)
			// is frequent and the other absent, afterwards both occur
			b2 := append([]byte{}, b...)
			for k := 0; k < 34000; k++ {
				if b[k] == 1 {
					b[k] = 0
				}
				if b2[k] == 0 {
					b2[k] = 1
				}
			}
			b, b2 = append(b, 1, 1, 0, 1, 255, 254, 1), append(b2, 0, 0, 1, 0, 255, 254, 0)
			ins = append([]lzInput{{"random-binary-rebuild", b}, {"random-binary-rebuild", b2}}, ins...)
		}
		if !c.Thorough() {
			ins = append(ins, lzInput{"fib-profile", fibProfile(0.3)})
		}
		for idx, in := range ins {
			if !c.TimeLeft() {
				c.Note("time budget reached after %d of %d inputs", idx, len(ins))
				break
			}
			crc := c.Rng.Intn(4) != 0
			rep := map[string]interface{}{"class": in.class, "crc": crc, "input_len": len(in.data), "input_hex": trunc(hx(in.data), 6000)}
			nontriv := len(in.data) >= 61
			// library -> reference
			_, comp := implLzw(crc, in.data, randCuts(c, len(in.data)), false)
			if comp == nil {
				c.Violate("C07:writer-failed:"+in.class, "Writer failed", rep)
				continue
			}
			hdr := 0
			if crc {
				hdr = 2
				sum := crc16Xmodem(comp[2:])
				if comp[0] != byte(sum) || comp[1] != byte(sum>>8) {
					c.Violate("C07:header-crc:"+in.class, fmt.Sprintf("header CRC %02x%02x is not the little-endian CRC-16/XMODEM %04x of size+data", comp[1], comp[0], sum), rep)
				}
			}
			if !bytes.Equal(comp[hdr:hdr+4], le32b(len(in.data))) {
				c.Violate("C07:header-size:"+in.class, "size field is not the little-endian 32-bit input length", rep)
			}
			ref, _ := canonDecode(comp[hdr+4:], len(in.data), len(in.data)+100)
			if !bytes.Equal(ref, in.data) {
				c.Violate("C07:ref-cannot-decode:"+in.class, "the independent canonical decoder does not reproduce the input from the library's stream", rep)
			}
			cases = append(cases, Case{Line: fmt.Sprintf("canondec %s %s", b01(crc), hx(comp)), Impl: hx(ref), Desc: fmt.Sprintf("canonical decode of library stream, %s (%d bytes)", in.class, len(in.data)), Class: "lib->ref:" + classOf(in.class), Nontrivial: nontriv})
			// reference -> library
			cstream, maxLen := canonCompress(crc, in.data)
			cases = append(cases, Case{Line: fmt.Sprintf("canonenc %s %s", b01(crc), hx(in.data)), Impl: fmt.Sprintf("%s %d", hx(cstream), maxLen), Desc: fmt.Sprintf("canonical encode, %s (%d bytes)", in.class, len(in.data)), Class: "ref-encode:" + classOf(in.class), Nontrivial: nontriv})
			if maxLen > 16 {
				c.Res.Distribution["ref-code-longer-than-16-bits(skipped: canonical encoder limit)"]++
				continue
			}
			sizes := randSizes(c)
			if len(in.data) > 50000 && sizes[0] < 3 {
				sizes = []int{113}
			}
			outR, data, cerr, stuck, pan := implLzr(crc, cstream, sizes)
			switch {
			case pan || stuck:
				c.Violate("C07:lib-fails-on-ref:"+in.class, "Reader panicked or stalled on a canonical stream", rep)
			case !bytes.Equal(data, in.data):
				c.Violate("C07:lib-cannot-decode-ref:"+in.class, "library does not reproduce the input from the canonical encoder's stream", rep)
			case cerr != nil:
				c.Violate("C07:lib-close-on-ref:"+in.class, "Close() = "+cerr.Error()+" on a canonical stream", rep)
			}
			cases = append(cases, Case{Line: fmt.Sprintf("lzr %s %s %s", b01(crc), hx(cstream), natList(sizes)), Impl: outR, Desc: fmt.Sprintf("library reads canonical stream, %s", in.class), Class: "ref->lib:" + classOf(in.class), Nontrivial: nontriv})
			if !bytes.Equal(cstream, comp) {
				c.Res.Distribution["encoders-differ(allowed)"]++
			}
		}
		c.Compare(cases)
	})
}
