package main

import (
	"bytes"
	"fmt"
	"math/rand"
	"sort"
	"strings"
	"time"

	"github.com/la5nta/wl2k-go/fbb"
)

type pairRun struct {
	a, b   *sessRun
	sa, sb *sessSpec
	// what actually travelled A->B and B->A (after in-transit edits)
	wireAB, wireBA []byte
	stalled        bool // both ends blocked waiting for bytes (only possible when bytes were lost in transit)
}

func runOne(s *sessSpec, conn *memConn, r *sessRun, done chan struct{}) {
	defer close(done)
	defer func() {
		if p := recover(); p != nil {
			r.panicked = p
		}
	}()
	sess := s.newSession(r.tw)
	r.stats, r.err = sess.Exchange(conn)
}

func canonOf(r *sessRun) string {
	calls := sortSetSentRuns(append([]string{}, r.tw.calls...))
	switch {
	case r.hung:
		return "hang calls=" + strings.Join(calls, " ")
	case r.panicked != nil:
		return "panic calls=" + strings.Join(calls, " ")
	}
	wire := r.wire
	echo := "0"
	if classOfErr(r.err) == "error" {
		msg := fmt.Sprintf("*** %s\r\n", r.err)
		if strings.HasSuffix(string(wire), msg) {
			wire = wire[:len(wire)-len(msg)]
			echo = "1"
		}
	}
	var sent, recv []string
	for _, m := range r.stats.Sent {
		sent = append(sent, hs(m))
	}
	for _, m := range r.stats.Received {
		recv = append(recv, hs(m))
	}
	sort.Strings(sent) // Go appends them while ranging over a map
	return fmt.Sprintf("err=%s echo=%s sent=%s recv=%s wire=%s calls=%s", classOfErr(r.err), echo, strings.Join(sent, ","), strings.Join(recv, ","), hx(wire), strings.Join(calls, " "))
}

// runPairImpl runs two real Sessions against each other over the in-memory duplex stream.
// limA/limB < 0: no fault; otherwise the stream TOWARDS that side is cut after that many bytes.
func runPairImpl(sa, sb *sessSpec, segSeed int64, limA, limB int) *pairRun {
	return runPairOpts(sa, sb, segSeed, limA, limB, nil, nil)
}

// runPairOpts additionally alters the bytes in transit: editsAB on what A writes, editsBA on what B writes.
func runPairOpts(sa, sb *sessSpec, segSeed int64, limA, limB int, editsAB, editsBA map[int]edit) *pairRun {
	rngA, rngB := rand.New(rand.NewSource(segSeed)), rand.New(rand.NewSource(segSeed+1))
	mk := func(r *rand.Rand) func() int {
		mode := r.Intn(4)
		return func() int {
			switch mode {
			case 0:
				return 1
			case 1:
				return 1 + r.Intn(7)
			case 2:
				return 1 + r.Intn(300)
			}
			return 0 // whatever is available
		}
	}
	ca, cb := newMemPipe(mk(rngA), mk(rngB))
	ca.DetectDeadlock()
	if limA >= 0 {
		ca.CutAfter(limA)
	}
	if limB >= 0 {
		cb.CutAfter(limB)
	}
	if editsAB != nil {
		ca.SetEdits(editsAB)
	}
	if editsBA != nil {
		cb.SetEdits(editsBA)
	}
	pr := &pairRun{a: &sessRun{tw: newTwin(sa)}, b: &sessRun{tw: newTwin(sb)}, sa: sa, sb: sb}
	da, db := make(chan struct{}), make(chan struct{})
	start := time.Now()
	go runOne(sa, ca, pr.a, da)
	go runOne(sb, cb, pr.b, db)
	timeout := time.After(30 * time.Second)
	for _, d := range []chan struct{}{da, db} {
		select {
		case <-d:
		case <-timeout:
			pr.a.hung, pr.b.hung = true, true
			ca.Kill()
			<-da
			<-db
		}
	}
	pr.a.elapsed, pr.b.elapsed = time.Since(start), time.Since(start)
	pr.a.wire, pr.b.wire = ca.Sent(), cb.Sent()
	pr.a.closed, pr.b.closed = ca.ClosedByUser(), cb.ClosedByUser()
	pr.wireAB, pr.wireBA = ca.Altered(), cb.Altered()
	pr.stalled = ca.Deadlocked()
	if pr.stalled && editsAB == nil && editsBA == nil {
		// nothing was altered: a stall on a reliable stream is a hang of the protocol engine
		pr.a.hung, pr.b.hung = true, true
	}
	pr.a.canon, pr.b.canon = canonOf(pr.a), canonOf(pr.b)
	return pr
}

func (s *sessSpec) fields() string {
	l := s.line(nil)
	return strings.TrimPrefix(l, "session ")
}

func pairLine(sa, sb *sessSpec, limA, limB int) string {
	f := func(l int) string {
		if l < 0 {
			return "-"
		}
		return fmt.Sprint(l)
	}
	return "pair " + sa.fields() + " " + sb.fields() + " " + f(limA) + " " + f(limB)
}

const midAlphabet = "ABCDEFGHIJKLMNOPQRSTUVWXYZ0123456789"

// swapCase flips the case of every ASCII letter.
func swapCase(s string) string {
	b := []byte(s)
	for i, c := range b {
		switch {
		case c >= 'a' && c <= 'z':
			b[i] = c - 32
		case c >= 'A' && c <= 'Z':
			b[i] = c + 32
		}
	}
	return string(b)
}

func genMid(r *rand.Rand) string {
	n := 1 + r.Intn(12)
	if r.Intn(3) != 0 {
		n = 12
	}
	b := make([]byte, n)
	for i := range b {
		b[i] = midAlphabet[r.Intn(len(midAlphabet))]
	}
	return string(b)
}

// genMessage builds a valid message through the public API (deterministic for a given rng state).
func genMessage(r *rand.Rand, from, to string, maxBody int) *fbb.Message {
	m := fbb.NewMessage(fbb.Private, from)
	m.Header.Set("Mid", genMid(r))
	m.SetDate(time.Date(2015+r.Intn(10), time.Month(1+r.Intn(12)), 1+r.Intn(28), r.Intn(24), r.Intn(60), 0, 0, time.UTC))
	m.AddTo(to)
	if r.Intn(4) == 0 {
		m.AddCc([]string{"LA1B", "foo@example.com", "N0CALL@winlink.org"}[r.Intn(3)])
	}
	subjects := []string{"Hello", "Test message", "//WL2K Z/ flash traffic", "//WL2K O/ immediate", "//WL2K P/ priority", "Blåbærsyltetøy på brødskiva", "Re: =?x", "a", strings.Repeat("long subject ", 8), "Fuel at 50% of capacity", "100%d %s%v %!x %%", "%", "//WL2K Z/ Brann på øya", "//WL2K P/ æ", "//WL2K O/ 50% blåbær"}
	subj := subjects[r.Intn(len(subjects))]
	if r.Intn(8) == 0 {
		// the longest non-ASCII subjects Message.Validate admits (the Subject header may have 128 bytes)
		for _, n := range []int{36, 30, 20} {
			m.SetSubject(strings.Repeat([]string{"æ", "ø", "é"}[r.Intn(3)], n-r.Intn(3)))
			if len(m.Header.Get("Subject")) <= 128 {
				break // (the other conditions of Validate are met by the rest of this function)
			}
		}
		subj = ""
	}
	if subj != "" {
		m.SetSubject(subj)
	}
	var body strings.Builder
	n := 1 + r.Intn(maxBody)
	switch r.Intn(3) {
	case 0:
		for body.Len() < n {
			body.WriteString([]string{"The quick brown fox. ", "73 de LA5NTA\r\n", "æøå ", "Lorem ipsum dolor sit amet, ", "\n"}[r.Intn(5)])
		}
	case 1:
		for body.Len() < n {
			body.WriteByte(byte('a' + r.Intn(26)))
			if r.Intn(60) == 0 {
				body.WriteByte('\n')
			}
		}
	default:
		body.WriteString(strings.Repeat("x", n))
	}
	m.SetBody(body.String())
	for k := r.Intn(3); k > 0 && r.Intn(2) == 0; k-- {
		var data []byte
		switch r.Intn(4) {
		case 0: // empty attachment
		case 1:
			data = []byte("\r\n")
		default:
			data = make([]byte, r.Intn(1+maxBody))
			r.Read(data)
		}
		m.AddFile(fbb.NewFile([]string{"a.bin", "my file.txt", "bløt.jpg"}[r.Intn(3)], data))
	}
	return m
}

// deliveryOracle evaluates property C01/C02's statement on the recorded callbacks of a pair run.
// clean = no fault was injected (both Exchange calls must then return nil and everything decided must be done).
func deliveryOracle(c *Ctx, prop string, pr *pairRun, clean bool, rep map[string]interface{}) {
	for _, dir := range []struct {
		name     string
		snd, rcv *sessRun
		sspec    *sessSpec
		rspec    *sessSpec
	}{{"A->B", pr.a, pr.b, pr.sa, pr.sb}, {"B->A", pr.b, pr.a, pr.sb, pr.sa}} {
		queued := map[string][]byte{}
		for _, o := range dir.sspec.outbox {
			queued[o.mid] = o.data
		}
		// everything handed to the receiving handler is byte-identical to a queued message
		got := map[string]int{}
		for _, data := range dir.rcv.tw.inbox {
			found := ""
			for mid, q := range queued {
				if bytes.Equal(q, data) {
					found = mid
				}
			}
			if found == "" {
				c.Violate(prop+":received-not-queued:"+dir.name, "a message handed to the receiving handler is not byte-identical to any queued message", rep)
			} else {
				got[found]++
				if got[found] > 1 {
					c.Violate(prop+":delivered-twice:"+dir.name, "message "+found+" was handed to the receiving handler twice", rep)
				}
			}
		}
		// reported sent (not rejected) only if completely received by the peer's handler
		nsent := map[string]int{}
		for _, mid := range dir.snd.tw.sentLog {
			nsent[mid]++
		}
		for mid, rejected := range dir.snd.tw.sent {
			if nsent[mid] > 1 {
				c.Violate(prop+":reported-twice:"+dir.name, "message "+mid+" was reported sent twice", rep)
			}
			if !rejected && got[mid] == 0 {
				c.Violate(prop+":sent-but-not-received:"+dir.name, "message "+mid+" was reported to the sending handler as sent, but the peer's handler never completely received it", rep)
			}
			if rejected && dir.rspec.policy[mid] != '-' {
				c.Violate(prop+":rejected-without-reject:"+dir.name, "message "+mid+" reported already-received although the receiver did not reject it", rep)
			}
		}
		if !clean {
			continue
		}
		if dir.snd.err != nil || dir.rcv.err != nil {
			c.Violate(prop+":exchange-error", fmt.Sprintf("Exchange returned %v / %v on a reliable stream", pr.a.err, pr.b.err), rep)
			return
		}
		var wantSent []string
		for _, o := range dir.sspec.outbox {
			ans, ok := dir.rspec.policy[o.mid]
			if !ok {
				ans = '+'
			}
			switch ans {
			case '+':
				if got[o.mid] != 1 {
					c.Violate(prop+":accepted-not-delivered:"+dir.name, fmt.Sprintf("accepted message %s was delivered %d times", o.mid, got[o.mid]), rep)
				}
				if rej, ok := dir.snd.tw.sent[o.mid]; !ok || rej {
					c.Violate(prop+":accepted-not-reported-sent:"+dir.name, "accepted message "+o.mid+" was not reported sent", rep)
				}
				wantSent = append(wantSent, o.mid)
			case '-':
				if rej, ok := dir.snd.tw.sent[o.mid]; !ok || !rej {
					c.Violate(prop+":rejected-not-reported:"+dir.name, "rejected message "+o.mid+" was not reported as already received", rep)
				}
				if got[o.mid] != 0 {
					c.Violate(prop+":rejected-but-transferred:"+dir.name, "rejected message "+o.mid+" was transferred", rep)
				}
			case '=':
				if !dir.snd.tw.deferred[o.mid] {
					c.Violate(prop+":deferred-not-reported:"+dir.name, "deferred message "+o.mid+" was not reported deferred", rep)
				}
				if _, ok := dir.snd.tw.sent[o.mid]; ok || got[o.mid] != 0 {
					c.Violate(prop+":deferred-but-sent:"+dir.name, "deferred message "+o.mid+" was sent or reported sent", rep)
				}
			}
		}
		if !sameSet(dir.snd.stats.Sent, wantSent) || !sameSet(dir.rcv.stats.Received, wantSent) {
			c.Violate(prop+":traffic-stats:"+dir.name, fmt.Sprintf("traffic statistics Sent=%v Received=%v, transferred=%v", dir.snd.stats.Sent, dir.rcv.stats.Received, wantSent), rep)
		}
	}
}

func sameSet(a, b []string) bool {
	if len(a) != len(b) {
		return false
	}
	m := map[string]int{}
	for _, x := range a {
		m[x]++
	}
	for _, x := range b {
		m[x]--
	}
	for _, v := range m {
		if v != 0 {
			return false
		}
	}
	return true
}

// genScenario draws a two-station scenario.
func genScenario(c *Ctx, maxMsgs, maxBody int) (*sessSpec, *sessSpec) {
	r := c.Rng
	sa, sb := newSpec("LA5NTA", "N0CALL", false), newSpec("N0CALL", "LA5NTA", true)
	if r.Intn(2) == 0 {
		sa.master, sb.master = true, false
	}
	if r.Intn(3) == 0 {
		m := sb
		if sa.master {
			m = sa
		}
		m.motd = []string{"Welcome to the test node", "*** MTD Stats Total connects = 2580"}[:1+r.Intn(2)]
		if r.Intn(3) == 0 {
			// brackets and a dash INSIDE a line do not make it a SID line
			m.motd = append(m.motd, "Sysop on duty [Mon-Fri] 0900-1700 UTC")
		}
	}
	sa.batched, sb.batched = r.Intn(3) == 0, r.Intn(3) == 0
	sa.ihash, sb.ihash = true, true
	for _, side := range []struct{ s, peer *sessSpec }{{sa, sb}, {sb, sa}} {
		n := r.Intn(maxMsgs + 1)
		if r.Intn(4) == 0 {
			n = 0
		}
		seen := map[string]bool{}
		for i := 0; i < n; i++ {
			m := genMessage(r, side.s.mycall, side.peer.mycall, maxBody)
			if len(side.s.outbox) > 0 && r.Intn(5) == 0 {
				// a MID that differs from the previous message's only in the case of its letters (MIDs are exact
				// strings: these are two different messages)
				prev := side.s.outbox[len(side.s.outbox)-1].mid
				if tw := swapCase(prev); tw != prev {
					m.Header.Set("Mid", tw)
				}
			}
			if r.Intn(15) == 0 {
				// a MID with non-ASCII letters (Validate admits it): the block checksum of the proposal lines is summed
				// the same way on both sides of this library, whatever that way is
				tail := genMid(r)
				if len(tail) > 4 {
					tail = tail[:1+r.Intn(4)]
				}
				m.Header.Set("Mid", []string{"ÆØÅ", "é", "Жук"}[r.Intn(3)]+tail)
			}
			if seen[m.MID()] {
				continue
			}
			seen[m.MID()] = true
			side.s.outbox = append(side.s.outbox, newOutMsg(m))
			switch r.Intn(6) {
			case 0:
				side.peer.policy[m.MID()] = '-'
			case 1:
				side.peer.policy[m.MID()] = '='
			}
		}
	}
	return sa, sb
}

func describeScenario(sa, sb *sessSpec) string {
	d := func(s *sessSpec) string {
		var parts []string
		for _, o := range s.outbox {
			parts = append(parts, fmt.Sprintf("%s(%dB)", o.mid, len(o.data)))
		}
		return fmt.Sprintf("%s master=%v batched=%v out=[%s] policy=%v", s.mycall, s.master, s.batched, strings.Join(parts, " "), polStr(s.policy))
	}
	return d(sa) + " <-> " + d(sb)
}

func polStr(p map[string]byte) string {
	var xs []string
	for m, a := range p {
		xs = append(xs, fmt.Sprintf("%s:%c", m, a))
	}
	return strings.Join(xs, ",")
}

func scenarioReplay(sa, sb *sessSpec, extra map[string]interface{}) map[string]interface{} {
	rep := map[string]interface{}{"scenario": describeScenario(sa, sb), "driver_line": trunc(pairLine(sa, sb, -1, -1), 20000)}
	for k, v := range extra {
		rep[k] = v
	}
	return rep
}

// exactMultipleMessage searches for a valid message whose compressed size is an exact multiple of the data block
// size (the boundary of the chunk loop in writeCompressed: the last block is full, nothing is left over).
func exactMultipleMessage(r *rand.Rand, from, to string) *outMsg {
	for tries := 0; tries < 6000; tries++ {
		o := newOutMsg(genMessage(r, from, to, 40+r.Intn(400)))
		if n := len(fbbCompressed(o)); n%fbb.MaxMsgLength == 0 {
			return o
		}
	}
	return nil
}
