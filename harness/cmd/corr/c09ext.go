package main

import (
	"encoding/base64"
	"fmt"
	"mime"
	"strings"

	"github.com/la5nta/wl2k-go/fbb"
)

// The header-text codec of fbb (encodeHeaderText behind SetSubject / AddFile, WordDecoder.DecodeHeader behind
// Subject() / File.Name()) against its Lean transcription Msg/HeaderText.lean - the instance `goExt` for which
// Props/C09_ext.lean proves the laws the C09 theorems used to assume (decode (encode s) = s for every Latin-1 text).
func init() {
	registerExtra("C09", "function level: fbb's header-text codec - encodeHeaderText (observed through SetSubject + Header.Get) on texts drawn from ASCII, blanks/TAB at the edges, '_' '=' '?' '=?' '?=' '%', every kind of Latin-1 character, characters outside Latin-1, NUL/CR/LF, invalid UTF-8, lengths 0..60 and 300; WordDecoder.DecodeHeader on the encoder's outputs, on structured encoded-words (charsets utf-8 / iso-8859-1 / us-ascii in several spellings incl. Unicode case folds, unknown and empty charsets; q and b encodings with valid and invalid escapes and paddings; several words separated by blanks, CRLF, text; unterminated words) and on raw bytes; mime.QEncoding.Encode for UTF-8 (word splitting) and ISO-8859-1. Each result is compared with the Lean functions hdrenc / hdrdec / qenc; oracle: Subject() after SetSubject gives a Latin-1 text back.", func(c *Ctx) {
		r := c.Rng
		var cases []Case
		pieces := []string{"a", "Z", "0", " ", "\t", "_", "=", "?", "=?", "?=", "%", "å", "ø", "é", "ÿ", "\u0080", " ", "­", "€", "メ", "\x00", "\r", "\n", "\xff", "\xc3", "~", "\x7f", "Re: ", "//WL2K P/ "}
		text := func(n int) string {
			var b strings.Builder
			for k := 0; k < n; k++ {
				b.WriteString(pieces[r.Intn(len(pieces))])
			}
			return b.String()
		}
		enc := func(s string) string {
			m := fbb.NewMessage(fbb.Private, "N0CALL")
			m.SetSubject(s)
			return m.Header.Get("Subject")
		}
		dec := func(s string) string {
			t, err := new(fbb.WordDecoder).DecodeHeader(s)
			e := "nil"
			if err != nil {
				e = "err"
			}
			return hs(t) + " " + e
		}
		latin1 := func(s string) bool {
			for _, x := range s {
				if x > 0xff || x == 0xfffd {
					return false
				}
			}
			return true
		}
		var encoded []string
		for i := 0; i < c.Budget(1500, 30000); i++ {
			n := r.Intn(12)
			switch r.Intn(10) {
			case 0:
				n = 60
			case 1:
				n = 300
			}
			s := text(n)
			if r.Intn(6) == 0 {
				s = strings.Repeat([]string{"å", "x", "=?", "é "}[r.Intn(4)], 1+r.Intn(120))
			}
			e := enc(s)
			encoded = append(encoded, e)
			cases = append(cases, Case{Line: "hdrenc " + hs(s), Impl: hs(e), Desc: fmt.Sprintf("encodeHeaderText(%q)", trunc(s, 60)), Class: "fn-encodeHeaderText", Nontrivial: e != s})
			if latin1(s) {
				m := fbb.NewMessage(fbb.Private, "N0CALL")
				m.SetSubject(s)
				if got := m.Subject(); got != s {
					c.Violate("C09:subject-accessor:header-text", fmt.Sprintf("Subject() = %q after SetSubject(%q)", trunc(got, 80), trunc(s, 80)), map[string]interface{}{"subject_hex": hx([]byte(s)), "stored_header_hex": hx([]byte(e))})
				}
			}
		}
		charsets := []string{"utf-8", "UTF-8", "Utf-8", "iso-8859-1", "ISO-8859-1", "us-ascii", "US-ASCII", "koi8-r", "", "iſo-8859-1", "uſ-aſcii", "utf-8 ", "windows-1252"}
		encs := []string{"q", "Q", "b", "B", "x", "", "qq"}
		qtexts := []string{"a", "_", "=41", "=C3=A5", "=E5", "=ZZ", "=4", "=", "?", " ", "abc_def", "=e5", "=0D=0A", "\xe5", "å", "=?", ""}
		word := func() string {
			cs, en := charsets[r.Intn(len(charsets))], encs[r.Intn(len(encs))]
			if r.Intn(3) != 0 {
				cs, en = charsets[r.Intn(6)], encs[r.Intn(4)]
			}
			var t string
			if strings.EqualFold(en, "b") {
				raw := text(r.Intn(6))
				t = base64.StdEncoding.EncodeToString([]byte(raw))
				switch r.Intn(6) {
				case 0:
					t = strings.TrimRight(t, "=")
				case 1:
					t += "="
				case 2:
					t = t + "\r\n"
				case 3:
					if len(t) > 2 {
						t = t[:2] + "\n" + t[2:]
					}
				case 4:
					t += "!"
				}
			} else {
				for k := r.Intn(5); k >= 0; k-- {
					t += qtexts[r.Intn(len(qtexts))]
				}
			}
			return "=?" + cs + "?" + en + "?" + t + "?="
		}
		seps := []string{" ", "", "\t", "\r\n ", "  ", " x ", "x", "\n", " =? "}
		var headers []string
		headers = append(headers, encoded...)
		for i := 0; i < c.Budget(3000, 60000); i++ {
			h := word()
			for k := r.Intn(3); k > 0; k-- {
				h += seps[r.Intn(len(seps))] + word()
			}
			switch r.Intn(8) {
			case 0:
				h = text(r.Intn(4)) + h
			case 1:
				h += text(r.Intn(4))
			case 2:
				h = h[:len(h)-1-r.Intn(min(len(h)-1, 4))] // unterminated
			case 3:
				h = text(r.Intn(10)) // raw, perhaps with "=?"
			}
			headers = append(headers, h)
		}
		for _, h := range headers {
			cases = append(cases, Case{Line: "hdrdec " + hs(h), Impl: dec(h), Desc: fmt.Sprintf("WordDecoder.DecodeHeader(%q)", trunc(h, 60)), Class: "fn-DecodeHeader", Nontrivial: strings.Contains(h, "=?")})
		}
		for i := 0; i < c.Budget(800, 10000); i++ {
			cs := []string{"UTF-8", "utf-8", "ISO-8859-1", "us-ascii"}[r.Intn(4)]
			s := text(r.Intn(40))
			if r.Intn(3) == 0 {
				s = strings.Repeat([]string{"å", "メ", "x ", "𝄞"}[r.Intn(4)], 10+r.Intn(60))
			}
			cases = append(cases, Case{Line: "qenc " + hs(cs) + " " + hs(s), Impl: hs(mime.QEncoding.Encode(cs, s)), Desc: fmt.Sprintf("mime.QEncoding.Encode(%s, %q)", cs, trunc(s, 40)), Class: "fn-QEncoding.Encode", Nontrivial: len(s) > 20})
		}
		c.Compare(cases)
	})
}
