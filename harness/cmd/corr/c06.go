package main

import (
	"bytes"
	"fmt"
)

func lzRoundtripOracle(c *Ctx, prop string, crc bool, in lzInput, cuts []int, sizes []int, compressed []byte, recipe string) {
	rep := map[string]interface{}{"class": in.class, "crc": crc, "input_len": len(in.data), "input_hex": trunc(hx(in.data), 6000), "write_cuts": cuts, "read_sizes": sizes, "recipe": recipe}
	_, data, cerr, stuck, pan := implLzr(crc, compressed, sizes)
	switch {
	case pan:
		c.Violate(prop+":reader-panic:"+in.class, "Reader panicked on the compressor's own output", rep)
	case stuck:
		c.Violate(prop+":reader-stuck:"+in.class, "Reader made no progress on the compressor's own output", rep)
	case !bytes.Equal(data, in.data):
		c.Violate(prop+":roundtrip-differs:"+in.class, fmt.Sprintf("decompressed bytes differ from the input (%d vs %d bytes)", len(data), len(in.data)), rep)
	case cerr != nil:
		c.Violate(prop+":close-error:"+in.class, "Close() = "+cerr.Error()+" on the compressor's own output", rep)
	}
}

func init() {
	register("C06", "cases: byte strings through the real Writer (a chosen partition into Write calls) and the real Reader (a chosen buffer-size sequence): exhaustive strings over {a,b,' '} up to length 5 (7 thorough), empty, prefill boundaries 58..62, runs, periodic texts (periods 1..3, 59..61, 1987..2049), leading-space, random small/large alphabets, text, window-wrap repeats, run-length, mini Fibonacci-profile (exact-length-match phases), the five testdata files, and the full Fibonacci-profile input in the thorough tier. Compared with the Lean model: compressed bytes, FNV digest of the COMPLETE compressor state after every Write, reader (n,err) sequence, bytes, Close, reader state digest. Oracle: Read(Write(x)) = x, Close = nil, bytes independent of the write partition. Non-trivial: inputs of >= 61 bytes (prefill completes) or a multi-call partition; distinct by case line.", func(c *Ctx) {
		// the Reader is fed through fragmenting sources as well (see lzSource)
		lzFragmentSources = true
		defer func() { lzFragmentSources = false }()
		var cases []Case
		var ins []lzInput
		// exhaustive short strings
		maxL := c.Budget(5, 7)
		alpha := []byte{'a', 'b', ' '}
		var gen func(prefix []byte, l int)
		gen = func(prefix []byte, l int) {
			ins = append(ins, lzInput{"exhaustive-short", append([]byte{}, prefix...)})
			if l == maxL {
				return
			}
			for _, a := range alpha {
				gen(append(prefix, a), l+1)
			}
		}
		gen(nil, 0)
		// chunk independence on the real code for every short string over {a,b,' '} up to length 7 (oracle only):
		// one Write per byte vs a single Write
		{
			var all [][]byte
			var g2 func(prefix []byte, l int)
			g2 = func(prefix []byte, l int) {
				all = append(all, append([]byte{}, prefix...))
				if l == 7 {
					return
				}
				for _, a := range alpha {
					g2(append(prefix, a), l+1)
				}
			}
			g2(nil, 0)
			ones := []int{1, 1, 1, 1, 1, 1, 1, 1}
			for _, in := range all {
				_, single := implLzw(false, in, nil, false)
				_, split := implLzw(false, in, ones, false)
				if !bytes.Equal(single, split) {
					c.Violate("C06:chunk-dependent:exhaustive-short", "compressed bytes depend on how the writes were split", map[string]interface{}{"input_hex": hx(in), "write_cuts": ones})
					break
				}
			}
			c.Res.Distribution["chunk-independence-oracle:exhaustive<=7"] = len(all)
		}
		ins = append(ins, lzInputs(c, c.Budget(20000, 200000), c.Budget(170, 900))...)
		for name, b := range testdataFiles() {
			if bytes.HasSuffix([]byte(name), []byte(".lzh")) {
				continue
			}
			if !c.Thorough() && len(b) > 120000 {
				b = b[:120000]
			}
			ins = append(ins, lzInput{"testdata:" + name, b})
		}
		// the full profile (Huffman codes of 17 and 18 bits just before the first rebuild of the tree) comes FIRST
		// after the short inputs in both tiers: codes longer than 16 bits exist on no smaller input
		ins = append([]lzInput{{"fib-profile-full", fibProfile(1.0)}}, ins...)
		{
			// binary data long enough for the adaptive tree to be REBUILT (about 32.4k coded symbols) with every byte
			// value on both sides of the rebuild: the leaf pointers of all 256 literals are used after it
			b := make([]byte, 40000)
			c.Rng.Read(b)
			// ... in two variants: before the rebuild one of the two lowest byte values (the first leaves of the table)
			// is frequent and the other absent, afterwards both occur
			b2 := append([]byte{}, b...)
			for k := 0; k < 34000; k++ {
				if b[k] == 1 {
					b[k] = 0
				}
				if b2[k] == 0 {
					b2[k] = 1
				}
			}
			b, b2 = append(b, 1, 1, 0, 1, 255, 254, 1), append(b2, 0, 0, 1, 0, 255, 254, 0)
			ins = append([]lzInput{{"random-binary-rebuild", b}, {"random-binary-rebuild", b2}}, ins...)
		}
		if !c.Thorough() {
			ins = append(ins, lzInput{"fib-profile-half", fibProfile(0.35)})
		}
		for idx, in := range ins {
			if !c.TimeLeft() {
				c.Note("time budget reached after %d of %d inputs", idx, len(ins))
				break
			}
			crc := c.Rng.Intn(3) != 0
			cuts := randCuts(c, len(in.data))
			if in.class == "exhaustive-short" {
				cuts = nil
				if len(in.data) > 1 && idx%3 == 0 {
					cuts = []int{1, 1, 1, 1, 1, 1, 1}
				}
			}
			dig := len(cuts) <= 12 && len(in.data) <= 30000
			outW, compressed := implLzw(crc, in.data, cuts, dig)
			d01 := "0"
			if dig {
				d01 = "1"
			}
			nontriv := len(in.data) >= 61 || len(cuts) > 0
			cases = append(cases, Case{Line: fmt.Sprintf("lzw %s %s %s %s", b01(crc), hx(in.data), natList(cuts), d01), Impl: outW,
				Desc: fmt.Sprintf("compress %s (%d bytes) cuts=%v crc=%v", in.class, len(in.data), trunc(fmt.Sprint(cuts), 60), crc), Class: "write:" + classOf(in.class), Nontrivial: nontriv})
			if compressed == nil {
				c.Violate("C06:writer-failed:"+in.class, "Writer failed: "+trunc(outW, 200), map[string]interface{}{"class": in.class, "input_hex": trunc(hx(in.data), 6000)})
				continue
			}
			// chunk independence on the real code
			if len(cuts) > 0 {
				_, single := implLzw(crc, in.data, nil, false)
				if !bytes.Equal(single, compressed) {
					c.Violate("C06:chunk-dependent:"+in.class, "compressed bytes depend on how the writes were split", map[string]interface{}{"class": in.class, "input_hex": trunc(hx(in.data), 6000), "write_cuts": cuts})
				}
			}
			sizes := randSizes(c)
			if len(in.data) > 50000 && len(sizes) == 1 && sizes[0] < 3 {
				sizes = []int{97}
			}
			lzRoundtripOracle(c, "C06", crc, in, cuts, sizes, compressed, "")
			outR, _, _, _, _ := implLzr(crc, compressed, sizes)
			cases = append(cases, Case{Line: fmt.Sprintf("lzr %s %s %s", b01(crc), hx(compressed), natList(sizes)), Impl: outR,
				Desc: fmt.Sprintf("decompress %s (%d -> %d bytes) sizes=%v", in.class, len(compressed), len(in.data), sizes), Class: "read:" + classOf(in.class), Nontrivial: nontriv})
		}
		c.Compare(cases)
	})
}

func classOf(s string) string {
	if i := bytes.IndexByte([]byte(s), ':'); i >= 0 {
		return s[:i]
	}
	return s
}
