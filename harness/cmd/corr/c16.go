package main

import (
	"bytes"
	"crypto/md5"
	"errors"
	"fmt"
	"io"
	"log"
	"os"
	"strings"
	"sync"
	"time"

	"github.com/la5nta/wl2k-go/fbb"
)

// The published paclink-unix / Winlink secure-login salt (independent copy: the oracle must not read it from /repo).
var publishedSalt = []byte{77, 197, 101, 206, 190, 249, 93, 200, 51, 243, 93, 237, 71, 94, 239, 138, 68, 108, 70, 185,
	225, 137, 217, 16, 51, 122, 193, 48, 194, 195, 198, 175, 172, 169, 70, 84, 61, 62, 104, 186,
	114, 52, 61, 168, 66, 129, 192, 208, 187, 249, 232, 193, 41, 113, 41, 45, 240, 16, 29, 228,
	208, 228, 61, 20}

// specResponse is the Winlink algorithm as the property states it.
func specResponse(challenge, password string) string {
	sum := md5.Sum(append([]byte(challenge+password), publishedSalt...))
	v := uint32(sum[0]) | uint32(sum[1])<<8 | uint32(sum[2])<<16 | uint32(sum[3])<<24
	v &= 0x3fffffff
	return fmt.Sprintf("%08d", v%100000000)
}

func randBytesNoCR(c *Ctx, n int, alpha string) string {
	b := make([]byte, n)
	for i := range b {
		switch alpha {
		case "digits":
			b[i] = byte('0' + c.Rng.Intn(10))
		case "alnum":
			const s = "ABCDEFGHIJKLMNOPQRSTUVWXYZabcdefghijklmnopqrstuvwxyz0123456789"
			b[i] = s[c.Rng.Intn(len(s))]
		default:
			for {
				b[i] = byte(c.Rng.Intn(256))
				if b[i] != '\r' {
					break
				}
			}
		}
	}
	return string(b)
}

type hskAux struct {
	Addr, Pw string
	Err      bool
}

// hskOrder selects where the scripted master puts its ;PQ line (0: SID, ;PQ, prompt - the usual order).
var hskOrder = 0

// runHandshake runs a real slave Session against a scripted master that issues the challenge.
// Returns the bytes the session wrote before its first turn ("FF\r"), or ok=false when the handshake failed.
func runHandshake(mycall, target, loc string, ua fbb.UserAgent, gzip, hasCb bool, challenge string, main hskAux, aux []hskAux) (wire []byte, ok bool, all []byte) {
	if gzip {
		os.Setenv("GZIP_EXPERIMENT", "1")
	} else {
		os.Unsetenv("GZIP_EXPERIMENT")
	}
	defer os.Unsetenv("GZIP_EXPERIMENT")
	a, b := newMemPipe(nil, nil)
	s := fbb.NewSession(mycall, target, loc, nil)
	s.SetLogger(log.New(io.Discard, "", 0))
	s.SetUserAgent(ua)
	for _, x := range aux {
		s.AddAuxiliaryAddress(fbb.Address{Addr: x.Addr})
	}
	if hasCb {
		s.SetSecureLoginHandleFunc(func(addr fbb.Address) (string, error) {
			if addr.Addr == strings.ToUpper(mycall) && addr.Proto == "" {
				if main.Err {
					return main.Pw, errors.New("cb error")
				}
				return main.Pw, nil
			}
			for _, x := range aux {
				if x.Addr == addr.Addr {
					if x.Err {
						return x.Pw, errors.New("cb error")
					}
					return x.Pw, nil
				}
			}
			return "", errors.New("unknown")
		})
	}
	script := "[WL2K-5.0-B2FWIHJM$]\r"
	if challenge != "" {
		script += ";PQ: " + challenge + "\r"
	}
	switch {
	case challenge != "" && hskOrder == 1:
		// the handshake is a set of lines closed by the prompt: the challenge may come before the SID,
		script = ";PQ: " + challenge + "\r[WL2K-5.0-B2FWIHJM$]\r"
	case challenge != "" && hskOrder == 2:
		// between comment / forwarder lines,
		script = "[WL2K-5.0-B2FWIHJM$]\r;FW: CMS\r;PQ: " + challenge + "\r; hello\r"
	case challenge != "" && hskOrder == 3:
		// or be followed by a second SID line (a relay's and the CMS's)
		script = "[RMS Relay-3.0.27.1-B2FHM$]\r;PQ: " + challenge + "\r[WL2K-5.0-B2FWIHJM$]\r"
	}
	script += "CMS via test >\r"
	b.Write([]byte(script))
	done := make(chan error, 1)
	go func() { _, err := s.Exchange(a); done <- err }()
	// Wait for the session's first turn or failure.
	deadline := time.Now().Add(5 * time.Second)
	for time.Now().Before(deadline) {
		out := a.Sent()
		if bytes.HasSuffix(out, []byte("FF\r")) || bytes.Contains(out, []byte("***")) {
			break
		}
		select {
		case err := <-done:
			done <- err
			deadline = time.Now()
		default:
			time.Sleep(200 * time.Microsecond)
		}
	}
	b.Write([]byte("FQ\r"))
	select {
	case <-done:
	case <-time.After(5 * time.Second):
		a.Kill()
		<-done
	}
	out := a.Sent()
	if bytes.HasPrefix(out, []byte(";FW:")) && bytes.HasSuffix(out, []byte("FF\r")) {
		return out[:len(out)-3], true, out
	}
	return nil, false, out
}

func init() {
	register("C16", "cases: (challenge,password) pairs (digits/alnum/arbitrary non-CR bytes, lengths 0..40) through secureLoginResponse, and slave handshakes against a scripted challenging master with 0..3 auxiliary addresses (password known/unknown/callback error), callback present/absent, gzip SID on/off. Non-trivial: response pairs whose value has a leading zero or whose 30-bit value needs 9-10 digits, and handshakes with a challenge; distinct by case line.", func(c *Ctx) {
		var cases []Case
		// 1. md5 cross-check (the Lean MD5 stands in for crypto/md5)
		for i := 0; i < c.Budget(300, 3000); i++ {
			n := c.Rng.Intn(200)
			if i < 130 {
				n = i
			}
			m := []byte(randBytesNoCR(c, n, "any"))
			sum := md5.Sum(m)
			cases = append(cases, Case{Line: "md5 " + hx(m), Impl: hx(sum[:]), Desc: fmt.Sprintf("md5 of %d bytes", n), Class: "md5"})
		}
		// 2. response function
		nresp := c.Budget(4000, 60000)
		for i := 0; i < nresp; i++ {
			var ch, pw string
			switch c.Rng.Intn(4) {
			case 0:
				ch, pw = randBytesNoCR(c, 8, "digits"), randBytesNoCR(c, 1+c.Rng.Intn(12), "alnum")
			case 1:
				ch, pw = randBytesNoCR(c, c.Rng.Intn(12), "digits"), randBytesNoCR(c, c.Rng.Intn(40), "any")
			case 2:
				ch, pw = randBytesNoCR(c, c.Rng.Intn(40), "any"), randBytesNoCR(c, c.Rng.Intn(40), "any")
			default:
				ch, pw = randBytesNoCR(c, 8, "digits"), ""
			}
			got := fbb.VerifSecureLoginResponse(ch, pw)
			want := specResponse(ch, pw)
			sum := md5.Sum(append([]byte(ch+pw), fbb.VerifSalt()...))
			v := (uint32(sum[0]) | uint32(sum[1])<<8 | uint32(sum[2])<<16 | uint32(sum[3])<<24) & 0x3fffffff
			class := "resp-8digits"
			nontriv := false
			if v >= 100000000 {
				class, nontriv = "resp-overflow-9to10-digits", true
			}
			if v%100000000 < 10000000 {
				class, nontriv = "resp-leading-zero", true
			}
			if sum[3]&0xc0 != 0 {
				nontriv = true
			}
			cases = append(cases, Case{Line: "securesp " + hs(ch) + " " + hs(pw), Impl: hs(got), Desc: fmt.Sprintf("secureLoginResponse(%q,%q)", ch, pw), Nontrivial: nontriv, Class: class})
			if got != want {
				c.Violate("C16:response", fmt.Sprintf("secureLoginResponse(%q,%q) = %q, Winlink algorithm gives %q", ch, pw, got, want),
					map[string]string{"challenge_hex": hx([]byte(ch)), "password_hex": hx([]byte(pw)), "got": got, "want": want})
			}
		}
		// 3. handshakes
		nh := c.Budget(250, 3000)
		for i := 0; i < nh && c.TimeLeft(); i++ {
			mycall := []string{"LA5NTA", "n0call", "LA1B-10", "W1AW"}[c.Rng.Intn(4)]
			target := []string{"LA1B", "CMS", "w6xyz-5"}[c.Rng.Intn(3)]
			loc := []string{"JP20qe", "", "KP03"}[c.Rng.Intn(3)]
			ua := fbb.UserAgent{Name: []string{"wl2kgo", "Pat", "My-App"}[c.Rng.Intn(3)], Version: []string{"0.1a", "1.2.3", "v0-beta"}[c.Rng.Intn(3)]}
			gzip := c.Rng.Intn(4) == 0
			hasCb := c.Rng.Intn(6) != 0
			challenge := ""
			if c.Rng.Intn(5) != 0 {
				challenge = randBytesNoCR(c, 8, "digits")
				if c.Rng.Intn(4) == 0 {
					challenge = randBytesNoCR(c, 1+c.Rng.Intn(12), "alnum")
				}
				if i%7 == 3 {
					// "all challenge strings": punctuation that means something elsewhere in the handshake - a final
					// '>' (the prompt's mark), brackets (SID), ';' and '|'
					const punct = "0123456789ABCxyz<>[];|$-:"
					b := make([]byte, 1+c.Rng.Intn(10))
					for k := range b {
						b[k] = punct[c.Rng.Intn(len(punct))]
					}
					if c.Rng.Intn(2) == 0 {
						b[len(b)-1] = '>'
					}
					challenge = string(b)
				}
			}
			main := hskAux{Addr: strings.ToUpper(mycall), Pw: randBytesNoCR(c, c.Rng.Intn(14), "alnum"), Err: c.Rng.Intn(8) == 0}
			var aux []hskAux
			na := c.Rng.Intn(4)
			for j := 0; j < na; j++ {
				x := hskAux{Addr: fmt.Sprintf("AUX%d%s", j, randBytesNoCR(c, c.Rng.Intn(3), "alnum"))}
				switch c.Rng.Intn(4) {
				case 0: // unknown password
				case 1:
					x.Pw, x.Err = randBytesNoCR(c, 1+c.Rng.Intn(10), "alnum"), true
				default:
					x.Pw = randBytesNoCR(c, 1+c.Rng.Intn(10), "alnum")
				}
				aux = append(aux, x)
			}
			hskOrder = 0
			if i%4 == 2 {
				hskOrder = 1 + c.Rng.Intn(3)
			}
			wire, ok, all := runHandshake(mycall, target, loc, ua, gzip, hasCb, challenge, main, aux)
			hskOrder = 0
			impl := "err"
			if ok {
				impl = "ok " + hx(wire)
			}
			b01 := func(b bool) string {
				if b {
					return "1"
				}
				return "0"
			}
			line := fmt.Sprintf("hsk %s %s %s %s %s 0 %s %s %s %s %s %s", hs(strings.ToUpper(mycall)), hs(strings.ToUpper(target)), hs(loc), hs(ua.Name), hs(ua.Version), b01(gzip), b01(hasCb), hs(challenge),
				hs(main.Addr), hs(main.Pw), b01(main.Err))
			for _, x := range aux {
				line += fmt.Sprintf(" %s %s %s", hs(x.Addr), hs(x.Pw), b01(x.Err))
			}
			desc := fmt.Sprintf("handshake mycall=%s challenge=%q cb=%v mainErr=%v aux=%+v", mycall, challenge, hasCb, main.Err, aux)
			class := "hsk-nochallenge"
			if challenge != "" {
				class = fmt.Sprintf("hsk-challenge-aux%d", len(aux))
				if !hasCb {
					class = "hsk-challenge-nocallback"
				}
			}
			cases = append(cases, Case{Line: line, Impl: impl, Desc: desc, Nontrivial: challenge != "", Class: class})

			// Property oracle on the real code.
			rep := map[string]interface{}{"mycall": mycall, "target": target, "challenge": challenge, "has_callback": hasCb, "main": main, "aux": aux, "wire_hex": hx(all)}
			if challenge != "" && !hasCb && ok {
				c.Violate("C16:no-callback-accepted", "handshake succeeded on a ;PQ challenge without a password callback", rep)
			}
			if ok && challenge != "" {
				lines := strings.Split(string(wire), "\r")
				wantPR := ";PR: " + specResponse(challenge, main.Pw)
				foundPR := false
				for _, l := range lines {
					if l == wantPR {
						foundPR = true
					}
				}
				if !foundPR {
					c.Violate("C16:pr-line", fmt.Sprintf("no line %q in handshake", wantPR), rep)
				}
				wantFW := ";FW: " + strings.ToUpper(mycall)
				for _, x := range aux {
					if x.Pw != "" {
						wantFW += " " + x.Addr + "|" + specResponse(challenge, x.Pw)
					} else {
						wantFW += " " + x.Addr
					}
				}
				if lines[0] != wantFW {
					c.Violate("C16:fw-line", fmt.Sprintf(";FW line is %q, want %q", lines[0], wantFW), rep)
				}
				for _, x := range append([]hskAux{main}, aux...) {
					if len(x.Pw) >= 6 && strings.Trim(x.Pw, "0123456789") != "" && bytes.Contains(all, []byte(x.Pw)) {
						c.Violate("C16:password-on-wire", fmt.Sprintf("password %q appears on the wire", x.Pw), rep)
					}
				}
			}
			if hasCb && !main.Err && !ok {
				c.Violate("C16:handshake-failed", "handshake failed although a password callback was registered", rep)
			}
		}
		// several sessions answer challenges at the same time (a gateway serving many stations): every response is
		// still the one the algorithm defines
		{
			var wg sync.WaitGroup
			var mu sync.Mutex
			bad := ""
			for g := 0; g < 8; g++ {
				wg.Add(1)
				go func(g int) {
					defer wg.Done()
					defer func() {
						if pv := recover(); pv != nil {
							mu.Lock()
							if bad == "" {
								bad = fmt.Sprintf("secureLoginResponse panicked while %d other goroutines computed responses: %v", 7, pv)
							}
							mu.Unlock()
						}
					}()
					for k := 0; k < c.Budget(4000, 40000); k++ {
						ch := fmt.Sprintf("%08d", (g*7919+k*104729)%100000000)
						pw := fmt.Sprintf("pw-%d-%d", g, k%97)
						if got, want := fbb.VerifSecureLoginResponse(ch, pw), specResponse(ch, pw); got != want {
							mu.Lock()
							if bad == "" {
								bad = fmt.Sprintf("secureLoginResponse(%q,%q) = %q while %d other goroutines computed responses, want %q", ch, pw, got, 7, want)
							}
							mu.Unlock()
							return
						}
					}
				}(g)
			}
			wg.Wait()
			if bad != "" {
				c.Violate("C16:response:concurrent", bad, map[string]interface{}{"goroutines": 8})
			}
			c.Res.Distribution["concurrent-responses(oracle only)"] += 8
		}
		c.Compare(cases)
	})
}
