package main

import (
	"bytes"
	"fmt"
	"io"
	"log"
	"net"
	"os"
	"path/filepath"
	"sort"
	"strings"
	"time"

	"github.com/la5nta/wl2k-go/fbb"
	"github.com/la5nta/wl2k-go/mailbox"
)

// interestingCuts picks cut positions in a recorded stream: the first bytes, every position within
// `w` bytes of a line end or frame edge (CR, SOH, STX, EOT), the tail, plus a stride.
func interestingCuts(c *Ctx, stream []byte, w int, stride int) []int {
	set := map[int]bool{}
	add := func(k int) {
		if k >= 0 && k <= len(stream) {
			set[k] = true
		}
	}
	for k := 0; k <= 8; k++ {
		add(k)
		add(len(stream) - k)
	}
	for i, b := range stream {
		if b == '\r' || b == 1 || b == 4 {
			for d := -w; d <= w; d++ {
				add(i + d)
			}
		}
	}
	for k := 0; k <= len(stream); k += stride {
		add(k + c.Rng.Intn(stride))
	}
	var out []int
	for k := range set {
		out = append(out, k)
	}
	sort.Ints(out)
	return out
}

func init() {
	register("C02", "cases: for scenarios as in C01, first the clean transcript is recorded, then the exchange is re-run with the stream towards one side cut after k bytes (that side sees EOF after exactly k bytes) for k = first/last 8 bytes, every position within 3 (quick) / 40 (thorough) bytes of each line end and frame edge, plus a random stride, in both directions; with the receiving handler's ProcessInbound failing at every inbound index; and sequences of 1-3 faulty sessions followed by a clean one on persistent handler state (twin handlers, and the real mailbox.DirHandler on temp dirs). Every faulty run also goes through the Lean pair model with the same limit (wire, callbacks, stats, error class diffed). Oracle: both Exchange calls return (no hang), sent => completely received by the peer's handler, handed-over bytes identical to queued, after the clean retry everything delivered exactly once and reported sent. Non-trivial: the fault hits after the handshake; distinct by case line.", func(c *Ctx) {
		var cases []Case
		nsc := c.Budget(5, 60)
		for i := 0; i < nsc && c.TimeLeft(); i++ {
			sa, sb := genScenario(c, 3, c.Budget(700, 6000))
			if i == 2 {
				// directed: one message with a non-ASCII MID (the block checksum of its proposal line)
				m := genMessage(c.Rng, sa.mycall, sb.mycall, 200)
				m.Header.Set("Mid", "ÆØÅ"+genMid(c.Rng)[:1])
				if o := newOutMsg(m); o.valid && sb.policy[o.mid] == 0 {
					sa.outbox = append(sa.outbox, o)
				}
			}
			if i == 1 {
				// directed: one message whose compressed size is an exact multiple of the data block size
				if o := exactMultipleMessage(c.Rng, sa.mycall, sb.mycall); o != nil && sb.policy[o.mid] == 0 {
					dup := false
					for _, x := range sa.outbox {
						dup = dup || x.mid == o.mid
					}
					if !dup {
						sa.outbox = append(sa.outbox, o)
						c.Res.Distribution["directed:compressed-size-multiple-of-block"]++
					}
				}
			}
			if len(sa.outbox)+len(sb.outbox) == 0 {
				sa.outbox = append(sa.outbox, newOutMsg(genMessage(c.Rng, sa.mycall, sb.mycall, 300)))
			}
			if i%4 == 3 {
				// several blocks one way (11-13 small messages): turn-overs with traffic still queued
				big := sa
				if c.Rng.Intn(2) == 0 {
					big = sb
				}
				peerCall := sb.mycall
				if big == sb {
					peerCall = sa.mycall
				}
				seen := map[string]bool{}
				for _, o := range append(append([]*outMsg{}, sa.outbox...), sb.outbox...) {
					seen[o.mid] = true
				}
				for want := 11 + c.Rng.Intn(3); len(big.outbox) < want; {
					m := genMessage(c.Rng, big.mycall, peerCall, 60)
					if seen[m.MID()] {
						continue
					}
					seen[m.MID()] = true
					big.outbox = append(big.outbox, newOutMsg(m))
				}
			}
			clean := runPairImpl(sa, sb, c.Rng.Int63(), -1, -1)
			if clean.a.hung || clean.b.hung || clean.stalled {
				// the cut position k = "all bytes sent" is the session without a fault: it has to return as well
				// (stalled = both sides waiting for each other on an intact link; the harness's stand-in for the link
				// timeout ended the run)
				c.Violate("C02:no-return-without-fault", "Exchange did not return on an uninterrupted link: both sides wait for each other (no session on these mailboxes ever completes)", scenarioReplay(sa, sb, map[string]interface{}{"cut_direction": "none", "errA": fmt.Sprint(clean.a.err), "errB": fmt.Sprint(clean.b.err)}))
				continue
			}
			if clean.a.err != nil || clean.b.err != nil {
				// "a sequence of faulty sessions followed by a clean one" with zero faulty sessions: the clean session has to
				// complete, or repeating exchanges on these mailboxes never delivers anything
				c.Violate("C02:clean-session-fails", fmt.Sprintf("a session without any fault failed (%v / %v): repeating exchanges on these mailboxes never completes", clean.a.err, clean.b.err), scenarioReplay(sa, sb, map[string]interface{}{"cut_direction": "none", "errA": fmt.Sprint(clean.a.err), "errB": fmt.Sprint(clean.b.err)}))
				continue
			}
			hsA, hsB := bytes.Index(clean.b.wire, []byte("\rF")), bytes.Index(clean.a.wire, []byte("\rF"))
			for _, dir := range []string{"toA", "toB"} {
				stream, hs := clean.b.wire, hsA // bytes flowing to A are what B wrote
				if dir == "toB" {
					stream, hs = clean.a.wire, hsB
				}
				for _, k := range interestingCuts(c, stream, c.Budget(3, 40), c.Budget(len(stream)/6+1, len(stream)/60+1)) {
					if !c.TimeLeft() {
						break
					}
					limA, limB := -1, -1
					if dir == "toA" {
						limA = k
					} else {
						limB = k
					}
					pr := runPairImpl(sa, sb, c.Rng.Int63(), limA, limB)
					rep := scenarioReplay(sa, sb, map[string]interface{}{"cut_direction": dir, "cut_after_bytes": k, "stream_len": len(stream), "errA": fmt.Sprint(pr.a.err), "errB": fmt.Sprint(pr.b.err)})
					if pr.a.hung || pr.b.hung {
						c.Violate("C02:no-return-after-cut", "Exchange did not return after the link failed", rep)
						continue
					}
					if pr.a.panicked != nil || pr.b.panicked != nil {
						c.Violate("C02:panic", fmt.Sprintf("Exchange panicked after a link failure: %v %v", pr.a.panicked, pr.b.panicked), rep)
						continue
					}
					deliveryOracle(c, "C02", pr, false, rep)
					completionOracle(c, pr, rep)
					cases = append(cases, Case{Line: pairLine(sa, sb, limA, limB), Impl: pr.a.canon + " || " + pr.b.canon, Desc: fmt.Sprintf("cut %s after %d/%d bytes; %s", dir, k, len(stream), describeScenario(sa, sb)), Class: "cut-" + dir, Nontrivial: k > hs})
				}
			}
			// storage failure at every inbound index
			for _, side := range []*sessSpec{sa, sb} {
				peer := sb
				if side == sb {
					peer = sa
				}
				for j := 0; j < len(peer.outbox); j++ {
					side.failAt = j
					pr := runPairImpl(sa, sb, c.Rng.Int63(), -1, -1)
					rep := scenarioReplay(sa, sb, map[string]interface{}{"process_inbound_fails_at": j, "failing_side": side.mycall})
					if pr.a.hung || pr.b.hung || pr.a.panicked != nil || pr.b.panicked != nil {
						c.Violate("C02:storage-error-hang-or-panic", "Exchange hung or panicked when the handler reported a storage error", rep)
					} else {
						deliveryOracle(c, "C02", pr, false, rep)
						cases = append(cases, Case{Line: pairLine(sa, sb, -1, -1), Impl: pr.a.canon + " || " + pr.b.canon, Desc: fmt.Sprintf("ProcessInbound #%d fails at %s; %s", j, side.mycall, describeScenario(sa, sb)), Class: "storage-error", Nontrivial: true})
					}
					side.failAt = -1
				}
			}
			// faulty sessions followed by a clean one, persistent handler state
			retryHistory(c, sa, sb, clean)
		}
		dirMailboxRetry(c)
		dirMailboxStorageFault(c)
		storageFaultUnbuffered(c)
		if len(cases) > 70000 {
			// thorough tier: every run above was judged by the property's oracle; the comparison with the Lean pair model
			// (the slow part: about 30 ms per case) takes an evenly spaced 70000 of them
			stride := (len(cases) + 69999) / 70000
			var kept []Case
			for k := 0; k < len(cases); k += stride {
				kept = append(kept, cases[k])
			}
			c.Note("model comparison on %d of %d cases (stride %d)", len(kept), len(cases), stride)
			cases = kept
		}
		c.Compare(cases)
	})
}

// retryHistory: 1..3 sessions with a cut, then a clean one, carrying mailbox state over.
func retryHistory(c *Ctx, sa0, sb0 *sessSpec, clean *pairRun) {
	sa, sb := *sa0, *sb0
	sa.policy, sb.policy = map[string]byte{}, map[string]byte{} // accept unless already received
	delivered := map[string]int{}
	reported := map[string]int{}
	all := map[string][]byte{}
	for _, o := range append(append([]*outMsg{}, sa.outbox...), sb.outbox...) {
		all[o.mid] = o.data
	}
	var hist []string
	nf := 1 + c.Rng.Intn(3)
	for s := 0; s <= nf; s++ {
		limA, limB := -1, -1
		if s < nf {
			if c.Rng.Intn(2) == 0 {
				limA = c.Rng.Intn(len(clean.b.wire) + 1)
			} else {
				limB = c.Rng.Intn(len(clean.a.wire) + 1)
			}
		}
		hist = append(hist, fmt.Sprintf("limA=%d limB=%d", limA, limB))
		pr := runPairImpl(&sa, &sb, c.Rng.Int63(), limA, limB)
		rep := map[string]interface{}{"scenario": describeScenario(sa0, sb0), "session_history": append([]string{}, hist...)}
		if pr.a.hung || pr.b.hung || pr.a.panicked != nil || pr.b.panicked != nil {
			c.Violate("C02:retry-hang-or-panic", "Exchange hung or panicked in a retry history", rep)
			return
		}
		// carry state over: what is still queued, what has been received (=> reject next time)
		for _, x := range []struct {
			run  *sessRun
			self *sessSpec
		}{{pr.a, &sa}, {pr.b, &sb}} {
			x.self.outbox = append([]*outMsg{}, x.run.tw.outbox...)
			for _, data := range x.run.tw.inbox {
				for mid, q := range all {
					if bytes.Equal(q, data) {
						delivered[mid]++
						x.self.policy[mid] = '-'
					}
				}
			}
			for mid := range x.run.tw.sent {
				reported[mid]++
			}
		}
		if s == nf {
			for mid := range all {
				if delivered[mid] != 1 {
					c.Violate("C02:retry-not-exactly-once", fmt.Sprintf("after faulty sessions and a clean one, message %s was delivered %d times", mid, delivered[mid]), rep)
				}
				if reported[mid] < 1 {
					c.Violate("C02:retry-not-reported-sent", fmt.Sprintf("after faulty sessions and a clean one, message %s was never reported sent", mid), rep)
				}
			}
			if len(sa.outbox)+len(sb.outbox) != 0 {
				c.Violate("C02:retry-still-queued", "messages still queued after a clean retry", rep)
			}
		}
	}
	c.Res.Distribution["retry-history"]++
}

// scaledConn is a net.Pipe end (UNBUFFERED: a write blocks until the peer reads) on which every requested
// deadline comes 200 times sooner, so that "ends by the link's deadline" can be observed in a test run.
type scaledConn struct{ net.Conn }

func scaleDeadline(t time.Time) time.Time {
	if t.IsZero() {
		return t
	}
	d := time.Until(t) / 200
	if d < 50*time.Millisecond {
		d = 50 * time.Millisecond
	}
	return time.Now().Add(d)
}
func (c scaledConn) SetDeadline(t time.Time) error { return c.Conn.SetDeadline(scaleDeadline(t)) }
func (c scaledConn) SetReadDeadline(t time.Time) error {
	return c.Conn.SetReadDeadline(scaleDeadline(t))
}
func (c scaledConn) SetWriteDeadline(t time.Time) error {
	return c.Conn.SetWriteDeadline(scaleDeadline(t))
}

// storageFaultUnbuffered: ProcessInbound fails on a message that is NOT the last of its block, over an
// unbuffered link: the sender is busy writing the next message while the receiver wants to report the error.
// Both Exchange calls must still return (in bounded time), and nothing undelivered may be marked sent.
func storageFaultUnbuffered(c *Ctx) {
	for i := 0; i < c.Budget(4, 30) && c.TimeLeft(); i++ {
		sa, sb := newSpec("LA5NTA", "N0CALL", i%2 == 0), newSpec("N0CALL", "LA5NTA", i%2 != 0)
		sa.ihash, sb.ihash = false, false
		n := 2 + c.Rng.Intn(3)
		seen := map[string]bool{}
		for len(sa.outbox) < n {
			m := genMessage(c.Rng, sa.mycall, sb.mycall, 3000)
			if !seen[m.MID()] {
				seen[m.MID()] = true
				sa.outbox = append(sa.outbox, newOutMsg(m))
			}
		}
		sb.failAt = c.Rng.Intn(n - 1) // not the last one
		pa, pb := net.Pipe()
		twa, twb := newTwin(sa), newTwin(sb)
		xa, xb := sa.newSession(twa), sb.newSession(twb)
		done := make(chan error, 2)
		t0 := time.Now()
		go func() { _, e := xa.Exchange(scaledConn{pa}); done <- e }()
		go func() { _, e := xb.Exchange(scaledConn{pb}); done <- e }()
		returned := 0
		var errs []string
		timeout := time.After(8 * time.Second)
	wait:
		for returned < 2 {
			select {
			case e := <-done:
				returned++
				errs = append(errs, fmt.Sprint(e))
			case <-timeout:
				break wait
			}
		}
		rep := map[string]interface{}{"messages": n, "process_inbound_fails_at": sb.failAt, "link": "net.Pipe (unbuffered), deadlines 200x sooner", "returned": returned, "errors": errs, "elapsed_ms": time.Since(t0).Milliseconds()}
		if returned < 2 {
			pa.Close()
			pb.Close()
			c.Violate("C02:no-return:storage-fault-unbuffered", fmt.Sprintf("%d of 2 Exchange calls had not returned 8 s after ProcessInbound failed on message %d of %d over an unbuffered link (both sides blocked writing)", 2-returned, sb.failAt+1, n), rep)
			continue
		}
		stored := map[string]bool{}
		for _, d := range twb.inbox {
			for _, o := range sa.outbox {
				if bytes.Equal(d, o.data) {
					stored[o.mid] = true
				}
			}
		}
		for mid, rejected := range twa.sent {
			if !rejected && !stored[mid] {
				c.Violate("C02:sent-but-not-received:storage-fault-unbuffered", "message "+mid+" was reported sent although the receiving handler's storage failed / never got it", rep)
			}
		}
		c.Res.Distribution["storage-fault-unbuffered(oracle only)"]++
	}
}

// dirMailboxStorageFault: the receiver is the real directory mailbox and its storage GENUINELY fails (no
// wrapper injects the error): the temp name of one message is occupied by a non-empty directory, or the
// inbox directory has been replaced by a regular file. The sender may record as sent only what the
// receiver's mailbox really holds; after the obstruction is removed one clean session delivers the rest.
func dirMailboxStorageFault(c *Ctx) {
	for i := 0; i < c.Budget(4, 30) && c.TimeLeft(); i++ {
		da, _ := os.MkdirTemp("", "verif-c02-fa")
		db, _ := os.MkdirTemp("", "verif-c02-fb")
		ha, hb := mailbox.NewDirHandler(da, false), mailbox.NewDirHandler(db, false)
		ha.Prepare()
		hb.Prepare()
		want := map[string][]byte{}
		var mids []string
		n := 1 + c.Rng.Intn(4)
		for j := 0; j < n; j++ {
			m := genMessage(c.Rng, "LA5NTA", "N0CALL", 1500)
			m.Header.Del("Cc")
			if _, dup := want[m.MID()]; dup {
				continue
			}
			data, _ := m.Bytes()
			want[m.MID()] = data
			mids = append(mids, m.MID())
			ha.AddOut(m)
		}
		variant := []string{"temp-name-occupied", "inbox-is-a-file"}[i%2]
		victim := mids[c.Rng.Intn(len(mids))]
		inDir := filepath.Join(db, mailbox.DIR_INBOX)
		obstruction := filepath.Join(inDir, victim+mailbox.Ext+".tmp")
		switch variant {
		case "temp-name-occupied":
			os.MkdirAll(obstruction, 0o755)
			os.WriteFile(filepath.Join(obstruction, "occupied"), []byte("x"), 0o644)
		default:
			os.RemoveAll(inDir)
			os.WriteFile(inDir, []byte("not a directory"), 0o644)
		}
		session := func() (error, error) {
			ca, cb := newMemPipe(nil, nil)
			x := fbb.NewSession("LA5NTA", "N0CALL", "", mailbox.NewDirHandler(da, false))
			y := fbb.NewSession("N0CALL", "LA5NTA", "", mailbox.NewDirHandler(db, false))
			x.SetLogger(log.New(io.Discard, "", 0))
			y.SetLogger(log.New(io.Discard, "", 0))
			y.IsMaster(true)
			ex, ey := make(chan error, 1), make(chan error, 1)
			go func() { _, e := x.Exchange(ca); ex <- e }()
			go func() { _, e := y.Exchange(cb); ey <- e }()
			return <-ex, <-ey
		}
		e1, e2 := session()
		rep := map[string]interface{}{"variant": variant, "messages": n, "victim": victim, "faulty_session_errors": fmt.Sprint(e1, " / ", e2)}
		stored := func() map[string]int {
			got := map[string]int{}
			ents, _ := os.ReadDir(inDir)
			for _, e := range ents {
				if !e.IsDir() && strings.HasSuffix(e.Name(), mailbox.Ext) {
					b, _ := os.ReadFile(filepath.Join(inDir, e.Name()))
					m := new(fbb.Message)
					if m.ReadFrom(bytes.NewReader(b)) == nil {
						m.Header.Del("X-Unread") // the mailbox's own bookkeeping header
						m.Header.Del("X-FilePath")
						data, _ := m.Bytes()
						if bytes.Equal(data, want[m.MID()]) {
							got[m.MID()]++
						}
					}
				}
			}
			return got
		}
		have := stored()
		sent, _ := ha.Sent()
		for _, m := range sent {
			if have[m.MID()] == 0 {
				c.Violate("C02:dir-sent-but-not-stored:"+variant, fmt.Sprintf("message %s was moved to the sender's sent folder although the receiver's mailbox could not store it (its storage failed)", m.MID()), rep)
			}
		}
		// repair the storage, one clean session
		switch variant {
		case "temp-name-occupied":
			os.RemoveAll(obstruction)
		default:
			os.Remove(inDir)
			os.MkdirAll(inDir, 0o755)
		}
		session()
		have = stored()
		for _, mid := range mids {
			if have[mid] != 1 {
				c.Violate("C02:dir-not-exactly-once:"+variant, fmt.Sprintf("message %s is in the receiver's inbox %d times after a session with failing storage and a clean one", mid, have[mid]), rep)
			}
		}
		n = len(mids)
		if ha.OutboxCount() != 0 || ha.SentCount() != n {
			c.Violate("C02:dir-not-marked-sent:"+variant, fmt.Sprintf("sender outbox=%d sent=%d after the clean retry, want 0/%d", ha.OutboxCount(), ha.SentCount(), n), rep)
		}
		os.RemoveAll(da)
		os.RemoveAll(db)
		c.Res.Distribution["dir-mailbox-storage-fault/"+variant]++
	}
}

// dirMailboxRetry: the same retry property with the real directory mailbox on both sides.
func dirMailboxRetry(c *Ctx) {
	for i := 0; i < c.Budget(3, 25) && c.TimeLeft(); i++ {
		da, _ := os.MkdirTemp("", "verif-c02-a")
		db, _ := os.MkdirTemp("", "verif-c02-b")
		ha, hb := mailbox.NewDirHandler(da, false), mailbox.NewDirHandler(db, false)
		ha.Prepare()
		hb.Prepare()
		want := map[string][]byte{}
		lastMid := ""
		n := 1 + c.Rng.Intn(4)
		for j := 0; j < n; j++ {
			m := genMessage(c.Rng, "LA5NTA", "N0CALL", 1500)
			m.Header.Del("Cc") // a P2P peer is only offered messages addressed to it alone
			if j == 0 && i%2 == 0 {
				// MIDs are file names in this mailbox: characters that mean something in file names (a second dot, a
				// tilde, the mailbox's own extension) are still just MIDs. (NOT a leading dot: LoadMessageDir skips
				// hidden files on purpose, such a MID is outside what the mailbox supports - see DESIGN 12.5.)
				m.Header.Set("Mid", []string{"RPT.2024." + genMid(c.Rng)[:1], "A~1.TXT", "X.b2f"}[c.Rng.Intn(3)])
			}
			if j > 0 && j%2 == 1 && len(lastMid) > 0 && swapCase(lastMid) != lastMid {
				m.Header.Set("Mid", swapCase(lastMid)) // a different message whose MID differs only in letter case
			}
			if _, dup := want[m.MID()]; dup {
				continue // short random MIDs can collide
			}
			lastMid = m.MID()
			data, _ := m.Bytes()
			want[m.MID()] = data
			ha.AddOut(m)
		}
		var total int
		var hist []string
		nf := 1 + c.Rng.Intn(3)
		for s := 0; s <= nf; s++ {
			segA := func() int { return 0 }
			ca, cb := newMemPipe(segA, segA)
			lim := -1
			if s < nf {
				if total == 0 {
					total = 4000
				}
				lim = c.Rng.Intn(total)
				if c.Rng.Intn(2) == 0 {
					ca.CutAfter(lim)
				} else {
					cb.CutAfter(lim)
				}
			}
			hist = append(hist, fmt.Sprint(lim))
			x := fbb.NewSession("LA5NTA", "N0CALL", "", mailbox.NewDirHandler(da, false))
			y := fbb.NewSession("N0CALL", "LA5NTA", "", mailbox.NewDirHandler(db, false))
			x.SetLogger(log.New(io.Discard, "", 0))
			y.SetLogger(log.New(io.Discard, "", 0))
			y.IsMaster(true)
			done := make(chan error, 2)
			go func() { _, e := x.Exchange(ca); done <- e }()
			go func() { _, e := y.Exchange(cb); done <- e }()
			<-done
			<-done
			total = len(ca.Sent()) + len(cb.Sent())
		}
		rep := map[string]interface{}{"messages": len(want), "cut_history": hist}
		inbox, err := hb.Inbox()
		if err != nil {
			c.Violate("C02:dir-inbox-unreadable", "receiver inbox does not load after the retry history: "+err.Error(), rep)
		}
		got := map[string]int{}
		for _, m := range inbox {
			m.Header.Del("X-Unread")
			m.Header.Del("X-FilePath")
			data, _ := m.Bytes()
			if bytes.Equal(data, want[m.MID()]) {
				got[m.MID()]++
			} else {
				c.Violate("C02:dir-content-differs", "a message in the receiver's inbox differs from the queued one", rep)
			}
		}
		for mid := range want {
			if got[mid] != 1 {
				c.Violate("C02:dir-not-exactly-once", fmt.Sprintf("message %s is in the receiver's inbox %d times after faulty sessions and a clean one", mid, got[mid]), rep)
			}
		}
		if ha.OutboxCount() != 0 || ha.SentCount() != len(want) {
			c.Violate("C02:dir-not-marked-sent", fmt.Sprintf("sender outbox=%d sent=%d after the clean retry, want 0/%d", ha.OutboxCount(), ha.SentCount(), len(want)), rep)
		}
		// a LATER message whose MID differs from a delivered one only in letter case is a different message
		if tw := swapCase(lastMid); tw != lastMid && want[tw] == nil {
			m := genMessage(c.Rng, "LA5NTA", "N0CALL", 800)
			m.Header.Del("Cc")
			m.Header.Set("Mid", tw)
			data, _ := m.Bytes()
			ha.AddOut(m)
			ca, cb := newMemPipe(nil, nil)
			x := fbb.NewSession("LA5NTA", "N0CALL", "", mailbox.NewDirHandler(da, false))
			y := fbb.NewSession("N0CALL", "LA5NTA", "", mailbox.NewDirHandler(db, false))
			x.SetLogger(log.New(io.Discard, "", 0))
			y.SetLogger(log.New(io.Discard, "", 0))
			y.IsMaster(true)
			done := make(chan error, 2)
			go func() { _, e := x.Exchange(ca); done <- e }()
			go func() { _, e := y.Exchange(cb); done <- e }()
			<-done
			<-done
			found := false
			inbox2, _ := hb.Inbox()
			for _, im := range inbox2 {
				if im.MID() == tw {
					im.Header.Del("X-Unread")
					im.Header.Del("X-FilePath")
					d2, _ := im.Bytes()
					found = bytes.Equal(d2, data)
				}
			}
			if !found && ha.OutboxCount() == 0 {
				c.Violate("C02:dir-sent-but-not-stored:case-twin", fmt.Sprintf("message %q (a later message whose MID differs from the delivered %q only in letter case) left the sender's outbox but is not in the receiver's inbox", tw, lastMid), rep)
			}
		}
		os.RemoveAll(da)
		os.RemoveAll(db)
		c.Res.Distribution["dir-mailbox-retry"]++
	}
}

// completionOracle: an Exchange that returns nil tells its caller that the session is complete ("repeating exchanges
// until one completes"): every message that side had queued and the peer's policy accepts has then been reported
// sent, every one it rejects reported as already received (deferred ones stay queued). A side whose link was lost
// with traffic still queued has to say so.
func completionOracle(c *Ctx, pr *pairRun, rep map[string]interface{}) {
	for _, d := range []struct {
		name       string
		run        *sessRun
		spec, peer *sessSpec
	}{{"A", pr.a, pr.sa, pr.sb}, {"B", pr.b, pr.sb, pr.sa}} {
		if d.run.err != nil || d.run.hung || d.run.panicked != nil {
			continue
		}
		for _, o := range d.spec.outbox {
			if !o.valid {
				continue
			}
			ans, ok := d.peer.policy[o.mid]
			if !ok {
				ans = '+'
			}
			rej, reported := d.run.tw.sent[o.mid]
			if (ans == '+' && (!reported || rej)) || (ans == '-' && (!reported || !rej)) {
				c.Violate("C02:completed-with-traffic-pending:"+d.name, fmt.Sprintf("Exchange returned nil on side %s although its message %s (peer's answer %c) was neither delivered nor reported", d.name, o.mid, ans), rep)
				return
			}
		}
	}
}
