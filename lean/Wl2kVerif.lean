import Wl2kVerif.Util.Hex
import Wl2kVerif.Ops.Secure
import Wl2kVerif.Ops.PosRep
import Wl2kVerif.Ops.Msg
import Wl2kVerif.Ops.Url
import Wl2kVerif.Ops.Lzhuf
import Wl2kVerif.Ops.Session
import Wl2kVerif.Ops.Telnet
