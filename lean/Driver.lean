import Wl2kVerif
open Wl2k Wl2k.Ops

def allOps : List (String × Handler) :=
  [("echo", fun a => match allBytes a with | some [b] => toHexField b | _ => "bad-op")]
  ++ Ops.Secure.ops ++ Ops.PosRep.ops ++ Ops.Msg.ops ++ Ops.Url.ops ++ Ops.Lzhuf.ops ++ Ops.Session.ops ++ Ops.Telnet.ops ++ Ops.Ardop.ops ++ Ops.Agwpe.ops ++ Ops.Message.ops ++ Ops.Status.ops ++ Ops.Mbox.ops

def step (line : String) : String :=
  match line.trimAscii.toString.splitOn " " with
  | [] => "bad-op"
  | op :: args =>
    match allOps.lookup op with
    | some h => h args
    | none => "bad-op"

partial def loop (hin hout : IO.FS.Stream) : IO Unit := do
  let line ← hin.getLine
  if line.isEmpty then return ()
  hout.putStrLn (step line)
  loop hin hout

def main : IO Unit := do
  let hin ← IO.getStdin
  let hout ← IO.getStdout
  loop hin hout
  hout.flush
