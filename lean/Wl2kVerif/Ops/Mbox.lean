import Wl2kVerif.Ops.Basic
import Wl2kVerif.Mbox.Spec
import Wl2kVerif.Mbox.Crash
/-
Driver ops for the mailbox properties C10/C11/C12 (line protocol, see harness/cmd/corr/mbox_common.go).

  msg token   : mid,rcpts,p2p,unread,fpath,payload   (rcpts = hex;hex;… or ~ ; optional headers ~ = absent)
  op tokens   : N:<0|1>  P  A:<msg>  I:<msg>[:<msg>…]  Q:<mid>  S:<mid>  D:<mid>  O:<fw;fw;…|~>
                L:<i|o|s|a>  C:<f>  U:<f>:<mid>:<0|1>  R:<f>:<mid>
  res tokens  : ok err panic fatal none acc rej def n<count> t f [msg|msg…] out[msg|…]
-/
namespace Wl2k.Ops.Mbox
open Wl2k Wl2k.Ops Wl2k.Mbox

def optField (s : String) : Option (Option Bytes) :=
  if s == "~" then some none else (fromHexField s).map some

def listField (s : String) : Option (List Bytes) :=
  if s == "~" then some [] else (s.splitOn ";").mapM fromHexField

def parseMsg (s : String) : Option Msg :=
  match s.splitOn "," with
  | [mid, rc, p2p, un, fp, pl] =>
    match fromHexField mid, listField rc, optField p2p, optField un, optField fp, pl.toNat? with
    | some mid, some rc, some p2p, some un, some fp, some pl => some ⟨mid, rc, p2p, un, fp, pl⟩
    | _, _, _, _, _, _ => none
  | _ => none

def showOpt : Option Bytes → String
  | none => "~"
  | some b => toHexField b

def showList (l : List Bytes) : String := if l.isEmpty then "~" else ";".intercalate (l.map toHexField)

def showMsg (m : Msg) : String :=
  ",".intercalate [toHexField m.mid, showList m.rcpts, showOpt m.p2p, showOpt m.unread, showOpt m.fpath, toString m.payload]

def showMsgs (l : List Msg) : String := "[" ++ "|".intercalate (l.map showMsg) ++ "]"

def parseFolder : String → Option Folder
  | "i" => some .inbox | "o" => some .outbox | "s" => some .sent | "a" => some .archive | _ => none

def parseOp (tok : String) : Option Op :=
  match tok.splitOn ":" with
  | ["N", b] => some (.newHandler (b01 b))
  | ["P"] => some .prepare
  | ["A", m] => (parseMsg m).map .addOut
  | "I" :: ms => (ms.mapM parseMsg).map .processInbound
  | ["Q", mid] => (fromHexField mid).map .getInboundAnswer
  | ["S", mid] => (fromHexField mid).map .setSent
  | ["D", mid] => (fromHexField mid).map .setDeferred
  | ["O", fws] => (listField fws).map .getOutbound
  | ["L", f] => (parseFolder f).map .list
  | ["C", f] => (parseFolder f).map .count
  | ["U", f, mid, b] => match parseFolder f, fromHexField mid with
    | some f, some mid => some (.setUnread f mid (b01 b))
    | _, _ => none
  | ["R", f, mid] => match parseFolder f, fromHexField mid with
    | some f, some mid => some (.isUnread f mid)
    | _, _ => none
  | _ => none

def showRes : Res → String
  | .ok => "ok" | .err => "err" | .panic => "panic" | .fatal => "fatal" | .notFound => "none"
  | .answer .accept => "acc" | .answer .reject => "rej" | .answer .defer => "def"
  | .msgs l => showMsgs l
  | .out l => "out" ++ showMsgs l
  | .count n => "n" ++ toString n
  | .bool b => if b then "t" else "f"

def C := Toy.codec

def opMids : Op → List Bytes
  | .addOut m => [m.mid]
  | .processInbound ms => ms.map (·.mid)
  | .getInboundAnswer mid | .setSent mid | .setDeferred mid => [mid]
  | .setUnread _ mid _ | .isUnread _ mid => [mid]
  | _ => []

/-! ### crash check -/

def parseSys (tok : String) : Option (Sys × Nat) :=
  match tok.splitOn ":" with
  | ["o", p] => (fromHexField p).map fun p => (.openTrunc p, 0)
  | ["w", p, n] => match fromHexField p, n.toNat? with
    | some p, some n => some (.write p [], n)
    | _, _ => none
  | ["c", p] => (fromHexField p).map fun p => (.close p, 0)
  | ["r", a, b] => match fromHexField a, fromHexField b with
    | some a, some b => some (.rename a b, 0)
    | _, _ => none
  | ["u", p] => (fromHexField p).map fun p => (.unlink p, 0)
  | _ => none

def isWrite : Sys → Bool | .write _ _ => true | _ => false

/-- Shape of an observed script (the shapes the theorems of Props/C11 speak about). -/
def shape (l : List Sys) : String :=
  match l with
  | [] => "none"
  | [.rename _ _] => "rename"
  | .openTrunc t :: rest =>
    let ws := rest.takeWhile isWrite
    let tail := rest.drop ws.length
    let wsOk := !ws.isEmpty && ws.all (fun s => match s with | .write q _ => q == t | _ => false)
    match tail with
    | [.close q] => if wsOk && q == t && visibleName (baseOf t) then "direct" else "other"
    | [.close q, .rename a b] =>
      if wsOk && q == t && a == t && parentOf t == parentOf b && !visibleName (baseOf t) && visibleName (baseOf b)
      then "atomic" else "other"
    | _ => "other"
  | _ => "other"

def renameTarget (l : List Sys) (t : FPath) : FPath :=
  match l.find? (fun s => match s with | .rename a _ => a == t | _ => false) with
  | some (.rename _ b) => b
  | _ => t

def isWriteTo (t : FPath) : Sys → Bool | .write q _ => q == t | _ => false

/-- Fill the `write` calls of an observed script with the model's content: the bytes written to `t`
are what the post-state holds under the name `t` is renamed to (else under `t`), split evenly over the
writes to `t`. -/
def fillWrites (post : FS) (l : List Sys) : List Sys :=
  (l.foldl (fun (acc : List Sys × List (FPath × Nat)) s =>
    match s with
    | .write p _ =>
      let content := (post.lookup (renameTarget l p)).getD []
      let w := (l.filter (isWriteTo p)).length
      let chunk := if w = 0 then 0 else (content.length + w - 1) / w
      let i := (acc.2.lookup p).getD 0
      (acc.1 ++ [.write p ((content.drop (i * chunk)).take chunk)], (p, i + 1) :: acc.2)
    | s => (acc.1 ++ [s], acc.2)) ([], [])).1

def gB (b : Bool) : String := if b then "g" else "B"

def crashSummary (good : FS → Bool) : FS → Nat → List Sys → List String
  | fs, i, [] => ["b" ++ toString i ++ ":" ++ gB (good fs)]
  | fs, i, .write p b :: rest =>
    let inner := (List.range b.length).drop 1 |>.map fun k => good (Sys.apply fs (.write p (b.take k)))
    let w := if inner.isEmpty then "-" else if inner.all id then "g" else if inner.all (!·) then "B" else "m"
    ("b" ++ toString i ++ ":" ++ gB (good fs)) :: ("w" ++ toString i ++ ":" ++ w)
      :: crashSummary good (Sys.apply fs (.write p b)) (i + 1) rest
  | fs, i, s :: rest =>
    ("b" ++ toString i ++ ":" ++ gB (good fs)) :: crashSummary good (Sys.apply fs s) (i + 1) rest

def changedFiles (a b : FS) : List (FPath × Bytes) :=
  b.files.filter fun (p, c) => a.lookup p != some c

def splitPre (args : List String) : Option (List Op × List String) :=
  match args with
  | n :: rest => match n.toNat? with
    | some n => ((rest.take n).mapM parseOp).map fun ops => (ops, rest.drop n)
    | none => none
  | [] => none

def sortDedup (l : List Bytes) : List Bytes := (isort bytesLe l).eraseDups

def ops : List (String × Handler) := [
  ("pathclean", fun a => match allBytes a with | some [p] => toHexField (Path.clean p) | _ => "bad-op"),
  ("pathjoin", fun a => match allBytes a with | some l => toHexField (Path.join l) | _ => "bad-op"),
  ("pathext", fun a => match allBytes a with | some [p] => toHexField (Path.ext p) | _ => "bad-op"),
  ("pathsplit", fun a => match allBytes a with
    | some [p] => toHexField (Str.pathSplit p).1 ++ " " ++ toHexField (Str.pathSplit p).2 | _ => "bad-op"),
  ("validmid", fun a => match allBytes a with | some [p] => (if validMID p then "t" else "f") | _ => "bad-op"),
  -- mboxrun <root> <sendOnly> <op>…  : the DirHandler model
  ("mboxrun", fun a => match a with
    | root :: so :: toks => match fromHexField root, toks.mapM parseOp with
      | some root, some ops => joinSp ((run C (DState.init root (b01 so)) ops).2.map showRes)
      | _, _ => "bad-op"
    | _ => "bad-op"),
  -- mboxspec <sendOnly> <op>…  : the reference model
  ("mboxspec", fun a => match a with
    | so :: toks => match toks.mapM parseOp with
      | some ops => joinSp ((Spec.run { sendOnly := b01 so } ops).2.map showRes)
      | none => "bad-op"
    | _ => "bad-op"),
  -- mboxwrites <root> <sendOnly> <npre> <pre>… <op> : result, confinement of the write set, net change
  ("mboxwrites", fun a => match a with
    | root :: so :: rest => match fromHexField root, splitPre rest with
      | some root, some (pre, [optok]) => match parseOp optok with
        | some op =>
          let s0 := (run C (DState.init root (b01 so)) pre).1
          let s0 := { s0 with fs := { s0.fs with touched := [] } }
          let (s1, r) := step C s0 op
          let conf := s1.fs.touched.all (Path.isUnder (Path.clean root))
          let changed := (changedFiles s0.fs s1.fs).map (·.1) ++ ((changedFiles s1.fs s0.fs).map (·.1))
          joinSp [showRes r, "conf=" ++ (if conf then "t" else "f"), "changed=" ++ showList (sortDedup changed)]
        | none => "bad-op"
      | _, _ => "bad-op"
    | _ => "bad-op"),
  -- crashcheck <root> <sendOnly> <npre> <pre>… <op> <sys>… : verdict of the model for every crash point of the OBSERVED script
  ("crashcheck", fun a => match a with
    | root :: so :: rest => match fromHexField root, splitPre rest with
      | some root, some (pre, optok :: systoks) => match parseOp optok, systoks.mapM parseSys with
        | some op, some sys =>
          let s0 := (run C (DState.init root (b01 so)) pre).1
          let (s1, r) := step C s0 op
          let script := fillWrites s1.fs (sys.map (·.1))
          let mids := sortDedup ((pre ++ [op]).flatMap opMids)
          let good := fun fs => sameViewB C root mids fs s0.fs || sameViewB C root mids fs s1.fs
          let final := runScript s0.fs script
          let fin := final.files == s1.fs.files && final.dirs == s1.fs.dirs
          joinSp ([showRes r, "shape=" ++ shape script, "final=" ++ (if fin then "post" else "differs")]
            ++ crashSummary good s0.fs 0 script)
        | _, _ => "bad-op"
      | _, _ => "bad-op"
    | _ => "bad-op")]

end Wl2k.Ops.Mbox
