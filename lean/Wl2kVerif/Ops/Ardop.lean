import Wl2kVerif.Ops.Basic
import Wl2kVerif.Ardop.Loop
namespace Wl2k.Ops.Ardop
open Wl2k Wl2k.Ops Wl2k.Ardop

/-- 32-bit FNV-1a, to keep output lines short for large byte strings. -/
def fnv (bs : Bytes) : Nat := bs.foldl (fun h b => ((h ^^^ b.toNat) * 16777619) % 4294967296) 2166136261

def isTcp (s : String) : Bool := s == "t"

def showVal : Val → String
  | .none => "nil"
  | .bool b => "bool " ++ (if b then "1" else "0")
  | .state n => "state " ++ toString n
  | .str s => "str " ++ toHexField s
  | .list l => "list " ++ ",".intercalate (l.map toHexField)
  | .int i => "int " ++ toString i

def showParsed : Parsed → String
  | .panic => "panic"
  | .ok m => toHexField m.cmd ++ " " ++ showVal m.value

def showErr : FrameErr → String
  | .checksum => "E:crc"
  | .badType => "E:type"
  | .tooShort => "E:short"
  | .unexpectedEOF => "E:ueof"

def showTok : Tok → String
  | .frame (.cmd t) => "c:" ++ toHexField t
  | .frame (.data t p) => "d:" ++ toHexField t ++ ":" ++ toString p.length ++ ":" ++ toString (fnv p)
  | .err e => showErr e
  | .eof => "eof"
  | .panic => "panic"

def parseItem (s : String) : Option Item :=
  if s == "k" then some .connect
  else if s == "w" then some .writeAck
  else if s.startsWith "c" then (fromHexField (s.drop 1).toString).map (fun t => .frame (.cmd t))
  else if s.startsWith "d" then
    match (s.drop 1).toString.splitOn ":" with
    | [t, p] => match fromHexField t, fromHexField p with
      | some t, some p => some (.frame (.data t p))
      | _, _ => none
    | _ => none
  else none

def showRd : RdRes → String
  | .data bs => toString bs.length
  | .eof => "E"
  | .block => "B"

def takeUntilEof : List Effect → List Effect × Bool
  | [] => ([], false)
  | .eof :: _ => ([], true)
  | e :: r => let (a, b) := takeUntilEof r; (e :: a, b)

def loopOp (ptt : String) (rest : List String) : String :=
  let (itemS, rdS) := rest.partition (fun s => !s.startsWith "r")
  match itemS.mapM parseItem with
  | none => "bad-op"
  | some items =>
    let bufs : List Nat := match rdS with
      | [r] => ((r.drop 1).toString.splitOn ",").filterMap (·.toNat?)
      | _ => []
    let (st, effs) := run { pttSet := b01 ptt } items
    let (first, closed) := takeUntilEof effs
    let (rs, _) := reads ⟨pushes first, closed, []⟩ bufs
    let got := rs.flatMap RdRes.bytes
    joinSp [
      "ptt=" ++ String.ofList ((pttCalls effs).map fun b => if b then '1' else '0'),
      "panic=" ++ (if effs.contains .panic then "1" else "0"),
      "eof=" ++ toString (effs.filter (· == .eof)).length,
      "reads=" ++ ",".intercalate (rs.map showRd),
      "got=" ++ toString got.length ++ ":" ++ toString (fnv got),
      "buffer=" ++ toString st.buffer,
      "state=" ++ toString st.state,
      "busy=" ++ (if st.busy then "1" else "0")]

def parseWMsg : Char → Option WMsg
  | 'b' => some .buffer
  | 'f' => some .crcFault
  | 'o' => some .other
  | 'e' => some .eofSig
  | _ => none

def showWErr : WErr → String
  | .nil => "nil" | .crcFailure => "crc" | .eof => "eof" | .blocked => "blocked"

def parseFEv (s : String) : Option FEv :=
  if s == "w" then some .writeAck
  else if s == "f" then some .flushOk
  else if s.startsWith "b" then (parseInt? (s.drop 1).toString).map .buffer
  else none

/-- Runs the lock over the events; every `f` is a probe: `1` = Flush would return, `0` = it blocks. -/
def flushProbe : Bool → List FEv → List String
  | _, [] => []
  | l, .flushOk :: es => (if l then "0" else "1") :: flushProbe l es
  | l, e :: es => match fstep l e with
    | some l' => flushProbe l' es
    | none => ["impossible"]

def ops : List (String × Handler) := [
  ("ardop_crc", fun a => match allBytes a with
    | some [d] => toString (crc16Sum d) | _ => "bad-op"),
  ("ardop_parse", fun a => match allBytes a with
    | some [s] => if !Str.isAscii s then "nonascii" else showParsed (parseCtrlMsg s) | _ => "bad-op"),
  ("ardop_encctrl", fun a => match a with
    | [m, s] => match fromHexField s with
      | some s => toHexField (encCtrl (isTcp m) s)
      | none => "bad-op"
    | _ => "bad-op"),
  ("ardop_encdata", fun a => match a with
    | [m, p] => match fromHexField p with
      | some p =>
        let f := encData (isTcp m) (cut p)
        joinSp [toString f.length, toString (fnv f),
          if tncRead (isTcp m) true f = some (.data (cut p), []) then "tnc-ok" else "tnc-bad"]
      | none => "bad-op"
    | _ => "bad-op"),
  ("ardop_decode", fun a => match a with
    | [m, ft, s] => match fromHexField s, ft.toNat? with
      | some s, some ft => joinSp ((decodeStream (isTcp m) (UInt8.ofNat ft) (s.length + 1) s).map showTok)
      | _, _ => "bad-op"
    | _ => "bad-op"),
  ("ardop_loop", fun a => match a with
    | ptt :: rest => loopOp ptt rest
    | _ => "bad-op"),
  ("ardop_write", fun a => match a with
    | [m, p, msgs] => match fromHexField p, (if msgs == "-" then some [] else msgs.toList.mapM parseWMsg) with
      | some p, some msgs =>
        let o := write (isTcp m) p msgs
        joinSp ["n=" ++ toString o.n, "err=" ++ showWErr o.err,
          "sent=" ++ ",".intercalate (o.sent.map fun f => toString f.length ++ ":" ++ toString (fnv f)),
          "locked=" ++ (if o.locked then "1" else "0")]
      | _, _ => "bad-op"
    | _ => "bad-op"),
  ("ardop_flush", fun a => match a.mapM parseFEv with
    | some evs => joinSp (flushProbe false evs)
    | none => "bad-op")]

end Wl2k.Ops.Ardop
