import Wl2kVerif.Ops.Basic
import Wl2kVerif.B2F.Handshake
import Wl2kVerif.Gen.Tables
namespace Wl2k.Ops.Secure
open Wl2k Wl2k.Ops Wl2k.B2F

def salt : Bytes := Gen.winlinkSecureSalt.map UInt8.ofNat

def triples : List Bytes → List String → Option (List (Bytes × CbRes))
  | [], [] => some []
  | a :: p :: rest, e :: es => (triples rest es).map fun t => (a, ⟨p, b01 e⟩) :: t
  | _, _ => none

/-- hsk mycall target loc uaName uaVer master gzip hasCb challenge (addr pw err)* -/
def hsk : Handler
  | my :: tg :: loc :: un :: uv :: ma :: gz :: cb :: ch :: rest =>
    match allBytes [my, tg, loc, un, uv, ch] with
    | some [my, tg, loc, un, uv, ch] =>
      -- rest = addr pw err addr pw err ...
      let rec go : List String → Option (List (Bytes × CbRes))
        | [] => some []
        | a :: p :: e :: r => do
          let a ← fromHexField a
          let p ← fromHexField p
          let t ← go r
          pure ((a, ⟨p, b01 e⟩) :: t)
        | _ => none
      match go rest with
      | some fw =>
        let c : HsCfg := { mycall := my, targetcall := tg, locator := loc, uaName := un, uaVersion := uv,
                           master := b01 ma, gzip := b01 gz, hasCb := b01 cb, localFW := fw.map (·.1) }
        optHex (sendHandshake salt c ch (fw.map (·.2)))
      | none => "bad-op"
    | _ => "bad-op"
  | _ => "bad-op"

def ops : List (String × Handler) := [
  ("md5", fun a => match allBytes a with | some [m] => toHexField (Md5.sum m) | _ => "bad-op"),
  ("securesp", fun a => match allBytes a with
     | some [ch, pw] => toHexField (Wl2k.Secure.response salt ch pw) | _ => "bad-op"),
  ("hsk", hsk)]

end Wl2k.Ops.Secure
