import Wl2kVerif.Ops.Basic
import Wl2kVerif.Agwpe.Stream
import Wl2kVerif.Agwpe.Session
import Wl2kVerif.Gen.Facts
namespace Wl2k.Ops.Agwpe
open Wl2k Wl2k.Ops Wl2k.Agwpe

/-- A list field: `_` is the empty list, otherwise comma-separated hex fields (`-` = empty bytes). -/
def bytesList (s : String) : Option (List Bytes) :=
  if s == "_" then some [] else (s.splitOn ",").mapM fromHexField

def natList (s : String) : Option (List Nat) :=
  if s == "_" then some [] else (s.splitOn ",").mapM String.toNat?

def u8 (s : String) : Option UInt8 := s.toNat?.bind fun n => if n < 256 then some (UInt8.ofNat n) else none

def showFrame (f : Frame) : String :=
  s!"{f.port}.{f.kind}.{f.pid}.{toHexField f.src}.{toHexField f.dst}.{toHexField f.data}"

def showErr : RdErr → String
  | .eof => "eof"
  | .unexpectedEOF => "ueof"

def joinOr (sep : String) (xs : List String) : String := if xs.isEmpty then "_" else sep.intercalate xs

/-- Decode every encoded frame of a concatenation (used for `rx:` steps); `none` if not a whole number of frames. -/
def framesOf (b : Bytes) : Option (List Frame) :=
  let r := decodeStream true [b]
  if r.2 == .eof then some r.1 else none

def parseStep (s : String) : Option Step :=
  match s.splitOn ":" with
  | ["reg", g, x] => do some (.reg (← fromHexField g) (← fromHexField x))
  | ["dial", t, d, k, r] => do some (.dial (← fromHexField t) (← bytesList d) (← u8 k) (← fromHexField r))
  | ["acc", r] => do some (.acc (← fromHexField r))
  | ["w", p] => do some (.w (← fromHexField p))
  | ["fl"] => some .fl
  | ["cl"] => some .cl
  | ["rx", fs] => do some (.rx (← framesOf (← fromHexField fs)))
  | ["rxd"] => some .rxd
  | ["rd", ns] => do some (.rd (← natList ns))
  | _ => none

def sess (a : List String) : String :=
  match a with
  | port :: mycall :: ys :: steps =>
    match u8 port, fromHexField mycall, natList ys, steps.mapM parseStep with
    | some p, some my, some ys, some steps =>
      let r := Sess.run { port := p, mycall := my, sim := { ys := ys } } steps
      joinOr ";" r.2 ++ " " ++ joinOr "," (r.1.finish.trace.map showFrame)
    | _, _, _, _ => "bad-op"
  | _ => "bad-op"

def ctor (name : String) (port : UInt8) (src dst data : Bytes) (digis : List Bytes) : Option Frame :=
  match name with
  | "version" => some versionNumberFrame
  | "capabilities" => some (portCapabilitiesFrame port)
  | "data" => some (connectedDataFrame port src dst data)
  | "outstandingConn" => some (outstandingFramesForConnFrame port src dst)
  | "outstandingPort" => some (outstandingFramesForPortFrame port)
  | "register" => some (registerCallsignFrame src port)
  | "unregister" => some (unregisterCallsignFrame src port)
  | "connect" => some (connectFrame src dst port digis)
  | "connectVia" => some (connectViaFrame src dst port digis)
  | "unproto" => some (unprotoInformationFrame src dst port data)
  | "disconnect" => some (disconnectFrame src dst port)
  | _ => none

def ops : List (String × Handler) := [
  -- agw-enc port kind pid src dst data → wire bytes of frame.WriteTo
  ("agw-enc", fun a => match a with
    | [p, k, pid, s, d, dat] =>
      (match u8 p, u8 k, u8 pid, fromHexField s, fromHexField d, fromHexField dat with
       | some p, some k, some pid, some s, some d, some dat =>
         toHexField (encode { port := p, kind := k, pid := pid, src := s, dst := d, data := dat })
       | _, _, _, _, _, _ => "bad-op")
    | _ => "bad-op"),
  -- agw-dec full chunks → frames, final error, total allocation
  ("agw-dec", fun a => match a with
    | [full, cs] =>
      (match bytesList cs with
       | some cs =>
         let r := decodeStream (b01 full) cs
         joinOr "," (r.1.map showFrame) ++ " " ++ showErr r.2 ++ " " ++ toString (allocStream (b01 full) cs)
       | none => "bad-op")
    | _ => "bad-op"),
  ("agw-ctor", fun a => match a with
    | [name, p, s, d, dat, digis] =>
      (match u8 p, fromHexField s, fromHexField d, fromHexField dat, bytesList digis with
       | some p, some s, some d, some dat, some digis =>
         (match ctor name p s d dat digis with
          | some f => showFrame f ++ " " ++ toHexField (encode f)
          | none => "bad-op")
       | _, _, _, _, _ => "bad-op")
    | _ => "bad-op"),
  -- agw-want kinds port(-1 = none) call to frame(encoded)
  ("agw-want", fun a => match a with
    | [kinds, port, call, dst, fr] =>
      (match fromHexField kinds, fromHexField call, fromHexField dst, (fromHexField fr).bind framesOf with
       | some kinds, some call, some dst, some [f] =>
         let pf : Option (Option UInt8) := if port == "-1" then some none else (u8 port).map some
         (match pf with
          | some pf => if ({ kinds := kinds, port := pf, call := call, dst := dst } : Filter).want f then "1" else "0"
          | none => "bad-op")
       | _, _, _, _ => "bad-op")
    | _ => "bad-op"),
  -- agw-read payloads sizes → results of the Reads on a closed, preloaded connection
  ("agw-read", fun a => match a with
    | [ps, ns] =>
      (match bytesList ps, natList ns with
       | some ps, some ns => joinOr "/" ((connReads ns (RdState.init ps)).1.map (showRead false))
       | _, _ => "bad-op")
    | _ => "bad-op"),
  -- agw-pipe-slow n → indices of the frames a reader gets who starts reading only after n paced frames
  -- arrived (queue capacities regenerated from the source)
  ("agw-pipe-slow", fun a => match a with
    | [n] =>
      (match n.toNat? with
       | some n =>
         let p := agwpePipe Nat Gen.agwpeDemuxInCap.toNat Gen.agwpeConnDataFramesCap.toNat
         joinOr "," (((p.run (slowReader (List.range n) ++ drain n)).delivered).map toString)
       | none => "bad-op")
    | _ => "bad-op"),
  ("agw-sess", sess)]

end Wl2k.Ops.Agwpe
