import Wl2kVerif.Ops.Basic
import Wl2kVerif.Msg.Spec
import Wl2kVerif.Msg.HeaderText
/-
Driver ops for the message model (C09). Message encoding on a line (space separated tokens,
byte strings in hex, "-" = empty):
  H <nkeys> (<key> <nvalues> <value>*)*  B <body>  F <nfiles> (<name> <data> <err>)*
with keys sorted bytewise; <err> is "-" or an error class.
-/
namespace Wl2k.Ops.Message
open Wl2k Wl2k.Ops Wl2k.Msg Wl2k.Textproto

abbrev P := StateT (List String) Option

def tok : P String := fun s => match s with | [] => none | t :: r => some (t, r)
def pnat : P Nat := do let t ← tok; (t.toNat? : Option Nat)
def pbytes : P Bytes := do let t ← tok; (fromHexField t : Option Bytes)
def plit (w : String) : P Unit := do let t ← tok; if t == w then pure () else failure

def rep {α} (p : P α) : Nat → P (List α)
  | 0 => pure []
  | n + 1 => do let a ← p; let r ← rep p n; pure (a :: r)

def errName : MErr → String
  | .hdr .eof => "eof"
  | .hdr .malformed => "malformed"
  | .negSize => "negsize"
  | .unexpectedEOF => "ueof"
  | .endOfSection => "endsec"
  | .fileHeader => "filehdr"
  | .date => "date"

def errOfName (s : String) : Option MErr :=
  [MErr.hdr .eof, .hdr .malformed, .negSize, .unexpectedEOF, .endOfSection, .fileHeader, .date].find? (errName · == s)

def pentry : P (Bytes × List Bytes) := do
  let k ← pbytes; let n ← pnat; let vs ← rep pbytes n; pure (k, vs)

def pfile : P File := do
  let name ← pbytes; let data ← pbytes; let e ← tok
  pure { name, data, err := if e == "-" then none else errOfName e }

def pmsg : P Msg := do
  plit "H"; let nh ← pnat; let h ← rep pentry nh
  plit "B"; let body ← pbytes
  plit "F"; let nf ← pnat; let files ← rep pfile nf
  pure { header := h, body, files }

def showHeader (h : Header) : String :=
  joinSp (("H " ++ toString h.length) :: (sortKeys h).map fun e =>
    joinSp ([toHexField e.1, toString e.2.length] ++ e.2.map toHexField))

def showMsg (m : Msg) : String :=
  joinSp ([showHeader m.header, "B", toHexField m.body, "F", toString m.files.length] ++
    m.files.map fun f => joinSp [toHexField f.name, toHexField f.data, (f.err.map errName).getD "-"])

def tableExt (fb : Bool) (tbl : List (Bytes × Bytes)) (enc : List (Bytes × Bytes) := []) : Ext :=
  { encode := fun s => (enc.lookup s).getD s
    decode := fun s => (tbl.lookup s).getD s
    dateFallback := fun _ => fb }

def ppair : P (Bytes × Bytes) := do let a ← pbytes; let b ← pbytes; pure (a, b)

def pcivil : P Civil := do
  let y ← pnat; let mo ← pnat; let d ← pnat; let h ← pnat; let mi ← pnat
  pure { y, mo, d, h, mi }

/-- builder script interpreter -/
partial def pbuild (m : Msg) : P Msg := do
  let s ← get
  if s.isEmpty then return m
  let op ← tok
  match op with
  | "new" =>
    let midv ← pbytes; let c ← pcivil; let t ← pbytes; let call ← pbytes
    pbuild (newMessage midv c t call)
  | "subj" => let s ← pbytes; let e ← pbytes; pbuild (setSubject (tableExt false [] [(s, e)]) m s)
  | "to" => let a ← pbytes; pbuild (addTo m a)
  | "cc" => let a ← pbytes; pbuild (addCc m a)
  | "from" => let a ← pbytes; pbuild (setFrom m a)
  | "date" => let c ← pcivil; pbuild (setDate m c)
  | "body" => let s ← pbytes; pbuild (setBody m s)
  | "file" =>
    let n ← pbytes; let e ← pbytes; let d ← pbytes
    pbuild (addFile (tableExt false [] [(n, e)]) m n d)
  | "set" => let k ← pbytes; let v ← pbytes; pbuild (setHeader m k v)
  | "add" => let k ← pbytes; let v ← pbytes; pbuild (addHeader m k v)
  | _ => failure

def run {α} (p : P α) (args : List String) (k : α → String) : String :=
  match p args with
  | some (a, []) => k a
  | _ => "bad-op"

def ops : List (String × Handler) := [
  ("canonkey", fun a => match allBytes a with | some [s] => toHexField (canonKey s) | _ => "bad-op"),
  ("trimstr", fun a => match allBytes a with | some [s] => toHexField (trimString s) | _ => "bad-op"),
  ("msgatoi", fun a => match allBytes a with | some [s] => toString (atoi s) | _ => "bad-op"),
  -- fbb's encodeHeaderText / WordDecoder.DecodeHeader (Msg/HeaderText.lean, the instance `goExt` of C09_ext)
  ("hdrenc", fun a => match allBytes a with | some [s] => toHexField (Wl2k.Msg.HeaderText.encodeHeaderText s) | _ => "bad-op"),
  ("hdrdec", fun a => match allBytes a with
    | some [s] => let (t, e) := Wl2k.Msg.HeaderText.decodeHeader s
                  toHexField t ++ " " ++ (if e then "err" else "nil")
    | _ => "bad-op"),
  ("qenc", fun a => match allBytes a with
    | some [cs, s] => toHexField (Wl2k.Msg.HeaderText.qEncodingEncode cs s)
    | _ => "bad-op"),
  ("addr", fun a => match allBytes a with
    | some [s] => let x := addrFromString s
                  joinSp [toHexField x.proto, toHexField x.addr, toHexField x.toBytes]
    | _ => "bad-op"),
  ("pdate", fun a => match allBytes a with
    | some [s] => (match parsePrimary s with
        | some c => s!"ok {c.y} {c.mo} {c.d} {c.h} {c.mi}"
        | none => "err")
    | _ => "bad-op"),
  ("fdate", fun a => run pcivil a fun c => toHexField (formatDate c)),
  ("mimehdr", fun a => match allBytes a with
    | some [s] => (match readMIMEHeader s with
        | .ok (h, rest) => joinSp ["ok", showHeader h, "R", toHexField rest]
        | .error e => "err " ++ errName (.hdr e))
    | _ => "bad-op"),
  ("msgwrite", fun a =>
    run (do let fb ← tok; let m ← pmsg; pure (fb, m)) a fun (fb, m) =>
      match write (tableExt (b01 fb) []) m with
      | .ok b => "ok " ++ toHexField b
      | .error e => "err " ++ errName e),
  ("msgread", fun a =>
    run (do let s ← pbytes; let fb ← tok; let n ← pnat; let t ← rep ppair n; pure (s, fb, t)) a fun (s, fb, t) =>
      match read (tableExt (b01 fb) t) s with
      | .ok m => "ok " ++ showMsg m
      | .error e => "err " ++ errName e),
  ("msgwf", fun a =>
    run (do let n ← pnat; let t ← rep ppair n; let m ← pmsg; pure (t, m)) a fun (t, m) =>
      if wf (tableExt false t) m then "1" else "0"),
  ("msgbuild", fun a => run (pbuild { header := [], body := [], files := [] }) a showMsg)]

end Wl2k.Ops.Message
