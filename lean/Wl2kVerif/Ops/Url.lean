import Wl2kVerif.Ops.Basic
import Wl2kVerif.Url.Parse
import Wl2kVerif.Url.Registry
namespace Wl2k.Ops.Url
open Wl2k Wl2k.Ops Wl2k.Url

def showURL (u : URL) : String :=
  joinSp ([toHexField u.scheme, toHexField u.host, toHexField u.target] ++ u.digis.map toHexField)

def regStep (st : Registry × List String) (tok : String) : Registry × List String :=
  match tok.splitOn ":" with
  | ["r", s, d] => match fromHexField s, d.toNat? with
    | some s, some d => (st.1.step (.register s d), st.2)
    | _, _ => (st.1, st.2 ++ ["bad"])
  | ["u", s] => match fromHexField s with
    | some s => (st.1.step (.unregister s), st.2)
    | none => (st.1, st.2 ++ ["bad"])
  | ["d", s] => match fromHexField s with
    | some s => (st.1, st.2 ++ [match st.1.dial s with | some d => toString d | none => "missing"])
    | none => (st.1, st.2 ++ ["bad"])
  | _ => (st.1, st.2 ++ ["bad"])

def ops : List (String × Handler) := [
  ("parseurl", fun a => match allBytes a with
    | some [sc, h, p, hp] =>
      if !Str.isAscii p then "nonascii" else
      match parseURL { scheme := sc, host := h, path := p, hostParam := hp } with
      | .ok u => "ok " ++ showURL u
      | .errInvalidTarget => "err-target"
      | .errDigisUnsupported u => "err-digis " ++ showURL u
    | _ => "bad-op"),
  ("registry", fun a => joinSp ((a.foldl regStep ([], [])).2))]

end Wl2k.Ops.Url
