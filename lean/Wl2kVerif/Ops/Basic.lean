import Wl2kVerif.Util.Hex
namespace Wl2k.Ops
open Wl2k

abbrev Handler := List String → String

def allBytes (args : List String) : Option (List Bytes) := args.mapM fromHexField

def b01 (s : String) : Bool := s == "1"

def optHex : Option Bytes → String
  | some b => "ok " ++ toHexField b
  | none => "err"

def joinSp (xs : List String) : String := " ".intercalate xs

end Wl2k.Ops
