import Wl2kVerif.Ops.Basic
import Wl2kVerif.Lzhuf.Canon
namespace Wl2k.Ops.Lzhuf
open Wl2k Wl2k.Ops Wl2k.Lzhuf

@[inline] def fnv (h : UInt64) (v : UInt64) : UInt64 := (h ^^^ v) * 0x100000001b3
def fnvNats (h : UInt64) (a : Array Nat) : UInt64 := a.foldl (fun h v => fnv h (UInt64.ofNat v)) h
def fnvBytes (h : UInt64) (a : Array UInt8) : UInt64 := a.foldl (fun h v => fnv h v.toUInt64) h

def huffDigest (h0 : UInt64) (h : Huff) : UInt64 := fnvNats (fnvNats (fnvNats h0 h.freq) h.prnt) h.son

def writerDigest (w : Writer) : UInt64 :=
  let h := huffDigest 0xcbf29ce484222325 w.h
  let h := fnvNats (fnvNats (fnvNats h w.z.dad) w.z.lson) w.z.rson
  let h := fnvBytes h w.z.textBuf
  let h := fnv (fnv h (UInt64.ofNat w.z.matchLength)) (UInt64.ofNat w.z.matchPosition)
  let h := fnv (fnv h w.putbuf) (UInt64.ofNat w.putlen)
  let h := fnv (fnv (fnv h (UInt64.ofNat w.len)) (UInt64.ofNat w.r)) (UInt64.ofNat w.s)
  let h := fnv h (UInt64.ofInt w.lastMatchLength)
  let h := fnv h (if w.preFilled then 1 else 0)
  let h := fnv h (UInt64.ofNat (w.fileSize % 4294967296))
  fnv h (UInt64.ofNat w.out.size)

def readerDigest (d : Reader) : UInt64 :=
  let h := huffDigest 0xcbf29ce484222325 d.h
  let h := fnvBytes h d.textBuf
  fnv (fnv (fnv h (UInt64.ofNat (d.pos % 4294967296))) (UInt64.ofNat d.r)) (UInt64.ofNat d.pending.length)

def parseNats (s : String) : List Nat :=
  if s == "-" then [] else (s.splitOn ",").filterMap (·.toNat?)

/-- split `x` into the write calls given by `cuts` (remaining bytes go into a last write, if any) -/
def splitWrites : Bytes → List Nat → List Bytes
  | [], _ => []
  | x, [] => [x]
  | x, c :: cs => x.take c :: splitWrites (x.drop c) cs

def flagStr (h : Huff) : String := (if h.oob then "!oob" else "") ++ (if h.spin then "!spin" else "")

/-- lzw crc input cuts dig -/
def lzw : Handler
  | [crc, inp, cuts, dig] =>
    match fromHexField inp with
    | some x =>
      let writes := splitWrites x (parseNats cuts)
      let (w, digs) := writes.foldl (fun (acc : Writer × List String) p =>
          let w := acc.1.write p
          (w, if b01 dig then acc.2 ++ [toString (writerDigest w).toNat] else acc.2)) (Writer.new (b01 crc), [])
      let final := toString (writerDigest w).toNat
      toHexField w.close ++ " " ++ (if digs.isEmpty then "-" else ",".intercalate digs) ++ " " ++ final ++ flagStr w.h
    | none => "bad-op"
  | _ => "bad-op"

/-- the read loop both sides run: stop at the first error/EOF, or after 3 consecutive zero-byte reads -/
partial def readLoop (d : Reader) (sizes : Array Nat) (k : Nat) (zero : Nat) (reads : Array String) (data : Array UInt8) :
    Reader × Array String × Array UInt8 × Bool :=
  if zero ≥ 3 then (d, reads, data, true)
  else
    let m := sizes.getD (k % sizes.size) 1
    let (d, bs, e) := d.read m
    let reads := if reads.size < 40 then reads.push (toString bs.length ++ ":" ++ RErr.show e) else reads
    let data := data ++ bs.toArray
    if e.isSome then (d, reads, data, false)
    else readLoop d sizes (k + 1) (if bs.isEmpty ∧ m > 0 then zero + 1 else 0) reads data

/-- lzr crc stream sizes -/
def lzr : Handler
  | [crc, inp, sizes] =>
    match fromHexField inp with
    | some s =>
      match Reader.new (b01 crc) s with
      | .error e => "new=" ++ RErr.show (some e)
      | .ok d =>
        let sz := (parseNats sizes).toArray
        let sz := if sz.isEmpty then #[4096] else sz
        let (d, reads, data, stuck) := readLoop d sz 0 0 #[] #[]
        "new=nil reads=" ++ ";".intercalate reads.toList ++ (if stuck then " stuck" else "") ++
          " data=" ++ toHexField data.toList ++ " close=" ++ RErr.show d.close ++
          " digest=" ++ toString (readerDigest d).toNat ++ flagStr d.h
    | none => "bad-op"
  | _ => "bad-op"

/-- hufupd sym,sym,… : drive `update` directly; output = digest of the Huffman tables + max code length -/
def hufupd : Handler
  | [syms] =>
    let h := (parseNats syms).foldl (fun h c => if c < NCHAR then update h c else h) Huff.init
    toString (huffDigest 0xcbf29ce484222325 h).toNat ++ flagStr h
  | _ => "bad-op"

/-- canonenc crc input → stream maxcodelen -/
def canonenc : Handler
  | [crc, inp] => match fromHexField inp with
    | some x => toHexField (Canon.compress (b01 crc) x) ++ " " ++ toString (Canon.encodeBody x).2
    | none => "bad-op"
  | _ => "bad-op"

/-- canondec crc stream → canonical decoding (size from the header; refused above 16 MiB) -/
def canondec : Handler
  | [crc, inp] => match fromHexField inp with
    | some s =>
      let rest := if b01 crc then s.drop 2 else s
      if rest.length < 4 then "short"
      else
        let size := int32OfLE (rest.take 4)
        if size < 0 then "negative" else if size > 16777216 then "toolarge"
        else toHexField (Canon.decodeBody (rest.drop 4) size.toNat)
    | none => "bad-op"
  | _ => "bad-op"

def ops : List (String × Handler) := [("lzw", lzw), ("lzr", lzr), ("hufupd", hufupd), ("canonenc", canonenc), ("canondec", canondec),
  ("crc16x", fun a => match allBytes a with | some [p] => toString (crc p) | _ => "bad-op")]

end Wl2k.Ops.Lzhuf
