import Wl2kVerif.Ops.Basic
import Wl2kVerif.Telnet.Login
import Wl2kVerif.Gen.Facts
/-
Driver ops for the telnet login model (C15).

  telnet-client <cfg> <D|-> <s|cT> <now> <call> <pw> <t:hex>…
      → conn w=<hex,…> stream=<hex> lost=<hex> t=<n> | fail <eof|timeout> w=… t=<n> | hang w=…
  telnet-server <cfg> <s|cT> <n,n,…|-> <t:hex>…
      → conn rc=<hex> err=<-|eof|timeout> w=… stream=<hex> lost=<hex> reads=<hex|hex…>
        | rawerr <e> w=… | hang w=…
  telnet-classify <hex> → callsign | password | other

<cfg> = `code` (the configuration extracted from the source: Gen.telnet…) or three bits
clientDrains serverDrains loginDeadline.
-/
namespace Wl2k.Ops.Telnet
open Wl2k Wl2k.Ops Wl2k.Telnet

def codeCfg : Cfg :=
  ⟨Gen.telnetDialContextDrains, Gen.telnetAcceptDrains, Gen.telnetDialLoginDeadline⟩

def parseCfg (s : String) : Option Cfg :=
  if s == "code" then some codeCfg else
  match s.toList with
  | [a, b, c] => some ⟨a == '1', b == '1', c == '1'⟩
  | _ => none

def parseOptNat (s : String) : Option (Option Nat) :=
  if s == "-" then some none else s.toNat?.map some

def parseClose (s : String) : Option (Option Nat) :=
  if s == "s" then some none else
  match s.toList with
  | 'c' :: r => (String.ofList r).toNat?.map some
  | _ => none

def parseChunk (s : String) : Option (Nat × Bytes) :=
  match s.splitOn ":" with
  | [t, h] => match t.toNat?, fromHexField h with
    | some t, some b => some (t, b)
    | _, _ => none
  | _ => none

def parseNats (s : String) : Option (List Nat) :=
  if s == "-" then some [] else (s.splitOn ",").mapM (·.toNat?)

def showList (xs : List Bytes) : String :=
  if xs.isEmpty then "." else ",".intercalate (xs.map toHexField)

def showErr : IOErr → String
  | .eof => "eof"
  | .timeout => "timeout"

/-- `nt` ("no time, no write boundaries"): what can be observed of the real code over TCP. -/
def showW (nt : Bool) (w : List Bytes) : String := if nt then toHexField w.flatten else showList w

def showDial (nt : Bool) : Dial → String
  | .conn c w t => s!"conn w={showW nt w} stream={toHexField c.stream} lost={toHexField c.lost}" ++ (if nt then "" else s!" t={t}")
  | .fail e w t => s!"fail {showErr e} w={showW nt w}" ++ (if nt then "" else s!" t={t}")
  | .hang w => s!"hang w={showW nt w}"
  | .fuel => "fuel"

def readsOf (ns : List Nat) (c : Conn) : List Bytes :=
  match ns with
  | [] => []
  | n :: r => let (a, c') := c.read n; a :: readsOf r c'

def showAccept (nt : Bool) (ns : List Nat) : Accept → String
  | .conn c e w =>
    let es := match e with | none => "-" | some e => showErr e
    s!"conn rc={toHexField c.remoteCall} err={es} w={showW nt w} stream={toHexField c.stream} lost={toHexField c.lost} reads={"|".intercalate ((readsOf ns c).map toHexField)}"
  | .rawErr e w => s!"rawerr {showErr e} w={showW nt w}"
  | .hang w => s!"hang w={showW nt w}"
  | .fuel => "fuel"

def clientOp (nt : Bool) : Handler := fun a => match a with
  | cfg :: d :: cl :: now :: call :: pw :: chunks =>
    match parseCfg cfg, parseOptNat d, parseClose cl, now.toNat?, fromHexField call, fromHexField pw,
          chunks.mapM parseChunk with
    | some cfg, some d, some cl, some now, some call, some pw, some cs =>
      showDial nt (dial goClassify cfg d cl call pw now cs)
    | _, _, _, _, _, _, _ => "bad-op"
  | _ => "bad-op"

def serverOp (nt : Bool) : Handler := fun a => match a with
  | cfg :: cl :: reads :: chunks =>
    match parseCfg cfg, parseClose cl, parseNats reads, chunks.mapM parseChunk with
    | some cfg, some cl, some ns, some cs => showAccept nt ns (accept Str.trimSpace cfg cl cs)
    | _, _, _, _ => "bad-op"
  | _ => "bad-op"

def ops : List (String × Handler) := [
  ("telnet-client", clientOp false), ("telnet-client-nt", clientOp true),
  ("telnet-server", serverOp false), ("telnet-server-nt", serverOp true),
  ("telnet-classify", fun a => match allBytes a with
    | some [l] => match goClassify l with
      | .callsign => "callsign" | .password => "password" | .other => "other"
    | _ => "bad-op"),
  ("telnet-cfg", fun _ => s!"{codeCfg.clientDrains} {codeCfg.serverDrains} {codeCfg.loginDeadline}")]

end Wl2k.Ops.Telnet
