import Wl2kVerif.Ops.Basic
import Wl2kVerif.B2F.Pair
import Wl2kVerif.B2F.InGrammar
namespace Wl2k.Ops.Session
open Wl2k Wl2k.Ops Wl2k.B2F

@[inline] def fnv (h : UInt64) (v : UInt64) : UInt64 := (h ^^^ v) * 0x100000001b3
def hashBytes (b : Bytes) : String :=
  toString b.length ++ ":" ++ toString (b.foldl (fun h x => fnv h x.toUInt64) 0xcbf29ce484222325).toNat

def listOf (s : String) : List String := if s == "-" ∨ s == "" then [] else s.splitOn ","

def hexes (s : String) : Option (List Bytes) := (s.splitOn ":").mapM fromHexField

def showCall (ihash : Bool) : Call → Option String
  | .prepare => some "P"
  | .getOutbound fws => some ("O(" ++ ",".intercalate (fws.map fun (p, a) =>
      -- strings.ToUpper / EqualFold on non-ASCII text need the Unicode tables: not modelled, compared as a placeholder
      if Str.isAscii p && Str.isAscii a then toHexField p ++ "/" ++ toHexField a else "NONASCII") ++ ")")
  | .setSent m r => some ("S(" ++ toHexField m ++ "," ++ (if r then "1" else "0") ++ ")")
  | .setDeferred m => some ("D(" ++ toHexField m ++ ")")
  | .getInboundAnswer p => some ("A(" ++ toHexField p.mid ++ "," ++ toString p.code.toNat ++ "," ++ toString p.size ++ "," ++ toString p.csize ++ ")")
  | .getInboundAnswers ps => some ("B(" ++ ";".intercalate (ps.map fun p => toHexField p.mid ++ "," ++ toString p.code.toNat ++ "," ++ toString p.size ++ "," ++ toString p.csize) ++ ")")
  | .parseMessage _ => none
  | .processInbound d => some (if ihash then "I(" ++ hashBytes d ++ ")" else "I")
  | .password i => some ("W(" ++ toString i ++ ")")

/-- sort maximal runs of consecutive SetSent calls (Go iterates a map there) -/
def sortRuns : List String → List String → List String
  | [], run => run.mergeSort (· ≤ ·)
  | c :: cs, run =>
    if c.startsWith "S(" then sortRuns cs (c :: run)
    else run.mergeSort (· ≤ ·) ++ c :: sortRuns cs []

def showClass : ErrClass → String
  | .nil => "nil" | .connLost => "connlost" | .other => "error"

/-- the wire: all writes concatenated; a final `*** …` echo is cut off and flagged -/
def wireOf (evs : List Ev) (isErr : Bool) : Bytes × Bool :=
  let ws := evs.filterMap fun e => match e with | .wrote b => some b | _ => none
  if isErr then
    match ws.reverse with
    | last :: rest => if (strBytes "*** ").isPrefixOf last then (rest.reverse.flatten, true) else (ws.flatten, false)
    | [] => ([], false)
  else (ws.flatten, false)

structure Parsed where
  cfg : Cfg
  h : HState
  input : Bytes
  ihash : Bool

def parseOut (s : String) : Option OutMsg := do
  match ← hexes s with
  | [mid, title, qtitle, data, valid] => some { mid, title, qtitle, data, valid := valid == [1] }
  | _ => none

def parseArgs : List String → Option Parsed
  | [my, tg, loc, un, uv, master, hasH, batched, hasCb, motd, fws, pws, outbox, policy, prepFail, failAt, hints, bshort, ihash, input] => do
    let my ← fromHexField my
    let tg ← fromHexField tg
    let loc ← fromHexField loc
    let un ← fromHexField un
    let uv ← fromHexField uv
    let motd ← (listOf motd).mapM fromHexField
    let fws ← (listOf fws).mapM fromHexField
    let pws ← (listOf pws).mapM fun s => do
      match ← hexes s with
      | [p, e] => some (p, e == [1])
      | _ => none
    let outbox ← (listOf outbox).mapM parseOut
    let policy ← (listOf policy).mapM fun s => do
      match ← hexes s with
      | [m, [a]] => some (m, a)
      | _ => none
    let input ← fromHexField input
    let hs : HsCfg := { mycall := my, targetcall := tg, locator := loc, uaName := un, uaVersion := uv,
                        master := b01 master, gzip := false, hasCb := b01 hasCb, localFW := fws }
    let cfg : Cfg := { hs := hs, motd := motd, hasHandler := b01 hasH, batched := b01 batched }
    let h : HState := { outbox := outbox, policy := policy, prepareFails := b01 prepFail,
                        failAt := if failAt == "-" then none else failAt.toNat?,
                        parseErr := (listOf hints).map (fun x => x.toNat?.getD 0), passwords := pws,
                        batchedShort := if bshort == "-" then none else bshort.toNat? }
    some { cfg, h, input, ihash := b01 ihash }
  | _ => none

def showResult (ihash : Bool) (ended : Ended Result) (_rest : Bytes) (evs : List Ev) : String :=
  let evs := evs.reverse
  let calls := sortRuns (evs.filterMap fun e => match e with | .called c => showCall ihash c | _ => none) []
  match ended with
  | .done r =>
    let (wire, echo) := wireOf evs (r.err == .other)
    "err=" ++ showClass r.err ++ " echo=" ++ (if echo then "1" else "0") ++
    " sent=" ++ ",".intercalate ((r.sent.map toHexField).mergeSort (· ≤ ·)) ++ " recv=" ++ ",".intercalate (r.received.map toHexField) ++
    " wire=" ++ toHexField wire ++ " calls=" ++ " ".intercalate calls
  | .panicked s => (if s == "fuel" then "fuel" else "panic") ++ " calls=" ++ " ".intercalate calls
  | .blocked => "blocked"

def session : Handler := fun args =>
  match parseArgs args with
  | none => "bad-op"
  | some p =>
    let fuel := p.input.length + 64
    let (ended, rest, _, evs) := Proc.run hstep (exchange p.cfg fuel) p.input p.h []
    showResult p.ihash ended rest evs

/-! ### the input grammar on real conversations (`accepts_grammar`, Props/C05_accept.lean)

`sessiongram` takes the arguments of `session`, cuts the remote's byte stream into a script of units (text lines,
transfer frames) + an unfinished tail, checks that the script renders back to exactly the input, runs the session
model, and evaluates `InGrammar.conforms` on the model's own writes - i.e. it decides the HYPOTHESIS of
`accepts_grammar` for this conversation. The grammar's description of the local side is taken from the handler of
the case: `msgOK` is "everything" when the handler never fails to parse or store, "nothing" otherwise; `secure` only
when a callback is configured and knows the account password. The harness then holds the REAL Exchange to the
theorem's conclusion: conf=1 must not meet a protocol error. -/

open Wl2k.B2F.InGrammar in
def tokBlocks : Nat → Bytes → List Bytes → Option (List Bytes × UInt8 × Bytes)
  | 0, _, _ => none
  | fuel + 1, inp, acc =>
    match inp with
    | 2 :: l :: rest =>
      let n := if l = 0 then 256 else l.toNat
      if rest.length < n then none else tokBlocks fuel (rest.drop n) (acc ++ [rest.take n])
    | 4 :: ck :: rest => some (acc, ck, rest)
    | _ => none

open Wl2k.B2F.InGrammar in
/-- a frame with the offset field "0" at the head of the input -/
def tokFrame (inp : Bytes) : Option (RUnit × Bytes) :=
  match inp with
  | 1 :: _ :: rest =>
    let title := rest.takeWhile (· ≠ 0)
    match rest.drop title.length with
    | 0 :: 48 :: 0 :: blocks =>
      (tokBlocks (blocks.length + 1) blocks []).map fun (chunks, ck, r) => (.frame title chunks ck, r)
    | _ => none
  | _ => none

def splitCR : Bytes → Bytes → Option (Bytes × Bytes)
  | [], _ => none
  | b :: t, acc => if b = 13 then some (acc.reverse, t) else splitCR t (b :: acc)

open Wl2k.B2F.InGrammar in
def tokenize : Nat → Bytes → List RUnit → List RUnit × Bytes
  | 0, inp, acc => (acc.reverse, inp)
  | fuel + 1, inp, acc =>
    match inp with
    | [] => (acc.reverse, [])
    | 1 :: _ =>
      (match tokFrame inp with
       | some (u, rest) => tokenize fuel rest (u :: acc)
       | none => (acc.reverse, inp))
    | _ =>
      (match splitCR inp [] with
       | some (line, rest) => tokenize fuel rest (.line line :: acc)
       | none => (acc.reverse, inp))

open Wl2k.B2F.InGrammar in
def sessiongram : Handler := fun args =>
  match parseArgs args with
  | none => "bad-op"
  | some p =>
    let fuel := p.input.length + 64
    let (ended, _, _, evs) := Proc.run hstep (exchange p.cfg fuel) p.input p.h []
    let ws := evs.reverse.filterMap fun e => match e with | .wrote bs => some bs | _ => none
    -- the theorem's hypotheses on the LOCAL side, decided for this case (CfgOK holds for the default constants;
    -- HsOK and HandlerOK as Bool: same predicates as Proofs/EmitHs.lean / EmitWalk.lean)
    let pr (b : UInt8) : Bool := Grammar.isPrint b
    let hsOK := p.cfg.motd.all (fun l => l.all pr && l.getLast? != some 62 && l.head? != some 59 && l.head? != some 91 && l.head? != some 42) &&
      !p.cfg.hs.localFW.isEmpty && p.cfg.hs.localFW.all Grammar.isAddr &&
      p.cfg.hs.uaName.all (fun b => pr b && b != 91 && b != 93) && p.cfg.hs.uaVersion.all (fun b => pr b && b != 91 && b != 93) &&
      Grammar.isCall p.cfg.hs.mycall && Grammar.isCall p.cfg.hs.targetcall && p.cfg.hs.locator.all Grammar.isAlnum
    let outOK := p.h.outbox.all (fun m => !m.valid || (Grammar.isMid m.mid && !m.qtitle.isEmpty && m.qtitle.all pr && m.qtitle.length ≤ 247)) &&
      p.h.policy.all (fun (_, a) => a == 43 || a == 45 || a == 61)
    let handlerOK := hsOK && outOK && !p.h.prepareFails && p.h.failAt.isNone && p.h.parseErr.all (· == 0) && p.h.batchedShort.isNone
    let secure := p.cfg.hs.hasCb && (match p.h.passwords with | (_, e) :: _ => !e | [] => false)
    let g : InCfg := { master := p.cfg.hs.master, secure := secure, msgOK := fun _ => handlerOK }
    let (script, tail) := tokenize (p.input.length + 1) p.input []
    let okTok := render script ++ tail == p.input
    let conf := handlerOK && p.cfg.hasHandler && okTok && conforms g ws script tail
    let cls := match ended with
      | .done r => showClass r.err
      | .panicked s => if s == "fuel" then "fuel" else "panic"
      | .blocked => "blocked"
    "conf=" ++ (if conf then "1" else "0") ++ " tok=" ++ (if okTok then "1" else "0") ++ " units=" ++ toString script.length ++
      " tail=" ++ toString tail.length ++ " err=" ++ cls

def lim (s : String) : Option Nat := if s == "-" then none else s.toNat?

/-- pair <20 fields side A> <20 fields side B> limA limB -/
def pair : Handler := fun args =>
  if args.length ≠ 42 then "bad-op" else
  match parseArgs (args.take 20), parseArgs ((args.drop 20).take 20) with
  | some pa, some pb =>
    let total := (pa.h.outbox ++ pb.h.outbox).foldl (fun n m => n + m.data.length) 0
    let fuel := 4 * total + 20000
    let (a, b) := pairRun pa.cfg pb.cfg pa.h pb.h (lim (args.getD 40 "-")) (lim (args.getD 41 "-")) fuel
    let sh (x : Side) (ih : Bool) := match x.ended with
      | some e => showResult ih e [] x.evs
      | none => "blocked"
    sh a pa.ihash ++ " || " ++ sh b pb.ihash
  | _, _ => "bad-op"

/-- sortprops title:csize:mid …  → the MIDs in the order `sortProposals` gives -/
def sortprops : Handler := fun a =>
  match a.mapM (fun t => match t.splitOn ":" with
      | [ti, cs, mi] => match fromHexField ti, cs.toInt?, fromHexField mi with
        | some ti, some cs, some mi => some ({ code := 67, msgType := [], mid := mi, title := ti, size := 0, csize := cs } : Proposal)
        | _, _, _ => none
      | _ => none) with
  | some ps => joinSp ((sortProposals ps).map fun p => toHexField p.mid)
  | none => "bad-op"

def ops : List (String × Handler) := [
  ("session", session), ("sessiongram", sessiongram), ("pair", pair), ("sortprops", sortprops),
  ("cleanstr", fun a => match allBytes a with | some [s] => toHexField (cleanString s) | _ => "bad-op"),
  ("errline", fun a => match allBytes a with
    | some [s] => (match errLine s with | some m => "err " ++ toHexField m | none => "nil") | _ => "bad-op"),
  ("trimspace", fun a => match allBytes a with | some [s] => toHexField (Str.trimSpaceU s) | _ => "bad-op"),
  ("atoi", fun a => match allBytes a with
    | some [s] => let (v, e) := Strconv.atoi s; toString v ++ (if e then " err" else " ok") | _ => "bad-op"),
  ("parsehex", fun a => match allBytes a with
    | some [s] => let (v, e) := Strconv.parseHex64 s; toString v ++ (if e then " err" else " ok") | _ => "bad-op"),
  ("propans", fun a => match a with
    | [s, n] => match fromHexField s, n.toNat? with
      | some s, some n => (match parseProposalAnswer Gen.ProtocolOffsetSizeLimit s n with
        | some as => "ok " ++ joinSp (as.map fun (a, o) => toString a.toNat ++ ":" ++ toString o)
        | none => "err")
      | _, _ => "bad-op"
    | _ => "bad-op"),
  ("parseprop", fun a => match allBytes a with
    | some [s] => (if s.length < 2 ∨ s.head? ≠ some 70 then "skip" else
        match parseProposal s with
        | some f => "ok " ++ toString f.code.toNat ++ " " ++ toHexField f.msgType ++ " " ++ toHexField f.mid ++ " " ++ toString f.size ++ " " ++ toString f.csize
        | none => "err")
    | _ => "bad-op"),
  ("parsesid", fun a => match allBytes a with
    | some [s] => (if !isSID s then "notsid" else match parseSID s with | some c => "ok " ++ toHexField c | none => "err") | _ => "bad-op"),
  ("parsefw", fun a => match allBytes a with
    | some [s] => (match parseFW s with
      | some fws => "ok " ++ joinSp (fws.map fun (p, x) => toHexField p ++ "/" ++ toHexField x)
      | none => "err") | _ => "bad-op")]

end Wl2k.Ops.Session
