import Wl2kVerif.Ops.Basic
import Wl2kVerif.B2F.Pair
namespace Wl2k.Ops.Session
open Wl2k Wl2k.Ops Wl2k.B2F

@[inline] def fnv (h : UInt64) (v : UInt64) : UInt64 := (h ^^^ v) * 0x100000001b3
def hashBytes (b : Bytes) : String :=
  toString b.length ++ ":" ++ toString (b.foldl (fun h x => fnv h x.toUInt64) 0xcbf29ce484222325).toNat

def listOf (s : String) : List String := if s == "-" ∨ s == "" then [] else s.splitOn ","

def hexes (s : String) : Option (List Bytes) := (s.splitOn ":").mapM fromHexField

def showCall (ihash : Bool) : Call → Option String
  | .prepare => some "P"
  | .getOutbound fws => some ("O(" ++ ",".intercalate (fws.map fun (p, a) =>
      -- strings.ToUpper / EqualFold on non-ASCII text need the Unicode tables: not modelled, compared as a placeholder
      if Str.isAscii p && Str.isAscii a then toHexField p ++ "/" ++ toHexField a else "NONASCII") ++ ")")
  | .setSent m r => some ("S(" ++ toHexField m ++ "," ++ (if r then "1" else "0") ++ ")")
  | .setDeferred m => some ("D(" ++ toHexField m ++ ")")
  | .getInboundAnswer p => some ("A(" ++ toHexField p.mid ++ "," ++ toString p.code.toNat ++ "," ++ toString p.size ++ "," ++ toString p.csize ++ ")")
  | .getInboundAnswers ps => some ("B(" ++ ";".intercalate (ps.map fun p => toHexField p.mid ++ "," ++ toString p.code.toNat ++ "," ++ toString p.size ++ "," ++ toString p.csize) ++ ")")
  | .parseMessage _ => none
  | .processInbound d => some (if ihash then "I(" ++ hashBytes d ++ ")" else "I")
  | .password i => some ("W(" ++ toString i ++ ")")

/-- sort maximal runs of consecutive SetSent calls (Go iterates a map there) -/
def sortRuns : List String → List String → List String
  | [], run => run.mergeSort (· ≤ ·)
  | c :: cs, run =>
    if c.startsWith "S(" then sortRuns cs (c :: run)
    else run.mergeSort (· ≤ ·) ++ c :: sortRuns cs []

def showClass : ErrClass → String
  | .nil => "nil" | .connLost => "connlost" | .other => "error"

/-- the wire: all writes concatenated; a final `*** …` echo is cut off and flagged -/
def wireOf (evs : List Ev) (isErr : Bool) : Bytes × Bool :=
  let ws := evs.filterMap fun e => match e with | .wrote b => some b | _ => none
  if isErr then
    match ws.reverse with
    | last :: rest => if (strBytes "*** ").isPrefixOf last then (rest.reverse.flatten, true) else (ws.flatten, false)
    | [] => ([], false)
  else (ws.flatten, false)

structure Parsed where
  cfg : Cfg
  h : HState
  input : Bytes
  ihash : Bool

def parseOut (s : String) : Option OutMsg := do
  match ← hexes s with
  | [mid, title, qtitle, data, valid] => some { mid, title, qtitle, data, valid := valid == [1] }
  | _ => none

def parseArgs : List String → Option Parsed
  | [my, tg, loc, un, uv, master, hasH, batched, hasCb, motd, fws, pws, outbox, policy, prepFail, failAt, hints, bshort, ihash, input] => do
    let my ← fromHexField my
    let tg ← fromHexField tg
    let loc ← fromHexField loc
    let un ← fromHexField un
    let uv ← fromHexField uv
    let motd ← (listOf motd).mapM fromHexField
    let fws ← (listOf fws).mapM fromHexField
    let pws ← (listOf pws).mapM fun s => do
      match ← hexes s with
      | [p, e] => some (p, e == [1])
      | _ => none
    let outbox ← (listOf outbox).mapM parseOut
    let policy ← (listOf policy).mapM fun s => do
      match ← hexes s with
      | [m, [a]] => some (m, a)
      | _ => none
    let input ← fromHexField input
    let hs : HsCfg := { mycall := my, targetcall := tg, locator := loc, uaName := un, uaVersion := uv,
                        master := b01 master, gzip := false, hasCb := b01 hasCb, localFW := fws }
    let cfg : Cfg := { hs := hs, motd := motd, hasHandler := b01 hasH, batched := b01 batched }
    let h : HState := { outbox := outbox, policy := policy, prepareFails := b01 prepFail,
                        failAt := if failAt == "-" then none else failAt.toNat?,
                        parseErr := (listOf hints).map (fun x => x.toNat?.getD 0), passwords := pws,
                        batchedShort := if bshort == "-" then none else bshort.toNat? }
    some { cfg, h, input, ihash := b01 ihash }
  | _ => none

def showResult (ihash : Bool) (ended : Ended Result) (_rest : Bytes) (evs : List Ev) : String :=
  let evs := evs.reverse
  let calls := sortRuns (evs.filterMap fun e => match e with | .called c => showCall ihash c | _ => none) []
  match ended with
  | .done r =>
    let (wire, echo) := wireOf evs (r.err == .other)
    "err=" ++ showClass r.err ++ " echo=" ++ (if echo then "1" else "0") ++
    " sent=" ++ ",".intercalate ((r.sent.map toHexField).mergeSort (· ≤ ·)) ++ " recv=" ++ ",".intercalate (r.received.map toHexField) ++
    " wire=" ++ toHexField wire ++ " calls=" ++ " ".intercalate calls
  | .panicked s => (if s == "fuel" then "fuel" else "panic") ++ " calls=" ++ " ".intercalate calls
  | .blocked => "blocked"

def session : Handler := fun args =>
  match parseArgs args with
  | none => "bad-op"
  | some p =>
    let fuel := p.input.length + 64
    let (ended, rest, _, evs) := Proc.run hstep (exchange p.cfg fuel) p.input p.h []
    showResult p.ihash ended rest evs

def lim (s : String) : Option Nat := if s == "-" then none else s.toNat?

/-- pair <20 fields side A> <20 fields side B> limA limB -/
def pair : Handler := fun args =>
  if args.length ≠ 42 then "bad-op" else
  match parseArgs (args.take 20), parseArgs ((args.drop 20).take 20) with
  | some pa, some pb =>
    let total := (pa.h.outbox ++ pb.h.outbox).foldl (fun n m => n + m.data.length) 0
    let fuel := 4 * total + 20000
    let (a, b) := pairRun pa.cfg pb.cfg pa.h pb.h (lim (args.getD 40 "-")) (lim (args.getD 41 "-")) fuel
    let sh (x : Side) (ih : Bool) := match x.ended with
      | some e => showResult ih e [] x.evs
      | none => "blocked"
    sh a pa.ihash ++ " || " ++ sh b pb.ihash
  | _, _ => "bad-op"

/-- sortprops title:csize:mid …  → the MIDs in the order `sortProposals` gives -/
def sortprops : Handler := fun a =>
  match a.mapM (fun t => match t.splitOn ":" with
      | [ti, cs, mi] => match fromHexField ti, cs.toInt?, fromHexField mi with
        | some ti, some cs, some mi => some ({ code := 67, msgType := [], mid := mi, title := ti, size := 0, csize := cs } : Proposal)
        | _, _, _ => none
      | _ => none) with
  | some ps => joinSp ((sortProposals ps).map fun p => toHexField p.mid)
  | none => "bad-op"

def ops : List (String × Handler) := [
  ("session", session), ("pair", pair), ("sortprops", sortprops),
  ("cleanstr", fun a => match allBytes a with | some [s] => toHexField (cleanString s) | _ => "bad-op"),
  ("errline", fun a => match allBytes a with
    | some [s] => (match errLine s with | some m => "err " ++ toHexField m | none => "nil") | _ => "bad-op"),
  ("trimspace", fun a => match allBytes a with | some [s] => toHexField (Str.trimSpaceU s) | _ => "bad-op"),
  ("atoi", fun a => match allBytes a with
    | some [s] => let (v, e) := Strconv.atoi s; toString v ++ (if e then " err" else " ok") | _ => "bad-op"),
  ("parsehex", fun a => match allBytes a with
    | some [s] => let (v, e) := Strconv.parseHex64 s; toString v ++ (if e then " err" else " ok") | _ => "bad-op"),
  ("propans", fun a => match a with
    | [s, n] => match fromHexField s, n.toNat? with
      | some s, some n => (match parseProposalAnswer Gen.ProtocolOffsetSizeLimit s n with
        | some as => "ok " ++ joinSp (as.map fun (a, o) => toString a.toNat ++ ":" ++ toString o)
        | none => "err")
      | _, _ => "bad-op"
    | _ => "bad-op"),
  ("parseprop", fun a => match allBytes a with
    | some [s] => (if s.length < 2 ∨ s.head? ≠ some 70 then "skip" else
        match parseProposal s with
        | some f => "ok " ++ toString f.code.toNat ++ " " ++ toHexField f.msgType ++ " " ++ toHexField f.mid ++ " " ++ toString f.size ++ " " ++ toString f.csize
        | none => "err")
    | _ => "bad-op"),
  ("parsesid", fun a => match allBytes a with
    | some [s] => (if !isSID s then "notsid" else match parseSID s with | some c => "ok " ++ toHexField c | none => "err") | _ => "bad-op"),
  ("parsefw", fun a => match allBytes a with
    | some [s] => (match parseFW s with
      | some fws => "ok " ++ joinSp (fws.map fun (p, x) => toHexField p ++ "/" ++ toHexField x)
      | none => "err") | _ => "bad-op")]

end Wl2k.Ops.Session
