import Wl2kVerif.Ops.Basic
import Wl2kVerif.Msg.Body
namespace Wl2k.Ops.Msg
open Wl2k Wl2k.Ops Wl2k.Msg

def ops : List (String × Handler) := [
  ("s2b", fun a => match allBytes a with | some [s] => toHexField (stringToBody s) | _ => "bad-op"),
  ("tolatin1", fun a => match allBytes a with | some [s] => toHexField (toLatin1 s) | _ => "bad-op"),
  ("runes", fun a => match allBytes a with
     | some [s] => joinSp ((Utf8.runes s).map toString) | _ => "bad-op")]

end Wl2k.Ops.Msg
