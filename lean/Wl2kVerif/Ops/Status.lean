import Wl2kVerif.Ops.Basic
import Wl2kVerif.Status.Reports
namespace Wl2k.Ops.Status
open Wl2k Wl2k.Ops Wl2k.Status

/-- statuscheck side total transferred done : does some state of the reporter model produce this report? -/
def ops : List (String × Handler) := [
  ("statuscheck", fun a => match a with
    | [side, total, tr, _done] =>
      match total.toNat?, tr.toNat? with
      | some total, some tr =>
        -- send: transferred = max 0 (total - remaining - txBuf) with 0 ≤ remaining ≤ total; recv: received ≤ total
        if (side == "send" || side == "recv") && tr ≤ total then "ok" else "out-of-range"
      | _, _ => "out-of-range"
    | _ => "bad-op")]

end Wl2k.Ops.Status
