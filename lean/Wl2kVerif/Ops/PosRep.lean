import Wl2kVerif.Ops.Basic
import Wl2kVerif.PosRep
namespace Wl2k.Ops.PosRep
open Wl2k Wl2k.Ops Wl2k.PosRep

def optField (s : String) : Option (Option Bytes) :=
  if s == "~" then some none else (fromHexField s).map some

def crlf : Bytes := [13, 10]

def ops : List (String × Handler) := [
  ("d2md", fun a => match a with
    | [neg, num, den, lat] =>
      match num.toNat?, den.toNat? with
      | some n, some d => if d = 0 then "bad-op" else toHexField (decToMinDec (b01 neg) n d (b01 lat))
      | _, _ => "bad-op"
    | _ => "bad-op"),
  ("course", fun a => match a with
    | [d, m] => match parseInt? d with
      | some d => optHex (course d (b01 m))
      | none => "bad-op"
    | _ => "bad-op"),
  ("posbody", fun a => match a with
    | [date, lat, lon, speed, crs, comment] =>
      match fromHexField date, optField lat, optField lon, optField speed, optField crs, fromHexField comment with
      | some date, some lat, some lon, some speed, some crs, some comment =>
        toHexField ((bodyLines date lat lon speed crs comment).flatMap (· ++ crlf))
      | _, _, _, _, _, _ => "bad-op"
    | _ => "bad-op")]

end Wl2k.Ops.PosRep
