import Wl2kVerif.Ardop.Crc
/-
Model of transport/ardop/frame.go (`writeCtrlFrame`, `readFrameOfType`) and of the data frame built in
`tncConn.Write` (conn.go), function for function, in both host interface modes
(`tcp = false`: serial / Bluetooth framing with prefix and CRC; `tcp = true`: TCPIP, no prefix, no CRC).

A stream is the complete remaining input (`Bytes`, ends with EOF): every read in the Go code is
`ReadByte` / `ReadBytes` / `Peek(2)` / `io.ReadFull` on one `bufio.Reader`, which do not depend on how
the bytes are segmented (before the fix of the single `reader.Read(sumBytes)` this was false, see
known findings). Go slicing that can panic is `goSlice` (an `Option`), never silently totalised.

The second half is the TNC's side of the link written from the interface specification
(docs/ardop/_ARDOP TNC Interface Spec.pdf §5, §7): what the TNC sends and how it reads host frames.
-/
namespace Wl2k.Ardop

/-- `s[lo:hi]` on a slice whose capacity equals its length: `none` is Go's run-time panic. -/
def goSlice (s : Bytes) (lo hi : Nat) : Option Bytes :=
  if lo ≤ hi ∧ hi ≤ s.length then some ((s.take hi).drop lo) else none

inductive Frame where
  | cmd (text : Bytes)                    -- cmdFrame
  | data (typ : Bytes) (payload : Bytes)  -- dFrame{dataType, data}
  deriving DecidableEq, Repr

inductive FrameErr where
  | checksum       -- ErrChecksumMismatch
  | badType        -- "Unexpected frame type %c"
  | tooShort       -- "Data frame too short"
  | unexpectedEOF  -- io.ErrUnexpectedEOF from io.ReadFull
  deriving DecidableEq, Repr

/-- Result of one `readFrameOfType` call on the remaining stream. -/
inductive ReadRes where
  | ok (f : Frame) (rest : Bytes)
  | err (e : FrameErr) (rest : Bytes)   -- decodeTNCStream reports it and reads on
  | eof                                  -- io.EOF: decodeTNCStream stops
  | panic                                -- a Go run-time panic (would kill the process)
  deriving DecidableEq, Repr

/-! ### host → TNC -/

/-- `writeCtrlFrame(isTCP, w, "%s", str)`. -/
def encCtrl (tcp : Bool) (str : Bytes) : Bytes :=
  let payload := str ++ [13]
  if tcp then payload else [67, 58] ++ payload ++ be16 (crc16Sum payload)

/-- `if len(p) > 65535 { p = p[:65535] }` -/
def cut (p : Bytes) : Bytes := p.take 65535

/-- The frame `Write` builds for the (already cut) chunk `p`:
"D:" + 2 byte count big endian + data + CRC over count and data (not over "D:"). -/
def encData (tcp : Bool) (p : Bytes) : Bytes :=
  let body := be16 p.length ++ p
  if tcp then body else [68, 58] ++ body ++ be16 (crc16Sum body)

/-! ### TNC → host: `readFrameOfType` -/

/-- `reader.ReadBytes('\r')`: the line without its CR and what follows; `none` = EOF before a CR. -/
def splitAtCR : Bytes → Option (Bytes × Bytes)
  | [] => none
  | b :: t => if b = 13 then some ([], t) else
    match splitAtCR t with
    | some (l, r) => some (b :: l, r)
    | none => none

/-- "Verify CRC sums": `io.ReadFull(reader, sumBytes)` then compare (serial only). -/
def checkCrc (tcp : Bool) (data rest : Bytes) (k : Bytes → ReadRes) : ReadRes :=
  if tcp then k rest else
  match rest with
  | [] => .eof
  | [_] => .err .unexpectedEOF []
  | a :: b :: rest' => if crc16Sum data = getBe16 a b then k rest' else .err .checksum rest'

/-- `case 'c'` followed by the common tail. -/
def readC (tcp : Bool) (s : Bytes) : ReadRes :=
  match splitAtCR s with
  | none => .eof
  | some (line, rest) =>
    checkCrc tcp (line ++ [13]) rest fun r =>
      -- data = data[:len(data)-1]
      match goSlice (line ++ [13]) 0 ((line ++ [13]).length - 1) with
      | some t => .ok (.cmd t) r
      | none => .panic

/-- `case 'd'` followed by the common tail. -/
def readD (tcp : Bool) (s : Bytes) : ReadRes :=
  match s with
  | a :: b :: _ =>
    let length := getBe16 a b + 2          -- int, no uint16 wrap
    if s.length < length then .err .unexpectedEOF [] else
    let data := s.take length
    checkCrc tcp data (s.drop length) fun r =>
      if data.length < 5 then .err .tooShort r else
      match goSlice data 2 5, goSlice data 5 data.length with
      | some t, some p => .ok (.data t p) r
      | _, _ => .panic
  | _ => .eof                              -- Peek(2) fails

def dispatch (tcp : Bool) (ft : UInt8) (s : Bytes) : ReadRes :=
  if ft = 99 then readC tcp s else if ft = 100 then readD tcp s else .err .badType s

/-- `case '*'`: read the type byte, discard one byte, recurse. -/
def readStar (tcp : Bool) : Bytes → ReadRes
  | [] => .eof
  | [t] => if t = 42 then .eof else dispatch tcp t []
  | t :: _ :: s => if t = 42 then readStar tcp s else dispatch tcp t s

def readFrame (tcp : Bool) (ft : UInt8) (s : Bytes) : ReadRes :=
  if ft = 42 then readStar tcp s else dispatch tcp ft s

/-- The frame type `runControlLoop` starts its decoders with. -/
def startType (tcp : Bool) (isData : Bool) : UInt8 := if tcp then (if isData then 100 else 99) else 42

inductive Tok where
  | frame (f : Frame)
  | err (e : FrameErr)
  | eof
  | panic
  deriving DecidableEq, Repr

/-- `decodeTNCStream`: read frames until EOF. Every non-EOF step consumes input, `fuel = length + 1` suffices. -/
def decodeStream (tcp : Bool) (ft : UInt8) : Nat → Bytes → List Tok
  | 0, _ => []
  | n + 1, s =>
    match readFrame tcp ft s with
    | .ok f r => .frame f :: decodeStream tcp ft n r
    | .err e r => .err e :: decodeStream tcp ft n r
    | .eof => [.eof]
    | .panic => [.panic]

/-! ### The TNC's side, from the interface specification -/

/-- §5: replies begin with "c:" and end with <Cr> + 2 byte CRC; no prefix and no CRC on TCPIP. -/
def tncCtrl (tcp : Bool) (text : Bytes) : Bytes :=
  if tcp then text ++ [13] else [99, 58] ++ (text ++ [13]) ++ be16 (crc16Sum (text ++ [13]))

/-- §7: "d:" + 2 byte count (MSB first) + ARQ|FEC|ERR|IDF + data + 2 byte CRC. -/
def tncData (tcp : Bool) (typ payload : Bytes) : Bytes :=
  let body := be16 (typ.length + payload.length) ++ (typ ++ payload)
  if tcp then body else [100, 58] ++ body ++ be16 (crc16Sum body)

inductive HostFrame where
  | cmd (text : Bytes)
  | data (payload : Bytes)
  deriving DecidableEq, Repr

/-- What the TNC does with the two CRC bytes that follow `body`. -/
def tncCrc (tcp : Bool) (body rest : Bytes) : Option Bytes :=
  if tcp then some rest else
  match rest with
  | a :: b :: r => if crc16Sum body = getBe16 a b then some r else none
  | _ => none

/-- §5/§7: how the TNC takes one command (`isData = false`) or data frame (`true`) off the host stream
(serial: both arrive on one stream and are told apart by the prefix; TCPIP: one socket each). -/
def tncReadBody (tcp : Bool) (isData : Bool) (s : Bytes) : Option (HostFrame × Bytes) :=
  if isData then
    match s with
    | a :: b :: t =>
      let n := getBe16 a b
      if t.length < n then none else
      match tncCrc tcp (a :: b :: t.take n) (t.drop n) with
      | some r => some (.data (t.take n), r)
      | none => none
    | _ => none
  else
    match splitAtCR s with
    | some (line, rest) =>
      match tncCrc tcp (line ++ [13]) rest with
      | some r => some (.cmd line, r)
      | none => none
    | none => none

def tncRead (tcp : Bool) (isData : Bool) (s : Bytes) : Option (HostFrame × Bytes) :=
  if tcp then tncReadBody tcp isData s else
  match s with
  | p :: c :: t =>
    if c = 58 ∧ p = 67 then tncReadBody tcp false t
    else if c = 58 ∧ p = 68 then tncReadBody tcp true t
    else none
  | _ => none

end Wl2k.Ardop
