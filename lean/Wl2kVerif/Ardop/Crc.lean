import Wl2kVerif.Util.Hex
import Wl2kVerif.Gen.Tables
/-
Model of transport/ardop/crc16.go (`crc16Sum`), function for function.

The Go register is a `uint16`; it is modelled as a `Nat` below 65536:
  `sum <<= 1`          = `2 * s % 65536`
  `sum += 1`           = `+ 1`   (the low bit is 0 after the shift, no wrap)
  `sum ^= polynomial`  = `^^^ Gen.ardopPolynomial`   (regenerated from /repo on every run)
-/
namespace Wl2k.Ardop

/-- One round of the inner loop: `divisible := sum & 0x8000 != 0; sum <<= 1; if dataBit != 0 { sum += 1 };
if divisible { sum ^= polynomial }`. -/
def crcBit (poly : Nat) (s : Nat) (d : Bool) : Nat :=
  let t := 2 * s % 65536 + d.toNat
  if 32768 ≤ s then t ^^^ poly else t

/-- The eight masks `0x80 >> k` applied to one byte, most significant bit first. -/
def bitsOfByte (b : UInt8) : List Bool :=
  [b.toNat.testBit 7, b.toNat.testBit 6, b.toNat.testBit 5, b.toNat.testBit 4,
   b.toNat.testBit 3, b.toNat.testBit 2, b.toNat.testBit 1, b.toNat.testBit 0]

def bitsOf (d : Bytes) : List Bool := d.flatMap bitsOfByte

def crcBits (poly : Nat) (s : Nat) (bits : List Bool) : Nat := bits.foldl (crcBit poly) s

/-- `crc16Sum(data)` with the constant of the current source tree. -/
def crc16With (poly : Nat) (d : Bytes) : Nat := crcBits poly 0xffff (bitsOf d)

def crc16Sum (d : Bytes) : Nat := crc16With Gen.ardopPolynomial d

/-! ### Specification side: polynomials over GF(2) as natural numbers (bit i = coefficient of x^i) -/

/-- Value of a bit string read most significant bit first, continuing from `a`. -/
def valFrom (a : Nat) (bits : List Bool) : Nat := bits.foldl (fun a b => 2 * a + b.toNat) a

/-- Carry-less (GF(2)[x]) product of the polynomial with coefficient list `qs` (highest first) and `g`. -/
def polyMul (qs : List Bool) (g : Nat) : Nat := qs.foldl (fun a b => 2 * a ^^^ (if b then g else 0)) 0

/-- The generator the shift register divides by: `x^16 + polynomial`. -/
def generator (poly : Nat) : Nat := 65536 + poly

/-- Big-endian two-byte rendering (`binary.Write(w, binary.BigEndian, uint16(n))`). -/
def be16 (n : Nat) : Bytes := [UInt8.ofNat (n / 256), UInt8.ofNat (n % 256)]

/-- `binary.BigEndian.Uint16`. -/
def getBe16 (a b : UInt8) : Nat := a.toNat * 256 + b.toNat

end Wl2k.Ardop
