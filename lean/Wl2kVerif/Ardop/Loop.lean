import Wl2kVerif.Ardop.Conn
/-
Model of the frame-handling goroutine of `runControlLoop` (transport/ardop/tnc.go) and of `eof()`.
Input: the frames in the order the goroutine takes them off its `frames` channel, interleaved with the
two API-side events that touch the same fields (`connect`: Dial/Accept has set `tnc.connected` and
`tnc.data`; `writeAck`: a `Write` received its BUFFER message and locked the flush lock).
Output: the effects in order. Type assertions (`msg.value.(int)`, `msg.Bool()`, `msg.State()`) are checked:
a failing assertion is the effect `.panic`.
Not modelled: the one-minute `dataIn` back-pressure timeout, `heard` (ID frames), logging, and the
broadcaster's per-receiver 500 ms timeout (every message is offered to every live listener in order).
-/
namespace Wl2k.Ardop

structure LoopState where
  pttSet : Bool             -- tnc.ptt != nil
  connected : Bool := false -- tnc.connected
  hasConn : Bool := false   -- tnc.data != nil
  state : Nat := 0          -- tnc.state
  busy : Bool := false      -- tnc.busy
  buffer : Int := 0         -- buffer of the current (or last) connection object
  locked : Bool := false    -- flushLock of the current (or last) connection object
  deriving DecidableEq, Repr

inductive Effect where
  | ptt (on : Bool)         -- tnc.ptt.SetPTT(on)
  | push (p : Bytes)        -- tnc.dataIn <- d.data
  | eof                     -- close(dataIn); signalClosed()
  | bcast (m : CtrlMsg)     -- tnc.in.Send(msg)
  | panic
  deriving DecidableEq, Repr

inductive Item where
  | frame (f : Frame)
  | connect
  | writeAck
  deriving DecidableEq, Repr

def arqTag : Bytes := [65, 82, 81]   -- "ARQ"

/-- `tnc.eof()`. -/
def doEof (st : LoopState) : LoopState × List Effect :=
  if st.hasConn then ({ st with connected := false, hasConn := false }, [.eof])
  else (st, [])

/-- The `switch msg.cmd` of the control loop; `none` = a failed type assertion. -/
def handleMsg (st : LoopState) (m : CtrlMsg) : Option (LoopState × List Effect) :=
  if m.cmd = Gen.ardop_cmdPTT then
    if st.pttSet then
      match m.value with
      | .bool b => some (st, [.ptt b])
      | _ => none
    else some (st, [])
  else if m.cmd = Gen.ardop_cmdDisconnected then
    some (doEof { st with state := Gen.ardopStateDisconnected })
  else if m.cmd = Gen.ardop_cmdBuffer then
    match m.value with
    | .int n =>
      -- updateBuffer: nil conn is a no-op
      if st.hasConn then some ({ st with buffer := n, locked := if n = 0 then false else st.locked }, [])
      else some (st, [])
    | _ => none
  else if m.cmd = Gen.ardop_cmdNewState then
    match m.value with
    | .state s =>
      let st := { st with state := s }
      if s = Gen.ardopStateDisconnected then some (doEof st) else some (st, [])
    | _ => none
  else if m.cmd = Gen.ardop_cmdBusy then
    match m.value with
    | .bool b => some ({ st with busy := b }, [])
    | _ => none
  else some (st, [])

def step (st : LoopState) : Item → LoopState × List Effect
  | .connect => ({ st with connected := true, hasConn := true, locked := false, buffer := 0 }, [])
  | .writeAck => ({ st with locked := true }, [])
  | .frame (.data typ p) =>
    if typ = arqTag then
      if st.connected then (st, [.push p]) else (st, [])
    else (st, [])
  | .frame (.cmd line) =>
    match parseCtrlMsg line with
    | .panic => (st, [.panic])
    | .ok m =>
      match handleMsg st m with
      | none => (st, [.panic])
      | some (st', effs) => (st', effs ++ [.bcast m])

def run : LoopState → List Item → LoopState × List Effect
  | st, [] => (st, [])
  | st, it :: its =>
    let (st', e) := step st it
    let (st'', es) := run st' its
    (st'', e ++ es)

def pttCalls (es : List Effect) : List Bool := es.filterMap fun | .ptt b => some b | _ => none
def pushes (es : List Effect) : List Bytes := es.filterMap fun | .push p => some p | _ => none

/-- The PTT request carried by an item, if any. -/
def pttOf : Item → Option Bool
  | .frame (.cmd line) =>
    match parseCtrlMsg line with
    | .ok m => if m.cmd = Gen.ardop_cmdPTT then (match m.value with | .bool b => some b | _ => none) else none
    | .panic => none
  | _ => none

/-- The ARQ payload carried by an item, if any. -/
def arqOf : Item → Option Bytes
  | .frame (.data typ p) => if typ = arqTag then some p else none
  | _ => none

/-- The item ends the connection (DISCONNECTED or NEWSTATE DISC). -/
def endsConn : Item → Bool
  | .frame (.cmd line) =>
    match parseCtrlMsg line with
    | .ok m => m.cmd = Gen.ardop_cmdDisconnected ∨
        (m.cmd = Gen.ardop_cmdNewState ∧ m.value = .state Gen.ardopStateDisconnected)
    | .panic => false
  | _ => false

end Wl2k.Ardop
