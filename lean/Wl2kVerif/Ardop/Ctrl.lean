import Wl2kVerif.Ardop.Frame
import Wl2kVerif.Std.Strings
/-
Model of transport/ardop/command.go (`parseCtrlMsg`, `parseList`), function for function.
The `switch msg.cmd` clauses (command names and the kind of value each clause produces) and `stateMap`
are regenerated from /repo on every run (`Gen.ardopParseCases`, `Gen.ardopStateMap`).
Indexing `parts[1]` is `idx?` - `none` is Go's index-out-of-range panic and is propagated as `.panic`.
Case mapping is ASCII (`strings.ToUpper/ToLower` on non-ASCII text is not modelled; the correspondence
feeds ASCII lines to the model and judges other lines by the no-panic oracle only).
-/
namespace Wl2k.Ardop
open Wl2k.Str

inductive Val where
  | none
  | bool (b : Bool)
  | state (n : Nat)
  | str (s : Bytes)
  | list (l : List Bytes)
  | int (i : Int)
  deriving DecidableEq, Repr

structure CtrlMsg where
  cmd : Bytes
  value : Val
  deriving DecidableEq, Repr

inductive Parsed where
  | ok (m : CtrlMsg)
  | panic
  deriving DecidableEq, Repr

/-- `strings.SplitN(s, " ", 2)`. -/
def splitN2 : Bytes → List Bytes
  | [] => [[]]
  | b :: t =>
    if b = 32 then [[], t] else
    match splitN2 t with
    | [h] => [b :: h]
    | h :: r => (b :: h) :: r
    | [] => [[b]]

def digitsVal : Bytes → Nat → Option Nat
  | [], acc => some acc
  | b :: t, acc => if 48 ≤ b ∧ b ≤ 57 then digitsVal t (acc * 10 + (b.toNat - 48)) else none

/-- The value `strconv.Atoi` hands back (the code logs the error and uses the value):
0 on a syntax error, the nearest int64 on a range error. -/
def atoi (s : Bytes) : Int :=
  let (neg, ds) : Bool × Bytes := match s with
    | 45 :: t => (true, t)
    | 43 :: t => (false, t)
    | _ => (false, s)
  if ds = [] then 0 else
  match digitsVal ds 0 with
  | none => 0
  | some n =>
    if neg then (if n > 2 ^ 63 then -(2 ^ 63 : Int) else -(n : Int))
    else (if n ≥ 2 ^ 63 then (2 ^ 63 - 1 : Int) else (n : Int))

/-- `parseList(str, sep)`. -/
def parseList (s : Bytes) (sep : UInt8) : List Bytes := (splitOn sep s).map trimSpace

/-- `stateMap[key]` (zero value `Unknown` when absent). -/
def stateOf (key : Bytes) : Nat :=
  match Gen.ardopStateMap.lookup key with
  | some n => n
  | none => 0

/-- The clause of `switch msg.cmd` that `cmd` selects (`none`: default). -/
def kindOf (cmd : Bytes) : Option Nat :=
  (Gen.ardopParseCases.find? (fun c => c.2.contains cmd)).map (·.1)

/-- The body of the selected clause; `p1` is `parts[1]` as the Go code would index it. -/
def valueOf (kind : Nat) (p1 : Option Bytes) : Option Val :=
  if kind = 0 then some .none else
  match p1 with
  | none => none          -- index out of range
  | some p =>
    if kind = 1 then some (.bool (toLower p == [116, 114, 117, 101]))   -- "true"
    else if kind = 2 then some (.state (stateOf (toUpper p)))
    else if kind = 3 then some (.str p)
    else if kind = 4 then some (.list (parseList p 32))
    else if kind = 5 then some (.list (parseList p 44))
    else if kind = 6 then some (.int (atoi p))
    else none

def nowPrefix : Bytes := [110, 111, 119, 32]   -- "now "

/-- `parts` after `parts[0] = ToUpper(parts[0])` and the missing-parameter guard. -/
def partsOf (str : Bytes) : List Bytes :=
  let parts := splitN2 (trimSpace str)
  let parts := match parts with
    | h :: t => toUpper h :: t
    | [] => []
  if parts.length < 2 then parts ++ [[]] else parts

def parseCtrlMsg (str : Bytes) : Parsed :=
  let parts := partsOf str
  match parts[0]? with
  | none => .panic
  | some cmd =>
    -- isEchoBack: strip a leading "now " of parts[1]
    let p1 : Option Bytes := match parts[1]? with
      | some p => if hasPrefix (toLower p) nowPrefix then some (p.drop 4) else some p
      | none => none
    match kindOf cmd with
    | none => .ok ⟨cmd, .none⟩             -- default: "Unable to parse"
    | some k =>
      match valueOf k p1 with
      | some v => .ok ⟨cmd, v⟩
      | none => .panic

end Wl2k.Ardop
