import Wl2kVerif.Ardop.Ctrl
/-
Model of transport/ardop/conn.go: `Read` (with the remainder buffer), `Write` (65535 cut, frame,
retransmission on CRCFAULT, `nWritten`), the flush lock (`lock.go`, `updateBuffer`, `Flush`) and `Close`.
What the goroutines exchange over channels is modelled as the list of messages each call receives,
in the order it receives them.
-/
namespace Wl2k.Ardop

/-! ### Read -/

structure RdState where
  queue : List Bytes      -- payloads waiting in `dataIn` (a FIFO channel)
  closed : Bool           -- `dataIn` has been closed by `eof()`
  left : Bytes            -- `readBuf`: remainder of the frame that did not fit
  deriving DecidableEq, Repr

inductive RdRes where
  | data (bs : Bytes)     -- (len bs, nil)
  | eof                   -- (0, io.EOF)
  | block                 -- would block on `<-conn.dataIn`
  deriving DecidableEq, Repr

/-- `conn.Read(p)` with `len(p) = n`. -/
def read (st : RdState) (n : Nat) : RdRes × RdState :=
  if n = 0 then (.data [], st) else
  if st.left ≠ [] then (.data (st.left.take n), { st with left := st.left.drop n }) else
  match st.queue with
  | [] => if st.closed then (.eof, st) else (.block, st)
  | d :: q => (.data (d.take n), { st with queue := q, left := d.drop n })

/-- A sequence of `Read` calls with the given buffer sizes. -/
def reads : RdState → List Nat → List RdRes × RdState
  | st, [] => ([], st)
  | st, n :: ns =>
    let (r, st') := read st n
    let (rs, st'') := reads st' ns
    (r :: rs, st'')

def RdRes.bytes : RdRes → Bytes
  | .data bs => bs
  | _ => []

/-- All bytes a reader has not yet been given. -/
def RdState.pending (st : RdState) : Bytes := st.left ++ st.queue.flatten

/-! ### Write -/

/-- What the `select` in `Write` sees next on its listener / `eofChan`. -/
inductive WMsg where
  | buffer      -- a BUFFER message
  | crcFault    -- a CRCFAULT message
  | other       -- any other control message
  | eofSig      -- `<-conn.eofChan`
  deriving DecidableEq, Repr

inductive WErr where
  | nil | crcFailure | eof | blocked
  deriving DecidableEq, Repr

structure WOut where
  sent : List Bytes   -- what went to `dataOut`, in order
  n : Nat             -- first result of Write
  err : WErr
  locked : Bool       -- `flushLock.Lock()` was called
  nWritten : Nat      -- conn.nWritten after the call (starts at 0)
  deriving DecidableEq, Repr

/-- Loop `L` after the frame of attempt `i` (0-based) has been sent. -/
def writeRun (frame : Bytes) (n : Nat) : Nat → List Bytes → List WMsg → WOut
  | _, sent, [] => ⟨sent, n, .blocked, false, sent.length * n⟩
  | _, sent, .buffer :: _ => ⟨sent, n, .nil, true, sent.length * n⟩
  | i, sent, .other :: r => writeRun frame n i sent r
  | _, sent, .eofSig :: _ => ⟨sent, n, .eof, false, sent.length * n⟩
  | i, sent, .crcFault :: r =>
    if i + 1 = 3 then ⟨sent, 0, .crcFailure, false, sent.length * n⟩
    else writeRun frame n (i + 1) (sent ++ [frame]) r

/-- `conn.Write(p)`. -/
def write (tcp : Bool) (p : Bytes) (msgs : List WMsg) : WOut :=
  if p = [] then ⟨[], 0, .nil, false, 0⟩ else   -- `if len(p) == 0 { return 0, nil }`
  let q := cut p
  writeRun (encData tcp q) q.length 0 [encData tcp q] msgs

/-! ### Flush lock -/

/-- The three places that touch `flushLock`. -/
inductive FEv where
  | buffer (n : Int)   -- control loop: `updateBuffer(n)` (unlocks when n = 0)
  | writeAck           -- `Write` saw its BUFFER message: `flushLock.Lock()`
  | flushOk            -- `Flush()` returned nil (its `WaitChan()` was closed, i.e. the lock was open)
  deriving DecidableEq, Repr

/-- One step of the lock; `none`: the event cannot happen in this state. -/
def fstep (locked : Bool) : FEv → Option Bool
  | .buffer n => some (if n = 0 then false else locked)
  | .writeAck => some true
  | .flushOk => if locked then none else some false

def frun : Bool → List FEv → Option Bool
  | l, [] => some l
  | l, e :: es => match fstep l e with
    | some l' => frun l' es
    | none => none

/-! ### Close -/

inductive CloseRes where
  | nil | hungUp | blocked
  deriving DecidableEq, Repr

/-- `Close()` after the flush wait: sends DISCONNECT, then waits for DISCONNECTED or NEWSTATE DISC
(`msgs`: what its listener receives; `none` = the listener channel was closed). The 30 s timers are not modelled. -/
def closeWait : List (Option CtrlMsg) → CloseRes
  | [] => .blocked
  | none :: _ => .hungUp
  | some m :: r =>
    if m.cmd = Gen.ardop_cmdDisconnected ∨ (m.cmd = Gen.ardop_cmdNewState ∧ m.value = .state Gen.ardopStateDisconnected)
    then .nil else closeWait r

def close (msgs : List (Option CtrlMsg)) : List Bytes × CloseRes :=
  ([Gen.ardop_cmdDisconnect], closeWait msgs)

end Wl2k.Ardop
