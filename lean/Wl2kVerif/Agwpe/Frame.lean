import Wl2kVerif.Util.Hex
/-
Model of `transport/ax25/agwpe/frame.go` + `frame_kinds.go`: the 36-byte little-endian AGWPE header
(`encoding/binary` over the `header` struct: blank `_` fields are written as zeros and skipped on
read), `frame.WriteTo` (DataLen := uint32(len(Data))), and the frame constructors (after the
`fix:` commit that makes every constructor honour its `port` argument).
-/
namespace Wl2k.Agwpe
open Wl2k

/-- A frame as the Go code holds it after a successful read / before a write. `DataLen` is not a
field: `WriteTo` overwrites it with `len(Data)` and a successful `ReadFrom` has `len(Data) = DataLen`. -/
structure Frame where
  port : UInt8
  kind : UInt8
  pid : UInt8
  src : Bytes    -- `From`, 10 bytes
  dst : Bytes    -- `To`, 10 bytes
  data : Bytes
deriving DecidableEq, Repr, Inhabited

/-- What Go's type system guarantees for the two `callsign [10]byte` fields, plus `len(Data) < 2^32`
(beyond that `uint32(len(Data))` wraps and the frame is not representable on the wire). -/
structure Frame.WF (f : Frame) : Prop where
  src : f.src.length = 10
  dst : f.dst.length = 10
  len : f.data.length < 4294967296

instance (f : Frame) : Decidable f.WF :=
  decidable_of_iff (f.src.length = 10 ∧ f.dst.length = 10 ∧ f.data.length < 4294967296)
    ⟨fun h => ⟨h.1, h.2.1, h.2.2⟩, fun h => ⟨h.src, h.dst, h.len⟩⟩

def headerSize : Nat := 36

/-- The model's own view of the `header` struct layout (name, size in bytes); theorem
`header_layout_regenerated` ties it to the struct regenerated from the Go source. -/
def layout : List (String × Nat) :=
  [("Port", 1), ("_", 3), ("DataKind", 1), ("_", 1), ("PID", 1), ("_", 1),
   ("From", 10), ("To", 10), ("DataLen", 4), ("_", 4)]

/-- Offset of the first field called `name` in a layout. -/
def offsetOf (name : String) : List (String × Nat) → Nat
  | [] => 0
  | (n, sz) :: rest => if n == name then 0 else sz + offsetOf name rest

/-- `callsignFromString`: `copy(c[:], s)` into a zeroed `[10]byte`. -/
def callsign (s : Bytes) : Bytes := s.take 10 ++ List.replicate (10 - s.length) 0

def zeroCall : Bytes := List.replicate 10 0

/-- `callsign.String()` / `strFromBytes`: up to the first NUL. -/
def callStr (c : Bytes) : Bytes := c.takeWhile (· != 0)

def le32 (n : Nat) : Bytes :=
  [UInt8.ofNat (n % 256), UInt8.ofNat (n / 256 % 256), UInt8.ofNat (n / 65536 % 256), UInt8.ofNat (n / 16777216 % 256)]

def le32dec : Bytes → Nat
  | [a, b, c, d] => a.toNat + 256 * b.toNat + 65536 * c.toNat + 16777216 * d.toNat
  | _ => 0

/-- `header.WriteTo` with the given DataLen. -/
def encodeHeader (f : Frame) (dataLen : Nat) : Bytes :=
  [f.port, 0, 0, 0, f.kind, 0, f.pid, 0] ++ (f.src ++ (f.dst ++ (le32 dataLen ++ [0, 0, 0, 0])))

/-- `frame.WriteTo`. -/
def encode (f : Frame) : Bytes := encodeHeader f f.data.length ++ f.data

/-- The decoded fixed-size header. -/
structure Header where
  port : UInt8
  kind : UInt8
  pid : UInt8
  src : Bytes
  dst : Bytes
  dataLen : Nat
deriving DecidableEq, Repr

/-- `header.ReadFrom` on exactly 36 bytes (reserved bytes are skipped, whatever they hold). -/
def decodeHeader : Bytes → Option Header
  | p :: _ :: _ :: _ :: k :: _ :: pid :: _ :: rest =>
    if rest.length = 28 then
      some { port := p, kind := k, pid := pid, src := rest.take 10, dst := (rest.drop 10).take 10,
             dataLen := le32dec ((rest.drop 20).take 4) }
    else none
  | _ => none

def Header.frame (h : Header) (data : Bytes) : Frame :=
  { port := h.port, kind := h.kind, pid := h.pid, src := h.src, dst := h.dst, data := data }

/-! ### frame_kinds.go -/

def kLogin : UInt8 := 80          -- 'P'
def kRegister : UInt8 := 88       -- 'X'
def kUnregister : UInt8 := 120    -- 'x'
def kVersion : UInt8 := 82        -- 'R'
def kOutPort : UInt8 := 121       -- 'y'
def kCapabilities : UInt8 := 103  -- 'g'
def kConnect : UInt8 := 67        -- 'C'
def kConnectVia : UInt8 := 118    -- 'v'
def kDisconnect : UInt8 := 100    -- 'd'
def kData : UInt8 := 68           -- 'D'
def kOutConn : UInt8 := 89        -- 'Y'
def kUnproto : UInt8 := 77        -- 'M'

/-- The kind table as the model sees it; tied to the regenerated constants by `kinds_regenerated`. -/
def kindTable : List (String × Nat) :=
  [("kindLogin", 80), ("kindRegister", 88), ("kindUnregister", 120), ("kindVersionNumber", 82),
   ("kindOutstandingFramesForPort", 121), ("kindPortCapabilities", 103), ("kindConnect", 67),
   ("kindConnectVia", 118), ("kindDisconnect", 100), ("kindConnectedData", 68),
   ("kindOutstandingFramesForConn", 89), ("kindUnprotoInformation", 77)]

def blank (port kind : UInt8) : Frame :=
  { port := port, kind := kind, pid := 0, src := zeroCall, dst := zeroCall, data := [] }

def versionNumberFrame : Frame := blank 0 kVersion
def portCapabilitiesFrame (port : UInt8) : Frame := blank port kCapabilities
def connectedDataFrame (port : UInt8) (src dst data : Bytes) : Frame :=
  { port := port, kind := kData, pid := 240, src := callsign src, dst := callsign dst, data := data }
def outstandingFramesForConnFrame (port : UInt8) (src dst : Bytes) : Frame :=
  { blank port kOutConn with src := callsign src, dst := callsign dst }
def outstandingFramesForPortFrame (port : UInt8) : Frame := blank port kOutPort
def registerCallsignFrame (call : Bytes) (port : UInt8) : Frame := { blank port kRegister with src := callsign call }
def unregisterCallsignFrame (call : Bytes) (port : UInt8) : Frame := { blank port kUnregister with src := callsign call }
/-- `buf.WriteByte(uint8(len(digis)))` then ten bytes per digipeater. -/
def viaData (digis : List Bytes) : Bytes := UInt8.ofNat digis.length :: (digis.map callsign).flatten
def connectViaFrame (src dst : Bytes) (port : UInt8) (digis : List Bytes) : Frame :=
  { blank port kConnectVia with src := callsign src, dst := callsign dst, data := viaData digis }
def connectFrame (src dst : Bytes) (port : UInt8) (digis : List Bytes) : Frame :=
  if digis.length > 0 then connectViaFrame src dst port digis
  else { blank port kConnect with src := callsign src, dst := callsign dst }
def unprotoInformationFrame (src dst : Bytes) (port : UInt8) (data : Bytes) : Frame :=
  { blank port kUnproto with src := callsign src, dst := callsign dst, data := data }
def disconnectFrame (src dst : Bytes) (port : UInt8) : Frame :=
  { blank port kDisconnect with src := callsign src, dst := callsign dst }

end Wl2k.Agwpe
