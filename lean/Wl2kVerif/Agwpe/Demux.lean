import Wl2kVerif.Agwpe.Frame
/-
Model of `demux.go`: `framesFilter.Want`, the filter chain that leads to a connection's data queue
(TNC demux → port chain {port} → conn chain {call} → Frames{kinds: D}), and the queue pipeline as a
transition system with the enqueue discipline the code uses: `demux.Enqueue` is NON-BLOCKING and
drops the frame when the 1-slot `in` channel is full; hand-offs to a client channel block.
-/
namespace Wl2k.Agwpe
open Wl2k

structure Filter where
  kinds : List UInt8 := []
  port : Option UInt8 := none
  call : Bytes := zeroCall    -- to OR from
  dst : Bytes := zeroCall     -- `to`
deriving Repr

/-- `framesFilter.Want`. -/
def Filter.want (flt : Filter) (f : Frame) : Bool :=
  if (match flt.port with | some p => p != f.port | none => false) then false
  else if flt.call != zeroCall && !(flt.call == f.src || flt.call == f.dst) then false
  else if flt.dst != zeroCall && !(flt.dst == f.dst) then false
  else if flt.kinds.length = 0 then true
  else flt.kinds.contains f.kind

/-- A frame read from the TNC reaches `Conn.dataFrames` of the connection (port, remote call) iff it
passes the three filters on the way (`newPort`, `newConn`: Chain, Frames). -/
def deliveredData (port : UInt8) (remote : Bytes) (f : Frame) : Bool :=
  ({ port := some port } : Filter).want f &&
  ({ call := callsign remote } : Filter).want f &&
  ({ kinds := [kData] } : Filter).want f

/-- The inbound-connect filter of `handleInbound` behind the port filter. -/
def deliveredInbound (port : UInt8) (mycall : Bytes) (f : Frame) : Bool :=
  ({ port := some port } : Filter).want f &&
  ({ kinds := [kConnect], dst := callsign mycall } : Filter).want f

/-! ### Queue pipeline

A stage is a bounded FIFO. `drop = true`: its producer uses `Enqueue` (non-blocking; the frame is
discarded when the stage is full). `drop = false`: its producer blocks (`c.resp <- f`), i.e. the
move is simply not enabled while the stage is full. Events: `push` (TNC.run enqueues a frame it has
read into stage 0), `move i` (the goroutine between stage i and i+1 takes one frame and hands it
on), `pop` (the consumer of the last stage — `Conn.Read` — takes one frame). Any interleaving of
goroutines is a list of events. -/

structure Stage (α : Type) where
  cap : Nat
  drop : Bool
  q : List α
deriving Repr

inductive Ev (α : Type)
  | push (a : α)
  | move (i : Nat)
  | pop
deriving Repr

structure Pipe (α : Type) where
  stages : List (Stage α)
  delivered : List α := []     -- in delivery order
  dropped : Nat := 0
deriving Repr

/-- Offer `a` to the first stage of `ss`. Result: new stages, accepted?, dropped?. When the stage is
full and blocking, nothing happens (not accepted, not dropped). -/
def offer {α : Type} (a : α) : List (Stage α) → List (Stage α) × Bool × Bool
  | [] => ([], false, false)
  | s :: rest =>
    if s.q.length < s.cap then ({ s with q := s.q ++ [a] } :: rest, true, false)
    else if s.drop then (s :: rest, true, true)       -- Enqueue returns true; frame discarded
    else (s :: rest, false, false)

/-- `move i` on the stage list (i counts from the head): returns new stages and whether a frame was dropped. -/
def moveAt {α : Type} : Nat → List (Stage α) → List (Stage α) × Bool
  | _, [] => ([], false)
  | 0, s :: rest =>
    match s.q, rest with
    | [], _ => (s :: rest, false)
    | _, [] => (s :: rest, false)                      -- last stage: only `pop` consumes
    | a :: q', _ =>
      let r := offer a rest
      if r.2.1 then ({ s with q := q' } :: r.1, r.2.2) else (s :: rest, false)
  | i + 1, s :: rest => let r := moveAt i rest; (s :: r.1, r.2)

/-- `pop`: take the head of the LAST stage. -/
def popLast {α : Type} : List (Stage α) → List (Stage α) × Option α
  | [] => ([], none)
  | [s] => match s.q with
    | [] => ([s], none)
    | a :: q' => ([{ s with q := q' }], some a)
  | s :: rest => let r := popLast rest; (s :: r.1, r.2)

def Pipe.step {α : Type} (p : Pipe α) : Ev α → Pipe α
  | .push a =>
    let r := offer a p.stages
    -- TNC.run never blocks on stage 0 (it is an Enqueue); a blocking first stage refuses silently
    { p with stages := r.1, dropped := p.dropped + (if r.2.2 then 1 else 0) + (if !r.2.1 then 1 else 0) }
  | .move i =>
    let r := moveAt i p.stages
    { p with stages := r.1, dropped := p.dropped + (if r.2 then 1 else 0) }
  | .pop =>
    let r := popLast p.stages
    match r.2 with
    | some a => { p with stages := r.1, delivered := p.delivered ++ [a] }
    | none => p

def Pipe.run {α : Type} (p : Pipe α) (evs : List (Ev α)) : Pipe α := evs.foldl Pipe.step p

/-- Frames pushed by a schedule, in order. -/
def pushed {α : Type} : List (Ev α) → List α
  | [] => []
  | .push a :: r => a :: pushed r
  | _ :: r => pushed r

/-- Frames still inside the pipeline, oldest first (last stage first). -/
def inflight {α : Type} : List (Stage α) → List α
  | [] => []
  | s :: rest => inflight rest ++ s.q

/-- The path of a connected-data frame in the current code: TNC `in` (Enqueue, cap 1) → in the hands
of the TNC demux/port-chain goroutines (1) → port `in` (Enqueue, 1) → port demux/conn-chain goroutines
(1) → conn `in` (Enqueue, 1) → conn demux goroutine blocked on `c.resp <- f` (1) → `dataFrames`
(blocking hand-off, cap 10). -/
def agwpePipe (α : Type) (inCap dataCap : Nat) : Pipe α :=
  { stages := [⟨inCap, true, []⟩, ⟨1, false, []⟩, ⟨inCap, true, []⟩, ⟨1, false, []⟩, ⟨inCap, true, []⟩,
               ⟨1, false, []⟩, ⟨dataCap, false, []⟩] }

/-- All goroutines between the TNC socket and `dataFrames` get to run once, front to back. -/
def settle {α : Type} : List (Ev α) := [.move 0, .move 1, .move 2, .move 3, .move 4, .move 5]

/-- One frame travels the whole pipeline and is read before the next one arrives. -/
def round {α : Type} (a : α) : List (Ev α) :=
  [.push a, .move 0, .move 1, .move 2, .move 3, .move 4, .move 5, .pop]

def lockstep {α : Type} (fs : List α) : List (Ev α) := fs.flatMap round

/-- The TNC delivers `fs` at a pace the goroutines keep up with, but nobody calls Read. -/
def slowReader {α : Type} (fs : List α) : List (Ev α) := fs.flatMap fun a => .push a :: settle

/-- Afterwards the application reads until nothing more comes. -/
def drain {α : Type} : Nat → List (Ev α)
  | 0 => []
  | n + 1 => .pop :: (settle ++ drain n)

end Wl2k.Agwpe
