import Wl2kVerif.Agwpe.Frame
/-
Model of `Conn.Read` (after the `fix:` commit that keeps the unread tail of a frame): the connection's
`dataFrames` queue holds the payloads of the connected-data frames that passed the filters, in
arrival order; `unread` is the remainder of the frame a previous `Read` could not fit.
`queue = []` is the closed-and-drained channel (Read returns io.EOF); on a live connection an empty
queue means Read blocks, which ends the observation — same equation for the bytes returned.
-/
namespace Wl2k.Agwpe
open Wl2k

structure RdState where
  unread : Bytes
  queue : List Bytes
deriving DecidableEq, Repr

inductive ReadRes
  | data (b : Bytes)     -- (len b, nil)
  | eof                  -- (0, io.EOF)
deriving DecidableEq, Repr

/-- `Conn.Read(p)` with `len p = n`. -/
def connRead (n : Nat) (s : RdState) : ReadRes × RdState :=
  if s.unread.length > 0 then (.data (s.unread.take n), { s with unread := s.unread.drop n })
  else match s.queue with
    | [] => (.eof, s)
    | p :: q => (.data (p.take n), { unread := p.drop n, queue := q })

def ReadRes.bytes : ReadRes → Bytes
  | .data b => b
  | .eof => []

/-- A sequence of Reads with the given buffer sizes: the results and the final state. -/
def connReads : List Nat → RdState → List ReadRes × RdState
  | [], s => ([], s)
  | n :: ns, s =>
    let r := connRead n s
    let rs := connReads ns r.2
    (r.1 :: rs.1, rs.2)

/-- All bytes handed to the caller, in order. -/
def readBytes (rs : List ReadRes) : Bytes := (rs.map ReadRes.bytes).flatten

def RdState.init (payloads : List Bytes) : RdState := { unread := [], queue := payloads }

/-- What is still to be read. -/
def RdState.pending (s : RdState) : Bytes := s.unread ++ s.queue.flatten

/-- `Conn.Read` as it was BEFORE the fix (kept only to state what was wrong): `none` = panic("buffer overflow"). -/
def connReadPreFix (n : Nat) (queue : List Bytes) : Option (ReadRes × List Bytes) :=
  match queue with
  | [] => some (.eof, [])
  | p :: q => if n < p.length then none else some (.data p, q)

end Wl2k.Agwpe
