import Wl2kVerif.Agwpe.Conn
import Wl2kVerif.Agwpe.Demux
/-
Model of the host side of an AGWPE session as ONE application goroutine drives it
(`Port.register`, `Conn.connect`, inbound accept, `Conn.Write`, `Flush`, `Close`, `Read`), composed
with the deterministic reply policy of the simulated TNC (harness `sim_agwpe.go`):

* the TNC answers every `Y` with the next value of a scripted list; when the script is exhausted it
  answers 1 if a `D` frame arrived since its last `Y` answer, else 0;
* `g` and `X` are answered with the given data, `C`/`v` with a frame of the given kind and data,
  `d` with a `d`.

The polling loops (`waitOutstandingFrames`) are bounded by `fuel` = the number of 200 ms ticks before
the context deadline; what is emitted does not otherwise depend on time.
-/
namespace Wl2k.Agwpe
open Wl2k

structure SimSt where
  ys : List Nat
  afterD : Bool := false
deriving Repr

def SimSt.replyY (s : SimSt) : Nat × SimSt :=
  match s.ys with
  | y :: r => (y, { ys := r, afterD := false })
  | [] => (if s.afterD then 1 else 0, { ys := [], afterD := false })

structure Sess where
  port : UInt8
  mycall : Bytes
  sim : SimSt
  maxFrame : Nat := 7
  remote : Bytes := []
  trace : List Frame := []       -- frames the TNC has received, in order
  connClosed : Bool := false     -- c.demux.isClosed()
  closing : Bool := false
  rd : RdState := { unread := [], queue := [] }
  over : Bool := false           -- no connection (registration or dial failed)
  registered : Bool := false
deriving Repr

def Sess.emit (s : Sess) (f : Frame) : Sess := { s with trace := s.trace ++ [f] }

inductive PollRes | ok | eof | timeout
deriving DecidableEq, Repr

/-- Result of an API call as the application sees it. -/
inductive OpRes
  | ok                    -- nil error
  | okN (n : Nat)         -- (n, nil) / registration with MAXFRAME n
  | eof                   -- io.EOF
  | timeout               -- context deadline
  | fail (why : String)   -- any other error (class)
deriving DecidableEq, Repr

def OpRes.show (pre : String) : OpRes → String
  | .ok => pre ++ "=ok"
  | .okN n => pre ++ "=" ++ toString n
  | .eof => pre ++ "=eof"
  | .timeout => pre ++ "=timeout"
  | .fail w => pre ++ "=" ++ w

/-- `numOutstandingFrames`: send a `Y` query, take the TNC's answer. -/
def Sess.askY (s : Sess) : Nat × Sess :=
  let s1 := s.emit (outstandingFramesForConnFrame s.port s.mycall s.remote)
  (s1.sim.replyY.1, { s1 with sim := s1.sim.replyY.2 })

/-- `waitOutstandingFrames(ctx, stop)`: ask (`Y`), stop when `stop n`, else wait a tick and ask again. -/
def poll (stop : Nat → Bool) : Nat → Sess → Sess × PollRes
  | 0, s => (s, .timeout)
  | fuel + 1, s =>
    if s.connClosed then (s, .eof)
    else if stop s.askY.1 then (s.askY.2, .ok) else poll stop fuel s.askY.2

def pollFuel : Nat := 1000

def strPrefix (p s : Bytes) : Bool := s.take p.length == p

/-- "*** CONNECTED With " -/
def connectedWith : Bytes := [42, 42, 42, 32, 67, 79, 78, 78, 69, 67, 84, 69, 68, 32, 87, 105, 116, 104, 32]
/-- "*** CONNECTED To " -/
def connectedTo : Bytes := [42, 42, 42, 32, 67, 79, 78, 78, 69, 67, 84, 69, 68, 32, 84, 111, 32]

/-- `Port.register` against replies `g`(gdata) and `X`(xdata). -/
def Sess.register (s : Sess) (gdata xdata : Bytes) : Sess × OpRes :=
  let s1 := s.emit (portCapabilitiesFrame s.port)
  let mf := if gdata.length ≥ 12 then (gdata.getD 6 0).toNat else 7
  let s2 := { s1.emit (registerCallsignFrame s.mycall s.port) with maxFrame := mf }
  if xdata.length ≠ 1 then ({ s2 with over := true }, .fail "unexpected")
  else if xdata ≠ [1] then ({ s2 with over := true }, .fail "inuse")
  else ({ s2 with registered := true }, .okN mf)

/-- `Port.DialContext` → `Conn.connect` against a reply of kind `rkind` with data `rdata`. -/
def Sess.dial (s : Sess) (target : Bytes) (digis : List Bytes) (rkind : UInt8) (rdata : Bytes) : Sess × OpRes :=
  let s1 := { s.emit (connectFrame s.mycall target s.port digis) with remote := target }
  if rkind = kConnect then
    if strPrefix connectedWith rdata then (s1, .ok)
    else ({ s1.emit (disconnectFrame s.mycall target s.port) with over := true }, .fail "precond")
  else ({ s1 with over := true }, .fail "refused")

def Sess.accept (s : Sess) (remote : Bytes) : Sess × OpRes := ({ s with remote := remote }, .ok)

def PollRes.op : PollRes → OpRes
  | .ok => .ok
  | .eof => .eof
  | .timeout => .timeout

/-- The `D` frame goes out (and the simulated TNC notes that it got one). -/
def Sess.sendData (s : Sess) (p : Bytes) : Sess :=
  { s with trace := s.trace ++ [connectedDataFrame s.port s.mycall s.remote p], sim := { s.sim with afterD := true } }

/-- Result of Write after the second wait. -/
def writeRes (n : Nat) : PollRes → OpRes
  | .ok => .okN n
  | e => e.op

/-- `Conn.Write(p)`: wait until the TNC reports at most MAXFRAME outstanding frames, send one `D`
frame with the whole of `p`, wait until it reports at least one. -/
def Sess.write (s : Sess) (p : Bytes) : Sess × OpRes :=
  if s.closing then (s, .eof)
  else
    let r1 := poll (fun n => n ≤ s.maxFrame) pollFuel s
    match r1.2 with
    | .ok =>
      let r2 := poll (fun n => n > 0) pollFuel (r1.1.sendData p)
      (r2.1, writeRes p.length r2.2)
    | e => (r1.1, e.op)

/-- `Conn.Flush()`. -/
def Sess.flush (s : Sess) : Sess × OpRes :=
  let r := poll (fun n => n = 0) pollFuel s
  (r.1, r.2.op)

/-- The part of Close after the flush returned `r`: if the link went away while flushing (`io.EOF`)
nothing more is sent, else `d` (the TNC answers with a `d`). -/
def Sess.closeAfter (s : Sess) (r : Sess × PollRes) : Sess × OpRes :=
  match r.2 with
  | .eof => ({ r.1 with connClosed := true }, .ok)
  | _ => ({ r.1 with trace := r.1.trace ++ [disconnectFrame s.mycall s.remote s.port], connClosed := true }, .ok)

/-- `Conn.Close()`. -/
def Sess.close (s : Sess) : Sess × OpRes :=
  if s.closing || s.connClosed then (s, .ok)
  else s.closeAfter (poll (fun n => n = 0) pollFuel { s with closing := true })

/-- The TNC sends frames: those that pass the filters reach the data queue (nothing after the
connection's demux has closed). -/
def Sess.rx (s : Sess) (fs : List Frame) : Sess :=
  if s.connClosed then s
  else { s with rd := { s.rd with queue := s.rd.queue ++ (fs.filter (deliveredData s.port s.remote)).map (·.data) } }

/-- The remote station disconnects (`d` from the TNC for this connection). -/
def Sess.rxd (s : Sess) : Sess := { s with connClosed := true }

def showRead (live : Bool) : ReadRes → String
  | .data b => toHexField b
  | .eof => if live then "blk" else "eof"

def Sess.reads (s : Sess) (ns : List Nat) : Sess × String :=
  let r := connReads ns s.rd
  ({ s with rd := r.2 }, "rd=" ++ (if r.1.isEmpty then "_" else "/".intercalate (r.1.map (showRead (!s.connClosed)))))

inductive Step
  | reg (g x : Bytes)
  | dial (target : Bytes) (digis : List Bytes) (rkind : UInt8) (rdata : Bytes)
  | acc (remote : Bytes)
  | w (p : Bytes)
  | fl
  | cl
  | rx (fs : List Frame)
  | rxd
  | rd (ns : List Nat)
deriving Repr

def showReg : OpRes → String
  | .okN n => s!"reg=ok,{n}"
  | r => r.show "reg"

def Sess.step (s : Sess) : Step → Sess × String
  | .reg g x => let r := s.register g x; (r.1, showReg r.2)
  | .dial t d k r => let r := s.dial t d k r; (r.1, r.2.show "dial")
  | .acc r => let r := s.accept r; (r.1, r.2.show "acc")
  | .w p => let r := s.write p; (r.1, r.2.show "w")
  | .fl => let r := s.flush; (r.1, r.2.show "fl")
  | .cl => let r := s.close; (r.1, r.2.show "cl")
  | .rx fs => (s.rx fs, "rx")
  | .rxd => (s.rxd, "rxd")
  | .rd ns => s.reads ns

/-- Run a script; stops after a failed registration or dial. -/
def Sess.run : Sess → List Step → Sess × List String
  | s, [] => (s, [])
  | s, st :: rest =>
    if s.over then (s, [])
    else
      let r := s.step st
      let rr := Sess.run r.1 rest
      (rr.1, r.2 :: rr.2)

/-- End of the session: `Port.Close()` (unregister, `x`) if a port was registered, then `TNC.Close()`. -/
def Sess.finish (s : Sess) : Sess :=
  if s.registered then s.emit (unregisterCallsignFrame s.mycall s.port) else s

end Wl2k.Agwpe
