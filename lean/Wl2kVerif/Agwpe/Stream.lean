import Wl2kVerif.Agwpe.Frame
/-
Model of `frame.ReadFrom` / `TNC.run` over CHUNKED input. The TNC→host byte stream is a
`List Bytes`: each element is what becomes available to one `Read` at the earliest (a TCP segment /
one write of the peer). A `Read(p)` returns `min(len p, rest of the first non-empty chunk)` bytes;
the end of the list is the peer closing the connection (EOF). The header is always read with
`io.ReadFull` (`binary.Read`); the data field with the primitive the code uses — a single `Read`
before the `fix:` commit, `io.ReadFull` after. Which one is a regenerated fact
(`Gen.agwpeFrameReadFromCalls`), see `Props/C13.lean: dataReadFull_regenerated`.
-/
namespace Wl2k.Agwpe
open Wl2k

inductive RdErr | eof | unexpectedEOF
deriving DecidableEq, Repr

/-- `io.ReadFull(r, buf)` with `len buf = n`: the bytes obtained (fewer than `n` iff EOF came first)
and the remaining chunks. Zero-length chunks deliver nothing. -/
def readFull (n : Nat) : List Bytes → Bytes × List Bytes
  | [] => ([], [])
  | c :: rest =>
    if n = 0 then ([], c :: rest)
    else if c.length ≤ n then
      let r := readFull (n - c.length) rest
      (c ++ r.1, r.2)
    else (c.take n, c.drop n :: rest)

/-- A single `r.Read(buf)` with `len buf = n`. `none` = (0, io.EOF). A zero-length buffer returns
(0, nil) at once (net.Conn semantics). -/
def readOnce (n : Nat) : List Bytes → Option (Bytes × List Bytes)
  | [] => if n = 0 then some ([], []) else none
  | c :: rest =>
    if n = 0 then some ([], c :: rest)
    else if c.length = 0 then readOnce n rest
    else if c.length ≤ n then some (c, rest)
    else some (c.take n, c.drop n :: rest)

/-- One `frame.ReadFrom`. `full = true`: data by `io.ReadFull`; `false`: data by one `Read`.
Returns the frame and the remaining input, or the error the Go code returns. -/
def readFrame (full : Bool) (chunks : List Bytes) : Except RdErr (Frame × List Bytes) :=
  let hr := readFull headerSize chunks
  if hr.1.length = 0 then .error .eof
  else match decodeHeader hr.1 with
    | none => .error .unexpectedEOF            -- fewer than 36 bytes before EOF
    | some h =>
      if full then
        let dr := readFull h.dataLen hr.2
        if dr.1.length = h.dataLen then .ok (h.frame dr.1, dr.2)
        else if dr.1.length = 0 then .error .eof else .error .unexpectedEOF
      else
        match readOnce h.dataLen hr.2 with
        | none => .error .eof
        | some dr => if dr.1.length = h.dataLen then .ok (h.frame dr.1, dr.2) else .error .unexpectedEOF

/-- The `make([]byte, DataLen)` that `ReadFrom` performs right after the header, before any data
byte has been read: the allocation size for the NEXT frame of the input, if a header is there. -/
def allocOf (chunks : List Bytes) : Option Nat :=
  (decodeHeader (readFull headerSize chunks).1).map (·.dataLen)

/-- `TNC.run`: read frames until the first error. Every frame consumes at least 36 bytes, so
`fuel = total length + 1` is never exhausted (`decodeStream`). -/
def decodeStreamF (full : Bool) : Nat → List Bytes → List Frame × RdErr
  | 0, _ => ([], .eof)
  | fuel + 1, chunks =>
    match readFrame full chunks with
    | .error e => ([], e)
    | .ok (f, rest) => let r := decodeStreamF full fuel rest; (f :: r.1, r.2)

def decodeStream (full : Bool) (chunks : List Bytes) : List Frame × RdErr :=
  decodeStreamF full (chunks.flatten.length + 1) chunks

/-- Total bytes allocated by the read loop over an input (sum of all DataLen seen, including that of
a final incomplete frame). -/
def allocStreamF (full : Bool) : Nat → List Bytes → Nat
  | 0, _ => 0
  | fuel + 1, chunks =>
    (allocOf chunks).getD 0 +
    match readFrame full chunks with
    | .error _ => 0
    | .ok (_, rest) => allocStreamF full fuel rest

def allocStream (full : Bool) (chunks : List Bytes) : Nat := allocStreamF full (chunks.flatten.length + 1) chunks

end Wl2k.Agwpe
