import Wl2kVerif.Util.Hex
/-
Model of the adaptive Huffman part of `lzhuf/lzhuf.go`: `newLZHUFF`, `update`, `reconst`.
Arrays are read with `rd` (default 0) and written with `wr` (no-op out of range); every access the
Go code bounds-checks on data that can come from a remote stream is preceded by `chk`, which sets
the sticky flag `oob` when Go would panic with an index out of range. Loops carry fuel; running out
of fuel sets `spin` (the Go loop would not have terminated within the bound).
-/
namespace Wl2k.Lzhuf

def N : Nat := 2048
def F : Nat := 60
def THRESHOLD : Nat := 2
def NIL : Nat := N
def NCHAR : Nat := 256 - THRESHOLD + F      -- 314
def T : Nat := NCHAR * 2 - 1                -- 627
def R : Nat := T - 1                        -- 626
def MAXFREQ : Nat := 0x8000

@[inline] def rd (a : Array Nat) (i : Nat) : Nat := a.getD i 0
@[inline] def wr (a : Array Nat) (i v : Nat) : Array Nat := a.setIfInBounds i v

structure Huff where
  /-- `freq [_T + 1]uint` -/
  freq : Array Nat
  /-- `prnt [_T + _NumChar]int` -/
  prnt : Array Nat
  /-- `son [_T]int` -/
  son : Array Nat
  /-- an index was out of range: Go would have panicked -/
  oob : Bool := false
  /-- a loop ran out of fuel: Go would still be looping -/
  spin : Bool := false

@[inline] def Huff.chk (h : Huff) (c : Bool) : Huff := if c then h else { h with oob := true }

/-- first loop of `newLZHUFF` -/
def initLeaves (h : Huff) : Nat → Huff
  | 0 => h
  | k + 1 =>
    let h := initLeaves h k
    { h with freq := wr h.freq k 1, son := wr h.son k (k + T), prnt := wr h.prnt (k + T) k }

/-- second loop of `newLZHUFF`: `for i, j := 0, NCHAR; j <= R; { …; i += 2; j++ }`, `n` iterations done so far -/
def initInternal (h : Huff) : Nat → Huff
  | 0 => h
  | n + 1 =>
    let h := initInternal h n
    let i := 2 * n
    let j := NCHAR + n
    { h with freq := wr h.freq j (rd h.freq i + rd h.freq (i + 1)), son := wr h.son j i,
             prnt := wr (wr h.prnt i j) (i + 1) j }

/-- `newLZHUFF()` -/
def Huff.init : Huff :=
  let h : Huff := { freq := Array.replicate (T + 1) 0, prnt := Array.replicate (T + NCHAR) 0, son := Array.replicate T 0 }
  let h := initLeaves h NCHAR
  let h := initInternal h (R + 1 - NCHAR)
  { h with freq := wr h.freq T 0xffff, prnt := wr h.prnt R 0 }

/-! ### reconst -/

/-- leaf collection: `for i, j := 0, 0; i < T; i++ { if son[i] >= T { freq[j] = (freq[i]+1)/2; son[j] = son[i]; j++ } }`.
Processes `i = start .. start+n-1`; returns the state and `j`. -/
def collectLeaves (h : Huff) (j : Nat) (i : Nat) : Nat → Huff × Nat
  | 0 => (h, j)
  | n + 1 =>
    if rd h.son i ≥ T then
      let h := { h with freq := wr h.freq j ((rd h.freq i + 1) / 2), son := wr h.son j (rd h.son i) }
      collectLeaves h (j + 1) (i + 1) n
    else collectLeaves h j (i + 1) n

/-- `for k = j; first < freq[k-1]; { k-- }` -/
def findSlot (freq : Array Nat) (first : Nat) (k : Nat) : Nat → Nat
  | 0 => k
  | fuel + 1 => if k ≥ 1 ∧ first < rd freq (k - 1) then findSlot freq first (k - 1) fuel else k

/-- `copy(a[k+1:], a[k:k+last])`: shift `last` elements one place to the right (memmove semantics). -/
def shiftRight (a : Array Nat) (k : Nat) : Nat → Array Nat
  | 0 => a
  | last + 1 =>
    -- move the highest element first
    let a := wr a (k + last + 1) (rd a (k + last))
    shiftRight a k last

/-- second loop of `reconst`: `for i, j := 0, NCHAR; j < T; i, j = i+2, j+1`, iteration `n` (0-based). -/
def buildStep (h : Huff) (n : Nat) : Huff :=
  let i := 2 * n
  let j := NCHAR + n
  let f := rd h.freq i + rd h.freq (i + 1)
  let freq := wr h.freq j f
  let k := findSlot freq f j T
  let last := j - k
  let freq := wr (shiftRight freq k last) k f
  let son := wr (shiftRight h.son k last) k i
  { h with freq := freq, son := son }

def buildLoop (h : Huff) : Nat → Huff
  | 0 => h
  | n + 1 => buildStep (buildLoop h n) n

/-- third loop: connect parents. -/
def connect (h : Huff) : Nat → Huff
  | 0 => h
  | i + 1 =>
    let h := connect h i
    let k := rd h.son i
    if k ≥ T then { h with prnt := wr h.prnt k i }
    else { h with prnt := wr (wr h.prnt (k + 1) i) k i }

def reconst (h : Huff) : Huff :=
  let (h, _) := collectLeaves h 0 0 T
  let h := buildLoop h (T - NCHAR)
  connect h T

/-! ### update -/

/-- `for k > freq[l+1] { l++ }` -/
def scanUp (freq : Array Nat) (k : Nat) (l : Nat) : Nat → Nat
  | 0 => l
  | fuel + 1 => if k > rd freq (l + 1) then scanUp freq k (l + 1) fuel else l

/-- the exchange of nodes `c` and `l` in `update` (after `freq[c]` was incremented to `k`). -/
def swapNodes (h : Huff) (c l k : Nat) : Huff :=
  let h := h.chk (l + 1 < h.freq.size)
  let freq := wr (wr h.freq c (rd h.freq l)) l k
  let i := rd h.son c
  let prnt := wr h.prnt i l
  let prnt := if i < T then wr prnt (i + 1) l else prnt
  let j := rd h.son l
  let son := wr h.son l i
  let prnt := wr prnt j c
  let prnt := if j < T then wr prnt (j + 1) c else prnt
  let son := wr son c j
  { h with freq := freq, prnt := prnt, son := son }

/-- the `for { … }` loop of `update`, starting at node `c`. -/
def updateLoop (h : Huff) (c : Nat) : Nat → Huff
  | 0 => { h with spin := true }
  | fuel + 1 =>
    let h := h.chk (c + 1 < h.freq.size ∧ c < h.prnt.size ∧ c < h.son.size)
    let h := { h with freq := wr h.freq c (rd h.freq c + 1) }
    if rd h.freq c ≤ rd h.freq (c + 1) ∨ h.freq.size ≤ c + 2 then
      let c := rd h.prnt c
      if c = 0 then h else updateLoop h c fuel
    else
      let k := rd h.freq c
      let l := scanUp h.freq k (c + 1) T
      let h := swapNodes h c l k
      let c := rd h.prnt l
      if c = 0 then h else updateLoop h c fuel

/-- `update(c)` -/
def update (h : Huff) (c : Nat) : Huff :=
  let h := if rd h.freq R = MAXFREQ then reconst h else h
  let h := h.chk (c + T < h.prnt.size)
  updateLoop h (rd h.prnt (c + T)) (T + 1)

end Wl2k.Lzhuf
