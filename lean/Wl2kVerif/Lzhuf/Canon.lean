import Wl2kVerif.Lzhuf.Reader
/-
`Lzhuf.Canon`: the driver loops of the CANONICAL LZHUF (H. Yoshizaki, LZHUF.C; FBB parameters),
transcribed from the published algorithm: `Encode()` (all 60 pre-start nodes inserted after the
look-ahead is full, then `InsertNode(r)`; `DeleteNode(s)` before the store), `EncodeChar` with its
16-bit code accumulator, `Decode()` (window position `N − F`, bits past the end read as zero, the
last match may overrun the size). Node/tree primitives are shared with the library model
(`insertNode`, `deleteNode`, `update`, `reconst` are line-for-line the same in LZHUF.C).
An independent Go transcription lives in harness/cmd/corr/canon.go; the two are compared on every run.
-/
namespace Wl2k.Lzhuf.Canon
open Wl2k Wl2k.Lzhuf

structure Enc where
  w : Writer
  inp : Array UInt8
  ipos : Nat := 0
  maxLen : Nat := 0

def Enc.encodeChar (e : Enc) (c : Nat) : Enc :=
  let (_, j) := codeWalk e.w.h.prnt (rd e.w.h.prnt (c + T)) 0 0 (T + 1)
  { e with w := e.w.encodeCharOld c, maxLen := max e.maxLen j }

def prefill (e : Enc) : Nat → Enc
  | 0 => e
  | n + 1 =>
    let e := prefill e n
    if e.ipos < e.inp.size ∧ e.w.len = n then
      let b := e.inp.getD e.ipos 0
      { e with w := { e.w with z := { e.w.z with textBuf := e.w.z.textBuf.setIfInBounds (e.w.r + e.w.len) b }, len := e.w.len + 1 },
               ipos := e.ipos + 1 }
    else e

def insertBack (z : Tree) (r : Nat) : Nat → Tree
  | 0 => z
  | i + 1 => insertNode (insertBack z r i) (r - (i + 1))

/-- `for (i = 0; i < last && (c = getc()) != EOF; i++) { DeleteNode(s); text_buf[s] = c; …; InsertNode(r) }` → (state, i) -/
def shiftIn (e : Enc) (last : Nat) (i : Nat) : Nat → Enc × Nat
  | 0 => (e, i)
  | fuel + 1 =>
    if i < last ∧ e.ipos < e.inp.size then
      let c := e.inp.getD e.ipos 0
      let w := e.w
      let z := deleteNode w.z w.s
      let tb := z.textBuf.setIfInBounds w.s c
      let tb := if w.s < F - 1 then tb.setIfInBounds (w.s + N) c else tb
      let s := (w.s + 1) % N
      let r := (w.r + 1) % N
      let z := insertNode { z with textBuf := tb } r
      shiftIn { e with w := { w with z := z, s := s, r := r }, ipos := e.ipos + 1 } last (i + 1) fuel
    else (e, i)

/-- `while (i++ < last) { DeleteNode(s); s++; r++; if (--len) InsertNode(r); }` -/
def shiftOut (e : Enc) (last : Nat) (i : Nat) : Nat → Enc
  | 0 => e
  | fuel + 1 =>
    if i < last then
      let w := e.w
      let z := deleteNode w.z w.s
      let s := (w.s + 1) % N
      let r := (w.r + 1) % N
      let len := w.len - 1
      let z := if len ≠ 0 then insertNode z r else z
      shiftOut { e with w := { w with z := z, s := s, r := r, len := len } } last (i + 1) fuel
    else e

def mainLoop (e : Enc) : Nat → Enc
  | 0 => e
  | fuel + 1 =>
    let w := e.w
    let ml := if w.z.matchLength > w.len then w.len else w.z.matchLength
    let (e, last) :=
      if ml ≤ THRESHOLD then
        ((({ e with w := { w with z := { w.z with matchLength := 1 } } } : Enc).encodeChar (w.z.tb w.r).toNat), 1)
      else
        let e := ({ e with w := { w with z := { w.z with matchLength := ml } } } : Enc).encodeChar (255 - THRESHOLD + ml)
        ({ e with w := e.w.encodePosition e.w.z.matchPosition }, ml)
    let (e, i) := shiftIn e last 0 (F + 1)
    let e := shiftOut e last i (F + 1)
    if e.w.len > 0 then mainLoop e fuel else e

/-- `Encode()`: body bytes (after the size field) and the longest code emitted. -/
def encodeBody (x : Bytes) : Bytes × Nat :=
  if x.isEmpty then ([], 0)
  else
    let e : Enc := { w := Writer.new false, inp := x.toArray }
    let e := prefill e F
    let z := insertNode (insertBack e.w.z e.w.r F) e.w.r
    let e := { e with w := { e.w with z := z } }
    let e := mainLoop e (x.length + 1)
    ((e.w.encodeEnd).out.toList, e.maxLen)

def compress (crc16 : Bool) (x : Bytes) : Bytes :=
  let size := le32 (x.length % 4294967296)
  let body := (encodeBody x).1
  (if crc16 then le16 (crc (size ++ body)) else []) ++ size ++ body

/-- `Decode()` main loop on a `Reader` whose window starts at `N − F` -/
def copyAll (d : Reader) (i : Nat) (out : Array UInt8) : Nat → Nat → Reader × Array UInt8
  | _, 0 => (d, out)
  | k, j + 1 =>
    let c := d.textBuf.getD ((i + k) % N) 0
    copyAll (d.putOne c) i (out.push c) (k + 1) j

def decodeLoop (d : Reader) (out : Array UInt8) (size : Nat) : Nat → Array UInt8
  | 0 => out
  | fuel + 1 =>
    if out.size < size then
      let (d, c) := d.decodeChar
      if c < 256 then decodeLoop (d.putOne (UInt8.ofNat c)) (out.push (UInt8.ofNat c)) size fuel
      else
        let (d, p) := d.decodePosition
        let i := (d.r + 2 * N - p - 1) % N
        let (d, out) := copyAll d i out 0 (c - 255 + THRESHOLD)
        decodeLoop d out size fuel
    else out

/-- Canonical decoding of `body` for a declared `size` (the last match may overrun `size`). -/
def decodeBody (body : Bytes) (size : Nat) : Bytes :=
  let d : Reader := { h := Huff.init, textBuf := fillBytes (Array.replicate (N + F - 1) 0) 32 (N - F),
                      src := body.toArray, crc16 := false, size := size, sizeBytes := [], r := N - F }
  (decodeLoop d #[] size size).toList

end Wl2k.Lzhuf.Canon
