import Wl2kVerif.Lzhuf.Tree
import Wl2kVerif.Gen.Tables
/-
Model of `lzhuf/writer.go` and `lzhuf/crc.go`.
`pCode/pLen` and `crc16tab` are the tables REGENERATED from /repo (`Gen.Tables`); `Props.C07`
re-proves on every run that they are the canonical ones.
-/
namespace Wl2k.Lzhuf

structure Writer where
  z : Tree
  h : Huff
  /-- `buf *bytes.Buffer` (the compressed body) -/
  out : Array UInt8
  /-- `putbuf uint` -/
  putbuf : UInt64
  /-- `putlen uint8` -/
  putlen : Nat
  len : Nat
  r : Nat
  s : Nat
  lastMatchLength : Int
  preFilled : Bool
  /-- `fileSize int32` (kept as a natural number; the header write takes it mod 2^32) -/
  fileSize : Nat
  crc16 : Bool

def fillBytes (a : Array UInt8) (v : UInt8) : Nat → Array UInt8
  | 0 => a
  | n + 1 => (fillBytes a v n).setIfInBounds n v

/-- `NewWriter(w, crc16)` -/
def Writer.new (crc16 : Bool) : Writer :=
  let z := Tree.init
  { z := { z with textBuf := fillBytes z.textBuf 32 (N - F) }, h := Huff.init, out := #[],
    putbuf := 0, putlen := 0, len := 0, r := N - F, s := 0, lastMatchLength := 0,
    preFilled := false, fileSize := 0, crc16 := crc16 }

/-- `putCode(l, c)`: `c` carries the code in its top-of-16 bits. -/
def Writer.putCode (w : Writer) (l : Nat) (c : UInt64) : Writer :=
  let putbuf := w.putbuf ||| (c >>> (UInt64.ofNat w.putlen))
  let putlen := (w.putlen + l) % 256
  if putlen < 8 then { w with putbuf := putbuf, putlen := putlen }
  else
    let out := w.out.push (putbuf >>> 8).toUInt8
    let putlen := putlen - 8
    if putlen ≥ 8 then
      let out := out.push putbuf.toUInt8
      let putlen := putlen - 8
      { w with out := out, putlen := putlen, putbuf := c <<< (UInt64.ofNat (l - putlen)) }
    else
      { w with out := out, putlen := putlen, putbuf := putbuf <<< 8 }

/-- the leaf-to-root walk of the CANONICAL `EncodeChar` (16-bit accumulator): (code `i`, length `j`).
Kept for `Lzhuf.Canon`; the library used this form before the `fix:` commit. -/
def codeWalk (prnt : Array Nat) (k : Nat) (i : UInt64) (j : Nat) : Nat → UInt64 × Nat
  | 0 => (i, j)
  | fuel + 1 =>
    let i := i >>> 1
    let j := j + 1
    let i := if k % 2 = 1 then i + 0x8000 else i
    let k := rd prnt k
    if k = R then (i, j) else codeWalk prnt k i j fuel

/-- the leaf-to-root walk of `encodeChar` (after the fix): the code is collected MSB-first in a
64-bit word. -/
def codeWalk64 (prnt : Array Nat) (k : Nat) (i : UInt64) (j : Nat) : Nat → UInt64 × Nat
  | 0 => (i, j)
  | fuel + 1 =>
    let i := i >>> 1
    let j := j + 1
    let i := if k % 2 = 1 then i ||| ((1 : UInt64) <<< 63) else i
    let k := rd prnt k
    if k = R then (i, j) else codeWalk64 prnt k i j fuel

/-- `for j > 0 { n := min(j,16); putCode(n, uint(i>>48) & (0xffff << (16-n))); i <<= n; j -= n }` -/
def Writer.putPieces (w : Writer) (i : UInt64) (j : Nat) : Nat → Writer
  | 0 => w
  | fuel + 1 =>
    if j > 0 then
      let n := if j > 16 then 16 else j
      let w := w.putCode n ((i >>> 48) &&& (0xffff <<< (UInt64.ofNat (16 - n))))
      Writer.putPieces w (i <<< (UInt64.ofNat n)) (j - n) fuel
    else w

/-- `encodeChar(c)` -/
def Writer.encodeChar (w : Writer) (c : Nat) : Writer :=
  let (i, j) := codeWalk64 w.h.prnt (rd w.h.prnt (c + T)) 0 0 (T + 1)
  let w := w.putPieces i j (j + 1)
  { w with h := update w.h c }

/-- The library's `encodeChar` BEFORE the fix (16-bit accumulator handed to one `putCode`). -/
def Writer.encodeCharOld (w : Writer) (c : Nat) : Writer :=
  let (i, j) := codeWalk w.h.prnt (rd w.h.prnt (c + T)) 0 0 (T + 1)
  let w := w.putCode j i
  { w with h := update w.h c }

def tbl (t : List Nat) (i : Nat) : Nat := t.getD i 0

/-- `encodePosition(c)` -/
def Writer.encodePosition (w : Writer) (c : Nat) : Writer :=
  let i := c >>> 6
  let w := w.putCode (tbl Gen.pLen i) (UInt64.ofNat (tbl Gen.pCode i) <<< 8)
  w.putCode 6 (UInt64.ofNat (c &&& 0x3f) <<< 10)

/-- `encode()` -/
def Writer.encode (w : Writer) : Writer :=
  if w.len = 0 then w
  else
    let ml := if w.z.matchLength > w.len then w.len else w.z.matchLength
    if ml ≤ THRESHOLD then
      let w := { w with z := { w.z with matchLength := 1 } }
      let w := w.encodeChar (w.z.tb w.r).toNat
      { w with lastMatchLength := 1 }
    else
      let w := { w with z := { w.z with matchLength := ml } }
      let w := w.encodeChar (255 - THRESHOLD + ml)
      let w := w.encodePosition w.z.matchPosition
      { w with lastMatchLength := ml }

/-- `advance(c)`; `none` is the nil pointer used by `Close`. -/
def Writer.advance (w : Writer) (c : Option UInt8) : Writer :=
  let w := match c with
    | some b =>
      let tbuf := w.z.textBuf.setIfInBounds w.s b
      let tbuf := if w.s < F - 1 then tbuf.setIfInBounds (w.s + N) b else tbuf
      { w with z := { w.z with textBuf := tbuf }, len := w.len + 1 }
    | none => w
  let w := { w with z := insertNode w.z w.r }
  let w := { w with lastMatchLength := w.lastMatchLength - 1 }
  let w := if w.lastMatchLength = 0 then w.encode else w
  let w := { w with z := deleteNode w.z w.s }
  { w with s := (w.s + 1) % N, r := (w.r + 1) % N, len := w.len - 1 }

/-- one input byte of `Write`: the pre-fill loop or `advance`. -/
def Writer.writeByte (w : Writer) (b : UInt8) : Writer :=
  if !w.preFilled then
    let tbuf := w.z.textBuf.setIfInBounds (w.r + w.len) b
    let w := { w with z := { w.z with textBuf := tbuf }, fileSize := w.fileSize + 1, len := w.len + 1 }
    let w := { w with z := insertNode w.z (w.r - w.len) }
    { w with lastMatchLength := 1, preFilled := w.len = F }
  else
    let w := w.advance (some b)
    { w with fileSize := w.fileSize + 1 }

/-- `Write(p)` -/
def Writer.write (w : Writer) (p : Bytes) : Writer := p.foldl Writer.writeByte w

def Writer.drain (w : Writer) : Nat → Writer
  | 0 => w
  | fuel + 1 => if w.len > 0 then (w.advance none).drain fuel else w

/-- `encodeEnd()` -/
def Writer.encodeEnd (w : Writer) : Writer :=
  if w.putlen = 0 then w else { w with out := w.out.push (w.putbuf >>> 8).toUInt8 }

/-! ### CRC (lzhuf/crc.go) -/

/-- `udpCRC16(cp, sum)` on `crc16 = uint16` -/
def udpCRC16 (cp : Nat) (sum : Nat) : Nat :=
  ((sum <<< 8) &&& 0xff00) ^^^ tbl Gen.crc16tab ((sum >>> 8) &&& 0xff) ^^^ cp

/-- `crc(p)`: table-driven, with the two augmentation zero bytes. -/
def crc (p : Bytes) : Nat :=
  let s := p.foldl (fun s b => udpCRC16 b.toNat s) 0
  udpCRC16 0 (udpCRC16 0 s)

def le16 (n : Nat) : Bytes := [UInt8.ofNat (n % 256), UInt8.ofNat (n / 256 % 256)]
def le32 (n : Nat) : Bytes :=
  [UInt8.ofNat (n % 256), UInt8.ofNat (n / 256 % 256), UInt8.ofNat (n / 65536 % 256), UInt8.ofNat (n / 16777216 % 256)]

/-- `Close()`: the complete output stream. -/
def Writer.close (w : Writer) : Bytes :=
  let w := w.drain (F + 1)
  let w := w.encode
  let w := w.encodeEnd
  let size := le32 (w.fileSize % 4294967296)
  let body := w.out.toList
  (if w.crc16 then le16 (crc (size ++ body)) else []) ++ size ++ body

/-- compress a whole input through one `Write` and `Close` -/
def compress (crc16 : Bool) (x : Bytes) : Bytes := ((Writer.new crc16).write x).close

end Wl2k.Lzhuf
