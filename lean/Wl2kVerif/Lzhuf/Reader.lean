import Wl2kVerif.Lzhuf.Writer
/-
Model of `lzhuf/reader.go` + `lzhuf/bit_reader.go` (after the two `fix:` commits: EOF test
`pos >= size`, and a match that runs past the declared size sets ErrChecksum instead of being delivered).
The source is a byte string read through `bufio.Reader` (4096-byte fills) behind an `io.TeeReader`
that feeds the CRC: `pulled` counts the body bytes the CRC has seen.
-/
namespace Wl2k.Lzhuf

inductive RErr where
  | eof | unexpectedEOF | checksum
deriving DecidableEq, Repr

def RErr.show : Option RErr → String
  | none => "nil" | some .eof => "eof" | some .unexpectedEOF => "ueof" | some .checksum => "checksum"

structure Reader where
  h : Huff
  textBuf : Array UInt8
  /-- the bytes after the header -/
  src : Array UInt8
  bpos : Nat := 0
  pulled : Nat := 0
  bn : UInt64 := 0
  bbits : Nat := 0
  /-- bitReader.err (always io.ErrUnexpectedEOF when set) -/
  berr : Bool := false
  /-- d.err -/
  err : Option RErr := none
  crc16 : Bool
  hcrc : Nat := 0
  /-- header.size (int32) -/
  size : Int
  sizeBytes : Bytes
  pos : Nat := 0
  r : Nat
  /-- state.buf: decoded but not yet read -/
  pending : Bytes := []

def int32OfLE (b : Bytes) : Int :=
  let u := (b.getD 0 0).toNat + 256 * (b.getD 1 0).toNat + 65536 * (b.getD 2 0).toNat + 16777216 * (b.getD 3 0).toNat
  if u ≥ 2147483648 then (u : Int) - 4294967296 else u

/-- `NewReader(r, crc16)`: `.error e` is the error return (with a nil Reader when the CRC field is short). -/
def Reader.new (crc16 : Bool) (s : Bytes) : Except RErr Reader :=
  let hdr := if crc16 then 2 else 0
  if crc16 ∧ s.length < 2 then .error (if s.length = 0 then .eof else .unexpectedEOF)
  else
    let rest := s.drop hdr
    if rest.length < 4 then .error (if rest.length = 0 then .eof else .unexpectedEOF)
    else
      let sz := rest.take 4
      .ok { h := Huff.init,
            textBuf := fillBytes (Array.replicate (N + F - 1) 0) 32 (N - F),
            src := (rest.drop 4).toArray, crc16 := crc16,
            hcrc := (s.getD 0 0).toNat + 256 * (s.getD 1 0).toNat,
            size := int32OfLE sz, sizeBytes := sz, r := N - F }

/-- `bufio.Reader.ReadByte` over the tee: refill (up to 4096 bytes) when the buffer is empty. -/
def Reader.readByte (d : Reader) : Reader × Option UInt8 :=
  if d.bpos < d.pulled then ({ d with bpos := d.bpos + 1 }, some (d.src.getD d.bpos 0))
  else if d.pulled < d.src.size then
    let d := { d with pulled := min d.src.size (d.pulled + 4096) }
    ({ d with bpos := d.bpos + 1 }, some (d.src.getD d.bpos 0))
  else (d, none)

/-- `ReadBits(bits)` for bits ∈ {1, 8} (at most one byte is needed). -/
def Reader.readBits (d : Reader) (bits : Nat) : Reader × Nat :=
  let (d, ok) :=
    if bits > d.bbits then
      match d.readByte with
      | (d, some b) => ({ d with bn := (d.bn <<< 8) ||| b.toUInt64, bbits := d.bbits + 8 }, true)
      | (d, none) => ({ d with berr := true }, false)
    else (d, true)
  if !ok then (d, 0)
  else
    let v := (d.bn >>> (UInt64.ofNat (d.bbits - bits))) &&& ((1 <<< (UInt64.ofNat bits)) - 1)
    ({ d with bbits := d.bbits - bits }, v.toNat)

/-- the root-to-leaf walk of `decodeChar` -/
def Reader.walk (d : Reader) (c : Nat) : Nat → Reader × Nat
  | 0 => ({ d with h := { d.h with spin := true } }, c)
  | fuel + 1 =>
    if c < T then
      let (d, b) := d.readBits 1
      let c := c + b
      let d := { d with h := d.h.chk (c < d.h.son.size) }
      Reader.walk d (rd d.h.son c) fuel
    else (d, c)

/-- `decodeChar()` -/
def Reader.decodeChar (d : Reader) : Reader × Nat :=
  let (d, c) := d.walk (rd d.h.son R) (T + 1)
  let c := c - T
  ({ d with h := update d.h c }, c)

def Reader.lowBits (d : Reader) (i : Nat) : Nat → Reader × Nat
  | 0 => (d, i)
  | j + 1 =>
    let (d, b) := d.readBits 1
    Reader.lowBits d ((i <<< 1) + b) j

/-- `decodePosition()` -/
def Reader.decodePosition (d : Reader) : Reader × Nat :=
  let (d, i) := d.readBits 8
  let c := tbl Gen.dCode i <<< 6
  let j := tbl Gen.dLen i
  let (d, i) := d.lowBits i (j - 2)
  (d, c ||| (i &&& 0x3f))

def Reader.putOne (d : Reader) (c : UInt8) : Reader :=
  { d with textBuf := d.textBuf.setIfInBounds d.r c, r := (d.r + 1) % N, pos := d.pos + 1 }

/-- the match copy loop; `out` is what went into `p` (reversed), `room` = len(p) - n -/
def Reader.copyMatch (d : Reader) (i : Nat) (out : Bytes) (room : Nat) : Nat → Nat → Reader × Bytes × Nat × Bool
  | _, 0 => (d, out, room, false)
  | k, j + 1 =>
    if (d.pos : Int) ≥ d.size then ({ d with err := some .checksum }, out, room, true)
    else
      let c := d.textBuf.getD ((i + k) % N) 0
      if room > 0 then
        Reader.copyMatch (d.putOne c) i (c :: out) (room - 1) (k + 1) j
      else
        Reader.copyMatch ({ d with pending := d.pending ++ [c] }.putOne c) i out room (k + 1) j

/-- the decode loop of `Read` -/
def Reader.fill (d : Reader) (out : Bytes) (room : Nat) : Nat → Reader × Bytes
  | 0 => (d, out)
  | fuel + 1 =>
    if room > 0 ∧ !d.berr ∧ (d.pos : Int) < d.size then
      let (d, c) := d.decodeChar
      if c < 256 then
        Reader.fill (d.putOne (UInt8.ofNat c)) (UInt8.ofNat c :: out) (room - 1) fuel
      else
        let (d, p) := d.decodePosition
        let i := (d.r + 2 * N - p - 1) % N
        let j := c - 255 + THRESHOLD
        let (d, out, room, stop) := d.copyMatch i out room 0 j
        if stop then (d, out) else Reader.fill d out room fuel
    else (d, out)

/-- `Read(p)` with `len(p) = m`: new state, the bytes stored in `p[:n]`, and the error. -/
def Reader.read (d : Reader) (m : Nat) : Reader × Bytes × Option RErr :=
  let d := if d.berr then { d with err := some .unexpectedEOF } else d
  if !d.berr ∧ (d.pos : Int) ≥ d.size ∧ d.pending.isEmpty then (d, [], some .eof)
  else if d.err.isSome then (d, [], d.err)
  else
    let got := d.pending.take m
    let d := { d with pending := d.pending.drop m }
    let (d, out) := d.fill got.reverse (m - got.length) (m + 1)
    (d, out.reverse, none)

/-- `Close()` -/
def Reader.close (d : Reader) : Option RErr :=
  if d.err.isSome then d.err
  else if d.berr then some .unexpectedEOF
  else if d.crc16 ∧ d.hcrc ≠ crc (d.sizeBytes ++ (d.src.extract 0 d.pulled).toList) then some .checksum
  else if d.size ≠ (d.pos : Int) - d.pending.length then some .checksum
  else none

end Wl2k.Lzhuf
