import Wl2kVerif.Lzhuf.Huff
/-
Model of the LZSS binary-search-tree part of `lzhuf/lzhuf.go`: `InitTree`, `InsertNode`, `DeleteNode`.
-/
namespace Wl2k.Lzhuf

structure Tree where
  /-- `dad [_N + 1]int` -/
  dad : Array Nat
  /-- `lson [_N + 1]int` -/
  lson : Array Nat
  /-- `rson [_N + 257]int` -/
  rson : Array Nat
  /-- `textBuf [_N + _F - 1]byte` -/
  textBuf : Array UInt8
  matchLength : Nat := 0
  matchPosition : Nat := 0

@[inline] def Tree.tb (z : Tree) (i : Nat) : UInt8 := z.textBuf.getD i 0

def fillFrom (a : Array Nat) (v : Nat) (start : Nat) : Nat → Array Nat
  | 0 => a
  | n + 1 => wr (fillFrom a v start n) (start + n) v

/-- zero-valued struct + `InitTree()` -/
def Tree.init : Tree :=
  { dad := fillFrom (Array.replicate (N + 1) 0) NIL 0 N,
    lson := Array.replicate (N + 1) 0,
    rson := fillFrom (Array.replicate (N + 257) 0) NIL (N + 1) 256,
    textBuf := Array.replicate (N + F - 1) 0 }

/-- `for i = 1; i < F; i++ { cmp = key[i] - textBuf[p+i]; if cmp != 0 break }` → (i, cmp) -/
def compareFrom (z : Tree) (r p : Nat) (i : Nat) : Nat → Nat × Int
  | 0 => (i, 0)
  | fuel + 1 =>
    if i < F then
      let cmp : Int := (z.tb (r + i)).toNat - (z.tb (p + i)).toNat
      if cmp ≠ 0 then (i, cmp) else compareFrom z r p (i + 1) fuel
    else (i, 0)

/-- replacement of node `p` by `r` at the end of `InsertNode` (match of full length F). -/
def replaceNode (z : Tree) (r p : Nat) : Tree :=
  let dad := wr z.dad r (rd z.dad p)
  let lson := wr z.lson r (rd z.lson p)
  let rson := wr z.rson r (rd z.rson p)
  let dad := wr dad (rd lson p) r
  let dad := wr dad (rd rson p) r
  let z := { z with dad := dad, lson := lson, rson := rson }
  let z := if rd z.rson (rd z.dad p) = p then { z with rson := wr z.rson (rd z.dad p) r }
           else { z with lson := wr z.lson (rd z.dad p) r }
  { z with dad := wr z.dad p NIL }

/-- the descent loop of `InsertNode`. `cmp` is the sign of the last comparison. -/
def insertLoop (z : Tree) (r p : Nat) (cmp : Int) : Nat → Tree
  | 0 => z
  | fuel + 1 =>
    -- step to the child, or attach
    let step : Option Nat :=
      if cmp ≥ 0 then (if rd z.rson p ≠ NIL then some (rd z.rson p) else none)
      else (if rd z.lson p ≠ NIL then some (rd z.lson p) else none)
    match step with
    | none =>
      if cmp ≥ 0 then { z with rson := wr z.rson p r, dad := wr z.dad r p }
      else { z with lson := wr z.lson p r, dad := wr z.dad r p }
    | some p =>
      let (i, cmp) := compareFrom z r p 1 F
      if i > THRESHOLD then
        -- ((r - p) & (N-1)) - 1 ; r ≠ p for a node already in the tree, so the masked value is ≥ 1
        let pos := ((r + N - p) % N) - 1
        if i > z.matchLength then
          let z := { z with matchPosition := pos, matchLength := i }
          if z.matchLength ≥ F then replaceNode z r p      -- `break`
          else insertLoop z r p cmp fuel
        else if i = z.matchLength ∧ pos < z.matchPosition then
          insertLoop { z with matchPosition := pos } r p cmp fuel
        else insertLoop z r p cmp fuel
      else insertLoop z r p cmp fuel

/-- `InsertNode(r)` -/
def insertNode (z : Tree) (r : Nat) : Tree :=
  let p := N + 1 + (z.tb r).toNat
  let z := { z with rson := wr z.rson r NIL, lson := wr z.lson r NIL, matchLength := 0 }
  insertLoop z r p 1 (N + 2)

/-- `for rson[q] != NIL { q = rson[q] }` -/
def rightmost (rson : Array Nat) (q : Nat) : Nat → Nat
  | 0 => q
  | fuel + 1 => if rd rson q ≠ NIL then rightmost rson (rd rson q) fuel else q

/-- `DeleteNode(p)` -/
def deleteNode (z : Tree) (p : Nat) : Tree :=
  if rd z.dad p = NIL then z
  else
    let (z, q) :=
      if rd z.rson p = NIL then (z, rd z.lson p)
      else if rd z.lson p = NIL then (z, rd z.rson p)
      else
        let q := rd z.lson p
        if rd z.rson q ≠ NIL then
          let q := rightmost z.rson q (N + 2)
          let rson := wr z.rson (rd z.dad q) (rd z.lson q)
          let dad := wr z.dad (rd z.lson q) (rd z.dad q)
          let lson := wr z.lson q (rd z.lson p)
          let dad := wr dad (rd lson p) q
          let rson := wr rson q (rd rson p)
          let dad := wr dad (rd rson p) q
          ({ z with dad := dad, lson := lson, rson := rson }, q)
        else
          let rson := wr z.rson q (rd z.rson p)
          let dad := wr z.dad (rd rson p) q
          ({ z with dad := dad, rson := rson }, q)
    let dad := wr z.dad q (rd z.dad p)
    let z := { z with dad := dad }
    let z := if rd z.rson (rd z.dad p) = p then { z with rson := wr z.rson (rd z.dad p) q }
             else { z with lson := wr z.lson (rd z.dad p) q }
    { z with dad := wr z.dad p NIL }

end Wl2k.Lzhuf
