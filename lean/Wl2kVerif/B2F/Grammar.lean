import Wl2kVerif.B2F.Proc
import Wl2kVerif.Std.Strconv
import Wl2kVerif.Std.Strings
/-
SPECIFICATION: the B2F OUTPUT grammar, as a deterministic monitor over the byte strings a Session hands
to the connection (`Ev.wrote bs`, one event per flush), in order. It is written independently of the
session model (it shares only `Std.splitOn` and `Strconv.isDigit/digitsVal`), it is executable, and it is
meant to be read: every recogniser below is one clause of the protocol.

  start ──MOTD line*──▶ motd ──handshake(master)──▶ idle []
  start ──handshake(slave)──▶ myTurn
  myTurn / idle ──"FF"──▶ idle []          myTurn / idle ──"FQ"──▶ ended
  myTurn / idle ──proposal line──▶ block 1 … ──proposal line (≤ 5)──▶ block k ──"F> HH"──▶ idle [csizes]
  idle (pending csizes) ──SOH header──▶ xfer ──STX block*──▶ xfer ──EOT ck──▶ idle (rest of the csizes)
  idle ──"FS <answers>"──▶ myTurn          (after an answer line the next thing written opens OUR turn)
  any state but block / xfer-with-data / ended ──"*** text" CR LF──▶ ended      ended: nothing more

Handler calls and peeks do not move the monitor.
-/
namespace Wl2k.B2F.Grammar
open Wl2k Wl2k.Str Wl2k.Strconv

/-! ### character classes and numbers -/

def isAlnum (b : UInt8) : Bool := (48 ≤ b && b ≤ 57) || (65 ≤ b && b ≤ 90) || (97 ≤ b && b ≤ 122)
/-- printable ASCII, blank included -/
def isPrint (b : UInt8) : Bool := 32 ≤ b && b ≤ 126
/-- a decimal number: one or more digits -/
def isNum (s : Bytes) : Bool := !s.isEmpty && s.all isDigit
/-- a message id: 1..12 letters and digits -/
def isMid (s : Bytes) : Bool := 1 ≤ s.length && s.length ≤ 12 && s.all isAlnum
/-- a call sign, possibly with SSID: letters, digits, '-' -/
def isCall (s : Bytes) : Bool := !s.isEmpty && s.all (fun b => isAlnum b || b == 45)
/-- a forwarding address: letters, digits and `@ . : _ -` -/
def isAddr (s : Bytes) : Bool :=
  !s.isEmpty && s.all (fun b => isAlnum b || b == 64 || b == 46 || b == 58 || b == 95 || b == 45)
/-- a secure-login response: exactly eight digits -/
def isHash (s : Bytes) : Bool := s.length == 8 && s.all isDigit
/-- the 8-bit sum of a byte string (not reduced) -/
def byteSum (d : Bytes) : Nat := d.foldl (fun s b => s + b.toNat) 0
/-- two's complement of the low 8 bits -/
def neg8 (sum : Nat) : Nat := (256 - sum % 256) % 256
/-- one upper-case hex digit -/
def hexDigitU (n : Nat) : UInt8 := if n % 16 < 10 then UInt8.ofNat (48 + n % 16) else UInt8.ofNat (55 + n % 16)
/-- two upper-case hex digits of a byte value -/
def hex2 (n : Nat) : Bytes := [hexDigitU (n / 16), hexDigitU n]

/-! ### handshake lines (without their CR) -/

/-- one `;FW:` item `addr` or `addr|hash`: `some hasHash` -/
def fwItem (it : Bytes) : Option Bool :=
  match splitOn 124 it with
  | [a] => if isAddr a then some false else none
  | [a, h] => if isAddr a && isHash h then some true else none
  | _ => none

/-- `;FW: <addr>( <addr>[|<8 digits>])*` — the first address never carries a hash, the others only in a
secure login (`secure`) -/
def isFwLine (secure : Bool) (l : Bytes) : Bool :=
  match splitOn 32 l with
  | tag :: first :: more =>
    tag == [59, 70, 87, 58] && fwItem first == some false &&
      more.all (fun it => match fwItem it with | some h => !h || secure | none => false)
  | _ => false

/-- `[<name>-<version>-<features>]`: the text after the LAST '-' is `B2FHM$` or `B2FHMG$`, there are at
least two '-', and name-version is printable without brackets -/
def isSidLine (l : Bytes) : Bool :=
  match l, (splitOn 45 l).reverse with
  | 91 :: body, feats :: _ :: _ :: _ =>
    (feats == [66, 50, 70, 72, 77, 36, 93] || feats == [66, 50, 70, 72, 77, 71, 36, 93]) &&
      body.dropLast.all (fun b => isPrint b && b != 91 && b != 93)
  | _, _ => false

/-- `;PR: <8 digits>` -/
def isPrLine (l : Bytes) : Bool := l.take 5 == [59, 80, 82, 58, 32] && isHash (l.drop 5)

/-- `(<locator>)`, locator = letters and digits (may be empty) -/
def isLoc (s : Bytes) : Bool :=
  match s with
  | 40 :: r => r.getLast? == some 41 && r.dropLast.all isAlnum
  | _ => false

/-- `; <TARGET> DE <MYCALL> (<locator>)`, with the prompt `>` appended by a master: `some isMaster` -/
def idLine (l : Bytes) : Option Bool :=
  match splitOn 32 l with
  | [semi, target, de, mycall, loc] =>
    if semi == [59] && isCall target && de == [68, 69] && isCall mycall then
      if isLoc loc then some false
      else if loc.getLast? == some 62 && isLoc loc.dropLast then some true
      else none
    else none
  | _ => none

/-- The handshake, written in ONE flush: `;FW` line, SID, (`;PR` line,) identification line, each
ended by CR. `some isMaster`. A `;PR` line (and `|hash` items) only from a slave answering a challenge. -/
def handshake? (bs : Bytes) : Option Bool :=
  match splitOn 13 bs with
  | [fw, sid, id, []] => if isFwLine false fw && isSidLine sid then idLine id else none
  | [fw, sid, pr, id, []] =>
    if isFwLine true fw && isSidLine sid && isPrLine pr && idLine id == some false then some false else none
  | _ => none

/-- a MOTD line (master, before the handshake): printable text + CR that cannot be mistaken for a
handshake line, an error line or the prompt -/
def isMotdLine (bs : Bytes) : Bool :=
  match splitOn 13 bs with
  | [l, []] =>
    l.all isPrint && l.getLast? != some 62 && l.head? != some 59 && l.head? != some 91 && l.head? != some 42
  | _ => false

/-! ### turn lines (with their CR) -/

/-- `FC EM <mid> <usize> <csize> 0` CR: `some csize` -/
def propLine? (bs : Bytes) : Option Nat :=
  match splitOn 32 bs with
  | [fc, em, mid, usize, csize, z] =>
    if fc == [70, 67] && em == [69, 77] && isMid mid && isNum usize && isNum csize && z == [48, 13]
    then some (digitsVal csize) else none
  | _ => none

/-- `F> HH` CR for a block whose proposal lines (CRs included) sum to `sum` -/
def promptOf (sum : Nat) : Bytes := [70, 62, 32] ++ hex2 (neg8 sum) ++ [13]

/-- `FS <answers>` CR, at least one answer, each of `+ - =` -/
def isFsLine (bs : Bytes) : Bool :=
  match bs with
  | 70 :: 83 :: 32 :: r =>
    match splitOn 13 r with
    | [as, []] => !as.isEmpty && as.all (fun a => a == 43 || a == 45 || a == 61)
    | _ => false
  | _ => false

def lineFF : Bytes := [70, 70, 13]
def lineFQ : Bytes := [70, 81, 13]

/-- `*** <text>` CR LF, no CR inside the text -/
def isErrEcho (bs : Bytes) : Bool :=
  bs.take 4 == [42, 42, 42, 32] &&
    match splitOn 13 (bs.drop 4) with
    | [_, [10]] => true
    | _ => false

/-! ### transfers -/

/-- `SOH len <title> NUL <offset> NUL` with len = |title| + |offset| + 2, title non-empty printable
ASCII, offset decimal: `some offset` -/
def header? (bs : Bytes) : Option Nat :=
  match bs with
  | 1 :: len :: r =>
    match splitOn 0 r with
    | [title, off, []] =>
      if len.toNat == title.length + off.length + 2 && !title.isEmpty && title.all isPrint && isNum off
      then some (digitsVal off) else none
    | _ => none
  | _ => none

/-- the pending compressed sizes after the first one equal to `x` (transfers follow proposal order) -/
def dropThrough (x : Nat) : List Nat → Option (List Nat)
  | [] => none
  | y :: r => if y = x then some r else dropThrough x r

/-! ### the monitor -/

inductive GState where
  /-- nothing written yet -/
  | start
  /-- MOTD lines written, the master's handshake is due -/
  | motd
  /-- the next thing written opens our turn (after a slave's handshake, after an `FS` line) -/
  | myTurn
  /-- between units; `pend` = compressed sizes of the last block's proposals not yet passed by a transfer -/
  | idle (pend : List Nat)
  /-- inside a proposal block: `k` lines so far, their byte sum, their compressed sizes -/
  | block (k sum : Nat) (csizes : List Nat)
  /-- inside a transfer: offset from the header, data bytes and their sum so far -/
  | xfer (off len sum : Nat) (pend : List Nat)
  /-- `FQ` or the error line has been written -/
  | ended
deriving Repr, DecidableEq

/-- may the error line `*** …` be written here? Not inside a proposal block, not after the first data
block of a transfer, not twice. -/
def errAllowed : GState → Bool
  | .block _ _ _ => false
  | .xfer _ len _ _ => len == 0
  | .ended => false
  | _ => true

/-- opening of our turn -/
def turnOpen (bs : Bytes) : Option GState :=
  if bs = lineFF then some (.idle [])
  else if bs = lineFQ then some .ended
  else (propLine? bs).map fun c => .block 1 (byteSum bs) [c]

def step (s : GState) (bs : Bytes) : Option GState :=
  if isErrEcho bs then (if errAllowed s then some .ended else none)
  else
    match s with
    | .start | .motd =>
      if isMotdLine bs then some .motd
      else
        match handshake? bs with
        | some true => some (.idle [])
        | some false => if s = .start then some .myTurn else none
        | none => none
    | .myTurn => turnOpen bs
    | .idle pend =>
      match header? bs with
      | some off => if pend.isEmpty then none else some (.xfer off 0 0 pend)
      | none => if isFsLine bs then some .myTurn else turnOpen bs
    | .block k sum cs =>
      match propLine? bs with
      | some c => if k < 5 then some (.block (k + 1) (sum + byteSum bs) (cs ++ [c])) else none
      | none => if bs = promptOf sum then some (.idle cs) else none
    | .xfer off len sum pend =>
      match bs with
      | [4, ck] => if (sum + ck.toNat) % 256 = 0 then (dropThrough (len + off) pend).map .idle else none
      | 2 :: n :: d =>
        if n.toNat = d.length ∧ 1 ≤ d.length then some (.xfer off (len + d.length) (sum + byteSum d) pend) else none
      | _ => none
    | .ended => none

/-- the B2F output-grammar monitor over session events -/
def outGrammarδ (s : GState) : Ev → Option GState
  | .wrote bs => step s bs
  | _ => some s

/-- run the monitor over the writes of a session, oldest first -/
def acceptsWrites : GState → List Bytes → Option GState
  | s, [] => some s
  | s, w :: ws => (step s w).bind (acceptsWrites · ws)

end Wl2k.B2F.Grammar
