import Wl2kVerif.B2F.Pair
/-
`Mailboxes`: the PERSISTENT state of two stations across several sessions — the specification vocabulary of
C02 `retry_converges` ("repeating exchanges on the same mailboxes until one completes leaves every message
delivered exactly once and reported sent").

A `Box` is what a station keeps on disk (outbox, sent folder, inbox). A session is run with the handler
`Box.handler` (the in-memory reference handler of `RefHandler.lean`, set up from the box: it offers the outbox and
REFUSES what the inbox already holds), in the pair system of `Pair.lean` (two `exchange` programs over FIFO queues,
either stream cut after any number of bytes), under any schedule, stopped at any moment; `Box.after` files the
result back. Only definitions here; the theorems are in `Props/C02_retry.lean`.
-/
namespace Wl2k.B2F

/-- what a station keeps between sessions -/
structure Box where
  /-- messages queued for the peer -/
  outbox : List OutMsg := []
  /-- MIDs of the messages moved to the sent folder, in the order they were moved -/
  sent : List Bytes := []
  /-- received messages, as (MID, bytes), in the order they were stored -/
  inbox : List (Bytes × Bytes) := []

/-- local faults of one station during one session (besides the link cuts) -/
structure Faults where
  /-- the k-th `ProcessInbound` of the session (0-based) reports a storage error and stores nothing -/
  failAt : Option Nat := none
  /-- the verdicts of the successive `Message.ReadFrom` calls: 0 ok, 1 error, 2 error of the io.EOF class; default ok -/
  parseErr : List Nat := []

/-- **The handler a session is run with.** It offers the whole outbox; a proposal whose MID is already in the inbox is
answered '-' (reject: already received), every other one '+' (the default of `HState.answerFor`); its own inbox is
empty at the start, so that afterwards it holds exactly what this session STORED; `Prepare` succeeds, nothing is on the
deferred list; storage and parse errors as given by `f`. -/
def Box.handlerF (b : Box) (f : Faults) : HState :=
  { outbox := b.outbox, policy := b.inbox.map fun e => (e.1, ansReject), failAt := f.failAt, parseErr := f.parseErr }

/-- … without local faults -/
def Box.handler (b : Box) : HState := b.handlerF {}

/-- the MIDs of the `SetSent` calls of a trace (traces are newest-first), in call order — with EITHER flag: like
the Go `DirHandler`, the mailbox moves a message to the sent folder also when the peer rejected it (`SetSent(mid,
rejected = true)`: the peer has it already) -/
def reportedSent (evs : List Ev) : List Bytes :=
  evs.reverse.filterMap fun e => match e with
    | .called (.setSent m _) => some m
    | _ => none

/-- **The mailbox after a session**, read off the state `s` of the station's side of the pair system at ANY moment
(the session may have ended with an error, or not have ended at all): the outbox is what the handler still holds
(`SetSent` removes), the sent folder grows by the MIDs `SetSent` was called for, the inbox by what the handler has
stored (`ProcessInbound` calls that did not fail), each filed under the MID found IN the message — `midOf` models `Message.MID()` of the
parsed bytes (parsing is C09's domain, so it is a parameter here). -/
def Box.after (midOf : Bytes → Bytes) (b : Box) (s : Side) : Box :=
  { outbox := s.h.outbox
    sent := b.sent ++ reportedSent s.evs
    inbox := b.inbox ++ s.h.inbox.map fun d => (midOf d, d) }

/-- **The pair system of `Pair.lean` as a transition relation**: `Reach s t` — the system can get from `s` to `t`
by moves (`stepSide`) of either side that has not returned and is not blocked, in ANY order (every schedule). -/
inductive Reach : Side × Side → Side × Side → Prop
  | here (s : Side × Side) : Reach s s
  | left (a b a' b' : Side) (r : StepRes) (t : Side × Side) : a.ended = none → stepSide a b = (a', b', r) →
      (r = .progressed ∨ r = .finished) → Reach (a', b') t → Reach (a, b) t
  | right (a b a' b' : Side) (r : StepRes) (t : Side × Side) : b.ended = none → stepSide b a = (b', a', r) →
      (r = .progressed ∨ r = .finished) → Reach (a', b') t → Reach (a, b) t

/-- a side can still move: it has not returned and its next step is not blocked -/
def CanMove (a b : Side) : Prop := a.ended = none ∧ ∃ a' b' r, stepSide a b = (a', b', r) ∧ (r = .progressed ∨ r = .finished)

/-- nobody can move: both sides have returned, or the system is stuck -/
def Final (t : Side × Side) : Prop := ¬ CanMove t.1 t.2 ∧ ¬ CanMove t.2 t.1

/-- the start of a session between the mailboxes `A` (the master: it accepted the connection) and `B` (the slave), with
the local faults `fA`, `fB`; the stream TOWARDS `A` / `B` is cut after `limA` / `limB` bytes (`none`: never) -/
def sessionStart (cA cB : Cfg) (fuel : Nat) (A B : Box) (fA fB : Faults) (limA limB : Option Nat) : Side × Side :=
  ({ proc := exchange cA fuel, h := A.handlerF fA, limit := limA }, { proc := exchange cB fuel, h := B.handlerF fB, limit := limB })

/-- **One session, possibly faulty**: started on the mailboxes `A`, `B` with ANY cuts and ANY storage / parse errors on
either side, run under ANY schedule, stopped at ANY reachable state; `A'`, `B'` are the mailboxes afterwards. (Completed,
failed, hung and aborted sessions alike.) -/
def Session (midOf : Bytes → Bytes) (cA cB : Cfg) (fuel : Nat) (A B A' B' : Box) : Prop :=
  ∃ (limA limB : Option Nat) (fA fB : Faults) (t : Side × Side),
    Reach (sessionStart cA cB fuel A B fA fB limA limB) t ∧ A' = A.after midOf t.1 ∧ B' = B.after midOf t.2

/-- **One session without faults** (no cut, no storage or parse error), **run until nobody can move** (any schedule). -/
def CleanSession (midOf : Bytes → Bytes) (cA cB : Cfg) (fuel : Nat) (A B A' B' : Box) : Prop :=
  ∃ t : Side × Side,
    Reach (sessionStart cA cB fuel A B {} {} none none) t ∧ Final t ∧ A' = A.after midOf t.1 ∧ B' = B.after midOf t.2

/-- any finite number of (possibly faulty) sessions, one after the other, on the same mailboxes -/
inductive Sessions (midOf : Bytes → Bytes) (cA cB : Cfg) (fuel : Nat) : Box → Box → Box → Box → Prop
  | none (A B : Box) : Sessions midOf cA cB fuel A B A B
  | more (A B A' B' A'' B'' : Box) : Session midOf cA cB fuel A B A' B' → Sessions midOf cA cB fuel A' B' A'' B'' →
      Sessions midOf cA cB fuel A B A'' B''

/-- one session with EITHER station as the master: `cA`, `cB` are the configurations used when `A` is the master and `B` the
slave, `dB`, `dA` those used when `B` is the master and `A` the slave -/
def SessionE (midOf : Bytes → Bytes) (cA cB dB dA : Cfg) (fuel : Nat) (A B A' B' : Box) : Prop :=
  Session midOf cA cB fuel A B A' B' ∨ Session midOf dB dA fuel B A B' A'

/-- … on a fault-free link, run until nobody can move -/
def CleanSessionE (midOf : Bytes → Bytes) (cA cB dB dA : Cfg) (fuel : Nat) (A B A' B' : Box) : Prop :=
  CleanSession midOf cA cB fuel A B A' B' ∨ CleanSession midOf dB dA fuel B A B' A'

/-- any finite number of (possibly faulty) sessions, each with either station as the master -/
inductive SessionsE (midOf : Bytes → Bytes) (cA cB dB dA : Cfg) (fuel : Nat) : Box → Box → Box → Box → Prop
  | none (A B : Box) : SessionsE midOf cA cB dB dA fuel A B A B
  | more (A B A' B' A'' B'' : Box) : SessionE midOf cA cB dB dA fuel A B A' B' →
      SessionsE midOf cA cB dB dA fuel A' B' A'' B'' → SessionsE midOf cA cB dB dA fuel A B A'' B''

/-- **The invariant of one direction** (`X` sends, `Y` receives; `Q` = what `X` had queued originally). -/
structure DirInv (Q : List OutMsg) (X Y : Box) : Prop where
  /-- what is queued is originally queued messages, in the original order -/
  sub : X.outbox.Sublist Q
  /-- conservation: every original message is still queued or in the sent folder … -/
  cons : ∀ msg ∈ Q, msg ∈ X.outbox ∨ msg.mid ∈ X.sent
  /-- … and not both -/
  excl : ∀ msg ∈ X.outbox, msg.mid ∉ X.sent
  /-- no MID twice in the sent folder -/
  sentnd : X.sent.Nodup
  /-- what is in the sent folder IS in the receiver's inbox, with the queued bytes -/
  recd : ∀ m ∈ X.sent, ∃ msg ∈ Q, msg.mid = m ∧ (m, msg.data) ∈ Y.inbox
  /-- no MID twice in the receiver's inbox -/
  nodup : (Y.inbox.map (·.1)).Nodup
  /-- nothing in the receiver's inbox but original messages, byte-identical -/
  only : ∀ e ∈ Y.inbox, ∃ msg ∈ Q, e = (msg.mid, msg.data)

/-- both directions; `QA`, `QB` = the original queues of `A`, `B` -/
def Inv (QA QB : List OutMsg) (A B : Box) : Prop := DirInv QA A B ∧ DirInv QB B A

end Wl2k.B2F
