import Wl2kVerif.B2F.Session
/-
`RefHandler`: the in-memory reference mailbox handler (and the external-call oracle) used to run the
session model. The Go harness has a twin with the same behaviour.
-/
namespace Wl2k.B2F

structure HState where
  outbox : List OutMsg := []
  deferred : List Bytes := []
  /-- inbound answer per MID (default '+') -/
  policy : List (Bytes × UInt8) := []
  prepareFails : Bool := false
  /-- the k-th ProcessInbound (0-based) reports a storage error -/
  failAt : Option Nat := none
  nProcessed : Nat := 0
  /-- verdict of the k-th `Message.ReadFrom`: 0 ok, 1 error, 2 error of the io.EOF class; default ok -/
  parseErr : List Nat := []
  nParsed : Nat := 0
  /-- password callback result per localFW index -/
  passwords : List (Bytes × Bool) := []
  /-- short answer list from a batched handler (to exercise the index panic); none = well-behaved -/
  batchedShort : Option Nat := none
  inbox : List Bytes := []

def HState.answerFor (h : HState) (mid : Bytes) : UInt8 :=
  match h.policy.find? (·.1 = mid) with
  | some (_, a) => a
  | none => ansAccept

def hstep (h : HState) : Call → HState × Reply
  | .prepare => (h, .err h.prepareFails)
  | .getOutbound _ => (h, .msgs (h.outbox.filter fun m => !h.deferred.contains m.mid))
  | .setSent mid _ => ({ h with outbox := h.outbox.filter (·.mid ≠ mid) }, .unit)
  | .setDeferred mid => ({ h with deferred := mid :: h.deferred }, .unit)
  | .getInboundAnswer p => (h, .answer (h.answerFor p.mid))
  | .getInboundAnswers ps =>
    let as := ps.map fun p => h.answerFor p.mid
    (h, .answers (match h.batchedShort with | some k => as.take k | none => as))
  | .parseMessage _ =>
    let v := h.parseErr.getD h.nParsed 0
    ({ h with nParsed := h.nParsed + 1 }, .parsed (v != 0) (v == 2))
  | .processInbound data =>
    let fail := h.failAt = some h.nProcessed
    ({ h with nProcessed := h.nProcessed + 1, inbox := if fail then h.inbox else h.inbox ++ [data] }, .err fail)
  | .password i => (h, match h.passwords[i]? with | some (p, e) => .password p e | none => .password [] true)

end Wl2k.B2F
