import Wl2kVerif.Std.Fmt
import Wl2kVerif.Std.Strconv
import Wl2kVerif.Std.StringsU
import Wl2kVerif.Gen.Tables
/-
Pure wire-level pieces of `fbb/b2f.go`, `fbb/proposal.go`, `fbb/helpers.go`, `fbb/handshake.go`
(after the `fix:` commits): line cleaning, proposal lines, block checksum, proposal answers,
the SOH/STX/EOT frame.
-/
namespace Wl2k.B2F
open Wl2k Wl2k.Fmt Wl2k.Str Wl2k.Strconv

def sb := strBytes

/-- `cleanString` -/
def cleanString (str : Bytes) : Bytes :=
  let str := trimSpaceU str
  if str.length < 1 then str
  else
    let str := if str.head? = some 0 then str.drop 1 else str
    if str.length > 0 ∧ str.getLast? = some 0 then str.dropLast else str

/-- `errLine`: `some msg` = a remote error line -/
def errLine (str : Bytes) : Option Bytes :=
  if str.length = 0 ∨ str.head? ≠ some 42 then none
  else
    match lastIndexByte str 42 with
    | none => none
    | some idx => if idx + 1 ≥ str.length then none else some (trimSpaceU (str.drop (idx + 1)))

/-- `fmt.Sprintf("F%c %s %s %d %d %d", code, msgType, mid, size, compressedSize, 0)` -/
def proposalLine (code : UInt8) (msgType mid : Bytes) (size csize : Int) : Bytes :=
  [70, code, 32] ++ msgType ++ [32] ++ mid ++ [32] ++ decInt size ++ [32] ++ decInt csize ++ [32, 48]

/-- `for _, c := range sp { checksum += int64(c) }; checksum += '\r'` -/
def lineSum (line : Bytes) : Nat := (Utf8.runes line).foldl (· + ·) 0 + 13

/-- `(-checksum) & 0xff` -/
def negMod256 (sum : Nat) : Nat := (256 - sum % 256) % 256

def promptLine (sum : Nat) : Bytes := [70, 62, 32] ++ hex02 (negMod256 sum) ++ [13]

structure PropFields where
  code : UInt8
  msgType : Bytes := []
  mid : Bytes := []
  size : Int := 0
  csize : Int := 0
deriving Repr, DecidableEq

/-- `parseProposal(line, prop)` for a line of length ≥ 2 starting with 'F'; `none` = error return -/
def parseProposal (line : Bytes) : Option PropFields :=
  let code := line.getD 1 0
  if code = 66 ∨ code = 65 then some { code := code }            -- Basic / Ascii: not parsed
  else if code = 67 ∨ code = 68 then
    if line.length < 4 then none
    else
      let parts := splitOn 32 (line.drop 3)
      if parts.length < 5 then none
      else if parts.length > 5 then none
      else
        let p0 := parts.getD 0 []
        if p0.length < 1 ∨ p0.length > 2 then none
        else if p0 ≠ sb "EM" ∧ p0 ≠ sb "CM" then none
        else some { code := code, msgType := p0, mid := parts.getD 1 [],
                    size := (atoi (parts.getD 2 [])).1, csize := (atoi (parts.getD 3 [])).1 }
  else none

/-- "FS " as literal bytes (kept literal so that the kernel can evaluate examples) -/
def fsPrefix : Bytes := [70, 83, 32]

def ansAccept : UInt8 := 43
def ansReject : UInt8 := 45
def ansDefer : UInt8 := 61

/-- `parseProposalAnswer(str, props, l)`: the (answer, offset) pairs for `n` proposals
(unanswered ones keep the zero value); `none` = error return. `limit` = ProtocolOffsetSizeLimit. -/
def parseAnswersAux (limit : Nat) (n : Nat) : Nat → Bytes → Nat → List (UInt8 × Int) → Option (List (UInt8 × Int))
  | 0, _, _, acc => some acc
  | fuel + 1, str, i, acc =>
    match str with
    | [] => some acc
    | c :: rest =>
      if i ≥ n then none
      else
        let set (a : UInt8) (off : Int) := acc.set i (a, off)
        if c = 89 ∨ c = 121 ∨ c = 43 then parseAnswersAux limit n fuel rest (i + 1) (set ansAccept 0)
        else if c = 78 ∨ c = 110 ∨ c = 82 ∨ c = 114 ∨ c = 45 then parseAnswersAux limit n fuel rest (i + 1) (set ansReject 0)
        else if c = 76 ∨ c = 108 ∨ c = 61 ∨ c = 72 ∨ c = 104 then parseAnswersAux limit n fuel rest (i + 1) (set ansDefer 0)
        else if c = 65 ∨ c = 97 ∨ c = 33 then
          let digits := rest.takeWhile isDigit
          if digits.isEmpty then none
          else
            let off := (atoi digits).1
            let off := if off > (limit : Int) then 0 else off
            parseAnswersAux limit n fuel (rest.drop digits.length) (i + 1) (set ansAccept off)
        else none

def parseProposalAnswer (limit : Nat) (reply : Bytes) (n : Nat) : Option (List (UInt8 × Int)) :=
  let str := if fsPrefix.isPrefixOf reply then reply.drop 3 else reply
  parseAnswersAux limit n (str.length + 1) str 0 (List.replicate n (0, 0))

/-- split into chunks of at most `m` bytes (m ≥ 1) -/
def chunksOf (m : Nat) : Nat → Bytes → List Bytes
  | 0, _ => []
  | fuel + 1, d => if d.isEmpty then [] else d.take m :: chunksOf m fuel (d.drop m)

/-- the SOH header of `writeCompressed` -/
def frameHeader (qtitle : Bytes) (offset : Int) : Bytes :=
  let off := decInt offset
  [1, UInt8.ofNat ((qtitle.length + off.length + 2) % 256)] ++ qtitle ++ [0] ++ off ++ [0]

def dataSum (d : Bytes) : Nat := d.foldl (fun s b => s + b.toNat) 0

/-- the STX blocks and the EOT trailer for payload `d` with block size `m` (= MaxMsgLength) -/
def frameBlocks (m : Nat) (d : Bytes) : List Bytes :=
  (chunksOf m (d.length + 1) d).map (fun c => [2, UInt8.ofNat (c.length % 256)] ++ c)

def frameTrailer (d : Bytes) : Bytes := [4, UInt8.ofNat (negMod256 (dataSum d))]

/-- `parseFW`: `none` = "Malformed forward line" -/
def addressFromString (addr : Bytes) : Bytes × Bytes :=
  let a : Bytes × Bytes :=
    match splitOn 58 addr with
    | [p, a] => (p, a)
    | _ =>
      match splitOn 64 addr with
      | [_] => ([], addr)
      | parts => if equalFoldAscii (parts.getD 1 []) (sb "winlink.org") then ([], parts.getD 0 []) else (sb "SMTP", addr)
  if a.1.isEmpty then (a.1, toUpper a.2) else a

/-- ";FW: " as literal bytes -/
def fwPrefix : Bytes := [59, 70, 87, 58, 32]

def parseFW (line : Bytes) : Option (List (Bytes × Bytes)) :=
  if !fwPrefix.isPrefixOf line then none
  else some ((splitOn 32 (line.drop 5)).map fun s => addressFromString ((splitOn 124 s).headD []))

def isSID (s : Bytes) : Bool := s.head? = some 91 && s.getLast? = some 93

/-- one attempt of the regexp `\[.*-(.*)\]` (leftmost-first, greedy, `.` does not match '\n') anchored at a
'[' : `seg` is the text after that '[' up to the next newline. The group is the text between the last
'-' before the last ']' of the segment and that ']'. -/
def sidGroup (seg : Bytes) : Option Bytes :=
  match lastIndexByte seg 93 with
  | none => none
  | some k =>
    match lastIndexByte (seg.take k) 45 with
    | none => none
    | some j => some ((seg.take k).drop (j + 1))

/-- try every '[' from the left -/
def sidSearch : Nat → Bytes → Option Bytes
  | 0, _ => none
  | _, [] => none
  | fuel + 1, b :: t =>
    if b = 91 then
      match sidGroup (t.takeWhile (· ≠ 10)) with
      | some g => some g
      | none => sidSearch fuel t
    else sidSearch fuel t

/-- `parseSID`: `regexp.MustCompile(`\[.*-(.*)\]`).FindStringSubmatch(str)`, group upper-cased (ASCII);
`none` = "Bad SID line". -/
def parseSID (s : Bytes) : Option Bytes := (sidSearch (s.length + 1) s).map toUpper

end Wl2k.B2F
