import Wl2kVerif.B2F.Proc
import Wl2kVerif.B2F.Checked
import Wl2kVerif.B2F.Handshake
import Wl2kVerif.Lzhuf.Reader
/-
Model of `fbb.Session.Exchange` and everything below it (`fbb/wl2k.go`, `b2f.go`, `handshake.go`,
`helpers.go`, `proposal.go`), after the `fix:` commits, as `Proc` programs named after the Go functions.
External calls: the mailbox handler, the password callback, `Message.ReadFrom` (C09) and gzip are `call`
events; LZHUF is the executable model of §5.6. Loops carry fuel; running out of fuel is
`panic "fuel"` (the driver reports it as its own class; `session_terminates` says it does not happen).
-/
namespace Wl2k.B2F
open Wl2k Wl2k.Str Wl2k.Strconv

inductive SErr where
  | eof
  | remote (msg : Bytes)
  | proto (what : String)
deriving Repr, DecidableEq

structure Cfg where
  hs : HsCfg
  motd : List Bytes := []
  hasHandler : Bool := true
  batched : Bool := false
  maxBlock : Nat := Gen.MaxBlockSize
  maxMsgLen : Nat := Gen.MaxMsgLength
  offsetLimit : Nat := Gen.ProtocolOffsetSizeLimit
  salt : Bytes := Gen.winlinkSecureSalt.map UInt8.ofNat

structure Proposal where
  code : UInt8
  msgType : Bytes
  mid : Bytes
  title : Bytes := []
  qtitle : Bytes := []
  size : Int
  cdata : Bytes := []
  csize : Int
  answer : UInt8 := 0
  offset : Int := 0
deriving Repr

structure SState where
  remoteSID : Bytes := []
  remoteFW : List (Bytes × Bytes) := []
  remoteNoMsgs : Bool := false
  quitSent : Bool := false
  quitReceived : Bool := false
  sent : List Bytes := []
  received : List Bytes := []
deriving Repr


def fuelOut {α : Type} : Proc α := .panic "fuel"

/-- `s.rd.ReadString(delim)`: (bytes incl. the delimiter, hit EOF before the delimiter) -/
def readString (delim : UInt8) : Nat → Bytes → Proc (Bytes × Bool)
  | 0, _ => fuelOut
  | fuel + 1, acc => .readByte fun o =>
    match o with
    | none => .ret (acc.reverse, true)
    | some b => if b = delim then .ret ((b :: acc).reverse, false) else readString delim fuel (b :: acc)

/-- `nextLineRemoteErr(parseErr)` -/
def nextLineRemoteErr (parseErr : Bool) (fuel : Nat) : Proc (Except SErr Bytes) := do
  let (line, eof) ← readString 13 fuel []
  if eof then return .error .eof
  match cleanStringC line with
  | none => .panic "cleanString"
  | some line =>
    if parseErr then
      match errLineC line with
      | none => .panic "errLine"
      | some (some m) => return .error (.remote m)
      | some none => return .ok line
    else return .ok line

def nextLine (fuel : Nat) : Proc (Except SErr Bytes) := nextLineRemoteErr true fuel

/-! ### handshake -/

structure HsData where
  sid : Bytes := []
  fw : List (Bytes × Bytes) := []
  challenge : Bytes := []

def readHandshake (master : Bool) (fuel : Nat) : Nat → HsData → Proc (Except SErr HsData)
  | 0, _ => fuelOut
  | n + 1, data => .peek fun o =>
    match o with
    | none => .ret (.error .eof)
    | some b =>
      if b = 70 ∧ master then .ret (.ok data)
      else do
        match ← nextLineRemoteErr false fuel with
        | .error e => return .error e
        | .ok line =>
          if isSID line then
            match parseSID line with
            | none => return .error (.proto "bad-sid")
            | some sid =>
              if !containsSub sid (sb "B2") then return .error (.proto "no-fb2")
              else readHandshake master fuel n { data with sid := sid }
          else if (sb ";FW").isPrefixOf line then
            match parseFWC line with
            | none => .panic "parseFW"
            | some none => return .error (.proto "malformed-fw")
            | some (some fw) => readHandshake master fuel n { data with fw := fw }
          else if (sb ";PQ").isPrefixOf line then
            match challengeC line with
            | none => .panic "secure-challenge"
            | some none => return .error (.proto "malformed-pq")
            | some (some ch) => readHandshake master fuel n { data with challenge := ch }
          else if line.getLast? = some 62 then return .ok data
          else readHandshake master fuel n data

def askPasswords (c : Cfg) (ch : Bytes) : List Nat → List CbView → Proc (List CbView)
  | [], acc => .ret acc.reverse
  | i :: is, acc => .call (.password i) fun r =>
    match r with
    | .password p e => askPasswords c ch is (CbRes.view c.salt ch ⟨p, e⟩ :: acc)
    | _ => askPasswords c ch is (⟨true, true, []⟩ :: acc)

/-- `sendHandshake(writer, secureChallenge)` -/
def sendHandshakeP (c : Cfg) (ch : Bytes) : Proc (Except SErr Unit) :=
  if !ch.isEmpty ∧ !c.hs.hasCb then .ret (.error (.proto "no-secure-login-handler"))
  else if ch.isEmpty then
    match sendHandshakeV c.hs ch [] with
    | some bs => .write bs (.ret (.ok ()))
    | none => .ret (.error (.proto "handshake"))
  else do
    -- the callback is asked for the auxiliary addresses first (inside the ;FW loop), then for the main one
    let aux ← askPasswords c ch ((List.range c.hs.localFW.length).drop 1) []
    let main ← askPasswords c ch [0] []
    match sendHandshakeV c.hs ch (main ++ aux) with
    | some bs => .write bs (.ret (.ok ()))
    | none => .ret (.error (.proto "secure-login-callback-error"))

def writeLines : List Bytes → Proc Unit
  | [] => .ret ()
  | l :: ls => .write (l ++ [13]) (writeLines ls)

/-- `handshake(rw)` -/
def handshake (c : Cfg) (fuel : Nat) : Proc (Except SErr HsData) := do
  if c.hs.master then
    writeLines c.motd
    match ← sendHandshakeP c [] with
    | .error e => return .error e
    | .ok () => pure ()
  match ← readHandshake c.hs.master fuel fuel {} with
  | .error e => return .error e
  | .ok hs =>
    if hs.sid.isEmpty then return .error (.proto "no-sid")
    else if !c.hs.master then
      match ← sendHandshakeP c hs.challenge with
      | .error e => return .error e
      | .ok () => return .ok hs
    else return .ok hs

/-! ### outbound -/

def precedence (title : Bytes) : Nat :=
  if containsSub title (sb "//WL2K Z/") then 0
  else if containsSub title (sb "//WL2K O/") then 1
  else if containsSub title (sb "//WL2K P/") then 2
  else 3

/-- bytewise string order (`<` on Go strings) -/
def bytesLt : Bytes → Bytes → Bool
  | [], [] => false
  | [], _ :: _ => true
  | _ :: _, [] => false
  | a :: as, b :: bs => if a < b then true else if b < a then false else bytesLt as bs

/-- the order `sortProposals` establishes: precedence, then compressed size, then MID -/
def propLe (a b : Proposal) : Bool :=
  let pa := precedence a.title
  let pb := precedence b.title
  if pa ≠ pb then pa < pb
  else if a.csize ≠ b.csize then a.csize < b.csize
  else !bytesLt b.mid a.mid

def insertSorted (p : Proposal) : List Proposal → List Proposal
  | [] => [p]
  | q :: qs => if propLe p q then p :: q :: qs else q :: insertSorted p qs

def sortProposals (ps : List Proposal) : List Proposal := ps.foldr insertSorted []

/-- `NewProposal` for an LZHUF ('C') proposal -/
def mkProp (m : OutMsg) : Proposal :=
  let cdata := Lzhuf.compress true m.data
  { code := 67, msgType := sb "EM", mid := m.mid, title := if m.title.isEmpty then sb "No title" else m.title,
    qtitle := m.qtitle, size := m.data.length, cdata := cdata, csize := cdata.length }

/-- `outbound()` -/
def outbound (c : Cfg) (st : SState) : Proc (List Proposal) :=
  if !c.hasHandler then .ret []
  else .call (.getOutbound st.remoteFW) fun r =>
    match r with
    | .msgs out => .ret (sortProposals ((out.filter (·.valid)).map mkProp))
    | _ => .ret []

/-- `writeCompressed(rw, p)`: header flush, block flushes, trailer flush -/
def writeBlocks : List Bytes → Proc Unit
  | [] => .ret ()
  | b :: bs => .write b (writeBlocks bs)

def writeCompressed (c : Cfg) (p : Proposal) : Proc (Except SErr Unit) :=
  .write (frameHeader p.qtitle p.offset) (
    if p.csize < 6 then .ret (.error (.proto "invalid-compressed-data"))
    else
      match payloadFromC p.cdata p.offset with
      | none => .panic "compressedData[offset:]"
      | some none => .ret (.error (.proto "offset-outside-message"))
      | some (some d) =>
        Proc.bind (writeBlocks (frameBlocks c.maxMsgLen d)) fun _ =>
          .write (frameTrailer d) (.ret (.ok ())))

/-- the reply loop of `sendOutbound` -/
def awaitAnswer (fuel : Nat) : Nat → Proc (Except SErr Bytes)
  | 0 => fuelOut
  | n + 1 => do
    match ← nextLine fuel with
    | .error e => return .error e
    | .ok line =>
      if (sb "FS ").isPrefixOf line then return .ok line
      else if (sb ";PM").isPrefixOf line then awaitAnswer fuel n
      else if (sb ";").isPrefixOf line then awaitAnswer fuel n
      else return .error (.proto "expected-proposal-answer")

/-- the per-proposal loop after the answers are known: (mid, rejected) in proposal order -/
def transferAll (c : Cfg) : List Proposal → List (Bytes × Bool) → Proc (Except SErr (List (Bytes × Bool)))
  | [], sent => .ret (.ok sent)
  | p :: ps, sent =>
    if p.answer = ansDefer then .call (.setDeferred p.mid) fun _ => transferAll c ps sent
    else if p.answer = ansReject then transferAll c ps (sent.filter (·.1 ≠ p.mid) ++ [(p.mid, true)])
    else if p.answer = ansAccept then do
      match ← writeCompressed c p with
      | .error e => return .error e
      | .ok () => transferAll c ps (sent.filter (·.1 ≠ p.mid) ++ [(p.mid, false)])
    else transferAll c ps sent

/-- `sendOutbound(rw, outbound)` -/
def sendOutbound (c : Cfg) (fuel : Nat) (outbound : List Proposal) : Proc (Except SErr (List (Bytes × Bool))) := do
  let outbound := outbound.take c.maxBlock
  let lines := outbound.map fun p => proposalLine p.code p.msgType p.mid p.size p.csize
  writeLines lines
  let sum := (lines.map lineSum).foldl (· + ·) 0
  Proc.write (promptLine sum) (pure ())
  match ← awaitAnswer fuel fuel with
  | .error e => return .error e
  | .ok reply =>
    match parseProposalAnswerC c.offsetLimit reply outbound.length with
    | none => .panic "parseProposalAnswer"
    | some none => return .error (.proto "unable-to-parse-proposal-answer")
    | some (some ans) =>
      let props := (outbound.zip ans).map fun (p, a) => { p with answer := a.1, offset := a.2 }
      transferAll c props []

def callAll : List Call → Proc Unit
  | [] => .ret ()
  | x :: xs => .call x fun _ => callAll xs

/-- `handleOutbound(rw)`: (quitSent, state) -/
def handleOutbound (c : Cfg) (fuel : Nat) (st : SState) : Proc (Except SErr (Bool × SState)) := do
  let out ← outbound c st
  if out.isEmpty then
    Proc.write (if st.remoteNoMsgs then sb "FQ\r" else sb "FF\r") (pure ())
    return .ok (st.remoteNoMsgs, st)
  match ← sendOutbound c fuel out with
  | .error e => return .error e
  | .ok sent =>
    -- rejected ones are reported at once
    callAll ((sent.filter (·.2)).map fun (m, _) => .setSent m true)
    let rest := sent.filter (!·.2)
    Proc.peek fun o =>
      match o with
      | none => .ret (.error .eof)
      | some b =>
        if b ≠ 70 ∧ b ≠ 59 then do
          match ← nextLine fuel with
          | .error e => return .error e
          | .ok _ => return .error (.proto "unexpected-response")
        else do
          callAll (rest.map fun (m, _) => .setSent m false)
          return .ok (false, { st with sent := st.sent ++ rest.map (·.1) })

/-! ### inbound -/

def viewOf (p : Proposal) : PropView := { code := p.code, mid := p.mid, size := p.size, csize := p.csize }

def askEach : List Proposal → List Proposal → Proc (List Proposal)
  | [], acc => .ret acc.reverse
  | p :: ps, acc =>
    if p.answer ≠ 0 then askEach ps (p :: acc)
    else .call (.getInboundAnswer (viewOf p)) fun r =>
      match r with
      | .answer a => askEach ps ({ p with answer := a } :: acc)
      | _ => askEach ps (p :: acc)

/-- assign the batched answers to the unanswered proposals, in order; `none` = index out of range -/
def assignAnswers : List Proposal → List UInt8 → Option (List Proposal)
  | [], _ => some []
  | p :: ps, as =>
    if p.answer ≠ 0 then (assignAnswers ps as).map (p :: ·)
    else match as with
      | [] => none
      | a :: as' => (assignAnswers ps as').map ({ p with answer := a } :: ·)

def preAnswer (hasHandler : Bool) : List Proposal → List Bytes → List Proposal
  | [], _ => []
  | p :: ps, seen =>
    let a : UInt8 :=
      if seen.contains p.mid then ansDefer
      else if p.code ≠ 67 ∧ p.code ≠ 68 then ansDefer
      else if !hasHandler then ansDefer
      else 0
    { p with answer := a } :: preAnswer hasHandler ps (p.mid :: seen)

/-- `writeProposalsAnswer(rw, proposals)` -/
def writeProposalsAnswer (c : Cfg) (proposals : List Proposal) : Proc (List Proposal) := do
  let ps := preAnswer c.hasHandler proposals []
  let ps ←
    if c.batched ∧ c.hasHandler then
      Proc.call (.getInboundAnswers ((ps.filter (·.answer = 0)).map viewOf)) fun r =>
        match r with
        | .answers as => match assignAnswers ps as with
          | some ps => .ret ps
          | none => .panic "answers-index-out-of-range"
        | _ => .panic "answers-index-out-of-range"
    else askEach ps []
  Proc.write (sb "FS " ++ ps.map (·.answer) ++ [13]) (pure ps)

/-- `lzhuf.NewB2Reader` + `io.Copy` + `Close()` as in `Proposal.data()`. `.error true` = the error is
io.EOF / io.ErrUnexpectedEOF (which `Exchange` reports as ErrConnLost, because the error is wrapped with
%w and classified with errors.Is), `.error false` = ErrChecksum. -/
def lzReadAll (d : Lzhuf.Reader) (acc : Bytes) : Nat → Except Bool Bytes
  | 0 => .error false
  | fuel + 1 =>
    match d.read 32768 with
    | (d, bs, none) => lzReadAll d (acc ++ bs) fuel
    | (d, bs, some .eof) =>
      match d.close with
      | none => .ok (acc ++ bs)
      | some .checksum => .error false
      | some _ => .error true
    | (_, _, some .checksum) => .error false
    | (_, _, some .unexpectedEOF) => .error true

def lzDecodeE (cdata : Bytes) : Except Bool Bytes :=
  match Lzhuf.Reader.new true cdata with
  | .error _ => .error true
  | .ok d => lzReadAll d [] (d.size.toNat + 3)

def lzDecode (cdata : Bytes) : Option Bytes :=
  match lzDecodeE cdata with
  | .ok d => some d
  | .error _ => none

def readN : Nat → Bytes → Proc (Option Bytes)
  | 0, acc => .ret (some acc.reverse)
  | n + 1, acc => .readByte fun o =>
    match o with
    | none => .ret none
    | some b => readN n (b :: acc)

/-- the block loop of `readCompressed`: (payload, running checksum mod 256) -/
def readBlocks (csize : Int) : Nat → Bytes → Nat → Proc (Except SErr Bytes)
  | 0, _, _ => fuelOut
  | fuel + 1, buf, sum => .readByte fun o =>
    match o with
    | none => .ret (.error .eof)
    | some c =>
      if c = 2 then .readByte fun o =>
        -- the error of this ReadByte is ignored: EOF reads as length byte 0, i.e. 256
        let len := match o with | some l => (if l = 0 then 256 else l.toNat) | none => 256
        Proc.bind (readN len []) fun r =>
          match r with
          | none => .ret (.error .eof)
          | some blk => readBlocks csize fuel (buf ++ blk) ((sum + Wl2k.B2F.dataSum blk) % 256)
      else if c = 4 then .readByte fun o =>
        match o with
        | none => .ret (.error .eof)
        | some x =>
          if (sum + x.toNat) % 256 ≠ 0 then .ret (.error (.proto "bad-checksum"))
          else if csize ≠ buf.length then .ret (.error (.proto "length-mismatch-after-eot"))
          else .ret (.ok buf)
      else .ret (.error (.proto "unexpected-byte-in-compressed-stream"))

/-- `readCompressed(rw, p)` -/
def readCompressed (fuel : Nat) (p : Proposal) : Proc (Except SErr Bytes) :=
  .readByte fun o =>
    match o with
    | none => .ret (.error .eof)
    | some c =>
      if c = 42 then Proc.bind (nextLine fuel) fun _ => .ret (.error (.proto "error-from-cms"))
      else if c ≠ 1 then .ret (.error (.proto "first-byte-not-soh"))
      else .readByte fun o =>
        match o with
        | none => .ret (.error .eof)
        | some hl => do
          let (title, eof) ← readString 0 fuel []
          if eof then return .error .eof
          let (off, eof) ← readString 0 fuel []
          if eof then return .error .eof
          match stripDelimC title, stripDelimC off with
          | some title, some off =>
            if hl.toNat ≠ title.length + off.length + 2 then return .error (.proto "header-length-mismatch")
            let (offset, bad) := atoi off
            if bad then return .error (.proto "offset-not-an-integer")
            if offset ≠ p.offset then return .error (.proto "unexpected-offset")
            readBlocks p.csize fuel [] 0
          | _, _ => .panic "title[:len-1]"

/-- the "fetch and decompress accepted" loop of `handleInbound`; the state (traffic statistics) so far
is returned also when it fails -/
def fetchAll (fuel : Nat) : List Proposal → SState → Proc (SState × Option SErr)
  | [], st => .ret (st, none)
  | p :: ps, st =>
    if p.answer ≠ ansAccept then fetchAll fuel ps st
    else do
      match ← readCompressed fuel p with
      | .error e => return (st, some e)
      | .ok cdata =>
        let decoded : Proc (Option Bytes) :=
          if p.code = 68 then Proc.call (.parseMessage (sb "gzip:" ++ cdata)) fun _ => .ret none
          else .ret (lzDecode cdata)
        match ← decoded with
        | none =>
          -- a decoder error that wraps io.EOF / io.ErrUnexpectedEOF is reported as a lost connection
          let eofClass : Bool := p.code != 68 && (match lzDecodeE cdata with | .error true => true | _ => false)
          return (st, some (if eofClass then .eof else .proto "unable-to-decompress"))
        | some data =>
          Proc.call (.parseMessage data) fun r =>
            match r with
            | .parsed true eofClass => .ret (st, some (if eofClass then .eof else .proto "unable-to-parse-message"))
            | _ => Proc.call (.processInbound data) fun r =>
              match r with
              | .err true => .ret (st, some (.proto "process-inbound-failed"))
              | _ => fetchAll fuel ps { st with received := st.received ++ [p.mid] }

/-- the line loop of `handleInbound`: returns (quitReceived, proposals with answers, state, done-early) -/
def inboundLoop (c : Cfg) (fuel : Nat) : Nat → List Proposal → Nat → SState → Proc (Except SErr (Bool × List Proposal × SState))
  | 0, _, _, _ => fuelOut
  | n + 1, props, sum, st => do
    match ← nextLine fuel with
    | .error e => return .error e
    | .ok line =>
      if (sb ";PM").isPrefixOf line then inboundLoop c fuel n props sum st
      else if line.isEmpty ∨ line.head? = some 59 then inboundLoop c fuel n props sum st
      else if line.length < 2 ∨ line.head? ≠ some 70 then return .error (.proto "unexpected-protocol-line")
      else
        match cmdByteC line with
        | none => .panic "line[:2]"
        | some cmd =>
        if cmd = 65 ∨ cmd = 66 ∨ cmd = 67 ∨ cmd = 68 then
          match parseProposalC line with
          | none => .panic "parseProposal"
          | some none => return .error (.proto "unable-to-parse-proposal")
          | some (some f) =>
            let p : Proposal := { code := f.code, msgType := f.msgType, mid := f.mid, size := f.size, csize := f.csize }
            inboundLoop c fuel n (props ++ [p]) (sum + lineSum line) st
        else if cmd = 70 then return .ok (false, props, { st with remoteNoMsgs := true })
        else if cmd = 81 then return .ok (true, props, st)
        else if cmd = 62 then
          match promptFieldC line with
          | none => .panic "line[2:]"
          | some field =>
          let their := (parseHex64 (trimSpaceU field)).1
          if their ≠ (negMod256 sum : Int) then return .error (.proto "checksum-error")
          else if props.isEmpty then return .ok (false, [], { st with remoteNoMsgs := true })
          else do
            let ps ← writeProposalsAnswer c props
            return .ok (false, ps, { st with remoteNoMsgs := false })
        else return .error (.proto "unknown-protocol-command")

/-- `handleInbound(rw)`: (quitReceived, state, error) -/
def handleInbound (c : Cfg) (fuel : Nat) (st : SState) : Proc (Bool × SState × Option SErr) := do
  match ← inboundLoop c fuel fuel [] 0 st with
  | .error e => return (false, st, some e)
  | .ok (quit, props, st) =>
    let (st, e) ← fetchAll fuel props st
    return (quit, st, e)

/-! ### Exchange -/

inductive ErrClass where
  | nil | connLost | other
deriving Repr, DecidableEq

structure Result where
  err : ErrClass
  what : String := ""
  sent : List Bytes := []
  received : List Bytes := []
deriving Repr

def turns (c : Cfg) (fuel : Nat) : Nat → Bool → SState → Proc (SState × Option SErr)
  | 0, _, _ => fuelOut
  | n + 1, myTurn, st =>
    if st.quitReceived ∨ st.quitSent then .ret (st, none)
    else if myTurn then do
      match ← handleOutbound c fuel st with
      | .error e => return (st, some e)
      | .ok (q, st) => turns c fuel n (!myTurn) { st with quitSent := q }
    else do
      let (q, st, e) ← handleInbound c fuel st
      match e with
      | some e => return (st, some e)
      | none => turns c fuel n (!myTurn) { st with quitReceived := q }

def finish (st : SState) (named : Bool) : Option SErr → Proc Result
  | none => .ret { err := .nil, sent := st.sent, received := st.received }
  | some .eof => .ret { err := .connLost, sent := if named then [] else st.sent, received := if named then [] else st.received }
  | some (.remote m) =>
    -- "*** <error>\r\n" is echoed to the remote
    .write (sb "*** " ++ m ++ [13, 10]) (.ret { err := .other, what := "remote-error", sent := st.sent, received := st.received })
  | some (.proto w) =>
    .write (sb "*** " ++ strBytes w ++ [13, 10]) (.ret { err := .other, what := w, sent := st.sent, received := st.received })

/-- `Exchange(conn)` -/
def exchange (c : Cfg) (fuel : Nat) : Proc Result := do
  let prep : Proc Bool := if c.hasHandler then Proc.call .prepare fun r => match r with | .err true => .ret false | _ => .ret true else .ret true
  if !(← prep) then finish {} true (some (.proto "prepare-failed"))
  else
    match ← handshake c fuel with
    | .error e => finish {} true (some e)
    | .ok hs =>
      let st : SState := { remoteSID := hs.sid, remoteFW := hs.fw }
      let (st, e) ← turns c fuel fuel (!c.hs.master) st
      finish st false e

end Wl2k.B2F
