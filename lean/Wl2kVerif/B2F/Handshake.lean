import Wl2kVerif.Secure.Response
/-
Model of `fbb/handshake.go: sendHandshake` (+ `writeSID`, `writeSecureLoginResponse`).
The bufio.Writer is modelled as "all or nothing": bytes reach the wire only at the final Flush,
so an error return writes nothing (as in the Go code, where Flush is the last statement).
-/
namespace Wl2k.B2F
open Wl2k

structure HsCfg where
  mycall : Bytes
  targetcall : Bytes
  locator : Bytes
  uaName : Bytes
  uaVersion : Bytes
  master : Bool
  gzip : Bool
  /-- `secureLoginHandleFunc != nil` -/
  hasCb : Bool
  /-- `s.localFW[i].Addr` -/
  localFW : List Bytes

/-- What the password callback returns for `localFW[i]`: the password and whether `err != nil`. -/
structure CbRes where
  password : Bytes
  isErr : Bool

/-- What `sendHandshake` can see of a callback result: emptiness, error flag and the response. -/
structure CbView where
  empty : Bool
  isErr : Bool
  resp : Bytes

def CbRes.view (salt ch : Bytes) (r : CbRes) : CbView :=
  { empty := r.password.isEmpty, isErr := r.isErr, resp := Secure.response salt ch r.password }

def sidCodes (gzip : Bool) : Bytes := strBytes (if gzip then "B2FHMG$" else "B2FHM$")

def sidLine (c : HsCfg) : Bytes :=
  strBytes "[" ++ c.uaName ++ strBytes "-" ++ c.uaVersion ++ strBytes "-" ++ sidCodes c.gzip ++ strBytes "]\r"

def trailer (c : HsCfg) : Bytes :=
  strBytes "; " ++ c.targetcall ++ strBytes " DE " ++ c.mycall ++ strBytes " (" ++ c.locator ++ strBytes ")" ++
    (if c.master then strBytes ">\r" else strBytes "\r")

/-- One `;FW:` entry. `i` is the index in localFW. -/
def fwEntry (secure : Bool) (i : Nat) (addr : Bytes) (v : CbView) : Bytes :=
  if secure && i > 0 && !v.empty then strBytes " " ++ addr ++ strBytes "|" ++ v.resp
  else strBytes " " ++ addr

def fwLineAux (secure : Bool) : Nat → List Bytes → List CbView → Bytes
  | _, [], _ => []
  | i, a :: as, vs =>
    fwEntry secure i a (vs.headD ⟨true, false, []⟩) ++ fwLineAux secure (i + 1) as vs.tail

def fwLine (secure : Bool) (c : HsCfg) (vs : List CbView) : Bytes :=
  strBytes ";FW:" ++ fwLineAux secure 0 c.localFW vs ++ strBytes "\r"

/-- `sendHandshake` as a function of what it can observe of the callback (`views`, one per localFW entry).
`none` = error returned, nothing written. -/
def sendHandshakeV (c : HsCfg) (challenge : Bytes) (views : List CbView) : Option Bytes :=
  let secure := !challenge.isEmpty
  if secure && !c.hasCb then none
  else
    let main := views.headD ⟨true, false, []⟩
    if secure && main.isErr then none
    else
      some (fwLine secure c views ++ sidLine c ++
        (if secure then strBytes ";PR: " ++ main.resp ++ strBytes "\r" else []) ++ trailer c)

def sendHandshake (salt : Bytes) (c : HsCfg) (challenge : Bytes) (cb : List CbRes) : Option Bytes :=
  sendHandshakeV c challenge (cb.map (CbRes.view salt challenge))

end Wl2k.B2F
