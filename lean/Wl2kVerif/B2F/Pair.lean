import Wl2kVerif.B2F.RefHandler
/-
Two sessions joined by two FIFO byte queues (a reliable duplex stream). Each side is a deterministic
sequential process with blocking reads, so the system is a Kahn network: every fair schedule yields
the same per-side traces (`Proofs/Kahn.lean`). `pairRun` uses one particular schedule (run a side until
it blocks, then the other).

Fault model (C02): `limit` truncates the stream TO a side after k bytes: its (k+1)-th read sees EOF
(link failure); the other direction drains normally until the failed side has returned.
-/
namespace Wl2k.B2F

structure Side where
  proc : Proc Result
  /-- bytes in flight towards this side -/
  inq : Bytes := []
  /-- bytes delivered to this side so far -/
  got : Nat := 0
  limit : Option Nat := none
  h : HState
  evs : List Ev := []
  ended : Option (Ended Result) := none

inductive StepRes where
  | progressed | blocked | finished

/-- one small step of side `a` given its peer `b` (peer's `inq` receives writes) -/
def stepSide (a b : Side) : Side × Side × StepRes :=
  if a.ended.isSome then (a, b, .finished)
  else
    let cutNow : Bool := match a.limit with | some k => decide (a.got ≥ k) | none => false
    match a.proc with
    | .ret r => ({ a with ended := some (.done r) }, b, .finished)
    | .panic s => ({ a with ended := some (.panicked s) }, b, .finished)
    | .write bs k =>
      -- bytes written to a peer that has already returned are lost
      let b' := if b.ended.isSome then b else { b with inq := b.inq ++ bs }
      ({ a with proc := k, evs := .wrote bs :: a.evs }, b', .progressed)
    | .call c k =>
      let (h', r) := hstep a.h c
      ({ a with proc := k r, h := h', evs := .called c :: a.evs }, b, .progressed)
    | .readByte k =>
      if cutNow then ({ a with proc := k none }, b, .progressed)
      else match a.inq with
        | x :: t => ({ a with proc := k (some x), inq := t, got := a.got + 1 }, b, .progressed)
        | [] => if b.ended.isSome then ({ a with proc := k none }, b, .progressed) else (a, b, .blocked)
    | .peek k =>
      if cutNow then ({ a with proc := k none }, b, .progressed)
      else match a.inq with
        | x :: _ => ({ a with proc := k (some x), evs := .peeked x :: a.evs }, b, .progressed)
        | [] => if b.ended.isSome then ({ a with proc := k none }, b, .progressed) else (a, b, .blocked)

/-- run side `a` until it blocks or finishes -/
def runSide : Nat → Side → Side → Side × Side × Nat
  | 0, a, b => (a, b, 0)
  | fuel + 1, a, b =>
    match stepSide a b with
    | (a, b, .progressed) => runSide fuel a b
    | (a, b, _) => (a, b, fuel)

/-- alternate until both sides have finished, both are blocked (deadlock), or the fuel is gone -/
def pairLoop : Nat → Nat → Side → Side → Side × Side
  | 0, _, a, b => (a, b)
  | rounds + 1, fuel, a, b =>
    let (a, b, fuel) := runSide fuel a b
    let (b, a, fuel) := runSide fuel b a
    if (a.ended.isSome ∧ b.ended.isSome) ∨ fuel = 0 then (a, b)
    else
      -- nobody can move: deadlock
      match stepSide a b, stepSide b a with
      | (_, _, .blocked), (_, _, .blocked) => (a, b)
      | _, _ => pairLoop rounds fuel a b

def pairRun (ca cb : Cfg) (ha hb : HState) (limA limB : Option Nat) (fuel : Nat) : Side × Side :=
  let a : Side := { proc := exchange ca fuel, h := ha, limit := limA }
  let b : Side := { proc := exchange cb fuel, h := hb, limit := limB }
  pairLoop fuel fuel a b

end Wl2k.B2F
