import Wl2kVerif.Util.Hex
/-
`Proc`: sequential programs that do blocking I/O on one connection and call into a mailbox handler.
The B2F session is written in this small free monad, function for function after the Go source.
`panic site` is a terminal value: the Go code would have crashed there.
-/
namespace Wl2k.B2F

/-- A message the outbound handler offers. `data` is the serialised message (`m.Bytes()`),
`title` the decoded subject (`m.Subject()`), `qtitle` what `mime.QEncoding.Encode("utf-8", title)`
returns (external: computed by the caller), `valid` = `m.Validate() == nil` and no Proposal error. -/
structure OutMsg where
  mid : Bytes
  title : Bytes
  qtitle : Bytes
  data : Bytes
  valid : Bool := true
deriving Repr, DecidableEq

/-- What the inbound handler is shown of a proposal. -/
structure PropView where
  code : UInt8
  mid : Bytes
  size : Int
  csize : Int
deriving Repr, DecidableEq

inductive Call where
  | prepare
  | getOutbound (fws : List (Bytes × Bytes))     -- (Proto, Addr) of the remote's forwarders
  | setSent (mid : Bytes) (rejected : Bool)
  | setDeferred (mid : Bytes)
  | getInboundAnswer (p : PropView)
  | getInboundAnswers (ps : List PropView)
  /-- external: `Message.ReadFrom` on the decompressed bytes of the k-th transfer (C09's domain) -/
  | parseMessage (data : Bytes)
  | processInbound (data : Bytes)
  | password (idx : Nat)
deriving Repr, DecidableEq

inductive Reply where
  | unit
  | err (isErr : Bool)
  | msgs (out : List OutMsg)
  | answer (a : UInt8)
  | answers (as : List UInt8)
  | password (p : Bytes) (isErr : Bool)
  /-- verdict of `Message.ReadFrom`: error?, and is it io.EOF / io.ErrUnexpectedEOF (reported as ErrConnLost)? -/
  | parsed (isErr : Bool) (eofClass : Bool)
deriving Repr

inductive Proc (α : Type) : Type where
  | ret (a : α)
  /-- `s.rd.ReadByte()`; `none` = EOF / connection lost -/
  | readByte (k : Option UInt8 → Proc α)
  /-- `s.rd.Peek(1)` -/
  | peek (k : Option UInt8 → Proc α)
  | write (bs : Bytes) (k : Proc α)
  | call (c : Call) (k : Reply → Proc α)
  | panic (site : String)

namespace Proc

def bind {α β : Type} : Proc α → (α → Proc β) → Proc β
  | ret a, f => f a
  | readByte k, f => readByte (fun o => bind (k o) f)
  | peek k, f => peek (fun o => bind (k o) f)
  | write bs k, f => write bs (bind k f)
  | call c k, f => call c (fun r => bind (k r) f)
  | panic s, _ => panic s

instance : Monad Proc where
  pure := ret
  bind := bind

end Proc

/-- Observable events of a run. -/
inductive Ev where
  | wrote (bs : Bytes)
  | called (c : Call)
  | peeked (b : UInt8)
deriving Repr, DecidableEq

inductive Ended (α : Type) where
  | done (a : α)
  | panicked (site : String)
  /-- blocked on a read with the input exhausted and the link still up (only in pair runs) -/
  | blocked
deriving Repr

/-- Run a program against a complete input byte string (after which the connection is lost) and a
handler given as a state machine. Structural recursion on the program. -/
def Proc.run {α H : Type} (hstep : H → Call → H × Reply) : Proc α → Bytes → H → List Ev → Ended α × Bytes × H × List Ev
  | .ret a, inp, h, tr => (.done a, inp, h, tr)
  | .readByte k, [], h, tr => Proc.run hstep (k none) [] h tr
  | .readByte k, b :: t, h, tr => Proc.run hstep (k (some b)) t h tr
  | .peek k, [], h, tr => Proc.run hstep (k none) [] h tr
  | .peek k, b :: t, h, tr => Proc.run hstep (k (some b)) (b :: t) h (.peeked b :: tr)
  | .write bs k, inp, h, tr => Proc.run hstep k inp h (.wrote bs :: tr)
  | .call c k, inp, h, tr =>
    let (h', r) := hstep h c
    Proc.run hstep (k r) inp h' (.called c :: tr)
  | .panic s, inp, h, tr => (.panicked s, inp, h, tr)

end Wl2k.B2F
