import Wl2kVerif.B2F.Wire
/-
Checked transcriptions of the string-slicing code in fbb that handles REMOTE-controlled data.
Every Go index / slice expression is a checked operation on `Int` indices that returns `none` exactly
when Go panics (`s[i]` needs 0 ≤ i < len, `s[i:j]` needs 0 ≤ i ≤ j ≤ len). `Proofs/Checked.lean` proves
that each checked function is total and equals the plain total version used by the executable model
— that equality is the no-panic theorem for the site.
-/
namespace Wl2k.B2F
open Wl2k Wl2k.Str Wl2k.Strconv

/-- `s[i]` -/
def at? (s : Bytes) (i : Int) : Option UInt8 :=
  if 0 ≤ i ∧ i < s.length then s[i.toNat]? else none

/-- `s[i:j]` -/
def slice? (s : Bytes) (i j : Int) : Option Bytes :=
  if 0 ≤ i ∧ i ≤ j ∧ j ≤ s.length then some ((s.take j.toNat).drop i.toNat) else none

/-- `s[i:]` -/
def from? (s : Bytes) (i : Int) : Option Bytes := slice? s i s.length

/-- `if str[0] == 0 { str = str[1:] }` (called with len(str) ≥ 1) -/
def stripFirstNulC (s : Bytes) : Option Bytes := do
  let c0 ← at? s 0
  if c0 = 0 then from? s 1 else pure s

/-- `if len(str) > 0 && str[len(str)-1] == 0 { str = str[0 : len(str)-1] }` -/
def stripLastNulC (s : Bytes) : Option Bytes :=
  if s.length > 0 then do
    let cl ← at? s ((s.length : Int) - 1)
    if cl = 0 then slice? s 0 ((s.length : Int) - 1) else pure s
  else pure s

/-- `cleanString`, every index checked -/
def cleanStringC (str : Bytes) : Option Bytes :=
  let str := trimSpaceU str
  if str.length < 1 then some str
  else (stripFirstNulC str).bind stripLastNulC

/-- `errLine`, every index checked; `some none` = nil, `some (some m)` = error m, `none` = panic -/
def errLineC (str : Bytes) : Option (Option Bytes) := do
  if str.length = 0 then return none
  let c0 ← at? str 0
  if c0 ≠ 42 then return none
  -- strings.LastIndex(str, "*") : -1 if absent
  let idx : Int := match lastIndexByte str 42 with | some i => i | none => -1
  if idx + 1 ≥ str.length then return none
  let rest ← from? str (idx + 1)
  return some (trimSpaceU rest)

/-- the `;PQ` branch of `readHandshake`: `if len(line) < 5 { error }; data.SecureChallenge = line[5:]`;
`some none` = the error return -/
def challengeC (line : Bytes) : Option (Option Bytes) :=
  if line.length < 5 then some none else (from? line 5).map some

/-- `line[:2]` after the `len(line) < 2` check, `line[1]`, and the `F>` field `line[2:]` -/
def cmdByteC (line : Bytes) : Option UInt8 := do
  let _ ← slice? line 0 2
  at? line 1

def promptFieldC (line : Bytes) : Option Bytes := from? line 2

/-- `parseB2Proposal`'s `line[3:]` after `len(line) < 4 → error` -/
def proposalFieldsC (line : Bytes) : Option (Option Bytes) :=
  if line.length < 4 then some none else (from? line 3).map some

/-- `parseFW`'s `line[5:]` after `HasPrefix(line, ";FW: ")` -/
def fwFieldC (line : Bytes) : Option (Option Bytes) :=
  if !fwPrefix.isPrefixOf line then some none else (from? line 5).map some

/-- `title[:len(title)-1]` on what `ReadString(NUL)` returned without error (it ends in the delimiter) -/
def stripDelimC (s : Bytes) : Option Bytes := slice? s 0 ((s.length : Int) - 1)

/-- `p.compressedData[p.offset:]` after the offset range check of `writeCompressed` -/
def payloadFromC (cdata : Bytes) (offset : Int) : Option (Option Bytes) :=
  if offset < 0 ∨ offset > cdata.length then some none else (from? cdata offset).map some

/-- one step of `parseProposalAnswer`: `c, str = str[0], str[1:]` -/
def headTailC (str : Bytes) : Option (UInt8 × Bytes) := do
  let c ← at? str 0
  let t ← from? str 1
  return (c, t)

/-- the offset digits: `str[:idx]`, `str[idx:]` with idx = number of leading digits -/
def digitsSplitC (str : Bytes) : Option (Bytes × Bytes) := do
  let idx : Int := (str.takeWhile isDigit).length
  let a ← slice? str 0 idx
  let b ← from? str idx
  return (a, b)

/-- `parseProposalAnswer` with the slicing checked: `none` = panic, `some none` = error return -/
def parseAnswersAuxC (limit : Nat) (n : Nat) : Nat → Bytes → Nat → List (UInt8 × Int) → Option (Option (List (UInt8 × Int)))
  | 0, _, _, acc => some (some acc)
  | fuel + 1, str, i, acc =>
    if str.length = 0 then some (some acc)
    else if i ≥ n then some none
    else
      match headTailC str with
      | none => none
      | some (c, rest) =>
        let set (a : UInt8) (off : Int) := acc.set i (a, off)
        if c = 89 ∨ c = 121 ∨ c = 43 then parseAnswersAuxC limit n fuel rest (i + 1) (set ansAccept 0)
        else if c = 78 ∨ c = 110 ∨ c = 82 ∨ c = 114 ∨ c = 45 then parseAnswersAuxC limit n fuel rest (i + 1) (set ansReject 0)
        else if c = 76 ∨ c = 108 ∨ c = 61 ∨ c = 72 ∨ c = 104 then parseAnswersAuxC limit n fuel rest (i + 1) (set ansDefer 0)
        else if c = 65 ∨ c = 97 ∨ c = 33 then
          match digitsSplitC rest with
          | none => none
          | some (digits, rest') =>
            if digits.isEmpty then some none
            else
              let off := (atoi digits).1
              let off := if off > (limit : Int) then 0 else off
              parseAnswersAuxC limit n fuel rest' (i + 1) (set ansAccept off)
        else some none

def parseProposalAnswerC (limit : Nat) (reply : Bytes) (n : Nat) : Option (Option (List (UInt8 × Int))) :=
  let str := if fsPrefix.isPrefixOf reply then reply.drop 3 else reply
  parseAnswersAuxC limit n (str.length + 1) str 0 (List.replicate n (0, 0))

/-- `parseProposal` with the slicing checked -/
def parseProposalC (line : Bytes) : Option (Option PropFields) :=
  match at? line 1 with
  | none => none
  | some code =>
    if code = 66 ∨ code = 65 then some (some { code := code })
    else if code = 67 ∨ code = 68 then
      match proposalFieldsC line with
      | none => none
      | some none => some none
      | some (some rest) =>
        let parts := splitOn 32 rest
        if parts.length < 5 then some none
        else if parts.length > 5 then some none
        else
          let p0 := parts.getD 0 []
          if p0.length < 1 ∨ p0.length > 2 then some none
          else if p0 ≠ sb "EM" ∧ p0 ≠ sb "CM" then some none
          else some (some { code := code, msgType := p0, mid := parts.getD 1 [],
                            size := (atoi (parts.getD 2 [])).1, csize := (atoi (parts.getD 3 [])).1 })
    else some none

/-- `parseFW` with the slicing checked -/
def parseFWC (line : Bytes) : Option (Option (List (Bytes × Bytes))) :=
  match fwFieldC line with
  | none => none
  | some none => some none
  | some (some rest) => some (some ((splitOn 32 rest).map fun s => addressFromString ((splitOn 124 s).headD [])))

end Wl2k.B2F
