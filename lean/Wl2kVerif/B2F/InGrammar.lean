import Wl2kVerif.B2F.Grammar
import Wl2kVerif.B2F.Session
/-
SPECIFICATION: the B2F INPUT grammar — what a conforming REMOTE station may send, relative to what the
local session itself has sent. It is the dual of the output grammar (B2F/Grammar.lean) and is written from
the protocol's point of view (FBB forwarding protocol + the B2F extension as described in
/repo/docs and in the comments of /repo/fbb/*.go), not after the control flow of the session model.
It shares with the model only `Std` (`splitOn`, `containsSub`, `toUpper`, `digitsVal`, `isDigit`), the
recognisers of the OUTPUT grammar (to read the session's own proposal lines), and `lzDecode` (the LZHUF
reader model, C06–C08: "the payload decompresses").

The remote's side of a conversation is a SCRIPT: a list of units, each either a text line (sent with a
terminating CR) or a binary transfer frame. `render` gives the bytes on the wire. The half-duplex protocol
determines, at every point, who speaks next; the checker `conf` therefore walks two tapes in lock-step:
the script, and the list of the session's own LINE writes (transfer frames the session sends are irrelevant
for judging the remote and are filtered out by `lineWrites`).

  start ─(master: our MOTD lines, our handshake ending in the prompt `>`)─▶ hs
  hs    ─banner / comment / `;FW: …` / `;PQ: …` line─▶ hs        hs ─`[…-…B2…]`─▶ hs (SID seen)
  hs    ─(we are slave) prompt line `…>` after the SID; our handshake─▶ OUR TURN
  hs    ─(we are master) first line starting with `F`, after the SID─▶ it is the first line of THEIR TURN
  OUR TURN:   we write `FF` ─▶ theirs      we write `FQ` ─▶ over
              we write 1..5 proposal lines and `F> HH` ─▶ answer
  answer ─comment line─▶ answer     answer ─`FS <answers>`, at most one per proposal, offsets inside the
              message─▶ theirs   (our transfers follow; they are not inspected)
  theirs ─comment line─▶ theirs     theirs (no proposal yet) ─`FF`─▶ OUR TURN      ─`FQ`─▶ over
  theirs ─`FC EM|CM <mid> <usize> <csize> 0` (at most 5)─▶ theirs
  theirs (≥ 1 proposal) ─`F> HH`, HH = two's complement of the byte sum of the proposal lines with their CRs;
              our `FS <answers>` line─▶ xfer (compressed sizes of the proposals we answered '+', in order)
  xfer (c :: rest) ─frame: SOH len title NUL "0" NUL, STX blocks of 1..256 bytes (length byte 0 = 256), EOT
              checksum; payload of c bytes that decompresses to an acceptable message─▶ xfer rest
  xfer [] = OUR TURN

Verdicts: `bad` — the remote left the grammar; `free` — the conversation is over (`FQ`), or the LOCAL session
did not write what the protocol expects of it next, so the remote cannot be judged any further (the
acceptance theorem shows that this does not happen while the remote conforms); `next s ws` — script
consumed so far is fine, `s` is what the remote owes next.
-/
namespace Wl2k.B2F.InGrammar
open Wl2k Wl2k.Str Wl2k.Strconv Wl2k.B2F.Grammar

/-! ### scripts -/

/-- one utterance of the remote -/
inductive RUnit where
  /-- a text line; the CR is added by `render` -/
  | line (text : Bytes)
  /-- a transfer: title, the payload cut into data blocks, the checksum byte after EOT -/
  | frame (title : Bytes) (chunks : List Bytes) (ck : UInt8)
deriving Repr, DecidableEq

/-- `STX len data` — a block of 256 bytes carries the length byte 0 -/
def blockBytes (c : Bytes) : Bytes := [2, UInt8.ofNat (c.length % 256)] ++ c

/-- the bytes on the wire -/
def RUnit.bytes : RUnit → Bytes
  | .line t => t ++ [13]
  | .frame title chunks ck =>
    [1, UInt8.ofNat (title.length + 3)] ++ title ++ [0, 48, 0] ++ (chunks.map blockBytes).flatten ++ [4, ck]

def render (us : List RUnit) : Bytes := (us.map RUnit.bytes).flatten

/-- what the grammar has to know about the LOCAL side -/
structure InCfg where
  /-- the local session is the master (it accepted the connection and speaks first) -/
  master : Bool
  /-- the local session can answer a `;PQ:` secure-login challenge -/
  secure : Bool := false
  /-- "is a well-formed message": what the local message parser / mailbox accepts of a decompressed payload -/
  msgOK : Bytes → Bool := fun _ => true

/-! ### lexical level -/

/-- printable, non-blank ASCII -/
def isSolid (b : UInt8) : Bool := 33 ≤ b && b ≤ 126

/-- a protocol text line: non-empty, no CR, first and last character printable non-blank ASCII
(no leading / trailing blanks or NULs — the receiver may trim those) -/
def isText (t : Bytes) : Bool :=
  !t.contains 13 &&
    match t.head?, t.getLast? with
    | some a, some z => isSolid a && isSolid z
    | _, _ => false

/-- `;…` — a comment line (also `;PM: …` pending-message notices) -/
def isComment (t : Bytes) : Bool := isText t && t.head? == some 59

/-! ### handshake lines -/

/-- the feature field of a SID `[<anything>-<features>]`: the text between the last '-' and the ']' -/
def sidFeatures (t : Bytes) : Option Bytes :=
  match t with
  | 91 :: r =>
    match (splitOn 45 r.dropLast).reverse with
    | feats :: _ :: _ => some feats
    | _ => none
  | _ => none

/-- a SID the B2F protocol accepts: bracketed, one line, at least one '-', and "B2" somewhere in the
feature field (letters in either case) -/
def isGoodSid (t : Bytes) : Bool :=
  !t.contains 10 &&
    match sidFeatures t with
    | some feats => containsSub (toUpper feats) [66, 50]
    | none => false

inductive HsKind where
  | banner | sid | fw | pq | prompt | bad
deriving Repr, DecidableEq

/-- classification of one line of the remote's handshake -/
def hsKind (g : InCfg) (t : Bytes) : HsKind :=
  if t.isEmpty then .banner                                         -- an empty line
  else if !isText t then .bad
  else if t.head? == some 91 && t.getLast? == some 93 then (if isGoodSid t then .sid else .bad)
  else if [59, 70, 87].isPrefixOf t then (if [59, 70, 87, 58, 32].isPrefixOf t then .fw else .bad)   -- `;FW: a b|h …`
  else if [59, 80, 81].isPrefixOf t then                             -- `;PQ: <challenge>`
    (if g.secure && [59, 80, 81, 58, 32].isPrefixOf t && 6 ≤ t.length then .pq else .bad)
  else if t.getLast? == some 62 then .prompt                          -- `… >`
  else .banner                                                      -- anything else, comments included

/-! ### turn lines -/

/-- `FC EM|CM <mid> <usize> <csize> 0`: the compressed size. The whole line is printable ASCII;
MID: 1..12 non-blank characters; sizes: decimal, below 2^63. -/
def proposal? (t : Bytes) : Option Nat :=
  match splitOn 32 t with
  | [fc, ty, mid, usize, csize, z] =>
    if isText t && t.all isPrint &&
        fc == [70, 67] && (ty == [69, 77] || ty == [67, 77]) && 1 ≤ mid.length && mid.length ≤ 12 && mid.all isSolid &&
        isNum usize && isNum csize && digitsVal usize < 9223372036854775808 && digitsVal csize < 9223372036854775808 &&
        z == [48]
    then some (digitsVal csize) else none
  | _ => none

/-- the prompt line that closes a proposal block whose lines (CRs included) sum to `sum` -/
def promptText (sum : Nat) : Bytes := [70, 62, 32] ++ hex2 (neg8 sum)

/-- the answers of an `FS` line against the compressed sizes of the proposals they answer: `+ Y y` accept,
`- N n R r` reject, `= L l H h` defer, `! A a` + decimal offset: accept from that offset, which must lie
inside the message. At most one answer per proposal. (The fuel is the length of the text + 1.) -/
def answersOK : Nat → List Nat → Bytes → Bool
  | 0, _, _ => false
  | _ + 1, _, [] => true
  | _ + 1, [], _ :: _ => false
  | f + 1, c :: cs, a :: rest =>
    if a == 43 || a == 89 || a == 121 || a == 45 || a == 78 || a == 110 || a == 82 || a == 114 ||
        a == 61 || a == 76 || a == 108 || a == 72 || a == 104 then answersOK f cs rest
    else if a == 33 || a == 65 || a == 97 then
      let ds := rest.takeWhile isDigit
      !ds.isEmpty && digitsVal ds ≤ c && answersOK f cs (rest.drop ds.length)
    else false

/-- `FS <answers>`, at least one answer -/
def fsAnswers? (t : Bytes) : Option Bytes :=
  match t with
  | 70 :: 83 :: 32 :: as => if isText t && !as.isEmpty then some as else none
  | _ => none

/-! ### transfers -/

/-- a conforming transfer for a proposal of compressed size `c` -/
def frameOK (g : InCfg) (c : Nat) (title : Bytes) (chunks : List Bytes) (ck : UInt8) : Bool :=
  !title.contains 0 && title.length + 3 < 256 &&
    chunks.all (fun k => 1 ≤ k.length && k.length ≤ 256) &&
    chunks.flatten.length == c &&
    ck == UInt8.ofNat (neg8 (byteSum chunks.flatten)) &&
    match lzDecode chunks.flatten with
    | some d => g.msgOK d
    | none => false

/-! ### the session's own line writes -/

/-- the writes that are not parts of a transfer (SOH header, STX block, EOT trailer) -/
def lineWrites (ws : List Bytes) : List Bytes :=
  ws.filter fun w => !(w.head? == some 1 || w.head? == some 2 || w.head? == some 4)

/-- the master's handshake is the write that ends with the prompt `>` CR -/
def endsPrompt (w : Bytes) : Bool := w.reverse.take 2 == [13, 62]

/-- our `FS <answers>` CR -/
def ourAnswers? (w : Bytes) : Option Bytes :=
  match w with
  | 70 :: 83 :: 32 :: r => if r.getLast? == some 13 then some r.dropLast else none
  | _ => none

/-- the compressed sizes of the proposals we answered with '+' -/
def acceptedSizes : List Nat → Bytes → List Nat
  | c :: cs, a :: as => if a = 43 then c :: acceptedSizes cs as else acceptedSizes cs as
  | _, _ => []

/-! ### the checker -/

inductive IState where
  /-- the remote's handshake; `sid`: its SID line has been seen -/
  | hs (sid : Bool)
  /-- the remote's turn: compressed sizes of the proposals of the current block and the byte sum of their lines -/
  | theirs (props : List Nat) (sum : Nat)
  /-- the remote owes the `FS` answer to our block (compressed sizes of our proposals) -/
  | answer (csizes : List Nat)
  /-- the remote owes transfers with these payload sizes -/
  | xfer (pend : List Nat)
deriving Repr, DecidableEq

inductive Step where
  | bad
  | free
  | next (s : IState) (ws : List Bytes)
deriving Repr, DecidableEq

/-- our proposal block: the compressed sizes on our proposal lines, up to our `F>` line -/
def takeBlock : List Bytes → List Nat → Option (List Nat × List Bytes)
  | [], _ => none
  | w :: ws, acc =>
    match propLine? w with
    | some c => takeBlock ws (acc ++ [c])
    | none => if [70, 62].isPrefixOf w then some (acc, ws) else none

/-- it is OUR turn: read from our writes what we did -/
def ourTurn : List Bytes → Step
  | [] => .free
  | w :: ws =>
    if w = lineFF then .next (.theirs [] 0) ws
    else if w = lineFQ then .free
    else
      match takeBlock (w :: ws) [] with
      | some (cs, ws') => if cs.isEmpty then .free else .next (.answer cs) ws'
      | none => .free

/-- after our `FS` answer: transfers are owed for what we accepted, then it is our turn -/
def afterAnswer (pend : List Nat) (ws : List Bytes) : Step :=
  if pend.isEmpty then ourTurn ws else .next (.xfer pend) ws

/-- a line in the remote's turn -/
def theirLine (props : List Nat) (sum : Nat) (ws : List Bytes) (t : Bytes) : Step :=
  if isComment t then .next (.theirs props sum) ws
  else if t = [70, 70] then (if props.isEmpty then ourTurn ws else .bad)
  else if t = [70, 81] then (if props.isEmpty then .free else .bad)
  else
    match proposal? t with
    | some c => if props.length < 5 then .next (.theirs (props ++ [c]) (sum + byteSum t + 13)) ws else .bad
    | none =>
      if t = promptText sum ∧ props ≠ [] then
        match ws with
        | [] => .free
        | w :: ws' =>
          match ourAnswers? w with
          | some as => if as.length = props.length then afterAnswer (acceptedSizes props as) ws' else .free
          | none => .free
      else .bad

/-- a line while the remote owes the answer to our block -/
def answerLine (cs : List Nat) (ws : List Bytes) (t : Bytes) : Step :=
  if isComment t then .next (.answer cs) ws
  else
    match fsAnswers? t with
    | some as => if answersOK (as.length + 1) cs as then .next (.theirs [] 0) ws else .bad
    | none => .bad

/-- a line of the remote's handshake -/
def hsLine (g : InCfg) (sid : Bool) (ws : List Bytes) (t : Bytes) : Step :=
  if g.master && t.head? == some 70 then (if sid then theirLine [] 0 ws t else .bad)
  else
    match hsKind g t with
    | .bad => .bad
    | .sid => .next (.hs true) ws
    | .prompt =>
      if g.master || !sid then .bad
      else
        match ws with
        | [] => .free
        | _ :: ws' => ourTurn ws'          -- our handshake, then our turn
    | _ => .next (.hs sid) ws

def stepUnit (g : InCfg) : IState → List Bytes → RUnit → Step
  | .hs sid, ws, .line t => hsLine g sid ws t
  | .theirs props sum, ws, .line t => theirLine props sum ws t
  | .answer cs, ws, .line t => answerLine cs ws t
  | .xfer (c :: cs), ws, .frame title chunks ck => if frameOK g c title chunks ck then afterAnswer cs ws else .bad
  | _, _, _ => .bad

/-- where the conversation starts: a master first writes its MOTD lines and its handshake -/
def start (g : InCfg) (ws : List Bytes) : Step :=
  if g.master then
    match ws.dropWhile (fun w => !endsPrompt w) with
    | [] => .free
    | _ :: ws' => .next (.hs false) ws'
  else .next (.hs false) ws

/-- walk the script -/
def conf (g : InCfg) : Step → List RUnit → Step
  | .next s ws, u :: us => conf g (stepUnit g s ws u) us
  | st, _ => st

/-! ### a connection that ends: the unfinished last unit -/

/-- the data blocks of an unfinished transfer: complete blocks, then a cut one, or nothing, or the EOT whose
checksum byte never arrived -/
def cutBlocks : Nat → Bytes → Bool
  | 0, _ => false
  | _ + 1, [] => true
  | _ + 1, [2] => true
  | _ + 1, [4] => true
  | f + 1, 2 :: l :: d =>
    let n := if l = 0 then 256 else l.toNat
    if d.length < n then true else cutBlocks f (d.drop n)
  | _ + 1, _ => false

/-- an unfinished transfer: SOH, length, title, NUL, "0", NUL, blocks, EOT — cut ANYWHERE, the cut between the
EOT and its checksum byte included (see `Props/C05_accept.lean: cut_after_eot_is_connection_lost`) -/
def cutFrame (tail : Bytes) : Bool :=
  match tail with
  | [] => true
  | [1] => true
  | 1 :: len :: r =>
    let title := r.takeWhile (· != 0)
    match r.drop title.length with
    | [] => true                                   -- cut inside the title
    | _ :: r2 =>                                    -- the NUL after the title
      match r2 with
      | [] => true
      | [48] => true
      | 48 :: 0 :: r3 => len.toNat == title.length + 3 && cutBlocks (r3.length + 1) r3
      | _ => false
  | _ => false

/-- what may follow the script when the connection ends there: an unfinished line (no CR) — which, for a
master still waiting for the SID, does not start with `F` — or an unfinished transfer -/
def tailOK (g : InCfg) : IState → Bytes → Bool
  | .xfer _, tail => cutFrame tail
  | .hs sid, tail => !tail.contains 13 && !(g.master && !sid && tail.head? == some 70)
  | _, tail => !tail.contains 13

/-- **The remote conforms**: given the session's writes `ws` (all of them, oldest first), the remote's
script followed by the unfinished unit `tail` is a conforming B2F conversation up to the point where the
connection ended. -/
def conforms (g : InCfg) (ws : List Bytes) (script : List RUnit) (tail : Bytes) : Bool :=
  match conf g (start g (lineWrites ws)) script with
  | .bad => false
  | .free => true
  | .next s _ => tailOK g s tail

end Wl2k.B2F.InGrammar
