import Wl2kVerif.Proofs.MboxCrash
import Wl2kVerif.Gen.Tables
/-
C11 — the mailbox survives a crash at any point.

A mutating operation denotes the script of file-system system calls it issues (`Mbox.Crash`); the
process may die before/after each call and after every prefix of a `write`. The script the code
ACTUALLY issues is observed by `strace` on every run (harness/cmd/corr/c11.go), classified by shape
and evaluated on the model for every crash point (driver op `crashcheck`); the theorems below are
about the two shapes: temp-file + rename (the repaired code) and direct write (before the repair).
-/
namespace Wl2k.Props.C11
open Wl2k Wl2k.Mbox

/-- **Crash atomicity of `open tmp; write; close; rename tmp final`**, for ALL file-system contents,
all message bytes, every crash point: a restarted mailbox observes the state before the operation
(all four folder listings, or their failure, and every "already received" answer are unchanged), or
the file system is the one after the whole script. The temporary name may be any name in a mailbox
folder that `LoadMessageDir` ignores. -/
theorem crash_atomic (C : Codec) (root : FPath) (hr : NormalRoot root) (fs : FS) (f : Folder)
    (tmpName : Bytes) (hts : (47 : UInt8) ∉ tmpName) (hinv : visibleName tmpName = false)
    (final : FPath) (c : Bytes) :
    ∀ fs' ∈ crashStates fs (atomicScript (fp root f tmpName) final c),
      sameView C root fs' fs ∨ fs' = runScript fs (atomicScript (fp root f tmpName) final c) :=
  crash_atomic_script hr fs f tmpName hts hinv final c

/-- The script is the operation: when `writeFileAtomic` succeeds its result is what the script computes. -/
theorem script_is_op (fs : FS) (p : FPath) (c : Bytes) (h : (writeFileAtomic fs p c).2 = true) :
    (runScript fs (atomicScript (p ++ tmpExt) p c)).files = (writeFileAtomic fs p c).1.files ∧
    (runScript fs (atomicScript (p ++ tmpExt) p c)).dirs = (writeFileAtomic fs p c).1.dirs :=
  atomic_script_is_op fs p c h

/-- **Recovery after a crash while a message file is being stored**, on every mailbox state reachable
by any history (`Rel`, Props.C10), for every message and every crash point: the restarted mailbox sees
the state before or the state after the operation (so every previously stored message is intact and an
outbound message is still where it was), every folder loads, and a proposal is answered "already
received" only if a complete copy is listed in the inbox. `e` is the file being stored:
`⟨.inbox, m + X-Unread⟩` for ProcessInbound, `⟨.outbox, m⟩` for AddOut, the rewritten message for SetUnread. -/
theorem crash_recoverable (C : Codec) (hl : C.Lawful) (root : FPath) (hr : NormalRoot root)
    {d : DState} {s : SState} {es : List Entry} (r : Rel C root d s es)
    (e : Entry) (hst : storable e.m.mid = true) (hrd : s.ready = true) :
    ∀ fs' ∈ crashStates d.fs (atomicScript (e.path root ++ tmpExt) (e.path root) (C.ser e.m)),
      (sameView C root fs' d.fs ∨ sameView C root fs' (writeFileAtomic d.fs (e.path root) (C.ser e.m)).1) ∧
      (∀ g, loadMessageDir C fs' (folderPath root g) ≠ none) ∧
      (∀ mid, validMID mid = true → fs'.canOpen (msgPath3 root .inbox mid) = true →
        ∃ l, loadMessageDir C fs' (folderPath root .inbox) = some l ∧ ∃ m ∈ l, m.mid = mid) :=
  crash_store hl hr r e hst hrd

/-- The paths of the three storing operations are `e.path root` of the corresponding entry. -/
theorem store_paths (root : FPath) (hr : NormalRoot root) (m : Msg) (h : validMID m.mid = true) :
    msgPath2 root .inbox (m.mid ++ Mbox.ext) = (Entry.mk .inbox m.setUnreadHdr).path root ∧
    msgPath3 root .outbox m.mid = (Entry.mk .outbox m).path root :=
  ⟨msgPath2_eq hr _ _ (elem_name h), join3_eq hr _ _ (elem_name h)⟩

/-- `SetSent` is one `rename`: the process dies before it or after it; the message is in `out/` or in `sent/`. -/
theorem crash_rename (fs : FS) (a b : FPath) :
    ∀ fs' ∈ crashStates fs [.rename a b], fs' = fs ∨ fs' = runScript fs [.rename a b] :=
  Mbox.crash_rename fs a b

/-- **Writing the final name in place (the code before the repair) is not recoverable**: witness =
the crash point right after `open(O_CREAT|O_TRUNC)`. The inbox fails to load and the proposal is
answered "already received" for a message that was never stored. For every lawful codec, every clean
root, every storable MID. -/
theorem direct_write_not_recoverable (C : Codec) (hl : C.Lawful) (root : FPath) (hr : NormalRoot root)
    (mid : Bytes) (hst : storable mid = true) (c : Bytes) :
    Sys.apply (preparedFS root) (.openTrunc (fp root .inbox (mid ++ Mbox.ext)))
        ∈ crashStates (preparedFS root) (directScript (fp root .inbox (mid ++ Mbox.ext)) c) ∧
    loadMessageDir C (Sys.apply (preparedFS root) (.openTrunc (fp root .inbox (mid ++ Mbox.ext))))
        (folderPath root .inbox) = none ∧
    (Sys.apply (preparedFS root) (.openTrunc (fp root .inbox (mid ++ Mbox.ext)))).canOpen (msgPath3 root .inbox mid) = true ∧
    loadMessageDir C (preparedFS root) (folderPath root .inbox) = some [] ∧
    (preparedFS root).canOpen (msgPath3 root .inbox mid) = false :=
  Mbox.direct_write_not_recoverable C hl root hr mid hst c

/-- The folder names and the extension of the model are those of /repo's current source
(`Gen.Tables` is regenerated from `mailbox/syncdir.go` on every run). -/
theorem source_constants :
    Gen.mailboxDIR_INBOX.map UInt8.ofNat = Folder.inbox.dir ∧ Gen.mailboxDIR_OUTBOX.map UInt8.ofNat = Folder.outbox.dir ∧
    Gen.mailboxDIR_SENT.map UInt8.ofNat = Folder.sent.dir ∧ Gen.mailboxDIR_ARCHIVE.map UInt8.ofNat = Folder.archive.dir ∧
    Gen.mailboxExt.map UInt8.ofNat = Mbox.ext := by decide

/-! ### Non-vacuity -/

/-- The temporary name the code uses is ignored by the loader; a message name is not. -/
example : visibleName ([65] ++ Mbox.ext ++ tmpExt) = false ∧ visibleName ([65] ++ Mbox.ext) = true := by decide

/-- A concrete run: 3 bytes written through a temp file in `/m/in` have 8 crash states. -/
example : (crashStates (preparedFS [47, 109])
    (atomicScript (fp [47, 109] .inbox ([65] ++ Mbox.ext ++ tmpExt)) (fp [47, 109] .inbox ([65] ++ Mbox.ext)) [1, 2, 3])).length = 8 := by
  decide

/-- … and on the toy codec the crash state after `open` of a direct write really fails to load. -/
example : loadMessageDir Toy.codec
    (Sys.apply (preparedFS [47, 109]) (.openTrunc (fp [47, 109] .inbox ([65] ++ Mbox.ext)))) (folderPath [47, 109] .inbox) = none := by
  decide

end Wl2k.Props.C11
