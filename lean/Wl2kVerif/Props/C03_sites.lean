import Wl2kVerif.Gen.Facts
/-
C03 (memory clause) — "does not allocate memory out of proportion to the bytes received".
Regenerated fact: the size-taking allocation calls of packages fbb and lzhuf in /repo's CURRENT source
(`harness/cmd/extract/alloc.go` lists every make / Grow / Repeat / New{Reader,Writer}Size / CopyN with a
classification of its size argument). The theorem is the expectation over that list.
-/
namespace Wl2k.Props.C03
open Wl2k

/-- a size is harmless when it is absent, a constant, or the length of data the process already holds -/
def benignSize (c : String) : Bool := c == "none" || c == "const" || c == "len"

/-- **No allocation is sized by a number from the wire.** In the current source of `fbb` and `lzhuf`, every
allocation call that takes a size (`make`, `Grow`, `Repeat`, `NewReaderSize`, `NewWriterSize`, `CopyN`)
takes a constant or the length of data already held - never a parsed proposal size, compressed size,
offset, `Body:`/`File:` length or LZHUF header size. Together with `read_bounded` (C08), the incremental
`readSection` and `transfer_buffer_le_received`, memory grows only with bytes actually received.
(A new or changed allocation site makes this theorem fail; the check then searches for a transcript that
makes the real session allocate out of proportion.) -/
theorem alloc_sites_benign : Gen.sessionAllocSites.all (fun s => benignSize s.2.2) = true := by decide

/-- the list is not empty and covers the two transfer functions (non-vacuity of the fact) -/
theorem alloc_sites_cover :
    (Gen.sessionAllocSites.any fun s => s.1 == "fbb/b2f.go:Session.readCompressed") = true ∧
    (Gen.sessionAllocSites.any fun s => s.1 == "fbb/message.go:Message.ReadFrom") = true := by decide

end Wl2k.Props.C03
