import Wl2kVerif.Proofs.Huff7
/-
C06 stage 2 — the adaptive-Huffman layer: encoder and decoder agree on every symbol, on every
well-formed tree (hence on every reachable one, `Props.C08.huffWF_reachable`).
`codeBits h c` (`Proofs/Huff7.lean`) is the code of symbol `c` in state `h`: the parities of the nodes on
the path from the root down to `c`'s leaf. `Reader.takeBits d n` is `n` successive `ReadBits(1)` calls.
`Bits.bits64 j v` = the top `j` bits of a 64-bit word, MSB first; `Bits.unreadBits d` = what the bit
reader has not consumed yet (`Proofs/Bits.lean`).
-/
namespace Wl2k.Props.C06
open Wl2k Wl2k.Lzhuf Wl2k.Bits

/-- **Code length.** On a well-formed tree every code has at most 21 bits: along a root path
`w(v_{i+2}) ≥ w(v_{i+1}) + w(v_i)` (siblings are adjacent and the array is sorted), so a code of `j` bits
forces `freq[R] ≥ fib (j + 2)`, and `fib 24 > MAX_FREQ`. The 64-bit accumulator of the repaired
`encodeChar` therefore never overflows. (21 > 16: the bound does not rescue the 16-bit accumulator of the unrepaired code, cf. DESIGN §5.6.) -/
theorem code_length_le (h : Huff) (w : HuffWF h) (c : Nat) (hc : c < NCHAR) : (codeBits h c).length ≤ 21 :=
  codeBits_length_le w c hc

/-- **Encoder.** The leaf-to-root walk of `encodeChar(c)` returns `(i, j)` with `j = |codeBits h c| ≤ 21`
and the top `j` bits of `i`, MSB first, equal to `codeBits h c`. -/
theorem codeWalk64_spells_code (h : Huff) (w : HuffWF h) (c : Nat) (hc : c < NCHAR) :
    (codeWalk64 h.prnt (rd h.prnt (c + T)) 0 0 (T + 1)).2 = (codeBits h c).length ∧
    (codeWalk64 h.prnt (rd h.prnt (c + T)) 0 0 (T + 1)).2 ≤ 21 ∧
    bits64 (codeWalk64 h.prnt (rd h.prnt (c + T)) 0 0 (T + 1)).2
      (codeWalk64 h.prnt (rd h.prnt (c + T)) 0 0 (T + 1)).1.toNat = codeBits h c :=
  codeWalk64_code w c hc

/-- **Decoder.** If the next `|codeBits h c|` single-bit reads deliver `codeBits h c`, then `decodeChar`
performs exactly those reads, returns `c`, and updates the tree with `c`. -/
theorem decodeChar_reads_code (d : Reader) (w : HuffWF d.h) (c : Nat) (hc : c < NCHAR)
    (htk : (d.takeBits (codeBits d.h c).length).2 = (codeBits d.h c).map Bool.toNat) :
    d.decodeChar = ({ (d.takeBits (codeBits d.h c).length).1 with h := update d.h c }, c) :=
  Reader.decodeChar_of_code d w c hc htk

/-- **Symbol-level round trip through the bit layer.** Writer `wr` and reader `d` hold the same well-formed
tree; the writer appends exactly `codeBits` to its bit string; if the reader's unread bits start with that
code it decodes `c`, is left with exactly the rest, and both sides hold the same (well-formed) tree again. -/
theorem symbol_roundtrip (wr : Writer) (d : Reader) (c : Nat) (hc : c < NCHAR) (w : HuffWF wr.h)
    (hh : d.h = wr.h) (winv : BitsInv wr) (rinv : RInv d) (rest : List Bool)
    (hu : unreadBits d = codeBits wr.h c ++ rest) :
    bitsOf (wr.encodeChar c) = bitsOf wr ++ codeBits wr.h c ∧ BitsInv (wr.encodeChar c) ∧
    d.decodeChar.2 = c ∧ unreadBits d.decodeChar.1 = rest ∧ RInv d.decodeChar.1 ∧
    d.decodeChar.1.h = (wr.encodeChar c).h ∧ HuffWF d.decodeChar.1.h :=
  Lzhuf.symbol_roundtrip wr d c hc w hh winv rinv rest hu

/-! ### non-vacuity -/

/-- the hypotheses of `symbol_roundtrip` are satisfiable at the start of every stream: a new writer and a
new reader hold the same well-formed tree and satisfy the bit-layer invariants. -/
example (crc16 : Bool) : ∃ d, Reader.new crc16 [0, 0, 5, 0, 0, 0, 0xfa, 0x7c] = .ok d ∧
    d.h = (Writer.new crc16).h ∧ HuffWF (Writer.new crc16).h ∧ BitsInv (Writer.new crc16) ∧ RInv d := by
  cases crc16
  · exact ⟨_, rfl, rfl, huffWF_init, Bits.new_inv false, (new_rinv false [0, 0, 5, 0, 0, 0, 0xfa, 0x7c] _ rfl).1⟩
  · exact ⟨_, rfl, rfl, huffWF_init, Bits.new_inv true, (new_rinv true [0, 0, 5, 0, 0, 0, 0xfa, 0x7c] _ rfl).1⟩

/-- a code is never empty (the root is internal), so `decodeChar` always consumes at least one bit -/
theorem code_length_pos (h : Huff) (c : Nat) : 1 ≤ (codeBits h c).length := by
  unfold codeBits; rw [List.length_reverse, upBits, List.length_cons]; omega

end Wl2k.Props.C06
