import Wl2kVerif.Proofs.Agwpe
import Wl2kVerif.Gen.Facts
/-
C13 — an AGWPE connection is a reliable, ordered byte stream.

Models: `Agwpe/Frame.lean` (36-byte header codec, frame constructors), `Agwpe/Stream.lean`
(`frame.ReadFrom` / `TNC.run` over CHUNKED input), `Agwpe/Conn.lean` (`Conn.Read` with the unread
tail), `Agwpe/Demux.lean` (`framesFilter.Want`, the filter chain, the queue pipeline with the
drop-when-full enqueue), `Agwpe/Session.lean` (register / dial / accept / Write / Flush / Close
against arbitrary TNC answers). What is NOT modelled: goroutine scheduling and wall-clock timers
(200 ms ticks, 30 s / 1 min deadlines) other than as nondeterministic event orders / poll fuel.
-/
namespace Wl2k.Props.C13
open Wl2k Wl2k.Agwpe

/-! ### Facts regenerated from /repo's source at every run -/

/-- The `header` struct in the Go source has the layout the codec model uses, and it is 36 bytes. -/
theorem header_layout_regenerated :
    Gen.agwpeHeaderLayout = layout ∧ (layout.map (·.2)).sum = headerSize := by decide

/-- The frame-kind constants of the Go source are the ones the model uses. -/
theorem kinds_regenerated :
    (kindTable.all fun e => Gen.agwpeKinds.contains e) = true ∧
    (Gen.agwpeKinds.all fun e => kindTable.contains e) = true := by decide

/-- `frame.ReadFrom` reads the data field with `io.ReadFull` (not with a single `Read`): this is what
licenses `readFrame true` / `decodeStream true` as the model of the current code. -/
theorem dataReadFull_regenerated :
    Gen.agwpeFrameReadFromCalls.contains "io.ReadFull" = true ∧
    Gen.agwpeFrameReadFromCalls.contains "r.Read" = false := by decide

/-- Every frame constructor that takes a `port` argument puts it into the header. -/
theorem ctor_sets_port_regenerated :
    (Gen.agwpeCtorHeaderFields.all fun c => !c.2.1 || c.2.2.contains "Port") = true := by decide

/-- Queue capacities and enqueue discipline the pipeline model is instantiated with; `Conn.Read` and
`demux.Chain` contain no `panic` call. -/
theorem queues_regenerated :
    Gen.agwpeDemuxInCap = 1 ∧ Gen.agwpeConnDataFramesCap = 10 ∧ Gen.agwpeChainFramesCap = 0 ∧
    Gen.agwpeEnqueueNonBlocking = true ∧
    Gen.agwpeConnReadCalls.contains "panic" = false ∧ Gen.agwpeDemuxChainCalls.contains "panic" = false := by
  decide

/-! ### Codec -/

/-- **frame_roundtrip**: a frame written by `WriteTo` and read back by `ReadFrom` is the same frame
(nothing left over), for every frame Go's types admit with less than 4 GiB of data. -/
theorem frame_roundtrip (f : Frame) (h : f.WF) :
    decodeStream true [encode f] = ([f], .eof) ∧
    ∃ r, readFrame true [encode f] = .ok (f, r) ∧ r.flatten = [] := by
  refine ⟨stream_reassembly' [f] (by simpa using h) [encode f] (by simp), ?_⟩
  exact readFrame_encode f h [encode f] [] (by simp)

/-- The wire image has every field at the offset of the regenerated struct layout; the data follows
the 36-byte header. -/
theorem encode_fields (f : Frame) (h : f.WF) :
    (encode f).length = 36 + f.data.length ∧
    (encode f).getD (offsetOf "Port" Gen.agwpeHeaderLayout) 0 = f.port ∧
    (encode f).getD (offsetOf "DataKind" Gen.agwpeHeaderLayout) 0 = f.kind ∧
    (encode f).getD (offsetOf "PID" Gen.agwpeHeaderLayout) 0 = f.pid ∧
    ((encode f).drop (offsetOf "From" Gen.agwpeHeaderLayout)).take 10 = f.src ∧
    ((encode f).drop (offsetOf "To" Gen.agwpeHeaderLayout)).take 10 = f.dst ∧
    le32dec (((encode f).drop (offsetOf "DataLen" Gen.agwpeHeaderLayout)).take 4) = f.data.length ∧
    (encode f).drop 36 = f.data := by
  have o1 : offsetOf "Port" Gen.agwpeHeaderLayout = 0 := by decide
  have o2 : offsetOf "DataKind" Gen.agwpeHeaderLayout = 4 := by decide
  have o3 : offsetOf "PID" Gen.agwpeHeaderLayout = 6 := by decide
  have o4 : offsetOf "From" Gen.agwpeHeaderLayout = 8 := by decide
  have o5 : offsetOf "To" Gen.agwpeHeaderLayout = 18 := by decide
  have o6 : offsetOf "DataLen" Gen.agwpeHeaderLayout = 28 := by decide
  rw [o1, o2, o3, o4, o5, o6]
  have hs := h.src
  have hd := h.dst
  refine ⟨encode_length f hs hd, ?_, ?_, ?_, ?_, ?_, ?_, ?_⟩
  · simp [encode, encodeHeader]
  · simp [encode, encodeHeader]
  · simp [encode, encodeHeader]
  · simp only [encode, encodeHeader, List.cons_append, List.nil_append, List.drop_succ_cons, List.drop_zero,
      List.append_assoc]
    exact List.take_left' hs
  · have e : (encode f).drop 18 = f.dst ++ (le32 f.data.length ++ [0, 0, 0, 0] ++ f.data) := by
      have : (18 : Nat) = 8 + 10 := rfl
      rw [this, ← List.drop_drop]
      simp only [encode, encodeHeader, List.cons_append, List.nil_append, List.drop_succ_cons, List.drop_zero,
        List.append_assoc]
      exact List.drop_left' hs
    rw [e]; exact List.take_left' hd
  · have e : (encode f).drop 28 = le32 f.data.length ++ ([0, 0, 0, 0] ++ f.data) := by
      have : (28 : Nat) = 8 + (10 + 10) := rfl
      rw [this, ← List.drop_drop, ← List.drop_drop]
      simp only [encode, encodeHeader, List.cons_append, List.nil_append, List.drop_succ_cons, List.drop_zero,
        List.append_assoc]
      rw [List.drop_left' hs, List.drop_left' hd]
    rw [e, List.take_left' (le32_length _), le32dec_le32 _ h.len]
  · have hl := encodeHeader_length f f.data.length hs hd
    simp only [encode]
    exact List.drop_left' hl

/-- **stream_reassembly**: for EVERY sequence of frames and EVERY way the TNC→host byte stream is cut
into pieces (mid-header, mid-data, empty pieces, one byte at a time), the read loop returns exactly
the frames, in order, and ends with a clean EOF. -/
theorem stream_reassembly (fs : List Frame) (hwf : ∀ f ∈ fs, f.WF) (chunks : List Bytes)
    (h : chunks.flatten = (fs.map encode).flatten) : decodeStream true chunks = (fs, .eof) :=
  stream_reassembly' fs hwf chunks h

/-- With the read primitive the code used BEFORE the `fix:` commit (a single `Read` for the data
field) the statement is false: a cut inside the data field loses the frame and ends the loop with
`unexpected EOF`. The regenerated fact `dataReadFull_regenerated` shows the code no longer does this. -/
theorem single_read_loses :
    ∃ (f : Frame) (chunks : List Bytes), f.WF ∧ chunks.flatten = encode f ∧
      decodeStream false chunks = ([], .unexpectedEOF) :=
  ⟨connectedDataFrame 0 [65] [66] [104, 105], [(encode (connectedDataFrame 0 [65] [66] [104, 105])).take 37,
    (encode (connectedDataFrame 0 [65] [66] [104, 105])).drop 37], by decide, by decide, by decide⟩

/-- **tnc_input_total**: on ARBITRARY input bytes in arbitrary pieces the read loop is a total function
(there is no panic value in its result type) that ends with EOF or unexpected EOF; the frames it hands on
account for at most the bytes received, and each has two 10-byte callsigns. -/
theorem tnc_input_total (full : Bool) (chunks : List Bytes) :
    (((decodeStream full chunks).1.map fun f => 36 + f.data.length).sum ≤ chunks.flatten.length) ∧
    (∀ f ∈ (decodeStream full chunks).1, f.src.length = 10 ∧ f.dst.length = 10) ∧
    ((decodeStream full chunks).2 = .eof ∨ (decodeStream full chunks).2 = .unexpectedEOF) := by
  refine ⟨(decodeStreamF_consumes full _ chunks).1, (decodeStreamF_consumes full _ chunks).2, ?_⟩
  cases (decodeStream full chunks).2 <;> simp

/-- Known finding (design level): the allocation is NOT bounded by what was received — a 36-byte
header makes the loop allocate DataLen bytes (up to 4 GiB − 1) before any data byte arrives. -/
theorem alloc_not_bounded_by_input :
    ∃ chunks : List Bytes, chunks.flatten.length = 36 ∧ allocStream true chunks = 4294967295 :=
  ⟨[encodeHeader (blank 0 kData) 4294967295], by decide, by decide⟩

/-! ### Conn.Read -/

/-- **read_any_buf** (conservation): for any frame payloads and ANY sequence of caller buffer sizes
(including 0 and sizes smaller than a frame) the bytes returned so far followed by what is still
pending are exactly the concatenated payloads: nothing lost, nothing duplicated, order kept. -/
theorem read_any_buf (payloads : List Bytes) (bufs : List Nat) :
    readBytes (connReads bufs (RdState.init payloads)).1 ++ (connReads bufs (RdState.init payloads)).2.pending
      = payloads.flatten := by
  have := connReads_conserve bufs (RdState.init payloads)
  simpa [RdState.pending, RdState.init] using this

/-- No Read returns more than its buffer holds (the pre-fix code panicked instead). -/
theorem read_fits_buffer (n : Nat) (s : RdState) : (connRead n s).1.bytes.length ≤ n := connRead_le n s

/-- **read_any_buf** (completeness): enough Reads with non-empty buffers return exactly the
concatenation of the payloads. -/
theorem read_any_buf_complete (payloads : List Bytes) (bufs : List Nat) (hpos : ∀ b ∈ bufs, 0 < b)
    (hlen : payloads.flatten.length + payloads.length < bufs.length + 1) :
    readBytes (connReads bufs (RdState.init payloads)).1 = payloads.flatten := by
  have hc := read_any_buf payloads bufs
  have hw := connReads_work bufs hpos (RdState.init payloads)
  have h0 : (connReads bufs (RdState.init payloads)).2.work = 0 := by
    rcases hw with h | h
    · have hi : (RdState.init payloads).work = payloads.flatten.length + payloads.length := by
        simp [RdState.work, RdState.init]
      rw [hi] at h
      omega
    · exact h
  rw [work_zero_pending _ h0] at hc
  simpa using hc

/-- What was wrong before the fix: a buffer smaller than the next frame was a panic. -/
theorem read_small_buffer_panicked_before_fix : connReadPreFix 4 [[1, 2, 3, 4, 5]] = none := by decide

/-! ### Filters -/

/-- **filter_sound / filter_complete**: a frame from the TNC reaches the data queue of the connection
(port, remote station) exactly when it is a connected-data frame on that port from or to that station.
(A connection whose remote callsign is empty has no station filter — hypothesis `hz`.) -/
theorem filter_sound (port : UInt8) (remote : Bytes) (f : Frame) (hz : callsign remote ≠ zeroCall) :
    deliveredData port remote f = true ↔
      f.port = port ∧ (f.src = callsign remote ∨ f.dst = callsign remote) ∧ f.kind = kData :=
  deliveredData_iff port remote f hz

/-! ### Queue pipeline -/

/-- For ANY interleaving of the goroutines (any event list) the frames delivered to Read followed by
the frames still in the queues are a subsequence of the frames the TNC sent — order kept, nothing
duplicated or invented — and every missing frame is counted in `dropped`. -/
theorem pipe_conservation {α : Type} (p : Pipe α) (evs : List (Ev α)) :
    (p.run evs).content.Sublist (p.content ++ pushed evs) ∧
    (p.run evs).content.length + (p.run evs).dropped = p.content.length + p.dropped + (pushed evs).length :=
  run_content evs p

/-- **no_loss_partial**: under every schedule in which no enqueue meets a full queue (`dropped = 0`)
what was delivered plus what is in flight is exactly what the TNC sent. -/
theorem no_loss_partial {α : Type} (inCap dataCap : Nat) (evs : List (Ev α))
    (h : ((agwpePipe α inCap dataCap).run evs).dropped = 0) :
    ((agwpePipe α inCap dataCap).run evs).content = pushed evs := by
  have hc := pipe_conservation (agwpePipe α inCap dataCap) evs
  have h0 : (agwpePipe α inCap dataCap).content = [] := by simp [agwpePipe, Pipe.content, inflight]
  have hd : (agwpePipe α inCap dataCap).dropped = 0 := rfl
  rw [h0, List.nil_append, hd, h] at hc
  apply hc.1.eq_of_length
  simpa using hc.2

/-- Such schedules exist for every frame sequence: when each frame is carried through and read before
the next arrives, everything is delivered in order. -/
theorem lockstep_no_loss {α : Type} (fs : List α) :
    ((agwpePipe α 1 10).run (lockstep fs)).delivered = fs ∧ ((agwpePipe α 1 10).run (lockstep fs)).dropped = 0 := by
  have := lockstep_run fs [] 0
  have e : ({ (agwpePipe α 1 10) with delivered := [], dropped := 0 } : Pipe α) = agwpePipe α 1 10 := rfl
  rw [e] at this
  rw [this]; simp

/-- Known finding (design level): unconditional no-loss is FALSE for the current code. A three-event
schedule — the TNC loop enqueues two frames before the demux goroutine runs — loses the second frame. -/
theorem enqueue_drops :
    ((agwpePipe Nat 1 10).run ([.push 1, .push 2] ++ settle ++ [.pop] ++ settle ++ [.pop])).delivered = [1] ∧
    ((agwpePipe Nat 1 10).run ([.push 1, .push 2] ++ settle ++ [.pop] ++ settle ++ [.pop])).dropped = 1 := by
  decide

/-- …and a slow reader loses data even when every frame is carried as far as it can go before the
next one arrives: of 40 frames only the first 12 survive (10 in `dataFrames`, one in the hands of the
connection's demux goroutine, one in its `in` queue). The harness observes exactly this on the real code. -/
theorem slow_reader_drops :
    ((agwpePipe Nat 1 10).run (slowReader (List.range 40) ++ drain 40)).delivered = List.range 12 := by
  decide +kernel

/-- Known finding (design level): control frames share the pipeline with data frames. Once 11 data
frames are unread (10 in `dataFrames`, one in the hands of the connection's demux goroutine) a further
frame — e.g. the `Y` answer a Write is waiting for — stays in the connection's `in` queue however often
the goroutines run; each Read lets it advance one place. -/
theorem control_frames_stall_behind_unread_data :
    let p := (agwpePipe Nat 1 10).run (slowReader (List.range 11) ++ [.push 99] ++ settle ++ settle ++ settle)
    p.delivered = [] ∧ (p.stages.map (·.q)).getD 4 [] = [99] ∧
    (p.run ([.pop] ++ settle ++ settle)).stages.map (·.q) = [[], [], [], [], [], [99], [1, 2, 3, 4, 5, 6, 7, 8, 9, 10]] := by
  decide +kernel

/-! ### Write, Flush, Close, register, dial: the AGWPE exchanges against ANY TNC answers -/

/-- **write_frames**: whatever the TNC answers to the `Y` queries, a Write that succeeds reports the whole
length and has put exactly ONE frame other than `Y` queries on the wire: the `D` frame with PID 0xF0,
the connection's port and callsigns, carrying the whole buffer. A Write that fails has sent nothing or
that one frame. -/
theorem write_frames (s : Sess) (p : Bytes) :
    ((nonY (s.write p).1.trace = nonY s.trace ∧ ∀ n, (s.write p).2 ≠ .okN n) ∨
     nonY (s.write p).1.trace = nonY s.trace ++ [connectedDataFrame s.port s.mycall s.remote p]) ∧
    (∀ n, (s.write p).2 = .okN n →
      n = p.length ∧ nonY (s.write p).1.trace = nonY s.trace ++ [connectedDataFrame s.port s.mycall s.remote p]) ∧
    (connectedDataFrame s.port s.mycall s.remote p).pid = 240 ∧
    (connectedDataFrame s.port s.mycall s.remote p).port = s.port ∧
    (connectedDataFrame s.port s.mycall s.remote p).data = p :=
  ⟨write_shape s p, fun n h => write_ok s p n h, rfl, rfl, rfl⟩

/-- The `D` frame is sent only after a `Y` answer of at most MAXFRAME. -/
theorem write_respects_window (s : Sess) (p : Bytes) (h : nonY (s.write p).1.trace ≠ nonY s.trace) :
    ∃ t, PollInv s t ∧ t.askY.1 ≤ s.maxFrame := write_waits s p h

/-- The TNC decodes what Writes put on the wire, however TCP cuts it: the data frames of any list of
buffers, encoded and chunked arbitrarily, decode to frames whose payloads concatenate to the buffers. -/
theorem written_bytes_arrive (port : UInt8) (my remote : Bytes) (ws : List Bytes)
    (hlen : ∀ w ∈ ws, w.length < 4294967296) (chunks : List Bytes)
    (h : chunks.flatten = ((ws.map (connectedDataFrame port my remote)).map encode).flatten) :
    ((decodeStream true chunks).1.map (·.data)).flatten = ws.flatten ∧
    ∀ f ∈ (decodeStream true chunks).1, f.port = port ∧ f.kind = kData ∧ f.pid = 240 ∧
      f.src = callsign my ∧ f.dst = callsign remote := by
  have hwf : ∀ f ∈ ws.map (connectedDataFrame port my remote), f.WF := by
    intro f hf
    simp only [List.mem_map] at hf
    obtain ⟨w, hw, rfl⟩ := hf
    exact ⟨by simp [connectedDataFrame, callsign]; omega, by simp [connectedDataFrame, callsign]; omega, hlen w hw⟩
  rw [stream_reassembly _ hwf chunks h]
  constructor
  · simp [connectedDataFrame, Function.comp_def]
  · intro f hf
    simp only [List.mem_map] at hf
    obtain ⟨w, _, rfl⟩ := hf
    exact ⟨rfl, rfl, rfl, rfl, rfl⟩

/-- **handshakes / close**: Close always returns nil; besides `Y` queries it sends at most one frame, the
`d` with the connection's port and callsigns; a second Close sends nothing. -/
theorem close_exchange (s : Sess) :
    (s.close).2 = .ok ∧
    (nonY (s.close).1.trace = nonY s.trace ∨
     nonY (s.close).1.trace = nonY s.trace ++ [disconnectFrame s.mycall s.remote s.port]) ∧
    ((s.close).1.close).1 = (s.close).1 := close_shape s

/-- The `d` goes out only after the TNC reported zero outstanding frames (or the flush deadline passed). -/
theorem close_after_flush (s : Sess) (h : nonY (s.close).1.trace ≠ nonY s.trace) :
    (∃ t, PollInv { s with closing := true } t ∧ t.askY.1 = 0) ∨
    (poll (fun n => decide (n = 0)) pollFuel { s with closing := true }).2 = .timeout := close_flushes_first s h

/-- **handshakes / flush**: Flush sends only `Y` queries and returns nil only after an answer of 0. -/
theorem flush_exchange (s : Sess) :
    nonY (s.flush).1.trace = nonY s.trace ∧
    ((s.flush).2 = .ok → ∃ t, PollInv s t ∧ t.askY.1 = 0) := by
  refine ⟨(poll_inv _ _ s).nonY, ?_⟩
  intro h
  unfold Sess.flush at h
  have ok := poll_ok (fun n => decide (n = 0)) pollFuel s
  generalize poll (fun n => decide (n = 0)) pollFuel s = r at *
  obtain ⟨t0, e⟩ := r
  cases e with
  | ok => obtain ⟨t, ht, hst, _⟩ := ok rfl; exact ⟨t, ht, by simpa using hst⟩
  | eof => simp [PollRes.op] at h
  | timeout => simp [PollRes.op] at h

/-- **handshakes / register**: exactly `g` then `X` on the port, with the callsign; success iff the TNC
answers `X` with the single byte 1; MAXFRAME is byte 6 of a capabilities answer of at least 12 bytes, else 7. -/
theorem register_exchange (s : Sess) (g x : Bytes) :
    (s.register g x).1.trace = s.trace ++ [portCapabilitiesFrame s.port, registerCallsignFrame s.mycall s.port] ∧
    ((s.register g x).2 = .okN (if g.length ≥ 12 then (g.getD 6 0).toNat else 7) ↔ x = [1]) :=
  register_shape s g x

/-- **handshakes / dial**: exactly one connect frame (`C`, or `v` with the digipeater list), on the port,
from mycall to the target; success iff the answer is a `C` frame starting with "*** CONNECTED With ";
a `C` answer without it is followed by a `d`. -/
theorem dial_exchange (s : Sess) (target : Bytes) (digis : List Bytes) (k : UInt8) (r : Bytes) :
    ((s.dial target digis k r).2 = .ok ↔ (k = kConnect ∧ strPrefix connectedWith r = true)) ∧
    ((s.dial target digis k r).1.trace = s.trace ++ [connectFrame s.mycall target s.port digis] ∨
     ((s.dial target digis k r).2 ≠ .ok ∧ (s.dial target digis k r).1.trace =
        s.trace ++ [connectFrame s.mycall target s.port digis, disconnectFrame s.mycall target s.port])) ∧
    (connectFrame s.mycall target s.port digis).port = s.port ∧
    (connectFrame s.mycall target s.port digis).kind = (if digis.length > 0 then kConnectVia else kConnect) ∧
    (connectFrame s.mycall target s.port digis).data = (if digis.length > 0 then viaData digis else []) := by
  refine ⟨(dial_shape s target digis k r).1, (dial_shape s target digis k r).2, ?_, ?_, ?_⟩ <;>
  · unfold connectFrame
    split <;> simp [connectViaFrame, blank]

/-- Every constructor puts its `port` argument into the frame (so `Port.write`'s "incorrect port in
frame" panic is unreachable from the library's own calls). -/
theorem ctor_ports (port : UInt8) (a b d : Bytes) (digis : List Bytes) :
    (portCapabilitiesFrame port).port = port ∧ (connectedDataFrame port a b d).port = port ∧
    (outstandingFramesForConnFrame port a b).port = port ∧ (outstandingFramesForPortFrame port).port = port ∧
    (registerCallsignFrame a port).port = port ∧ (unregisterCallsignFrame a port).port = port ∧
    (connectFrame a b port digis).port = port ∧ (connectViaFrame a b port digis).port = port ∧
    (unprotoInformationFrame a b port d).port = port ∧ (disconnectFrame a b port).port = port := by
  refine ⟨rfl, rfl, rfl, rfl, rfl, rfl, ?_, rfl, rfl, rfl⟩
  unfold connectFrame
  split <;> rfl

/-! ### Non-vacuity -/

/-- A concrete frame, its wire image, and its reassembly from a byte-at-a-time stream. -/
example : encode (connectedDataFrame 1 [76, 65] [76, 66] [104, 105]) =
    [1, 0, 0, 0, 68, 0, 240, 0, 76, 65, 0, 0, 0, 0, 0, 0, 0, 0, 76, 66, 0, 0, 0, 0, 0, 0, 0, 0, 2, 0, 0, 0, 0, 0, 0, 0, 104, 105] := by
  decide

example : decodeStream true ((encode (connectedDataFrame 1 [76, 65] [76, 66] [104, 105])).map fun b => [b]) =
    ([connectedDataFrame 1 [76, 65] [76, 66] [104, 105]], .eof) := by decide

example : (connectedDataFrame 1 [76, 65] [76, 66] [104, 105]).WF := by decide

/-- Reads with a 2-byte buffer over frames of 3, 0 and 2 bytes. -/
example : (connReads [2, 2, 2, 2, 2] (RdState.init [[1, 2, 3], [], [4, 5]])).1 =
    [.data [1, 2], .data [3], .data [], .data [4, 5], .eof] := by decide

/-- A filter that passes and one that refuses (other station). -/
example : deliveredData 1 [76, 66] (connectedDataFrame 1 [76, 66] [76, 65] [1]) = true ∧
    deliveredData 1 [76, 66] (connectedDataFrame 1 [88] [76, 65] [1]) = false ∧
    deliveredData 1 [76, 66] (connectedDataFrame 2 [76, 66] [76, 65] [1]) = false := by decide

/-- A write against a TNC that first reports 9 outstanding frames (MAXFRAME 7), then 7, then 0, then 1:
Y Y D Y Y, and the Write succeeds. -/
example : let s : Sess := { port := 1, mycall := [65], remote := [66], sim := { ys := [9, 7, 0, 1] } }
    ((s.write [1, 2, 3]).2 = .okN 3) ∧ ((s.write [1, 2, 3]).1.trace.map (·.kind) = [89, 89, 68, 89, 89]) := by
  decide

/-- A close against a TNC that reports 2, then 0: Y Y d. -/
example : let s : Sess := { port := 1, mycall := [65], remote := [66], sim := { ys := [2, 0] } }
    (s.close).1.trace.map (·.kind) = [89, 89, 100] := by decide

end Wl2k.Props.C13
