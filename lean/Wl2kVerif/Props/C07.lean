import Wl2kVerif.Lzhuf.Canon
/-
C07 — LZHUF streams interoperate with the canonical FBB/Winlink codec.
Proved here: the parameters and the four position tables regenerated from /repo ARE the canonical
ones (re-checked by the kernel on every run), the decode tables invert the encode tables, the CRC table
is the CRC-16/XMODEM table (bitwise definition, polynomial 0x1021), and the stream layout is the
canonical B2 header. The two cross-decoding statements (`canon_decodes_go`, `go_decodes_canon`) are
NOT proved: they are checked by correspondence against two independent transcriptions of LZHUF.C
(Lean `Lzhuf.Canon`, Go `harness/cmd/corr/canon.go`) and the five golden files — see MANIFEST level_note.
-/
namespace Wl2k.Props.C07
open Wl2k Wl2k.Lzhuf

/-- The constants in /repo are the canonical FBB parameters. -/
theorem params_canonical :
    Gen.lz_N = 2048 ∧ Gen.lz_F = 60 ∧ Gen.lz_Threshold = 2 ∧ Gen.lz_MaxFreq = 0x8000 ∧
    Gen.lz_NumChar = 314 ∧ Gen.lz_T = 627 ∧ Gen.lz_R = 626 ∧ Gen.lz_NIL = 2048 ∧
    Gen.lz_N = N ∧ Gen.lz_F = F ∧ Gen.lz_Threshold = THRESHOLD ∧ Gen.lz_MaxFreq = MAXFREQ ∧
    Gen.lz_NumChar = NCHAR ∧ Gen.lz_T = T ∧ Gen.lz_R = R := by decide

/-- LZHUF.C's `p_len` / `p_code` (the canonical prefix code for the upper six position bits). -/
def canonPLen : List Nat :=
  [3] ++ List.replicate 3 4 ++ List.replicate 8 5 ++ List.replicate 12 6 ++ List.replicate 24 7 ++ List.replicate 16 8

def canonPCode : List Nat :=
  [0x00] ++ [0x20, 0x30, 0x40] ++ (List.range 8).map (fun i => 0x50 + 8 * i)
  ++ (List.range 12).map (fun i => 0x90 + 4 * i) ++ (List.range 24).map (fun i => 0xC0 + 2 * i)
  ++ (List.range 16).map (fun i => 0xF0 + i)

theorem ptables_canonical : Gen.pLen = canonPLen ∧ Gen.pCode = canonPCode := by decide

/-- The decode tables invert the encode tables: every byte whose top `pLen[i]` bits are `pCode[i]`
decodes to index `i` with that length, and every byte is covered. -/
theorem dtable_inverts_ptable :
    (∀ i, i < 64 → ∀ k, k < 2 ^ (8 - tbl Gen.pLen i) →
      tbl Gen.dCode (tbl Gen.pCode i + k) = i ∧ tbl Gen.dLen (tbl Gen.pCode i + k) = tbl Gen.pLen i) ∧
    (∀ b, b < 256 → tbl Gen.pCode (tbl Gen.dCode b) ≤ b ∧ b < tbl Gen.pCode (tbl Gen.dCode b) + 2 ^ (8 - tbl Gen.dLen b)) ∧
    Gen.pLen.length = 64 ∧ Gen.pCode.length = 64 ∧ Gen.dCode.length = 256 ∧ Gen.dLen.length = 256 := by
  decide +kernel

/-- One byte through the bitwise CRC-16/XMODEM register (polynomial 0x1021, MSB first). -/
def xmodemBit (s : Nat) : Nat := if s &&& 0x8000 ≠ 0 then ((s <<< 1) ^^^ 0x1021) % 65536 else (s <<< 1) % 65536
def xmodemByte (i : Nat) : Nat := (List.range 8).foldl (fun s _ => xmodemBit s) (i <<< 8)

/-- The CRC table in /repo is the CRC-16/XMODEM table. -/
theorem crc16tab_eq_bitwise : Gen.crc16tab.length = 256 ∧ ∀ i, i < 256 → tbl Gen.crc16tab i = xmodemByte i := by
  decide +kernel

/-- The compressor state at `Close` after draining the look-ahead and flushing the last bits. -/
def closed (w : Writer) : Writer := ((w.drain (F + 1)).encode).encodeEnd

/-- The stream the compressor produces carries the canonical B2 layout: little-endian CRC-16 over
(size ++ body) — when enabled — then the little-endian 32-bit size, then the body. -/
theorem header_canonical (w : Writer) :
    w.close = (if (closed w).crc16 then le16 (crc (le32 ((closed w).fileSize % 4294967296) ++ (closed w).out.toList)) else [])
      ++ le32 ((closed w).fileSize % 4294967296) ++ (closed w).out.toList := rfl

theorem header_lengths (n : Nat) : (le32 n).length = 4 ∧ (le16 n).length = 2 := by simp [le32, le16]

/-- The Lean transcription of the canonical encoder uses the same layout. -/
theorem canon_header (crc16 : Bool) (x : Bytes) :
    Canon.compress crc16 x = (if crc16 then le16 (crc (le32 (x.length % 4294967296) ++ (Canon.encodeBody x).1)) else [])
      ++ le32 (x.length % 4294967296) ++ (Canon.encodeBody x).1 := rfl

end Wl2k.Props.C07
