import Wl2kVerif.Proofs.AcceptFinal
import Wl2kVerif.B2F.RefHandler
/-
C05, session level, ACCEPTANCE half at CONVERSATION level — "a Session accepts every conforming variation
the peer can produce": the session never answers a conforming remote with a protocol error.

The SPEC is the input grammar `B2F/InGrammar.lean`: the remote's side of the conversation is a script of
units (text lines, transfer frames) judged by `conforms g ws script tail` against the session's own writes
`ws` — comment lines anywhere, any split of a transfer into blocks of 1..256 bytes, every letter / symbol
form of the `FS` answers with offsets inside the message, SID variants, banner lines, `;FW:` / `;PQ:` lines,
`FF` / `FQ` turn-overs, at most 5 proposals `FC EM|CM …` per block closed by `F> HH` with the right checksum,
one transfer per proposal the session accepted, in order, whose payload has the proposed size,
decompresses, and is a message the local side accepts; a connection that ends inside a unit (`tail`) is a
lost connection, not a violation.

Hypotheses on the LOCAL side (all explicit): `CfgOK`/`HsOK` (as for the emission half), `HandlerOK`
(Proofs/EmitWalk.lean), and `HandlerAccepts g` (Proofs/AcceptBase.lean): `Prepare` succeeds, a payload that
decompresses to a message satisfying `g.msgOK` is parsed and stored without error, a batched handler
returns one answer per proposal shown, the secure-login callback succeeds when the grammar allows `;PQ:`.
Helper proofs: Proofs/Accept*.lean (simulation predicate `Good` in Proofs/AcceptBase.lean).
-/
namespace Wl2k.Props.C05
open Wl2k Wl2k.B2F Wl2k.B2F.InGrammar Wl2k.B2F.Grammar

/-! ### the theorem -/

/-- **`accepts_grammar`: the session never answers a conforming remote with a protocol error.**
For EVERY configuration satisfying `CfgOK`/`HsOK`, every grammar configuration `g` that describes the local
side truthfully (`g.master` = the session's role; `g.secure` only if a secure-login callback is configured),
EVERY local handler (any state type, any step function) whose replies satisfy `HandlerOK` and
`HandlerAccepts g`, EVERY remote script, EVERY unfinished last unit `tail`, every `fuel` greater than the
number of bytes the remote sends, and every initial handler state: if the conversation — the remote's
`script ++ tail` judged against the writes of this very run — conforms to the input grammar
(`InGrammar.conforms`), then `Exchange` RETURNS (no panic, no fuel exhaustion) a result whose error class is
`nil` or `connLost` — never a protocol error (`other`). Contrapositive: every protocol error the session
reports (every `*** …` it echoes) points at a place where the remote left the grammar. -/
theorem accepts_grammar {H : Type} (hstep : H → Call → H × Reply) (g : InCfg) (c : Cfg) (hc : CfgOK c) (hh : HsOK c)
    (hgm : g.master = c.hs.master) (hsec : g.secure = true → c.hs.hasCb = true)
    (hR : ∀ h c, HandlerOK c (hstep h c).2) (hA : ∀ h c, HandlerAccepts g c (hstep h c).2)
    (script : List RUnit) (tail : Bytes) (fuel : Nat) (hf : (render script ++ tail).length < fuel) (h : H)
    (hconf : conforms g (writesOf (Proc.run hstep (exchange c fuel) (render script ++ tail) h []).2.2.2) script tail = true) :
    ∃ r, (Proc.run hstep (exchange c fuel) (render script ++ tail) h []).1 = .done r ∧
      (r.err = .nil ∨ r.err = .connLost) := by
  have hRA := ra_of hstep g hR hA
  have hgood := good_exchange hstep c fuel g hRA hh hgm hsec tail
    (fun s => good_ours_all hstep c fuel g hRA tail hc s) (fun s => (good_all hstep c fuel g hRA tail hc s).1) script hf
  exact result_of_resGood (hgood h (verdict_of_conforms g _ script tail hconf))
    (no_fuel_panic hstep c (render script ++ tail) h fuel hf)

/-- The same, read as the contrapositive: a run that ends in a protocol error (class `other`), a panic or
anything but a result was NOT given a conforming conversation. -/
theorem protocol_error_blames_remote {H : Type} (hstep : H → Call → H × Reply) (g : InCfg) (c : Cfg) (hc : CfgOK c) (hh : HsOK c)
    (hgm : g.master = c.hs.master) (hsec : g.secure = true → c.hs.hasCb = true)
    (hR : ∀ h c, HandlerOK c (hstep h c).2) (hA : ∀ h c, HandlerAccepts g c (hstep h c).2)
    (script : List RUnit) (tail : Bytes) (fuel : Nat) (hf : (render script ++ tail).length < fuel) (h : H) (r : Result)
    (hr : (Proc.run hstep (exchange c fuel) (render script ++ tail) h []).1 = .done r) (he : r.err = .other) :
    conforms g (writesOf (Proc.run hstep (exchange c fuel) (render script ++ tail) h []).2.2.2) script tail = false := by
  cases hcf : conforms g (writesOf (Proc.run hstep (exchange c fuel) (render script ++ tail) h []).2.2.2) script tail with
  | false => rfl
  | true =>
    obtain ⟨r', hr', hok⟩ := accepts_grammar hstep g c hc hh hgm hsec hR hA script tail fuel hf h hcf
    rw [hr] at hr'
    cases hr'
    rcases hok with hok | hok <;> rw [he] at hok <;> cases hok

/-! ### the two grammars are dual (element level) -/

/-- **`peer_session_conforms_partial`**: what this library's own session EMITS (characterised by the output
grammar, `emits_grammar`) is allowed by the INPUT grammar, piece by piece: (1) the proposal line written
for a proposal built by `outbound` (`PropOK`: type C, `EM`, MID of 1..12 letters/digits, sizes below 2^63) is
a conforming proposal line carrying its compressed size; (2) the bytes `writeCompressed` writes for a
payload `d` with block size `m ≥ 1` — header, blocks, trailer — are exactly the rendering of the frame unit
with that title, the payload cut into the sender's chunks, and the two's-complement checksum. PARTIAL: the
whole-conversation statement (a session talking to a session conforms) is not proved here; C01/C02
`pair_delivers` / `sent_implies_received` cover that pairing directly. -/
theorem peer_session_conforms_partial :
    (∀ (p : Proposal), PropOK p → p.size < 9223372036854775808 → p.cdata.length < 9223372036854775808 →
      proposal? (plOf p) = some (csz p)) ∧
    (∀ (title d : Bytes) (m : Nat), 1 ≤ m → title.length + 3 < 256 →
      frameHeader title 0 ++ (frameBlocks m d).flatten ++ frameTrailer d =
        (RUnit.frame title (chunksOf m (d.length + 1) d) (UInt8.ofNat (neg8 (byteSum d)))).bytes) :=
  ⟨fun p hp hs hc => emitted_proposal_conforms p hp hs hc,
   fun title d m hm hlen => emitted_frame_is_unit title d m hm hlen⟩

/-! ### the turns -/

/-- **The remote's turn** (`handleInbound` and everything after it, i.e. the rest of the session
`restOfSession c fuel (n+1) false st`), for EVERY script and unfinished last unit `tail`, every handler
whose replies satisfy `HandlerOK` and `HandlerAccepts g`, every state `st` in which no `FQ` was sent or
received, and fuel above the length of the remaining input: if the checker, started in "the remote's turn,
no proposal yet" on the line writes the run makes, does not find the remote at fault (`verdictOK`: not
`bad`, and at the end of the script the tail is an allowed cut), then the run ends in a result that is
not an error other than a lost connection, or in the model's artificial fuel panic (which
`session_terminates` excludes for complete sessions: see `accepts_grammar`). -/
theorem accepts_inbound_turn {H : Type} (hstep : H → Call → H × Reply) (g : InCfg) (c : Cfg) (hc : CfgOK c)
    (hR : ∀ h c, HandlerOK c (hstep h c).2) (hA : ∀ h c, HandlerAccepts g c (hstep h c).2)
    (fuel n : Nat) (st : SState) (hq : st.quitReceived = false) (hs : st.quitSent = false)
    (script : List RUnit) (tail : Bytes) (hf : (render script ++ tail).length < fuel) (h : H)
    (hconf : verdictOK g tail (conf g (.next (.theirs [] 0)
      (lineWrites (writesOf (Proc.run hstep (restOfSession c fuel (n + 1) false st) (render script ++ tail) h []).2.2.2))) script)) :
    resGood (Proc.run hstep (restOfSession c fuel (n + 1) false st) (render script ++ tail) h []).1 := by
  have hT := (good_all hstep c fuel g (ra_of hstep g hR hA) tail hc script).1
  have := hT n fuel [] 0 [] st st .nil hs hf
  rw [← recv_eq c fuel n st hq hs] at this
  exact this h hconf

/-- **Our turn** (`handleOutbound` and the rest of the session, `restOfSession c fuel n true st`): the same
statement with the checker started at "our turn" (`ourTurn` reads from our writes whether we said `FF`,
`FQ`, or sent a proposal block; in the last case the remote owes an `FS` line with at most one answer per
proposal in any allowed letter/symbol form and offsets inside the messages, after which our transfers
follow and the remote's turn begins with a line starting in `F` or `;`). -/
theorem accepts_outbound_turn {H : Type} (hstep : H → Call → H × Reply) (g : InCfg) (c : Cfg) (hc : CfgOK c)
    (hR : ∀ h c, HandlerOK c (hstep h c).2) (hA : ∀ h c, HandlerAccepts g c (hstep h c).2)
    (fuel n : Nat) (st : SState) (hq : st.quitReceived = false) (hs : st.quitSent = false)
    (script : List RUnit) (tail : Bytes) (hf : (render script ++ tail).length < fuel) (h : H)
    (hconf : verdictOK g tail (conf g (ourTurn
      (lineWrites (writesOf (Proc.run hstep (restOfSession c fuel n true st) (render script ++ tail) h []).2.2.2))) script)) :
    resGood (Proc.run hstep (restOfSession c fuel n true st) (render script ++ tail) h []).1 :=
  good_ours_all hstep c fuel g (ra_of hstep g hR hA) tail hc script n st hq hs hf h hconf

/-! ### the cut between the EOT and its checksum byte -/

/-- **`cut_after_eot_is_connection_lost`.** A connection that ends exactly between the `EOT` byte of a transfer
and its checksum byte is reported as a LOST CONNECTION, like every other cut — whatever the data sum is
(`readCompressed` returns the error of that `ReadByte`; before the repair of fbb/b2f.go it ignored the error,
took the missing byte as 0 and reported `bad-checksum`, or — data sum 0 mod 256 — accepted the transfer).
(1) the block loop, in ANY state (any payload so far, any running sum, any declared size), on the lone `EOT`:
`.error .eof`, all input consumed, handler state and trace untouched. (2) `readCompressed` on a whole
well-formed transfer (any title without NUL, any blocks of 1..256 bytes, any checksum byte `ck`) without its
last byte: the same. (3) that cut is one of the cuts the input grammar allows (`cutFrame`), so
`accepts_grammar` covers it: the session ends with `connLost` (evaluated: conversation (a7d) below). -/
theorem cut_after_eot_is_connection_lost {H : Type} (hstep : H → Call → H × Reply) :
    (∀ (csize : Int) (fuel : Nat) (buf : Bytes) (sum : Nat) (h : H) (tr : List Ev),
      Proc.run hstep (readBlocks csize (fuel + 1) buf sum) [4] h tr = (.done (.error .eof), [], h, tr)) ∧
    (∀ (title : Bytes) (chunks : List Bytes) (ck : UInt8) (p : Proposal) (fuel : Nat) (h : H) (tr : List Ev),
      (0 : UInt8) ∉ title → title.length + 3 < 256 → (∀ c ∈ chunks, 1 ≤ c.length ∧ c.length ≤ 256) →
      p.offset = 0 → (RUnit.frame title chunks ck).bytes.length ≤ fuel →
      Proc.run hstep (readCompressed fuel p) (RUnit.frame title chunks ck).bytes.dropLast h tr =
        (.done (.error .eof), [], h, tr)) ∧
    (∀ (title : Bytes) (chunks : List Bytes) (ck : UInt8),
      (0 : UInt8) ∉ title → title.length + 3 < 256 → (∀ c ∈ chunks, 1 ≤ c.length ∧ c.length ≤ 256) →
      cutFrame (RUnit.frame title chunks ck).bytes.dropLast = true) :=
  ⟨fun csize fuel buf sum h tr => run_readBlocks_eot_eof hstep csize fuel buf sum h tr,
   fun title chunks ck p fuel h tr hz hlen hwf hoff hf =>
     run_readCompressed_eot_eof hstep title chunks ck hz hlen hwf p hoff fuel hf h tr,
   fun title chunks ck hz hlen hwf => cutFrame_dropLast title chunks ck hz hlen hwf⟩

/-! ### evaluated conversations -/


/-- handshake configuration of the local station `LA5NTA` (slave side) -/
private def exHs : HsCfg where
  mycall := [76, 65, 53, 78, 84, 65]      -- `LA5NTA`
  targetcall := [76, 65, 49, 66]          -- `LA1B`
  locator := [74, 80, 50, 48]             -- `JP20`
  uaName := [119, 108]                    -- `wl`
  uaVersion := [48, 46, 49]               -- `0.1`
  master := false
  gzip := false
  hasCb := false
  localFW := [[76, 65, 53, 78, 84, 65]]
/-- the local session as slave (it dialled out; the remote speaks first) -/
private def exS : Cfg := { hs := exHs }
/-- the local session as master (it accepted the connection and speaks first) -/
private def exM : Cfg := { hs := { exHs with master := true } }
/-- the grammar's view of `exS` -/
private def exGS : InCfg := { master := false }
/-- the grammar's view of `exM` -/
private def exGM : InCfg := { master := true }
/-- one outbound message: MID `AB`, title `T`, empty body (compressed: 6 bytes) -/
private def exMsg : OutMsg := { mid := [65, 66], title := [84], qtitle := [84], data := [] }
/-- a second outbound message: MID `CD`, title `U`, empty body -/
private def exMsg2 : OutMsg := { mid := [67, 68], title := [85], qtitle := [85], data := [] }

/-- (i) the grammar's verdict on the remote's `script` + unfinished `tail`, relative to what the session
`exchange c 200` (handler state `h`) wrote when it was fed exactly these bytes -/
private def exVerdict (c : Cfg) (g : InCfg) (h : HState) (script : List RUnit) (tail : Bytes) : Bool :=
  conforms g (writesOf (Proc.run hstep (exchange c 200) (render script ++ tail) h []).2.2.2) script tail

/-- (ii) the session fed the same bytes returns (no panic, not blocked) a result satisfying `p` -/
private def exReports (c : Cfg) (h : HState) (script : List RUnit) (tail : Bytes) (p : Result → Bool) : Bool :=
  match (Proc.run hstep (exchange c 200) (render script ++ tail) h []).1 with
  | .done r => p r
  | _ => false

/-- `exVerdict` is, by definition, the explicit statement -/
example (c : Cfg) (g : InCfg) (h : HState) (script : List RUnit) (tail : Bytes) :
    exVerdict c g h script tail
      = conforms g (writesOf (Proc.run hstep (exchange c 200) (render script ++ tail) h []).2.2.2) script tail := rfl

/-- `exReports` is, by definition, the explicit statement -/
example (c : Cfg) (h : HState) (script : List RUnit) (tail : Bytes) (p : Result → Bool) :
    exReports c h script tail p
      = (match (Proc.run hstep (exchange c 200) (render script ++ tail) h []).1 with
          | .done r => p r
          | _ => false) := rfl

/-- the payload used throughout: the LZHUF image of the empty message -/
example : lzDecode [0, 0, 0, 0, 0, 0] = some [] := by decide +kernel

/-! ### (a) accepted conversations -/

/-- (a1) slave side, stated WITHOUT the abbreviations: banner line, empty line, a SID in lower case with an extra
'-' in the name field, a `;FW:` line, the prompt; we have nothing (`FF`), the remote quits (`FQ`).
The grammar accepts; the session ends without error. -/
example :
    let script : List RUnit := [
      .line [87, 101, 108, 99, 111, 109, 101],  -- `Welcome`
      .line [],  -- (empty line)
      .line [91, 82, 77, 83, 45, 49, 46, 48, 45, 98, 50, 102, 104, 109, 36, 93],  -- `[RMS-1.0-b2fhm$]`
      .line [59, 70, 87, 58, 32, 88],  -- `;FW: X`
      .line [67, 77, 83, 62],  -- `CMS>`
      .line [70, 81]  -- `FQ`
    ]
    conforms exGS (writesOf (Proc.run hstep (exchange exS 200) (render script ++ []) {} []).2.2.2) script [] = true ∧
      (match (Proc.run hstep (exchange exS 200) (render script ++ []) {} []).1 with
        | .done r => r.err == .nil
        | _ => false) = true := by
  decide +kernel

/-- (a1w) what the session wrote in conversation (a1): its handshake in ONE write — `;FW: LA5NTA` CR
`[wl-0.1-B2FHM$]` CR `; LA1B DE LA5NTA (JP20)` CR — and then `FF` CR -/
example :
    writesOf (Proc.run hstep (exchange exS 200) (render [
        .line [87, 101, 108, 99, 111, 109, 101], .line [], .line [91, 82, 77, 83, 45, 49, 46, 48, 45, 98, 50, 102, 104, 109, 36, 93],
        .line [59, 70, 87, 58, 32, 88], .line [67, 77, 83, 62], .line [70, 81]]) {} []).2.2.2
      = [[59, 70, 87, 58, 32, 76, 65, 53, 78, 84, 65, 13, 91, 119, 108, 45, 48, 46, 49, 45, 66, 50, 70, 72, 77, 36, 93, 13, 59, 32, 76, 65, 49, 66, 32, 68, 69, 32, 76, 65, 53, 78, 84, 65, 32, 40, 74, 80, 50, 48, 41, 13],
         [70, 70, 13]] := by
  decide +kernel

/-- (a2) comment lines `; hello` / `;PM: x` between the proposals and before `F>`; one proposal; the transfer
cut into SIX 1-byte blocks; then `FQ`. Accepted; the session received M1. -/
example :
    let script : List RUnit := [
      .line [91, 82, 77, 83, 45, 49, 46, 48, 45, 66, 50, 70, 72, 77, 36, 93],  -- `[RMS-1.0-B2FHM$]`
      .line [67, 77, 83, 62],  -- `CMS>`
      .line [59, 32, 104, 101, 108, 108, 111],  -- `; hello`
      .line [70, 67, 32, 69, 77, 32, 77, 49, 32, 48, 32, 54, 32, 48],  -- `FC EM M1 0 6 0`
      .line [59, 80, 77, 58, 32, 120],  -- `;PM: x`
      .line [70, 62, 32, 50, 52],  -- `F> 24`
      .frame [84] [[0], [0], [0], [0], [0], [0]] 0,  -- frame: title `T`, the payload in SIX 1-byte blocks, checksum byte 0
      .line [70, 81]  -- `FQ`
    ]
    exVerdict exS exGS {} script [] = true ∧
      exReports exS {} script [] (fun r => r.err == .nil && r.received == [[77, 49]]) = true := by
  decide +kernel

/-- (a3) the same transfer with the payload in ONE block -/
example :
    let script : List RUnit := [
      .line [91, 82, 77, 83, 45, 49, 46, 48, 45, 66, 50, 70, 72, 77, 36, 93],  -- `[RMS-1.0-B2FHM$]`
      .line [67, 77, 83, 62],  -- `CMS>`
      .line [70, 67, 32, 69, 77, 32, 77, 49, 32, 48, 32, 54, 32, 48],  -- `FC EM M1 0 6 0`
      .line [70, 62, 32, 50, 52],  -- `F> 24`
      .frame [84] [[0, 0, 0, 0, 0, 0]] 0,  -- frame: title `T`, the 6 payload bytes in ONE block, checksum byte 0
      .line [70, 81]  -- `FQ`
    ]
    exVerdict exS exGS {} script [] = true ∧
      exReports exS {} script [] (fun r => r.err == .nil && r.received == [[77, 49]]) = true := by
  decide +kernel

/-- (a3b) two proposals (`EM` and `CM`), the local policy rejects M1: we answer `FS -+` and the remote owes ONE
transfer -/
example :
    let script : List RUnit := [
      .line [91, 82, 77, 83, 45, 49, 46, 48, 45, 66, 50, 70, 72, 77, 36, 93],  -- `[RMS-1.0-B2FHM$]`
      .line [67, 77, 83, 62],  -- `CMS>`
      .line [70, 67, 32, 69, 77, 32, 77, 49, 32, 48, 32, 54, 32, 48],  -- `FC EM M1 0 6 0`
      .line [70, 67, 32, 67, 77, 32, 77, 50, 32, 48, 32, 54, 32, 48],  -- `FC CM M2 0 6 0`
      .line [70, 62, 32, 52, 57],  -- `F> 49`
      .frame [84] [[0, 0, 0, 0, 0, 0]] 0,  -- frame: title `T`, the 6 payload bytes in ONE block, checksum byte 0
      .line [70, 81]  -- `FQ`
    ]
    exVerdict exS exGS { policy := [([77, 49], 45)] } script [] = true ∧
      exReports exS { policy := [([77, 49], 45)] } script [] (fun r => r.err == .nil && r.received == [[77, 50]]) = true := by
  decide +kernel

/-- (a3c) a full block of FIVE proposals, five transfers -/
example :
    let script : List RUnit := [
      .line [91, 82, 77, 83, 45, 49, 46, 48, 45, 66, 50, 70, 72, 77, 36, 93],  -- `[RMS-1.0-B2FHM$]`
      .line [67, 77, 83, 62],  -- `CMS>`
      .line [70, 67, 32, 69, 77, 32, 77, 49, 32, 48, 32, 54, 32, 48],  -- `FC EM M1 0 6 0`
      .line [70, 67, 32, 69, 77, 32, 77, 50, 32, 48, 32, 54, 32, 48],  -- `FC EM M2 0 6 0`
      .line [70, 67, 32, 69, 77, 32, 77, 51, 32, 48, 32, 54, 32, 48],  -- `FC EM M3 0 6 0`
      .line [70, 67, 32, 69, 77, 32, 77, 52, 32, 48, 32, 54, 32, 48],  -- `FC EM M4 0 6 0`
      .line [70, 67, 32, 69, 77, 32, 77, 53, 32, 48, 32, 54, 32, 48],  -- `FC EM M5 0 6 0`
      .line [70, 62, 32, 65, 65],  -- `F> AA`
      .frame [84] [[0, 0, 0, 0, 0, 0]] 0,  -- frame: title `T`, the 6 payload bytes in ONE block, checksum byte 0
      .frame [84] [[0, 0, 0, 0, 0, 0]] 0,  -- frame: title `T`, the 6 payload bytes in ONE block, checksum byte 0
      .frame [84] [[0, 0, 0, 0, 0, 0]] 0,  -- frame: title `T`, the 6 payload bytes in ONE block, checksum byte 0
      .frame [84] [[0, 0, 0, 0, 0, 0]] 0,  -- frame: title `T`, the 6 payload bytes in ONE block, checksum byte 0
      .frame [84] [[0, 0, 0, 0, 0, 0]] 0,  -- frame: title `T`, the 6 payload bytes in ONE block, checksum byte 0
      .line [70, 81]  -- `FQ`
    ]
    exVerdict exS exGS {} script [] = true ∧
      exReports exS {} script [] (fun r => r.err == .nil && r.received == [[77, 49], [77, 50], [77, 51], [77, 52], [77, 53]]) = true := by
  decide +kernel

/-- (a4) a block of 256 bytes carries the length byte 0 (element level: SOH 4 `T` NUL `0` NUL STX 0 …; the whole
frame is 266 bytes: 6 header + 2 + 256 + EOT + checksum) -/
example :
    (RUnit.frame [84] [List.replicate 256 7] 0).bytes.take 8 = [1, 4, 84, 0, 48, 0, 2, 0] ∧
      (RUnit.frame [84] [List.replicate 256 7] 0).bytes.length = 266 := by
  decide +kernel

/-- (a5) we propose `AB` (slave side): the remote answers with a comment line first, then `FS Y` (letter form of
'+'), then — after our transfer — `FF`; we quit. Accepted; AB is recorded as sent. -/
example :
    let script : List RUnit := [
      .line [91, 82, 77, 83, 45, 49, 46, 48, 45, 66, 50, 70, 72, 77, 36, 93],  -- `[RMS-1.0-B2FHM$]`
      .line [67, 77, 83, 62],  -- `CMS>`
      .line [59, 120],  -- `;x`
      .line [70, 83, 32, 89],  -- `FS Y`
      .line [70, 70]  -- `FF`
    ]
    exVerdict exS exGS { outbox := [exMsg] } script [] = true ∧
      exReports exS { outbox := [exMsg] } script [] (fun r => r.err == .nil && r.sent == [[65, 66]]) = true := by
  decide +kernel

/-- (a5m) master side, the remote's SID in lower case, its first command `FF`; it answers our proposal with `FS
A3` (offset form: send from byte 3 of the 6), then `FQ` -/
example :
    let script : List RUnit := [
      .line [91, 82, 77, 83, 45, 49, 46, 48, 45, 98, 50, 102, 104, 109, 36, 93],  -- `[RMS-1.0-b2fhm$]`
      .line [59, 32, 65, 32, 68, 69, 32, 66],  -- `; A DE B`
      .line [70, 70],  -- `FF`
      .line [59, 120],  -- `;x`
      .line [70, 83, 32, 65, 51],  -- `FS A3`
      .line [70, 81]  -- `FQ`
    ]
    exVerdict exM exGM { outbox := [exMsg] } script [] = true ∧
      exReports exM { outbox := [exMsg] } script [] (fun r => r.err == .nil && r.sent == [[65, 66]]) = true := by
  decide +kernel

/-- (a5x) `FS !0` (offset form with `!`, offset 0) -/
example :
    let script : List RUnit := [
      .line [91, 82, 77, 83, 45, 49, 46, 48, 45, 66, 50, 70, 72, 77, 36, 93],  -- `[RMS-1.0-B2FHM$]`
      .line [67, 77, 83, 62],  -- `CMS>`
      .line [70, 83, 32, 33, 48],  -- `FS !0`
      .line [70, 70]  -- `FF`
    ]
    exVerdict exS exGS { outbox := [exMsg] } script [] = true ∧
      exReports exS { outbox := [exMsg] } script [] (fun r => r.err == .nil && r.sent == [[65, 66]]) = true := by
  decide +kernel

/-- (a5e) `FS A6`: the offset may equal the compressed size (the boundary of `offset-outside-message`, cf. (b3))
-/
example :
    let script : List RUnit := [
      .line [91, 82, 77, 83, 45, 49, 46, 48, 45, 66, 50, 70, 72, 77, 36, 93],  -- `[RMS-1.0-B2FHM$]`
      .line [67, 77, 83, 62],  -- `CMS>`
      .line [70, 83, 32, 65, 54],  -- `FS A6`
      .line [70, 70]  -- `FF`
    ]
    exVerdict exS exGS { outbox := [exMsg] } script [] = true ∧
      exReports exS { outbox := [exMsg] } script [] (fun r => r.err == .nil && r.sent == [[65, 66]]) = true := by
  decide +kernel

/-- (a5n) `FS n` (reject, lower-case letter form): nothing is transferred, nothing is recorded as sent -/
example :
    let script : List RUnit := [
      .line [91, 82, 77, 83, 45, 49, 46, 48, 45, 66, 50, 70, 72, 77, 36, 93],  -- `[RMS-1.0-B2FHM$]`
      .line [67, 77, 83, 62],  -- `CMS>`
      .line [70, 83, 32, 110],  -- `FS n`
      .line [70, 70]  -- `FF`
    ]
    exVerdict exS exGS { outbox := [exMsg] } script [] = true ∧
      exReports exS { outbox := [exMsg] } script [] (fun r => r.err == .nil && r.sent == []) = true := by
  decide +kernel

/-- (a5L) `FS L` (defer, letter form) -/
example :
    let script : List RUnit := [
      .line [91, 82, 77, 83, 45, 49, 46, 48, 45, 66, 50, 70, 72, 77, 36, 93],  -- `[RMS-1.0-B2FHM$]`
      .line [67, 77, 83, 62],  -- `CMS>`
      .line [70, 83, 32, 76],  -- `FS L`
      .line [70, 70]  -- `FF`
    ]
    exVerdict exS exGS { outbox := [exMsg] } script [] = true ∧
      exReports exS { outbox := [exMsg] } script [] (fun r => r.err == .nil && r.sent == []) = true := by
  decide +kernel

/-- (a5b) two proposals `AB`, `CD`; the answer `FS Y-` accepts the first and rejects the second -/
example :
    let script : List RUnit := [
      .line [91, 82, 77, 83, 45, 49, 46, 48, 45, 66, 50, 70, 72, 77, 36, 93],  -- `[RMS-1.0-B2FHM$]`
      .line [67, 77, 83, 62],  -- `CMS>`
      .line [70, 83, 32, 89, 45],  -- `FS Y-`
      .line [70, 70]  -- `FF`
    ]
    exVerdict exS exGS { outbox := [exMsg, exMsg2] } script [] = true ∧
      exReports exS { outbox := [exMsg, exMsg2] } script [] (fun r => r.err == .nil && r.sent == [[65, 66]]) = true := by
  decide +kernel

/-- (a5c) FEWER answers than proposals (`FS +` for two) conform: the session treats `CD` as not answered and
proposes it again in its next turn, where the remote rejects it -/
example :
    let script : List RUnit := [
      .line [91, 82, 77, 83, 45, 49, 46, 48, 45, 66, 50, 70, 72, 77, 36, 93],  -- `[RMS-1.0-B2FHM$]`
      .line [67, 77, 83, 62],  -- `CMS>`
      .line [70, 83, 32, 43],  -- `FS +`
      .line [70, 70],  -- `FF`
      .line [70, 83, 32, 45],  -- `FS -`
      .line [70, 70]  -- `FF`
    ]
    exVerdict exS exGS { outbox := [exMsg, exMsg2] } script [] = true ∧
      exReports exS { outbox := [exMsg, exMsg2] } script [] (fun r => r.err == .nil && r.sent == [[65, 66]]) = true := by
  decide +kernel

/-- (a6) master side: the remote's handshake is its SID and a `; A DE B` line; its first command is `FF`; we
have nothing either and quit (`FQ`) -/
example :
    let script : List RUnit := [
      .line [91, 82, 77, 83, 45, 49, 46, 48, 45, 66, 50, 70, 72, 77, 36, 93],  -- `[RMS-1.0-B2FHM$]`
      .line [59, 32, 65, 32, 68, 69, 32, 66],  -- `; A DE B`
      .line [70, 70]  -- `FF`
    ]
    exVerdict exM exGM {} script [] = true ∧
      exReports exM {} script [] (fun r => r.err == .nil) = true := by
  decide +kernel

/-- (a6q) master side: the remote's first command is `FQ` -/
example :
    let script : List RUnit := [
      .line [91, 82, 77, 83, 45, 49, 46, 48, 45, 66, 50, 70, 72, 77, 36, 93],  -- `[RMS-1.0-B2FHM$]`
      .line [59, 32, 65, 32, 68, 69, 32, 66],  -- `; A DE B`
      .line [70, 81]  -- `FQ`
    ]
    exVerdict exM exGM {} script [] = true ∧
      exReports exM {} script [] (fun r => r.err == .nil) = true := by
  decide +kernel

/-- (a6s) slave side turn-overs: prompt — we `FF` — remote `FF` — we `FQ` -/
example :
    let script : List RUnit := [
      .line [91, 82, 77, 83, 45, 49, 46, 48, 45, 66, 50, 70, 72, 77, 36, 93],  -- `[RMS-1.0-B2FHM$]`
      .line [67, 77, 83, 62],  -- `CMS>`
      .line [70, 70]  -- `FF`
    ]
    exVerdict exS exGS {} script [] = true ∧
      exReports exS {} script [] (fun r => r.err == .nil) = true := by
  decide +kernel

/-- (a6m) master side with a MOTD line `Hello` before our handshake -/
example :
    let script : List RUnit := [
      .line [91, 82, 77, 83, 45, 49, 46, 48, 45, 66, 50, 70, 72, 77, 36, 93],  -- `[RMS-1.0-B2FHM$]`
      .line [70, 70]  -- `FF`
    ]
    exVerdict { hs := { exHs with master := true }, motd := [[72, 101, 108, 108, 111]] } exGM {} script [] = true ∧
      exReports { hs := { exHs with master := true }, motd := [[72, 101, 108, 108, 111]] } {} script [] (fun r => r.err == .nil) = true := by
  decide +kernel

/-- (a8) both directions in one session: the remote accepts our `AB`, then proposes M1 itself in the same turn
-/
example :
    let script : List RUnit := [
      .line [91, 82, 77, 83, 45, 49, 46, 48, 45, 66, 50, 70, 72, 77, 36, 93],  -- `[RMS-1.0-B2FHM$]`
      .line [67, 77, 83, 62],  -- `CMS>`
      .line [70, 83, 32, 43],  -- `FS +`
      .line [70, 67, 32, 69, 77, 32, 77, 49, 32, 48, 32, 54, 32, 48],  -- `FC EM M1 0 6 0`
      .line [70, 62, 32, 50, 52],  -- `F> 24`
      .frame [84] [[0, 0, 0, 0, 0, 0]] 0,  -- frame: title `T`, the 6 payload bytes in ONE block, checksum byte 0
      .line [70, 81]  -- `FQ`
    ]
    exVerdict exS exGS { outbox := [exMsg] } script [] = true ∧
      exReports exS { outbox := [exMsg] } script [] (fun r => r.err == .nil && r.sent == [[65, 66]] && r.received == [[77, 49]]) = true := by
  decide +kernel

/-- (a9) two SID lines and a banner between them (the handshake grammar allows any number of SIDs) -/
example :
    let script : List RUnit := [
      .line [91, 88, 45, 66, 50, 93],  -- `[X-B2]`
      .line [104, 101, 108, 108, 111],  -- `hello`
      .line [91, 82, 77, 83, 45, 49, 46, 48, 45, 66, 50, 70, 72, 77, 36, 93],  -- `[RMS-1.0-B2FHM$]`
      .line [67, 77, 83, 62],  -- `CMS>`
      .line [70, 81]  -- `FQ`
    ]
    exVerdict exS exGS {} script [] = true ∧
      exReports exS {} script [] (fun r => r.err == .nil) = true := by
  decide +kernel

/-- (a10) secure login: the remote sends a `;PQ:` challenge; the local side has a password callback (password
`pw`) and the grammar is told so (`secure := true`) -/
example :
    let script : List RUnit := [
      .line [91, 82, 77, 83, 45, 49, 46, 48, 45, 66, 50, 70, 72, 77, 36, 93],  -- `[RMS-1.0-B2FHM$]`
      .line [59, 80, 81, 58, 32, 49, 50, 51, 52, 53, 54, 55, 56],  -- `;PQ: 12345678`
      .line [67, 77, 83, 62],  -- `CMS>`
      .line [70, 81]  -- `FQ`
    ]
    exVerdict { hs := { exHs with hasCb := true } } { master := false, secure := true } { passwords := [([112, 119], false)] } script [] = true ∧
      exReports { hs := { exHs with hasCb := true } } { passwords := [([112, 119], false)] } script [] (fun r => r.err == .nil) = true := by
  decide +kernel

/-- (a7) a conforming prefix, then the connection ends inside a line (`F>` without its CR): still conforming;
the session reports a lost connection -/
example :
    let script : List RUnit := [
      .line [91, 82, 77, 83, 45, 49, 46, 48, 45, 66, 50, 70, 72, 77, 36, 93],  -- `[RMS-1.0-B2FHM$]`
      .line [67, 77, 83, 62],  -- `CMS>`
      .line [70, 67, 32, 69, 77, 32, 77, 49, 32, 48, 32, 54, 32, 48]  -- `FC EM M1 0 6 0`
    ]
    exVerdict exS exGS {} script [70, 62] = true ∧
      exReports exS {} script [70, 62] (fun r => r.err == .connLost) = true := by
  decide +kernel

/-- (a7b) the connection ends inside a data block (3 of the 6 announced bytes): conforming; lost connection,
nothing recorded as received -/
example :
    let script : List RUnit := [
      .line [91, 82, 77, 83, 45, 49, 46, 48, 45, 66, 50, 70, 72, 77, 36, 93],  -- `[RMS-1.0-B2FHM$]`
      .line [67, 77, 83, 62],  -- `CMS>`
      .line [70, 67, 32, 69, 77, 32, 77, 49, 32, 48, 32, 54, 32, 48],  -- `FC EM M1 0 6 0`
      .line [70, 62, 32, 50, 52]  -- `F> 24`
    ]
    exVerdict exS exGS {} script [1, 4, 84, 0, 48, 0, 2, 6, 0, 0, 0] = true ∧
      exReports exS {} script [1, 4, 84, 0, 48, 0, 2, 6, 0, 0, 0] (fun r => r.err == .connLost && r.received == []) = true := by
  decide +kernel

/-- (a7c) the connection ends after the last data block, before the EOT: conforming; lost connection -/
example :
    let script : List RUnit := [
      .line [91, 82, 77, 83, 45, 49, 46, 48, 45, 66, 50, 70, 72, 77, 36, 93],  -- `[RMS-1.0-B2FHM$]`
      .line [67, 77, 83, 62],  -- `CMS>`
      .line [70, 67, 32, 69, 77, 32, 77, 49, 32, 48, 32, 54, 32, 48],  -- `FC EM M1 0 6 0`
      .line [70, 62, 32, 50, 52]  -- `F> 24`
    ]
    exVerdict exS exGS {} script [1, 4, 84, 0, 48, 0, 2, 6, 0, 0, 0, 0, 0, 0] = true ∧
      exReports exS {} script [1, 4, 84, 0, 48, 0, 2, 6, 0, 0, 0, 0, 0, 0] (fun r => r.err == .connLost && r.received == []) = true := by
  decide +kernel

/-- (a7d) the connection ends right after the EOT byte, the checksum byte never arrives (the payload's byte sum
is 0 mod 256, so a missing byte read as 0 WOULD be the right checksum): conforming — the grammar allows every
cut, `cutFrame` —; lost connection, nothing recorded as received (`cut_after_eot_is_connection_lost`) -/
example :
    let script : List RUnit := [
      .line [91, 82, 77, 83, 45, 49, 46, 48, 45, 66, 50, 70, 72, 77, 36, 93],  -- `[RMS-1.0-B2FHM$]`
      .line [67, 77, 83, 62],  -- `CMS>`
      .line [70, 67, 32, 69, 77, 32, 77, 49, 32, 48, 32, 54, 32, 48],  -- `FC EM M1 0 6 0`
      .line [70, 62, 32, 50, 52]  -- `F> 24`
    ]
    exVerdict exS exGS {} script [1, 4, 84, 0, 48, 0, 2, 6, 0, 0, 0, 0, 0, 0, 4] = true ∧
      exReports exS {} script [1, 4, 84, 0, 48, 0, 2, 6, 0, 0, 0, 0, 0, 0, 4] (fun r => r.err == .connLost && r.received == []) = true := by
  decide +kernel

/-! ### (b) rejected conversations, and what the session reports -/

/-- (b1) wrong checksum on the `F>` line (`F> 00`, correct: `F> 24`) -/
example :
    let script : List RUnit := [
      .line [91, 82, 77, 83, 45, 49, 46, 48, 45, 66, 50, 70, 72, 77, 36, 93],  -- `[RMS-1.0-B2FHM$]`
      .line [67, 77, 83, 62],  -- `CMS>`
      .line [70, 67, 32, 69, 77, 32, 77, 49, 32, 48, 32, 54, 32, 48],  -- `FC EM M1 0 6 0`
      .line [70, 62, 32, 48, 48]  -- `F> 00`
    ]
    exVerdict exS exGS {} script [] = false ∧
      exReports exS {} script [] (fun r => r.err == .other && r.what == "checksum-error") = true := by
  decide +kernel

/-- (b2) two answers `FS ++` for our one proposal -/
example :
    let script : List RUnit := [
      .line [91, 82, 77, 83, 45, 49, 46, 48, 45, 66, 50, 70, 72, 77, 36, 93],  -- `[RMS-1.0-B2FHM$]`
      .line [67, 77, 83, 62],  -- `CMS>`
      .line [70, 83, 32, 43, 43],  -- `FS ++`
      .line [70, 70]  -- `FF`
    ]
    exVerdict exS exGS { outbox := [exMsg] } script [] = false ∧
      exReports exS { outbox := [exMsg] } script [] (fun r => r.err == .other && r.what == "unable-to-parse-proposal-answer") = true := by
  decide +kernel

/-- (b3) `FS A7`: offset 7 in a message of 6 compressed bytes -/
example :
    let script : List RUnit := [
      .line [91, 82, 77, 83, 45, 49, 46, 48, 45, 66, 50, 70, 72, 77, 36, 93],  -- `[RMS-1.0-B2FHM$]`
      .line [67, 77, 83, 62],  -- `CMS>`
      .line [70, 83, 32, 65, 55],  -- `FS A7`
      .line [70, 70]  -- `FF`
    ]
    exVerdict exS exGS { outbox := [exMsg] } script [] = false ∧
      exReports exS { outbox := [exMsg] } script [] (fun r => r.err == .other && r.what == "offset-outside-message") = true := by
  decide +kernel

/-- (b4) a transfer whose checksum byte is wrong (1 instead of 0) -/
example :
    let script : List RUnit := [
      .line [91, 82, 77, 83, 45, 49, 46, 48, 45, 66, 50, 70, 72, 77, 36, 93],  -- `[RMS-1.0-B2FHM$]`
      .line [67, 77, 83, 62],  -- `CMS>`
      .line [70, 67, 32, 69, 77, 32, 77, 49, 32, 48, 32, 54, 32, 48],  -- `FC EM M1 0 6 0`
      .line [70, 62, 32, 50, 52],  -- `F> 24`
      .frame [84] [[0, 0, 0, 0, 0, 0]] 1,  -- frame: title `T`, one block, checksum byte 1 (wrong)
      .line [70, 81]  -- `FQ`
    ]
    exVerdict exS exGS {} script [] = false ∧
      exReports exS {} script [] (fun r => r.err == .other && r.what == "bad-checksum" && r.received == []) = true := by
  decide +kernel

/-- (b5) an unknown answer letter `FS E` -/
example :
    let script : List RUnit := [
      .line [91, 82, 77, 83, 45, 49, 46, 48, 45, 66, 50, 70, 72, 77, 36, 93],  -- `[RMS-1.0-B2FHM$]`
      .line [67, 77, 83, 62],  -- `CMS>`
      .line [70, 83, 32, 69],  -- `FS E`
      .line [70, 70]  -- `FF`
    ]
    exVerdict exS exGS { outbox := [exMsg] } script [] = false ∧
      exReports exS { outbox := [exMsg] } script [] (fun r => r.err == .other && r.what == "unable-to-parse-proposal-answer") = true := by
  decide +kernel

/-- (b6) a SID without `B2` in its feature field -/
example :
    let script : List RUnit := [
      .line [91, 82, 77, 83, 45, 49, 46, 48, 45, 66, 70, 72, 77, 36, 93],  -- `[RMS-1.0-BFHM$]`
      .line [67, 77, 83, 62],  -- `CMS>`
      .line [70, 70]  -- `FF`
    ]
    exVerdict exS exGS {} script [] = false ∧
      exReports exS {} script [] (fun r => r.err == .other && r.what == "no-fb2") = true := by
  decide +kernel

/-- (b7) slave side: the prompt before any SID -/
example :
    let script : List RUnit := [
      .line [67, 77, 83, 62],  -- `CMS>`
      .line [91, 82, 77, 83, 45, 49, 46, 48, 45, 66, 50, 70, 72, 77, 36, 93],  -- `[RMS-1.0-B2FHM$]`
      .line [70, 70]  -- `FF`
    ]
    exVerdict exS exGS {} script [] = false ∧
      exReports exS {} script [] (fun r => r.err == .other && r.what == "no-sid") = true := by
  decide +kernel

/-- (b7m) master side: a command before any SID -/
example :
    let script : List RUnit := [
      .line [70, 70]  -- `FF`
    ]
    exVerdict exM exGM {} script [] = false ∧
      exReports exM {} script [] (fun r => r.err == .other && r.what == "no-sid") = true := by
  decide +kernel

/-- (b8) a transfer shorter (6 bytes) than proposed (7) -/
example :
    let script : List RUnit := [
      .line [91, 82, 77, 83, 45, 49, 46, 48, 45, 66, 50, 70, 72, 77, 36, 93],  -- `[RMS-1.0-B2FHM$]`
      .line [67, 77, 83, 62],  -- `CMS>`
      .line [70, 67, 32, 69, 77, 32, 77, 49, 32, 48, 32, 55, 32, 48],  -- `FC EM M1 0 7 0`
      .line [70, 62, 32, 50, 51],  -- `F> 23`
      .frame [84] [[0, 0, 0, 0, 0, 0]] 0,  -- frame: title `T`, the 6 payload bytes in ONE block, checksum byte 0
      .line [70, 81]  -- `FQ`
    ]
    exVerdict exS exGS {} script [] = false ∧
      exReports exS {} script [] (fun r => r.err == .other && r.what == "length-mismatch-after-eot") = true := by
  decide +kernel

/-- (b9) an unknown command in the remote's turn -/
example :
    let script : List RUnit := [
      .line [91, 82, 77, 83, 45, 49, 46, 48, 45, 66, 50, 70, 72, 77, 36, 93],  -- `[RMS-1.0-B2FHM$]`
      .line [67, 77, 83, 62],  -- `CMS>`
      .line [70, 88]  -- `FX`
    ]
    exVerdict exS exGS {} script [] = false ∧
      exReports exS {} script [] (fun r => r.err == .other && r.what == "unknown-protocol-command") = true := by
  decide +kernel

/-- (b10) a `*** …` error line from the remote: not part of the grammar; the session reports the remote's error
-/
example :
    let script : List RUnit := [
      .line [91, 82, 77, 83, 45, 49, 46, 48, 45, 66, 50, 70, 72, 77, 36, 93],  -- `[RMS-1.0-B2FHM$]`
      .line [67, 77, 83, 62],  -- `CMS>`
      .line [42, 42, 42, 32, 111, 111, 112, 115]  -- `*** oops`
    ]
    exVerdict exS exGS {} script [] = false ∧
      exReports exS {} script [] (fun r => r.err == .other && r.what == "remote-error") = true := by
  decide +kernel

/-- (b11) a `;PQ:` challenge when the local side cannot answer it (no password callback; grammar: `secure :=
false`) -/
example :
    let script : List RUnit := [
      .line [91, 82, 77, 83, 45, 49, 46, 48, 45, 66, 50, 70, 72, 77, 36, 93],  -- `[RMS-1.0-B2FHM$]`
      .line [59, 80, 81, 58, 32, 49, 50, 51, 52, 53, 54, 55, 56],  -- `;PQ: 12345678`
      .line [67, 77, 83, 62],  -- `CMS>`
      .line [70, 81]  -- `FQ`
    ]
    exVerdict exS exGS {} script [] = false ∧
      exReports exS {} script [] (fun r => r.err == .other && r.what == "no-secure-login-handler") = true := by
  decide +kernel

/-- (b12) a malformed `;FW` line (no `: `) -/
example :
    let script : List RUnit := [
      .line [91, 82, 77, 83, 45, 49, 46, 48, 45, 66, 50, 70, 72, 77, 36, 93],  -- `[RMS-1.0-B2FHM$]`
      .line [59, 70, 87, 88],  -- `;FWX`
      .line [67, 77, 83, 62],  -- `CMS>`
      .line [70, 81]  -- `FQ`
    ]
    exVerdict exS exGS {} script [] = false ∧
      exReports exS {} script [] (fun r => r.err == .other && r.what == "malformed-fw") = true := by
  decide +kernel

/-! ### findings: the grammar rejects, the session accepts -/

/-- (F1) FINDING — a SIXTH proposal line in one block: the grammar rejects (at most 5), the session does NOT
enforce the limit on inbound blocks: it answers `FS ++++++`, takes six transfers and ends without error -/
example :
    let script : List RUnit := [
      .line [91, 82, 77, 83, 45, 49, 46, 48, 45, 66, 50, 70, 72, 77, 36, 93],  -- `[RMS-1.0-B2FHM$]`
      .line [67, 77, 83, 62],  -- `CMS>`
      .line [70, 67, 32, 69, 77, 32, 77, 49, 32, 48, 32, 54, 32, 48],  -- `FC EM M1 0 6 0`
      .line [70, 67, 32, 69, 77, 32, 77, 50, 32, 48, 32, 54, 32, 48],  -- `FC EM M2 0 6 0`
      .line [70, 67, 32, 69, 77, 32, 77, 51, 32, 48, 32, 54, 32, 48],  -- `FC EM M3 0 6 0`
      .line [70, 67, 32, 69, 77, 32, 77, 52, 32, 48, 32, 54, 32, 48],  -- `FC EM M4 0 6 0`
      .line [70, 67, 32, 69, 77, 32, 77, 53, 32, 48, 32, 54, 32, 48],  -- `FC EM M5 0 6 0`
      .line [70, 67, 32, 69, 77, 32, 77, 54, 32, 48, 32, 54, 32, 48],  -- `FC EM M6 0 6 0`
      .line [70, 62, 32, 67, 57],  -- `F> C9`
      .frame [84] [[0, 0, 0, 0, 0, 0]] 0,  -- frame: title `T`, the 6 payload bytes in ONE block, checksum byte 0
      .frame [84] [[0, 0, 0, 0, 0, 0]] 0,  -- frame: title `T`, the 6 payload bytes in ONE block, checksum byte 0
      .frame [84] [[0, 0, 0, 0, 0, 0]] 0,  -- frame: title `T`, the 6 payload bytes in ONE block, checksum byte 0
      .frame [84] [[0, 0, 0, 0, 0, 0]] 0,  -- frame: title `T`, the 6 payload bytes in ONE block, checksum byte 0
      .frame [84] [[0, 0, 0, 0, 0, 0]] 0,  -- frame: title `T`, the 6 payload bytes in ONE block, checksum byte 0
      .frame [84] [[0, 0, 0, 0, 0, 0]] 0,  -- frame: title `T`, the 6 payload bytes in ONE block, checksum byte 0
      .line [70, 81]  -- `FQ`
    ]
    exVerdict exS exGS {} script [] = false ∧
      exReports exS {} script [] (fun r => r.err == .nil && r.received == [[77, 49], [77, 50], [77, 51], [77, 52], [77, 53], [77, 54]]) = true := by
  decide +kernel

/-- (F2) FINDING — `FQ` while a proposal is pending (no `F>`): the grammar rejects, the session just quits
without error and forgets the proposal -/
example :
    let script : List RUnit := [
      .line [91, 82, 77, 83, 45, 49, 46, 48, 45, 66, 50, 70, 72, 77, 36, 93],  -- `[RMS-1.0-B2FHM$]`
      .line [67, 77, 83, 62],  -- `CMS>`
      .line [70, 67, 32, 69, 77, 32, 77, 49, 32, 48, 32, 54, 32, 48],  -- `FC EM M1 0 6 0`
      .line [70, 81]  -- `FQ`
    ]
    exVerdict exS exGS {} script [] = false ∧
      exReports exS {} script [] (fun r => r.err == .nil && r.received == []) = true := by
  decide +kernel

/-- (F4) a transfer unit where none is owed (right after the prompt): the grammar rejects; the session reads the
bytes as an unfinished line and reports a lost connection -/
example :
    let script : List RUnit := [
      .line [91, 82, 77, 83, 45, 49, 46, 48, 45, 66, 50, 70, 72, 77, 36, 93],  -- `[RMS-1.0-B2FHM$]`
      .line [67, 77, 83, 62],  -- `CMS>`
      .frame [84] [[0, 0, 0, 0, 0, 0]] 0  -- frame: title `T`, the 6 payload bytes in ONE block, checksum byte 0
    ]
    exVerdict exS exGS {} script [] = false ∧
      exReports exS {} script [] (fun r => r.err == .connLost) = true := by
  decide +kernel

/-- (F5) a block of length 0 in the script (`STX 0` = "256 bytes follow" on the wire): the grammar rejects the
empty block; the session waits for 256 bytes and reports a lost connection -/
example :
    let script : List RUnit := [
      .line [91, 82, 77, 83, 45, 49, 46, 48, 45, 66, 50, 70, 72, 77, 36, 93],  -- `[RMS-1.0-B2FHM$]`
      .line [67, 77, 83, 62],  -- `CMS>`
      .line [70, 67, 32, 69, 77, 32, 77, 49, 32, 48, 32, 54, 32, 48],  -- `FC EM M1 0 6 0`
      .line [70, 62, 32, 50, 52],  -- `F> 24`
      .frame [84] [[0, 0, 0, 0, 0, 0], []] 0,  -- frame: title `T`, a 6-byte block and an EMPTY block, checksum byte 0
      .line [70, 81]  -- `FQ`
    ]
    exVerdict exS exGS {} script [] = false ∧
      exReports exS {} script [] (fun r => r.err == .connLost) = true := by
  decide +kernel

/-- (F6) a MID of 13 characters (the grammar: 1..12): the session accepts the proposal and the transfer -/
example :
    let script : List RUnit := [
      .line [91, 82, 77, 83, 45, 49, 46, 48, 45, 66, 50, 70, 72, 77, 36, 93],  -- `[RMS-1.0-B2FHM$]`
      .line [67, 77, 83, 62],  -- `CMS>`
      .line [70, 67, 32, 69, 77, 32, 65, 66, 67, 68, 69, 70, 71, 72, 73, 74, 75, 76, 77, 32, 48, 32, 54, 32, 48],  -- `FC EM ABCDEFGHIJKLM 0 6 0`
      .line [70, 62, 32, 48, 55],  -- `F> 07`
      .frame [84] [[0, 0, 0, 0, 0, 0]] 0,  -- frame: title `T`, the 6 payload bytes in ONE block, checksum byte 0
      .line [70, 81]  -- `FQ`
    ]
    exVerdict exS exGS {} script [] = false ∧
      exReports exS {} script [] (fun r => r.err == .nil && r.received == [[65, 66, 67, 68, 69, 70, 71, 72, 73, 74, 75, 76, 77]]) = true := by
  decide +kernel

/-- (F7) a trailing blank (`FQ ` — the grammar's lines have no leading / trailing blanks): the session trims it
-/
example :
    let script : List RUnit := [
      .line [91, 82, 77, 83, 45, 49, 46, 48, 45, 66, 50, 70, 72, 77, 36, 93],  -- `[RMS-1.0-B2FHM$]`
      .line [67, 77, 83, 62],  -- `CMS>`
      .line [70, 81, 32]  -- `FQ `
    ]
    exVerdict exS exGS {} script [] = false ∧
      exReports exS {} script [] (fun r => r.err == .nil) = true := by
  decide +kernel


/-! ### non-vacuity of the theorems: the hypotheses are satisfiable, for ALL scripts -/

/-- a handler that offers nothing, rejects every proposal, and answers every other call neutrally -/
private def quietHandler (u : Unit) : Call → Unit × Reply
  | .getOutbound _ => (u, .msgs [])
  | .getInboundAnswer _ => (u, .answer 45)
  | .getInboundAnswers vs => (u, .answers (vs.map fun _ => 45))
  | .password _ => (u, .password [] false)
  | _ => (u, .unit)

private theorem quiet_ok (g : InCfg) : (∀ h c, HandlerOK c (quietHandler h c).2) ∧ (∀ h c, HandlerAccepts g c (quietHandler h c).2) := by
  refine ⟨?_, ?_⟩
  · intro h c
    cases c <;> simp [quietHandler, HandlerOK, PlainAnswer, ansAccept, ansReject, ansDefer]
  · intro h c
    cases c <;> simp [quietHandler, HandlerAccepts]

private theorem exS_ok : CfgOK exS ∧ HsOK exS :=
  ⟨⟨by decide, by decide, by decide, by decide, by decide⟩,
   ⟨by decide, by decide, by decide, by decide, by decide, by decide, by decide, by decide⟩⟩

/-- `accepts_grammar` / `protocol_error_blames_remote` apply to this configuration and handler for EVERY
script, tail and sufficient fuel (their hypotheses are satisfiable) -/
example (script : List RUnit) (tail : Bytes) (fuel : Nat) (hf : (render script ++ tail).length < fuel)
    (hconf : conforms exGS (writesOf (Proc.run quietHandler (exchange exS fuel) (render script ++ tail) () []).2.2.2) script tail = true) :
    ∃ r, (Proc.run quietHandler (exchange exS fuel) (render script ++ tail) () []).1 = .done r ∧
      (r.err = .nil ∨ r.err = .connLost) :=
  accepts_grammar quietHandler exGS exS exS_ok.1 exS_ok.2 rfl (by intro h; cases h) (quiet_ok exGS).1 (quiet_ok exGS).2
    script tail fuel hf () hconf

/-- … and the turn theorems, from a fresh state -/
example (script : List RUnit) (tail : Bytes) (fuel n : Nat) (hf : (render script ++ tail).length < fuel)
    (hconf : verdictOK exGS tail (conf exGS (ourTurn
      (lineWrites (writesOf (Proc.run quietHandler (restOfSession exS fuel n true {}) (render script ++ tail) () []).2.2.2))) script)) :
    resGood (Proc.run quietHandler (restOfSession exS fuel n true {}) (render script ++ tail) () []).1 :=
  accepts_outbound_turn quietHandler exGS exS exS_ok.1 (quiet_ok exGS).1 (quiet_ok exGS).2 fuel n {} rfl rfl script tail hf () hconf

example (script : List RUnit) (tail : Bytes) (fuel n : Nat) (hf : (render script ++ tail).length < fuel)
    (hconf : verdictOK exGS tail (conf exGS (.next (.theirs [] 0)
      (lineWrites (writesOf (Proc.run quietHandler (restOfSession exS fuel (n + 1) false {}) (render script ++ tail) () []).2.2.2))) script)) :
    resGood (Proc.run quietHandler (restOfSession exS fuel (n + 1) false {}) (render script ++ tail) () []).1 :=
  accepts_inbound_turn quietHandler exGS exS exS_ok.1 (quiet_ok exGS).1 (quiet_ok exGS).2 fuel n {} rfl rfl script tail hf () hconf

/-- the cut after EOT: data sum 7 — a lost connection (formerly: the missing byte read as 0, "bad-checksum") … -/
example : (Proc.run hstep (readBlocks 1 5 [7] 7) [4] ({} : HState) []).1 = .done (.error .eof) :=
  congrArg (·.1) ((cut_after_eot_is_connection_lost hstep).1 1 4 [7] 7 ({} : HState) [])
/-- … and data sum 0 — a lost connection too (formerly: ACCEPTED as a complete transfer) -/
example : (match (Proc.run hstep (readBlocks 1 5 [0] 0) [4] ({} : HState) []).1 with
    | .done (.error .eof) => true
    | _ => false) = true := by decide +kernel
/-- the whole transfer `SOH 4 T NUL 0 NUL STX 6 <6 bytes> EOT` without its checksum byte, evaluated -/
example : (match (Proc.run hstep (readCompressed 20 { code := 67, msgType := [69, 77], mid := [77, 49], size := 0, csize := 6 })
      [1, 4, 84, 0, 48, 0, 2, 6, 0, 0, 0, 0, 0, 0, 4] ({} : HState) []).1 with
    | .done (.error .eof) => true
    | _ => false) = true := by decide +kernel
example : (RUnit.frame [84] [[0, 0, 0, 0, 0, 0]] 0).bytes.dropLast = [1, 4, 84, 0, 48, 0, 2, 6, 0, 0, 0, 0, 0, 0, 4] := by
  decide +kernel

/-- the duality pieces on a concrete proposal (MID `AB`, 0 bytes, compressed 6) and a concrete frame -/
example : proposal? (proposalLine 67 [69, 77] [65, 66] 0 6) = some 6 := by decide +kernel
example : frameHeader [84] 0 ++ (frameBlocks 4 [0, 0, 0, 0, 0, 0]).flatten ++ frameTrailer [0, 0, 0, 0, 0, 0] =
    (RUnit.frame [84] [[0, 0, 0, 0], [0, 0]] 0).bytes := by decide +kernel

end Wl2k.Props.C05
