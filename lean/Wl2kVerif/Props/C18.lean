import Wl2kVerif.Proofs.Body
/-
C18 — setting a message body preserves the text.
`L1 s` = `s` is the UTF-8 encoding of characters ≤ U+00FF, i.e. "representable in the body
character set" (`l1_of_runes` shows every such text satisfies it, so nothing below is vacuous).
-/
namespace Wl2k.Props.C18
open Wl2k Wl2k.Msg Wl2k.Utf8

/-- The pieces (output lines without their CRLF, still UTF-8) of a text. -/
def pieces (s : Bytes) : List Bytes := (scanLines s).flatMap (wrap 998)

theorem pieces_spec {s : Bytes} (h : L1 s) :
    ∀ p ∈ pieces s, L1 p ∧ p.length ≤ 998 ∧ (10 : UInt8) ∉ p := by
  intro p hp
  simp only [pieces, List.mem_flatMap] at hp
  obtain ⟨l, hl, hpl⟩ := hp
  have hs := (scanLines_spec h).1 l hl
  have hw := wrap_spec hs.1
  refine ⟨(hw.1 p hpl).1, (hw.1 p hpl).2, ?_⟩
  intro h10
  exact hs.2 (mem_of_mem_flatten_eq hw.2 hpl h10)

theorem l1_flatMap_crlf (ps : List Bytes) (h : ∀ p ∈ ps, L1 p) : L1 (ps.flatMap (· ++ crlf)) := by
  induction ps with
  | nil => exact L1.nil
  | cons p t ih =>
    simp only [List.flatMap_cons]
    exact ((h p (by simp)).append l1_crlf).append (ih (fun q hq => h q (by simp [hq])))

theorem toLatin1_flatMap_crlf (ps : List Bytes) (h : ∀ p ∈ ps, L1 p) :
    toLatin1 (ps.flatMap (· ++ crlf)) = ps.flatMap (fun p => toLatin1 p ++ crlf) := by
  induction ps with
  | nil => rfl
  | cons p t ih =>
    simp only [List.flatMap_cons]
    rw [toLatin1_append ((h p (by simp)).append l1_crlf), toLatin1_append (h p (by simp)),
        ih (fun q hq => h q (by simp [hq]))]
    rfl

theorem wrapped_eq (s : Bytes) : wrapped 998 s = (pieces s).flatMap (· ++ crlf) := by
  simp [wrapped, pieces, List.flatMap_assoc]

/-- **Every line ends in CRLF and no line exceeds 1000 bytes including CRLF.**
The stored body is a concatenation of lines `l ++ CRLF` with `l` free of LF and at most 998 bytes. -/
theorem lines_crlf_le_1000 (s : Bytes) (h : L1 s) :
    ∃ ls : List Bytes, stringToBody s = ls.flatMap (· ++ crlf) ∧
      ∀ l ∈ ls, l.length + 2 ≤ 1000 ∧ (10 : UInt8) ∉ l := by
  refine ⟨(pieces s).map toLatin1, ?_, ?_⟩
  · unfold stringToBody
    rw [wrapped_eq, toLatin1_flatMap_crlf _ (fun p hp => (pieces_spec h p hp).1)]
    simp [List.flatMap_map]
  · intro l hl
    simp only [List.mem_map] at hl
    obtain ⟨p, hp, rfl⟩ := hl
    have := pieces_spec h p hp
    have hlen := toLatin1_length this.1
    exact ⟨by omega, lf_toLatin1 this.1 this.2.2⟩

theorem strip_flatMap_crlf (ps : List Bytes) : strip (ps.flatMap (· ++ crlf)) = ps.flatMap strip := by
  induction ps with
  | nil => rfl
  | cons p t ih =>
    simp only [List.flatMap_cons, strip_append, ih]
    simp [strip, crlf]

theorem strip_flatten (ps : List Bytes) : ps.flatMap strip = strip ps.flatten := by
  induction ps with
  | nil => rfl
  | cons p t ih => simp [strip_append, ih]

/-- **Nothing is dropped or altered:** removing all CR and LF from the stored body and from the
(translated) input leaves identical bytes — for texts and lines of any length. -/
theorem body_preserves_text (s : Bytes) (h : L1 s) :
    strip (stringToBody s) = strip (toLatin1 s) := by
  have hp := pieces_spec h
  have hw : L1 (wrapped 998 s) := by
    rw [wrapped_eq]; exact l1_flatMap_crlf _ (fun p q => (hp p q).1)
  unfold stringToBody
  rw [(strip_toLatin1 hw).1, (strip_toLatin1 h).1]
  congr 1
  -- byte level: strip (wrapped s) = strip s
  rw [wrapped_eq, strip_flatMap_crlf]
  have hs := scanLines_spec h
  rw [← hs.2]
  simp only [pieces, List.flatMap_assoc]
  rw [List.flatMap_def, List.flatMap_def]
  congr 1
  apply List.map_congr_left
  intro l hl
  rw [strip_flatten, (wrap_spec (hs.1 l hl).1).2]

/-- The `Body` header written by `SetBody` is the decimal length of the stored body (model of
`m.Header.Set(HEADER_BODY, fmt.Sprintf("%d", len(bytes)))`; BodySize parses it back - correspondence). -/
def bodyHeader (s : Bytes) : Nat := (stringToBody s).length

/-- Every text made of characters ≤ U+00FF is covered (the hypotheses above are satisfiable by all
Latin-1 representable strings), and its translation is exactly its ISO-8859-1 byte string. -/
theorem representable_covered (rs : List Nat) (h : ∀ r ∈ rs, r < 256) : L1 (rs.flatMap encodeRune) :=
  l1_of_runes rs h

/-- Non-vacuity / regression witnesses (evaluated by the kernel): 997×'x' followed by "æøå" wraps
before the two-byte 'æ' instead of splitting it. -/
example : stringToBody (List.replicate 997 120 ++ [0xC3, 0xA6, 0xC3, 0xB8, 10]) =
    List.replicate 997 120 ++ [13, 10] ++ [0xE6, 0xF8] ++ [13, 10] := by decide +kernel

end Wl2k.Props.C18
